(* Crash/ProofsReaders.v — C20: at every point of every interleaving of the importer's steps (atomic writes and
   publications of the in-memory best / finalized pointers) with reader steps, the published best block is complete.
   Reader steps do not change the state (queries_are_pure), so "every interleaving" is "every prefix of the importer's steps". *)
From Coq Require Import List NArith Bool Lia.
From Verif Require Import Crash.Model Crash.ProofsStore Crash.ProofsInv Crash.ProofsImport Crash.ProofsCrash.
Import ListNotations.
Open Scope N_scope.

Definition sys_inv (c : cfg) (y : sys) : Prop :=
  Inv c (y_store y) /\ stored (y_store y) (y_best y) = true /\ stored (y_store y) (y_fin y) = true.

(* a step list is good from store s: every write keeps the invariant and every stored block, every publication names a stored block *)
Fixpoint good_steps (c : cfg) (s : store) (l : list step) : Prop :=
  match l with
  | [] => True
  | SWrite w :: r => Inv c (apply_batch s w) /\ (forall id, stored s id = true -> stored (apply_batch s w) id = true)
                     /\ good_steps c (apply_batch s w) r
  | SPubBest id :: r => stored s id = true /\ good_steps c s r
  | SPubFin f :: r => stored s f = true /\ good_steps c s r
  end.

Lemma do_steps_store y l : y_store (do_steps y l) = apply_writes (y_store y) (writes_of_steps l).
Proof.
  revert y. induction l as [|x l IH]; intro y; simpl; auto.
  unfold do_steps in *. simpl. rewrite IH. destruct x; simpl; auto.
Qed.

Lemma good_steps_prefix c l : forall y k, sys_inv c y -> good_steps c (y_store y) l -> sys_inv c (do_steps y (firstn k l)).
Proof.
  induction l as [|x l IH]; intros y k Hy Hg.
  - destruct k; simpl; auto.
  - destruct k; [simpl; auto|]. cbn [firstn]. unfold do_steps. cbn [fold_left]. apply IH.
    + destruct Hy as (I & Hb & Hf). destruct x; simpl in *.
      * destruct Hg as (I' & M & _). split; [exact I'|split; apply M; auto].
      * destruct Hg as (Hs & _). split; [exact I|split; auto].
      * destruct Hg as (Hs & _). split; [exact I|split; auto].
    + destruct x; simpl in *; tauto.
Qed.

Lemma good_steps_app c l1 : forall s l2,
  good_steps c s l1 -> good_steps c (apply_writes s (writes_of_steps l1)) l2 -> good_steps c s (l1 ++ l2).
Proof.
  induction l1 as [|x l1 IH]; intros s l2 H1 H2; simpl in *; auto.
  destruct x; simpl in *.
  - destruct H1 as (A & B & C). split; [exact A|]. split; [exact B|]. apply IH; auto.
  - destruct H1 as (A & B). split; auto.
  - destruct H1 as (A & B). split; auto.
Qed.

Lemma aux_stored_mono s w id : aux_batch w -> stored s id = true -> stored (apply_batch s w) id = true.
Proof. intros Ha Hs. rewrite stored_frame; auto. apply aux_key_ne; auto; discriminate. Qed.

Lemma good_aux c ws : forall s, Inv c s -> (forall w, In w ws -> aux_batch w) -> good_steps c s (map SWrite ws).
Proof.
  induction ws as [|w r IH]; intros s I H; simpl; auto.
  assert (Hw : aux_batch w) by (apply H; left; auto).
  split; [apply aux_batch_inv; auto|]. split; [intros; apply aux_stored_mono; auto|].
  apply IH; [apply aux_batch_inv; auto|intros; apply H; right; auto].
Qed.

Lemma single_put_stored_mono s k v id :
  (forall i, k <> KSummary i) -> stored s id = true -> stored (apply_batch s [Put k v]) id = true.
Proof. intros Hk Hs. rewrite stored_frame; auto. intros o [<-|[]] E. simpl in E. eapply Hk; eauto. Qed.

Lemma good_commit c s id parent just comm :
  Inv c s -> stored s id = true -> good_steps c s (commit_steps c s id parent just comm).
Proof.
  intros I Hs. unfold commit_steps.
  destruct (is_storepoint (c_L c) (num_of id)); [|simpl; auto].
  destruct (quality_of c s parent (num_of id) just) as [q|]; [|simpl; auto].
  set (wq := [Put (KQuality id) (VNum q)]).
  assert (I1 : Inv c (apply_batch s wq)) by (apply quality_put_inv; auto).
  assert (M1 : forall i, stored s i = true -> stored (apply_batch s wq) i = true)
    by (intros; apply single_put_stored_mono; auto; discriminate).
  destruct (comm && (1 <? q) && (num_of (finalized c s) <? checkpoint (c_L c) (num_of id))); [|simpl; auto].
  destruct (find_checkpoint c (apply_batch s wq) (q - 1) (finalized c s) id) as [f|] eqn:E; [|simpl; auto].
  pose proof (find_checkpoint_stored _ _ _ _ _ _ E) as Hf.
  cbn [good_steps]. rewrite apply_batch_app. fold wq.
  split; [apply finalized_put_inv; auto|].
  split; [intros; apply single_put_stored_mono; auto; discriminate|].
  split; [apply single_put_stored_mono; auto; discriminate|exact Logic.I].
Qed.

Theorem import_good_steps c s b : wf_cfg c -> Inv c s -> wf_blk s b -> good_steps c s (import_steps c s b).
Proof.
  intros Hc I Hwf.
  pose proof (import_all_prefixes c s b Hc I Hwf) as AP. unfold import_batches in AP.
  unfold import_steps in *.
  destruct (max_num s + 1 <? num_of (b_id b)); [simpl; auto|].
  set (conf := scan_conflicts s (num_of (b_id b))) in *.
  destruct ((0 <? conf) && stored s (b_id b)); [simpl; auto|].
  destruct (stored s (b_parent b)) eqn:Hp; [|simpl; auto]. cbn [negb] in *.
  destruct (num_of (b_parent b) + 1 =? num_of (b_id b)) eqn:Hn; [|simpl; auto]. cbn [negb] in *.
  destruct (accepts c s (b_parent b)); [|simpl; auto]. cbn [negb] in *.
  assert (Haux : forall w, In w (state_batches b conf) -> aux_batch w) by (intros; eapply state_batches_aux; eauto).
  destruct (select c s b) as [ab|]; [|apply good_aux; auto].
  set (sb := state_batches b conf) in *.
  set (s1 := apply_writes s sb).
  assert (I1 : Inv c s1) by (apply all_prefixes_last; apply all_prefixes_step; auto; intros; apply aux_batch_inv; auto).
  set (s2 := apply_batch s1 (index_batch b conf)).
  assert (I2 : Inv c s2) by (apply aux_batch_inv; auto; apply index_batch_aux).
  set (bulk := block_bulk b conf ab).
  (* the invariant after the bulk, from the write-level theorem *)
  rewrite !writes_of_steps_app, writes_of_steps_map in AP.
  replace (writes_of_steps [SWrite (index_batch b conf); SWrite (block_bulk b conf ab)])
    with [index_batch b conf; bulk] in AP by reflexivity.
  replace (writes_of_steps (if ab then [SPubBest (b_id b)] else [])) with (@nil batch) in AP by (destruct ab; reflexivity).
  rewrite app_nil_r in AP.
  assert (I3 : Inv c (apply_batch s2 bulk)).
  { pose proof (all_prefixes_firstn _ _ _ AP (length (sb ++ [index_batch b conf; bulk]))) as X.
    rewrite firstn_app, firstn_all, PeanoNat.Nat.sub_diag in X. cbn [firstn] in X. rewrite app_nil_r in X.
    rewrite apply_writes_app in X. exact X. }
  assert (Hs3 : stored (apply_batch s2 bulk) (b_id b) = true).
  { unfold stored, bulk. rewrite bulk_summary. destruct (N.eq_dec (b_id b) (b_id b)); congruence. }
  assert (Epre : apply_writes s (writes_of_steps
             (map SWrite sb ++ [SWrite (index_batch b conf); SWrite bulk] ++ (if ab then [SPubBest (b_id b)] else [])))
            = apply_batch s2 bulk).
  { rewrite !writes_of_steps_app, writes_of_steps_map.
    replace (writes_of_steps (if ab then [SPubBest (b_id b)] else [])) with (@nil batch) by (destruct ab; reflexivity).
    rewrite app_nil_r, apply_writes_app. reflexivity. }
  apply good_steps_app.
  - apply good_steps_app; [apply good_aux; auto|].
    rewrite writes_of_steps_map. fold s1.
    cbn [app good_steps]. split; [exact I2|]. split; [intros; apply aux_stored_mono; auto; apply index_batch_aux|].
    fold s2. split; [exact I3|]. split; [intros; apply bulk_stored_mono; auto|].
    destruct ab; cbn [good_steps]; auto.
  - fold bulk. rewrite Epre. apply good_commit; auto.
Qed.


Theorem history_good_steps c l : forall s, wf_cfg c -> Inv c s -> wf_hist c s l -> good_steps c s (steps_of c s l).
Proof.
  induction l as [|b r IH]; intros s Hc I Hw; simpl; auto.
  destruct Hw as [Hb Hr]. apply good_steps_app; [apply import_good_steps; auto|].
  apply IH; auto. change (Inv c (run1 c s b)). unfold run1. apply all_prefixes_last. apply import_all_prefixes; auto.
Qed.

(* C20, first clause: whatever the reader observes as best, at any point of any interleaving, is complete *)
Theorem visible_implies_complete c s0 hist k :
  wf_cfg c -> Inv c s0 -> wf_hist c s0 hist ->
  forall b0 f0, stored s0 b0 = true -> stored s0 f0 = true ->
  let y := do_steps (mkSys s0 b0 f0) (firstn k (steps_of c s0 hist)) in
  readable (y_store y) (y_best y) = true /\ readable (y_store y) (y_fin y) = true.
Proof.
  intros Hc I Hw b0 f0 Hb Hf y.
  assert (Y : sys_inv c y).
  { apply good_steps_prefix; [split; [exact I|split; auto]|]. apply history_good_steps; auto. }
  destruct Y as (Iy & Sb & Sf). split; eapply Inv_readable; eauto.
Qed.

(* read-only operations issue no store write (by construction of their model: they return an answer, never a batch) *)
Theorem queries_are_pure c y q : writes_of_steps (fst (query_steps c y q)) = [] /\ do_steps y (fst (query_steps c y q)) = y.
Proof. destruct q; simpl; split; auto. Qed.
