(* Crash/ExamplesLog.v — a checked instance for Crash/LogCrash.v on wp-chain's example history (Chain/Examples.v): the
   import of block (3,1) reorganises from (2,1) to its sibling (2,2); the crash falls between the log commit and AddBlock. *)
From Coq Require Import List NArith Bool Lia.
From Verif Require Import Chain.Model Chain.Proofs Chain.ProofsWalk Chain.ProofsSys Chain.ProofsPath Chain.Examples
  LogDB.Model LogDB.Proofs LogDB.ProofsCanon LogDB.ProofsRows LogDB.ProofsSync Crash.LogCrash.
Import ListNotations.
Open Scope N_scope.

Definition lx_db1 := match write_logs ex_r0 empty_db ex_b1 ex_g with Some d => d | None => empty_db end.
Definition lx_db2 := match write_logs ex_r1 lx_db1 ex_b2 (bid 1 1) with Some d => d | None => empty_db end.
Definition lx_db4 := match write_logs ex_r3 lx_db2 ex_b3' (bid 2 1) with Some d => d | None => empty_db end.

Lemma lx_imported : imported ex_g ex_gp ex_tag ex_r3 lx_db2.
Proof.
  apply (imp_side _ _ _ ex_r2 lx_db2 ex_b2' 1); [| vm_compute; repeat split | vm_compute; reflexivity].
  apply (imp_best _ _ _ ex_r1 lx_db1 ex_b2 0); [| vm_compute; repeat split | vm_compute; reflexivity | vm_compute; reflexivity].
  apply (imp_best _ _ _ ex_r0 empty_db ex_b1 0); [| vm_compute; repeat split | vm_compute; reflexivity | vm_compute; reflexivity].
  apply imp_init.
Qed.

Lemma lx_valid : valid_add ex_r3 ex_b3' 0.
Proof. vm_compute. repeat split. Qed.

(* after the log commit the tables hold the rows of the sibling branch (block (2,2): two events), the repository's best
   block still is (2,1) (one event); the start-up re-sync restores the tables of (2,1) *)
Lemma lx_cut :
  lcut (mkNode ex_r3 lx_db2) ex_b3' 0 true 1 = Some (mkNode ex_r3 lx_db4) /\
  map er_block (db_events lx_db2) = [bid 2 1] /\ map er_block (db_events lx_db4) = [bid 2 2; bid 2 2] /\
  r_best ex_r3 = bid 2 1 /\
  lrestart (mkNode ex_r3 lx_db4) = Some (mkNode ex_r3 lx_db2) /\
  lcut (mkNode ex_r3 lx_db2) ex_b3' 0 true 2 = Some (mkNode ex_r4 lx_db4) /\
  lrestart (mkNode ex_r4 lx_db4) = Some (mkNode ex_r4 lx_db4).
Proof. vm_compute. repeat split. Qed.
