(* Crash/ProofsEqv.v — the import path reads only chain / bft keys: two stores that agree outside the trie-node and
   code spaces get the same steps, and equivalent stores stay equivalent along a run. *)
From Coq Require Import List NArith Bool Lia Permutation.
From Verif Require Import Crash.Model Crash.ProofsStore Crash.ProofsInv Crash.ProofsImport.
Import ListNotations.
Open Scope N_scope.

Definition aux_key (k : key) : bool := match k with KNode _ _ _ _ => true | KCode _ => true | _ => false end.
Definition eqv_na (s s' : store) : Prop := forall k, aux_key k = false -> get s k = get s' k.
Definition eqv (s s' : store) : Prop := forall k, get s k = get s' k.

Lemma eqv_eqv_na s s' : eqv s s' -> eqv_na s s'.
Proof. intros H k _. apply H. Qed.
Lemma eqv_na_refl s : eqv_na s s. Proof. intros k _. reflexivity. Qed.
Lemma eqv_refl s : eqv s s. Proof. intro k. reflexivity. Qed.
Lemma eqv_na_sym s s' : eqv_na s s' -> eqv_na s' s. Proof. intros H k Hk. symmetry. auto. Qed.
Lemma eqv_sym s s' : eqv s s' -> eqv s' s. Proof. intros H k. symmetry. auto. Qed.
Lemma eqv_trans a b c : eqv a b -> eqv b c -> eqv a c. Proof. intros H1 H2 k. rewrite H1. auto. Qed.
Lemma eqv_na_trans a b c : eqv_na a b -> eqv_na b c -> eqv_na a c. Proof. intros H1 H2 k Hk. rewrite H1; auto. Qed.

Section Congruence.
  Variables s s' : store.
  Hypothesis E : eqv_na s s'.

  Lemma na_get_summary id : get_summary s id = get_summary s' id.
  Proof. unfold get_summary. rewrite E; auto. Qed.
  Lemma na_stored id : stored s id = stored s' id.
  Proof. unfold stored. rewrite na_get_summary. auto. Qed.
  Lemma na_get_id k : aux_key k = false -> get_id s k = get_id s' k.
  Proof. intro H. unfold get_id. rewrite E; auto. Qed.
  Lemma na_get_quality id : get_quality s id = get_quality s' id.
  Proof. unfold get_quality. rewrite E; auto. Qed.
  Lemma na_has k : aux_key k = false -> has s k = has s' k.
  Proof. intro H. unfold has. rewrite E; auto. Qed.

  Lemma na_ancestor fuel : forall id n, ancestor fuel s id n = ancestor fuel s' id n.
  Proof.
    induction fuel as [|f IH]; intros id n; simpl; rewrite na_get_summary; destruct (get_summary s' id); auto.
    destruct (num_of id =? n); auto. destruct (num_of id <? n); auto.
  Qed.
  Lemma na_anc id n : anc s id n = anc s' id n.
  Proof. unfold anc. apply na_ancestor. Qed.
  Lemma na_finalized c : finalized c s = finalized c s'.
  Proof. unfold finalized. rewrite na_get_id; auto. Qed.
  Lemma na_accepts c p : accepts c s p = accepts c s' p.
  Proof. unfold accepts. rewrite na_finalized, na_anc. auto. Qed.
  Lemma na_quality_of c p n j : quality_of c s p n j = quality_of c s' p n j.
  Proof. unfold quality_of. rewrite na_anc. destruct (n / c_L c =? 0); auto. destruct (anc s' p _); auto. rewrite na_get_quality. auto. Qed.
End Congruence.

Lemma bsearch_ext f g : (forall i, f i = g i) -> forall fuel i j, bsearch fuel f i j = bsearch fuel g i j.
Proof.
  intro H. induction fuel as [|fu IH]; intros i j; simpl; auto.
  destruct (i <? j); auto. rewrite H. destruct (g ((i + j) / 2)) as [[|]|]; auto.
Qed.

Lemma na_find_checkpoint s s' c t fin head : eqv_na s s' -> find_checkpoint c s t fin head = find_checkpoint c s' t fin head.
Proof.
  intro E. unfold find_checkpoint. destruct (num_of head <? num_of fin); auto.
  rewrite (bsearch_ext
    (fun i => match match anc s head (storepoint (c_L c) (num_of fin + i * c_L c)) with Some id => Some (get_quality s id) | None => None end with
              | Some x => Some (t <=? x) | None => None end)
    (fun i => match match anc s' head (storepoint (c_L c) (num_of fin + i * c_L c)) with Some id => Some (get_quality s' id) | None => None end with
              | Some x => Some (t <=? x) | None => None end)).
  2:{ intro i. rewrite (na_anc s s' E). destruct (anc s' head _); auto. rewrite (na_get_quality s s' E). auto. }
  destruct (bsearch _ _ 0 _) as [idx|]; auto.
  destruct (idx =? _); auto.
  rewrite (na_anc s s' E). destruct (anc s' head (storepoint _ _)) as [x|]; auto.
  rewrite (na_get_quality s s' E). destruct (get_quality s' x =? t); auto. apply na_anc; auto.
Qed.

Lemma aux_key_op_key_ne k k' : aux_key k = false -> aux_key k' = true -> k <> k'.
Proof. intros H1 H2 E. subst. congruence. Qed.

Lemma eqv_na_apply_batch s s' w : eqv_na s s' -> eqv_na (apply_batch s w) (apply_batch s' w).
Proof. intros E k Hk. rewrite !get_apply_batch. destruct (last_op k w) as [[? ?|?]|]; auto. Qed.
Lemma eqv_apply_batch s s' w : eqv s s' -> eqv (apply_batch s w) (apply_batch s' w).
Proof. intros E k. rewrite !get_apply_batch. destruct (last_op k w) as [[? ?|?]|]; auto. Qed.
Lemma eqv_na_apply_writes ws : forall s s', eqv_na s s' -> eqv_na (apply_writes s ws) (apply_writes s' ws).
Proof. induction ws as [|w r IH]; intros s s' E; simpl; auto. apply IH. apply eqv_na_apply_batch; auto. Qed.
Lemma eqv_apply_writes ws : forall s s', eqv s s' -> eqv (apply_writes s ws) (apply_writes s' ws).
Proof. induction ws as [|w r IH]; intros s s' E; simpl; auto. apply IH. apply eqv_apply_batch; auto. Qed.

Lemma na_select s s' c b : eqv_na s s' -> select c s b = select c s' b.
Proof.
  intro E. unfold select. rewrite (na_get_id s s' E) by reflexivity.
  destruct (get_id s' KBest) as [best|]; auto. rewrite (na_get_summary s s' E).
  destruct (get_summary s' best) as [bs|]; auto. rewrite !(na_quality_of s s' E). auto.
Qed.

Lemma na_commit_steps s s' c id parent just comm : eqv_na s s' ->
  commit_steps c s id parent just comm = commit_steps c s' id parent just comm.
Proof.
  intro E. unfold commit_steps. destruct (is_storepoint _ _); auto.
  rewrite (na_quality_of s s' E). destruct (quality_of c s' parent (num_of id) just) as [q|]; auto.
  rewrite (na_finalized s s' E).
  rewrite (na_find_checkpoint (apply_batch s [Put (KQuality id) (VNum q)]) (apply_batch s' [Put (KQuality id) (VNum q)]));
    auto using eqv_na_apply_batch.
Qed.

(* ---- enumeration: ScanConflicts / GetMaxBlockNum only depend on which summaries are stored *)

Lemma summary_ids_nodup s : NoDup (summary_ids s).
Proof.
  induction s as [|o r IH]; simpl; [constructor|].
  destruct o as [k v|k]; auto. destruct k; auto.
  destruct (existsb (N.eqb id) (summary_ids r)) eqn:Ex; auto.
  constructor; auto. intro Hin.
  assert (existsb (N.eqb id) (summary_ids r) = true) by (apply existsb_exists; exists id; split; auto; apply N.eqb_refl).
  congruence.
Qed.

Lemma summary_ids_put s id v : In id (summary_ids (Put (KSummary id) v :: s)).
Proof.
  simpl. destruct (existsb (N.eqb id) (summary_ids s)) eqn:Ex; [|left; auto].
  apply existsb_exists in Ex. destruct Ex as (x & Hx & Ex). apply N.eqb_eq in Ex. subst. auto.
Qed.

Lemma summary_ids_mono s o id : In id (summary_ids s) -> In id (summary_ids (o :: s)).
Proof.
  intro H. destruct o as [k v|k]; simpl; auto. destruct k; auto.
  destruct (existsb (N.eqb id0) (summary_ids s)); auto. right; auto.
Qed.

Lemma stored_in_ids s id : stored s id = true -> In id (summary_ids s).
Proof.
  unfold stored, get_summary. induction s as [|o r IH]; [simpl; discriminate|].
  cbn [get]. destruct o as [k v|k].
  - destruct (key_eq_dec (KSummary id) k) as [<-|Hne].
    + intros _. apply summary_ids_put.
    + intro H. apply summary_ids_mono. auto.
  - destruct (key_eq_dec (KSummary id) k) as [<-|Hne]; [discriminate|].
    intro H. apply summary_ids_mono. auto.
Qed.

Definition stored_at (s : store) (n : N) : list N := filter (fun id => stored s id && (num_of id =? n)) (summary_ids s).

Lemma stored_at_perm s s' n : eqv_na s s' -> Permutation (stored_at s n) (stored_at s' n).
Proof.
  intro E. apply NoDup_Permutation; try (apply NoDup_filter, summary_ids_nodup).
  intro x. unfold stored_at. rewrite !filter_In. rewrite (na_stored s s' E).
  split; intros [_ H]; split; auto; apply stored_in_ids; apply andb_true_iff in H; destruct H as [H _]; auto.
  rewrite (na_stored s s' E); auto.
Qed.

Lemma na_scan_conflicts s s' n : eqv_na s s' -> scan_conflicts s n = scan_conflicts s' n.
Proof. intro E. unfold scan_conflicts. f_equal. apply Permutation_length. apply (stored_at_perm s s' n E). Qed.

Lemma fold_max_ge l x : In x l -> x <= fold_right N.max 0 l.
Proof. induction l as [|a l IH]; simpl; [tauto|]. intros [->|H]; [lia|]. specialize (IH H). lia. Qed.

Lemma fold_max_in l : l <> [] -> In (fold_right N.max 0 l) l.
Proof.
  induction l as [|a l IH]; [congruence|]. intros _. simpl.
  destruct l as [|b l']; [simpl; left; lia|].
  destruct (N.max_spec a (fold_right N.max 0 (b :: l'))) as [[_ ->]|[_ ->]]; [right; apply IH; discriminate|left; auto].
Qed.

Lemma fold_max_incl l1 l2 : incl l1 l2 -> fold_right N.max 0 l1 <= fold_right N.max 0 l2.
Proof.
  intro H. destruct l1 as [|a l]; [simpl; lia|].
  apply fold_max_ge. apply H. apply fold_max_in. discriminate.
Qed.

Lemma na_max_num s s' : eqv_na s s' -> max_num s = max_num s'.
Proof.
  intro E. unfold max_num.
  assert (X : forall a b, eqv_na a b -> incl (map num_of (filter (stored a) (summary_ids a))) (map num_of (filter (stored b) (summary_ids b)))).
  { intros a b Eab x Hx. apply in_map_iff in Hx. destruct Hx as (id & <- & Hid). apply filter_In in Hid. destruct Hid as [_ Hs].
    apply in_map. apply filter_In. rewrite (na_stored a b Eab) in Hs. split; auto. apply stored_in_ids; auto. }
  apply N.le_antisymm; apply fold_max_incl; auto using eqv_na_sym.
Qed.

Lemma max_num_ge s id : stored s id = true -> num_of id <= max_num s.
Proof.
  intro H. unfold max_num. apply fold_max_ge. apply in_map. apply filter_In. split; auto. apply stored_in_ids; auto.
Qed.

Lemma scan_conflicts_pos s id : stored s id = true -> 0 < scan_conflicts s (num_of id).
Proof.
  intro H. unfold scan_conflicts.
  assert (In id (filter (fun i => stored s i && (num_of i =? num_of id)) (summary_ids s))).
  { apply filter_In. split; [apply stored_in_ids; auto|]. rewrite H, N.eqb_refl. auto. }
  destruct (filter _ _); [destruct H0|simpl; lia].
Qed.

(* ---- the import issues the same steps on stores that agree outside the node / code spaces *)

Theorem na_import_steps s s' c b : eqv_na s s' -> import_steps c s b = import_steps c s' b.
Proof.
  intro E. unfold import_steps.
  rewrite (na_max_num s s' E), (na_scan_conflicts s s' _ E), !(na_stored s s' E), (na_accepts s s' E), (na_select s s' c b E).
  destruct (max_num s' + 1 <? num_of (b_id b)); auto.
  destruct ((0 <? scan_conflicts s' (num_of (b_id b))) && stored s' (b_id b)); auto.
  destruct (negb (stored s' (b_parent b))); auto.
  destruct (negb (num_of (b_parent b) + 1 =? num_of (b_id b))); auto.
  destruct (negb (accepts c s' (b_parent b))); auto.
  destruct (select c s' b) as [ab|]; auto.
  f_equal. apply na_commit_steps. apply eqv_na_apply_writes. auto.
Qed.

Lemma na_import_batches s s' c b : eqv_na s s' -> import_batches c s b = import_batches c s' b.
Proof. intro E. unfold import_batches. rewrite (na_import_steps s s' c b E). auto. Qed.

Lemma eqv_run1 s s' c b : eqv s s' -> eqv (run1 c s b) (run1 c s' b).
Proof. intro E. unfold run1. rewrite (na_import_batches s s' c b (eqv_eqv_na _ _ E)). apply eqv_apply_writes; auto. Qed.

Lemma eqv_run c l : forall s s', eqv s s' -> eqv (run c s l) (run c s' l).
Proof. induction l as [|b r IH]; intros s s' E; simpl; auto. apply IH. apply eqv_run1; auto. Qed.

(* equivalent stores give the same observations *)
Lemma eqv_observations s s' c : eqv s s' ->
  get_id s KBest = get_id s' KBest /\ finalized c s = finalized c s' /\
  (forall id, stored s id = stored s' id) /\ (forall id, get_quality s id = get_quality s' id).
Proof.
  intro E. pose proof (eqv_eqv_na _ _ E) as En. repeat split.
  - apply na_get_id; auto.
  - apply na_finalized; auto.
  - intro; apply na_stored; auto.
  - intro; apply na_get_quality; auto.
Qed.
