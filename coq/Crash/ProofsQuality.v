(* Crash/ProofsQuality.v — the quality records along a chain: every stored store-point block's record is the record of
   the previous epoch's store point on its chain plus one if its own epoch is justified (Qrec, kept by every import), hence
   qualities never decrease along a chain; sort.Search over them finds the least epoch reaching the target, and
   findCheckpointByQuality started from an older finalized block of the same chain finds the same checkpoint whenever the
   search from the newer one finds a checkpoint beyond it. *)
From Coq Require Import List NArith Bool Lia.
From Verif Require Import Crash.Model Crash.ProofsStore Crash.ProofsInv Crash.ProofsImport Crash.ProofsCrash
  Crash.ProofsEqv Crash.ProofsShape Crash.ProofsResumeAll Crash.ProofsFinalized.
Import ListNotations.
Open Scope N_scope.

(* ---- sort.Search over a monotone predicate returns the least index at which it holds *)

Section Bsearch.
  Variables (p : N -> option bool) (pb : N -> bool) (lo0 hi0 : N).
  Hypothesis Total : forall i, lo0 <= i < hi0 -> p i = Some (pb i).
  Hypothesis Mono : forall i j, lo0 <= i -> i <= j -> j < hi0 -> pb j = false -> pb i = false.

  Lemma half_bounds lo hi : lo < hi -> lo <= (lo + hi) / 2 /\ (lo + hi) / 2 < hi.
  Proof.
    intro H. split.
    - apply N.div_le_lower_bound; lia.
    - apply N.div_lt_upper_bound; lia.
  Qed.

  Lemma bsearch_least : forall fuel lo hi, lo0 <= lo -> hi <= hi0 -> lo <= hi -> (N.to_nat (hi - lo) <= fuel)%nat ->
    (forall i, lo0 <= i < lo -> pb i = false) ->
    exists idx, bsearch fuel p lo hi = Some idx /\ lo <= idx <= hi /\
                (forall i, lo0 <= i < idx -> pb i = false) /\ (idx < hi -> pb idx = true).
  Proof.
    induction fuel as [|fu IH]; intros lo hi Hlo Hhi Hle Hf Hbelow.
    - assert (lo = hi) by lia. subst. simpl. rewrite N.ltb_irrefl. exists hi. repeat split; auto; lia.
    - simpl. destruct (lo <? hi) eqn:E.
      + apply N.ltb_lt in E. destruct (half_bounds lo hi E) as [H1 H2].
        set (h := (lo + hi) / 2) in *.
        rewrite Total by lia. destruct (pb h) eqn:Eh.
        * destruct (IH lo h Hlo) as (idx & Hi & Hr & Hb & Ht); auto; try lia.
          exists idx. rewrite Hi. repeat split; auto; try lia.
          intro Hx. destruct (N.eq_dec idx h) as [->|]; auto. apply Ht. lia.
        * destruct (IH (h + 1) hi) as (idx & Hi & Hr & Hb & Ht); auto; try lia.
          { intros i Hi. destruct (N.lt_ge_cases i lo) as [Hl|Hg]; [apply Hbelow; lia|].
            apply (Mono i h); auto; lia. }
          exists idx. rewrite Hi. repeat split; auto; lia.
      + apply N.ltb_ge in E. assert (lo = hi) by lia. subst. exists hi. repeat split; auto; lia.
  Qed.
End Bsearch.

(* ---- the quality recurrence *)

Definition Qrec (c : cfg) (s : store) : Prop :=
  forall id sm, get_summary s id = Some sm -> is_storepoint (c_L c) (num_of id) = true ->
    quality_of c s (s_parent sm) (num_of id) (s_just sm) = Some (get_quality s id).

(* the finalized block is the first block of an epoch *)
Definition aligned (c : cfg) (f : N) : Prop := exists e, num_of f = e * c_L c.

Record InvQ (c : cfg) (s : store) : Prop := mkInvQ { iq_rec : Qrec c s; iq_al : aligned c (finalized c s) }.

Lemma checkpoint_le L n : 0 < L -> checkpoint L n <= n.
Proof. intro H. unfold checkpoint. rewrite N.mul_comm. apply N.mul_div_le. lia. Qed.

Lemma checkpoint_pos L n : 0 < L -> n / L <> 0 -> L <= checkpoint L n.
Proof.
  intros H H0. unfold checkpoint. set (d := n / L) in *. assert (1 <= d) by lia.
  replace L with (1 * L) at 1 by lia. apply N.mul_le_mono_r. auto.
Qed.

Lemma quality_of_mono c s s' p n j q : wf_cfg c ->
  keeps_summaries s s' ->
  (forall y, stored s y = true -> num_of y < n -> get_quality s' y = get_quality s y) ->
  quality_of c s p n j = Some q -> quality_of c s' p n j = Some q.
Proof.
  intros [_ HL] K HQ. unfold quality_of. destruct (n / c_L c =? 0) eqn:E0; auto.
  apply N.eqb_neq in E0.
  destruct (anc s p (checkpoint (c_L c) n - 1)) as [a|] eqn:Ea; [|discriminate].
  rewrite (anc_mono s s' _ _ _ K Ea). destruct (anc_stored _ _ _ _ Ea) as [Hs Hn].
  rewrite HQ; auto. pose proof (checkpoint_le (c_L c) n HL). pose proof (checkpoint_pos (c_L c) n HL E0). lia.
Qed.

Lemma Qrec_extend c s s' x smx : wf_cfg c -> Qrec c s -> stored s x = false ->
  (forall i, get_summary s' i = if N.eq_dec i x then Some smx else get_summary s i) ->
  (forall i, i <> x -> get_quality s' i = get_quality s i) ->
  (is_storepoint (c_L c) (num_of x) = true -> quality_of c s' (s_parent smx) (num_of x) (s_just smx) = Some (get_quality s' x)) ->
  Qrec c s'.
Proof.
  intros Hc Q Hx HS HQ Hnew id sm E Hsp. rewrite HS in E. destruct (N.eq_dec id x) as [->|Hne].
  - inversion E; subst. auto.
  - rewrite HQ by auto. apply (quality_of_mono c s s'); auto.
    + intros i smi Ei. rewrite HS. destruct (N.eq_dec i x) as [->|]; auto.
      unfold stored in Hx. rewrite Ei in Hx. discriminate.
    + intros y Hy _. apply HQ. intro X. subst. congruence.
Qed.

Lemma Qrec_ext c s s' : (forall i, get_summary s' i = get_summary s i) -> (forall i, get_quality s' i = get_quality s i) ->
  Qrec c s -> Qrec c s'.
Proof.
  intros HS HQ Q id sm E Hsp. rewrite HS in E. rewrite HQ. rewrite <- (Q id sm E Hsp).
  unfold quality_of. destruct (num_of id / c_L c =? 0); auto.
  assert (A : forall fuel i n, ancestor fuel s' i n = ancestor fuel s i n).
  { induction fuel as [|f IH]; intros i n; simpl; rewrite HS; destruct (get_summary s i); auto.
    destruct (num_of i =? n); auto. destruct (num_of i <? n); auto. }
  unfold anc. rewrite A. destruct (ancestor _ s _ _); auto. rewrite HQ. auto.
Qed.

Lemma get_quality_put s id q i : get_quality (apply_batch s [Put (KQuality id) (VNum q)]) i = if N.eq_dec i id then q else get_quality s i.
Proof.
  unfold get_quality. rewrite get_apply_batch. cbn [last_op].
  destruct (key_eq_dec (KQuality i) (op_key (Put (KQuality id) (VNum q)))) as [E|E]; simpl in E.
  - inversion E; subst. destruct (N.eq_dec id id); congruence.
  - destruct (N.eq_dec i id) as [->|]; [congruence|auto].
Qed.

Lemma get_summary_put_other s k v i : (forall j, k <> KSummary j) -> get_summary (apply_batch s [Put k v]) i = get_summary s i.
Proof. intro H. apply get_summary_frame. intros o [<-|[]]. simpl. intro X. eapply H; eauto. Qed.

Lemma get_quality_put_fin s f i : get_quality (apply_batch s [Put KFinalized (VId f)]) i = get_quality s i.
Proof. apply get_quality_frame. intros o [<-|[]]; discriminate. Qed.

Lemma finalized_put s c f : finalized c (apply_batch s [Put KFinalized (VId f)]) = f.
Proof. unfold finalized, get_id. rewrite get_apply_batch. simpl. destruct (key_eq_dec KFinalized KFinalized); congruence. Qed.

Lemma finalized_put_quality s c id q : finalized c (apply_batch s [Put (KQuality id) (VNum q)]) = finalized c s.
Proof. unfold finalized, get_id. rewrite get_frame; auto. intros o [<-|[]]; discriminate. Qed.

Lemma find_checkpoint_num c s t fin head f : find_checkpoint c s t fin head = Some f ->
  exists idx, num_of f = num_of fin + idx * c_L c.
Proof.
  unfold find_checkpoint. destruct (num_of head <? num_of fin); [discriminate|].
  match goal with |- match ?X with _ => _ end = _ -> _ => destruct X as [idx|]; [|discriminate] end.
  match goal with |- (if ?X then _ else _) = _ -> _ => destruct X; [discriminate|] end.
  match goal with |- match ?X with _ => _ end = _ -> _ => destruct X as [x|]; [|discriminate] end.
  destruct (x =? t); [|discriminate]. intro H. exists idx. apply anc_stored in H. tauto.
Qed.

Lemma aligned_find c s t fin head f : aligned c fin -> find_checkpoint c s t fin head = Some f -> aligned c f.
Proof. intros (e & He) H. destruct (find_checkpoint_num _ _ _ _ _ _ H) as (idx & Hi). exists (e + idx). lia. Qed.

(* what the writes of the bft commit are, spelled out *)
Lemma commit_unfold c s id parent just comm :
  writes_of_steps (commit_steps c s id parent just comm) =
  if is_storepoint (c_L c) (num_of id) then
    match quality_of c s parent (num_of id) just with
    | None => []
    | Some q =>
      if comm && (1 <? q) && (num_of (finalized c s) <? checkpoint (c_L c) (num_of id)) then
        match find_checkpoint c (apply_batch s [Put (KQuality id) (VNum q)]) (q - 1) (finalized c s) id with
        | Some f => [[Put (KQuality id) (VNum q); Put KFinalized (VId f)]]
        | None => [[Put (KQuality id) (VNum q)]]
        end
      else [[Put (KQuality id) (VNum q)]]
    end
  else [].
Proof.
  unfold commit_steps. destruct (is_storepoint _ _); auto. destruct (quality_of _ _ _ _ _) as [q|]; auto.
  destruct (comm && (1 <? q) && _); auto. destruct (find_checkpoint _ _ _ _ _); auto.
Qed.

(* ---- the store after the block bulk of an import that goes through *)

Lemma main_case_batches c s b ab : main_case c s b ab ->
  import_batches c s b = pre_writes s b ab ++ commit_writes c s b ab.
Proof.
  intros (M1 & M2 & Mp & Mn & Ma & Ms). unfold import_batches, import_steps, commit_writes, pre_writes, conf_of.
  rewrite M1, M2, Mp. cbn [negb]. apply N.eqb_eq in Mn. rewrite Mn, Ma. cbn [negb]. rewrite Ms.
  rewrite !writes_of_steps_app, writes_of_steps_map.
  replace (writes_of_steps (if ab then [SPubBest (b_id b)] else [])) with (@nil batch) by (destruct ab; reflexivity).
  cbn [writes_of_steps flat_map app]. rewrite <- app_assoc. reflexivity.
Qed.

Lemma main_case_inv3 c s b ab : wf_cfg c -> Inv c s -> wf_blk s b -> main_case c s b ab ->
  Inv c (apply_writes s (pre_writes s b ab)).
Proof.
  intros Hc I Hwf M. pose proof (import_all_prefixes c s b Hc I Hwf) as AP.
  rewrite (main_case_batches c s b ab M) in AP.
  pose proof (all_prefixes_firstn _ _ _ AP (length (pre_writes s b ab))) as X.
  rewrite firstn_app, firstn_all, PeanoNat.Nat.sub_diag in X. cbn [firstn] in X. rewrite app_nil_r in X. exact X.
Qed.

(* ---- every import keeps the recurrence and the alignment of the finalized block *)

(* the store right after the quality record of a store-point block: the recurrence holds, the new block included *)
Lemma main_case_qrec4 c s b ab q : wf_cfg c -> Inv c s -> Qrec c s -> main_case c s b ab ->
  let s3 := apply_writes s (pre_writes s b ab) in
  quality_of c s3 (b_parent b) (num_of (b_id b)) (b_just b) = Some q ->
  Qrec c (apply_batch s3 [Put (KQuality (b_id b)) (VNum q)]).
Proof.
  intros Hc I Q M s3 Eq.
  pose proof (main_not_stored c s b ab M) as Hns.
  assert (S3 : forall i, get_summary s3 i = if N.eq_dec i (b_id b) then Some (summary_of b (conf_of s b)) else get_summary s i)
    by (intro i; apply s3_summary).
  assert (Q3 : forall i, get_quality s3 i = get_quality s i) by (intro i; unfold get_quality, s3; rewrite s3_quality; eauto).
  set (wq := [Put (KQuality (b_id b)) (VNum q)]) in *. set (s4 := apply_batch s3 wq).
  assert (S4 : forall i, get_summary s4 i = if N.eq_dec i (b_id b) then Some (summary_of b (conf_of s b)) else get_summary s i).
  { intro i. unfold s4, wq. rewrite get_summary_put_other by discriminate. apply S3. }
  assert (Q4 : forall i, i <> b_id b -> get_quality s4 i = get_quality s i).
  { intros i Hi. unfold s4, wq. rewrite get_quality_put. destruct (N.eq_dec i (b_id b)); [congruence|auto]. }
  assert (Q4b : get_quality s4 (b_id b) = q).
  { unfold s4, wq. rewrite get_quality_put. destruct (N.eq_dec (b_id b) (b_id b)); congruence. }
  assert (Hq4 : quality_of c s4 (b_parent b) (num_of (b_id b)) (b_just b) = Some q).
  { apply (quality_of_mono c s3 s4); auto.
    - intros i smi Ei. rewrite S4, <- S3. auto.
    - intros y _ Hy. rewrite Q4, Q3; auto. intro X. rewrite X in Hy. lia. }
  eapply (Qrec_extend c s s4 (b_id b)); eauto. intros _. cbn [summary_of s_parent s_just]. rewrite Q4b. auto.
Qed.

Theorem run1_invq c s b : wf_cfg2 c -> Inv2 c s -> InvQ c s -> wf_blk s b -> InvQ c (run1 c s b).
Proof.
  intros [Hc HL] I2 [Q A] Hwf. pose proof (i2_inv c s I2) as I.
  destruct (run1_eq_cases c s b) as [E|[E|(ab & M & E)]].
  - rewrite E. constructor; auto.
  - rewrite E.
    assert (Ena : eqv_na s (apply_writes s (state_batches b (conf_of s b))))
      by (apply aux_writes_eqv_na; intros; eapply state_batches_aux; eauto).
    constructor.
    + eapply Qrec_ext; [| |exact Q]; intro i; symmetry; [apply na_get_summary|apply na_get_quality]; auto.
    + rewrite <- (na_finalized _ _ Ena). auto.
  - set (s3 := apply_writes s (pre_writes s b ab)) in *.
    pose proof (main_not_stored c s b ab M) as Hns.
    assert (S3 : forall i, get_summary s3 i = if N.eq_dec i (b_id b) then Some (summary_of b (conf_of s b)) else get_summary s i)
      by (intro i; apply s3_summary).
    assert (Q3 : forall i, get_quality s3 i = get_quality s i) by (intro i; unfold get_quality, s3; rewrite s3_quality; eauto).
    assert (F3 : finalized c s3 = finalized c s) by (unfold finalized, get_id, s3; rewrite s3_quality; auto).
    rewrite E. unfold commit_writes. fold s3. rewrite commit_unfold.
    destruct (is_storepoint (c_L c) (num_of (b_id b))) eqn:Hsp.
    2:{ cbn [apply_writes fold_left]. constructor; [|rewrite F3; auto].
        eapply (Qrec_extend c s s3 (b_id b)); eauto. intro X. cbn [summary_of s_parent s_just] in X. congruence. }
    destruct (quality_of c s3 (b_parent b) (num_of (b_id b)) (b_just b)) as [q|] eqn:Eq.
    2:{ cbn [apply_writes fold_left]. exfalso.
        assert (I3 : Inv c s3) by (apply (main_case_inv3 c s b ab); auto).
        destruct M as (_ & _ & Mp & Mn & _).
        destruct (commit_nonempty_at_storepoint c s3 (b_id b) (b_parent b) (b_just b) (b_comm b) I3 Hc) as (q & r & Er); auto.
        { apply s3_stored_mono; auto. }
        rewrite commit_unfold, Hsp, Eq in Er. discriminate. }
    pose proof (main_case_qrec4 c s b ab q Hc I Q M Eq) as QR4. cbn zeta in QR4. fold s3 in QR4.
    set (wq := [Put (KQuality (b_id b)) (VNum q)]) in *. set (s4 := apply_batch s3 wq) in *.
    assert (F4 : finalized c s4 = finalized c s) by (unfold s4, wq; rewrite finalized_put_quality; auto).
    destruct (b_comm b && (1 <? q) && (num_of (finalized c s3) <? checkpoint (c_L c) (num_of (b_id b)))).
    2:{ cbn [apply_writes fold_left]. fold wq. fold s4. constructor; auto. rewrite F4. auto. }
    fold wq. fold s4. destruct (find_checkpoint c s4 (q - 1) (finalized c s3) (b_id b)) as [f|] eqn:Ef.
    2:{ cbn [apply_writes fold_left]. fold wq. fold s4. constructor; auto. rewrite F4. auto. }
    cbn [apply_writes fold_left].
    change (apply_batch s3 [Put (KQuality (b_id b)) (VNum q); Put KFinalized (VId f)]) with (apply_batch s4 [Put KFinalized (VId f)]).
    constructor.
    + eapply Qrec_ext; [| |exact QR4]; intro i; [apply get_summary_put_other; discriminate|apply get_quality_put_fin].
    + rewrite finalized_put. eapply aligned_find; [|exact Ef]. rewrite F3. auto.
Qed.

Lemma run_invq c l : forall s, wf_cfg2 c -> Inv2 c s -> InvQ c s -> wf_hist c s l -> InvQ c (run c s l).
Proof.
  induction l as [|b r IH]; intros s Hc I Q Hw; simpl; auto.
  destruct Hw as [Hb Hr]. apply IH; auto. { apply run1_inv2; auto. } apply run1_invq; auto.
Qed.

Lemma genesis_invq L g : 1 < L -> num_of (b_id g) = 0 -> InvQ (mkCfg L (b_id g)) (genesis_store g).
Proof.
  intros HL Hn. constructor.
  - intros id sm E Hsp. exfalso.
    assert (Hs : stored (genesis_store g) id = true) by (unfold stored; rewrite E; auto).
    change (genesis_store g) with (apply_writes [] (pre_writes [] g true)) in Hs.
    destruct (s3_stored [] g true id Hs) as [->|Hold]; [|discriminate].
    unfold is_storepoint, storepoint, checkpoint in Hsp. cbn [c_L] in Hsp. rewrite Hn in Hsp.
    rewrite N.div_0_l in Hsp by lia. apply N.eqb_eq in Hsp. lia.
  - exists 0. cbn [c_L]. rewrite N.mul_0_l.
    assert (E : finalized (mkCfg L (b_id g)) (genesis_store g) = b_id g).
    { unfold finalized, get_id. change (genesis_store g) with (apply_writes [] (pre_writes [] g true)).
      rewrite s3_quality by auto. reflexivity. }
    rewrite E. auto.
Qed.

(* ---- qualities along a chain, by epoch *)

Definition Qe (c : cfg) (s : store) (head e : N) : N :=
  match anc s head (e * c_L c + c_L c - 1) with Some x => get_quality s x | None => 0 end.

Lemma anc_unique c s head m n f a : Inv c s -> anc s head m = Some f -> n <= m -> anc s head n = Some a -> anc s f n = Some a.
Proof. intros I Hf Hn Ha. eapply (anc_compose c s I _ head m n); eauto. Qed.

Lemma Qe_step c s head e : wf_cfg c -> Inv c s -> Qrec c s -> stored s head = true ->
  (e + 1) * c_L c + c_L c - 1 <= num_of head -> Qe c s head e <= Qe c s head (e + 1).
Proof.
  intros Hc I Q Hs Hle. pose proof Hc as [_ HL]. unfold Qe.
  destruct (anc_total c s head ((e + 1) * c_L c + c_L c - 1) Hc I Hs Hle) as (x & Hx).
  destruct (anc_total c s head (e * c_L c + c_L c - 1) Hc I Hs) as (y & Hy); [lia|].
  rewrite Hx, Hy. destruct (anc_stored _ _ _ _ Hx) as [Hsx Hnx].
  unfold stored in Hsx. destruct (get_summary s x) as [sm|] eqn:Ex; [|discriminate].
  assert (Hsp : is_storepoint (c_L c) (num_of x) = true).
  { unfold is_storepoint, storepoint, checkpoint. apply N.eqb_eq. rewrite Hnx.
    replace ((e + 1) * c_L c + c_L c - 1) with ((c_L c - 1) + (e + 1) * c_L c) by lia.
    rewrite N.div_add by lia. rewrite N.div_small by lia. lia. }
  pose proof (Q x sm Ex Hsp) as R. unfold quality_of in R.
  assert (Ediv : num_of x / c_L c = e + 1).
  { rewrite Hnx. replace ((e + 1) * c_L c + c_L c - 1) with ((c_L c - 1) + (e + 1) * c_L c) by lia.
    rewrite N.div_add by lia. rewrite N.div_small by lia. lia. }
  rewrite Ediv in R. destruct (e + 1 =? 0) eqn:E0; [apply N.eqb_eq in E0; lia|].
  assert (Ecp : checkpoint (c_L c) (num_of x) - 1 = e * c_L c + c_L c - 1) by (unfold checkpoint; rewrite Ediv; lia).
  rewrite Ecp in R.
  assert (Hya : anc s x (e * c_L c + c_L c - 1) = Some y) by (eapply (anc_unique c s head); eauto; lia).
  rewrite (anc_step c s x sm _ I Ex) in Hya by lia. rewrite Hya in R. inversion R. lia.
Qed.

Lemma Qe_mono c s head : wf_cfg c -> Inv c s -> Qrec c s -> stored s head = true ->
  forall d e, (e + N.of_nat d) * c_L c + c_L c - 1 <= num_of head -> Qe c s head e <= Qe c s head (e + N.of_nat d).
Proof.
  intros Hc I Q Hs. induction d as [|d IH]; intros e Hle.
  - rewrite N.add_0_r. lia.
  - replace (e + N.of_nat (S d)) with (e + N.of_nat d + 1) in * by lia.
    etransitivity; [apply IH; nia|]. apply Qe_step; auto.
Qed.

Lemma Qe_le c s head e e' : wf_cfg c -> Inv c s -> Qrec c s -> stored s head = true ->
  e <= e' -> e' * c_L c + c_L c - 1 <= num_of head -> Qe c s head e <= Qe c s head e'.
Proof.
  intros Hc I Q Hs Hee Hle. replace e' with (e + N.of_nat (N.to_nat (e' - e))) in * by lia.
  apply Qe_mono; auto.
Qed.

(* ---- findCheckpointByQuality: the first block of the least epoch (from the finalized one on) whose quality reaches
   the target, provided it is exactly the target *)

Section FindSpec.
  Variables (c : cfg) (s : store) (head E : N).
  Hypothesis Hc : wf_cfg c.
  Hypothesis I : Inv c s.
  Hypothesis Q : Qrec c s.
  Hypothesis Hs : stored s head = true.
  Hypothesis HE : num_of head = E * c_L c + c_L c - 1.

  Lemma find_checkpoint_spec t fin e0 f : num_of fin = e0 * c_L c -> e0 <= E ->
    (find_checkpoint c s t fin head = Some f <->
     exists e, e0 <= e <= E /\ Qe c s head e = t /\ (forall e', e0 <= e' < e -> Qe c s head e' < t) /\
               anc s head (e * c_L c) = Some f).
  Proof.
    intros Hfin He0. pose proof Hc as [_ HL]. set (L := c_L c) in *.
    unfold find_checkpoint. fold L. rewrite Hfin, HE.
    destruct (E * L + L - 1 <? e0 * L) eqn:Elt; [apply N.ltb_lt in Elt; nia|].
    assert (En : (E * L + L - 1 - e0 * L) / L + 1 = E - e0 + 1).
    { f_equal. replace (E * L + L - 1 - e0 * L) with ((L - 1) + (E - e0) * L) by nia.
      rewrite N.div_add by lia. rewrite N.div_small by lia. lia. }
    rewrite En. set (n := E - e0 + 1).
    assert (Esp : forall i, storepoint L (e0 * L + i * L) = (e0 + i) * L + L - 1).
    { intro i. unfold storepoint, checkpoint. replace (e0 * L + i * L) with ((e0 + i) * L) by lia.
      rewrite N.div_mul by lia. reflexivity. }
    set (qf := fun i => match anc s head (storepoint L (e0 * L + i * L)) with Some id => Some (get_quality s id) | None => None end).
    assert (Hqf : forall i, i < n -> qf i = Some (Qe c s head (e0 + i))).
    { intros i Hi. unfold qf, Qe. fold L. rewrite Esp.
      destruct (anc_total c s head ((e0 + i) * L + L - 1) Hc I Hs) as (x & Hx); [rewrite HE; fold L; unfold n in Hi; nia|].
      rewrite Hx. reflexivity. }
    set (pb := fun i => t <=? Qe c s head (e0 + i)).
    destruct (bsearch_least (fun i => match qf i with Some x => Some (t <=? x) | None => None end) pb 0 n) with
      (fuel := S (N.to_nat n)) (lo := 0) (hi := n) as (idx & Hb & Hr & Hbelow & Hat); try lia.
    { intros i Hi. rewrite Hqf by lia. reflexivity. }
    { intros i j _ Hij Hj. unfold pb. rewrite !N.leb_gt. intro X.
      assert (Qe c s head (e0 + i) <= Qe c s head (e0 + j)); [|lia].
      apply Qe_le; auto; try lia. rewrite HE. fold L. unfold n in Hj. nia. }
    fold L in Hb. unfold qf in Hb. rewrite Hb.
    change (match anc s head (storepoint L (e0 * L + idx * L)) with Some id => Some (get_quality s id) | None => None end) with (qf idx).
    split.
    - destruct (idx =? n) eqn:Ein; [discriminate|]. apply N.eqb_neq in Ein.
      assert (Hi : idx < n) by lia. rewrite Hqf by auto.
      destruct (Qe c s head (e0 + idx) =? t) eqn:Et; [|discriminate]. apply N.eqb_eq in Et.
      intro Ha. exists (e0 + idx). split; [unfold n in Hi; lia|]. split; auto. split.
      + intros e' He'. specialize (Hbelow (e' - e0)). unfold pb in Hbelow.
        replace (e0 + (e' - e0)) with e' in Hbelow by lia. apply N.leb_gt. apply Hbelow. lia.
      + replace ((e0 + idx) * L) with (e0 * L + idx * L) by lia. exact Ha.
    - intros (e & He & Hqe & Hbefore & Ha).
      assert (idx = e - e0).
      { destruct (N.lt_trichotomy idx (e - e0)) as [Hl|[->|Hg]]; auto.
        - assert (Hi : idx < n) by (unfold n; lia). specialize (Hat Hi). unfold pb in Hat. apply N.leb_le in Hat.
          specialize (Hbefore (e0 + idx)). lia.
        - specialize (Hbelow (e - e0)). unfold pb in Hbelow. replace (e0 + (e - e0)) with e in Hbelow by lia.
          rewrite Hqe, N.leb_refl in Hbelow. assert (true = false) by (apply Hbelow; lia). discriminate. }
      subst idx. destruct (e - e0 =? n) eqn:Ein; [apply N.eqb_eq in Ein; unfold n in Ein; lia|].
      rewrite Hqf by (unfold n; lia). replace (e0 + (e - e0)) with e by lia. rewrite Hqe, N.eqb_refl.
      replace (e0 * L + (e - e0) * L) with (e * L) by nia. exact Ha.
  Qed.

  (* two starts on the chain of [head]: an older finalized block (epoch er) and a newer one (epoch eu) *)
  Variables (t fr fu er eu : N).
  Hypothesis Hfr : num_of fr = er * c_L c.
  Hypothesis Hfu : num_of fu = eu * c_L c.
  Hypothesis Hru : er <= eu.
  Hypothesis HuE : eu <= E.

  Lemma find_from_older f : find_checkpoint c s t fr head = Some f ->
    (exists e, er <= e <= eu /\ anc s head (e * c_L c) = Some f) \/ find_checkpoint c s t fu head = Some f.
  Proof.
    intro H. apply (find_checkpoint_spec t fr er f Hfr) in H; [|lia]. destruct H as (e & He & Hq & Hb & Ha).
    destruct (N.le_gt_cases e eu) as [Hle|Hgt].
    - left. exists e. split; auto. lia.
    - right. apply (find_checkpoint_spec t fu eu f Hfu HuE). exists e. repeat split; auto; try lia.
      intros e' He'. apply Hb. lia.
  Qed.

  Lemma find_from_newer f : find_checkpoint c s t fu head = Some f -> anc s head (eu * c_L c) <> Some f ->
    find_checkpoint c s t fr head = Some f.
  Proof.
    intros H Hne. apply (find_checkpoint_spec t fu eu f Hfu HuE) in H. destruct H as (e & He & Hq & Hb & Ha).
    assert (Hlt : eu < e).
    { destruct (N.eq_dec e eu) as [->|]; [congruence|lia]. }
    apply (find_checkpoint_spec t fr er f Hfr); [lia|]. exists e. repeat split; auto; try lia.
    intros e' He'. destruct (N.le_gt_cases eu e') as [Hge|Hl]; [apply Hb; lia|].
    assert (Qe c s head e' <= Qe c s head eu) by (apply Qe_le; auto; try lia; rewrite HE; nia).
    assert (Qe c s head eu < t) by (apply Hb; lia). lia.
  Qed.
End FindSpec.
