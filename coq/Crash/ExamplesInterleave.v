(* Crash/ExamplesInterleave.v — a concrete trace of the example history with reader events. *)
From Coq Require Import List NArith Bool Lia.
From Verif Require Import Crash.Model Crash.ProofsStore Crash.ProofsInv Crash.ProofsImport Crash.ProofsCrash Crash.Examples
  Crash.ProofsReaders Crash.ProofsInterleave.
Import ListNotations.
Open Scope N_scope.

Lemma exec_imps c : forall l y rest, exec c y (l ++ rest) (map EImp l) (do_steps y l) rest.
Proof.
  induction l as [|x l IH]; intros y rest; simpl; [constructor|].
  constructor. unfold do_steps. simpl. apply IH.
Qed.

Lemma ex_trace :
  let l := steps_of ex_cfg ex_s0 ex_hist in
  let y0 := mkSys ex_s0 (bid 0 7) (bid 0 7) in
  exists y' todo',
    exec ex_cfg y0 l (map EImp (firstn 3 l) ++ ERead QBest (bid 0 7) (bid 0 7) (ANum (bid 0 7)) ::
                      map EImp (firstn 1 (skipn 3 l)) ++ ERead (QBlock (bid 1 1)) (bid 1 1) (bid 0 7) (ABool true) ::
                      map EImp (firstn 10 (skipn 4 l))) y' todo' /\
    nth_error l 3 = Some (SPubBest (bid 1 1)) /\ y_best y' = bid 3 3.
Proof.
  intros l y0.
  set (y1 := do_steps y0 (firstn 3 l)). set (y2 := do_steps y1 (firstn 1 (skipn 3 l))).
  set (y3 := do_steps y2 (firstn 10 (skipn 4 l))).
  exists y3, (skipn 14 l). split; [|split; vm_compute; reflexivity].
  assert (E1 : l = firstn 3 l ++ skipn 3 l) by (symmetry; apply firstn_skipn).
  assert (E2 : skipn 3 l = firstn 1 (skipn 3 l) ++ skipn 4 l) by (vm_compute; reflexivity).
  assert (E3 : skipn 4 l = firstn 10 (skipn 4 l) ++ skipn 14 l) by (vm_compute; reflexivity).
  eapply exec_app; [rewrite E1 at 1; apply exec_imps|]. fold y1.
  assert (R1 : y_best y1 = bid 0 7 /\ y_fin y1 = bid 0 7 /\ query_steps ex_cfg y1 QBest = ([], ANum (bid 0 7))) by (vm_compute; auto).
  destruct R1 as (B1 & F1 & Q1).
  replace (ERead QBest (bid 0 7) (bid 0 7) (ANum (bid 0 7))) with (ERead QBest (y_best y1) (y_fin y1) (snd (query_steps ex_cfg y1 QBest)))
    by (rewrite B1, F1, Q1; reflexivity).
  constructor. rewrite Q1. cbn [fst do_steps fold_left].
  eapply exec_app; [rewrite E2 at 1; apply exec_imps|]. fold y2.
  assert (R2 : y_best y2 = bid 1 1 /\ y_fin y2 = bid 0 7 /\ query_steps ex_cfg y2 (QBlock (bid 1 1)) = ([], ABool true)) by (vm_compute; auto).
  destruct R2 as (B2 & F2 & Q2).
  replace (ERead (QBlock (bid 1 1)) (bid 1 1) (bid 0 7) (ABool true))
    with (ERead (QBlock (bid 1 1)) (y_best y2) (y_fin y2) (snd (query_steps ex_cfg y2 (QBlock (bid 1 1)))))
    by (rewrite B2, F2, Q2; reflexivity).
  constructor. rewrite Q2. cbn [fst do_steps fold_left].
  rewrite E3 at 1. apply exec_imps.
Qed.
