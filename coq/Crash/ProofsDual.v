(* Crash/ProofsDual.v — where the log database's commit sits among the atomic writes of the main database during one
   import (cmd/thor/node/block_exec.go commitBlock): after the state commit and bft.Select, before Repository.AddBlock
   (index trie, block bulk) and bft.CommitBlock, and only for a block that becomes best.  Consequence for every cut of the
   combined write sequence: if the block is visible in the main database and it became best, its log commit has happened —
   the three block-level states of Crash/LogCrash.v ((absent, not logged), (absent, logged), (present, logged)) are all
   there is. *)
From Coq Require Import List NArith Bool Lia.
From Verif Require Import Crash.Model Crash.ProofsStore Crash.ProofsInv Crash.ProofsImport Crash.ProofsCrash
  Crash.ProofsEqv Crash.ProofsShape Crash.ProofsResumeAll Crash.ProofsFinalized Crash.ProofsQuality Crash.ProofsCatchUp.
Import ListNotations.
Open Scope N_scope.

Inductive wstep := WMain (w : batch) | WLog.

Definition mains (l : list wstep) : list batch := flat_map (fun x => match x with WMain w => [w] | WLog => [] end) l.

Definition becomes_best (c : cfg) (s : store) (b : blk) : bool :=
  precheck s b && accepts c s (b_parent b) && match select c s b with Some true => true | _ => false end.

Definition dual_steps (c : cfg) (s : store) (b : blk) : list wstep :=
  let ws := import_batches c s b in
  let k := length (state_batches b (conf_of s b)) in
  if becomes_best c s b then map WMain (firstn k ws) ++ WLog :: map WMain (skipn k ws) else map WMain ws.

Lemma mains_map ws : mains (map WMain ws) = ws.
Proof. induction ws as [|w r IH]; [reflexivity|]. cbn [map mains flat_map app]. f_equal. exact IH. Qed.

Lemma mains_app a b : mains (a ++ b) = mains a ++ mains b.
Proof. unfold mains. apply flat_map_app. Qed.

(* the main database sees exactly the writes of Crash/Model.v *)
Theorem dual_mains c s b : mains (dual_steps c s b) = import_batches c s b.
Proof.
  unfold dual_steps. destruct (becomes_best c s b); [|apply mains_map].
  rewrite mains_app. change (mains (WLog :: ?l)) with (mains l).
  replace (mains (WLog :: map WMain (skipn (length (state_batches b (conf_of s b))) (import_batches c s b))))
    with (mains (map WMain (skipn (length (state_batches b (conf_of s b))) (import_batches c s b)))) by reflexivity.
  rewrite !mains_map. apply firstn_skipn.
Qed.

Theorem side_block_has_no_log_commit c s b : becomes_best c s b = false -> ~ In WLog (dual_steps c s b).
Proof.
  intros H. unfold dual_steps. rewrite H. intro X. apply in_map_iff in X. destruct X as (w & E & _). discriminate.
Qed.

Lemma becomes_best_main c s b : becomes_best c s b = true -> main_case c s b true.
Proof.
  unfold becomes_best, precheck. intro H. repeat (apply andb_true_iff in H; destruct H as [H ?]).
  apply negb_true_iff in H, H4. apply N.eqb_eq in H2.
  destruct (select c s b) as [[|]|] eqn:Es; try discriminate. repeat split; auto.
Qed.

Lemma firstn_map {A B} (f : A -> B) l : forall j, firstn j (map f l) = map f (firstn j l).
Proof. induction l as [|x l IH]; intros [|j]; simpl; auto. rewrite IH. reflexivity. Qed.

(* every cut of the combined sequence: a visible block that became best has its logs committed *)
Theorem visible_best_block_is_logged c s b j :
  becomes_best c s b = true ->
  let pre := firstn j (dual_steps c s b) in
  stored (apply_writes s (mains pre)) (b_id b) = true -> In WLog pre.
Proof.
  intros Hb pre Hs. pose proof (becomes_best_main c s b Hb) as M.
  pose proof (main_not_stored c s b true M) as Hns.
  unfold pre, dual_steps in *. rewrite Hb in *.
  set (sb := state_batches b (conf_of s b)) in *. set (ws := import_batches c s b) in *.
  assert (Ews : firstn (length sb) ws = sb).
  { unfold ws. rewrite (main_case_batches c s b true M). unfold pre_writes. fold sb.
    rewrite <- app_assoc, firstn_app, firstn_all, PeanoNat.Nat.sub_diag. cbn [firstn]. apply app_nil_r. }
  rewrite Ews in *.
  destruct (PeanoNat.Nat.le_gt_cases j (length sb)) as [Hle|Hgt].
  - exfalso. rewrite firstn_app in Hs. rewrite map_length in Hs.
    replace (j - length sb)%nat with 0%nat in Hs by lia. cbn [firstn] in Hs. rewrite app_nil_r, firstn_map, mains_map in Hs.
    rewrite aux_writes_stored in Hs; [congruence|].
    intros w Hw. apply (state_batches_aux b (conf_of s b)). eapply in_firstn; eauto.
  - rewrite firstn_app, map_length. apply in_or_app. right.
    destruct (j - length sb)%nat as [|d] eqn:Ed; [lia|]. cbn [firstn]. left. reflexivity.
Qed.

(* ... and the log commit comes after the whole state commit of the block *)
Theorem log_commit_follows_state_commit c s b j :
  becomes_best c s b = true -> In WLog (firstn j (dual_steps c s b)) ->
  exists rest, mains (firstn j (dual_steps c s b)) = state_batches b (conf_of s b) ++ rest.
Proof.
  intros Hb Hin. pose proof (becomes_best_main c s b Hb) as M.
  unfold dual_steps in *. rewrite Hb in *.
  set (sb := state_batches b (conf_of s b)) in *. set (ws := import_batches c s b) in *.
  assert (Ews : firstn (length sb) ws = sb).
  { unfold ws. rewrite (main_case_batches c s b true M). unfold pre_writes. fold sb.
    rewrite <- app_assoc, firstn_app, firstn_all, PeanoNat.Nat.sub_diag. cbn [firstn]. apply app_nil_r. }
  rewrite Ews in *. rewrite firstn_app, map_length in *.
  destruct (PeanoNat.Nat.le_gt_cases j (length sb)) as [Hle|Hgt].
  - exfalso. replace (j - length sb)%nat with 0%nat in Hin by lia. cbn [firstn] in Hin. rewrite app_nil_r, firstn_map in Hin.
    apply in_map_iff in Hin. destruct Hin as (w & E & _). discriminate.
  - rewrite firstn_all2 by (rewrite map_length; lia). rewrite mains_app, mains_map. eauto.
Qed.
