(* Crash/ProofsResume.v — the resume clause of C13: the statement, its refutation for the code before the F6 repair
   (restart without re-committing the interrupted store-point head), and the checked instance with the repair. *)
From Coq Require Import List NArith Bool Lia.
From Verif Require Import Crash.Model Crash.ProofsStore Crash.ProofsInv Crash.ProofsImport Crash.ProofsCrash Crash.Examples
  Crash.ProofsEqv Crash.ProofsShape Crash.ProofsResumeAll Crash.ProofsOrphans.
Import ListNotations.
Open Scope N_scope.

(* "resuming the same block stream leads to the same best block and vote tallies as if no crash had happened" *)
Definition resume_converges_statement (rep : bool) : Prop :=
  forall c s0 hist k i, wf_cfg c -> Inv c s0 -> wf_hist c s0 hist -> cut_in_import c s0 hist k i ->
  exists s', resume c rep (crash c s0 hist k) (skipn i hist) = Some s' /\
             get_id s' KBest = get_id (run c s0 hist) KBest /\
             tallies c s' = tallies c (run c s0 hist).

(* the witness: the example history cut after the block bulk of block 3 (which closes the second epoch) and before its
   quality record: 4 writes for block 1, 3 for block 2, account + index + bulk of block 3 *)
Definition f6_cut : nat := 10.

Lemma f6_cut_position :
  cut_in_import ex_cfg ex_s0 ex_hist f6_cut 2 /\
  stored (crash ex_cfg ex_s0 ex_hist f6_cut) (bid 3 3) = true /\
  has (crash ex_cfg ex_s0 ex_hist f6_cut) (KQuality (bid 3 3)) = false /\
  has (crash ex_cfg ex_s0 ex_hist (S f6_cut)) (KQuality (bid 3 3)) = true.
Proof. vm_compute. repeat split; auto; lia. Qed.

Lemma f6_resumed_tallies :
  option_map (fun s => map snd (tallies ex_cfg s)) (resume ex_cfg false (crash ex_cfg ex_s0 ex_hist f6_cut) (skipn 2 ex_hist))
    = Some [2; 1; 0; 1] /\
  map snd (tallies ex_cfg (run ex_cfg ex_s0 ex_hist)) = [4; 3; 2; 1].
Proof. vm_compute. auto. Qed.

(* before the repair the statement is false: store-point qualities 1 0 1 2 instead of 1 2 3 4 *)
Theorem resume_quality_refuted : ~ resume_converges_statement false.
Proof.
  intro H.
  destruct (H ex_cfg ex_s0 ex_hist f6_cut 2%nat ex_wf_cfg ex_inv0 ex_wf_hist (proj1 f6_cut_position)) as (s' & Hr & _ & Ht).
  destruct f6_resumed_tallies as [A B]. rewrite Hr in A. simpl in A. inversion A as [A'].
  rewrite Ht, B in A'. discriminate.
Qed.

(* with the repair: at EVERY cut position of the example history (all 26 prefixes of its 25 writes) the resumed node ends
   with the same best block, the same tallies and the same finalized block *)
Definition same_outcome (c : cfg) (with_fin : bool) (a b : store) : bool :=
  match get_id a KBest, get_id b KBest with
  | Some x, Some y => (x =? y) && (negb with_fin || (finalized c a =? finalized c b))
                      && forallb (fun p => (fst (fst p) =? fst (snd p)) && (snd (fst p) =? snd (snd p))) (combine (tallies c a) (tallies c b))
                      && Nat.eqb (length (tallies c a)) (length (tallies c b))
  | _, _ => false
  end.

Definition import_of_cut (c : cfg) (s : store) (l : list blk) (k : nat) : nat :=
  length (filter (fun i => Nat.leb (offset c s l (S i)) k) (seq 0 (length l))).

Lemma resume_converges_on_example :
  forallb (fun k =>
    match resume ex_cfg true (crash ex_cfg ex_s0 ex_hist k) (skipn (import_of_cut ex_cfg ex_s0 ex_hist k) ex_hist) with
    | Some s' => same_outcome ex_cfg true s' (run ex_cfg ex_s0 ex_hist)
    | None => false
    end) (seq 0 (S (length (writes_of ex_cfg ex_s0 ex_hist)))) = true /\
  length (writes_of ex_cfg ex_s0 ex_hist) = 25%nat.
Proof. vm_compute. auto. Qed.

(* the same sweep without the repair fails exactly at the cuts right after the block bulk of a store-point block (blocks 1, 3, 5, 7) *)
Lemma resume_diverges_exactly_at_f6_cuts :
  filter (fun k =>
    negb match resume ex_cfg false (crash ex_cfg ex_s0 ex_hist k) (skipn (import_of_cut ex_cfg ex_s0 ex_hist k) ex_hist) with
         | Some s' => same_outcome ex_cfg false s' (run ex_cfg ex_s0 ex_hist)
         | None => false
         end) (seq 0 (S (length (writes_of ex_cfg ex_s0 ex_hist)))) = [3; 10; 17; 24]%nat.
Proof. vm_compute. reflexivity. Qed.

(* the example meets the hypotheses of the general resume theorem *)
Lemma ex_wf_cfg2 : wf_cfg2 ex_cfg.
Proof. split; [exact ex_wf_cfg|reflexivity]. Qed.
Lemma ex_inv2 : Inv2 ex_cfg ex_s0.
Proof. apply (genesis_inv2 2 ex_gen); reflexivity. Qed.

Lemma ex_finalized_moves :
  finalized ex_cfg ex_s0 = bid 0 7 /\ finalized ex_cfg (run ex_cfg ex_s0 (firstn 5 ex_hist)) = bid 2 2 /\
  finalized ex_cfg (run ex_cfg ex_s0 ex_hist) = bid 4 4.
Proof. vm_compute. auto. Qed.

Lemma ex_inv3 : Inv3 ex_s0.
Proof. apply genesis_inv3; reflexivity. Qed.

(* an orphan exists in the example: at cut 9 (account and index nodes of block 3 written, its block bulk not) the node
   written under version (3, 0) is in the store, block 3 is not *)
Lemma ex_orphan :
  has (crash ex_cfg ex_s0 ex_hist 9) (KNode 0 31 3 0) = true /\ stored (crash ex_cfg ex_s0 ex_hist 9) (bid 3 3) = false /\
  stored (crash ex_cfg ex_s0 ex_hist 9) (bid 2 2) = true.
Proof. vm_compute. auto. Qed.

Lemma ex_inv4 : Inv4 ex_s0.
Proof. apply genesis_inv4; reflexivity. Qed.
