(* Crash/ProofsInterleave.v — C20: a small-step interleaving semantics.  One importer executes the steps of its imports in
   order (atomic store writes, publications of the in-memory best / finalized pointers); at any moment a reader runs a
   read-only operation: it loads the published pointers, executes the operation's steps and returns its answer.  A trace
   records who moved.  Lemma interleaving_is_prefix: the state after any trace is the state after a prefix of the
   importer's steps (reader events issue no step that changes the state).  Theorems: in EVERY trace, the block a reader
   observed as best (or finalized) is complete in the store at the moment of the observation AND at every later moment
   of the trace (a reader that loads the pointer first and reads the block's data later, while the importer goes on). *)
From Coq Require Import List NArith Bool Lia.
From Verif Require Import Crash.Model Crash.ProofsStore Crash.ProofsInv Crash.ProofsImport Crash.ProofsCrash Crash.ProofsReaders.
Import ListNotations.
Open Scope N_scope.

Inductive event :=
| EImp (x : step)                                   (* the importer executes its next step *)
| ERead (q : query) (best fin : N) (a : answer).    (* a reader: the pointers it loaded, the operation, its answer *)

(* configuration: system state + the importer's remaining steps *)
Inductive exec (c : cfg) : sys -> list step -> list event -> sys -> list step -> Prop :=
| ex_nil y todo : exec c y todo [] y todo
| ex_imp y x todo tr y' todo' : exec c (do_step y x) todo tr y' todo' -> exec c y (x :: todo) (EImp x :: tr) y' todo'
| ex_read y todo q tr y' todo' :
    exec c (do_steps y (fst (query_steps c y q))) todo tr y' todo' ->
    exec c y todo (ERead q (y_best y) (y_fin y) (snd (query_steps c y q)) :: tr) y' todo'.

Lemma exec_app c y todo tr1 y1 todo1 tr2 y2 todo2 :
  exec c y todo tr1 y1 todo1 -> exec c y1 todo1 tr2 y2 todo2 -> exec c y todo (tr1 ++ tr2) y2 todo2.
Proof. induction 1; intro H2; simpl; auto; constructor; auto. Qed.

Lemma exec_split c tr1 : forall y todo tr2 y2 todo2, exec c y todo (tr1 ++ tr2) y2 todo2 ->
  exists y1 todo1, exec c y todo tr1 y1 todo1 /\ exec c y1 todo1 tr2 y2 todo2.
Proof.
  induction tr1 as [|e tr1 IH]; intros y todo tr2 y2 todo2 H; simpl in H.
  - exists y, todo. split; [constructor|exact H].
  - inversion H as [|ya xa ta tra yb tb Hx|ya ta qa tra yb tb Hx]; subst.
    + destruct (IH _ _ _ _ _ Hx) as (y1 & t1 & A & B). exists y1, t1. split; [constructor; auto|auto].
    + destruct (IH _ _ _ _ _ Hx) as (y1 & t1 & A & B). exists y1, t1. split; [constructor; auto|auto].
Qed.

(* "every interleaving is a prefix of the importer's steps" as a lemma *)
Lemma interleaving_is_prefix c y todo tr y' todo' : exec c y todo tr y' todo' ->
  exists k, y' = do_steps y (firstn k todo) /\ todo' = skipn k todo.
Proof.
  induction 1 as [y todo|y x todo tr y' todo' H IH|y todo q tr y' todo' H IH].
  - exists 0%nat. split; reflexivity.
  - destruct IH as (k & E1 & E2). exists (S k). split; auto.
  - destruct IH as (k & E1 & E2). rewrite (proj2 (queries_are_pure c y q)) in E1. exists k. auto.
Qed.

(* ... and every prefix is reached by some interleaving (so the trace theorems below are not about an empty set) *)
Lemma prefix_is_interleaving c y todo k : exec c y todo (map EImp (firstn k todo)) (do_steps y (firstn k todo)) (skipn k todo).
Proof.
  revert y k. induction todo as [|x todo IH]; intros y k; destruct k; simpl; try constructor.
  unfold do_steps. simpl. apply IH.
Qed.

(* ---- stored blocks stay stored along good steps *)

Lemma good_steps_skipn c l : forall s k, good_steps c s l ->
  good_steps c (apply_writes s (writes_of_steps (firstn k l))) (skipn k l).
Proof.
  induction l as [|x l IH]; intros s k H; destruct k; simpl; auto.
  destruct x; simpl in *.
  - destruct H as (_ & _ & H). apply (IH _ k H).
  - destruct H as (_ & H). apply (IH _ k H).
  - destruct H as (_ & H). apply (IH _ k H).
Qed.

Lemma good_steps_stored c l : forall s k id, good_steps c s l -> stored s id = true ->
  stored (apply_writes s (writes_of_steps (firstn k l))) id = true.
Proof.
  induction l as [|x l IH]; intros s k id H Hs; destruct k; simpl; auto.
  destruct x; simpl in *.
  - destruct H as (_ & M & H). apply (IH _ k id H). apply M. auto.
  - destruct H as (_ & H). apply (IH _ k id H Hs).
  - destruct H as (_ & H). apply (IH _ k id H Hs).
Qed.

Lemma firstn_plus' {A} (l : list A) : forall a d, firstn (a + d) l = firstn a l ++ firstn d (skipn a l).
Proof. induction l as [|x l IH]; intros a d; destruct a; simpl; auto; [destruct d; auto|f_equal; apply IH]. Qed.

(* a pointer observed after k1 importer steps names a block that is complete after k2 >= k1 steps *)
Theorem observed_block_stays_complete c s0 hist k1 k2 :
  wf_cfg c -> Inv c s0 -> wf_hist c s0 hist -> (k1 <= k2)%nat ->
  forall b0 f0, stored s0 b0 = true -> stored s0 f0 = true ->
  let y1 := do_steps (mkSys s0 b0 f0) (firstn k1 (steps_of c s0 hist)) in
  let y2 := do_steps (mkSys s0 b0 f0) (firstn k2 (steps_of c s0 hist)) in
  readable (y_store y2) (y_best y1) = true /\ readable (y_store y2) (y_fin y1) = true.
Proof.
  intros Hc I Hw Hk b0 f0 Hb Hf y1 y2.
  set (l := steps_of c s0 hist) in *. set (y0 := mkSys s0 b0 f0) in *.
  assert (G : good_steps c s0 l) by (apply history_good_steps; auto).
  assert (Y0 : sys_inv c y0) by (split; [exact I|split; auto]).
  assert (Y1 : sys_inv c y1) by (apply (good_steps_prefix c l y0 k1); auto).
  assert (Y2 : sys_inv c y2) by (apply (good_steps_prefix c l y0 k2); auto).
  assert (E2 : y_store y2 = apply_writes (y_store y1) (writes_of_steps (firstn (k2 - k1) (skipn k1 l)))).
  { unfold y2, y1. rewrite !do_steps_store. replace k2 with (k1 + (k2 - k1))%nat at 1 by lia.
    rewrite firstn_plus', writes_of_steps_app, apply_writes_app. reflexivity. }
  assert (G1 : good_steps c (y_store y1) (skipn k1 l)).
  { unfold y1. rewrite do_steps_store. apply good_steps_skipn. exact G. }
  destruct Y1 as (_ & Sb & Sf). destruct Y2 as (I2 & _ & _).
  split; apply (Inv_readable c); auto; rewrite E2; apply (good_steps_stored c); auto.
Qed.

(* ---- every trace *)

(* whatever a reader observed as best / finalized anywhere in ANY trace is complete in the store at the end of the trace
   (the trace may stop right after the observation or go on with any number of importer and reader events) *)
Theorem every_trace_reader_sees_complete c s0 hist b0 f0 tr1 q b f a tr2 y' todo' :
  wf_cfg c -> Inv c s0 -> wf_hist c s0 hist -> stored s0 b0 = true -> stored s0 f0 = true ->
  exec c (mkSys s0 b0 f0) (steps_of c s0 hist) (tr1 ++ ERead q b f a :: tr2) y' todo' ->
  readable (y_store y') b = true /\ readable (y_store y') f = true.
Proof.
  intros Hc I Hw Hb Hf H.
  destruct (exec_split c tr1 _ _ _ _ _ H) as (y1 & t1 & H1 & H2).
  destruct (interleaving_is_prefix c _ _ _ _ _ H1) as (k1 & E1 & T1).
  inversion H2 as [|ya xa ta tra yb tb Hx|ya ta qa tra yb tb H3]; subst.
  rewrite (proj2 (queries_are_pure c _ q)) in H3.
  destruct (interleaving_is_prefix c _ _ _ _ _ H3) as (d & E2 & _).
  set (l := steps_of c s0 hist) in *.
  assert (E : y' = do_steps (mkSys s0 b0 f0) (firstn (k1 + d) l)).
  { rewrite E2. unfold do_steps. rewrite firstn_plus', fold_left_app. reflexivity. }
  rewrite E. apply (observed_block_stays_complete c s0 hist k1 (k1 + d)); auto. lia.
Qed.

(* the system state a trace ends in does not depend on the reader events in it *)
Theorem readers_do_not_change_the_state c y todo tr y' todo' : exec c y todo tr y' todo' ->
  exec c y todo (filter (fun e => match e with EImp _ => true | ERead _ _ _ _ => false end) tr) y' todo'.
Proof.
  induction 1 as [y todo|y x todo tr y' todo' H IH|y todo q tr y' todo' H IH]; simpl.
  - constructor.
  - constructor. auto.
  - rewrite (proj2 (queries_are_pure c y q)) in IH. exact IH.
Qed.
