(* Crash/LogCrash.v — the log database as the node's second store (C13 / C15).
   cmd/thor/node/block_exec.go commitBlock, for a block that becomes best: state commit (main db), bft.Select, writeLogs =
   ONE transaction of the log database (Truncate + Write... + Commit; anchors logdb/logdb.go Writer, cmd/thor/node
   block_exec.go writeLogs), then Repository.AddBlock (main db: index trie, block bulk), then bft.CommitBlock.  A block that
   does not become best touches the main database only.
   At block level the main database is wp-chain's repository model (Chain/Model.v): the key-value cuts of Crash/Model.v
   before the block bulk read as "block absent", the cuts after it as "block present and complete"
   (every_cut_satisfies_invariant / orphans_unreachable; the position of the log commit among the key-value batches is
   Crash/ProofsDual.v).  So one import is at most two atomic node updates, a crash keeps a prefix of them, and the start
   runs syncLogDB (LogDB/Model.v sync_logdb, proved in LogDB/ProofsSync.v: sync_reestablishes_canonical). *)
From Coq Require Import List NArith Bool Lia.
From Verif Require Import Chain.Model Chain.Proofs Chain.ProofsWalk Chain.ProofsSys Chain.ProofsPath
  LogDB.Model LogDB.Proofs LogDB.ProofsCanon LogDB.ProofsRows LogDB.ProofsSync.
Import ListNotations.
Open Scope N_scope.

Record node := mkNode { n_repo : repo; n_log : logdb }.

(* the atomic updates of one import, in order *)
Inductive lstep := LCommit (db' : logdb) | LAdd (r' : repo).

Definition do_lstep (n : node) (x : lstep) : node :=
  match x with
  | LCommit d => mkNode (n_repo n) d
  | LAdd r' => mkNode r' (n_log n)
  end.

(* commitBlock: None = the import fails before any write ("write logs" / "add block" errors) *)
Definition import_lsteps (n : node) (b : blk) (conf : N) (best : bool) : option (list lstep) :=
  let r := n_repo n in
  match (if best then write_logs r (n_log n) b (r_best r) else Some (n_log n)), add_block r b conf best with
  | Some d, Some r' => Some ((if best then [LCommit d] else []) ++ [LAdd r'])
  | _, _ => None
  end.

(* the node a crash after the first j updates leaves *)
Definition lcut (n : node) (b : blk) (conf : N) (best : bool) (j : nat) : option node :=
  match import_lsteps n b conf best with
  | Some l => Some (fold_left do_lstep (firstn j l) n)
  | None => None
  end.

(* the start: syncLogDB against the repository found on disk *)
Definition lrestart (n : node) : option node :=
  match sync_logdb (n_repo n) (n_log n) with
  | Some d => Some (mkNode (n_repo n) d)
  | None => None
  end.

Definition log_canonical (n : node) : Prop :=
  forall st, is_path (n_repo n) (r_best (n_repo n)) st ->
    rows_of_path (n_repo n) st = Some (n_log n) /\
    db_events (n_log n) = chain_events (n_repo n) st /\ db_transfers (n_log n) = chain_transfers (n_repo n) st.

(* ---- syncLogDB reads the chain of the best block only: a block stored beside it changes nothing *)

Section SideAdd.
  Variables (g gp : N) (r r' : repo) (b : blk) (conf : N).
  Hypothesis W : wf g gp r.
  Hypothesis V : valid_add r b conf.
  Hypothesis A : add_block r b conf false = Some r'.

  Lemma side_best : r_best r' = r_best r.
  Proof. rewrite (add_best r r' b conf false A). reflexivity. Qed.

  Lemma side_get_block_id h n : stored r h -> get_block_id r' h n = get_block_id r h n.
  Proof.
    intros [s Hs]. unfold get_block_id. rewrite (add_summary_old r r' b conf false V A h s Hs), Hs.
    rewrite (add_root_old g gp r r' b conf false W V A h s Hs). reflexivity.
  Qed.

  Lemma side_seek_walk db fuel : forall h, stored r h -> seek_walk r' db fuel h = seek_walk r db fuel h.
  Proof.
    induction fuel as [|f IH]; intros h [s Hs]; [reflexivity|]. cbn [seek_walk].
    destruct (num_of h =? 0) eqn:E0; [reflexivity|]. destruct (has_block_id db h) as [[|]|]; try reflexivity.
    rewrite (add_summary_old r r' b conf false V A h s Hs), Hs.
    assert (Hne : h <> g).
    { intro X. subst h. rewrite (w_gnum _ _ _ W) in E0. discriminate. }
    destruct (w_par _ _ _ W h s Hs Hne) as (ps & Hps & _). apply IH. exists ps. exact Hps.
  Qed.

  Lemma side_write_range head : stored r head -> forall n i db, write_range r' head n i db = write_range r head n i db.
  Proof.
    intros Hh. induction n as [|n IH]; intros i db; [reflexivity|]. cbn [write_range].
    rewrite (side_get_block_id head i Hh).
    destruct (get_block_id r head i) as [id| |] eqn:E; try reflexivity.
    apply (get_block_id_spec g gp r W head i id Hh) in E. destruct E as [Ea _].
    destruct (anc_stored _ _ _ Ea) as [_ [s Hs]].
    rewrite (get_block_old g gp r r' b conf false id s W V A Hs).
    destruct (get_block r id) as [[s' b']|]; [|reflexivity]. destruct (write_block b' db); auto.
  Qed.

  Lemma side_sync db : sync_logdb r' db = sync_logdb r db.
  Proof.
    pose proof (w_best _ _ _ W) as Sb.
    assert (Eseek : seek_position r' db = seek_position r db).
    { unfold seek_position. rewrite side_best. destruct (num_of (r_best r) =? 0); [reflexivity|].
      destruct (num_of (newest_block_id db) =? 0); [reflexivity|]. destruct (newest_block_id db =? r_best r); [reflexivity|].
      rewrite (side_get_block_id _ _ Sb).
      match goal with |- match ?X with _ => _ end = _ => destruct X as [h| |] eqn:E end; try reflexivity.
      apply (get_block_id_spec g gp r W _ _ h Sb) in E. destruct E as [Ea _].
      apply side_seek_walk. apply (proj2 (anc_stored _ _ _ Ea)). }
    unfold sync_logdb. rewrite Eseek, side_best. destruct (seek_position r db) as [p| |]; try reflexivity.
    destruct (num_of (r_best r) <? p); [reflexivity|].
    destruct (truncate _ db); [|reflexivity]. apply side_write_range. exact Sb.
  Qed.
End SideAdd.

(* ---- every cut of an import, then the start *)

Section Cuts.
  Variables g gp tag : N.
  Hypothesis Hg : num_of g = 0.

  Lemma imported_canonical r db : imported g gp tag r db -> log_canonical (mkNode r db).
  Proof.
    intros I st P. cbn [n_repo n_log] in *.
    pose proof (imported_reachable _ _ _ _ _ I) as R.
    pose proof (logdb_tracks_canonical_lemma g gp tag Hg r db I st P) as H. split; auto.
    apply (rows_of_path_flat r st (reachable_wf_body _ _ _ _ _ Hg R) (path_desc g gp r (reachable_wf _ _ _ _ _ Hg R) _ _ P)). exact H.
  Qed.

  (* on a state of the uninterrupted run the re-sync changes nothing *)
  Lemma sync_on_imported r db d : imported g gp tag r db -> sync_logdb r db = Some d -> d = db.
  Proof.
    intros I Hs. pose proof (imported_reachable _ _ _ _ _ I) as R.
    pose proof (reachable_wf _ _ _ _ _ Hg R) as W. pose proof (reachable_wf_body _ _ _ _ _ Hg R) as WB.
    destruct (path_exists g gp r W (r_best r) (w_best _ _ _ W)) as [st P].
    pose proof (logdb_tracks_canonical_lemma g gp tag Hg r db I st P) as H1.
    pose proof (sync_reestablishes_lemma g gp r W WB (r_best r) st st db P P H1 d Hs) as H2. congruence.
  Qed.

  (* the cut between the log commit and AddBlock: the tables hold the rows of a block the repository does not know;
     the re-sync brings back the tables of the repository's best block — the state before the import *)
  Lemma sync_after_log_commit r db b conf db' d :
    imported g gp tag r db -> valid_add r b conf -> write_logs r db b (r_best r) = Some db' ->
    (exists r', add_block r b conf true = Some r') ->
    sync_logdb r db' = Some d -> d = db.
  Proof.
    intros I V Hw [r1 A1] Hs. pose proof (imported_reachable _ _ _ _ _ I) as R.
    pose proof (reachable_wf _ _ _ _ _ Hg R) as W. pose proof (reachable_wf_body _ _ _ _ _ Hg R) as WB.
    (* the same block stored beside the chain *)
    destruct (add_parent _ _ _ _ _ A1) as [ps [Hps _]].
    assert (A : exists r', add_block r b conf false = Some r') by (unfold add_block; rewrite Hps; eauto).
    destruct A as [r' A].
    assert (I' : imported g gp tag r' db) by (eapply imp_side; eauto).
    pose proof (imported_reachable _ _ _ _ _ I') as R'.
    pose proof (reachable_wf _ _ _ _ _ Hg R') as W'. pose proof (reachable_wf_body _ _ _ _ _ Hg R') as WB'.
    destruct (path_exists g gp r W (r_best r) (w_best _ _ _ W)) as [st_o Po].
    destruct (path_exists g gp r W (b_parent b) (ex_intro _ ps Hps)) as [st_p Pp].
    pose proof (logdb_tracks_canonical_lemma g gp tag Hg r db I st_o Po) as Ho.
    destruct (write_logs_canonical g gp Hg r db b db' st_o st_p W WB Po Pp Ho Hw) as [dp [Hdp Hfin]].
    (* in r' the tables db' are the canonical tables of block b *)
    assert (Px : is_path r' (b_id b) (b_id b :: st_p)).
    { eapply path_step.
      - rewrite (add_summary _ _ _ _ _ A), N.eqb_refl. reflexivity.
      - rewrite (add_gen r r' b conf false A), (w_gen _ _ _ W). apply (add_ne_g g gp r b conf W V).
      - cbn [s_parent]. eapply path_mono; eauto. }
    assert (Hx : rows_of_path r' (b_id b :: st_p) = Some db').
    { cbn [rows_of_path]. rewrite (rows_of_path_old g gp r r' b conf false st_p W V A), Hdp, (get_block_new r r' b conf false A); [exact Hfin|].
      intros a Ha. apply (path_members g gp r W _ _ Pp) in Ha. apply (proj2 (anc_stored _ _ _ Ha)). }
    assert (Pb : is_path r' (r_best r') st_o).
    { rewrite (side_best r r' b conf A). eapply path_mono; eauto. }
    rewrite <- (side_sync g gp r r' b conf W V A db') in Hs.
    pose proof (sync_reestablishes_lemma g gp r' W' WB' (b_id b) (b_id b :: st_p) st_o db' Px Pb Hx d Hs) as H2.
    pose proof (logdb_tracks_canonical_lemma g gp tag Hg r' db I' st_o Pb) as H3. congruence.
  Qed.

  (* C13 for the log database: a crash after ANY prefix of the atomic updates of ANY import, after ANY history, followed
     by the start-up re-sync, gives a state of the uninterrupted run — the one before the import or the one after it — and
     the log tables are the logs of the canonical chain of the repository found on disk *)
  Theorem log_crash_resync r db b conf best j n' n'' :
    imported g gp tag r db -> valid_add r b conf ->
    lcut (mkNode r db) b conf best j = Some n' -> lrestart n' = Some n'' ->
    imported g gp tag (n_repo n'') (n_log n'') /\ log_canonical n'' /\
    (n'' = mkNode r db \/
     exists l, import_lsteps (mkNode r db) b conf best = Some l /\ n'' = fold_left do_lstep l (mkNode r db)).
  Proof.
    intros I V Hc Hr. unfold lcut in Hc. destruct (import_lsteps (mkNode r db) b conf best) as [l|] eqn:El; [|discriminate].
    injection Hc as <-. unfold import_lsteps in El. cbn [n_repo n_log] in El.
    assert (Done : forall n, imported g gp tag (n_repo n) (n_log n) -> lrestart n = Some n'' -> n'' = n).
    { intros n In Hn. unfold lrestart in Hn. destruct (sync_logdb (n_repo n) (n_log n)) as [d|] eqn:Es; [|discriminate].
      injection Hn as <-. rewrite (sync_on_imported _ _ d In Es). destruct n; reflexivity. }
    assert (Fin : forall n, imported g gp tag (n_repo n) (n_log n) -> n'' = n ->
              imported g gp tag (n_repo n'') (n_log n'') /\ log_canonical n'').
    { intros n In ->. split; auto. destruct n as [rn dn]. apply imported_canonical. exact In. }
    destruct best.
    - destruct (write_logs r db b (r_best r)) as [d1|] eqn:Hw; [|discriminate].
      destruct (add_block r b conf true) as [r1|] eqn:A; [|discriminate]. injection El as <-. cbn [app] in *.
      assert (I1 : imported g gp tag r1 d1) by (eapply imp_best; eauto).
      destruct j as [|[|j]]; cbn [firstn fold_left do_lstep n_repo n_log] in *.
      + (* before the log commit *)
        pose proof (Done (mkNode r db) I Hr) as E. destruct (Fin (mkNode r db) I E). subst. auto.
      + (* after the log commit, before AddBlock *)
        unfold lrestart in Hr. cbn [n_repo n_log] in Hr. destruct (sync_logdb r d1) as [d|] eqn:Es; [|discriminate].
        pose proof (sync_after_log_commit r db b conf d1 d I V Hw (ex_intro _ r1 A) Es) as Ed. subst d. injection Hr as <-.
        destruct (Fin (mkNode r db) I eq_refl). auto.
      + (* after AddBlock *)
        rewrite firstn_nil in Hr. cbn [fold_left] in Hr.
        pose proof (Done (mkNode r1 d1) I1 Hr) as E. destruct (Fin (mkNode r1 d1) I1 E). subst. split; auto. split; auto.
        right. eexists; split; reflexivity.
    - destruct (add_block r b conf false) as [r1|] eqn:A; [|discriminate]. injection El as <-. cbn [app] in *.
      assert (I1 : imported g gp tag r1 db) by (eapply imp_side; eauto).
      destruct j as [|j]; cbn [firstn fold_left do_lstep n_repo n_log] in *.
      + pose proof (Done (mkNode r db) I Hr) as E. destruct (Fin (mkNode r db) I E). subst. auto.
      + rewrite firstn_nil in Hr. cbn [fold_left] in Hr.
        pose proof (Done (mkNode r1 db) I1 Hr) as E. destruct (Fin (mkNode r1 db) I1 E). subst. split; auto. split; auto.
        right. eexists; split; reflexivity.
  Qed.
End Cuts.
