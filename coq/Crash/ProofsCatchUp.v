(* Crash/ProofsCatchUp.v — a node whose finalized record lags behind (it holds an ancestor of the finalized block another
   node holds, all other keys equal) and what imports do to the pair.  Before the F13 repair (/repo 38d50ce: quality and
   finalized record in one batch) a crash between the two separate writes produced such a node; the lemmas say what such
   a node converges to in the best case (no block refused by the up-to-date node's finality check) and the checked
   counter-example (Crash/ExamplesCatchUp.v) shows what goes wrong otherwise — the reason for the repair.
   With the repair, Crash/ProofsResumeAll.v resume_converges needs none of this. *)
From Coq Require Import List NArith Bool Lia Permutation.
From Verif Require Import Crash.Model Crash.ProofsStore Crash.ProofsInv Crash.ProofsImport Crash.ProofsCrash
  Crash.ProofsEqv Crash.ProofsShape Crash.ProofsResumeAll Crash.ProofsFinalized Crash.ProofsQuality.
Import ListNotations.
Open Scope N_scope.

(* ---- stores that agree under every key but the finalized record *)

Definition eqv_nf (s s' : store) : Prop := forall k, k <> KFinalized -> get s k = get s' k.

Lemma eqv_nf_refl s : eqv_nf s s. Proof. intros k _. reflexivity. Qed.
Lemma eqv_eqv_nf s s' : eqv s s' -> eqv_nf s s'. Proof. intros H k _. apply H. Qed.

Lemma eqv_nf_apply_batch s s' w : eqv_nf s s' -> eqv_nf (apply_batch s w) (apply_batch s' w).
Proof. intros E k Hk. rewrite !get_apply_batch. destruct (last_op k w) as [[? ?|?]|]; auto. Qed.
Lemma eqv_nf_apply_writes ws : forall s s', eqv_nf s s' -> eqv_nf (apply_writes s ws) (apply_writes s' ws).
Proof. induction ws as [|w r IH]; intros s s' E; simpl; auto. apply IH. apply eqv_nf_apply_batch; auto. Qed.

Lemma eqv_nf_put_l s s' v : eqv_nf s s' -> eqv_nf (apply_batch s [Put KFinalized v]) s'.
Proof. intros E k Hk. rewrite get_frame; auto. intros o [<-|[]]. simpl. congruence. Qed.
Lemma eqv_nf_put_r s s' v : eqv_nf s s' -> eqv_nf s (apply_batch s' [Put KFinalized v]).
Proof. intros E k Hk. rewrite get_frame; auto. intros o [<-|[]]. simpl. congruence. Qed.

Lemma eqv_nf_put_both s s' v : eqv_nf s s' -> eqv (apply_batch s [Put KFinalized v]) (apply_batch s' [Put KFinalized v]).
Proof.
  intros E k. destruct (key_eq_dec k KFinalized) as [->|Hne].
  - rewrite !get_apply_batch. reflexivity.
  - rewrite !get_frame; auto; intros o [<-|[]]; simpl; congruence.
Qed.

Lemma scan_conflicts_ext s s' n : (forall id, stored s id = stored s' id) -> scan_conflicts s n = scan_conflicts s' n.
Proof.
  intro H. unfold scan_conflicts. f_equal. apply Permutation_length.
  apply NoDup_Permutation; try (apply NoDup_filter, summary_ids_nodup).
  intro x. rewrite !filter_In. rewrite (H x).
  split; intros [_ Hx]; split; auto; apply stored_in_ids; apply andb_true_iff in Hx; destruct Hx as [Hx _]; auto.
  rewrite (H x); auto.
Qed.

Lemma max_num_ext s s' : (forall id, stored s id = stored s' id) -> max_num s = max_num s'.
Proof.
  intro H. unfold max_num.
  assert (X : forall a b, (forall id, stored a id = stored b id) ->
              incl (map num_of (filter (stored a) (summary_ids a))) (map num_of (filter (stored b) (summary_ids b)))).
  { intros a b Eab x Hx. apply in_map_iff in Hx. destruct Hx as (id & <- & Hid). apply filter_In in Hid. destruct Hid as [_ Hs].
    apply in_map. apply filter_In. rewrite (Eab id) in Hs. split; auto. apply stored_in_ids; auto. }
  apply N.le_antisymm; apply fold_max_incl; auto.
Qed.

Section NF.
  Variables s s' : store.
  Hypothesis E : eqv_nf s s'.

  Lemma nf_get_summary id : get_summary s id = get_summary s' id.
  Proof. unfold get_summary. rewrite E by discriminate. reflexivity. Qed.
  Lemma nf_stored id : stored s id = stored s' id.
  Proof. unfold stored. rewrite nf_get_summary. reflexivity. Qed.
  Lemma nf_get_quality id : get_quality s id = get_quality s' id.
  Proof. unfold get_quality. rewrite E by discriminate. reflexivity. Qed.
  Lemma nf_best : get_id s KBest = get_id s' KBest.
  Proof. unfold get_id. rewrite E by discriminate. reflexivity. Qed.

  Lemma nf_ancestor fuel : forall id n, ancestor fuel s id n = ancestor fuel s' id n.
  Proof.
    induction fuel as [|f IH]; intros id n; simpl; rewrite nf_get_summary; destruct (get_summary s' id); auto.
    destruct (num_of id =? n); auto. destruct (num_of id <? n); auto.
  Qed.
  Lemma nf_anc id n : anc s id n = anc s' id n.
  Proof. unfold anc. apply nf_ancestor. Qed.
  Lemma nf_quality_of c p n j : quality_of c s p n j = quality_of c s' p n j.
  Proof. unfold quality_of. rewrite nf_anc. destruct (n / c_L c =? 0); auto. destruct (anc s' p _); auto. rewrite nf_get_quality. auto. Qed.

  Lemma nf_find_checkpoint c t fin head : find_checkpoint c s t fin head = find_checkpoint c s' t fin head.
  Proof.
    unfold find_checkpoint. destruct (num_of head <? num_of fin); auto.
    rewrite (bsearch_ext
      (fun i => match match anc s head (storepoint (c_L c) (num_of fin + i * c_L c)) with Some id => Some (get_quality s id) | None => None end with
                | Some x => Some (t <=? x) | None => None end)
      (fun i => match match anc s' head (storepoint (c_L c) (num_of fin + i * c_L c)) with Some id => Some (get_quality s' id) | None => None end with
                | Some x => Some (t <=? x) | None => None end)).
    2:{ intro i. rewrite nf_anc. destruct (anc s' head _); auto. rewrite nf_get_quality. auto. }
    destruct (bsearch _ _ 0 _) as [idx|]; auto.
    destruct (idx =? _); auto.
    rewrite nf_anc. destruct (anc s' head (storepoint _ _)) as [x|]; auto.
    rewrite nf_get_quality. destruct (get_quality s' x =? t); auto. apply nf_anc; auto.
  Qed.

  Lemma nf_select c b : select c s b = select c s' b.
  Proof.
    unfold select. rewrite nf_best. destruct (get_id s' KBest) as [best|]; auto. rewrite nf_get_summary.
    destruct (get_summary s' best) as [bs|]; auto. rewrite !nf_quality_of. auto.
  Qed.

  Lemma nf_scan_conflicts n : scan_conflicts s n = scan_conflicts s' n.
  Proof. apply scan_conflicts_ext. apply nf_stored. Qed.
  Lemma nf_max_num : max_num s = max_num s'.
  Proof. apply max_num_ext. apply nf_stored. Qed.
  Lemma nf_conf_of b : conf_of s b = conf_of s' b.
  Proof. apply nf_scan_conflicts. Qed.
  Lemma nf_pre_writes b ab : pre_writes s b ab = pre_writes s' b ab.
  Proof. unfold pre_writes. rewrite nf_conf_of. reflexivity. Qed.
End NF.

(* ---- the checks of the import path before the finality check *)

Definition precheck (s : store) (b : blk) : bool :=
  negb (max_num s + 1 <? num_of (b_id b)) && negb ((0 <? scan_conflicts s (num_of (b_id b))) && stored s (b_id b))
  && stored s (b_parent b) && (num_of (b_parent b) + 1 =? num_of (b_id b)).

(* errBFTRejected *)
Definition bft_rejected (c : cfg) (s : store) (b : blk) : bool := precheck s b && negb (accepts c s (b_parent b)).

Fixpoint no_bft_reject (c : cfg) (s : store) (l : list blk) : bool :=
  match l with
  | [] => true
  | b :: r => negb (bft_rejected c s b) && no_bft_reject c (run1 c s b) r
  end.

Lemma nf_precheck s s' b : eqv_nf s s' -> precheck s b = precheck s' b.
Proof. intro E. unfold precheck. rewrite (nf_max_num s s' E), (nf_scan_conflicts s s' E), !(nf_stored s s' E). reflexivity. Qed.

Lemma precheck_false c s b : precheck s b = false -> import_batches c s b = [].
Proof.
  unfold precheck, import_batches, import_steps. intro H.
  destruct (max_num s + 1 <? num_of (b_id b)); auto.
  destruct ((0 <? scan_conflicts s (num_of (b_id b))) && stored s (b_id b)); auto.
  destruct (stored s (b_parent b)); auto.
  destruct (num_of (b_parent b) + 1 =? num_of (b_id b)); auto. discriminate.
Qed.

Lemma precheck_true c s b : precheck s b = true ->
  stored s (b_parent b) = true /\
  ((accepts c s (b_parent b) = false /\ import_batches c s b = []) \/
   (accepts c s (b_parent b) = true /\ select c s b = None /\ import_batches c s b = state_batches b (conf_of s b)) \/
   (accepts c s (b_parent b) = true /\ exists ab, main_case c s b ab)).
Proof.
  unfold precheck. intro H. repeat (apply andb_true_iff in H; destruct H as [H ?]).
  apply negb_true_iff in H, H2. apply N.eqb_eq in H0. split; auto.
  destruct (accepts c s (b_parent b)) eqn:Ea.
  - right. destruct (select c s b) as [ab|] eqn:Es.
    + right. split; auto. exists ab. unfold main_case. repeat split; auto.
    + left. repeat split; auto. unfold import_batches, import_steps, conf_of.
      rewrite H, H2, H1. cbn [negb]. apply N.eqb_eq in H0. rewrite H0, Ea. cbn [negb]. rewrite Es.
      apply writes_of_steps_map.
  - left. split; auto. unfold import_batches, import_steps.
    rewrite H, H2, H1. cbn [negb]. apply N.eqb_eq in H0. rewrite H0, Ea. reflexivity.
Qed.

Lemma main_case_precheck c s b ab : main_case c s b ab -> precheck s b = true /\ accepts c s (b_parent b) = true.
Proof.
  intros (M1 & M2 & Mp & Mn & Ma & _). split; auto. unfold precheck. rewrite M1, M2, Mp. apply N.eqb_eq in Mn. rewrite Mn. reflexivity.
Qed.

(* ---- the finality check with an older finalized block *)

Lemma accepts_anc c s p : wf_cfg c -> Inv c s -> stored s p = true -> accepts c s p = true ->
  anc s p (num_of (finalized c s)) = Some (finalized c s).
Proof.
  intros Hc I Hp Ha. unfold accepts in Ha. set (F := finalized c s) in *.
  destruct (num_of F =? 0) eqn:E0.
  - apply N.eqb_eq in E0. assert (F = c_g c) by (apply (num0_is_genesis c s F I (finalized_stored c s Hc I) E0)).
    destruct (anc_total c s p 0 Hc I Hp) as (a & Ha0); [lia|].
    assert (a = c_g c) by (eapply ancestor_genesis; eauto). rewrite E0. congruence.
  - destruct (anc s p (num_of F)) as [a|]; [|discriminate]. apply N.eqb_eq in Ha. congruence.
Qed.

Lemma accepts_older c r u p : wf_cfg c -> Inv c u -> eqv_nf r u -> desc u (finalized c r) (finalized c u) ->
  stored u p = true -> accepts c u p = true -> accepts c r p = true.
Proof.
  intros Hc I E D Hp Ha. pose proof (accepts_anc c u p Hc I Hp Ha) as Au.
  unfold accepts. destruct (num_of (finalized c r) =? 0); auto.
  rewrite (nf_anc r u E). unfold desc in D.
  pose proof (ancestor_le _ _ _ _ _ D) as L1. pose proof (ancestor_le _ _ _ _ _ Au) as L2.
  destruct (anc_total c u p (num_of (finalized c r)) Hc I Hp) as (a & Ha'); [lia|].
  rewrite Ha'. pose proof (anc_unique c u p _ _ _ _ I Au L1 Ha') as X. rewrite D in X. inversion X. apply N.eqb_refl.
Qed.

Lemma desc_ext s s' a b : (forall i, get_summary s' i = get_summary s i) -> desc s a b -> desc s' a b.
Proof. intros H. apply desc_mono. intros i sm Ei. rewrite H. auto. Qed.

Lemma mul_le_cancel a b L : 0 < L -> a * L <= b * L -> a <= b.
Proof.
  intros HL H. destruct (N.le_gt_cases a b); auto. assert (b + 1 <= a) by lia.
  assert ((b + 1) * L <= a * L) by (apply N.mul_le_mono_r; auto). rewrite N.mul_add_distr_r in *. lia.
Qed.
Lemma mul_lt_cancel a b L : a * L < b * L -> a < b.
Proof.
  intro H. destruct (N.le_gt_cases b a); auto. assert (b * L <= a * L) by (apply N.mul_le_mono_r; auto). lia.
Qed.

(* ---- the finalized part of a commit, computed from two finalized blocks of the same chain *)

Section FinPart.
  Variables (c : cfg) (u4 r4 : store) (id E fr fu er eu q : N) (cond : bool).
  Hypothesis Hc : wf_cfg c.
  Hypothesis I : Inv c u4.
  Hypothesis Q : Qrec c u4.
  Hypothesis Hs : stored u4 id = true.
  Hypothesis HE : num_of id = E * c_L c + c_L c - 1.
  Hypothesis Hfr : num_of fr = er * c_L c.
  Hypothesis Hfu : num_of fu = eu * c_L c.
  Hypothesis Afr : anc u4 id (num_of fr) = Some fr.
  Hypothesis Afu : anc u4 id (num_of fu) = Some fu.
  Hypothesis NF : eqv_nf r4 u4.
  Hypothesis Fr : finalized c r4 = fr.
  Hypothesis Fu : finalized c u4 = fu.

  Definition fin_writes (s : store) (F : N) : list batch :=
    if cond && (num_of F <? checkpoint (c_L c) (num_of id)) then
      match find_checkpoint c s (q - 1) F id with
      | Some f => [[Put KFinalized (VId f)]]
      | None => []
      end
    else [].

  Let r1 := apply_writes r4 (fin_writes u4 fr).
  Let u1 := apply_writes u4 (fin_writes u4 fu).

  Lemma fp_L : 0 < c_L c. Proof. destruct Hc; auto. Qed.

  Hypothesis Hle : num_of fr <= num_of fu.

  Lemma fp_ru : er <= eu.
  Proof. pose proof fp_L. pose proof Hle as H1. rewrite Hfr, Hfu in H1. apply mul_le_cancel in H1; auto. Qed.

  Lemma fp_uE : eu <= E.
  Proof.
    pose proof fp_L. pose proof (ancestor_le _ _ _ _ _ Afu) as H1. rewrite Hfu, HE in H1.
    destruct (N.le_gt_cases eu E); auto. exfalso. assert (E + 1 <= eu) by lia.
    assert ((E + 1) * c_L c <= eu * c_L c) by (apply N.mul_le_mono_r; auto). rewrite N.mul_add_distr_r in *. lia.
  Qed.

  Lemma fp_cp : checkpoint (c_L c) (num_of id) = E * c_L c.
  Proof.
    pose proof fp_L. unfold checkpoint. rewrite HE. replace (E * c_L c + c_L c - 1) with ((c_L c - 1) + E * c_L c) by lia.
    rewrite N.div_add by lia. rewrite N.div_small by lia. lia.
  Qed.

  Lemma fp_desc_at e f : e <= eu -> anc u4 id (e * c_L c) = Some f -> desc u4 f fu.
  Proof.
    intros He Ha. unfold desc. destruct (anc_stored _ _ _ _ Ha) as [_ Hn]. rewrite Hn.
    eapply (anc_unique c u4 id); eauto. rewrite Hfu. apply N.mul_le_mono_r. auto.
  Qed.

  Lemma fp_desc_fr : desc u4 fr fu.
  Proof. unfold desc. eapply (anc_unique c u4 id); eauto. Qed.

  Lemma fp_stored_fu : stored u4 fu = true.
  Proof. apply anc_stored in Afu. tauto. Qed.

  Lemma fp_al_fr : aligned c fr. Proof. exists er. auto. Qed.

  Lemma fp_al_at e f : anc u4 id (e * c_L c) = Some f -> aligned c f.
  Proof. intro Ha. exists e. apply anc_stored in Ha. tauto. Qed.

  Lemma fp_fin_r4_put f : finalized c (apply_writes r4 [[Put KFinalized (VId f)]]) = f.
  Proof. cbn [apply_writes fold_left]. apply finalized_put. Qed.

  Definition fin_goal : Prop :=
    eqv_nf r1 u1 /\ desc u4 (finalized c r1) (finalized c u1) /\ aligned c (finalized c r1) /\
    (finalized c u1 <> fu -> eqv r1 u1).

  Lemma fin_goal_none : fin_writes u4 fr = [] -> fin_writes u4 fu = [] -> fin_goal.
  Proof.
    intros E1 E2. unfold fin_goal, r1, u1. rewrite E1, E2. cbn [apply_writes fold_left]. rewrite Fr, Fu.
    split; auto. split; [apply fp_desc_fr|]. split; [apply fp_al_fr|]. intro X. congruence.
  Qed.

  Lemma fin_goal_r_only e f : fin_writes u4 fr = [[Put KFinalized (VId f)]] -> fin_writes u4 fu = [] ->
    e <= eu -> anc u4 id (e * c_L c) = Some f -> fin_goal.
  Proof.
    intros E1 E2 He Ha. unfold fin_goal, r1, u1. rewrite E1, E2. cbn [apply_writes fold_left]. rewrite finalized_put, Fu.
    split; [apply eqv_nf_put_l; auto|]. split; [apply (fp_desc_at e f); auto|]. split; [apply (fp_al_at e f); auto|]. intro X. congruence.
  Qed.

  Theorem fin_part_lag : fin_goal.
  Proof.
    pose proof fp_L as HL. pose proof fp_ru as Hru. pose proof fp_uE as HuE. pose proof fp_cp as Hcp.
    destruct cond eqn:Econd.
    2:{ apply fin_goal_none; unfold fin_writes; rewrite Econd; reflexivity. }
    destruct (num_of fr <? checkpoint (c_L c) (num_of id)) eqn:Gr.
    2:{ assert (Gu : (num_of fu <? checkpoint (c_L c) (num_of id)) = false) by (apply N.ltb_ge; apply N.ltb_ge in Gr; lia).
        apply fin_goal_none; unfold fin_writes; rewrite Econd, ?Gr, ?Gu; reflexivity. }
    destruct (num_of fu <? checkpoint (c_L c) (num_of id)) eqn:Gu.
    - (* both searches run *)
      destruct (find_checkpoint c u4 (q - 1) fu id) as [f'|] eqn:Fu'.
      + destruct (N.eq_dec f' fu) as [->|Hne].
        * (* the newer search finds the finalized block again *)
          destruct (find_checkpoint c u4 (q - 1) fr id) as [f|] eqn:Fr'.
          -- destruct (find_from_older c u4 id E Hc I Q Hs HE (q - 1) fr fu er eu Hfr Hfu Hru HuE f Fr') as [(e & He & Ha)|Hsame].
             ++ unfold fin_goal, r1, u1, fin_writes. rewrite Econd, Gr, Gu, Fr', Fu'. cbn [andb apply_writes fold_left].
                rewrite !finalized_put.
                split; [apply eqv_nf_put_l, eqv_nf_put_r; auto|]. split; [apply (fp_desc_at e f); [lia|auto]|].
                split; [apply (fp_al_at e f); auto|]. intro X. congruence.
             ++ rewrite Fu' in Hsame. inversion Hsame; subst f.
                unfold fin_goal, r1, u1, fin_writes. rewrite Econd, Gr, Gu, Fr', Fu'. cbn [andb apply_writes fold_left].
                rewrite !finalized_put.
                split; [apply eqv_nf_put_l, eqv_nf_put_r; auto|]. split; [apply desc_refl, fp_stored_fu|].
                split; [exists eu; auto|]. intro X. congruence.
          -- unfold fin_goal, r1, u1, fin_writes. rewrite Econd, Gr, Gu, Fr', Fu'. cbn [andb apply_writes fold_left].
             rewrite finalized_put, Fr.
             split; [apply eqv_nf_put_r; auto|]. split; [apply fp_desc_fr|]. split; [apply fp_al_fr|]. intro X. congruence.
        * (* the finalized block moves: the older search finds the same checkpoint *)
          assert (Fr' : find_checkpoint c u4 (q - 1) fr id = Some f').
          { apply (find_from_newer c u4 id E Hc I Q Hs HE (q - 1) fr fu er eu Hfr Hfu Hru HuE f' Fu').
            rewrite <- Hfu, Afu. congruence. }
          unfold fin_goal, r1, u1, fin_writes. rewrite Econd, Gr, Gu, Fr', Fu'. cbn [andb apply_writes fold_left].
          rewrite !finalized_put.
          assert (Hsf : stored u4 f' = true) by (eapply find_checkpoint_stored; eauto).
          split; [apply eqv_eqv_nf, eqv_nf_put_both; auto|]. split; [apply desc_refl; auto|].
          split; [eapply aligned_find; [|exact Fu']; exists eu; auto|]. intros _. apply eqv_nf_put_both; auto.
      + destruct (find_checkpoint c u4 (q - 1) fr id) as [f|] eqn:Fr'.
        * destruct (find_from_older c u4 id E Hc I Q Hs HE (q - 1) fr fu er eu Hfr Hfu Hru HuE f Fr') as [(e & He & Ha)|Hsame];
            [|congruence].
          apply (fin_goal_r_only e f); auto; try lia; unfold fin_writes; rewrite Econd, ?Gr, ?Gu, ?Fr', ?Fu'; reflexivity.
        * apply fin_goal_none; unfold fin_writes; rewrite Econd, ?Gr, ?Gu, ?Fr', ?Fu'; reflexivity.
    - (* the block is still in the newer finalized block's own epoch: only the older search may run *)
      destruct (find_checkpoint c u4 (q - 1) fr id) as [f|] eqn:Fr'.
      + pose proof Fr' as Sp. apply (find_checkpoint_spec c u4 id E Hc I Q Hs HE (q - 1) fr er f Hfr) in Sp; [|lia].
        destruct Sp as (e & He & _ & _ & Ha).
        assert (E <= eu).
        { apply N.ltb_ge in Gu. rewrite Hcp, Hfu in Gu. apply mul_le_cancel in Gu; auto. }
        apply (fin_goal_r_only e f); auto; try lia; unfold fin_writes; rewrite Econd, ?Gr, ?Gu, ?Fr'; reflexivity.
      + apply fin_goal_none; unfold fin_writes; rewrite Econd, ?Gr, ?Gu, ?Fr'; reflexivity.
  Qed.
End FinPart.

Lemma nf_fin_writes c id q cond s s' F : eqv_nf s s' -> fin_writes c id q cond s F = fin_writes c id q cond s' F.
Proof. intro E. unfold fin_writes. rewrite (nf_find_checkpoint s s' E). reflexivity. Qed.

(* ---- one import on a lagging and on an up-to-date store *)

Record Lag (c : cfg) (r u : store) : Prop := mkLag {
  lag_nf : eqv_nf r u;
  lag_desc : desc u (finalized c r) (finalized c u);
  lag_al : aligned c (finalized c r)
}.

Lemma eqv_lag c r u : wf_cfg c -> Inv c u -> InvQ c u -> eqv r u -> Lag c r u.
Proof.
  intros Hc I [_ A] E. assert (Ef : finalized c r = finalized c u) by (apply na_finalized, eqv_eqv_na; auto).
  constructor; [apply eqv_eqv_nf; auto| |rewrite Ef; auto].
  rewrite Ef. apply desc_refl. apply finalized_stored; auto.
Qed.

(* the store after the commit batch is the store after the quality record followed by the finalized part *)
Lemma commit_apply_split c s3 id parent just comm st :
  apply_writes st (writes_of_steps (commit_steps c s3 id parent just comm)) =
  apply_writes st
   (if is_storepoint (c_L c) (num_of id) then
      match quality_of c s3 parent (num_of id) just with
      | None => []
      | Some q => [Put (KQuality id) (VNum q)] ::
                  fin_writes c id q (comm && (1 <? q)) (apply_batch s3 [Put (KQuality id) (VNum q)]) (finalized c s3)
      end
    else []).
Proof.
  rewrite commit_unfold. unfold fin_writes. destruct (is_storepoint _ _); auto. destruct (quality_of _ _ _ _ _) as [q|]; auto.
  destruct (comm && (1 <? q) && _); auto. destruct (find_checkpoint _ _ _ _ _); auto.
Qed.

Lemma storepoint_epoch L n : 0 < L -> is_storepoint L n = true -> n = n / L * L + L - 1.
Proof. intros HL H. unfold is_storepoint, storepoint, checkpoint in H. apply N.eqb_eq in H. lia. Qed.

Theorem lag_step c r u b : wf_cfg2 c -> Inv2 c u -> InvQ c u -> wf_blk u b -> Lag c r u ->
  bft_rejected c u b = false ->
  Lag c (run1 c r b) (run1 c u b) /\
  (finalized c (run1 c u b) <> finalized c u -> eqv (run1 c r b) (run1 c u b)).
Proof.
  intros [Hc HL] I2 [Q A] Hwf [NF D Al] Hrej. pose proof (i2_inv c u I2) as I.
  unfold bft_rejected in Hrej.
  destruct (precheck u b) eqn:P.
  2:{ (* both skip the block *)
      unfold run1. rewrite (precheck_false c u b P), (precheck_false c r b) by (rewrite (nf_precheck r u b NF); auto).
      cbn [apply_writes fold_left]. split; [constructor; auto|]. intro X. congruence. }
  cbn [andb] in Hrej. apply negb_false_iff in Hrej.
  destruct (precheck_true c u b P) as (Hp & Hcase).
  assert (Har : accepts c r (b_parent b) = true) by (eapply accepts_older; eauto).
  assert (Pr : precheck r b = true) by (rewrite (nf_precheck r u b NF); auto).
  destruct (precheck_true c r b Pr) as (_ & Hcase_r).
  destruct Hcase as [[X _]|[(_ & Su & Eu)|(_ & ab & Mu)]]; [congruence| |].
  - (* bft select fails after the state commit on both *)
    destruct Hcase_r as [[X _]|[(_ & Sr & Er)|(_ & ab & Mr)]]; [congruence| |].
    2:{ destruct Mr as (_ & _ & _ & _ & _ & Mr). rewrite (nf_select r u NF) in Mr. congruence. }
    unfold run1. rewrite Eu, Er, (nf_conf_of r u NF).
    assert (Hau : forall w, In w (state_batches b (conf_of u b)) -> aux_batch w) by (intros; eapply state_batches_aux; eauto).
    assert (F1 : forall s, finalized c (apply_writes s (state_batches b (conf_of u b))) = finalized c s).
    { intro s. unfold finalized, get_id. rewrite aux_writes_frame; auto. }
    split; [|intro X; rewrite F1 in X; congruence]. constructor; rewrite ?F1; auto.
    + apply eqv_nf_apply_writes; auto.
    + eapply desc_ext; [|exact D]. intro i. unfold get_summary. rewrite aux_writes_frame; auto.
  - destruct Hcase_r as [[X _]|[(_ & Sr & _)|(_ & ab' & Mr)]]; [congruence| |].
    { destruct Mu as (_ & _ & _ & _ & _ & Ms). rewrite (nf_select r u NF) in Sr. congruence. }
    assert (ab' = ab).
    { destruct Mu as (_ & _ & _ & _ & _ & Ms). destruct Mr as (_ & _ & _ & _ & _ & Ms'). rewrite (nf_select r u NF) in Ms'. congruence. }
    subst ab'.
    unfold run1. rewrite (main_case_batches c u b ab Mu), (main_case_batches c r b ab Mr), !apply_writes_app.
    unfold commit_writes. rewrite (nf_pre_writes r u NF).
    set (pre := pre_writes u b ab). set (u3 := apply_writes u pre). set (r3 := apply_writes r pre).
    assert (NF3 : eqv_nf r3 u3) by (apply eqv_nf_apply_writes; auto).
    assert (I3 : Inv c u3) by (apply (main_case_inv3 c u b ab); auto).
    assert (Fu3 : finalized c u3 = finalized c u) by (unfold finalized, get_id, u3, pre; rewrite s3_quality; auto).
    assert (Fr3 : finalized c r3 = finalized c r).
    { unfold finalized, get_id, r3, pre. rewrite <- (nf_pre_writes r u NF). rewrite s3_quality; auto. }
    assert (S3 : forall i, get_summary u3 i = if N.eq_dec i (b_id b) then Some (summary_of b (conf_of u b)) else get_summary u i)
      by (intro i; apply s3_summary).
    pose proof (main_not_stored c u b ab Mu) as Hns.
    assert (K3 : keeps_summaries u u3).
    { intros i smi Ei. rewrite S3. destruct (N.eq_dec i (b_id b)) as [->|]; auto. unfold stored in Hns. rewrite Ei in Hns. discriminate. }
    assert (D3 : desc u3 (finalized c r) (finalized c u)) by (eapply desc_mono; eauto).
    assert (Hb3 : stored u3 (b_id b) = true) by apply s3_stored_b.
    rewrite !commit_apply_split. destruct (is_storepoint (c_L c) (num_of (b_id b))) eqn:Hsp.
    2:{ cbn [apply_writes fold_left]. split; [constructor; rewrite ?Fu3, ?Fr3; auto|]. intro X. rewrite Fu3 in X. congruence. }
    rewrite (nf_quality_of r3 u3 NF3).
    destruct (quality_of c u3 (b_parent b) (num_of (b_id b)) (b_just b)) as [q|] eqn:Eq.
    2:{ cbn [apply_writes fold_left]. split; [constructor; rewrite ?Fu3, ?Fr3; auto|]. intro X. rewrite Fu3 in X. congruence. }
    set (wq := [Put (KQuality (b_id b)) (VNum q)]). rewrite !apply_writes_cons.
    set (u4 := apply_batch u3 wq). set (r4 := apply_batch r3 wq).
    assert (NF4 : eqv_nf r4 u4) by (apply eqv_nf_apply_batch; auto).
    assert (I4 : Inv c u4) by (apply quality_put_inv; auto).
    assert (Q4 : Qrec c u4) by (apply (main_case_qrec4 c u b ab q Hc I Q Mu Eq)).
    assert (Fu4 : finalized c u4 = finalized c u) by (unfold u4, wq; rewrite finalized_put_quality; auto).
    assert (Fr4 : finalized c r4 = finalized c r) by (unfold r4, wq; rewrite finalized_put_quality; auto).
    assert (S4 : forall i, get_summary u4 i = get_summary u3 i) by (intro i; apply get_summary_put_other; discriminate).
    assert (Hb4 : stored u4 (b_id b) = true) by (unfold stored; rewrite S4; exact Hb3).
    assert (D4 : desc u4 (finalized c r) (finalized c u)) by (eapply desc_ext; [|exact D3]; auto).
    (* the finalized block of u is an ancestor of the new block *)
    assert (Au4 : anc u4 (b_id b) (num_of (finalized c u)) = Some (finalized c u)).
    { pose proof (accepts_anc c u (b_parent b) Hc I Hp Hrej) as Ap. pose proof (ancestor_le _ _ _ _ _ Ap) as Lp.
      destruct Mu as (_ & _ & _ & Mn & _).
      assert (Eb : get_summary u4 (b_id b) = Some (summary_of b (conf_of u b))).
      { rewrite S4, S3. destruct (N.eq_dec (b_id b) (b_id b)); congruence. }
      rewrite (anc_step c u4 (b_id b) _ _ I4 Eb) by lia. cbn [summary_of s_parent].
      eapply anc_mono; [|exact Ap]. intros i smi Ei. rewrite S4. apply K3. auto. }
    assert (Ar4 : anc u4 (b_id b) (num_of (finalized c r)) = Some (finalized c r)).
    { apply (desc_trans c u4 (finalized c r) (finalized c u) (b_id b)); auto. }
    destruct Al as (er & Her). destruct A as (eu & Heu).
    pose proof (storepoint_epoch (c_L c) (num_of (b_id b)) (proj2 Hc) Hsp) as HE.
    rewrite (nf_fin_writes c _ _ _ r4 u4 _ NF4).
    rewrite Fr3, Fu3.
    pose proof (fin_part_lag c u4 r4 (b_id b) (num_of (b_id b) / c_L c) (finalized c r) (finalized c u) er eu q
                  (b_comm b && (1 <? q)) Hc I4 Q4 Hb4 HE Her Heu Ar4 Au4 NF4 Fr4 Fu4 (ancestor_le _ _ _ _ _ D4)) as G.
    unfold fin_goal in G. destruct G as (G1 & G2 & G3 & G4).
    split; [constructor; auto|exact G4].
    (* desc in the final store *)
    eapply desc_mono; [|exact G2].
    intros i smi Ei. unfold fin_writes.
    destruct (b_comm b && (1 <? q) && (num_of (finalized c u) <? checkpoint (c_L c) (num_of (b_id b)))); auto.
    destruct (find_checkpoint c u4 (q - 1) (finalized c u) (b_id b)); auto.
Qed.

(* ---- the whole resumed stream *)

Lemma no_bft_reject_app c l1 : forall s l2, no_bft_reject c s (l1 ++ l2) = true ->
  no_bft_reject c s l1 = true /\ no_bft_reject c (run c s l1) l2 = true.
Proof.
  induction l1 as [|b r IH]; intros s l2 H; simpl in *; auto.
  apply andb_true_iff in H. destruct H as [H1 H2]. destruct (IH _ _ H2) as [H3 H4]. rewrite H1, H3. auto.
Qed.

Theorem lag_run c rest : forall r u, wf_cfg2 c -> Inv2 c u -> InvQ c u -> wf_hist c u rest -> no_bft_reject c u rest = true ->
  Lag c r u ->
  Lag c (run c r rest) (run c u rest) /\
  (finalized c (run c u rest) <> finalized c u -> eqv (run c r rest) (run c u rest)).
Proof.
  induction rest as [|b l IH]; intros r u Hc I2 IQ Hw Hn HLag.
  - simpl. split; auto. intro X. congruence.
  - destruct Hw as [Hb Hl]. cbn [no_bft_reject] in Hn. apply andb_true_iff in Hn. destruct Hn as [Hn1 Hn2].
    apply negb_true_iff in Hn1.
    destruct (lag_step c r u b Hc I2 IQ Hb HLag Hn1) as [L1 E1].
    assert (I2' : Inv2 c (run1 c u b)) by (apply run1_inv2; auto).
    assert (IQ' : InvQ c (run1 c u b)) by (apply run1_invq; auto).
    destruct (IH (run1 c r b) (run1 c u b) Hc I2' IQ' Hl Hn2 L1) as [L2 E2].
    cbn [run fold_left]. fold (run c (run1 c r b) l). fold (run c (run1 c u b) l).
    split; auto. intro X.
    destruct (N.eq_dec (finalized c (run1 c u b)) (finalized c u)) as [Same|Moved].
    + apply E2. congruence.
    + apply eqv_run. apply E1. auto.
Qed.

