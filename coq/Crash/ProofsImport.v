(* Crash/ProofsImport.v — every prefix of the writes of an import preserves the invariant:
   the block bulk (the batch that makes a block visible) comes after everything it refers to. *)
From Coq Require Import List NArith Bool Lia.
From Verif Require Import Crash.Model Crash.ProofsStore Crash.ProofsInv.
Import ListNotations.
Open Scope N_scope.

Lemma writes_of_steps_app l1 l2 : writes_of_steps (l1 ++ l2) = writes_of_steps l1 ++ writes_of_steps l2.
Proof. unfold writes_of_steps. apply flat_map_app. Qed.

Lemma writes_of_steps_map ws : writes_of_steps (map SWrite ws) = ws.
Proof. induction ws; simpl; auto. f_equal; auto. Qed.

Lemma enum_from_map {A B} (f : A -> B) l : forall n i x,
  In (i, x) (enum_from n (map f l)) -> exists y, In (i, y) (enum_from n l) /\ x = f y.
Proof.
  induction l as [|a l IH]; intros n i x H; simpl in *; [tauto|].
  destruct H as [H|H].
  - inversion H; subst. exists a; auto.
  - destruct (IH _ _ _ H) as (y & Hy & ->). exists y; auto.
Qed.

(* ---- the block bulk *)

Section Bulk.
  Variables (b : blk) (conf : N) (ab : bool).
  Local Notation id := (b_id b).
  Local Notation sm := (summary_of b conf).
  Local Notation bulk := (block_bulk b conf ab).

  Lemma bulk_keys o : In o bulk ->
    match op_key o with
    | KTxFilter _ | KTxMeta _ _ _ | KTx _ _ _ | KReceipt _ _ _ | KHead _ => True
    | KBest => ab = true
    | KSummary i => i = id
    | _ => False
    end.
  Proof.
    unfold block_bulk. intro H.
    apply in_app_or in H. destruct H as [H|H].
    { apply in_flat_map in H. destruct H as (it & _ & H). simpl in H.
      destruct H as [<-|[<-|[<-|[]]]]; simpl; auto. }
    apply in_app_or in H. destruct H as [H|H].
    { apply in_map_iff in H. destruct H as (it & <- & _). simpl; auto. }
    apply in_app_or in H. destruct H as [H|H].
    { simpl in H. destruct H as [<-|[<-|[<-|[]]]]; simpl; auto. }
    destruct ab; simpl in H; [destruct H as [<-|[]]; simpl; auto|destruct H].
  Qed.

  Lemma bulk_nd : nd_batch bulk.
  Proof.
    unfold block_bulk. intros o H.
    apply in_app_or in H. destruct H as [H|H].
    { apply in_flat_map in H. destruct H as (it & _ & H). simpl in H.
      destruct H as [<-|[<-|[<-|[]]]]; reflexivity. }
    apply in_app_or in H. destruct H as [H|H].
    { apply in_map_iff in H. destruct H as (it & <- & _). reflexivity. }
    apply in_app_or in H. destruct H as [H|H].
    { simpl in H. destruct H as [<-|[<-|[<-|[]]]]; reflexivity. }
    destruct ab; simpl in H; [destruct H as [<-|[]]; reflexivity|destruct H].
  Qed.

  Lemma bulk_split : exists A T, bulk = A ++ Put (KSummary id) (VSum sm) :: T /\
      (forall o, In o T -> op_key o = KBest) /\ (ab = true -> T = [Put KBest (VId id)]) /\ (ab = false -> T = []).
  Proof.
    unfold block_bulk.
    match goal with |- exists A T, ?X ++ ?Y ++ [?d; ?h; ?S] ++ ?T0 = _ /\ _ => exists (X ++ Y ++ [d; h]), T0 end.
    split; [repeat rewrite <- app_assoc; reflexivity|].
    destruct ab; simpl; repeat split; auto; try discriminate; intros o Ho; simpl in Ho; intuition (subst; auto).
  Qed.

  Lemma bulk_summary s i :
    get_summary (apply_batch s bulk) i = if N.eq_dec i id then Some sm else get_summary s i.
  Proof.
    destruct (N.eq_dec i id) as [->|Hne].
    - destruct bulk_split as (A & T & E & HT & _). rewrite E. unfold get_summary.
      rewrite get_put_last; auto. intros o Ho E2. rewrite (HT _ Ho) in E2. discriminate.
    - apply get_summary_frame. intros o Ho E. pose proof (bulk_keys o Ho) as K. rewrite E in K. congruence.
  Qed.

  Lemma bulk_stored_mono s p : stored s p = true -> stored (apply_batch s bulk) p = true.
  Proof. unfold stored. rewrite bulk_summary. destruct (N.eq_dec p id); auto. Qed.

  Lemma bulk_best s :
    get_id (apply_batch s bulk) KBest = if ab then Some id else get_id s KBest.
  Proof.
    destruct bulk_split as (A & T & E & HT & Ht & Hf). destruct (Bool.bool_dec ab true) as [Et|Ef].
    - replace (if ab then Some id else get_id s KBest) with (Some id) by (rewrite Et; auto).
      rewrite E, (Ht Et). unfold get_id.
      replace (A ++ Put (KSummary id) (VSum sm) :: [Put KBest (VId id)])
        with ((A ++ [Put (KSummary id) (VSum sm)]) ++ Put KBest (VId id) :: []) by (rewrite <- app_assoc; reflexivity).
      rewrite get_put_last; auto; intros o [].
    - apply Bool.not_true_is_false in Ef.
      replace (if ab then Some id else get_id s KBest) with (get_id s KBest) by (rewrite Ef; auto).
      apply get_id_frame. intros o Ho E2. pose proof (bulk_keys o Ho) as K. rewrite E2 in K. congruence.
  Qed.

  Lemma bulk_other_frame s k :
    match k with KQuality _ | KFinalized | KNode _ _ _ _ | KCode _ => True | _ => False end ->
    get (apply_batch s bulk) k = get s k.
  Proof.
    intro Hk. apply get_frame. intros o Ho E. pose proof (bulk_keys o Ho) as K. rewrite E in K.
    destruct k; auto.
  Qed.

  Lemma bulk_txs s it : In it (enum_from 0 (s_txs sm)) ->
    has (apply_batch s bulk) (KTx (num_of id) (s_conf sm) (fst it)) = true /\
    has (apply_batch s bulk) (KReceipt (num_of id) (s_conf sm) (fst it)) = true.
  Proof.
    intro H. destruct it as [i x]. simpl in H. unfold summary_of in H. simpl in H.
    destruct (enum_from_map _ _ _ _ _ H) as (y & Hy & _). simpl.
    split.
    - eapply has_put_in with (v := VBlob (t_blob y)).
      + unfold block_bulk. apply in_or_app. left. apply in_flat_map. exists (i, y). split; auto.
        simpl. right; right; left. reflexivity.
      + apply nd_no_del; auto. apply bulk_nd.
    - eapply has_put_in with (v := VBlob (t_rcpt y)).
      + unfold block_bulk. apply in_or_app. right. apply in_or_app. left.
        apply in_map_iff. exists (i, y). split; auto.
      + apply nd_no_del; auto. apply bulk_nd.
  Qed.

  (* the batch that makes the block visible preserves the invariant when everything it refers to is already there *)
  Lemma bulk_inv c s :
    Inv c s ->
    (forall k, In k (s_sreach sm) -> is_node k = true /\ has s k = true) ->
    (forall k, In k (s_ireach sm) -> is_node k = true /\ has s k = true) ->
    stored s (b_parent b) = true -> num_of (b_parent b) + 1 = num_of id ->
    Inv c (apply_batch s bulk).
  Proof.
    intros [Ib Ibl Iq If] Hsr Hir Hp Hnum.
    assert (M : forall k, is_head k = false -> has s k = true -> has (apply_batch s bulk) k = true)
      by (intros; apply has_mono; auto; apply bulk_nd).
    assert (Hid : stored (apply_batch s bulk) id = true)
      by (unfold stored; rewrite bulk_summary; destruct (N.eq_dec id id); congruence).
    assert (Sm : forall p, stored s p = true -> stored (apply_batch s bulk) p = true) by apply bulk_stored_mono.
    constructor.
    - rewrite bulk_best. destruct ab.
      + exists id. split; auto.
      + destruct Ib as (x & H1 & H2). exists x. split; auto.
    - intros i smi H. rewrite bulk_summary in H. destruct (N.eq_dec i id) as [->|Hne].
      + inversion H; subst smi. repeat split.
        * apply bulk_txs; auto.
        * apply bulk_txs; auto.
        * apply Hsr; auto.
        * apply M; [|apply Hsr; auto]. destruct (Hsr k H0) as [X _]. destruct k; simpl in *; congruence.
        * apply Hir; auto.
        * apply M; [|apply Hir; auto]. destruct (Hir k H0) as [X _]. destruct k; simpl in *; congruence.
        * right. split; auto.
      + eapply ok_block_mono; [exact M|apply bulk_stored_mono|apply Ibl; auto].
    - intros i H. apply bulk_stored_mono. apply Iq. unfold has in *. rewrite bulk_other_frame in H; simpl; auto.
    - intros f H. apply bulk_stored_mono. apply If. unfold get_id in *. rewrite bulk_other_frame in H; simpl; auto.
  Qed.
End Bulk.

(* ---- bft commit *)

Lemma find_checkpoint_stored c s t fin head f : find_checkpoint c s t fin head = Some f -> stored s f = true.
Proof.
  unfold find_checkpoint. destruct (num_of head <? num_of fin); [discriminate|].
  match goal with |- match ?X with _ => _ end = _ -> _ => destruct X as [idx|]; [|discriminate] end.
  match goal with |- (if ?X then _ else _) = _ -> _ => destruct X; [discriminate|] end.
  match goal with |- match ?X with _ => _ end = _ -> _ => destruct X as [x|]; [|discriminate] end.
  destruct (x =? t); [|discriminate]. intro H. apply anc_stored in H. tauto.
Qed.

Lemma commit_all_prefixes c s id parent just comm :
  Inv c s -> stored s id = true ->
  all_prefixes (Inv c) s (writes_of_steps (commit_steps c s id parent just comm)).
Proof.
  intros I Hs. unfold commit_steps.
  destruct (is_storepoint (c_L c) (num_of id)); [|simpl; auto].
  destruct (quality_of c s parent (num_of id) just) as [q|]; [|simpl; auto].
  set (wq := [Put (KQuality id) (VNum q)]).
  assert (I1 : Inv c (apply_batch s wq)) by (apply quality_put_inv; auto).
  destruct (comm && (1 <? q) && (num_of (finalized c s) <? checkpoint (c_L c) (num_of id))); [|cbn [writes_of_steps flat_map app all_prefixes]; auto].
  destruct (find_checkpoint c (apply_batch s wq) (q - 1) (finalized c s) id) as [f|] eqn:E;
    [|cbn [writes_of_steps flat_map app all_prefixes]; auto].
  cbn [writes_of_steps flat_map app all_prefixes].
  split; [exact I|]. split; [|exact Logic.I].
  rewrite apply_batch_app.
  apply finalized_put_inv; auto. eapply find_checkpoint_stored; eauto.
Qed.

(* ---- the whole import *)

(* what the trie layer guarantees about a commit (C06/C12): a node of an older version that the new root still
   reaches was reachable from the parent's root *)
Definition wf_blk (s : store) (b : blk) : Prop :=
  forall psm, get_summary s (b_parent b) = Some psm ->
    (forall k, In k (b_skeep b) -> In k (s_sreach psm)) /\ (forall k, In k (b_ikeep b) -> In k (s_ireach psm)).

Lemma in_node_ops_put cls maj min l k :
  In k (map op_key (node_ops cls maj min l)) -> exists v, In (Put k v) (node_ops cls maj min l).
Proof.
  intro H. apply in_map_iff in H. destruct H as (o & <- & Ho). unfold node_ops in *.
  apply in_map_iff in Ho. destruct Ho as (p & <- & Hp). simpl. exists (VBlob (snd p)).
  apply in_map_iff. exists p; auto.
Qed.

Lemma node_ops_is_node cls maj min l k : In k (map op_key (node_ops cls maj min l)) -> is_node k = true.
Proof.
  intro H. apply in_map_iff in H. destruct H as (o & <- & Ho). unfold node_ops in Ho.
  apply in_map_iff in Ho. destruct Ho as (p & <- & _). reflexivity.
Qed.

Lemma node_head k : is_node k = true -> is_head k = false.
Proof. destruct k; simpl; congruence. Qed.

Theorem import_all_prefixes c s b :
  wf_cfg c -> Inv c s -> wf_blk s b -> all_prefixes (Inv c) s (import_batches c s b).
Proof.
  intros Hc I Hwf. unfold import_batches, import_steps.
  destruct (max_num s + 1 <? num_of (b_id b)); [simpl; auto|].
  set (conf := scan_conflicts s (num_of (b_id b))).
  destruct ((0 <? conf) && stored s (b_id b)); [simpl; auto|].
  destruct (stored s (b_parent b)) eqn:Hp; [|simpl; auto]. cbn [negb].
  destruct (num_of (b_parent b) + 1 =? num_of (b_id b)) eqn:Hn; [|simpl; auto]. cbn [negb].
  apply N.eqb_eq in Hn.
  destruct (accepts c s (b_parent b)); [|simpl; auto]. cbn [negb].
  set (sb := state_batches b conf).
  assert (Asb : all_prefixes (Inv c) s sb).
  { apply all_prefixes_step; auto. intros s' w I' Hw. apply aux_batch_inv; auto. eapply state_batches_aux; eauto. }
  destruct (select c s b) as [ab|]; [|rewrite writes_of_steps_map; exact Asb].
  rewrite !writes_of_steps_app, writes_of_steps_map.
  replace (writes_of_steps [SWrite (index_batch b conf); SWrite (block_bulk b conf ab)])
    with [index_batch b conf; block_bulk b conf ab] by reflexivity.
  replace (writes_of_steps (if ab then [SPubBest (b_id b)] else [])) with (@nil batch) by (destruct ab; reflexivity).
  rewrite app_nil_r.
  set (s1 := apply_writes s sb).
  assert (I1 : Inv c s1) by (apply all_prefixes_last; auto).
  set (s2 := apply_batch s1 (index_batch b conf)).
  assert (I2 : Inv c s2) by (apply aux_batch_inv; auto; apply index_batch_aux).
  assert (Hnd1 : forall w, In w sb -> nd_batch w) by (intros w Hw; apply aux_nd; eapply state_batches_aux; eauto).
  assert (Hnd2 : forall w, In w (sb ++ [index_batch b conf]) -> nd_batch w).
  { intros w Hw. apply in_app_or in Hw. destruct Hw as [Hw|[<-|[]]]; auto. apply aux_nd, index_batch_aux. }
  assert (E2 : s2 = apply_writes s (sb ++ [index_batch b conf])) by (rewrite apply_writes_app; reflexivity).
  unfold stored in Hp. destruct (get_summary s (b_parent b)) as [psm|] eqn:Eps; [|discriminate].
  destruct (Hwf psm Eps) as [Wk Wi].
  destruct (inv_blocks c s I _ _ Eps) as (_ & Ps & Pi & _).
  assert (Hsr : forall k, In k (s_sreach (summary_of b conf)) -> is_node k = true /\ has s2 k = true).
  { intros k Hk. unfold summary_of in Hk. simpl in Hk. apply in_app_or in Hk. destruct Hk as [Hk|Hk].
    - rewrite map_app in Hk. apply in_app_or in Hk. destruct Hk as [Hk|Hk].
      + rewrite concat_map in Hk. apply in_concat in Hk. destruct Hk as (ks & Hks & Hk).
        apply in_map_iff in Hks. destruct Hks as (w & <- & Hw).
        apply in_map_iff in Hw. destruct Hw as (l & <- & Hl).
        split; [eapply node_ops_is_node; eauto|].
        destruct (in_node_ops_put _ _ _ _ _ Hk) as (v & Hv). rewrite E2.
        eapply has_put_in_writes; eauto.
        * apply node_head. eapply node_ops_is_node; eauto.
        * apply in_or_app. left. unfold sb, state_batches. apply in_or_app. right. apply in_or_app. left.
          apply in_map_iff. exists l; auto.
      + split; [eapply node_ops_is_node; eauto|].
        destruct (in_node_ops_put _ _ _ _ _ Hk) as (v & Hv). rewrite E2.
        eapply has_put_in_writes; eauto.
        * apply node_head. eapply node_ops_is_node; eauto.
        * apply in_or_app. left. unfold sb, state_batches. apply in_or_app. right. apply in_or_app. right. left; auto.
    - destruct (Ps k (Wk k Hk)) as [Hnk Hhk]. split; auto. rewrite E2. apply has_mono_writes; auto. apply node_head; auto. }
  assert (Hir : forall k, In k (s_ireach (summary_of b conf)) -> is_node k = true /\ has s2 k = true).
  { intros k Hk. unfold summary_of in Hk. simpl in Hk. apply in_app_or in Hk. destruct Hk as [Hk|Hk].
    - split; [eapply node_ops_is_node; eauto|].
      destruct (in_node_ops_put _ _ _ _ _ Hk) as (v & Hv). rewrite E2.
      eapply has_put_in_writes; eauto.
      + apply node_head. eapply node_ops_is_node; eauto.
      + apply in_or_app. right. left; auto.
    - destruct (Pi k (Wi k Hk)) as [Hnk Hhk]. split; auto. rewrite E2. apply has_mono_writes; auto. apply node_head; auto. }
  assert (Hall : forall w, In w (sb ++ [index_batch b conf]) -> aux_batch w).
  { intros w Hw. apply in_app_or in Hw. destruct Hw as [Hw|[<-|[]]]; [eapply state_batches_aux; eauto|apply index_batch_aux]. }
  assert (Hp2 : stored s2 (b_parent b) = true).
  { rewrite E2, aux_writes_stored; auto. unfold stored. rewrite Eps. auto. }
  set (bulk := block_bulk b conf ab).
  assert (I3 : Inv c (apply_batch s2 bulk)) by (apply bulk_inv; auto).
  assert (Hs3 : stored (apply_batch s2 bulk) (b_id b) = true).
  { unfold stored, bulk. rewrite bulk_summary. destruct (N.eq_dec (b_id b) (b_id b)); congruence. }
  replace (sb ++ [index_batch b conf; bulk]) with ((sb ++ [index_batch b conf]) ++ [bulk])
    by (rewrite <- app_assoc; reflexivity).
  assert (E3 : apply_writes s ((sb ++ [index_batch b conf]) ++ [bulk]) = apply_batch s2 bulk).
  { rewrite apply_writes_app, <- E2. reflexivity. }
  apply all_prefixes_app; [apply all_prefixes_app|].
  - apply all_prefixes_step; auto. intros s' w I' Hw. apply aux_batch_inv; auto.
  - rewrite <- E2. simpl. auto.
  - rewrite E3. apply commit_all_prefixes; auto.
Qed.
