(* Crash/ProofsCrash.v — every crash cut of every history satisfies the invariant; restart succeeds on it and the
   best block is fully readable; what the bft records can hold after a cut. *)
From Coq Require Import List NArith Bool Lia.
From Verif Require Import Crash.Model Crash.ProofsStore Crash.ProofsInv Crash.ProofsImport.
Import ListNotations.
Open Scope N_scope.

(* the trie-layer premise along the uninterrupted run *)
Fixpoint wf_hist (c : cfg) (s : store) (l : list blk) : Prop :=
  match l with [] => True | b :: r => wf_blk s b /\ wf_hist c (run1 c s b) r end.

Theorem history_all_prefixes c l : forall s,
  wf_cfg c -> Inv c s -> wf_hist c s l -> all_prefixes (Inv c) s (writes_of c s l).
Proof.
  induction l as [|b r IH]; intros s Hc I Hw; simpl.
  - auto.
  - destruct Hw as [Hb Hr].
    pose proof (import_all_prefixes c s b Hc I Hb) as A.
    apply all_prefixes_app; auto. apply IH; auto. apply all_prefixes_last; auto.
Qed.

Theorem crash_inv c s l k : wf_cfg c -> Inv c s -> wf_hist c s l -> Inv c (crash c s l k).
Proof. intros. unfold crash. apply all_prefixes_firstn. apply history_all_prefixes; auto. Qed.

Lemma run_inv c l : forall s, wf_cfg c -> Inv c s -> wf_hist c s l -> Inv c (run c s l).
Proof.
  induction l as [|b r IH]; intros s Hc I Hw; simpl; auto.
  destruct Hw as [Hb Hr]. apply IH; auto. unfold run1. apply all_prefixes_last. apply import_all_prefixes; auto.
Qed.

(* ---- restart *)

Lemma commit_writes_keys c s id parent just comm w o :
  In w (writes_of_steps (commit_steps c s id parent just comm)) -> In o w ->
  op_key o = KQuality id \/ op_key o = KFinalized.
Proof.
  unfold commit_steps.
  destruct (is_storepoint (c_L c) (num_of id)); [|intros []].
  destruct (quality_of c s parent (num_of id) just) as [q|]; [|intros []].
  destruct (comm && (1 <? q) && (num_of (finalized c s) <? checkpoint (c_L c) (num_of id))).
  - destruct (find_checkpoint c _ (q - 1) (finalized c s) id) as [f|]; cbn [writes_of_steps flat_map app].
    + intros [<-|[]] [<-|[<-|[]]]; simpl; auto.
    + intros [<-|[]] [<-|[]]; simpl; auto.
  - cbn [writes_of_steps flat_map app]. intros [<-|[]] [<-|[]]; simpl; auto.
Qed.

Lemma repair_one_prefixes c s id : Inv c s -> all_prefixes (Inv c) s (repair_one c s id).
Proof.
  intro I. unfold repair_one.
  destruct (is_storepoint (c_L c) (num_of id) && negb (has s (KQuality id))); [|simpl; auto].
  destruct (get_summary s id) as [sm|] eqn:E; [|simpl; auto].
  apply commit_all_prefixes; auto. unfold stored. rewrite E. auto.
Qed.

Lemma repair_one_keys c s id w o : In w (repair_one c s id) -> In o w -> op_key o = KQuality id \/ op_key o = KFinalized.
Proof.
  unfold repair_one.
  destruct (is_storepoint (c_L c) (num_of id) && negb (has s (KQuality id))); [|intros []].
  destruct (get_summary s id) as [sm|]; [|intros []].
  apply commit_writes_keys.
Qed.

Lemma get_frame_writes s ws k : (forall w o, In w ws -> In o w -> op_key o <> k) -> get (apply_writes s ws) k = get s k.
Proof.
  revert s. induction ws as [|w r IH]; intros s H; auto.
  rewrite apply_writes_cons, IH by (intros; eapply H; eauto; right; auto).
  apply get_frame. intros; eapply H; eauto. left; auto.
Qed.

Lemma restart_store_inv c rep s :
  Inv c s -> Inv c (restart_store c rep s) /\ get_id (restart_store c rep s) KBest = get_id s KBest.
Proof.
  intro I. unfold restart_store. destruct rep; [|auto].
  generalize (scan_heads s (num_of (finalized c s))) as heads. intro heads.
  assert (G : forall st, Inv c st -> get_id st KBest = get_id s KBest ->
            Inv c (fold_left (fun st id => apply_writes st (repair_one c st id)) heads st) /\
            get_id (fold_left (fun st id => apply_writes st (repair_one c st id)) heads st) KBest = get_id s KBest).
  { induction heads as [|h r IH]; intros st Is Eb; simpl; auto.
    apply IH.
    - apply all_prefixes_last. apply repair_one_prefixes; auto.
    - rewrite <- Eb. unfold get_id. rewrite get_frame_writes; auto.
      intros w o Hw Ho E. destruct (repair_one_keys _ _ _ _ _ Hw Ho) as [X|X]; rewrite X in E; discriminate. }
  apply G; auto.
Qed.

Lemma Inv_readable c s id : wf_cfg c -> Inv c s -> stored s id = true -> readable s id = true.
Proof.
  intros Hc I Hs. unfold readable. unfold stored in Hs.
  destruct (get_summary s id) as [sm|] eqn:E; [|discriminate].
  destruct (inv_blocks c s I id sm E) as (Ht & Hsr & Hir & _).
  destruct (anc_total c s id 0 Hc I) as (a & Ha); [unfold stored; rewrite E; auto|lia|].
  rewrite Ha. rewrite !andb_true_iff. split; [split; [split|]|reflexivity].
  - apply forallb_forall. intros it Hit. apply andb_true_intro. apply Ht; auto.
  - apply forallb_forall. intros k Hk. apply Hsr; auto.
  - apply forallb_forall. intros k Hk. apply Hir; auto.
Qed.

Theorem restart_ok c rep s : wf_cfg c -> Inv c s ->
  exists s' best fin, restart c rep s = Some (s', best, fin) /\ Inv c s' /\ get_id s' KBest = Some best /\
                      readable s' best = true /\ stored s' fin = true.
Proof.
  intros Hc I. destruct (inv_best c s I) as (best & Hb & Hs).
  unfold restart. rewrite Hb, Hs.
  destruct (anc_total c s best 0 Hc I Hs) as (a & Ha); [lia|]. rewrite Ha.
  assert (a = c_g c) by (eapply ancestor_genesis; eauto). subst a. rewrite N.eqb_refl.
  destruct (restart_store_inv c rep s I) as [I' Eb].
  exists (restart_store c rep s), best, (finalized c (restart_store c rep s)).
  assert (Hs' : stored (restart_store c rep s) best = true).
  { destruct (inv_best c _ I') as (b' & Hb' & Hs'). rewrite Eb, Hb in Hb'. inversion Hb'; subst; auto. }
  split; [reflexivity|]. split; [exact I'|]. split; [rewrite Eb; auto|]. split; [eapply Inv_readable; eauto|].
  unfold finalized. destruct (get_id (restart_store c rep s) KFinalized) as [f|] eqn:Ef.
  - eapply inv_fin; eauto.
  - destruct (restart_store_inv c rep s I) as [I2 _]. destruct (anc_total c _ best 0 Hc I2 Hs') as (g' & Hg'); [lia|].
    assert (g' = c_g c) by (eapply ancestor_genesis; eauto). subst g'. apply ancestor_stored in Hg'. tauto.
Qed.

(* a second crash, DURING the restart repair: the repair of a head issues at most one batch (the bft commit), and after any
   prefix of it the invariant holds again, so the next start succeeds with a readable best block *)
Theorem crash_during_repair_is_consistent c rep s id j : wf_cfg c -> Inv c s ->
  let s1 := apply_writes s (firstn j (repair_one c s id)) in
  Inv c s1 /\
  exists s' best fin, restart c rep s1 = Some (s', best, fin) /\ Inv c s' /\ readable s' best = true /\ stored s' fin = true.
Proof.
  intros Hc I s1.
  assert (I1 : Inv c s1) by (apply all_prefixes_firstn; apply repair_one_prefixes; auto).
  split; auto. destruct (restart_ok c rep s1 Hc I1) as (s' & best & fin & H1 & H2 & _ & H3 & H4).
  exists s', best, fin. auto.
Qed.

(* C13, first clause: for every history and EVERY cut position the node restarts and its best block's header, transactions,
   receipts, number index, state and ancestors are all there *)
Theorem crash_consistent c rep s0 hist k :
  wf_cfg c -> Inv c s0 -> wf_hist c s0 hist ->
  exists s' best fin, restart c rep (crash c s0 hist k) = Some (s', best, fin) /\
                      readable s' best = true /\ stored s' fin = true /\ Inv c s'.
Proof.
  intros Hc I Hw. destruct (restart_ok c rep (crash c s0 hist k) Hc (crash_inv c s0 hist k Hc I Hw))
    as (s' & best & fin & H1 & H2 & H3 & H4 & H5).
  exists s', best, fin. auto.
Qed.

(* ---- bft records after a cut: written after the block they refer to, and at most once per import *)

Theorem bft_records_refer_to_stored_blocks c s0 hist k :
  wf_cfg c -> Inv c s0 -> wf_hist c s0 hist ->
  let s := crash c s0 hist k in
  (forall id, has s (KQuality id) = true -> stored s id = true /\ readable s id = true) /\
  (forall f, get_id s KFinalized = Some f -> stored s f = true /\ readable s f = true).
Proof.
  intros Hc I Hw s. pose proof (crash_inv c s0 hist k Hc I Hw) as Is. fold s in Is.
  split.
  - intros id H. pose proof (inv_quality c s Is id H). split; auto. eapply Inv_readable; eauto.
  - intros f H. pose proof (inv_fin c s Is f H). split; auto. eapply Inv_readable; eauto.
Qed.

(* ---- the genesis store satisfies the invariant *)

Lemma get_nil_writes_aux ws k : (forall w, In w ws -> aux_batch w) -> is_node k = false -> (forall h, k <> KCode h) ->
  get (apply_writes [] ws) k = None.
Proof.
  intros H Hk Hc. rewrite get_frame_writes; auto.
  intros w o Hw Ho. eapply aux_key_ne; eauto.
Qed.

Theorem genesis_inv L (g : blk) :
  num_of (b_id g) = 0 -> b_skeep g = [] -> b_ikeep g = [] -> Inv (mkCfg L (b_id g)) (genesis_store g).
Proof.
  intros Hn Hk Hi. unfold genesis_store.
  set (c := mkCfg L (b_id g)). set (sb := state_batches g 0).
  replace (sb ++ [index_batch g 0; block_bulk g 0 true]) with ((sb ++ [index_batch g 0]) ++ [block_bulk g 0 true])
    by (rewrite <- app_assoc; reflexivity).
  rewrite apply_writes_app. set (s2 := apply_writes [] (sb ++ [index_batch g 0])).
  cbn [apply_writes fold_left].
  assert (Hall : forall w, In w (sb ++ [index_batch g 0]) -> aux_batch w).
  { intros w Hw. apply in_app_or in Hw. destruct Hw as [Hw|[<-|[]]]; [eapply state_batches_aux; eauto|apply index_batch_aux]. }
  assert (Hnd : forall w, In w (sb ++ [index_batch g 0]) -> nd_batch w) by (intros; apply aux_nd; auto).
  assert (Hnone : forall k, is_node k = false -> (forall h, k <> KCode h) -> get s2 k = None)
    by (intros; apply get_nil_writes_aux; auto).
  constructor.
  - exists (b_id g). rewrite bulk_best. split; auto. unfold stored. rewrite bulk_summary.
    destruct (N.eq_dec (b_id g) (b_id g)); congruence.
  - intros i smi H. rewrite bulk_summary in H. destruct (N.eq_dec i (b_id g)) as [->|Hne].
    + inversion H; subst smi. split; [|split; [|split]].
      * apply bulk_txs.
      * intros k Hin. unfold summary_of in Hin. cbn [s_sreach] in Hin. rewrite Hk, app_nil_r in Hin.
        assert (Hnode : is_node k = true).
        { rewrite map_app in Hin. apply in_app_or in Hin. destruct Hin as [Hin|Hin].
          - rewrite concat_map in Hin. apply in_concat in Hin. destruct Hin as (ks & Hks & Hin).
            apply in_map_iff in Hks. destruct Hks as (w & <- & Hw). apply in_map_iff in Hw. destruct Hw as (l & <- & _).
            eapply node_ops_is_node; eauto.
          - eapply node_ops_is_node; eauto. }
        split; auto. apply has_mono; [apply bulk_nd|apply node_head; auto|].
        rewrite map_app in Hin. apply in_app_or in Hin. destruct Hin as [Hin|Hin].
        -- rewrite concat_map in Hin. apply in_concat in Hin. destruct Hin as (ks & Hks & Hin).
           apply in_map_iff in Hks. destruct Hks as (w & <- & Hw). apply in_map_iff in Hw. destruct Hw as (l & <- & Hl).
           destruct (in_node_ops_put _ _ _ _ _ Hin) as (v & Hv).
           eapply has_put_in_writes; eauto. { apply node_head; auto. }
           apply in_or_app. left. unfold sb, state_batches. apply in_or_app. right. apply in_or_app. left.
           apply in_map_iff. exists l; auto.
        -- destruct (in_node_ops_put _ _ _ _ _ Hin) as (v & Hv).
           eapply has_put_in_writes; eauto. { apply node_head; auto. }
           apply in_or_app. left. unfold sb, state_batches. apply in_or_app. right. apply in_or_app. right. left; auto.
      * intros k Hin. unfold summary_of in Hin. cbn [s_ireach] in Hin. rewrite Hi, app_nil_r in Hin.
        assert (Hnode : is_node k = true) by (eapply node_ops_is_node; eauto).
        split; auto. apply has_mono; [apply bulk_nd|apply node_head; auto|].
        destruct (in_node_ops_put _ _ _ _ _ Hin) as (v & Hv).
        eapply has_put_in_writes; eauto. { apply node_head; auto. }
        apply in_or_app. right. left; auto.
      * left. split; auto.
    + unfold get_summary in H. rewrite Hnone in H; [discriminate|reflexivity|discriminate].
  - intros i H. unfold has in H. rewrite bulk_other_frame in H by (simpl; auto).
    rewrite Hnone in H; [discriminate|reflexivity|discriminate].
  - intros f H. unfold get_id in H. rewrite bulk_other_frame in H by (simpl; auto).
    rewrite Hnone in H; [discriminate|reflexivity|discriminate].
Qed.
