(* Crash/ProofsOrphans.v — versions are fresh: every key an import stamps with a (number, conflicts) version carries a
   version no stored block has. Hence (value consistency) everything a stored block wrote under its version — trie nodes,
   transactions, receipts, tx-index entries — is never written again by any later import, interrupted import or resumed
   import, and (orphans_harmless) what an interrupted import left behind is reachable from no stored root. *)
From Coq Require Import List NArith Bool Lia Permutation.
From Verif Require Import Crash.Model Crash.ProofsStore Crash.ProofsInv Crash.ProofsImport Crash.ProofsCrash
  Crash.ProofsEqv Crash.ProofsShape Crash.ProofsResumeAll.
Import ListNotations.
Open Scope N_scope.

(* the (number, conflicts) version a key is stamped with *)
Definition key_ver (k : key) : option (N * N) :=
  match k with
  | KNode _ _ maj min => Some (maj, min)
  | KTx n c _ => Some (n, c)
  | KReceipt n c _ => Some (n, c)
  | KTxMeta _ n c => Some (n, c)
  | _ => None
  end.

(* a stored block's conflicts number is below the number of stored blocks at its height *)
Definition FreshInv (s : store) : Prop :=
  forall x sm, get_summary s x = Some sm -> s_conf sm < scan_conflicts s (num_of x).

(* every node a stored block's roots reach is stamped with the version of a stored block *)
Definition stored_ver (s : store) (v : N * N) : Prop :=
  exists x sm, get_summary s x = Some sm /\ v = (num_of x, s_conf sm).
Definition VerInv (s : store) : Prop :=
  forall x sm, get_summary s x = Some sm ->
  forall k, In k (s_sreach sm ++ s_ireach sm) -> exists v, key_ver k = Some v /\ stored_ver s v.

(* ---- every versioned key an import writes carries the import's own version *)

Lemma node_ops_ver cls maj min l o : In o (node_ops cls maj min l) -> key_ver (op_key o) = Some (maj, min).
Proof. unfold node_ops. intro H. apply in_map_iff in H. destruct H as (pr & <- & _). reflexivity. Qed.

Lemma import_ops_version c s b w o v :
  In w (import_batches c s b) -> In o w -> key_ver (op_key o) = Some v ->
  v = (num_of (b_id b), conf_of s b).
Proof.
  intros Hw Ho Hv.
  assert (Hsb : forall w, In w (state_batches b (conf_of s b)) -> forall o, In o w -> forall v, key_ver (op_key o) = Some v -> v = (num_of (b_id b), conf_of s b)).
  { clear. intros w Hw o Ho v Hv. unfold state_batches in Hw. apply in_app_or in Hw. destruct Hw as [Hw|Hw].
    - destruct (b_codes b); [destruct Hw|]. destruct Hw as [<-|[]]. apply in_map_iff in Ho. destruct Ho as (pr & <- & _). discriminate.
    - apply in_app_or in Hw. destruct Hw as [Hw|[<-|[]]].
      + apply in_map_iff in Hw. destruct Hw as (l & <- & _). rewrite (node_ops_ver _ _ _ _ _ Ho) in Hv. congruence.
      + rewrite (node_ops_ver _ _ _ _ _ Ho) in Hv. congruence. }
  destruct (import_cases c s b) as [E|[[_ E]|(ab & M & E)]]; rewrite E in Hw.
  - destruct Hw.
  - eapply Hsb; eauto.
  - apply in_app_or in Hw. destruct Hw as [Hw|Hw].
    + unfold pre_writes in Hw. apply in_app_or in Hw. destruct Hw as [Hw|[<-|[<-|[]]]].
      * eapply Hsb; eauto.
      * unfold index_batch in Ho. rewrite (node_ops_ver _ _ _ _ _ Ho) in Hv. congruence.
      * unfold block_bulk in Ho.
        apply in_app_or in Ho. destruct Ho as [Ho|Ho].
        { apply in_flat_map in Ho. destruct Ho as (it & _ & Ho). simpl in Ho.
          destruct Ho as [<-|[<-|[<-|[]]]]; simpl in Hv; congruence. }
        apply in_app_or in Ho. destruct Ho as [Ho|Ho].
        { apply in_map_iff in Ho. destruct Ho as (it & <- & _). simpl in Hv. congruence. }
        apply in_app_or in Ho. destruct Ho as [Ho|Ho].
        { simpl in Ho. destruct Ho as [<-|[<-|[<-|[]]]]; discriminate. }
        destruct ab; simpl in Ho; [destruct Ho as [<-|[]]; discriminate|destruct Ho].
    + unfold commit_writes in Hw. destruct (commit_writes_keys _ _ _ _ _ _ _ _ Hw Ho) as [X|X]; rewrite X in Hv; discriminate.
Qed.

(* ---- ScanConflicts after the block bulk: one more at the block's height *)

Lemma scan_after_bulk c s b ab n : main_case c s b ab ->
  scan_conflicts (apply_writes s (pre_writes s b ab)) n = scan_conflicts s n + (if n =? num_of (b_id b) then 1 else 0).
Proof.
  intro M. pose proof (main_not_stored c s b ab M) as Hn.
  set (s3 := apply_writes s (pre_writes s b ab)).
  assert (P : Permutation (stored_at s3 n) ((if n =? num_of (b_id b) then [b_id b] else []) ++ stored_at s n)).
  { apply NoDup_Permutation.
    - apply NoDup_filter, summary_ids_nodup.
    - destruct (n =? num_of (b_id b)) eqn:En; simpl; [|apply NoDup_filter, summary_ids_nodup].
      constructor; [|apply NoDup_filter, summary_ids_nodup].
      unfold stored_at. rewrite filter_In. intros [_ H]. rewrite Hn in H. discriminate.
    - intro x. unfold stored_at. rewrite in_app_iff, !filter_In. split.
      + intros [_ H]. apply andb_true_iff in H. destruct H as [Hs Hx].
        destruct (s3_stored s b ab x Hs) as [->|Hold].
        * left. rewrite N.eqb_sym, Hx. left; auto.
        * right. split; [apply stored_in_ids; auto|]. rewrite Hold, Hx. auto.
      + intros [H|[_ H]].
        * destruct (n =? num_of (b_id b)) eqn:En; [|destruct H]. destruct H as [<-|[]].
          assert (Hs : stored s3 (b_id b) = true) by apply s3_stored_b.
          split; [apply stored_in_ids; auto|]. rewrite Hs, N.eqb_sym, En. auto.
        * apply andb_true_iff in H. destruct H as [Hs Hx].
          assert (Hs3 : stored s3 x = true) by (apply s3_stored_mono; auto).
          split; [apply stored_in_ids; auto|]. rewrite Hs3, Hx. auto. }
  unfold scan_conflicts. fold (stored_at s3 n). fold (stored_at s n). rewrite (Permutation_length P), app_length.
  destruct (n =? num_of (b_id b)); simpl; lia.
Qed.

(* ---- the two invariants hold after every prefix of every import *)

Definition Inv3 (s : store) : Prop := FreshInv s /\ VerInv s.

(* both invariants only look at the summaries *)
Definition eqv_sum (s s' : store) : Prop := forall id, get_summary s id = get_summary s' id.

Lemma sum_scan_conflicts s s' n : eqv_sum s s' -> scan_conflicts s n = scan_conflicts s' n.
Proof.
  intro E. assert (St : forall a b, eqv_sum a b -> forall id, stored a id = stored b id) by (intros a b H id; unfold stored; rewrite H; auto).
  unfold scan_conflicts. f_equal. apply Permutation_length.
  apply NoDup_Permutation; try (apply NoDup_filter, summary_ids_nodup).
  intro x. rewrite !filter_In. rewrite (St s s' E).
  split; intros [_ H]; split; auto; apply stored_in_ids; apply andb_true_iff in H; destruct H as [H _]; auto.
  rewrite (St s s' E); auto.
Qed.

Lemma Inv3_sum s s' : eqv_sum s s' -> Inv3 s -> Inv3 s'.
Proof.
  intros E [F V]. split.
  - intros x sm H. rewrite <- E in H. rewrite <- (sum_scan_conflicts s s' _ E). auto.
  - intros x sm H k Hk. rewrite <- E in H. destruct (V x sm H k Hk) as (v & Hv & (y & ysm & Hy & Ey)).
    exists v. split; auto. exists y, ysm. rewrite <- E. auto.
Qed.

Lemma frame_prefixes_inv3 ws : forall s, Inv3 s -> (forall w o, In w ws -> In o w -> forall i, op_key o <> KSummary i) ->
  all_prefixes Inv3 s ws.
Proof.
  induction ws as [|w r IH]; intros s I H; simpl; (split; [exact I|]); auto.
  apply IH; [|intros; eapply H; eauto; right; auto].
  eapply Inv3_sum; [|exact I]. intro id. symmetry. apply get_summary_frame. intros o Ho. eapply H; eauto. left; auto.
Qed.

Lemma stored_ver_mono s s' v : (forall id sm, get_summary s id = Some sm -> get_summary s' id = Some sm) -> stored_ver s v -> stored_ver s' v.
Proof. intros K (x & sm & H & E). exists x, sm. split; auto. Qed.

Theorem import_prefixes_inv3 c s b : wf_cfg c -> Inv c s -> Inv3 s -> wf_blk s b ->
  all_prefixes Inv3 s (import_batches c s b).
Proof.
  intros Hc I [F V] Hwf.
  assert (Haux : forall ws s', Inv3 s' -> (forall w, In w ws -> aux_batch w) -> all_prefixes Inv3 s' ws).
  { intros ws s' I3 Ha. apply frame_prefixes_inv3; auto. intros w o Hw Ho i. eapply aux_key_ne; eauto; discriminate. }
  destruct (import_cases c s b) as [E|[[_ E]|(ab & M & E)]]; rewrite E.
  - simpl. split; auto. split; auto.
  - apply Haux; [split; auto|]. intros; eapply state_batches_aux; eauto.
  - set (ws := state_batches b (conf_of s b) ++ [index_batch b (conf_of s b)]).
    assert (Epre : pre_writes s b ab = ws ++ [block_bulk b (conf_of s b) ab]) by (unfold pre_writes, ws; rewrite <- app_assoc; reflexivity).
    rewrite Epre, <- app_assoc. apply all_prefixes_app; [apply Haux; [split; auto|apply s2_aux]|].
    set (s2 := apply_writes s ws).
    set (s3 := apply_writes s (pre_writes s b ab)).
    assert (E3 : apply_batch s2 (block_bulk b (conf_of s b) ab) = s3) by (unfold s3, s2; rewrite Epre, apply_writes_app; reflexivity).
    assert (I32 : Inv3 s2).
    { eapply Inv3_sum; [|split; eauto]. intro id. unfold s2. symmetry. unfold get_summary. rewrite aux_writes_frame; auto. apply s2_aux. }
    cbn [app all_prefixes]. split; [exact I32|]. rewrite E3.
    assert (K : forall id sm, get_summary s id = Some sm -> get_summary s3 id = Some sm).
    { intros id sm H. unfold s3. rewrite s3_summary. destruct (N.eq_dec id (b_id b)) as [->|]; auto.
      pose proof (main_not_stored c s b ab M) as Hn. unfold stored in Hn. rewrite H in Hn. discriminate. }
    assert (F3 : FreshInv s3).
    { intros x sm H. unfold s3 in *. rewrite (scan_after_bulk c s b ab _ M). rewrite s3_summary in H.
      destruct (N.eq_dec x (b_id b)) as [->|Hne].
      - inversion H; subst sm. cbn [s_conf summary_of]. rewrite N.eqb_refl. unfold conf_of. lia.
      - specialize (F x sm H). destruct (num_of x =? num_of (b_id b)); lia. }
    assert (V3 : VerInv s3).
    { intros x sm H k Hk. unfold s3 in H. rewrite s3_summary in H. destruct (N.eq_dec x (b_id b)) as [->|Hne].
      - inversion H; subst sm. clear H.
        assert (Hb : stored_ver s3 (num_of (b_id b), conf_of s b)).
        { exists (b_id b), (summary_of b (conf_of s b)). split; auto. unfold s3. rewrite s3_summary.
          destruct (N.eq_dec (b_id b) (b_id b)); congruence. }
        destruct M as (_ & _ & Mp & _). unfold stored in Mp. destruct (get_summary s (b_parent b)) as [psm|] eqn:Ep; [|discriminate].
        destruct (Hwf psm Ep) as [Wk Wi].
        cbn [s_sreach s_ireach summary_of] in Hk. apply in_app_or in Hk. destruct Hk as [Hk|Hk]; apply in_app_or in Hk; destruct Hk as [Hk|Hk].
        + exists (num_of (b_id b), conf_of s b). split; auto.
          apply in_map_iff in Hk. destruct Hk as (o & <- & Ho). apply in_app_or in Ho. destruct Ho as [Ho|Ho].
          * apply in_concat in Ho. destruct Ho as (w & Hw & Ho). apply in_map_iff in Hw. destruct Hw as (l & <- & _).
            eapply node_ops_ver; eauto.
          * eapply node_ops_ver; eauto.
        + destruct (V _ _ Ep k) as (v & Hv & Hs); [apply in_or_app; left; auto|]. exists v. split; auto. eapply stored_ver_mono; eauto.
        + exists (num_of (b_id b), conf_of s b). split; auto.
          apply in_map_iff in Hk. destruct Hk as (o & <- & Ho). eapply node_ops_ver; eauto.
        + destruct (V _ _ Ep k) as (v & Hv & Hs); [apply in_or_app; right; auto|]. exists v. split; auto. eapply stored_ver_mono; eauto.
      - destruct (V x sm H k Hk) as (v & Hv & Hs). exists v. split; auto. eapply stored_ver_mono; eauto. }
    cbn [all_prefixes]. apply frame_prefixes_inv3; [split; auto|].
    intros w o Hw Ho i X. unfold commit_writes in Hw. fold s3 in Hw.
    destruct (commit_writes_keys _ _ _ _ _ _ _ _ Hw Ho) as [Y|Y]; rewrite Y in X; discriminate.
Qed.

(* ---- value consistency: what a stored block wrote under its version is never written again *)

Theorem import_never_rewrites_stored_version c s b j k v :
  FreshInv s -> key_ver k = Some v -> stored_ver s v ->
  get (apply_writes s (firstn j (import_batches c s b))) k = get s k.
Proof.
  intros F Hk (x & sm & Hx & Ev). apply get_frame_writes. intros w o Hw Ho E.
  apply in_firstn in Hw. rewrite <- E in Hk.
  pose proof (import_ops_version c s b w o v Hw Ho Hk) as Hv. rewrite Ev in Hv. inversion Hv as [[Hn Hc]].
  specialize (F x sm Hx). unfold conf_of in Hc. rewrite <- Hn in Hc. lia.
Qed.

Corollary run1_keeps_stored_data c s b k v : FreshInv s -> key_ver k = Some v -> stored_ver s v -> get (run1 c s b) k = get s k.
Proof.
  intros F Hk Hs. unfold run1.
  rewrite <- (firstn_all (import_batches c s b)). apply import_never_rewrites_stored_version with (v := v); auto.
Qed.

Lemma run1_keeps_summaries c s b id sm : get_summary s id = Some sm -> get_summary (run1 c s b) id = Some sm.
Proof.
  intro H. destruct (run1_eq_cases c s b) as [E|[E|(ab & M & E)]]; rewrite E; auto.
  - unfold get_summary in *. rewrite aux_writes_frame; auto. intros; eapply state_batches_aux; eauto.
  - unfold get_summary at 1. unfold commit_writes. rewrite commit_frame by discriminate.
    fold (get_summary (apply_writes s (pre_writes s b ab)) id). rewrite s3_summary.
    destruct (N.eq_dec id (b_id b)) as [->|]; auto.
    pose proof (main_not_stored c s b ab M) as Hn. unfold stored in Hn. rewrite H in Hn. discriminate.
Qed.

(* over any number of further imports *)
Theorem run_keeps_stored_data c l : forall s k v, wf_cfg c -> Inv c s -> Inv3 s -> wf_hist c s l ->
  key_ver k = Some v -> stored_ver s v -> get (run c s l) k = get s k.
Proof.
  induction l as [|b r IH]; intros s k v Hc I I3 Hw Hk Hs; simpl; auto.
  destruct Hw as [Hb Hr].
  assert (I1 : Inv c (run1 c s b)) by (unfold run1; apply all_prefixes_last; apply import_all_prefixes; auto).
  assert (I31 : Inv3 (run1 c s b)) by (unfold run1; apply all_prefixes_last; apply import_prefixes_inv3; auto).
  rewrite (IH (run1 c s b) k v); auto.
  - apply run1_keeps_stored_data with (v := v); auto. apply I3.
  - eapply stored_ver_mono; [|exact Hs]. intros; apply run1_keeps_summaries; auto.
Qed.

(* every crash cut satisfies the two invariants *)
Theorem history_prefixes_inv3 c l : forall s, wf_cfg c -> Inv c s -> Inv3 s -> wf_hist c s l ->
  all_prefixes Inv3 s (writes_of c s l).
Proof.
  induction l as [|b r IH]; intros s Hc I I3 Hw; simpl; auto.
  destruct Hw as [Hb Hr]. apply all_prefixes_app; [apply import_prefixes_inv3; auto|].
  apply IH; auto.
  - apply all_prefixes_last. apply import_all_prefixes; auto.
  - apply all_prefixes_last. apply import_prefixes_inv3; auto.
Qed.

Theorem crash_inv3 c s0 hist k : wf_cfg c -> Inv c s0 -> Inv3 s0 -> wf_hist c s0 hist -> Inv3 (crash c s0 hist k).
Proof. intros. unfold crash. apply all_prefixes_firstn. apply history_prefixes_inv3; auto. Qed.

(* after a crash at ANY cut, whatever block is delivered next (the interrupted one again, or another block that gets
   the same (number, conflicts) version) and however far its import gets, no key stamped with a stored block's version
   changes: what a committed root resolves to stays what it was *)
Theorem reimport_after_crash_keeps_stored_data c s0 hist k b' j key v :
  wf_cfg c -> Inv c s0 -> Inv3 s0 -> wf_hist c s0 hist ->
  let s' := crash c s0 hist k in
  key_ver key = Some v -> stored_ver s' v ->
  get (apply_writes s' (firstn j (import_batches c s' b'))) key = get s' key.
Proof.
  intros Hc I I3 Hw s' Hk Hs. apply import_never_rewrites_stored_version with (v := v); auto.
  apply (crash_inv3 c s0 hist k Hc I I3 Hw).
Qed.

(* ---- orphans_harmless: what an interrupted import wrote (before its block bulk) is reachable from no stored root *)

Theorem orphans_unreachable c s b j w o :
  Inv3 s -> In w (firstn j (import_batches c s b)) -> In o w -> stored s (b_id b) = false ->
  forall x sm, get_summary s x = Some sm -> key_ver (op_key o) <> None -> ~ In (op_key o) (s_sreach sm ++ s_ireach sm).
Proof.
  intros [F V] Hw Ho Hnb x sm Hx Hkv Hin. apply in_firstn in Hw.
  destruct (V x sm Hx _ Hin) as (v & Hv & (y & ysm & Hy & Ev)).
  pose proof (import_ops_version c s b w o v Hw Ho Hv) as E. rewrite Ev in E. inversion E as [[Hn Hc]].
  specialize (F y ysm Hy). unfold conf_of in Hc. rewrite <- Hn in Hc. lia.
Qed.

(* the genesis store has both invariants *)
Lemma genesis_inv3 g : b_skeep g = [] -> b_ikeep g = [] -> Inv3 (genesis_store g).
Proof.
  intros Hk Hi. change (genesis_store g) with (apply_writes [] (pre_writes [] g true)).
  assert (Hst : forall x sm, get_summary (apply_writes [] (pre_writes [] g true)) x = Some sm -> x = b_id g /\ sm = summary_of g 0).
  { intros x sm H. rewrite s3_summary in H. destruct (N.eq_dec x (b_id g)) as [->|]; [inversion H; split; reflexivity|discriminate]. }
  assert (Hg : get_summary (apply_writes [] (pre_writes [] g true)) (b_id g) = Some (summary_of g 0)).
  { rewrite s3_summary. destruct (N.eq_dec (b_id g) (b_id g)) as [_|X]; [reflexivity|exfalso; apply X; reflexivity]. }
  split.
  - intros x sm H. destruct (Hst x sm H) as [-> ->]. cbn [s_conf summary_of].
    apply (scan_conflicts_pos _ (b_id g)). unfold stored. rewrite Hg. auto.
  - intros x sm H k Hin. destruct (Hst x sm H) as [-> ->].
    exists (num_of (b_id g), 0). split; [|exists (b_id g), (summary_of g 0); split; auto].
    cbn [s_sreach s_ireach summary_of] in Hin. rewrite Hk, Hi, !app_nil_r in Hin.
    apply in_app_or in Hin. destruct Hin as [Hin|Hin]; apply in_map_iff in Hin; destruct Hin as (o & <- & Ho).
    + apply in_app_or in Ho. destruct Ho as [Ho|Ho].
      * apply in_concat in Ho. destruct Ho as (w & Hw & Ho). apply in_map_iff in Hw. destruct Hw as (l & <- & _). eapply node_ops_ver; eauto.
      * eapply node_ops_ver; eauto.
    + eapply node_ops_ver; eauto.
Qed.

(* ---- the tx index points to the block holding the transaction; versions identify stored blocks *)

(* every transaction of a stored block has its tx-index entry, keyed by the block's own (number, conflicts) *)
Definition MetaInv (s : store) : Prop :=
  forall x sm, get_summary s x = Some sm -> forall t, In t (s_txs sm) -> has s (KTxMeta t (num_of x) (s_conf sm)) = true.
(* two stored blocks never share a version *)
Definition UniqueVer (s : store) : Prop :=
  forall x y sx sy, get_summary s x = Some sx -> get_summary s y = Some sy ->
    num_of x = num_of y -> s_conf sx = s_conf sy -> x = y.
Definition Inv4 (s : store) : Prop := MetaInv s /\ UniqueVer s.

Lemma Inv4_step s w : Inv4 s -> nd_batch w -> (forall o, In o w -> forall i, op_key o <> KSummary i) -> Inv4 (apply_batch s w).
Proof.
  intros [Mi U] Hnd Hk.
  assert (S : forall id, get_summary (apply_batch s w) id = get_summary s id) by (intro id; apply get_summary_frame; intros o Ho; apply Hk; auto).
  split.
  - intros x sm H t Ht. rewrite S in H. apply has_mono; auto.
  - intros x y sx sy Hx Hy. rewrite S in Hx, Hy. eauto.
Qed.

Lemma Inv4_steps ws : forall s, Inv4 s -> (forall w, In w ws -> nd_batch w) ->
  (forall w o, In w ws -> In o w -> forall i, op_key o <> KSummary i) -> all_prefixes Inv4 s ws.
Proof.
  induction ws as [|w r IH]; intros s I Hnd Hk; simpl; (split; [exact I|]); auto.
  apply IH.
  - apply Inv4_step; auto. { apply Hnd; left; auto. } intros o Ho. eapply Hk; eauto. left; auto.
  - intros; apply Hnd; right; auto.
  - intros; eapply Hk; eauto. right; auto.
Qed.

Theorem import_prefixes_inv4 c s b : FreshInv s -> Inv4 s -> all_prefixes Inv4 s (import_batches c s b).
Proof.
  intros F [Mi U].
  assert (Haux : forall ws s', Inv4 s' -> (forall w, In w ws -> aux_batch w) -> all_prefixes Inv4 s' ws).
  { intros ws s' I4 Ha. apply Inv4_steps; auto. { intros; apply aux_nd; auto. }
    intros w o Hw Ho i. eapply aux_key_ne; eauto; discriminate. }
  destruct (import_cases c s b) as [E|[[_ E]|(ab & M & E)]]; rewrite E.
  - simpl. split; auto. split; auto.
  - apply Haux; [split; auto|]. intros; eapply state_batches_aux; eauto.
  - set (ws := state_batches b (conf_of s b) ++ [index_batch b (conf_of s b)]).
    assert (Epre : pre_writes s b ab = ws ++ [block_bulk b (conf_of s b) ab]) by (unfold pre_writes, ws; rewrite <- app_assoc; reflexivity).
    rewrite Epre, <- app_assoc. apply all_prefixes_app; [apply Haux; [split; auto|apply s2_aux]|].
    set (s2 := apply_writes s ws). set (s3 := apply_writes s (pre_writes s b ab)).
    assert (E3 : apply_batch s2 (block_bulk b (conf_of s b) ab) = s3) by (unfold s3, s2; rewrite Epre, apply_writes_app; reflexivity).
    assert (I42 : Inv4 s2) by (apply all_prefixes_last; apply Haux; [split; auto|apply s2_aux]).
    cbn [app all_prefixes]. split; [exact I42|]. rewrite E3.
    assert (I43 : Inv4 s3).
    { split.
      - intros x sm H t Ht. unfold s3 in H. rewrite s3_summary in H. destruct (N.eq_dec x (b_id b)) as [->|Hne].
        + inversion H; subst sm. cbn [s_txs s_conf summary_of] in *. apply in_map_iff in Ht. destruct Ht as (td & <- & Htd).
          rewrite <- E3. assert (exists i, In (i, td) (enum_from 0 (b_txs b))) as (i & Hi).
          { clear - Htd. generalize 0. induction (b_txs b) as [|a l IH]; intro n; [destruct Htd|]. destruct Htd as [->|Htd].
            - exists n. left; auto.
            - destruct (IH Htd (n + 1)) as (i & Hi). exists i. right; auto. }
          eapply has_put_in with (v := VBlob (t_meta td)).
          * unfold block_bulk. apply in_or_app. left. apply in_flat_map. exists (i, td). split; auto. simpl. right; left. reflexivity.
          * apply nd_no_del; auto. apply bulk_nd.
        + apply s3_mono; auto.
      - intros x y sx sy Hx Hy Hn Hc. unfold s3 in Hx, Hy. rewrite s3_summary in Hx, Hy.
        destruct (N.eq_dec x (b_id b)) as [->|Hnx]; destruct (N.eq_dec y (b_id b)) as [->|Hny]; auto.
        + inversion Hx; subst sx. cbn [s_conf summary_of] in Hc. specialize (F y sy Hy). unfold conf_of in Hc. rewrite Hn in Hc. lia.
        + inversion Hy; subst sy. cbn [s_conf summary_of] in Hc. specialize (F x sx Hx). unfold conf_of in Hc. rewrite <- Hn in Hc. lia.
        + eapply U; eauto. }
    cbn [all_prefixes]. apply Inv4_steps; auto.
    + intros w Hw. eapply commit_nd; eauto.
    + intros w o Hw Ho i X. unfold commit_writes in Hw.
      destruct (commit_writes_keys _ _ _ _ _ _ _ _ Hw Ho) as [Y|Y]; rewrite Y in X; discriminate.
Qed.

Theorem history_prefixes_inv4 c l : forall s, wf_cfg c -> Inv c s -> Inv3 s -> Inv4 s -> wf_hist c s l ->
  all_prefixes Inv4 s (writes_of c s l).
Proof.
  induction l as [|b r IH]; intros s Hc I I3 I4 Hw; simpl; auto.
  destruct Hw as [Hb Hr]. apply all_prefixes_app; [apply import_prefixes_inv4; auto; apply I3|].
  apply IH; auto.
  - apply all_prefixes_last. apply import_all_prefixes; auto.
  - apply all_prefixes_last. apply import_prefixes_inv3; auto.
  - apply all_prefixes_last. apply import_prefixes_inv4; auto. apply I3.
Qed.

(* at every cut: each transaction of each stored block has its tx-index entry, and the (number, conflicts) in that entry's key
   identifies exactly one stored block — the one holding the transaction *)
Theorem tx_index_points_to_its_block c s0 hist k : wf_cfg c -> Inv c s0 -> Inv3 s0 -> Inv4 s0 -> wf_hist c s0 hist ->
  let s := crash c s0 hist k in
  forall x sm t, get_summary s x = Some sm -> In t (s_txs sm) ->
    has s (KTxMeta t (num_of x) (s_conf sm)) = true /\
    (forall y sy, get_summary s y = Some sy -> num_of y = num_of x -> s_conf sy = s_conf sm -> y = x).
Proof.
  intros Hc I I3 I4 Hw s x sm t Hx Ht.
  assert (I4s : Inv4 s) by (unfold s, crash; apply all_prefixes_firstn; apply history_prefixes_inv4; auto).
  destruct I4s as [Mi U]. split; [eapply Mi; eauto|]. intros y sy Hy Hn Hcf. eapply U; eauto.
Qed.

(* the genesis block has no transactions (NewRepository refuses one that has) *)
Lemma genesis_inv4 g : b_txs g = [] -> Inv4 (genesis_store g).
Proof.
  intro Ht. change (genesis_store g) with (apply_writes [] (pre_writes [] g true)).
  assert (Hst : forall x sm, get_summary (apply_writes [] (pre_writes [] g true)) x = Some sm -> x = b_id g /\ sm = summary_of g 0).
  { intros x sm H. rewrite s3_summary in H. destruct (N.eq_dec x (b_id g)) as [->|]; [inversion H; split; reflexivity|discriminate]. }
  split.
  - intros x sm H t Hin. destruct (Hst x sm H) as [-> ->]. cbn [s_txs summary_of] in Hin. rewrite Ht in Hin. destruct Hin.
  - intros x y sx sy Hx Hy _ _. destruct (Hst x sx Hx) as [-> _]. destruct (Hst y sy Hy) as [-> _]. reflexivity.
Qed.
