(* Crash/ProofsFinalized.v — the finalized block only moves forward along the chain: after every import the finalized
   block descends from (or is) the one before the import; hence over any number of imports. *)
From Coq Require Import List NArith Bool Lia.
From Verif Require Import Crash.Model Crash.ProofsStore Crash.ProofsInv Crash.ProofsImport Crash.ProofsCrash
  Crash.ProofsEqv Crash.ProofsShape Crash.ProofsResumeAll.
Import ListNotations.
Open Scope N_scope.

Definition keeps_summaries (s s' : store) : Prop := forall id sm, get_summary s id = Some sm -> get_summary s' id = Some sm.

Lemma ancestor_mono s s' : keeps_summaries s s' -> forall fuel id n a, ancestor fuel s id n = Some a -> ancestor fuel s' id n = Some a.
Proof.
  intro K. induction fuel as [|f IH]; intros id n a; simpl;
    destruct (get_summary s id) as [sm|] eqn:E; try discriminate; rewrite (K _ _ E); auto.
  destruct (num_of id =? n); auto. destruct (num_of id <? n); auto.
Qed.

Lemma anc_mono s s' id n a : keeps_summaries s s' -> anc s id n = Some a -> anc s' id n = Some a.
Proof. intros K H. unfold anc in *. eapply ancestor_mono; eauto. Qed.

(* one step up the chain *)
Lemma anc_step c s id sm n : Inv c s -> get_summary s id = Some sm -> n < num_of id ->
  anc s id n = anc s (s_parent sm) n.
Proof.
  intros I E Hlt. destruct (inv_blocks c s I id sm E) as (_ & _ & _ & [[_ H0]|[_ Hnum]]); [lia|].
  unfold anc. replace (N.to_nat (num_of id - n)) with (S (N.to_nat (num_of (s_parent sm) - n))) by lia.
  cbn [ancestor]. rewrite E.
  destruct (num_of id =? n) eqn:E1; [apply N.eqb_eq in E1; lia|].
  destruct (num_of id <? n) eqn:E2; [apply N.ltb_lt in E2; lia|]. reflexivity.
Qed.

Lemma anc_self s id sm : get_summary s id = Some sm -> anc s id (num_of id) = Some id.
Proof. intro E. unfold anc. rewrite N.sub_diag. simpl. rewrite E, N.eqb_refl. reflexivity. Qed.

Lemma anc_summary s id n a : anc s id n = Some a -> exists sm, get_summary s id = Some sm.
Proof. unfold anc. destruct (N.to_nat (num_of id - n)); simpl; destruct (get_summary s id); eauto; discriminate. Qed.

(* the ancestor at n of the ancestor at m is the ancestor at n *)
Lemma anc_compose c s : Inv c s -> forall d id m n f a,
  N.to_nat (num_of id - m) = d -> anc s id m = Some f -> n <= m -> anc s id n = Some a -> anc s f n = Some a.
Proof.
  intro I. induction d as [|d IH]; intros id m n f a Hd Hf Hnm Ha.
  - pose proof (ancestor_le _ _ _ _ _ Hf) as Hle. assert (num_of id = m) by lia.
    destruct (anc_summary _ _ _ _ Hf) as (sm & E). subst m. rewrite (anc_self s id sm E) in Hf. inversion Hf; subst. auto.
  - destruct (anc_summary _ _ _ _ Hf) as (sm & E).
    assert (Hlt : m < num_of id) by lia.
    rewrite (anc_step c s id sm m I E Hlt) in Hf. rewrite (anc_step c s id sm n I E) in Ha by lia.
    destruct (inv_blocks c s I id sm E) as (_ & _ & _ & [[_ H0]|[_ Hnum]]); [lia|].
    eapply IH; eauto. lia.
Qed.

Lemma find_checkpoint_descends c s t fin head f :
  find_checkpoint c s t fin head = Some f -> exists m, num_of fin <= m /\ anc s head m = Some f.
Proof.
  unfold find_checkpoint. destruct (num_of head <? num_of fin); [discriminate|].
  match goal with |- match ?X with _ => _ end = _ -> _ => destruct X as [idx|]; [|discriminate] end.
  match goal with |- (if ?X then _ else _) = _ -> _ => destruct X; [discriminate|] end.
  match goal with |- match ?X with _ => _ end = _ -> _ => destruct X as [x|]; [|discriminate] end.
  destruct (x =? t); [|discriminate]. intro H. exists (num_of fin + idx * c_L c). split; [lia|auto].
Qed.

Lemma finalized_stored c s : wf_cfg c -> Inv c s -> stored s (finalized c s) = true.
Proof.
  intros Hc I. unfold finalized. destruct (get_id s KFinalized) as [f|] eqn:E; [eapply inv_fin; eauto|].
  destruct (inv_best c s I) as (b & _ & Hb). destruct (anc_total c s b 0 Hc I Hb) as (a & Ha); [lia|].
  assert (a = c_g c) by (eapply ancestor_genesis; eauto). subst. apply anc_stored in Ha. tauto.
Qed.

Lemma num0_is_genesis c s id : Inv c s -> stored s id = true -> num_of id = 0 -> id = c_g c.
Proof.
  intros I Hs H0. unfold stored in Hs. destruct (get_summary s id) as [sm|] eqn:E; [|discriminate].
  destruct (inv_blocks c s I id sm E) as (_ & _ & _ & [[H _]|[_ Hn]]); auto. lia.
Qed.

(* C20 / C13: after every import the finalized block is the old one or a descendant of it *)
Theorem finalized_moves_forward c s b : wf_cfg c -> Inv c s -> wf_blk s b ->
  let s' := run1 c s b in
  anc s' (finalized c s') (num_of (finalized c s)) = Some (finalized c s).
Proof.
  intros Hc I Hwf s'.
  assert (I' : Inv c s') by (unfold s', run1; apply all_prefixes_last; apply import_all_prefixes; auto).
  pose proof (finalized_stored c s Hc I) as HF. set (F := finalized c s) in *.
  assert (Same : finalized c s' = F -> anc s' (finalized c s') (num_of F) = Some F).
  { intro E. rewrite E. assert (stored s' F = true) by (rewrite <- E; apply finalized_stored; auto).
    unfold stored in H. destruct (get_summary s' F) as [sm|] eqn:Es; [|discriminate]. eapply anc_self; eauto. }
  destruct (run1_eq_cases c s b) as [E|[E|(ab & M & E)]].
  - apply Same. unfold s'. rewrite E. reflexivity.
  - apply Same. unfold s'. rewrite E. unfold finalized, get_id. rewrite aux_writes_frame; auto.
    intros; eapply state_batches_aux; eauto.
  - set (s3 := apply_writes s (pre_writes s b ab)) in *.
    assert (F3 : finalized c s3 = F) by (unfold finalized, get_id, s3; rewrite s3_quality; auto).
    destruct (commit_shape c s3 (b_id b) (b_parent b) (b_just b) (b_comm b)) as [Ec|[(q & Ec & _)|(q & f & Ec & _)]].
    + apply Same. unfold s'. rewrite E. unfold commit_writes. fold s3. rewrite Ec. exact F3.
    + apply Same. unfold s'. rewrite E. unfold commit_writes. fold s3. rewrite Ec. cbn [apply_writes fold_left].
      unfold finalized, get_id. rewrite get_frame; [exact F3|]. intros o [<-|[]]; discriminate.
    + (* the finalized record is written: f was found on the chain of the new block, from F on *)
      assert (Es' : s' = apply_batch (apply_batch s3 [Put (KQuality (b_id b)) (VNum q)]) [Put KFinalized (VId f)]).
      { unfold s'. rewrite E. unfold commit_writes. fold s3. rewrite Ec. reflexivity. }
      assert (Ef : finalized c s' = f).
      { rewrite Es'. unfold finalized, get_id. rewrite get_apply_batch. simpl. destruct (key_eq_dec KFinalized KFinalized); congruence. }
      rewrite Ef.
      (* recover how f was computed *)
      assert (Hfc : find_checkpoint c (apply_batch s3 [Put (KQuality (b_id b)) (VNum q)]) (q - 1) F (b_id b) = Some f).
      { unfold commit_steps in Ec. destruct (is_storepoint (c_L c) (num_of (b_id b))); [|discriminate].
        destruct (quality_of c s3 (b_parent b) (num_of (b_id b)) (b_just b)) as [q'|]; [|discriminate].
        rewrite F3 in Ec.
        destruct (b_comm b && (1 <? q') && (num_of F <? checkpoint (c_L c) (num_of (b_id b)))); [|discriminate].
        destruct (find_checkpoint c (apply_batch s3 [Put (KQuality (b_id b)) (VNum q')]) (q' - 1) F (b_id b)) as [f'|] eqn:Efc;
          [|discriminate].
        cbn [writes_of_steps flat_map app] in Ec. inversion Ec; subst. exact Efc. }
      set (s4 := apply_batch s3 [Put (KQuality (b_id b)) (VNum q)]) in *.
      destruct (find_checkpoint_descends _ _ _ _ _ _ Hfc) as (m & Hm & Ham).
      assert (K34 : keeps_summaries s4 s').
      { intros id sm H. rewrite Es'. unfold get_summary in *. rewrite get_frame; auto. intros o [<-|[]]; discriminate. }
      assert (K3 : keeps_summaries s s4).
      { intros id sm H. unfold s4, get_summary in *. rewrite get_frame by (intros o [<-|[]]; discriminate).
        fold (get_summary s3 id). unfold s3. rewrite s3_summary. destruct (N.eq_dec id (b_id b)) as [->|]; auto.
        pose proof (main_not_stored c s b ab M) as Hn. unfold stored, get_summary in Hn. rewrite H in Hn. discriminate. }
      (* F is the ancestor of the new block at F's number *)
      destruct M as (_ & _ & Mp & Mn & Ma & _).
      assert (HaF : anc s' (b_id b) (num_of F) = Some F).
      { assert (Hsb : get_summary s' (b_id b) = Some (summary_of b (conf_of s b))).
        { apply K34. unfold s4, get_summary. rewrite get_frame by (intros o [<-|[]]; discriminate).
          fold (get_summary s3 (b_id b)). unfold s3. rewrite s3_summary. destruct (N.eq_dec (b_id b) (b_id b)); congruence. }
        unfold accepts in Ma. fold F in Ma.
        destruct (num_of F =? 0) eqn:E0.
        - apply N.eqb_eq in E0. assert (F = c_g c) by (apply (num0_is_genesis c s F I HF E0)).
          assert (Hst : stored s' (b_id b) = true) by (unfold stored; rewrite Hsb; auto).
          destruct (anc_total c s' (b_id b) 0 Hc I' Hst) as (a & Ha); [lia|].
          assert (a = c_g c) by (eapply ancestor_genesis; eauto). rewrite E0. congruence.
        - destruct (anc s (b_parent b) (num_of F)) as [a|] eqn:Ea; [|discriminate]. apply N.eqb_eq in Ma. subst a.
          pose proof (ancestor_le _ _ _ _ _ Ea) as Hle.
          rewrite (anc_step c s' (b_id b) _ (num_of F) I' Hsb) by lia. cbn [s_parent summary_of].
          eapply anc_mono; [|exact Ea]. intros id sm H. apply K34, K3. auto. }
      eapply (anc_compose c s' I' _ (b_id b) m (num_of F)); eauto.
      eapply anc_mono; eauto.
Qed.

(* no import ever changes or removes a stored summary *)
Lemma run1_keeps c s b : keeps_summaries s (run1 c s b).
Proof.
  intros id sm H. destruct (run1_eq_cases c s b) as [E|[E|(ab & M & E)]]; rewrite E; auto.
  - unfold get_summary in *. rewrite aux_writes_frame; auto. intros; eapply state_batches_aux; eauto.
  - unfold get_summary at 1. unfold commit_writes. rewrite commit_frame by discriminate.
    fold (get_summary (apply_writes s (pre_writes s b ab)) id). rewrite s3_summary.
    destruct (N.eq_dec id (b_id b)) as [->|]; auto.
    pose proof (main_not_stored c s b ab M) as Hn. unfold stored in Hn. rewrite H in Hn. discriminate.
Qed.

Lemma run_keeps c l : forall s, keeps_summaries s (run c s l).
Proof.
  induction l as [|b r IH]; intros s id sm H; simpl; auto.
  apply IH. apply run1_keeps. auto.
Qed.

(* ... hence over any number of imports *)
Theorem finalized_monotone_run c l : forall s, wf_cfg c -> Inv c s -> wf_hist c s l ->
  anc (run c s l) (finalized c (run c s l)) (num_of (finalized c s)) = Some (finalized c s).
Proof.
  induction l as [|b r IH]; intros s Hc I Hw.
  - simpl. pose proof (finalized_stored c s Hc I) as H. unfold stored in H.
    destruct (get_summary s (finalized c s)) as [sm|] eqn:E; [|discriminate]. eapply anc_self; eauto.
  - destruct Hw as [Hb Hr]. cbn [run fold_left].
    assert (I1 : Inv c (run1 c s b)) by (unfold run1; apply all_prefixes_last; apply import_all_prefixes; auto).
    pose proof (IH (run1 c s b) Hc I1 Hr) as H2. pose proof (finalized_moves_forward c s b Hc I Hb) as H1. cbn zeta in H1.
    fold (run c (run1 c s b) r) in *.
    assert (If : Inv c (run c (run1 c s b) r)) by (apply run_inv; auto).
    pose proof (ancestor_le _ _ _ _ _ H1) as Hle.
    (* lift the first step to the final store: summaries are kept by every import *)
    assert (H1' : anc (run c (run1 c s b) r) (finalized c (run1 c s b)) (num_of (finalized c s)) = Some (finalized c s))
      by (eapply anc_mono; [apply run_keeps|exact H1]).
    destruct (anc_total c _ (finalized c (run c (run1 c s b) r)) (num_of (finalized c s)) Hc If) as (a & Ha).
    + apply finalized_stored; auto.
    + pose proof (ancestor_le _ _ _ _ _ H2). lia.
    + rewrite Ha. f_equal.
      pose proof (anc_compose c _ If _ _ _ _ _ _ eq_refl H2 Hle Ha) as X. rewrite H1' in X. inversion X. auto.
Qed.

(* the same between any two points of a run: the finalized block after i+j imports descends from the one after i imports *)
Corollary finalized_monotone c s0 l1 l2 : wf_cfg c -> Inv c s0 -> wf_hist c s0 (l1 ++ l2) ->
  let s1 := run c s0 l1 in let s2 := run c s0 (l1 ++ l2) in
  anc s2 (finalized c s2) (num_of (finalized c s1)) = Some (finalized c s1).
Proof.
  intros Hc I Hw s1 s2. destruct (wf_hist_app c l1 s0 l2 Hw) as [H1 H2].
  unfold s2. rewrite run_app. apply finalized_monotone_run; auto. apply run_inv; auto.
Qed.

(* ---- what readers observe (C20): the published finalized pointer, at any two points of any interleaving *)

Definition desc (s : store) (a b : N) : Prop := anc s b (num_of a) = Some a.   (* b is a or descends from a *)

Fixpoint fin_steps (c : cfg) (s : store) (fin : N) (l : list step) : Prop :=
  match l with
  | [] => True
  | SWrite w :: r => keeps_summaries s (apply_batch s w) /\ Inv c (apply_batch s w) /\ fin_steps c (apply_batch s w) fin r
  | SPubBest _ :: r => fin_steps c s fin r
  | SPubFin f :: r => desc s fin f /\ fin_steps c s f r
  end.

Lemma desc_mono s s' a b : keeps_summaries s s' -> desc s a b -> desc s' a b.
Proof. intros K H. unfold desc in *. eapply anc_mono; eauto. Qed.

Lemma desc_trans c s x y z : wf_cfg c -> Inv c s -> desc s x y -> desc s y z -> desc s x z.
Proof.
  intros Hc I Hxy Hyz. unfold desc in *.
  pose proof (ancestor_le _ _ _ _ _ Hxy) as L1. pose proof (ancestor_le _ _ _ _ _ Hyz) as L2.
  destruct (anc_summary _ _ _ _ Hyz) as (sm & E).
  assert (Hs : stored s z = true) by (unfold stored; rewrite E; auto).
  destruct (anc_total c s z (num_of x) Hc I Hs) as (a & Ha); [lia|].
  rewrite Ha. f_equal.
  pose proof (anc_compose c s I _ z (num_of y) (num_of x) y a eq_refl Hyz L1 Ha) as X. rewrite Hxy in X. inversion X. auto.
Qed.

Lemma desc_refl s x : stored s x = true -> desc s x x.
Proof. intro H. unfold stored in H. destruct (get_summary s x) as [sm|] eqn:E; [|discriminate]. unfold desc. eapply anc_self; eauto. Qed.

Lemma fin_steps_keep c l : forall s f k, fin_steps c s f l ->
  keeps_summaries s (apply_writes s (writes_of_steps (firstn k l))).
Proof.
  induction l as [|x l IH]; intros s f k H; destruct k; simpl; try (intros id sm E; exact E).
  destruct x as [w|i|g]; simpl in *.
  - destruct H as (K & _ & Hr). intros id sm E. apply (IH (apply_batch s w) f k Hr). apply K. auto.
  - apply (IH s f k H).
  - destruct H as (_ & Hr). apply (IH s g k Hr).
Qed.

Lemma do_steps_store' y l : y_store (do_steps y l) = apply_writes (y_store y) (writes_of_steps l).
Proof.
  revert y. induction l as [|x l IH]; intro y; simpl; auto.
  unfold do_steps in *. simpl. rewrite IH. destruct x; simpl; auto.
Qed.

(* from the start of a good step list: whatever is published later descends from what was published at the start *)
Lemma fin_steps_from_start c l : wf_cfg c -> forall y, Inv c (y_store y) -> stored (y_store y) (y_fin y) = true ->
  fin_steps c (y_store y) (y_fin y) l ->
  forall k, let y' := do_steps y (firstn k l) in
    desc (y_store y') (y_fin y) (y_fin y') /\ Inv c (y_store y') /\ stored (y_store y') (y_fin y') = true /\
    fin_steps c (y_store y') (y_fin y') (skipn k l).
Proof.
  intro Hc. induction l as [|x l IH]; intros y I Hs Hf k.
  - destruct k; simpl; (split; [apply desc_refl; auto|split; [auto|split; auto]]).
  - destruct k; [simpl; (split; [apply desc_refl; auto|split; [auto|split; auto]])|].
    cbn [firstn skipn]. unfold do_steps. cbn [fold_left]. fold (do_steps (do_step y x) (firstn k l)).
    destruct x as [w|id|f]; simpl in Hf.
    + destruct Hf as (K & I1 & Hr).
      assert (Hs1 : stored (apply_batch (y_store y) w) (y_fin y) = true).
      { unfold stored in *. destruct (get_summary (y_store y) (y_fin y)) as [sm|] eqn:E; [|discriminate]. rewrite (K _ _ E). auto. }
      destruct (IH (do_step y (SWrite w)) I1 Hs1 Hr k) as (D & I2 & S2 & F2). simpl in *. auto.
    + destruct (IH (do_step y (SPubBest id)) I Hs Hf k) as (D & I2 & S2 & F2). simpl in *. auto.
    + destruct Hf as (D0 & Hr).
      assert (Hsf : stored (y_store y) f = true) by (apply anc_summary in D0; destruct D0 as (sm & E); unfold stored; rewrite E; auto).
      destruct (IH (do_step y (SPubFin f)) I Hsf Hr k) as (D & I2 & S2 & F2). simpl in *.
      split; [|split; [auto|split; auto]].
      (* y_fin y -> f -> later *)
      eapply desc_trans; eauto.
      (* lift D0 to the later store: every write of the list keeps summaries *)
      eapply desc_mono; [|exact D0]. rewrite do_steps_store'. simpl. eapply fin_steps_keep; eauto.
Qed.

Lemma firstn_plus {A} (l : list A) : forall a d, firstn (a + d) l = firstn a l ++ firstn d (skipn a l).
Proof. induction l as [|x l IH]; intros a d; destruct a; simpl; auto; [destruct d; auto|f_equal; apply IH]. Qed.

(* C20: successive observations of the finalized pointer never go backwards *)
Theorem fin_observations_ordered c l y k1 k2 :
  wf_cfg c -> Inv c (y_store y) -> stored (y_store y) (y_fin y) = true -> fin_steps c (y_store y) (y_fin y) l -> (k1 <= k2)%nat ->
  let y1 := do_steps y (firstn k1 l) in let y2 := do_steps y (firstn k2 l) in
  desc (y_store y2) (y_fin y1) (y_fin y2).
Proof.
  intros Hc I Hs Hf Hk y1 y2.
  destruct (fin_steps_from_start c l Hc y I Hs Hf k1) as (_ & I1 & S1 & F1). fold y1 in I1, S1, F1.
  assert (E2 : y2 = do_steps y1 (firstn (k2 - k1) (skipn k1 l))).
  { unfold y2, y1, do_steps. rewrite <- fold_left_app. f_equal.
    replace k2 with (k1 + (k2 - k1))%nat at 1 by lia. rewrite firstn_plus. reflexivity. }
  rewrite E2. apply (fin_steps_from_start c (skipn k1 l) Hc y1 I1 S1 F1 (k2 - k1)).
Qed.

(* ---- the steps of every import / history are such steps *)

Lemma keeps_frame s w : (forall o, In o w -> forall i, op_key o <> KSummary i) -> keeps_summaries s (apply_batch s w).
Proof. intros H id sm E. unfold get_summary in *. rewrite get_frame; auto; intros o Ho X; eapply H; eauto. Qed.

Lemma keeps_aux s w : aux_batch w -> keeps_summaries s (apply_batch s w).
Proof. intro Ha. apply keeps_frame. intros o Ho i. apply aux_key_ne with (w := w); auto; discriminate. Qed.

Lemma fin_aux c ws : forall s f r, Inv c s -> (forall w, In w ws -> aux_batch w) ->
  fin_steps c (apply_writes s ws) f r -> fin_steps c s f (map SWrite ws ++ r).
Proof.
  induction ws as [|w t IH]; intros s f r I Ha Hr; simpl; auto.
  assert (Hw : aux_batch w) by (apply Ha; left; auto).
  split; [apply keeps_aux; auto|]. split; [apply aux_batch_inv; auto|].
  apply IH; auto. { apply aux_batch_inv; auto. } intros; apply Ha; right; auto.
Qed.

Lemma import_steps_cases c s b :
  import_steps c s b = [] \/
  (select c s b = None /\ import_steps c s b = map SWrite (state_batches b (conf_of s b))) \/
  (exists ab, main_case c s b ab /\
     import_steps c s b = map SWrite (state_batches b (conf_of s b))
        ++ [SWrite (index_batch b (conf_of s b)); SWrite (block_bulk b (conf_of s b) ab)]
        ++ (if ab then [SPubBest (b_id b)] else [])
        ++ commit_steps c (apply_writes s (pre_writes s b ab)) (b_id b) (b_parent b) (b_just b) (b_comm b)).
Proof.
  unfold import_steps, main_case, pre_writes, conf_of.
  destruct (max_num s + 1 <? num_of (b_id b)); [left; auto|].
  destruct ((0 <? scan_conflicts s (num_of (b_id b))) && stored s (b_id b)); [left; auto|].
  destruct (stored s (b_parent b)); [|left; auto]. cbn [negb].
  destruct (num_of (b_parent b) + 1 =? num_of (b_id b)) eqn:En; [|left; auto]. cbn [negb].
  destruct (accepts c s (b_parent b)); [|left; auto]. cbn [negb].
  destruct (select c s b) as [ab|]; [|right; left; auto].
  right. right. exists ab. apply N.eqb_eq in En. repeat split; auto.
  rewrite !writes_of_steps_app, writes_of_steps_map. rewrite <- !app_assoc.
  destruct ab; cbn [writes_of_steps flat_map app]; rewrite ?app_nil_r; reflexivity.
Qed.

Theorem import_fin_steps c s b r : wf_cfg c -> Inv c s -> wf_blk s b ->
  fin_steps c (run1 c s b) (finalized c (run1 c s b)) r ->
  fin_steps c s (finalized c s) (import_steps c s b ++ r).
Proof.
  intros Hc I Hwf Hr.
  pose proof (finalized_moves_forward c s b Hc I Hwf) as FM. cbn zeta in FM.
  pose proof (import_all_prefixes c s b Hc I Hwf) as AP. unfold import_batches in AP.
  assert (Er : run1 c s b = apply_writes s (writes_of_steps (import_steps c s b))) by reflexivity.
  destruct (import_steps_cases c s b) as [E|[[_ E]|(ab & M & E)]].
  - rewrite E in *. simpl in Er. rewrite Er in Hr. exact Hr.
  - rewrite E in *. rewrite writes_of_steps_map in Er. rewrite Er in Hr.
    assert (Ef : finalized c (apply_writes s (state_batches b (conf_of s b))) = finalized c s).
    { unfold finalized, get_id. rewrite aux_writes_frame; auto. intros; eapply state_batches_aux; eauto. }
    rewrite Ef in Hr. apply fin_aux; auto. intros; eapply state_batches_aux; eauto.
  - rewrite E in *. clear E.
    set (conf := conf_of s b) in *. set (sb := state_batches b conf) in *.
    set (s3 := apply_writes s (pre_writes s b ab)) in *.
    rewrite <- app_assoc. apply fin_aux; auto. { intros; eapply state_batches_aux; eauto. }
    set (s1 := apply_writes s sb).
    assert (I1 : Inv c s1) by (apply all_prefixes_last; apply all_prefixes_step; auto; intros; apply aux_batch_inv; auto; eapply state_batches_aux; eauto).
    set (s2 := apply_batch s1 (index_batch b conf)).
    assert (I2 : Inv c s2) by (apply aux_batch_inv; auto; apply index_batch_aux).
    assert (E3 : s3 = apply_batch s2 (block_bulk b conf ab)).
    { unfold s3, pre_writes. fold conf. fold sb. rewrite apply_writes_app. reflexivity. }
    assert (Ew : writes_of_steps (map SWrite sb ++ [SWrite (index_batch b conf); SWrite (block_bulk b conf ab)]
                   ++ (if ab then [SPubBest (b_id b)] else []) ++ commit_steps c s3 (b_id b) (b_parent b) (b_just b) (b_comm b))
                 = pre_writes s b ab ++ writes_of_steps (commit_steps c s3 (b_id b) (b_parent b) (b_just b) (b_comm b))).
    { rewrite !writes_of_steps_app, writes_of_steps_map.
      replace (writes_of_steps (if ab then [SPubBest (b_id b)] else [])) with (@nil batch) by (destruct ab; reflexivity).
      cbn [writes_of_steps flat_map app]. unfold pre_writes. fold conf. fold sb. rewrite <- app_assoc. reflexivity. }
    rewrite Ew in AP. rewrite Ew in Er.
    assert (I3 : Inv c s3).
    { pose proof (all_prefixes_firstn _ _ _ AP (length (pre_writes s b ab))) as X.
      rewrite firstn_app, firstn_all, PeanoNat.Nat.sub_diag in X. cbn [firstn] in X. rewrite app_nil_r in X. exact X. }
    assert (Hnb : stored s2 (b_id b) = false).
    { unfold s2, s1. rewrite stored_frame by (apply aux_key_ne; [apply index_batch_aux|reflexivity|discriminate]).
      rewrite aux_writes_stored by (intros; eapply state_batches_aux; eauto). eapply main_not_stored; eauto. }
    assert (F2 : finalized c s2 = finalized c s).
    { unfold finalized, get_id, s2, s1. rewrite get_frame by (apply aux_key_ne; [apply index_batch_aux|reflexivity|discriminate]).
      rewrite aux_writes_frame; auto. intros; eapply state_batches_aux; eauto. }
    cbn [app fin_steps]. fold s1.
    split; [apply keeps_aux, index_batch_aux|]. split; [exact I2|]. fold s2.
    split.
    { intros id sm Eid. unfold get_summary. fold (get_summary (apply_batch s2 (block_bulk b conf ab)) id). rewrite bulk_summary.
      destruct (N.eq_dec id (b_id b)) as [->|]; auto. unfold stored in Hnb. rewrite Eid in Hnb. discriminate. }
    rewrite <- E3. split; [exact I3|].
    assert (Hpub : forall l, fin_steps c s3 (finalized c s) l -> fin_steps c s3 (finalized c s) ((if ab then [SPubBest (b_id b)] else []) ++ l))
      by (intros l Hl; destruct ab; simpl; auto).
    rewrite <- app_assoc. apply Hpub.
    assert (F3 : finalized c s3 = finalized c s) by (unfold finalized, get_id, s3; rewrite s3_quality; auto).
    rewrite apply_writes_app in Er. fold s3 in Er.
    unfold commit_steps in *.
    destruct (is_storepoint (c_L c) (num_of (b_id b))); [|simpl in *; rewrite Er, F3 in Hr; exact Hr].
    destruct (quality_of c s3 (b_parent b) (num_of (b_id b)) (b_just b)) as [q|]; [|simpl in *; rewrite Er, F3 in Hr; exact Hr].
    set (wq := [Put (KQuality (b_id b)) (VNum q)]) in *.
    assert (I4 : Inv c (apply_batch s3 wq)) by (apply quality_put_inv; auto; apply s3_stored_b).
    assert (K4 : keeps_summaries s3 (apply_batch s3 wq)) by (apply keeps_frame; intros o [<-|[]] i; discriminate).
    assert (F4 : finalized c (apply_batch s3 wq) = finalized c s).
    { rewrite <- F3. unfold finalized, get_id. rewrite get_frame; auto. intros o [<-|[]]; discriminate. }
    destruct (b_comm b && (1 <? q) && (num_of (finalized c s3) <? checkpoint (c_L c) (num_of (b_id b)))).
    2:{ cbn [app fin_steps writes_of_steps flat_map apply_writes fold_left] in *. split; [exact K4|]. split; [exact I4|].
        rewrite Er, F4 in Hr. exact Hr. }
    destruct (find_checkpoint c (apply_batch s3 wq) (q - 1) (finalized c s3) (b_id b)) as [f|] eqn:Efc.
    2:{ cbn [app fin_steps writes_of_steps flat_map apply_writes fold_left] in *. split; [exact K4|]. split; [exact I4|].
        rewrite Er, F4 in Hr. exact Hr. }
    cbn [fin_steps writes_of_steps flat_map apply_writes fold_left] in *.
    set (wqf := wq ++ [Put KFinalized (VId f)]) in *.
    assert (E5 : apply_batch s3 wqf = apply_batch (apply_batch s3 wq) [Put KFinalized (VId f)]) by (unfold wqf; apply apply_batch_app).
    set (s5 := apply_batch s3 wqf) in *.
    assert (F5 : finalized c s5 = f).
    { rewrite E5. unfold finalized, get_id. rewrite get_apply_batch. simpl. destruct (key_eq_dec KFinalized KFinalized); congruence. }
    cbn [app fin_steps]. fold s5.
    split; [apply keeps_frame; unfold wqf, wq; intros o [<-|[<-|[]]] i; discriminate|].
    split; [rewrite E5; apply finalized_put_inv; auto; eapply find_checkpoint_stored; eauto|].
    assert (Er' : run1 c s b = s5) by (rewrite Er; reflexivity).
    rewrite Er', F5 in FM. split; [exact FM|]. rewrite Er', F5 in Hr. exact Hr.
Qed.

Theorem history_fin_steps c l : forall s, wf_cfg c -> Inv c s -> wf_hist c s l ->
  fin_steps c s (finalized c s) (steps_of c s l).
Proof.
  induction l as [|b r IH]; intros s Hc I Hw; simpl; auto.
  destruct Hw as [Hb Hr]. apply import_fin_steps; auto. apply IH; auto.
  change (Inv c (run1 c s b)). unfold run1. apply all_prefixes_last. apply import_all_prefixes; auto.
Qed.

(* C20: for every history and any two points k1 <= k2 of any interleaving, the finalized block a reader observes at the
   later point is the earlier one or a descendant of it (in the store of the later point) *)
Theorem finalized_observations_monotone c s0 hist b0 k1 k2 :
  wf_cfg c -> Inv c s0 -> wf_hist c s0 hist -> (k1 <= k2)%nat ->
  let y0 := mkSys s0 b0 (finalized c s0) in
  let y1 := do_steps y0 (firstn k1 (steps_of c s0 hist)) in
  let y2 := do_steps y0 (firstn k2 (steps_of c s0 hist)) in
  anc (y_store y2) (y_fin y2) (num_of (y_fin y1)) = Some (y_fin y1).
Proof.
  intros Hc I Hw Hk y0 y1 y2.
  apply (fin_observations_ordered c (steps_of c s0 hist) y0 k1 k2 Hc); auto.
  - simpl. apply finalized_stored; auto.
  - simpl. apply history_fin_steps; auto.
Qed.
