(* Crash/ProofsShape.v — the shape of the writes of one import, and two more invariants of the uninterrupted run:
   every stored store-point block has its quality record (Qinv), every chain-head entry names a stored block (Hinv). *)
From Coq Require Import List NArith Bool Lia.
From Verif Require Import Crash.Model Crash.ProofsStore Crash.ProofsInv Crash.ProofsImport Crash.ProofsCrash Crash.ProofsEqv.
Import ListNotations.
Open Scope N_scope.

Definition wf_cfg2 (c : cfg) : Prop := wf_cfg c /\ 1 < c_L c.

Definition Qinv (c : cfg) (s : store) : Prop :=
  forall id, stored s id = true -> is_storepoint (c_L c) (num_of id) = true -> has s (KQuality id) = true.
Definition Hinv (s : store) : Prop := forall id, has s (KHead id) = true -> stored s id = true.

Record Inv2 (c : cfg) (s : store) : Prop := mkInv2 { i2_inv : Inv c s; i2_q : Qinv c s; i2_h : Hinv s }.

(* ---- the shape of an import *)

Definition main_case (c : cfg) (s : store) (b : blk) (ab : bool) : Prop :=
  (max_num s + 1 <? num_of (b_id b)) = false /\
  ((0 <? scan_conflicts s (num_of (b_id b))) && stored s (b_id b)) = false /\
  stored s (b_parent b) = true /\
  num_of (b_parent b) + 1 = num_of (b_id b) /\
  accepts c s (b_parent b) = true /\
  select c s b = Some ab.

Definition conf_of (s : store) (b : blk) : N := scan_conflicts s (num_of (b_id b)).
Definition pre_writes (s : store) (b : blk) (ab : bool) : list batch :=
  state_batches b (conf_of s b) ++ [index_batch b (conf_of s b); block_bulk b (conf_of s b) ab].
Definition commit_writes (c : cfg) (s : store) (b : blk) (ab : bool) : list batch :=
  writes_of_steps (commit_steps c (apply_writes s (pre_writes s b ab)) (b_id b) (b_parent b) (b_just b) (b_comm b)).

Lemma import_cases c s b :
  import_batches c s b = [] \/
  (select c s b = None /\ import_batches c s b = state_batches b (conf_of s b)) \/
  (exists ab, main_case c s b ab /\ import_batches c s b = pre_writes s b ab ++ commit_writes c s b ab).
Proof.
  unfold import_batches, import_steps, main_case, commit_writes, pre_writes, conf_of.
  destruct (max_num s + 1 <? num_of (b_id b)); [left; auto|].
  destruct ((0 <? scan_conflicts s (num_of (b_id b))) && stored s (b_id b)); [left; auto|].
  destruct (stored s (b_parent b)); [|left; auto]. cbn [negb].
  destruct (num_of (b_parent b) + 1 =? num_of (b_id b)) eqn:En; [|left; auto]. cbn [negb].
  destruct (accepts c s (b_parent b)); [|left; auto]. cbn [negb].
  destruct (select c s b) as [ab|].
  - right. right. exists ab. apply N.eqb_eq in En. repeat split; auto.
    rewrite !writes_of_steps_app, writes_of_steps_map.
    replace (writes_of_steps (if ab then [SPubBest (b_id b)] else [])) with (@nil batch) by (destruct ab; reflexivity).
    cbn [writes_of_steps flat_map app]. reflexivity.
  - right. left. split; auto. apply writes_of_steps_map.
Qed.

Lemma main_not_stored c s b ab : main_case c s b ab -> stored s (b_id b) = false.
Proof.
  intros (_ & H & _). destruct (stored s (b_id b)) eqn:E; auto.
  pose proof (scan_conflicts_pos s (b_id b) E) as P. apply N.ltb_lt in P. rewrite P in H. discriminate.
Qed.

(* the commit part is nothing, or ONE batch: the quality record, alone or together with the finalized record *)
Lemma commit_shape c s id parent just comm :
  let cw := writes_of_steps (commit_steps c s id parent just comm) in
  cw = [] \/
  (exists q, cw = [[Put (KQuality id) (VNum q)]] /\ is_storepoint (c_L c) (num_of id) = true) \/
  (exists q f, cw = [[Put (KQuality id) (VNum q); Put KFinalized (VId f)]] /\ is_storepoint (c_L c) (num_of id) = true).
Proof.
  unfold commit_steps. destruct (is_storepoint (c_L c) (num_of id)); [|left; auto].
  destruct (quality_of c s parent (num_of id) just) as [q|]; [|left; auto].
  destruct (comm && (1 <? q) && (num_of (finalized c s) <? checkpoint (c_L c) (num_of id))).
  - destruct (find_checkpoint c _ (q - 1) (finalized c s) id) as [f|].
    + right. right. exists q, f. split; auto.
    + right. left. exists q. split; auto.
  - right. left. exists q. split; auto.
Qed.

Lemma commit_nonempty_at_storepoint c s id parent just comm :
  Inv c s -> wf_cfg c -> stored s parent = true -> num_of parent + 1 = num_of id ->
  is_storepoint (c_L c) (num_of id) = true ->
  exists q t, writes_of_steps (commit_steps c s id parent just comm) = [Put (KQuality id) (VNum q) :: t].
Proof.
  intros I Hc Hp Hn Hsp. unfold commit_steps. rewrite Hsp.
  assert (exists q, quality_of c s parent (num_of id) just = Some q) as (q & Eq).
  { unfold quality_of. destruct (num_of id / c_L c =? 0); [eauto|].
    destruct (anc_total c s parent (checkpoint (c_L c) (num_of id) - 1) Hc I Hp) as (a & Ha).
    - unfold checkpoint. destruct Hc as [_ HL].
      assert (num_of id / c_L c * c_L c <= num_of id) by (rewrite N.mul_comm; apply N.mul_div_le; lia). lia.
    - rewrite Ha. eauto. }
  rewrite Eq.
  destruct (comm && (1 <? q) && (num_of (finalized c s) <? checkpoint (c_L c) (num_of id)));
    [destruct (find_checkpoint c _ (q - 1) (finalized c s) id)|]; cbn [writes_of_steps flat_map app]; eauto.
Qed.

(* ---- what the batches of an import do to chain-head entries and quality records *)

Lemma aux_writes_frame s ws k : (forall w, In w ws -> aux_batch w) -> aux_key k = false -> get (apply_writes s ws) k = get s k.
Proof.
  intros H Hk. apply get_frame_writes. intros w o Hw Ho E. specialize (H w Hw o Ho).
  destruct o as [k' v|k']; simpl in *; subst; destruct k; simpl in *; try discriminate.
Qed.

Lemma aux_writes_eqv_na s ws : (forall w, In w ws -> aux_batch w) -> eqv_na s (apply_writes s ws).
Proof. intros H k Hk. symmetry. apply aux_writes_frame; auto. Qed.

Lemma bulk_head_ops b conf ab o : In o (block_bulk b conf ab) -> is_head (op_key o) = true ->
  o = Del (KHead (b_parent b)) \/ o = Put (KHead (b_id b)) (VBlob 0).
Proof.
  unfold block_bulk. intros H Hh.
  apply in_app_or in H. destruct H as [H|H].
  { apply in_flat_map in H. destruct H as (it & _ & H). simpl in H. destruct H as [<-|[<-|[<-|[]]]]; discriminate. }
  apply in_app_or in H. destruct H as [H|H].
  { apply in_map_iff in H. destruct H as (it & <- & _). discriminate. }
  apply in_app_or in H. destruct H as [H|H].
  { simpl in H. destruct H as [<-|[<-|[<-|[]]]]; auto. discriminate. }
  destruct ab; simpl in H; [destruct H as [<-|[]]; discriminate|destruct H].
Qed.

Lemma bulk_has_head s b conf ab x :
  has (apply_batch s (block_bulk b conf ab)) (KHead x) = true -> x = b_id b \/ has s (KHead x) = true.
Proof.
  unfold has. rewrite get_apply_batch. destruct (last_op (KHead x) (block_bulk b conf ab)) as [o|] eqn:E; auto.
  destruct (last_op_some_in _ _ _ E) as [Hin Hk].
  destruct (bulk_head_ops b conf ab o Hin) as [->| ->]; [rewrite Hk; auto| |].
  - discriminate.
  - simpl in Hk. inversion Hk. auto.
Qed.

Lemma bulk_puts_head s b conf ab : b_parent b <> b_id b -> has (apply_batch s (block_bulk b conf ab)) (KHead (b_id b)) = true.
Proof.
  intro Hne. eapply has_put_in with (v := VBlob 0).
  - unfold block_bulk. apply in_or_app. right. apply in_or_app. right. apply in_or_app. left. simpl. auto.
  - intros o Ho E. subst. destruct (bulk_head_ops b conf ab _ Ho eq_refl) as [H|H]; inversion H. congruence.
Qed.

Lemma commit_frame c s0 s id parent just comm k :
  (forall i, k <> KQuality i) -> k <> KFinalized ->
  get (apply_writes s (writes_of_steps (commit_steps c s0 id parent just comm))) k = get s k.
Proof.
  intros H1 H2. apply get_frame_writes. intros w o Hw Ho E.
  destruct (commit_writes_keys _ _ _ _ _ _ _ _ Hw Ho) as [X|X]; rewrite X in E; subst; [eapply H1; eauto|congruence].
Qed.

Lemma commit_nd c s id parent just comm w : In w (writes_of_steps (commit_steps c s id parent just comm)) -> nd_batch w.
Proof.
  intros Hw o Ho. destruct (commit_shape c s id parent just comm) as [E|[(q & E & _)|(q & f & E & _)]];
    rewrite E in Hw; simpl in Hw.
  - destruct Hw.
  - destruct Hw as [<-|[]]. destruct Ho as [<-|[]]. reflexivity.
  - destruct Hw as [<-|[]]. destruct Ho as [<-|[<-|[]]]; reflexivity.
Qed.

Lemma commit_has_quality c s st id parent just comm :
  Inv c s -> wf_cfg c -> stored s parent = true -> num_of parent + 1 = num_of id ->
  is_storepoint (c_L c) (num_of id) = true ->
  has (apply_writes st (writes_of_steps (commit_steps c s id parent just comm))) (KQuality id) = true.
Proof.
  intros I Hc Hp Hn Hsp.
  destruct (commit_nonempty_at_storepoint c s id parent just comm I Hc Hp Hn Hsp) as (q & t & Er).
  pose proof (commit_nd c s id parent just comm (Put (KQuality id) (VNum q) :: t)) as Hnd. rewrite Er in *.
  cbn [apply_writes fold_left]. eapply has_put_in with (v := VNum q); [left; reflexivity|].
  apply nd_no_del; auto. apply Hnd. left. reflexivity.
Qed.

Lemma pre_writes_nd s b ab w : In w (pre_writes s b ab) -> nd_batch w.
Proof.
  unfold pre_writes. intro H. apply in_app_or in H. destruct H as [H|[<-|[<-|[]]]].
  - apply aux_nd. eapply state_batches_aux; eauto.
  - apply aux_nd, index_batch_aux.
  - apply bulk_nd.
Qed.

(* the store after the state commit, the index commit and the block bulk *)
Section AfterBulk.
  Variables (c : cfg) (s : store) (b : blk) (ab : bool).
  Let conf := conf_of s b.
  Let s2 := apply_writes s (state_batches b conf ++ [index_batch b conf]).
  Let s3 := apply_writes s (pre_writes s b ab).

  Lemma s3_eq : s3 = apply_batch s2 (block_bulk b conf ab).
  Proof.
    unfold s3, s2, pre_writes. fold conf.
    replace (state_batches b conf ++ [index_batch b conf; block_bulk b conf ab])
      with ((state_batches b conf ++ [index_batch b conf]) ++ [block_bulk b conf ab]) by (rewrite <- app_assoc; reflexivity).
    rewrite apply_writes_app. reflexivity.
  Qed.

  Lemma s2_aux : forall w, In w (state_batches b conf ++ [index_batch b conf]) -> aux_batch w.
  Proof. intros w Hw. apply in_app_or in Hw. destruct Hw as [Hw|[<-|[]]]; [eapply state_batches_aux; eauto|apply index_batch_aux]. Qed.

  Lemma s2_na k : aux_key k = false -> get s2 k = get s k.
  Proof. intro Hk. apply aux_writes_frame; auto. apply s2_aux. Qed.

  Lemma s3_summary i : get_summary s3 i = if N.eq_dec i (b_id b) then Some (summary_of b conf) else get_summary s i.
  Proof. rewrite s3_eq, bulk_summary. destruct (N.eq_dec i (b_id b)); auto. unfold get_summary. rewrite s2_na; auto. Qed.

  Lemma s3_stored i : stored s3 i = true -> i = b_id b \/ stored s i = true.
  Proof. unfold stored. rewrite s3_summary. destruct (N.eq_dec i (b_id b)); auto. Qed.

  Lemma s3_stored_mono i : stored s i = true -> stored s3 i = true.
  Proof. unfold stored. rewrite s3_summary. destruct (N.eq_dec i (b_id b)); auto. Qed.

  Lemma s3_stored_b : stored s3 (b_id b) = true.
  Proof. unfold stored. rewrite s3_summary. destruct (N.eq_dec (b_id b) (b_id b)); congruence. Qed.

  Lemma s3_quality k : (exists i, k = KQuality i) \/ k = KFinalized -> get s3 k = get s k.
  Proof.
    intro Hk. rewrite s3_eq, bulk_other_frame; [apply s2_na|]; destruct Hk as [(i & ->)| ->]; simpl; auto.
  Qed.

  Lemma s3_head x : has s3 (KHead x) = true -> x = b_id b \/ has s (KHead x) = true.
  Proof.
    rewrite s3_eq. intro H. destruct (bulk_has_head _ _ _ _ _ H) as [->|H']; auto.
    right. unfold has in *. rewrite s2_na in H'; auto.
  Qed.

  Lemma s3_head_b : b_parent b <> b_id b -> has s3 (KHead (b_id b)) = true.
  Proof. intro H. rewrite s3_eq. apply bulk_puts_head; auto. Qed.

  Lemma s3_mono k : is_head k = false -> has s k = true -> has s3 k = true.
  Proof. intros Hk H. apply has_mono_writes; auto. apply pre_writes_nd. Qed.
End AfterBulk.

(* ---- Inv2 along the uninterrupted run *)

Lemma Qinv_na c s s' : eqv_na s s' -> Qinv c s -> Qinv c s'.
Proof. intros E Q id Hs Hp. rewrite <- (na_stored s s' E) in Hs. rewrite <- (na_has s s' E); auto. Qed.
Lemma Hinv_na s s' : eqv_na s s' -> Hinv s -> Hinv s'.
Proof. intros E H id Hh. rewrite <- (na_has s s' E) in Hh; auto. rewrite <- (na_stored s s' E). auto. Qed.

Lemma run1_eq_cases c s b :
  run1 c s b = s \/
  (run1 c s b = apply_writes s (state_batches b (conf_of s b))) \/
  (exists ab, main_case c s b ab /\ run1 c s b = apply_writes (apply_writes s (pre_writes s b ab)) (commit_writes c s b ab)).
Proof.
  unfold run1. destruct (import_cases c s b) as [E|[[_ E]|(ab & M & E)]]; rewrite E.
  - left; auto.
  - right; left; auto.
  - right; right. exists ab. split; auto. apply apply_writes_app.
Qed.

Theorem run1_inv2 c s b : wf_cfg2 c -> Inv2 c s -> wf_blk s b -> Inv2 c (run1 c s b).
Proof.
  intros [Hc HL] [I Q H] Hwf.
  assert (I' : Inv c (run1 c s b)) by (unfold run1; apply all_prefixes_last; apply import_all_prefixes; auto).
  destruct (run1_eq_cases c s b) as [E|[E|(ab & M & E)]].
  - rewrite E. constructor; auto.
  - constructor; auto; rewrite E.
    + eapply Qinv_na; [|exact Q]. apply aux_writes_eqv_na. intros; eapply state_batches_aux; eauto.
    + eapply Hinv_na; [|exact H]. apply aux_writes_eqv_na. intros; eapply state_batches_aux; eauto.
  - destruct M as (M1 & M2 & Mp & Mn & Ma & Ms).
    set (s3 := apply_writes s (pre_writes s b ab)) in *.
    assert (I3 : Inv c s3).
    { pose proof (import_all_prefixes c s b Hc I Hwf) as AP.
      destruct (import_cases c s b) as [E0|[[E0 _]|(ab' & M' & E0)]].
      - exfalso. unfold import_batches, import_steps in E0. rewrite M1, M2, Mp in E0. cbn [negb] in E0.
        apply N.eqb_eq in Mn. rewrite Mn, Ma in E0. cbn [negb] in E0. rewrite Ms in E0.
        rewrite !writes_of_steps_app, writes_of_steps_map in E0. destruct (state_batches b _); discriminate.
      - congruence.
      - destruct M' as (_ & _ & _ & _ & _ & Ms'). rewrite Ms in Ms'. inversion Ms'; subst ab'.
        rewrite E0 in AP. pose proof (all_prefixes_firstn _ _ _ AP (length (pre_writes s b ab))) as X.
        rewrite firstn_app, firstn_all, PeanoNat.Nat.sub_diag in X. cbn [firstn] in X. rewrite app_nil_r in X. exact X. }
    assert (Hne : b_parent b <> b_id b) by (intro X; rewrite X in Mn; lia).
    constructor; auto; rewrite E; unfold commit_writes; fold s3.
    + (* Qinv *)
      intros id Hs Hsp.
      assert (Hs3 : stored s3 id = true).
      { unfold stored, get_summary in *. rewrite commit_frame in Hs; auto; discriminate. }
      destruct (s3_stored s b ab id Hs3) as [->|Hold].
      * apply commit_has_quality; auto. apply s3_stored_mono; auto.
      * apply has_mono_writes; auto. { intros w Hw. eapply commit_nd; eauto. }
        apply s3_mono; auto.
    + (* Hinv *)
      intros id Hh. unfold has in Hh. rewrite commit_frame in Hh by discriminate.
      unfold stored, get_summary. rewrite commit_frame by discriminate.
      destruct (s3_head s b ab id Hh) as [->|Hold].
      * apply s3_stored_b.
      * apply s3_stored_mono. auto.
Qed.

Lemma run_inv2 c l : forall s, wf_cfg2 c -> Inv2 c s -> wf_hist c s l -> Inv2 c (run c s l).
Proof.
  induction l as [|b r IH]; intros s Hc I Hw; simpl; auto.
  destruct Hw as [Hb Hr]. apply IH; auto. apply run1_inv2; auto.
Qed.

Lemma genesis_inv2 L g : 1 < L -> num_of (b_id g) = 0 -> b_skeep g = [] -> b_ikeep g = [] ->
  Inv2 (mkCfg L (b_id g)) (genesis_store g).
Proof.
  intros HL Hn Hk Hi. constructor; [apply genesis_inv; auto| |].
  - intros id Hs Hsp. change (genesis_store g) with (apply_writes [] (pre_writes [] g true)) in Hs.
    destruct (s3_stored [] g true id Hs) as [->|Hold]; [|discriminate].
    exfalso. unfold is_storepoint, storepoint, checkpoint in Hsp. cbn [c_L] in Hsp. rewrite Hn in Hsp.
    rewrite N.div_0_l in Hsp by lia. apply N.eqb_eq in Hsp. lia.
  - intros id Hh. change (genesis_store g) with (apply_writes [] (pre_writes [] g true)) in *.
    destruct (s3_head [] g true id Hh) as [->|Hold]; [apply s3_stored_b|discriminate].
Qed.
