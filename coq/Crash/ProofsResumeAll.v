(* Crash/ProofsResumeAll.v — the resume clause of C13 for ALL histories (with the F6 repair in NewEngine):
   after any cut, restart and resumption of the same stream from the interrupted block, the store is equivalent to the
   uninterrupted run's (same stored set, best pointer, quality records, finalized record).  With the quality record and
   the finalized record in one batch (F13 repair) there is no cut between them and no exception. *)
From Coq Require Import List NArith Bool Lia.
From Verif Require Import Crash.Model Crash.ProofsStore Crash.ProofsInv Crash.ProofsImport Crash.ProofsCrash
  Crash.ProofsEqv Crash.ProofsShape.
Import ListNotations.
Open Scope N_scope.

(* ---- writing a prefix of a write list and then the whole list is the same as writing the list *)

Lemma apply_writes_concat ws : forall s, apply_writes s ws = apply_batch s (concat ws).
Proof.
  induction ws as [|w r IH]; intro s; simpl; auto.
  rewrite apply_batch_app. apply IH.
Qed.

Lemma last_op_none_inv k w : last_op k w = None -> forall o, In o w -> op_key o <> k.
Proof.
  induction w as [|x w IH]; simpl; [tauto|].
  destruct (last_op k w) as [y|]; [discriminate|].
  destruct (key_eq_dec k (op_key x)); [discriminate|].
  intros _ o [<-|Ho]; auto.
Qed.

Lemma in_concat_firstn {A} j (ws : list (list A)) o : In o (concat (firstn j ws)) -> In o (concat ws).
Proof.
  revert j. induction ws as [|w r IH]; intros j H; destruct j; simpl in *; try tauto.
  apply in_app_or in H. apply in_or_app. destruct H; [left; auto|right; eapply IH; eauto].
Qed.

Lemma in_firstn {A} j (l : list A) x : In x (firstn j l) -> In x l.
Proof. revert j. induction l as [|a l IH]; intros j H; destruct j; simpl in *; try tauto. destruct H; auto. right; eapply IH; eauto. Qed.

Lemma prefix_then_all s ws j : eqv (apply_writes (apply_writes s (firstn j ws)) ws) (apply_writes s ws).
Proof.
  intro k. rewrite !apply_writes_concat, !get_apply_batch.
  destruct (last_op k (concat ws)) as [o|] eqn:E; auto.
  rewrite last_op_none; auto.
  intros o Ho. eapply last_op_none_inv; eauto. eapply in_concat_firstn; eauto.
Qed.

(* ---- restart on a store where nothing is pending *)

Lemma head_keys_put s id v : In id (head_keys (Put (KHead id) v :: s)).
Proof.
  simpl. destruct (existsb (N.eqb id) (head_keys s)) eqn:Ex; [|left; auto].
  apply existsb_exists in Ex. destruct Ex as (x & Hx & Ex). apply N.eqb_eq in Ex. subst. auto.
Qed.

Lemma head_keys_mono s o id : In id (head_keys s) -> In id (head_keys (o :: s)).
Proof.
  intro H. destruct o as [k v|k]; simpl; auto. destruct k; auto.
  destruct (existsb (N.eqb id0) (head_keys s)); auto. right; auto.
Qed.

Lemma has_head_in_keys s id : has s (KHead id) = true -> In id (head_keys s).
Proof.
  unfold has. induction s as [|o r IH]; [simpl; discriminate|].
  cbn [get]. destruct o as [k v|k].
  - destruct (key_eq_dec (KHead id) k) as [<-|Hne].
    + intros _. apply head_keys_put.
    + intro H. apply head_keys_mono. auto.
  - destruct (key_eq_dec (KHead id) k) as [<-|Hne]; [discriminate|].
    intro H. apply head_keys_mono. auto.
Qed.

Lemma scan_heads_in s from id : In id (scan_heads s from) <-> In id (head_keys s) /\ has s (KHead id) = true /\ from <= num_of id.
Proof.
  unfold scan_heads. rewrite filter_In, andb_true_iff, N.leb_le. tauto.
Qed.

Lemma repair_one_nil c s h : (is_storepoint (c_L c) (num_of h) = true -> has s (KQuality h) = true) -> repair_one c s h = [].
Proof.
  intro H. unfold repair_one. destruct (is_storepoint (c_L c) (num_of h)); auto. rewrite H; auto.
Qed.

Lemma fold_repair_noop c heads s :
  (forall h, In h heads -> repair_one c s h = []) ->
  fold_left (fun st id => apply_writes st (repair_one c st id)) heads s = s.
Proof.
  induction heads as [|h r IH]; intro H; simpl; auto.
  rewrite (H h) by (left; auto). simpl. apply IH. intros; apply H; right; auto.
Qed.

Lemma restart_store_noop c s : Qinv c s -> Hinv s -> restart_store c true s = s.
Proof.
  intros Q H. unfold restart_store. apply fold_repair_noop.
  intros h Hh. apply scan_heads_in in Hh. destruct Hh as (_ & Hhas & _).
  apply repair_one_nil. intro Hsp. apply Q; auto.
Qed.

Lemma restart_shape c s : wf_cfg c -> Inv c s ->
  exists best, get_id s KBest = Some best /\ restart c true s = Some (restart_store c true s, best, finalized c (restart_store c true s)).
Proof.
  intros Hc I. destruct (inv_best c s I) as (best & Hb & Hs). exists best. split; auto.
  unfold restart. rewrite Hb, Hs.
  destruct (anc_total c s best 0 Hc I Hs) as (a & Ha); [lia|]. rewrite Ha.
  assert (a = c_g c) by (eapply ancestor_genesis; eauto). subst a. rewrite N.eqb_refl. reflexivity.
Qed.

Lemma resume_eq c s rest : wf_cfg c -> Inv c s -> resume c true s rest = Some (run c (restart_store c true s) rest).
Proof. intros Hc I. unfold resume. destruct (restart_shape c s Hc I) as (best & _ & ->). reflexivity. Qed.

(* a block that is stored is skipped when it is delivered again *)
Lemma known_is_noop c s b : stored s (b_id b) = true -> import_batches c s b = [].
Proof.
  intro Hs. unfold import_batches, import_steps.
  destruct (max_num s + 1 <? num_of (b_id b)); auto.
  pose proof (scan_conflicts_pos s (b_id b) Hs) as P. apply N.ltb_lt in P. rewrite P, Hs. reflexivity.
Qed.

Lemma known_run1 c s b : stored s (b_id b) = true -> run1 c s b = s.
Proof. intro H. unfold run1. rewrite known_is_noop; auto. Qed.

(* ---- case A: the cut lies before the block bulk (only trie nodes / code of the block have been written) *)

Theorem resume_before_bulk c s b rest j ws :
  wf_cfg c -> Inv2 c s -> (forall w, In w ws -> aux_batch w) ->
  (exists tl, import_batches c s b = ws ++ tl) ->
  let s' := apply_writes s (firstn j ws) in
  Inv c s' ->
  exists r, resume c true s' (b :: rest) = Some r /\ eqv r (run c s (b :: rest)).
Proof.
  intros Hc [I Q H] Haux (tl & EW) s' I'.
  assert (Ena : eqv_na s s').
  { apply aux_writes_eqv_na. intros w Hw. apply Haux. eapply in_firstn; eauto. }
  rewrite resume_eq; auto. eexists; split; [reflexivity|].
  rewrite restart_store_noop; [|eapply Qinv_na; eauto|eapply Hinv_na; eauto].
  cbn [run fold_left]. apply eqv_run.
  unfold run1. rewrite <- (na_import_batches s s' c b Ena).
  unfold s'. rewrite EW.
  replace (firstn j ws) with (firstn (min j (length ws)) (ws ++ tl)).
  - apply prefix_then_all.
  - rewrite firstn_app. replace (min j (length ws) - length ws)%nat with 0%nat by lia.
    cbn [firstn]. rewrite app_nil_r, <- firstn_firstn, firstn_all. reflexivity.
Qed.

(* ---- case B: the cut lies right after the block bulk; the commit of the bft engine (quality, finalized) is pending *)

Lemma ancestor_le fuel s : forall id n a, ancestor fuel s id n = Some a -> n <= num_of id.
Proof.
  induction fuel as [|f IH]; intros id n a; simpl; destruct (get_summary s id) as [sm|]; try discriminate;
    destruct (num_of id =? n) eqn:E1; try (intros _; apply N.eqb_eq in E1; lia);
    destruct (num_of id <? n) eqn:E2; try discriminate.
  intro H. apply N.ltb_ge in E2. lia.
Qed.

Lemma fold_repair_one c x s3 s4 : forall heads,
  (forall h, In h heads -> h <> x -> repair_one c s3 h = [] /\ repair_one c s4 h = []) ->
  apply_writes s3 (repair_one c s3 x) = s4 -> repair_one c s4 x = [] -> In x heads ->
  fold_left (fun st id => apply_writes st (repair_one c st id)) heads s3 = s4.
Proof.
  induction heads as [|h r IH]; intros Ho E3 E4 Hin; [destruct Hin|].
  cbn [fold_left]. destruct (N.eq_dec h x) as [->|Hne].
  - rewrite E3. apply fold_repair_noop. intros h' Hh'. destruct (N.eq_dec h' x) as [->|Hn']; auto.
    apply Ho; auto. right; auto.
  - destruct (Ho h (or_introl eq_refl) Hne) as [-> _]. cbn [apply_writes fold_left].
    apply IH; auto.
    + intros h' Hh' Hn'. apply Ho; auto. right; auto.
    + destruct Hin as [->|Hin]; [congruence|auto].
Qed.

Section PendingCommit.
  Variables (c : cfg) (s : store) (b : blk) (ab : bool).
  Hypothesis Hc : wf_cfg2 c.
  Hypothesis I2 : Inv2 c s.
  Hypothesis M : main_case c s b ab.
  Hypothesis I3 : Inv c (apply_writes s (pre_writes s b ab)).
  Let x := b_id b.
  Let s3 := apply_writes s (pre_writes s b ab).
  Let cw := commit_writes c s b ab.

  Lemma pc_parent_ne : b_parent b <> b_id b.
  Proof. destruct M as (_ & _ & _ & Mn & _). intro X. rewrite X in Mn. lia. Qed.

  Lemma pc_no_quality : has s3 (KQuality x) = false.
  Proof.
    unfold has. unfold s3. rewrite s3_quality by (left; eauto).
    destruct (get s (KQuality x)) eqn:E; auto.
    assert (Hh : has s (KQuality x) = true) by (unfold has; rewrite E; auto).
    pose proof (inv_quality c s (i2_inv c s I2) x Hh) as Hs. unfold x in Hs. rewrite (main_not_stored c s b ab M) in Hs. discriminate.
  Qed.

  Lemma pc_repair_x : is_storepoint (c_L c) (num_of x) = true -> repair_one c s3 x = cw.
  Proof.
    intro Hsp. unfold repair_one. rewrite Hsp, pc_no_quality. cbn [negb andb].
    unfold s3. rewrite s3_summary. destruct (N.eq_dec x (b_id b)) as [_|Hn]; [|exfalso; apply Hn; reflexivity]. reflexivity.
  Qed.

  Lemma pc_fin : finalized c s3 = finalized c s.
  Proof. unfold finalized, get_id, s3. rewrite s3_quality; auto. Qed.

  Lemma pc_x_in_heads : In x (scan_heads s3 (num_of (finalized c s3))).
  Proof.
    assert (Hh : has s3 (KHead x) = true) by (apply s3_head_b, pc_parent_ne).
    apply scan_heads_in. split; [apply has_head_in_keys; auto|]. split; auto.
    rewrite pc_fin. destruct M as (_ & _ & _ & Mn & Ma & _). unfold accepts in Ma.
    destruct (num_of (finalized c s) =? 0) eqn:E0; [apply N.eqb_eq in E0; lia|].
    destruct (anc s (b_parent b) (num_of (finalized c s))) as [a|] eqn:Ea; [|discriminate].
    apply ancestor_le in Ea. unfold x. lia.
  Qed.

  Lemma pc_others st h : (forall k, is_head k = false -> has s3 k = true -> has st k = true) ->
    has s3 (KHead h) = true -> h <> x -> repair_one c st h = [].
  Proof.
    intros Mono Hh Hne. apply repair_one_nil. intro Hsp. apply Mono; auto.
    destruct (s3_head s b ab h Hh) as [->|Hold]; [exfalso; apply Hne; reflexivity|].
    apply s3_mono; auto. apply (i2_q c s I2); auto. apply (i2_h c s I2); auto.
  Qed.

  Lemma pc_cw_nd : forall w, In w cw -> nd_batch w.
  Proof. intros w Hw. eapply commit_nd; eauto. Qed.

  Lemma pc_stored_x st : (forall k, (forall i, k <> KQuality i) -> k <> KFinalized -> get st k = get s3 k) -> stored st x = true.
  Proof. intro F. unfold stored, get_summary. rewrite F by discriminate. apply (s3_stored_b s b ab). Qed.

  (* restart re-runs the pending commit: the store becomes the one of the completed import *)
  Lemma pc_restart : cw <> [] -> restart_store c true s3 = apply_writes s3 cw.
  Proof.
    intro Hne.
    assert (Hsp : is_storepoint (c_L c) (num_of x) = true).
    { destruct (commit_shape c s3 x (b_parent b) (b_just b) (b_comm b)) as [E|[(q & _ & E)|(q & f & _ & E)]]; auto; exfalso; apply Hne; exact E. }
    unfold restart_store. apply fold_repair_one with (x := x).
    - intros h Hh Hn. apply scan_heads_in in Hh. destruct Hh as (_ & Hhas & _). split.
      + apply pc_others; auto.
      + apply pc_others; auto. intros k Hk Hs. apply has_mono_writes; auto. apply pc_cw_nd.
    - rewrite pc_repair_x; auto.
    - apply repair_one_nil. intros _.
      destruct Hc as [Hc1 _]. destruct M as (_ & _ & Mp & Mn & _).
      unfold cw, commit_writes. fold s3. apply commit_has_quality; auto. apply s3_stored_mono; auto.
    - apply pc_x_in_heads.
  Qed.
End PendingCommit.

(* ---- one import, every cut inside it *)

Theorem resume_within_import c s b rest j :
  wf_cfg2 c -> Inv2 c s -> wf_blk s b -> (j < length (import_batches c s b))%nat ->
  let s' := apply_writes s (firstn j (import_batches c s b)) in
  exists r, resume c true s' (b :: rest) = Some r /\ eqv r (run c s (b :: rest)).
Proof.
  intros Hc2 I2 Hwf Hj s'. destruct Hc2 as [Hc HL]. pose proof (i2_inv c s I2) as I.
  pose proof (import_all_prefixes c s b Hc I Hwf) as AP.
  assert (I' : Inv c s') by (apply all_prefixes_firstn; auto).
  destruct (import_cases c s b) as [E|[[_ E]|(ab & M & E)]].
  - rewrite E in Hj. simpl in Hj. lia.
  - (* bft select failed after the state commit: only state batches *)
    destruct (resume_before_bulk c s b rest j (state_batches b (conf_of s b)) Hc I2) as (r & Hr & Er).
    + intros; eapply state_batches_aux; eauto.
    + exists []. rewrite app_nil_r. auto.
    + unfold s' in I'. rewrite E in I'. exact I'.
    + exists r. split; auto. unfold s'. rewrite E. exact Hr.
  - set (sb := state_batches b (conf_of s b)) in *.
    set (ws := sb ++ [index_batch b (conf_of s b)]).
    set (bulk := block_bulk b (conf_of s b) ab).
    set (cw := commit_writes c s b ab) in *.
    assert (Epre : pre_writes s b ab = ws ++ [bulk]) by (unfold pre_writes, ws; rewrite <- app_assoc; reflexivity).
    assert (EW : import_batches c s b = ws ++ bulk :: cw) by (rewrite E, Epre, <- app_assoc; reflexivity).
    assert (Hws : forall w, In w ws -> aux_batch w) by (apply s2_aux).
    destruct (PeanoNat.Nat.le_gt_cases j (length ws)) as [Hle|Hgt].
    + (* before the block bulk *)
      destruct (resume_before_bulk c s b rest j ws Hc I2 Hws) as (r & Hr & Er).
      * exists (bulk :: cw). exact EW.
      * unfold s' in I'. rewrite EW, firstn_app in I'. replace (j - length ws)%nat with 0%nat in I' by lia.
        cbn [firstn] in I'. rewrite app_nil_r in I'. exact I'.
      * exists r. split; auto. unfold s'. rewrite EW, firstn_app. replace (j - length ws)%nat with 0%nat by lia.
        cbn [firstn]. rewrite app_nil_r. exact Hr.
    + set (s3 := apply_writes s (pre_writes s b ab)).
      assert (Lpre : length (pre_writes s b ab) = S (length ws)) by (rewrite Epre, app_length; simpl; lia).
      assert (I3 : Inv c s3).
      { pose proof (all_prefixes_firstn _ _ _ AP (length (pre_writes s b ab))) as X.
        rewrite E, firstn_app, firstn_all, PeanoNat.Nat.sub_diag in X. cbn [firstn] in X. rewrite app_nil_r in X. exact X. }
      assert (Hx3 : stored s3 (b_id b) = true) by apply s3_stored_b.
      assert (Lw : length (import_batches c s b) = (S (length ws) + length cw)%nat) by (rewrite E, app_length, Lpre; reflexivity).
      (* the commit is at most one batch: the only cut left is right after the block bulk *)
      assert (Lcw : (length cw <= 1)%nat).
      { destruct (commit_shape c s3 (b_id b) (b_parent b) (b_just b) (b_comm b)) as [Ec|[(q & Ec & _)|(q & f & Ec & _)]];
          fold s3 in Ec; change (writes_of_steps (commit_steps c s3 (b_id b) (b_parent b) (b_just b) (b_comm b))) with cw in Ec;
          rewrite Ec; simpl; lia. }
      assert (Ej : j = S (length ws)) by lia.
      assert (Es' : s' = s3).
      { assert (Ejp : j = length (pre_writes s b ab)) by lia.
        unfold s', s3. rewrite E, Ejp, firstn_app, firstn_all, PeanoNat.Nat.sub_diag. cbn [firstn]. rewrite app_nil_r. reflexivity. }
      assert (Hcw : cw <> []) by (intro X; rewrite X in Lw; simpl in Lw; lia).
      rewrite Es'. rewrite resume_eq; auto. eexists; split; [reflexivity|].
      unfold s3. rewrite (pc_restart c s b ab (conj Hc HL) I2 M I3 Hcw).
      cbn [run fold_left].
      assert (Er1 : run1 c s b = apply_writes (apply_writes s (pre_writes s b ab)) (commit_writes c s b ab))
        by (unfold run1; rewrite E; apply apply_writes_app).
      rewrite <- Er1. rewrite (known_run1 c (run1 c s b) b).
      { apply eqv_refl. }
      rewrite Er1. unfold stored, get_summary. unfold commit_writes. rewrite commit_frame by discriminate. exact Hx3.
Qed.

(* ---- every history, every cut *)

Lemma writes_of_app c l1 : forall s l2, writes_of c s (l1 ++ l2) = writes_of c s l1 ++ writes_of c (run c s l1) l2.
Proof.
  induction l1 as [|b r IH]; intros s l2; simpl; auto.
  rewrite IH, <- app_assoc. reflexivity.
Qed.

Lemma run_writes c l : forall s, apply_writes s (writes_of c s l) = run c s l.
Proof.
  induction l as [|b r IH]; intro s; simpl; auto.
  rewrite apply_writes_app. apply IH.
Qed.

Lemma run_app c l1 l2 s : run c s (l1 ++ l2) = run c (run c s l1) l2.
Proof. unfold run. apply fold_left_app. Qed.

Lemma wf_hist_app c l1 : forall s l2, wf_hist c s (l1 ++ l2) -> wf_hist c s l1 /\ wf_hist c (run c s l1) l2.
Proof.
  induction l1 as [|b r IH]; intros s l2 H; simpl in *; auto.
  destruct H as [Hb Hr]. destruct (IH _ _ Hr). auto.
Qed.

Lemma firstn_S_skipn {A} (l : list A) : forall i x rest, skipn i l = x :: rest -> firstn (S i) l = firstn i l ++ [x].
Proof.
  induction l as [|a l IH]; intros i x rest H; destruct i; simpl in *; try discriminate.
  - inversion H. reflexivity.
  - f_equal. eapply IH; eauto.
Qed.

Definition offset (c : cfg) (s : store) (l : list blk) (i : nat) : nat := length (writes_of c s (firstn i l)).

Definition cut_in_import (c : cfg) (s : store) (l : list blk) (k i : nat) : Prop :=
  (offset c s l i <= k)%nat /\ ((k < offset c s l (S i))%nat \/ i = length l).

Theorem resume_converges c s0 hist k i :
  wf_cfg2 c -> Inv2 c s0 -> wf_hist c s0 hist -> cut_in_import c s0 hist k i ->
  exists r, resume c true (crash c s0 hist k) (skipn i hist) = Some r /\ eqv r (run c s0 hist).
Proof.
  intros Hc I0 Hw [Hlo Hhi].
  set (si := run c s0 (firstn i hist)).
  assert (Ehist : hist = firstn i hist ++ skipn i hist) by (symmetry; apply firstn_skipn).
  assert (Hwi : wf_hist c s0 (firstn i hist) /\ wf_hist c si (skipn i hist)) by (apply wf_hist_app; rewrite <- Ehist; auto).
  destruct Hwi as [Hw1 Hw2].
  assert (Ii : Inv2 c si) by (apply run_inv2; auto).
  assert (Ecrash : crash c s0 hist k = apply_writes si (firstn (k - offset c s0 hist i) (writes_of c si (skipn i hist)))).
  { unfold crash. rewrite Ehist at 1. rewrite writes_of_app, firstn_app. fold si.
    rewrite firstn_all2 by (unfold offset in Hlo; lia). rewrite apply_writes_app, run_writes. reflexivity. }
  destruct (skipn i hist) as [|b rest] eqn:Esk.
  - (* nothing left to import: the cut is the final store *)
    assert (Efin : si = run c s0 hist) by (unfold si; rewrite app_nil_r in Ehist; rewrite <- Ehist; reflexivity).
    rewrite Ecrash. simpl writes_of. rewrite firstn_nil. cbn [apply_writes fold_left].
    destruct Hc as [Hc HL]. rewrite resume_eq; auto using (i2_inv c si Ii).
    eexists; split; [reflexivity|]. rewrite restart_store_noop by (apply Ii). cbn [run fold_left].
    rewrite Efin. apply eqv_refl.
  - destruct Hhi as [Hhi|Hlen].
    2:{ exfalso. assert (length (skipn i hist) = 0%nat) by (rewrite skipn_length; lia). rewrite Esk in H. discriminate. }
    assert (ES : firstn (S i) hist = firstn i hist ++ [b]) by (eapply firstn_S_skipn; eauto).
    assert (Eoff : offset c s0 hist (S i) = (offset c s0 hist i + length (import_batches c si b))%nat).
    { unfold offset. rewrite ES, writes_of_app, app_length. fold si. simpl. rewrite app_nil_r. reflexivity. }
    set (j := (k - offset c s0 hist i)%nat) in *.
    assert (Hj : (j < length (import_batches c si b))%nat) by lia.
    assert (Ecr : crash c s0 hist k = apply_writes si (firstn j (import_batches c si b))).
    { rewrite Ecrash. simpl writes_of. rewrite firstn_app. replace (j - length (import_batches c si b))%nat with 0%nat by lia.
      cbn [firstn]. rewrite app_nil_r. reflexivity. }
    destruct Hw2 as [Hwb _].
    destruct (resume_within_import c si b rest j Hc Ii Hwb Hj) as (r & Hr & He).
    exists r. rewrite Ecr. split; auto.
    assert (Erun : run c si (b :: rest) = run c s0 hist).
    { unfold si. rewrite <- run_app, <- Ehist. reflexivity. }
    rewrite <- Erun. auto.
Qed.

(* what equivalence means for the observations the property names: same stored set, best block, quality records
   (vote tallies) and finalized block *)
Corollary resume_converges_observations c s0 hist k i :
  wf_cfg2 c -> Inv2 c s0 -> wf_hist c s0 hist -> cut_in_import c s0 hist k i ->
  exists r, resume c true (crash c s0 hist k) (skipn i hist) = Some r /\
    get_id r KBest = get_id (run c s0 hist) KBest /\ finalized c r = finalized c (run c s0 hist) /\
    (forall id, stored r id = stored (run c s0 hist) id) /\ (forall id, get_quality r id = get_quality (run c s0 hist) id).
Proof.
  intros Hc I0 Hw Hcut. destruct (resume_converges c s0 hist k i Hc I0 Hw Hcut) as (r & Hr & He).
  exists r. split; auto. apply eqv_observations. auto.
Qed.
