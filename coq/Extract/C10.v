(* Extract/C10.v — extraction of the EVM model (ExtrOcamlBasic only; Z/N/positive stay Coq's binary numbers). *)
Require Extraction.
Require Import ExtrOcamlBasic.
From Coq Require Import ZArith.
From Verif Require Import EVM.Word EVM.Model.
Extraction Language OCaml.
Extraction "../oracle/c10/model.ml" call_top i_alu store_view acct_view Z.of_N Z.to_N.
