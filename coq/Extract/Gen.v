(* Extract/Gen.v — extraction of the go2v-generated definitions, for the translator cross-check (R on the (T) functions). *)
Require Extraction.
Require Import ExtrOcamlBasic.
From Verif Require Import Common.GoInt Gen.GasLimit Gen.Sequence Gen.Epoch Gen.PoolSync Gen.StakerTime.
From Coq Require Import NArith.
(* N.of_nat is extracted only so that the shared glue (wire.ml: N, nat) links *)
Extraction Language OCaml.
Extraction "../oracle/gen/model.ml"
  GasLimit_IsValid GasLimit_Qualify GasLimit_Adjust
  newSequence sequence_BlockNumber sequence_TxIndex sequence_LogIndex
  getCheckPoint isCheckPoint getStorePoint isChainSynced
  Validation_IsOnline Validation_IsPeriodEnd Validation_NextPeriodTVL Validation_CurrentIteration Validation_CompletedIterations
  Validation_CooldownEnded Validation_CalculateWithdrawableVET Validation_multiplier
  Delegation_Started Delegation_Ended Delegation_IsLocked N.of_nat.
