(* Extract/C04.v — extraction of the bft model for the C04 oracle (ExtrOcamlBasic only; N stays Coq's binary N). *)
Require Extraction.
Require Import ExtrOcamlBasic.
From Verif Require Import Bft.Tree Bft.Model.
Extraction Language OCaml.
Extraction "../oracle/c04/model.ml"
  mkB mkCfg init_node run run_f tally_votes summarize conflict has_block.
