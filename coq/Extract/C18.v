(* Extract/C18.v — extraction of the tx pool accounting model (ExtrOcamlBasic only). *)
Require Extraction.
Require Import ExtrOcamlBasic.
From Verif Require Import Common.Util TxPool.Model TxPool.ModelWash TxPool.ModelAdmission.
Extraction Language OCaml.
Extraction "../oracle/c18/model.ml"
  empty_pool add remove_by_hash promote fill set_pricing holds_at aget sort_desc publish quota_of cost_of length
  wash wash_error_cut evaluate adopt pool_static.
