(* Extract/C05.v — extraction of the scheduler model (ExtrOcamlBasic only; N stays Coq's binary N). *)
Require Extraction.
Require Import ExtrOcamlBasic.
From Verif Require Import Common.Util Sched.Model.
Extraction Language OCaml.
Extraction "../oracle/c05/model.ml"
  mkP seq_of addrs is_scheduled schedule updates_v2 updates_pos
  actives_v1 is_the_time_v1 schedule_v1 updates_v1 find_me.
