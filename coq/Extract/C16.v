(* Extract/C16.v — extraction of the staker model, shared by C16 and C17 (ExtrOcamlBasic only; N stays Coq's binary N). *)
Require Extraction.
Require Import ExtrOcamlBasic.
From Verif Require Import Common.Util Staker.Model.
Extraction Language OCaml.
Extraction "../oracle/c16/model.ml"
  mkC init run_op step answer iterate rl_iterate totals_of deleg_flags calc_withdrawable get_agg getv next_entry ohead
  get_mbp rget current_iteration.
