(* Extract/C12.v — extraction for the C12 oracle: the state/trie model that predicts the content of every
   committed root, and the store model's functions, among them trie.go on working tries (Store/WorkTrie.v)
   (ExtrOcamlBasic only). *)
Require Extraction.
Require Import ExtrOcamlBasic.
From Verif Require Import Trie.Model State.StackedMap State.Model Store.Model Store.WorkTrie.
Extraction Language OCaml.
Extraction "../oracle/c12/model.ml"
  trie_get trie_update walk leaves never
  world0 step w_cur w_roots st_sm depth
  get_balance get_energy get_master get_codehash get_code get_raw_storage exists_
  mkAcc mkMeta
  sget commit checkpoint delete_history open_root
  iter_nodes checkpoint_nodes reach_list link_check prune_round deleted_keys dptn
  wt_get wt_update wt_run wt_commit dirty_paths.
