(* Extract/C15.v — extraction of the log index model together with the repository model that drives it. *)
Require Extraction.
Require Import ExtrOcamlBasic.
From Verif Require Import Chain.Model LogDB.Model.
Extraction Language OCaml.
Extraction "../oracle/c15/model.ml"
  init_repo add_block get_block_id exclude r_best num_of
  empty_db write_logs filter_events filter_transfers db_events db_transfers seq_block seq_txi seq_logi
  get_block write_block truncate seek_position sync_logdb sync_logdb_v verify_logdb.
