(* Extract/C01.v — extraction of the block validation / packer model (ExtrOcamlBasic only; N, Z stay Coq's binary integers).
   oracle/c01 and oracle/c02 share this model. *)
Require Extraction.
Require Import ExtrOcamlBasic.
From Verif Require Import Common.Util Sched.Model Header.Rules Validation.Body Validation.Cache.
Extraction Language OCaml.
Extraction "../oracle/c01/model.ml"
  mkP mkCfg mkH mkC mkPV mkPO mkCtx mkTx mkRc mkB mkSR
  validate_header validate_proposer schedule_ctx process pack_block adopt_all
  mkAC mkCE mkEv cands_walk pick new_candidates poa_proposers poa_step pget pos_leaders pos_step sget.
