(* Extract/C06.v — extraction of the trie and state models (ExtrOcamlBasic only). *)
Require Extraction.
Require Import ExtrOcamlBasic.
From Verif Require Import Trie.Model State.StackedMap State.Model.
Extraction Language OCaml.
Extraction "../oracle/c06/model.ml"
  trie_get trie_update walk leaves never
  world0 step w_cur w_roots st_sm depth
  get_balance get_energy get_master get_codehash get_code get_raw_storage exists_
  mkAcc mkMeta.
