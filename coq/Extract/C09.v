(* Extract/C09.v — extraction of the repository model (shared by C09 and C14); ExtrOcamlBasic only. *)
Require Extraction.
Require Import ExtrOcamlBasic.
From Verif Require Import Chain.Model.
Extraction Language OCaml.
Extraction "../oracle/c09/model.ml"
  init_repo add_block get_block_id has_block exclude get_tx_meta has_transaction has_tx_indexed
  get_transaction get_receipt read scan_conflicts get_conflicts scan_heads validate r_best num_of.
