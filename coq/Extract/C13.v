(* Extract/C13.v — extraction of the crash / reader model (ExtrOcamlBasic only; N stays Coq's binary N). Shared by C13 and C20. *)
Require Extraction.
Require Import ExtrOcamlBasic.
From Verif Require Import Crash.Model.
Extraction Language OCaml.
Extraction "../oracle/c13/model.ml"
  mkCfg mkTx mkBlk genesis_store import_steps import_batches import_writes run1 run writes_of crash
  restart resume readable tallies finalized get_id get_quality stored apply_writes apply_batch
  do_step do_steps steps_of query_steps scan_heads repair_one.
