(* Extract/C07.v — extraction of the transaction wrapper + ledger model (ExtrOcamlBasic only; Z/N stay Coq's binary integers). *)
Require Extraction.
Require Import ExtrOcamlBasic.
From Verif Require Import Ledger.Model TxExec.Model TxExec.Wire BaseFee.Model.
Extraction Language OCaml.
Extraction "../oracle/c07/model.ml"
  z_of_n n_of_z z_is_neg log_credit ledger_of
  mkAcc mkL view apply_ops sum_bal sum_eng energy_delta_ops self_destruct_to_self
  mkClause mkTx mkEnv mkCI intrinsic_gas exec_tx adopt_all adopt_full mkAI mkFE mkFS distribute
  calc_base_fee.
