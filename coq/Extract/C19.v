(* Extract/C19.v — extraction of the sync model (ExtrOcamlBasic only; N stays Coq's binary N). *)
Require Extraction.
Require Import ExtrOcamlBasic.
From Verif Require Import Common.Util Sync.Model Sync.ModelRPC.
Extraction Language OCaml.
Extraction "../oracle/c19/model.ml"
  find_common_ancestor ov_of_chains ov_synth ancestor_fuel download_script decode_batch
  serve mcode_eqb fetch_accept.
