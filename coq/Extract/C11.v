(* Extract/C11.v — extraction of the codec model (ExtrOcamlBasic only; N stays Coq's binary N). *)
Require Extraction.
Require Import ExtrOcamlBasic.
From Verif Require Import Codec.Model.
Extraction Language OCaml.
Extraction "../oracle/c11/model.ml"
  go_decode_tx go_reencode_tx go_unmarshal_tx go_marshal_tx go_signing_tx
  go_decode_header go_reencode_header header_signing_bytes_any
  go_decode_receipt go_reencode_receipt go_unmarshal_receipt go_marshal_receipt
  go_decode_block go_decode_block_raw go_reencode_block
  tx_has_nil_list block_has_nil_list norm_tx norm_block decode encode c_trf_gen c_header_gen dec_exact lenN
  go_tx_size_cached go_block_size_cached go_tx_size_fresh go_block_size_fresh intrinsic_gas intrinsic_gas_math root_pairs.
