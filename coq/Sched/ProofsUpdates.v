(* Sched/ProofsUpdates.v — Updates (V2, PoS, V1), scores, and PoA v1 scheduling. *)
From Coq Require Import List NArith ZArith Bool Lia ZifyN ZifyNat ZifyBool Permutation.
From Verif Require Import Common.Util Sched.Model Sched.Arith Sched.Proofs.
Import ListNotations.
Open Scope N_scope.

Definition notme (me : N) (p : proposer) : bool := negb (p_addr p =? me).

Lemma missed_spec pt T k me seq i : 0 < T -> 1 <= k ->
  missed pt T (pt + k * T) me seq i = filter (notme me) (firstn (N.to_nat (k - 1 - i)) seq).
Proof.
  intros HT Hk. revert i. induction seq as [|p rest IH]; intros i; cbn [missed].
  - now rewrite firstn_nil.
  - destruct (N.leb_spec (pt + k * T) (pt + T + i * T)) as [Hle|Hgt].
    + replace (k - 1 - i) with 0 by nia. reflexivity.
    + assert (Hki : 1 <= k - 1 - i) by nia.
      replace (N.to_nat (k - 1 - i)) with (S (N.to_nat (k - 1 - (i + 1)))) by lia.
      cbn [firstn filter]. unfold notme at 1. rewrite IH.
      destruct (p_addr p =? me); reflexivity.
Qed.

(* the j-th element of the sequence owns the slot pt + (j+1)T *)
Lemma position_owns_slot pt T seq j a : 0 < T ->
  nth_error seq j = Some a ->
  is_scheduled pt T seq (pt + (N.of_nat j + 1) * T) a = true.
Proof.
  intros HT Hj.
  assert (Hlen : (j < length seq)%nat) by (apply nth_error_Some; congruence).
  assert (Hne : seq <> []) by (destruct seq; [cbn in Hlen; lia|congruence]).
  apply is_scheduled_iff; auto. repeat split; [nia|apply aligned_mod; auto|].
  rewrite slot_index_form by lia.
  replace (N.of_nat j + 1 - 1) with (N.of_nat j) by lia.
  rewrite N.mod_small by lia. now rewrite Nnat.Nat2N.id.
Qed.

Lemma in_firstn_nth {A} (l : list A) m x : In x (firstn m l) -> exists j, (j < m)%nat /\ nth_error l j = Some x.
Proof.
  revert l. induction m as [|m IH]; intros l; cbn; [tauto|].
  destruct l as [|y t]; cbn; [tauto|]. intros [->|H].
  - exists 0%nat. split; [lia|reflexivity].
  - destruct (IH t H) as [j [Hj Hn]]. exists (S j). split; [lia|exact Hn].
Qed.

(* V2/PoS Updates: every deactivated proposer is the owner of an aligned slot strictly between the
   parent and the new block, is not me, and conversely every such owner within the first round is listed *)
Theorem updates_missed_sound pt T k me seq p : 0 < T -> 1 <= k ->
  In p (missed pt T (pt + k * T) me seq 0) ->
  p_addr p <> me /\ exists j, 1 <= j /\ j < k /\ is_scheduled pt T (addrs seq) (pt + j * T) (p_addr p) = true.
Proof.
  intros HT Hk Hin. rewrite missed_spec in Hin by auto. apply filter_In in Hin. destruct Hin as [Hin Hnm].
  split. { unfold notme in Hnm. now destruct (N.eqb_spec (p_addr p) me). }
  apply in_firstn_nth in Hin. destruct Hin as [j [Hj Hn]].
  exists (N.of_nat j + 1). split; [lia|]. split; [lia|].
  apply position_owns_slot; auto. unfold addrs. now rewrite nth_error_map, Hn.
Qed.

Theorem updates_missed_complete pt T k me seq j p : 0 < T -> 1 <= k ->
  nth_error seq j = Some p -> N.of_nat j + 1 < k -> p_addr p <> me ->
  In p (missed pt T (pt + k * T) me seq 0).
Proof.
  intros HT Hk Hn Hj Hnm. rewrite missed_spec by auto. apply filter_In. split.
  - assert (Hlen : (j < length seq)%nat) by (apply nth_error_Some; congruence).
    rewrite <- (firstn_skipn (N.to_nat (k - 1 - 0)) seq) in Hn.
    rewrite nth_error_app1 in Hn by (rewrite firstn_length; lia).
    eapply nth_error_In; eauto.
  - unfold notme. now destruct (N.eqb_spec (p_addr p) me).
Qed.

Lemma filter_length_le {A} (f : A -> bool) l : (length (filter f l) <= length l)%nat.
Proof. induction l as [|x t IH]; cbn; [lia|]. destruct (f x); cbn; lia. Qed.

Lemma filter_firstn_length {A} (f : A -> bool) m l : (length (filter f (firstn m l)) <= length (filter f l))%nat.
Proof.
  revert l; induction m as [|m IH]; intros l; cbn; [lia|]. destruct l as [|x t]; cbn; [lia|].
  destruct (f x); cbn; specialize (IH t); lia.
Qed.

Lemma filter_notme_lt me seq : In me (addrs seq) -> (length (filter (notme me) seq) < length seq)%nat.
Proof.
  induction seq as [|p t IH]; cbn; [tauto|]. intros [E|Hin].
  - unfold notme at 1. rewrite E, N.eqb_refl. cbn. pose proof (filter_length_le (notme me) t). lia.
  - specialize (IH Hin). destruct (notme me p); cbn; lia.
Qed.

Theorem score_v2_bounds pt T k seq mep : 0 < T -> 1 <= k -> In (p_addr mep) (addrs seq) ->
  let score := snd (updates_v2 pt T seq mep (pt + k * T)) in
  1 <= score /\ score <= N.of_nat (length seq).
Proof.
  intros HT Hk Hin. cbn [updates_v2 snd]. rewrite missed_spec by auto.
  pose proof (filter_firstn_length (notme (p_addr mep)) (N.to_nat (k - 1 - 0)) seq).
  pose proof (filter_notme_lt _ _ Hin). lia.
Qed.

Theorem updates_reactivation mep : 
  reactivation mep = if p_active mep then [] else [(p_addr mep, true)].
Proof. reflexivity. Qed.

(* ---- PoS score ---- *)
Definition weights (l : list proposer) : list N := map p_weight l.

Lemma fold_add_nowrap l acc : acc + sumN (weights l) < 18446744073709551616 ->
  fold_left (fun a p => wrap64 (a + p_weight p)) l acc = acc + sumN (weights l).
Proof.
  revert acc. induction l as [|p t IH]; intros acc H; cbn [fold_left weights map sumN] in *; [lia|].
  unfold wrap64 at 2. rewrite N.mod_small by (fold (weights t) in H; lia).
  fold (weights t) in *. rewrite IH; lia.
Qed.

Lemma fold_sub_nowrap l acc : sumN (weights l) <= acc -> acc < 18446744073709551616 ->
  fold_left (fun a p => sub64 a (p_weight p)) l acc = acc - sumN (weights l).
Proof.
  revert acc. induction l as [|p t IH]; intros acc H Hb; cbn [fold_left weights map sumN] in *; [lia|].
  fold (weights t) in *.
  assert (E : sub64 acc (p_weight p) = acc - p_weight p).
  { unfold sub64. replace (acc + 18446744073709551616 - p_weight p) with ((acc - p_weight p) + 1 * 18446744073709551616) by lia.
    rewrite N.mod_add by lia. apply N.mod_small. lia. }
  rewrite E. rewrite IH; lia.
Qed.

Lemma sum_filter_firstn_le f m (l : list proposer) : sumN (weights (filter f (firstn m l))) <= sumN (weights l).
Proof.
  revert l. induction m as [|m IH]; intros l; cbn; [lia|]. destruct l as [|x t]; cbn; [lia|].
  specialize (IH t). destruct (f x); cbn; unfold weights in *; lia.
Qed.

Theorem score_pos_bounds pt T k seq mep total : 0 < T -> 1 <= k ->
  sumN (weights seq) * max_pos_score < 18446744073709551616 ->
  sumN (weights seq) <= total -> 0 < total ->
  let ms := missed pt T (pt + k * T) (p_addr mep) seq 0 in
  snd (updates_pos pt T seq mep total (pt + k * T)) =
    (sumN (weights seq) - sumN (weights ms)) * max_pos_score / total /\
  snd (updates_pos pt T seq mep total (pt + k * T)) <= max_pos_score.
Proof.
  intros HT Hk Hnw Htot Hpos ms. unfold max_pos_score in *. cbn [updates_pos snd]. fold ms.
  assert (Hms : sumN (weights ms) <= sumN (weights seq)).
  { subst ms. rewrite missed_spec by auto. apply sum_filter_firstn_le. }
  rewrite fold_add_nowrap by lia. cbn [N.add].
  rewrite fold_sub_nowrap by lia.
  destruct (N.ltb_spec 0 total) as [_|]; [|lia].
  unfold wrap64, max_pos_score. rewrite N.mod_small by nia. split; [reflexivity|].
  apply N.div_le_upper_bound; nia.
Qed.

(* ---- PoA v1 ---- *)
Lemma is_the_time_v1_iff h pt T acts me t : 
  is_the_time_v1 h pt T acts me t = true <->
  pt < t /\ (t - pt) mod T = 0 /\ exists p, whose_turn h acts t = Some p /\ p_addr p = me.
Proof.
  unfold is_the_time_v1.
  destruct (N.leb_spec t pt) as [Hle|Hgt]; [split; [discriminate|lia]|].
  destruct (N.eqb_spec ((t - pt) mod T) 0) as [Hm|Hm]; cbn [negb].
  - destruct (whose_turn h acts t) as [p|].
    + rewrite N.eqb_eq. split.
      * intros E. split; [exact Hgt|]. split; [exact Hm|]. exists p. split; [reflexivity|exact E].
      * intros [_ [_ [q [Eq Ea]]]]. inversion Eq; subst q. exact Ea.
    + split; [discriminate|]. intros [_ [_ [q [Eq _]]]]. discriminate.
  - split; [discriminate|]. intros [_ [H _]]. contradiction.
Qed.

Lemma whose_turn_some h acts t : acts <> [] -> exists p, whose_turn h acts t = Some p /\ In p acts.
Proof.
  intros Hne. unfold whose_turn.
  assert (Hn : 0 < N.of_nat (length acts)) by (destruct acts; [congruence|cbn; lia]).
  assert (Hi : h t mod N.of_nat (length acts) < N.of_nat (length acts)) by (apply N.mod_lt; lia).
  destruct (nth_error acts (N.to_nat (h t mod N.of_nat (length acts)))) as [p|] eqn:E.
  - exists p. split; [reflexivity|]. eapply nth_error_In; eauto.
  - apply nth_error_None in E. lia.
Qed.

Lemma schedule_v1_from_some h T acts me fuel t0 t :
  schedule_v1_from h T acts me fuel t0 = Some t ->
  exists i, i < N.of_nat fuel /\ t = t0 + i * T /\
    (exists p, whose_turn h acts t = Some p /\ p_addr p = me) /\
    forall i', i' < i -> forall p, whose_turn h acts (t0 + i' * T) = Some p -> p_addr p <> me.
Proof.
  revert t0. induction fuel as [|f IH]; intros t0; cbn [schedule_v1_from]; [discriminate|].
  destruct (whose_turn h acts t0) as [p|] eqn:E; [|discriminate].
  destruct (N.eqb_spec (p_addr p) me) as [Ea|Ea].
  - intros H; inversion H; subst t. exists 0. repeat split; try lia; eauto.
  - intros H. apply IH in H. destruct H as [i [Hi [Et [Hown Hearly]]]].
    exists (i + 1). repeat split; try lia; auto.
    intros i' Hi' q Hq. destruct (N.eq_dec i' 0) as [->|Hne].
    + replace (t0 + 0 * T) with t0 in Hq by lia. congruence.
    + apply (Hearly (i' - 1)); [lia|]. replace (t0 + T + (i' - 1) * T) with (t0 + i' * T) by nia. exact Hq.
Qed.

Theorem schedule_v1_spec h pt T acts me now fuel t : 0 < T ->
  schedule_v1 h pt T acts me now fuel = Some t ->
  is_the_time_v1 h pt T acts me t = true /\ now <= t /\ pt < t /\
  forall t', now <= t' -> pt < t' -> t' < t -> is_the_time_v1 h pt T acts me t' = false.
Proof.
  intros HT H. unfold schedule_v1 in H.
  destruct (first_slot_spec pt T now HT) as [k0 [Hk0 [Ef [Hnow Hmin]]]]. rewrite Ef in H.
  apply schedule_v1_from_some in H. destruct H as [i [Hi [Et [Hown Hearly]]]].
  assert (Et' : t = pt + (k0 + i) * T) by lia.
  repeat split.
  - apply is_the_time_v1_iff. repeat split; [nia|rewrite Et'; apply aligned_mod; auto|exact Hown].
  - nia.
  - nia.
  - intros t' H1 H2 H3. destruct (is_the_time_v1 h pt T acts me t') eqn:Es; [|reflexivity]. exfalso.
    apply is_the_time_v1_iff in Es. destruct Es as [_ [Hal [p [Hp Ea]]]].
    destruct (aligned_form pt T t' HT H2 Hal) as [k [Hk Etk]].
    specialize (Hmin k Hk ltac:(lia)).
    apply (Hearly (k - k0) ltac:(nia) p); [|exact Ea].
    replace (pt + k0 * T + (k - k0) * T) with t' by nia. exact Hp.
Qed.

Lemma schedule_v1_from_none h T acts me fuel t0 : acts <> [] ->
  schedule_v1_from h T acts me fuel t0 = None ->
  forall i, i < N.of_nat fuel -> forall p, whose_turn h acts (t0 + i * T) = Some p -> p_addr p <> me.
Proof.
  intros Hne. revert t0. induction fuel as [|f IH]; intros t0; cbn [schedule_v1_from]; [intros; lia|].
  destruct (whose_turn_some h acts t0 Hne) as [p [Ep _]]. rewrite Ep.
  destruct (N.eqb_spec (p_addr p) me) as [Ea|Ea]; [discriminate|].
  intros H i Hi q Hq. destruct (N.eq_dec i 0) as [->|Hn0].
  - replace (t0 + 0 * T) with t0 in Hq by lia. congruence.
  - apply (IH (t0 + T) H (i - 1)); [lia|]. replace (t0 + T + (i - 1) * T) with (t0 + i * T) by nia. exact Hq.
Qed.

(* the out-of-fuel value is reported only when no slot within the fuel is owned by me *)
Theorem schedule_v1_none_spec h pt T acts me now fuel : acts <> [] ->
  schedule_v1 h pt T acts me now fuel = None ->
  forall i, i < N.of_nat fuel -> forall p,
    whose_turn h acts (first_slot pt T now + i * T) = Some p -> p_addr p <> me.
Proof. intros Hne H. apply (schedule_v1_from_none h T acts me fuel _ Hne H). Qed.

Lemma missed_v1_sound h pt T acts me fuel t a :
  In a (missed_v1 h pt T acts me fuel t) ->
  a <> me /\ exists i, t = pt + (t - pt) /\ i * T <= t /\ pt < t - i * T /\
     exists p, whose_turn h acts (t - i * T) = Some p /\ p_addr p = a.
Proof.
  revert t. induction fuel as [|f IH]; intros t; cbn [missed_v1]; [intros []|].
  destruct (N.leb_spec t pt) as [Hle|Hgt]; [intros []|].
  destruct (whose_turn h acts t) as [p|] eqn:E; [|intros []].
  intros Hin. apply in_app_or in Hin. destruct Hin as [Hin|Hin].
  - destruct (N.eqb_spec (p_addr p) me) as [Ea|Ea]; [destruct Hin|].
    destruct Hin as [<-|[]]. split; [exact Ea|]. exists 0. repeat split; try lia.
    exists p. split; [|reflexivity]. replace (t - 0 * T) with t by lia. exact E.
  - apply IH in Hin. destruct Hin as [Hnm [i [_ [Hi1 [Hi2 [q [Hq Ea]]]]]]]. split; [exact Hnm|].
    exists (i + 1). repeat split; try lia.
    exists q. split; [|exact Ea]. replace (t - (i + 1) * T) with (t - T - i * T) by lia. exact Hq.
Qed.

Lemma dedupN_in l a : In a (dedupN l) <-> In a l.
Proof.
  induction l as [|x t IH]; cbn; [tauto|].
  destruct (existsb (N.eqb x) t) eqn:E.
  - rewrite IH. split; [tauto|]. intros [->|H]; [|exact H].
    apply existsb_exists in E. destruct E as [y [Hy Exy]]. apply N.eqb_eq in Exy. now subst.
  - cbn. rewrite IH. tauto.
Qed.

Lemma dedupN_nodup l : NoDup (dedupN l).
Proof.
  induction l as [|x t IH]; cbn; [constructor|].
  destruct (existsb (N.eqb x) t) eqn:E; [exact IH|]. constructor; [|exact IH].
  rewrite dedupN_in. intros Hin.
  assert (existsb (N.eqb x) t = true) by (apply existsb_exists; exists x; split; [exact Hin|apply N.eqb_refl]).
  congruence.
Qed.

Theorem score_v1_bounds h pt T acts mep nbt :
  NoDup (addrs acts) -> In (p_addr mep) (addrs acts) ->
  let score := snd (updates_v1 h pt T acts mep nbt) in
  1 <= score /\ score <= N.of_nat (length acts).
Proof.
  intros Hnd Hme. cbn [updates_v1 snd].
  set (ms := dedupN _).
  set (nm := fun a : N => negb (a =? p_addr mep)).
  assert (Hincl : incl ms (filter nm (addrs acts))).
  { intros a Ha. subst ms. apply (proj1 (dedupN_in _ _)) in Ha. apply missed_v1_sound in Ha.
    destruct Ha as [Hnm [i [_ [_ [_ [p [Hp Ea]]]]]]]. apply filter_In. split.
    - unfold addrs. apply in_map_iff. exists p. split; [exact Ea|].
      unfold whose_turn in Hp. eapply nth_error_In; eauto.
    - unfold nm. now destruct (N.eqb_spec a (p_addr mep)). }
  assert (Hlen : (length ms <= length (filter nm (addrs acts)))%nat).
  { apply NoDup_incl_length; [apply dedupN_nodup|exact Hincl]. }
  assert (Hlt : (length (filter nm (addrs acts)) < length (addrs acts))%nat).
  { clear -Hme. induction (addrs acts) as [|x t IH]; cbn in *; [tauto|]. destruct Hme as [->|Hin].
    - unfold nm at 1. rewrite N.eqb_refl. cbn. pose proof (filter_length_le nm t). lia.
    - specialize (IH Hin). destruct (nm x); cbn; lia. }
  unfold addrs in Hlt at 2. rewrite map_length in Hlt. lia.
Qed.

Theorem updates_v1_sound h pt T acts mep nbt a : 0 < T ->
  In (a, false) (fst (updates_v1 h pt T acts mep nbt)) ->
  a <> p_addr mep /\ exists t, pt < t /\ t < nbt /\ exists p, whose_turn h acts t = Some p /\ p_addr p = a.
Proof.
  intros HT Hin. cbn [updates_v1 fst] in Hin. apply in_app_or in Hin. destruct Hin as [Hin|Hin].
  - apply in_map_iff in Hin. destruct Hin as [b [Eb Hb]]. inversion Eb; subst b.
    apply (proj1 (dedupN_in _ _)) in Hb. apply missed_v1_sound in Hb.
    destruct Hb as [Hnm [i [_ [Hi1 [Hi2 [p [Hp Ea]]]]]]]. split; [exact Hnm|].
    exists (nbt - T - i * T). repeat split; [lia|lia|]. exists p. tauto.
  - unfold reactivation in Hin. destruct (p_active mep); cbn in Hin; [tauto|]. destruct Hin as [E|[]]. discriminate.
Qed.
