(* Sched/Model.v — executable model of scheduler/poa_v1.go, poa_v2.go, pos.go (definitions only).
   Addresses and times are N.  Hash-derived data (Blake2b rank of an address for V2, the ChaCha8/-ln(u)/w
   float score for PoS, dprp(parentNumber,t) for V1) are inputs: they are computed by the real libraries
   in the harness and enter the model as sort keys / a slot-hash function. *)
From Coq Require Import List NArith Bool Lia.
From Verif Require Import Common.Util.
Import ListNotations.
Open Scope N_scope.

Record proposer := mkP { p_addr : N; p_active : bool; p_weight : N }.

Definition eligible (me : N) (p : proposer) : bool := p_active p || (p_addr p =? me).

Definition find_me (me : N) (ps : list proposer) : option proposer :=
  find (fun p => p_addr p =? me) ps.

(* NewPoASchedulerV2 / NewPoSScheduler: filter (active or me), sort by key (stable), keep records. *)
Definition seq_of (me : N) (ps : list (proposer * N)) : list proposer :=
  map fst (sort_k (filter (fun pk => eligible me (fst pk)) ps)).

Definition addrs (s : list proposer) : list N := map p_addr s.

(* ---- the generic sequence scheduler (poa_v2.go and pos.go share it) ---- *)

Definition slot_index (pt T : N) (n : N) (t : N) : N := ((t - pt - T) / T) mod n.

Definition is_scheduled (pt T : N) (seq : list N) (t a : N) : bool :=
  if t <=? pt then false
  else if negb ((t - pt) mod T =? 0) then false
  else match nth_error seq (N.to_nat (slot_index pt T (N.of_nat (length seq)) t)) with
       | Some x => x =? a
       | None => false   (* unreachable for a non-empty sequence; Go would panic on an empty one *)
       end.

Definition first_slot (pt T now : N) : N :=
  let nbt := pt + T in
  if nbt <? now then nbt + (now - nbt + T - 1) / T * T else nbt.

Fixpoint find_from (seq : list N) (me n offset : N) (fuel : nat) (i : N) : option N :=
  match fuel with
  | O => None
  | S f =>
    match nth_error seq (N.to_nat ((i + offset) mod n)) with
    | Some a => if a =? me then Some i else find_from seq me n offset f (i + 1)
    | None => None
    end
  end.

(* None = the Go code's panic("something wrong with proposers list") *)
Definition schedule (pt T : N) (seq : list N) (me now : N) : option N :=
  let nbt := first_slot pt T now in
  let n := N.of_nat (length seq) in
  let offset := (nbt - pt) / T - 1 in
  match find_from seq me n offset (length seq) 0 with
  | Some i => Some (nbt + i * T)
  | None => None
  end.

(* Updates: the first slots strictly before newBlockTime, at most one round *)
Fixpoint missed (pt T nbt : N) (me : N) (seq : list proposer) (i : N) : list proposer :=
  match seq with
  | [] => []
  | p :: rest =>
    if nbt <=? pt + T + i * T then []
    else if p_addr p =? me then missed pt T nbt me rest (i + 1)
         else p :: missed pt T nbt me rest (i + 1)
  end.

Definition reactivation (mep : proposer) : list (N * bool) :=
  if p_active mep then [] else [(p_addr mep, true)].

Definition updates_v2 (pt T : N) (seq : list proposer) (mep : proposer) (nbt : N) : list (N * bool) * N :=
  let ms := missed pt T nbt (p_addr mep) seq 0 in
  (map (fun p => (p_addr p, false)) ms ++ reactivation mep,
   N.of_nat (length seq) - N.of_nat (length ms)).

Definition max_pos_score : N := 10000.

Definition updates_pos (pt T : N) (seq : list proposer) (mep : proposer) (total nbt : N) : list (N * bool) * N :=
  let ms := missed pt T nbt (p_addr mep) seq 0 in
  let online := fold_left (fun acc p => wrap64 (acc + p_weight p)) seq 0 in
  let active := fold_left (fun acc p => sub64 acc (p_weight p)) ms online in
  (map (fun p => (p_addr p, false)) ms ++ reactivation mep,
   if 0 <? total then wrap64 (active * max_pos_score) / total else 0).

(* ---- PoA v1 ---- *)

Definition actives_v1 (me : N) (ps : list proposer) : list proposer :=
  filter (eligible me) ps.

Definition whose_turn (h : N -> N) (acts : list proposer) (t : N) : option proposer :=
  nth_error acts (N.to_nat (h t mod N.of_nat (length acts))).

Definition is_the_time_v1 (h : N -> N) (pt T : N) (acts : list proposer) (me t : N) : bool :=
  if t <=? pt then false
  else if negb ((t - pt) mod T =? 0) then false
  else match whose_turn h acts t with Some p => p_addr p =? me | None => false end.

(* the Go loop has no bound; fuel exhaustion is an explicit error value *)
Fixpoint schedule_v1_from (h : N -> N) (T : N) (acts : list proposer) (me : N) (fuel : nat) (t : N) : option N :=
  match fuel with
  | O => None
  | S f =>
    match whose_turn h acts t with
    | Some p => if p_addr p =? me then Some t else schedule_v1_from h T acts me f (t + T)
    | None => None
    end
  end.

Definition schedule_v1 (h : N -> N) (pt T : N) (acts : list proposer) (me now : N) (fuel : nat) : option N :=
  schedule_v1_from h T acts me fuel (first_slot pt T now).

Definition initial_max_block_proposers : nat := 101.

(* walks back from nbt - T while t > pt, at most 101 slots; returns the owners other than me (with repeats) *)
Fixpoint missed_v1 (h : N -> N) (pt T : N) (acts : list proposer) (me : N) (fuel : nat) (t : N) : list N :=
  match fuel with
  | O => []
  | S f =>
    if t <=? pt then []
    else match whose_turn h acts t with
         | Some p => (if p_addr p =? me then [] else [p_addr p]) ++ missed_v1 h pt T acts me f (t - T)
         | None => []
         end
  end.

Fixpoint dedupN (l : list N) : list N :=
  match l with
  | [] => []
  | x :: t => if existsb (N.eqb x) t then dedupN t else x :: dedupN t
  end.

Definition updates_v1 (h : N -> N) (pt T : N) (acts : list proposer) (mep : proposer) (nbt : N) : list (N * bool) * N :=
  let ms := dedupN (missed_v1 h pt T acts (p_addr mep) initial_max_block_proposers (nbt - T)) in
  (map (fun a => (a, false)) ms ++ reactivation mep,
   N.of_nat (length acts) - N.of_nat (length ms)).
