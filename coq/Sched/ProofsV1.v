(* Sched/ProofsV1.v — PoA v1 over the constructor's own list (actives_v1), the Schedule/IsTheTime converse, v1 Updates completeness. *)
From Coq Require Import List NArith ZArith Bool Lia ZifyN ZifyNat ZifyBool Permutation.
From Verif Require Import Common.Util Sched.Model Sched.Arith Sched.Proofs Sched.ProofsUpdates.
Import ListNotations.
Open Scope N_scope.

Lemma actives_v1_in me ps p : In p (actives_v1 me ps) <-> In p ps /\ (p_active p = true \/ p_addr p = me).
Proof. unfold actives_v1. rewrite filter_In. unfold eligible. rewrite orb_true_iff, N.eqb_eq. tauto. Qed.

Lemma actives_v1_nonempty me ps mep : In mep ps -> p_addr mep = me -> actives_v1 me ps <> [].
Proof.
  intros Hin E H. assert (Hm : In mep (actives_v1 me ps)) by (apply actives_v1_in; tauto).
  rewrite H in Hm. exact Hm.
Qed.

Lemma actives_v1_me me ps mep : In mep ps -> p_addr mep = me -> In me (addrs (actives_v1 me ps)).
Proof.
  intros Hin E. unfold addrs. apply in_map_iff. exists mep. split; [exact E|]. apply actives_v1_in. tauto.
Qed.

Lemma actives_v1_nodup me ps : NoDup (addrs ps) -> NoDup (addrs (actives_v1 me ps)).
Proof. unfold addrs, actives_v1. apply NoDup_map_filter. Qed.

Lemma same_addr_same_proposer ps p q : NoDup (addrs ps) -> In p ps -> In q ps -> p_addr p = p_addr q -> p = q.
Proof.
  unfold addrs. induction ps as [|x t IH]; cbn; [tauto|]. intros Hn Hp Hq E.
  inversion Hn as [|? ? Hnot Hn']; subst.
  destruct Hp as [Hp|Hp], Hq as [Hq|Hq].
  - congruence.
  - subst x. exfalso. apply Hnot. apply in_map_iff. exists q. split; [congruence|assumption].
  - subst x. exfalso. apply Hnot. apply in_map_iff. exists p. split; [congruence|assumption].
  - auto.
Qed.

(* all nodes agree (v1): the active list does not depend on the viewpoint of an active member *)
Lemma actives_v1_agree me1 me2 ps :
  NoDup (addrs ps) ->
  (exists p, In p ps /\ p_addr p = me1 /\ p_active p = true) ->
  (exists p, In p ps /\ p_addr p = me2 /\ p_active p = true) ->
  actives_v1 me1 ps = actives_v1 me2 ps.
Proof.
  intros Hnd [p1 [H1 [E1 A1]]] [p2 [H2 [E2 A2]]]. unfold actives_v1. apply filter_ext_in'.
  intros q Hq. unfold eligible. destruct (p_active q) eqn:Aq; [reflexivity|]. cbn.
  destruct (N.eqb_spec (p_addr q) me1) as [Ea|Ea].
  - assert (q = p1) by (apply (same_addr_same_proposer ps); auto; congruence). congruence.
  - destruct (N.eqb_spec (p_addr q) me2) as [Eb|Eb]; [|reflexivity].
    assert (q = p2) by (apply (same_addr_same_proposer ps); auto; congruence). congruence.
Qed.

(* converse of schedule_accepted: a slot the proposer owns is exactly what Schedule returns when asked at that time *)
Lemma owned_slot_is_scheduled pt T seq me t : 0 < T -> In me seq ->
  is_scheduled pt T seq t me = true -> schedule pt T seq me t = Some t.
Proof.
  intros HT Hin Hs.
  assert (Hne : seq <> []) by (destruct seq; [contradiction|congruence]).
  destruct (schedule_is_earliest_lemma pt T seq me t HT Hin) as [t' [E [Hs' [Hge [Hpt Hearly]]]]].
  rewrite E. f_equal.
  destruct (N.eq_dec t' t) as [|Hne']; [assumption|]. exfalso.
  apply is_scheduled_iff in Hs; auto. destruct Hs as [Hlt [Hal Hn]].
  assert (Hf : is_scheduled pt T seq t me = false) by (apply Hearly; lia).
  assert (Ht : is_scheduled pt T seq t me = true) by (apply is_scheduled_iff; auto).
  congruence.
Qed.

Lemma sub_step t T i : 1 <= i -> t - T - (i - 1) * T = t - i * T.
Proof. intros H. rewrite <- N.sub_add_distr. f_equal. nia. Qed.

Lemma sub_step' t T j : t - T - j * T = t - (j + 1) * T.
Proof. rewrite <- N.sub_add_distr. f_equal. nia. Qed.

(* v1 Updates completeness: every owner (other than me) of a slot walked back from nbt - T is deactivated *)
Lemma missed_v1_complete h pt T acts me fuel t i p : 
  (i < N.of_nat fuel) -> i * T <= t -> pt < t - i * T ->
  (forall j, j <= i -> whose_turn h acts (t - j * T) <> None) ->
  whose_turn h acts (t - i * T) = Some p -> p_addr p <> me ->
  In (p_addr p) (missed_v1 h pt T acts me fuel t).
Proof.
  revert t i. induction fuel as [|f IH]; intros t i Hi Hle Hgt Hall Hp Hnm; [exfalso; lia|].
  cbn [missed_v1].
  destruct (N.leb_spec t pt) as [H|H]; [lia|].
  destruct (whose_turn h acts t) as [q|] eqn:Eq.
  - apply in_or_app. destruct (N.eq_dec i 0) as [->|Hi0].
    + left. replace (t - 0 * T) with t in Hp by lia. assert (q = p) by congruence. subst q.
      destruct (N.eqb_spec (p_addr p) me); [contradiction|]. now left.
    + right.
      assert (P1 : i - 1 < N.of_nat f) by lia.
      assert (P2 : (i - 1) * T <= t - T) by nia.
      assert (P3 : pt < t - T - (i - 1) * T) by (rewrite sub_step by lia; exact Hgt).
      assert (P4 : forall j, j <= i - 1 -> whose_turn h acts (t - T - j * T) <> None)
        by (intros j Hj; rewrite sub_step'; apply Hall; lia).
      assert (P5 : whose_turn h acts (t - T - (i - 1) * T) = Some p) by (rewrite sub_step by lia; exact Hp).
      exact (IH (t - T) (i - 1) P1 P2 P3 P4 P5 Hnm).
  - exfalso. apply (Hall 0); [lia|]. replace (t - 0 * T) with t by lia. exact Eq.
Qed.
