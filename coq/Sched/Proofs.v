(* Sched/Proofs.v — proofs about the scheduler model. *)
From Coq Require Import List NArith ZArith Bool Lia ZifyN ZifyNat ZifyBool Permutation.
From Verif Require Import Common.Util Sched.Model Sched.Arith.
Import ListNotations.
Open Scope N_scope.

(* ---------- sorting is a permutation ---------- *)
Lemma insert_k_perm {A} (x : A * N) l : Permutation (insert_k x l) (x :: l).
Proof.
  induction l as [|y t IH]; cbn [insert_k]; [reflexivity|].
  destruct (snd y <? snd x); [|reflexivity].
  rewrite IH. apply perm_swap.
Qed.

Lemma sort_k_perm {A} (l : list (A * N)) : Permutation (sort_k l) l.
Proof.
  induction l as [|x t IH]; cbn [sort_k fold_right]; [reflexivity|].
  fold (sort_k t). rewrite insert_k_perm. now constructor.
Qed.

Lemma seq_of_perm me ps :
  Permutation (seq_of me ps) (map fst (filter (fun pk => eligible me (fst pk)) ps)).
Proof. unfold seq_of. apply Permutation_map, sort_k_perm. Qed.

Lemma in_seq_of me ps p :
  In p (seq_of me ps) <-> In p (map fst ps) /\ eligible me p = true.
Proof.
  split.
  - intros H. apply (Permutation_in _ (seq_of_perm me ps)) in H.
    apply in_map_iff in H. destruct H as [[q k] [E Hin]]. cbn in E. subst q.
    apply filter_In in Hin. destruct Hin as [Hin He]. split; [|exact He].
    apply in_map_iff. now exists (p, k).
  - intros [Hin He]. apply (Permutation_in _ (Permutation_sym (seq_of_perm me ps))).
    apply in_map_iff in Hin. destruct Hin as [[q k] [E Hin]]. cbn in E. subst q.
    apply in_map_iff. exists (p, k). split; [reflexivity|]. apply filter_In. now split.
Qed.

Lemma me_in_seq me ps mep :
  In mep (map fst ps) -> p_addr mep = me -> In me (addrs (seq_of me ps)).
Proof.
  intros Hin E. unfold addrs. apply in_map_iff. exists mep. split; [exact E|].
  apply in_seq_of. split; [exact Hin|]. unfold eligible. rewrite E, N.eqb_refl. apply orb_true_r.
Qed.

Lemma NoDup_map_filter {A B} (f : A -> B) (g : A -> bool) l :
  NoDup (map f l) -> NoDup (map f (filter g l)).
Proof.
  induction l as [|x t IH]; cbn; [auto|]. intros H. inversion H as [|? ? Hn Hd]; subst.
  destruct (g x); cbn; [constructor|]; auto.
  intros Hin. apply Hn. apply in_map_iff in Hin. destruct Hin as [y [E Hy]].
  apply filter_In in Hy. apply in_map_iff. exists y. tauto.
Qed.

Lemma nodup_seq_of me ps :
  NoDup (map (fun pk : proposer * N => p_addr (fst pk)) ps) -> NoDup (addrs (seq_of me ps)).
Proof.
  intros H. unfold addrs.
  eapply Permutation_NoDup.
  - apply Permutation_sym. apply Permutation_map. apply seq_of_perm.
  - rewrite map_map. apply NoDup_map_filter. exact H.
Qed.

(* the sequence does not depend on the viewpoint when that viewpoint is an active member *)
Lemma eligible_active_indep me ps :
  NoDup (map (fun pk : proposer * N => p_addr (fst pk)) ps) ->
  (exists mep k, In (mep, k) ps /\ p_addr mep = me /\ p_active mep = true) ->
  forall pk, In pk ps -> eligible me (fst pk) = p_active (fst pk).
Proof.
  intros Hnd [mep [k [Hin [Ea Hact]]]] [q kq] Hq. unfold eligible. cbn.
  destruct (p_active q) eqn:Eq; [reflexivity|]. cbn.
  destruct (N.eqb_spec (p_addr q) me) as [E|]; [|reflexivity]. exfalso.
  (* q and mep have the same address, so they are the same list element *)
  assert (Hsame : forall l, NoDup (map (fun pk : proposer * N => p_addr (fst pk)) l) ->
            In (mep, k) l -> In (q, kq) l -> (mep, k) = (q, kq)).
  { induction l as [|x t IH]; cbn; [tauto|]. intros Hn H1 H2.
    inversion Hn as [|? ? Hnot Hn']; subst.
    destruct H1 as [H1|H1], H2 as [H2|H2].
    - congruence.
    - subst x. exfalso. apply Hnot. apply in_map_iff. exists (q, kq). cbn. split; [congruence|auto].
    - subst x. exfalso. apply Hnot. apply in_map_iff. exists (mep, k). cbn. split; [congruence|auto].
    - auto. }
  specialize (Hsame ps Hnd Hin Hq). inversion Hsame; subst. congruence.
Qed.

Lemma filter_ext_in' {A} (f g : A -> bool) l : (forall x, In x l -> f x = g x) -> filter f l = filter g l.
Proof.
  induction l as [|x t IH]; cbn; [auto|]. intros H.
  rewrite (H x (or_introl eq_refl)). rewrite IH; auto.
Qed.

Lemma owner_agreement_lemma me1 me2 ps :
  NoDup (map (fun pk : proposer * N => p_addr (fst pk)) ps) ->
  (exists p k, In (p, k) ps /\ p_addr p = me1 /\ p_active p = true) ->
  (exists p k, In (p, k) ps /\ p_addr p = me2 /\ p_active p = true) ->
  seq_of me1 ps = seq_of me2 ps.
Proof.
  intros Hnd H1 H2. unfold seq_of. f_equal. f_equal.
  apply filter_ext_in'. intros pk Hin.
  rewrite (eligible_active_indep me1 ps Hnd H1 pk Hin).
  rewrite (eligible_active_indep me2 ps Hnd H2 pk Hin). reflexivity.
Qed.

(* for an inactive viewpoint the sequence is "the actives plus me" — stated, not hidden *)
Lemma seq_membership me ps p :
  In p (seq_of me ps) <-> In p (map fst ps) /\ (p_active p = true \/ p_addr p = me).
Proof.
  rewrite in_seq_of. unfold eligible. rewrite orb_true_iff, N.eqb_eq. tauto.
Qed.

(* ---------- is_scheduled: unique owner ---------- *)
Lemma nth_error_nodup_inj {A} (l : list A) i j x :
  NoDup l -> nth_error l i = Some x -> nth_error l j = Some x -> i = j.
Proof.
  intros Hn Hi Hj. apply (proj1 (NoDup_nth_error l) Hn); [|congruence].
  apply nth_error_Some. congruence.
Qed.

Lemma is_scheduled_iff pt T seq t a : 0 < T -> seq <> [] ->
  is_scheduled pt T seq t a = true <->
  pt < t /\ (t - pt) mod T = 0 /\
  nth_error seq (N.to_nat (slot_index pt T (N.of_nat (length seq)) t)) = Some a.
Proof.
  intros HT Hne. unfold is_scheduled.
  destruct (N.leb_spec t pt) as [Hle|Hgt]; [split; [discriminate|lia]|].
  destruct (N.eqb_spec ((t - pt) mod T) 0) as [Hm|Hm]; cbn [negb].
  - destruct (nth_error seq _) as [x|] eqn:E.
    + rewrite N.eqb_eq. split; [intros ->; auto|]. intros [_ [_ H]]. congruence.
    + split; [discriminate|]. intros [_ [_ H]]. discriminate.
  - split; [discriminate|]. intros [_ [H _]]. contradiction.
Qed.

Lemma slot_index_lt pt T n t : 0 < n -> slot_index pt T n t < n.
Proof. intros. unfold slot_index. apply N.mod_lt. lia. Qed.

Lemma slot_owner_unique_lemma pt T seq t : 0 < T -> seq <> [] ->
  pt < t -> (t - pt) mod T = 0 ->
  exists a, In a seq /\ is_scheduled pt T seq t a = true /\
            forall b, is_scheduled pt T seq t b = true -> b = a.
Proof.
  intros HT Hne Hlt Hm.
  assert (Hn : 0 < N.of_nat (length seq)) by (destruct seq; [congruence|cbn; lia]).
  pose proof (slot_index_lt pt T _ t Hn) as Hi.
  destruct (nth_error seq (N.to_nat (slot_index pt T (N.of_nat (length seq)) t))) as [a|] eqn:E.
  - exists a. split; [eapply nth_error_In; eauto|]. split.
    + apply is_scheduled_iff; auto.
    + intros b Hb. apply is_scheduled_iff in Hb; auto. destruct Hb as [_ [_ Hb]]. congruence.
  - exfalso. apply nth_error_None in E. lia.
Qed.

(* every slot of a NoDup sequence has exactly one index: no two members own the same slot, and
   a member owns exactly the slots whose index is its position *)
Lemma owner_position pt T seq t a i : 0 < T -> NoDup seq -> seq <> [] ->
  nth_error seq i = Some a ->
  (is_scheduled pt T seq t a = true <->
   pt < t /\ (t - pt) mod T = 0 /\ N.to_nat (slot_index pt T (N.of_nat (length seq)) t) = i).
Proof.
  intros HT Hnd Hne Hi. rewrite is_scheduled_iff by auto. split.
  - intros [H1 [H2 H3]]. repeat split; auto. eapply nth_error_nodup_inj; eauto.
  - intros [H1 [H2 H3]]. repeat split; auto. now rewrite H3.
Qed.

(* ---------- Schedule ---------- *)
Lemma find_from_some seq me n offset fuel i j :
  find_from seq me n offset fuel i = Some j ->
  i <= j /\ j < i + N.of_nat fuel /\
  nth_error seq (N.to_nat ((j + offset) mod n)) = Some me /\
  forall i', i <= i' -> i' < j -> nth_error seq (N.to_nat ((i' + offset) mod n)) <> Some me.
Proof.
  revert i. induction fuel as [|f IH]; intros i; cbn [find_from]; [discriminate|].
  destruct (nth_error seq (N.to_nat ((i + offset) mod n))) as [a|] eqn:E; [|discriminate].
  destruct (N.eqb_spec a me) as [Ea|Ea].
  - intros H. inversion H; subst. repeat split; try lia; exact E.
  - intros H. apply IH in H. destruct H as [H1 [H2 [H3 H4]]]. repeat split; try lia; auto.
    intros i' Hi1 Hi2. destruct (N.eq_dec i' i) as [->|Hne]; [congruence|]. apply H4; lia.
Qed.

Lemma find_from_none seq me n offset fuel i :
  0 < n -> n = N.of_nat (length seq) ->
  find_from seq me n offset fuel i = None ->
  forall i', i <= i' -> i' < i + N.of_nat fuel -> nth_error seq (N.to_nat ((i' + offset) mod n)) <> Some me.
Proof.
  intros Hn En. revert i. induction fuel as [|f IH]; intros i; cbn [find_from]; [intros; lia|].
  destruct (nth_error seq (N.to_nat ((i + offset) mod n))) as [a|] eqn:E.
  - destruct (N.eqb_spec a me) as [Ea|Ea]; [discriminate|].
    intros H i' H1 H2. destruct (N.eq_dec i' i) as [->|Hne]; [congruence|].
    apply (IH (i + 1) H); lia.
  - exfalso. apply nth_error_None in E.
    assert ((i + offset) mod n < n) by (apply N.mod_lt; lia). lia.
Qed.

Lemma in_nth_error_N (seq : list N) a : In a seq -> exists j, j < N.of_nat (length seq) /\ nth_error seq (N.to_nat j) = Some a.
Proof.
  intros H. apply In_nth_error in H. destruct H as [k Hk].
  exists (N.of_nat k). rewrite Nnat.Nat2N.id. split; [|exact Hk].
  assert (k < length seq)%nat by (apply nth_error_Some; congruence). lia.
Qed.

Theorem schedule_is_earliest_lemma pt T seq me now :
  0 < T -> In me seq ->
  exists t, schedule pt T seq me now = Some t /\
    is_scheduled pt T seq t me = true /\ now <= t /\ pt < t /\
    forall t', now <= t' -> pt < t' -> t' < t -> is_scheduled pt T seq t' me = false.
Proof.
  intros HT Hin.
  assert (Hne : seq <> []) by (destruct seq; [contradiction|congruence]).
  assert (Hn : 0 < N.of_nat (length seq)) by (destruct seq; [congruence|cbn; lia]).
  destruct (first_slot_spec pt T now HT) as [k0 [Hk0 [Ef [Hnow Hmin]]]].
  unfold schedule. rewrite Ef.
  set (n := N.of_nat (length seq)) in *.
  assert (Eoff : (pt + k0 * T - pt) / T - 1 = k0 - 1).
  { replace (pt + k0 * T - pt) with (k0 * T) by lia. rewrite N.div_mul by lia. reflexivity. }
  rewrite Eoff.
  destruct (find_from seq me n (k0 - 1) (length seq) 0) as [i|] eqn:Ef0.
  - apply find_from_some in Ef0. destruct Ef0 as [_ [Hi [Hnth Hearly]]].
    exists (pt + k0 * T + i * T). split; [reflexivity|].
    assert (Et : pt + k0 * T + i * T = pt + (k0 + i) * T) by lia.
    repeat split.
    + apply is_scheduled_iff; auto. rewrite Et. repeat split; [nia| apply aligned_mod; auto|].
      rewrite slot_index_form by lia. fold n.
      replace (k0 + i - 1) with (i + (k0 - 1)) by lia. exact Hnth.
    + nia.
    + nia.
    + intros t' Hnow' Hpt' Hlt'.
      destruct (is_scheduled pt T seq t' me) eqn:Es; [|reflexivity]. exfalso.
      apply is_scheduled_iff in Es; auto. destruct Es as [_ [Hal Hnth']].
      destruct (aligned_form pt T t' HT Hpt' Hal) as [k [Hk Et']].
      specialize (Hmin k Hk ltac:(lia)).
      subst t'. rewrite slot_index_form in Hnth' by lia. fold n in Hnth'.
      apply (Hearly (k - k0)); [lia|nia|].
      replace (k - k0 + (k0 - 1)) with (k - 1) by lia. exact Hnth'.
  - exfalso.
    destruct (in_nth_error_N seq me Hin) as [j [Hj Hnthj]]. fold n in Hj.
    destruct (mod_shift_exists n (k0 - 1) j Hn Hj) as [i [Hi Ei]].
    eapply (find_from_none seq me n (k0 - 1) (length seq) 0 Hn eq_refl Ef0 i); [lia|fold n; lia|].
    rewrite Ei. exact Hnthj.
Qed.

Corollary schedule_accepted_lemma pt T seq me now : 0 < T -> In me seq ->
  exists t, schedule pt T seq me now = Some t /\ is_scheduled pt T seq t me = true.
Proof.
  intros HT Hin. destruct (schedule_is_earliest_lemma pt T seq me now HT Hin) as [t [H1 [H2 _]]].
  eauto.
Qed.
