(* Sched/Arith.v — slot arithmetic lemmas used by the scheduler proofs. *)
From Coq Require Import List NArith ZArith Bool Lia ZifyN ZifyNat ZifyBool.
From Verif Require Import Common.Util Sched.Model.
Import ListNotations.
Open Scope N_scope.
Ltac Zify.zify_post_hook ::= Z.div_mod_to_equations.

Lemma aligned_form pt T t : 0 < T -> pt < t -> (t - pt) mod T = 0 ->
  exists k, 1 <= k /\ t = pt + k * T.
Proof.
  intros HT Hlt Hm. exists ((t - pt) / T). split.
  - assert (H := N.div_mod (t - pt) T ltac:(lia)). rewrite Hm in H.
    destruct (N.eq_dec ((t - pt) / T) 0) as [E|E]; [rewrite E in H; lia | lia].
  - assert (H := N.div_mod (t - pt) T ltac:(lia)). rewrite Hm in H. lia.
Qed.

Lemma slot_index_form pt T n k : 0 < T -> 1 <= k ->
  slot_index pt T n (pt + k * T) = (k - 1) mod n.
Proof.
  intros HT Hk. unfold slot_index. f_equal.
  replace (pt + k * T - pt - T) with ((k - 1) * T) by nia.
  apply N.div_mul. lia.
Qed.

Lemma aligned_mod pt T k : 0 < T -> (pt + k * T - pt) mod T = 0.
Proof. intros HT. replace (pt + k * T - pt) with (k * T) by lia. apply N.mod_mul. lia. Qed.

Lemma first_slot_spec pt T now : 0 < T ->
  exists k0, 1 <= k0 /\ first_slot pt T now = pt + k0 * T /\ now <= pt + k0 * T /\
             (forall k, 1 <= k -> now <= pt + k * T -> k0 <= k).
Proof.
  intros HT. unfold first_slot. destruct (N.ltb_spec (pt + T) now) as [Hlt|Hge].
  - set (d := now - (pt + T)). set (q := (d + T - 1) / T).
    assert (Hq : d + T - 1 = T * q + (d + T - 1) mod T) by (apply N.div_mod; lia).
    assert (Hr : (d + T - 1) mod T < T) by (apply N.mod_lt; lia).
    exists (q + 1). repeat split.
    + lia.
    + lia.
    + subst d. nia.
    + intros k Hk Hnow. subst d. nia.
  - exists 1. repeat split; try lia. 
Qed.

Lemma mod_shift_exists n offset j : 0 < n -> j < n -> exists i, i < n /\ (i + offset) mod n = j.
Proof.
  intros Hn Hj. assert (Ho : offset mod n < n) by (apply N.mod_lt; lia).
  destruct (N.leb_spec (offset mod n) j) as [Hle|Hgt].
  - exists (j - offset mod n). split; [lia|].
    rewrite <- N.add_mod_idemp_r by lia.
    replace (j - offset mod n + offset mod n) with j by lia. apply N.mod_small. lia.
  - exists (j + n - offset mod n). split; [lia|].
    rewrite <- N.add_mod_idemp_r by lia.
    replace (j + n - offset mod n + offset mod n) with (j + 1 * n) by lia.
    rewrite N.mod_add by lia. apply N.mod_small. lia.
Qed.
