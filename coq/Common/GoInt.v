(* Common/GoInt.v — fixed-width Go integer semantics used by the generated (go2v) definitions. *)
From Coq Require Import ZArith Lia.
Open Scope Z_scope.

Definition wrapU (w : Z) (x : Z) : Z := x mod 2 ^ w.
Definition wrapS (w : Z) (x : Z) : Z := (x + 2 ^ (w - 1)) mod 2 ^ w - 2 ^ (w - 1).

Definition inU (w x : Z) : Prop := 0 <= x < 2 ^ w.
Definition inS (w x : Z) : Prop := - 2 ^ (w - 1) <= x < 2 ^ (w - 1).

Lemma wrapU_id w x : inU w x -> wrapU w x = x.
Proof. unfold inU, wrapU. intros. apply Z.mod_small. lia. Qed.

Lemma wrapU_range w x : 0 < w -> inU w (wrapU w x).
Proof. unfold inU, wrapU. intros. apply Z.mod_pos_bound. apply Z.pow_pos_nonneg; lia. Qed.

Lemma wrapS_id w x : 0 < w -> inS w x -> wrapS w x = x.
Proof.
  unfold inS, wrapS. intros Hw H.
  assert (E : 2 ^ w = 2 * 2 ^ (w - 1)).
  { replace w with (1 + (w - 1)) at 1 by lia. rewrite Z.pow_add_r by lia. reflexivity. }
  rewrite Z.mod_small; lia.
Qed.

Lemma wrapS_range w x : 0 < w -> inS w (wrapS w x).
Proof.
  unfold inS, wrapS. intros Hw.
  assert (E : 2 ^ w = 2 * 2 ^ (w - 1)).
  { replace w with (1 + (w - 1)) at 1 by lia. rewrite Z.pow_add_r by lia. reflexivity. }
  assert (P : 0 < 2 ^ (w - 1)) by (apply Z.pow_pos_nonneg; lia).
  pose proof (Z.mod_pos_bound (x + 2 ^ (w - 1)) (2 ^ w) ltac:(lia)). lia.
Qed.
