(* Common/Util.v — small shared definitions: stable keyed insertion sort and list helpers. *)
From Coq Require Import List NArith Bool Lia Permutation.
Import ListNotations.
Open Scope N_scope.

Definition wrap64 (x : N) : N := x mod 18446744073709551616.
Definition wrap32 (x : N) : N := x mod 4294967296.
(* Go's uint64 subtraction a - b : (a + 2^64 - b) mod 2^64 for a, b < 2^64 *)
Definition sub64 (a b : N) : N := (a + 18446744073709551616 - b) mod 18446744073709551616.

Section KeyedSort.
  Context {A : Type}.
  (* insert x before the first element whose key is >= key x : stable w.r.t. fold_right *)
  Fixpoint insert_k (x : A * N) (l : list (A * N)) : list (A * N) :=
    match l with
    | [] => [x]
    | y :: t => if snd y <? snd x then y :: insert_k x t else x :: l
    end.
  Definition sort_k (l : list (A * N)) : list (A * N) := fold_right insert_k [] l.
End KeyedSort.

Fixpoint sumN (l : list N) : N := match l with [] => 0 | x :: t => x + sumN t end.
