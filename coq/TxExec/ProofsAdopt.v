(* TxExec/ProofsAdopt.v — the full Adopt (pre-checks + execution + flow bookkeeping) refines the gas/exec core `adopt`;
   block gas and totals for the full flow. *)
From Coq Require Import ZArith List Bool Lia.
From Verif Require Import Ledger.Model Ledger.Proofs TxExec.Model TxExec.Proofs TxExec.ProofsEffects TxExec.ProofsBlock.
Import ListNotations.
Open Scope Z_scope.

Section AdoptFull.
  Variables W O : Type.
  Variable clause_result : env -> txn -> nat -> Z -> state W -> cres W O.
  Variable write_credit : Z -> Z -> Z -> W -> W.
  Let adoptF := adopt_full W O clause_result write_credit.

  Lemma adopt_pre_none_room e fe fs t ai :
    adopt_pre e fe fs t ai = None -> (e_gas_limit e <? (fs_used fs + t_gas t) mod two64) = false.
  Proof.
    unfold adopt_pre.
    repeat match goal with |- context [if ?c then Some _ else _] => destruct c eqn:?; [discriminate|] end.
    destruct (e_gas_limit e <? (fs_used fs + t_gas t) mod two64); [|reflexivity].
    destruct (_ <=? e_gas_limit e); discriminate.
  Qed.

  Lemma adopt_full_rejected e fe fs t ai ci st0 c st :
    adoptF e fe fs t ai ci st0 = FRejected W O c st -> st = st0.
  Proof.
    unfold adoptF, adopt_full. destruct (adopt_pre e fe fs t ai); [intros H; inversion H; reflexivity|].
    destruct (exec_tx _ _ _ _ _ _ _ _); intros H; inversion H; reflexivity.
  Qed.

  Lemma adopt_full_adopted e fe fs t ai ci st0 st rc fs' :
    adoptF e fe fs t ai ci st0 = FAdopted W O st rc fs' ->
    adopt W O clause_result write_credit e (fs_used fs) t ci st0 = Adopted W O st rc /\
    fs' = mkFS (fs_used fs + r_gas_used O rc) ((ai_id ai, r_reverted O rc) :: fs_processed fs) /\
    adopt_pre e fe fs t ai = None.
  Proof.
    unfold adoptF, adopt_full, adopt. destruct (adopt_pre e fe fs t ai) eqn:EP; [discriminate|].
    rewrite (adopt_pre_none_room _ _ _ _ _ EP).
    destruct (exec_tx _ _ _ _ _ _ _ _); intros H; inversion H; subst. repeat split; reflexivity.
  Qed.

  (* an adopted tx is not known, not expired, not from the future, has room, and its dependency (if any) succeeded *)
  Lemma adopt_pre_none_facts e fe fs t ai : adopt_pre e fe fs t ai = None ->
    lookup_processed (ai_id ai) (fs_processed fs) = None /\ ai_chain_has_tx ai = false /\
    t_ref_num t <= e_number e <= t_ref_num t + ai_expiration ai /\
    (forall dep, ai_depends_on ai = Some dep ->
       lookup_processed dep (fs_processed fs) = Some false \/
       (lookup_processed dep (fs_processed fs) = None /\ ai_chain_dep ai = Some false)).
  Proof.
    unfold adopt_pre.
    repeat match goal with |- context [if ?c then Some _ else _] => destruct c eqn:?; [discriminate|] end.
    destruct (e_gas_limit e <? _); [destruct (_ <=? e_gas_limit e); discriminate|].
    destruct (fee_check e fe t); [discriminate|].
    destruct (lookup_processed (ai_id ai) (fs_processed fs)) eqn:L; [discriminate|].
    destruct (ai_chain_has_tx ai) eqn:C; [discriminate|].
    intros H. split; [reflexivity|]. split; [reflexivity|]. split.
    - repeat match goal with H : (_ <? _) = false |- _ => apply Z.ltb_ge in H end. lia.
    - intros dep Hd. rewrite Hd in H. destruct (lookup_processed dep (fs_processed fs)) as [[|]|] eqn:LD; try discriminate.
      + left; reflexivity.
      + destruct (ai_chain_dep ai) as [[|]|]; try discriminate. right; split; reflexivity.
  Qed.

  Lemma block_gas_full_lemma (OK : oracle_ok W O clause_result) e fe txs :
    2 * e_gas_limit e < two64 ->
    Forall (fun p => 0 <= t_gas (fst (fst p)) < two64 /\
                     Forall (fun c => 0 <= c_zeros c /\ 0 <= c_nonzeros c) (t_clauses (fst (fst p)))) txs ->
    forall fs st rcs fs' st' rcs',
    0 <= fs_used fs <= e_gas_limit e -> fs_used fs = sum_used O rcs ->
    adopt_all_full W O clause_result write_credit e fe fs txs st rcs = (fs', st', rcs') ->
    fs_used fs' = sum_used O rcs' /\ 0 <= fs_used fs' <= e_gas_limit e.
  Proof.
    intros HL HF. induction HF as [|[[t ai] ci] rest [Hg Hc] _ IH]; intros fs st rcs fs' st' rcs' Hu Hs H; cbn in H.
    - inversion H; subst. split; [assumption|lia].
    - cbn [fst] in *. destruct (adopt_full _ _ _ _ _ _ _ _ _ _ _) as [c s1|s1 rc fs1] eqn:EA.
      + apply IH in H; auto.
      + apply adopt_full_adopted in EA. destruct EA as [EA [-> _]].
        apply IH in H; auto; cbn [fs_used].
        * unfold adopt in EA. destruct (e_gas_limit e <? (fs_used fs + t_gas t) mod two64) eqn:EM; [discriminate|].
          apply Z.ltb_ge in EM.
          destruct (exec_tx _ _ _ _ _ _ _ _) as [|s2 rc2] eqn:EX; [discriminate|]. inversion EA; subst.
          apply (gas_bounds_lemma W O clause_result write_credit OK) in EX. destruct EX as [ig [EI [[G1 G2] [G3 _]]]].
          pose proof (intrinsic_pos _ _ Hc EI). unfold tx_gas in *.
          rewrite Z.mod_small in EM by (unfold two64 in *; lia). lia.
        * rewrite sum_used_app. cbn. lia.
  Qed.

  Fixpoint flow_full_burned (e : env) (fe : flow_env) (fs : flow_state) (txs : list (txn * adopt_in * credit_info)) (st : state W) : Z * Z :=
    match txs with
    | [] => (0, 0)
    | (t, ai, ci) :: rest =>
      match adopt_full W O clause_result write_credit e fe fs t ai ci st with
      | FRejected _ _ _ st' => flow_full_burned e fe fs rest st'
      | FAdopted _ _ st' rc fs' =>
        let b := tx_burned W O clause_result e t ci st in
        let r := flow_full_burned e fe fs' rest st' in (fst b + fst r, snd b + snd r)
      end
    end.

  Fixpoint flow_full_forall (P : txn -> credit_info -> state W -> Prop) (e : env) (fe : flow_env) (fs : flow_state)
           (txs : list (txn * adopt_in * credit_info)) (st : state W) : Prop :=
    match txs with
    | [] => True
    | (t, ai, ci) :: rest =>
      match adopt_full W O clause_result write_credit e fe fs t ai ci st with
      | FRejected _ _ _ st' => flow_full_forall P e fe fs rest st'
      | FAdopted _ _ st' rc fs' => P t ci st /\ flow_full_forall P e fe fs' rest st'
      end
    end.
  Definition flow_full_ops_ok (dom : list Z) (e : env) := flow_full_forall (fun t ci st => tx_ops_ok W O clause_result dom e t ci st) e.
  Definition flow_full_no_self (e : env) := flow_full_forall (fun t ci st => tx_no_self W O clause_result e t ci st) e.

  Lemma adopt_all_full_totals e fe dom :
    let T := e_time e in let S := e_stop e in
    NoDup dom -> In (e_benef e) dom ->
    forall txs fs st rcs fs' st' rcs',
    flow_full_ops_ok dom e fe fs txs st ->
    adopt_all_full W O clause_result write_credit e fe fs txs st rcs = (fs', st', rcs') ->
    Forall (fun rc => In (r_payer O rc) dom) rcs' ->
    exists new, rcs' = rcs ++ new /\
      sum_eng T S dom (l_acc (fst st')) =
        sum_eng T S dom (l_acc (fst st)) + sum_reward O new - sum_paid O new - snd (flow_full_burned e fe fs txs st) /\
      sum_bal dom (l_acc (fst st')) = sum_bal dom (l_acc (fst st)) - fst (flow_full_burned e fe fs txs st).
  Proof.
    intros T S ND HB. induction txs as [|[[t ai] ci] rest IH]; intros fs st rcs fs' st' rcs' N H HP; cbn in H.
    - inversion H; subst. exists []. rewrite app_nil_r. cbn. repeat split; lia.
    - unfold flow_full_ops_ok in N. cbn [flow_full_burned flow_full_forall] in *. destruct (adopt_full _ _ _ _ _ _ _ _ _ _ _) as [c s1|s1 rc fs1] eqn:EA.
      + apply adopt_full_rejected in EA. subst s1. eapply IH; eauto.
      + destruct N as [N N'].
        destruct (IH _ _ _ _ _ _ N' H HP) as [new [E1 [E2 E3]]].
        assert (HIn : In (r_payer O rc) dom).
        { rewrite Forall_forall in HP. apply HP. rewrite E1. apply in_or_app. left. apply in_or_app. right. left. reflexivity. }
        apply adopt_full_adopted in EA. destruct EA as [EA _].
        unfold adopt in EA. destruct (_ <? _); [discriminate|].
        destruct (exec_tx _ _ _ _ _ _ _ _) as [|s2 rc2] eqn:EX; [discriminate|]. inversion EA; subst s2 rc2.
        pose proof (tx_totals_exact_lemma W O clause_result write_credit e t ci st s1 rc dom N ND HIn HB EX) as [D1 D2].
        exists (rc :: new). rewrite <- app_assoc in E1. split; [exact E1|].
        change (rc :: new) with ([rc] ++ new). rewrite sum_reward_app, sum_paid_app. cbn.
        fold T S in D1. split; lia.
  Qed.

  Lemma flow_full_burned_none e fe txs : forall fs st, flow_full_no_self e fe fs txs st -> flow_full_burned e fe fs txs st = (0, 0).
  Proof.
    induction txs as [|[[t ai] ci] rest IH]; intros fs st NS; [reflexivity|]. unfold flow_full_no_self in NS. cbn [flow_full_burned flow_full_forall] in *.
    destruct (adopt_full _ _ _ _ _ _ _ _ _ _ _); [apply IH; exact NS|]. destruct NS as [N1 N2].
    rewrite (tx_burned_none W O clause_result) by exact N1. rewrite IH by exact N2. reflexivity.
  Qed.
End AdoptFull.
