(* TxExec/ProofsBlock.v — the VET / VTHO totals over a whole block flow (Adopt*, then DistributeRewards if PoS is active),
   EXACT: including what self-destructs to self destroy. *)
From Coq Require Import ZArith List Bool Lia.
From Verif Require Import Ledger.Model Ledger.Proofs TxExec.Model TxExec.Proofs TxExec.ProofsEffects.
Import ListNotations.
Open Scope Z_scope.

Section Block.
  Variables W O : Type.
  Variable clause_result : env -> txn -> nat -> Z -> state W -> cres W O.
  Variable write_credit : Z -> Z -> Z -> W -> W.

  Definition sum_reward (rcs : list (receipt O)) : Z := fold_right (fun rc a => r_reward O rc + a) 0 rcs.
  Definition sum_paid (rcs : list (receipt O)) : Z := fold_right (fun rc a => r_paid O rc + a) 0 rcs.
  Lemma sum_reward_app a b : sum_reward (a ++ b) = sum_reward a + sum_reward b.
  Proof. unfold sum_reward. induction a; cbn [app fold_right]; [reflexivity|]. rewrite IHa. lia. Qed.
  Lemma sum_paid_app a b : sum_paid (a ++ b) = sum_paid a + sum_paid b.
  Proof. unfold sum_paid. induction a; cbn [app fold_right]; [reflexivity|]. rewrite IHa. lia. Qed.

  (* what the adopted transactions of a flow burn by self-destructs to self: sum of tx_burned, each on the state the flow had
     when it adopted that transaction (specification companion of adopt_all) *)
  Fixpoint flow_burned (e : env) (used : Z) (txs : list (txn * credit_info)) (st : state W) : Z * Z :=
    match txs with
    | [] => (0, 0)
    | (t, ci) :: rest =>
      match adopt W O clause_result write_credit e used t ci st with
      | Rejected _ _ st' => flow_burned e used rest st'
      | Adopted _ _ st' rc =>
        let b := tx_burned W O clause_result e t ci st in
        let r := flow_burned e (used + r_gas_used O rc) rest st' in (fst b + fst r, snd b + snd r)
      end
    end.

  (* P holds for every transaction the flow adopts, on the state the flow has when it adopts it (specification companion) *)
  Fixpoint flow_forall (P : txn -> credit_info -> state W -> Prop) (e : env) (used : Z) (txs : list (txn * credit_info)) (st : state W) : Prop :=
    match txs with
    | [] => True
    | (t, ci) :: rest =>
      match adopt W O clause_result write_credit e used t ci st with
      | Rejected _ _ st' => flow_forall P e used rest st'
      | Adopted _ _ st' rc => P t ci st /\ flow_forall P e (used + r_gas_used O rc) rest st'
      end
    end.
  (* the primitives of the clauses executed by the adopted transactions are of the clause kinds and inside dom — dom is the
     union of what the block's transactions touch (effs_ok_mono: a per-transaction set may be enlarged) *)
  Definition flow_ops_ok (dom : list Z) (e : env) := flow_forall (fun t ci st => tx_ops_ok W O clause_result dom e t ci st) e.
  Definition flow_no_self (e : env) := flow_forall (fun t ci st => tx_no_self W O clause_result e t ci st) e.

  Lemma flow_forall_global (P : txn -> credit_info -> state W -> Prop) e txs : (forall t ci st, P t ci st) -> forall used st, flow_forall P e used txs st.
  Proof.
    intros G. induction txs as [|[t ci] rest IH]; intros used st; cbn; [exact I|].
    destruct (adopt _ _ _ _ _ _ _ _ _); [apply IH|split; [apply G|apply IH]].
  Qed.

  Lemma adopt_all_totals e dom :
    let T := e_time e in let S := e_stop e in
    NoDup dom -> In (e_benef e) dom ->
    forall txs used st rcs used' st' rcs',
    flow_ops_ok dom e used txs st ->
    adopt_all W O clause_result write_credit e used txs st rcs = (used', st', rcs') ->
    Forall (fun rc => In (r_payer O rc) dom) rcs' ->
    exists new, rcs' = rcs ++ new /\
      sum_eng T S dom (l_acc (fst st')) =
        sum_eng T S dom (l_acc (fst st)) + sum_reward new - sum_paid new - snd (flow_burned e used txs st) /\
      sum_bal dom (l_acc (fst st')) = sum_bal dom (l_acc (fst st)) - fst (flow_burned e used txs st).
  Proof.
    intros T S ND HB. induction txs as [|[t ci] rest IH]; intros used st rcs used' st' rcs' N H HP; cbn in H.
    - inversion H; subst. exists []. rewrite app_nil_r. cbn. repeat split; lia.
    - unfold flow_ops_ok in N. cbn [flow_burned flow_forall] in *. destruct (adopt _ _ _ _ _ _ _ _ _) as [s1|s1 rc] eqn:EA.
      + apply adopt_rejected_unchanged_lemma in EA. subst s1. eapply IH; eauto.
      + destruct N as [N N'].
        destruct (IH _ _ _ _ _ _ N' H HP) as [new [E1 [E2 E3]]].
        assert (HIn : In (r_payer O rc) dom).
        { rewrite Forall_forall in HP. apply HP. rewrite E1. apply in_or_app. left. apply in_or_app. right. left. reflexivity. }
        unfold adopt in EA. destruct (_ <? _); [discriminate|].
        destruct (exec_tx _ _ _ _ _ _ _ _) as [|s2 rc2] eqn:EX; [discriminate|]. inversion EA; subst s2 rc2.
        pose proof (tx_totals_exact_lemma W O clause_result write_credit e t ci st s1 rc dom N ND HIn HB EX) as [D1 D2].
        exists (rc :: new). rewrite <- app_assoc in E1. split; [exact E1|].
        change (rc :: new) with ([rc] ++ new). rewrite sum_reward_app, sum_paid_app. cbn.
        fold T S in D1. split; lia.
  Qed.

  (* a whole block: the adopted transactions, then (PoS active) the staking reward *)
  Definition block_flow (e : env) (txs : list (txn * credit_info)) (st : state W)
             (staking : option (Z * Z * Z * bool)) (deleg : Z) : Z * state W * list (receipt O) :=
    let '(used, st1, rcs) := adopt_all W O clause_result write_credit e 0 txs st [] in
    match staking with
    | None => (used, st1, rcs)
    | Some (reward, perc, _, has_delegations) =>
      (used, (distribute (e_time e) (e_stop e) (fst st1) (e_benef e) deleg reward perc has_delegations, snd st1), rcs)
    end.

  Theorem block_totals_exact_lemma e dom txs st staking deleg used st' rcs :
    let T := e_time e in let S := e_stop e in
    flow_ops_ok dom e 0 txs st -> NoDup dom -> In (e_benef e) dom ->
    (match staking with Some _ => In deleg dom | None => True end) ->
    block_flow e txs st staking deleg = (used, st', rcs) ->
    Forall (fun rc => In (r_payer O rc) dom) rcs ->
    sum_eng T S dom (l_acc (fst st')) =
      sum_eng T S dom (l_acc (fst st)) + sum_reward rcs - sum_paid rcs
      + (match staking with Some (reward, _, _, _) => reward | None => 0 end) - snd (flow_burned e 0 txs st) /\
    sum_bal dom (l_acc (fst st')) = sum_bal dom (l_acc (fst st)) - fst (flow_burned e 0 txs st).
  Proof.
    intros T S N ND HB HD. unfold block_flow.
    destruct (adopt_all _ _ _ _ _ _ _ _ _) as [[u s1] rs] eqn:EA.
    destruct staking as [[[[reward perc] x] hd]|]; intros H HP; inversion H; subst; clear H.
    - destruct (adopt_all_totals e dom ND HB _ _ _ _ _ _ _ N EA HP) as [new [E1 [E2 E3]]]. cbn in E1. subst new.
      cbn [fst]. fold T S. rewrite distribute_eng, distribute_bal by assumption. fold T S in E2. split; lia.
    - destruct (adopt_all_totals e dom ND HB _ _ _ _ _ _ _ N EA HP) as [new [E1 [E2 E3]]]. cbn in E1. subst new.
      fold T S in E2. split; lia.
  Qed.

  (* when no executed clause performs a self-destruct to self nothing is burned *)
  Definition no_self_destruct_to_self : Prop :=
    forall e t i g st o, In o (cr_ops _ _ (clause_result e t i g st)) -> self_destruct_to_self o = false.

  Lemma burned_by_none T S effs : effs_no_self W O effs -> burned_by W O T S effs = (0, 0).
  Proof.
    induction effs as [|p t IH]; intros H; [reflexivity|]. rewrite burned_by_cons.
    rewrite IH by (intros q o Hq; apply H; right; exact Hq).
    rewrite burned_none by (intros o Ho; apply (H p o); [left; reflexivity|exact Ho]). reflexivity.
  Qed.

  Lemma tx_burned_none e t ci st : tx_no_self W O clause_result e t ci st -> tx_burned W O clause_result e t ci st = (0, 0).
  Proof. intros NS. unfold tx_burned. destruct (any_error _ _ _); [reflexivity|]. apply burned_by_none. exact NS. Qed.

  Lemma no_self_tx : no_self_destruct_to_self -> forall e t ci st, tx_no_self W O clause_result e t ci st.
  Proof.
    intros G e t ci st p o Hp Ho. destruct (tx_effects_in W O clause_result _ _ _ _ _ Hp) as [j [g [s E]]]. rewrite E in Ho. exact (G e t j g s o Ho).
  Qed.

  Lemma flow_burned_none e txs : forall used st, flow_no_self e used txs st -> flow_burned e used txs st = (0, 0).
  Proof.
    induction txs as [|[t ci] rest IH]; intros used st NS; [reflexivity|]. unfold flow_no_self in NS. cbn [flow_burned flow_forall] in *.
    destruct (adopt _ _ _ _ _ _ _ _ _); [apply IH; exact NS|]. destruct NS as [N1 N2].
    rewrite tx_burned_none by exact N1. rewrite IH by exact N2. reflexivity.
  Qed.
End Block.
