(* TxExec/Proofs.v — gas bounds, atomicity, not-started-no-change, block gas sum, price floor, VTHO delta of a tx. *)
From Coq Require Import ZArith List Bool Lia.
From Verif Require Import Ledger.Model Ledger.Proofs TxExec.Model.
Import ListNotations.
Open Scope Z_scope.

(* ---------------------------------------------------------------- intrinsic gas *)
Lemma safe_add_spec a b r : safe_add a b = Some r -> r = a + b.
Proof. unfold safe_add. destruct (_ <? _); intros H; inversion H; reflexivity. Qed.

Lemma intrinsic_loop_ge cs : forall tot r, Forall (fun c => 0 <= c_zeros c /\ 0 <= c_nonzeros c) cs ->
  intrinsic_loop cs tot = Some r -> tot <= r.
Proof.
  induction cs as [|c t IH]; intros tot r HF H; cbn in H; [inversion H; lia|].
  inversion HF as [|? ? [Hz Hn] HF']; subst.
  destruct (data_gas (c_zeros c) (c_nonzeros c)) as [g|] eqn:Eg; [|discriminate].
  destruct (safe_add tot g) as [t1|] eqn:E1; [|discriminate].
  destruct (safe_add t1 _) as [t2|] eqn:E2; [|discriminate].
  apply safe_add_spec in E1, E2. apply IH in H; [|exact HF'].
  assert (0 <= g).
  { unfold data_gas in Eg. destruct (_ =? 0); [inversion Eg; lia|].
    unfold safe_mul in Eg. destruct (4 * _ <? _); [|discriminate]. destruct (68 * _ <? _); [|discriminate].
    apply safe_add_spec in Eg. lia. }
  unfold clause_gas_creation, clause_gas in E2. destruct (c_to c); lia.
Qed.

Section ExecProofs.
  Variables W O : Type.
  Variable clause_result : env -> txn -> nat -> Z -> state W -> cres W O.
  Variable write_credit : Z -> Z -> Z -> W -> W.

  (* the only assumption about the EVM: it hands back no more gas than it was given, and a non-negative refund counter *)
  Definition oracle_ok : Prop :=
    forall e t i g st, 0 <= g -> 0 <= cr_left _ _ (clause_result e t i g st) <= g /\ 0 <= cr_refund _ _ (clause_result e t i g st).
  Definition cr_ok (cr : nat -> Z -> state W -> cres W O) : Prop :=
    forall i g st, 0 <= g -> 0 <= cr_left _ _ (cr i g st) <= g /\ 0 <= cr_refund _ _ (cr i g st).

  Definition log_ok (log : list (Z * Z * Z)) : Prop :=
    Forall (fun x => let '(gin, used, refund) := x in 0 <= refund /\ 2 * refund <= used /\ used <= gin) log.
  Definition log_used (log : list (Z * Z * Z)) : Z := fold_right (fun x a => let '(_, used, _) := x in used + a) 0 log.
  Definition log_refund (log : list (Z * Z * Z)) : Z := fold_right (fun x a => let '(_, _, rf) := x in rf + a) 0 log.

  Lemma log_used_app l1 l2 : log_used (l1 ++ l2) = log_used l1 + log_used l2.
  Proof. unfold log_used. induction l1 as [|[[? ?] ?] t IH]; cbn [app fold_right]; [reflexivity|]. rewrite IH. lia. Qed.
  Lemma log_refund_app l1 l2 : log_refund (l1 ++ l2) = log_refund l1 + log_refund l2.
  Proof. unfold log_refund. induction l1 as [|[[? ?] ?] t IH]; cbn [app fold_right]; [reflexivity|]. rewrite IH. lia. Qed.

  Lemma log_ok_half log : log_ok log -> 2 * log_refund log <= log_used log.
  Proof.
    intros B. induction B as [|[[gin used] rf] tl Hx _ IH]; [cbn; lia|].
    unfold log_refund, log_used in *. cbn [fold_right]. cbv beta iota in Hx. lia.
  Qed.

  Lemma step_facts g l rc : 0 <= l <= g -> 0 <= rc ->
    let used := g - l in let refund := Z.min (used / 2) rc in
    0 <= refund /\ 2 * refund <= used /\ used <= g /\ 0 <= l + refund <= g.
  Proof.
    intros H1 H2 used refund. subst used refund.
    pose proof (Z.div_mod (g - l) 2 ltac:(lia)). pose proof (Z.mod_pos_bound (g - l) 2 ltac:(lia)). lia.
  Qed.

  Lemma run_clauses_inv cr T S (OK : cr_ok cr) cp cs : forall i lft st outs log lft' st' outs' rev log',
    0 <= lft -> log_ok log ->
    run_clauses W O cr T S cp i cs lft st outs log = (lft', st', outs', rev, log') ->
    0 <= lft' <= lft /\ log_ok log' /\
    lft - lft' = (log_used log' - log_used log) - (log_refund log' - log_refund log) /\
    (rev = true -> st' = cp /\ outs' = []) /\
    (rev = false -> length outs' = (length outs + length cs)%nat).
  Proof.
    induction cs as [|c rest IH]; intros i lft st outs log lft' st' outs' rev log' H0 HL H; cbn in H.
    - inversion H; subst. repeat split; try lia; auto; try discriminate.
    - destruct (OK i lft st H0) as [Hl Hr].
      set (r := cr i lft st) in *.
      pose proof (step_facts lft (cr_left _ _ r) (cr_refund _ _ r) Hl Hr) as [F1 [F2 [F3 F4]]]. cbv zeta in *.
      assert (HL' : log_ok (log ++ [(lft, lft - cr_left _ _ r, Z.min ((lft - cr_left _ _ r) / 2) (cr_refund _ _ r))])).
      { apply Forall_app. split; [exact HL|]. constructor; [|constructor]. cbv beta iota. lia. }
      destruct (cr_err _ _ r) eqn:E.
      + inversion H; subst. rewrite log_used_app, log_refund_app. cbn.
        split; [lia|]. split; [exact HL'|]. split; [lia|]. split; [intros _; split; reflexivity|discriminate].
      + apply IH in H; [|lia|exact HL']. destruct H as [A [B [C [D E']]]].
        rewrite log_used_app, log_refund_app in C. cbn in C.
        split; [lia|]. split; [exact B|]. split; [lia|]. split; [exact D|].
        intros Hrev. rewrite (E' Hrev), app_length. cbn. lia.
  Qed.

  Lemma pay_spec T S l who prepaid price tracked other b :
    pay T S l who prepaid price tracked other = inr b ->
    (b = mkBought price who tracked prepaid (fst (energy_sub T S l who prepaid)) /\ snd (energy_sub T S l who prepaid) = true)
    \/ other = inr b.
  Proof.
    unfold pay. destruct (energy_sub T S l who prepaid) as [l1 ok]. destruct ok; intros H.
    - left. inversion H. split; reflexivity.
    - right. exact H.
  Qed.

  Definition bought_ok (e : env) (t : txn) (l : ledger) (b : bought) : Prop :=
    b_prepaid b = t_gas t * b_price b /\
    b_led b = fst (energy_sub (e_time e) (e_stop e) l (b_payer b) (b_prepaid b)) /\
    snd (energy_sub (e_time e) (e_stop e) l (b_payer b) (b_prepaid b)) = true /\
    (forall bf, e_base_fee e = Some bf -> bf <= b_price b).

  Lemma buy_gas_spec e t ci l b : buy_gas e t ci l = inr b -> bought_ok e t l b.
  Proof.
    unfold buy_gas. destruct (if t_dynamic t then e_base_fee e else Some 0) as [bf0|]; [|discriminate].
    set (price := effective_price e t bf0).
    destruct (match e_base_fee e with Some bf => price <? bf | None => false end) eqn:EB; [discriminate|].
    assert (HP : forall bf, e_base_fee e = Some bf -> bf <= price).
    { intros bf Hbf. rewrite Hbf in EB. apply Z.ltb_ge in EB. exact EB. }
    assert (G : forall who tr other, (forall b', other = inr b' -> bought_ok e t l b') ->
              forall b', pay (e_time e) (e_stop e) l who (t_gas t * price) price tr other = inr b' -> bought_ok e t l b').
    { intros who tr other HO b' Hp. apply pay_spec in Hp. destruct Hp as [[-> Hs]|Hp]; [|auto].
      unfold bought_ok; cbn. repeat split; auto. }
    assert (G0 : forall b', (inl ErrInsufficientEnergy : start_err + bought) = inr b' -> bought_ok e t l b') by discriminate.
    destruct (t_delegator t).
    - apply G. exact G0.
    - destruct (common_to (t_clauses t)).
      + destruct (_ <=? k_credit ci).
        * destruct (k_is_sponsor ci); repeat (apply G); exact G0.
        * apply G. exact G0.
      + apply G. exact G0.
  Qed.

  Lemma resolve_spec t ig : resolve t = inr ig -> intrinsic_gas (t_clauses t) = Some ig /\ ig <= t_gas t.
  Proof.
    unfold resolve. destruct (negb (t_sig_ok t)); [discriminate|].
    destruct (intrinsic_gas (t_clauses t)) as [g|]; [|discriminate].
    destruct (t_gas t <? g) eqn:E; [discriminate|]. apply Z.ltb_ge in E.
    repeat match goal with |- context [if ?c then _ else _] => destruct c; try discriminate end.
    intros H; inversion H; subst. split; [reflexivity|lia].
  Qed.

  Lemma intrinsic_pos cs ig : Forall (fun c => 0 <= c_zeros c /\ 0 <= c_nonzeros c) cs ->
    intrinsic_gas cs = Some ig -> tx_gas <= ig.
  Proof.
    intros HF H. destruct cs as [|c cs]; [cbn in H; inversion H; unfold tx_gas, clause_gas; lia|].
    unfold intrinsic_gas in H. apply intrinsic_loop_ge in H; auto.
  Qed.

  (* ---------------------------------------------------------------- C07: gas bounds *)
  Theorem gas_bounds_lemma (OK : oracle_ok) e t ci st0 st rc :
    exec_tx W O clause_result write_credit e t ci st0 = Done W O st rc ->
    exists ig, intrinsic_gas (t_clauses t) = Some ig /\
      ig <= r_gas_used O rc <= t_gas t /\
      t_gas t <= e_gas_limit e /\
      r_paid O rc = r_gas_used O rc * r_price O rc /\
      log_ok (r_clause_log O rc) /\
      r_gas_used O rc = ig + log_used (r_clause_log O rc) - log_refund (r_clause_log O rc) /\
      2 * log_refund (r_clause_log O rc) <= log_used (r_clause_log O rc).
  Proof.
    unfold exec_tx. destruct (resolve t) as [err|ig] eqn:ER; [discriminate|].
    apply resolve_spec in ER. destruct ER as [EI Hig].
    destruct (e_gas_limit e <? t_gas t) eqn:EL; [discriminate|]. apply Z.ltb_ge in EL.
    destruct (buy_gas e t ci (fst st0)) as [err|b]; [discriminate|].
    destruct (t_ctx_err t); [discriminate|].
    destruct (run_clauses _ _ _ _ _ _ _ _ _ _ _ _) as [[[[lft st2] outs] rev] log] eqn:ERC.
    intros H; inversion H; subst; clear H.
    cbn [r_gas_used r_paid r_reward r_reverted r_outputs r_payer r_price r_credit r_clause_log].
    apply (run_clauses_inv _ _ _ (OK e t)) in ERC; [|lia|constructor].
    destruct ERC as [A [B [C _]]]. change (log_used []) with 0 in C. change (log_refund []) with 0 in C.
    pose proof (log_ok_half log B).
    exists ig. repeat split; try lia; auto.
  Qed.

  (* ---------------------------------------------------------------- C07: atomicity *)
  Theorem tx_atomic_lemma (OK : oracle_ok) e t ci st0 st rc :
    exec_tx W O clause_result write_credit e t ci st0 = Done W O st rc -> r_reverted O rc = true ->
    let T := e_time e in let S := e_stop e in
    let prepaid := t_gas t * r_price O rc in
    let returned := (t_gas t - r_gas_used O rc) * r_price O rc in
    r_outputs O rc = [] /\
    snd (energy_sub T S (fst st0) (r_payer O rc) prepaid) = true /\
    fst st = energy_add T S (energy_add T S (fst (energy_sub T S (fst st0) (r_payer O rc) prepaid))
                                        (r_payer O rc) returned) (e_benef e) (r_reward O rc) /\
    (snd st = snd st0 \/
     exists to credit', r_credit O rc = Some credit' /\ common_to (t_clauses t) = Some to /\
                        snd st = write_credit to (t_origin t) credit' (snd st0)).
  Proof.
    unfold exec_tx. destruct (resolve t) as [err|ig] eqn:ER; [discriminate|].
    destruct (e_gas_limit e <? t_gas t); [discriminate|].
    destruct (buy_gas e t ci (fst st0)) as [err|b] eqn:EB; [discriminate|].
    apply buy_gas_spec in EB. destruct EB as [Hpre [Hled [Hok _]]].
    destruct (t_ctx_err t); [discriminate|].
    destruct (run_clauses _ _ _ _ _ _ _ _ _ _ _ _) as [[[[lft st2] outs] rev] log] eqn:ERC.
    intros H Hrev; inversion H; subst; clear H. cbn in Hrev. subst rev. cbn.
    apply resolve_spec in ER. destruct ER as [_ Hig].
    apply (run_clauses_inv _ _ _ (OK e t)) in ERC; [|lia|constructor].
    destruct ERC as [_ [_ [_ [D _]]]]. destruct (D eq_refl) as [-> ->]. cbn [fst snd].
    rewrite <- Hpre.
    replace (t_gas t - (t_gas t - lft)) with lft by lia.
    split; [reflexivity|]. split; [exact Hok|]. split; [rewrite Hled; reflexivity|].
    destruct (b_credit_tracked b && k_is_user ci); [|left; reflexivity].
    destruct (common_to (t_clauses t)) as [to|]; [|left; reflexivity].
    right. eexists _, _. repeat split; reflexivity.
  Qed.

  (* a transaction that cannot start changes nothing (the ToContext failure leaves the debit: undone by the packer, below) *)
  Theorem not_started_unchanged_lemma e t ci st0 err st :
    exec_tx W O clause_result write_credit e t ci st0 = Failed W O err st -> err <> ErrContext -> st = st0.
  Proof.
    unfold exec_tx. destruct (resolve t); [intros H; inversion H; reflexivity|].
    destruct (_ <? t_gas t); [intros H; inversion H; reflexivity|].
    destruct (buy_gas _ _ _ _); [intros H; inversion H; reflexivity|].
    destruct (t_ctx_err t); [intros H; inversion H; congruence|].
    destruct (run_clauses _ _ _ _ _ _ _ _ _ _ _ _) as [[[[? ?] ?] ?] ?]. discriminate.
  Qed.

  Theorem adopt_rejected_unchanged_lemma e used t ci st0 st :
    adopt W O clause_result write_credit e used t ci st0 = Rejected W O st -> st = st0.
  Proof.
    unfold adopt. destruct (_ <? _); [intros H; inversion H; reflexivity|].
    destruct (exec_tx _ _ _ _ _ _ _ _); intros H; inversion H; reflexivity.
  Qed.

  (* ---------------------------------------------------------------- C07: block gas *)
  Definition sum_used (rcs : list (receipt O)) : Z := fold_right (fun rc a => r_gas_used O rc + a) 0 rcs.
  Lemma sum_used_app a b : sum_used (a ++ b) = sum_used a + sum_used b.
  Proof. unfold sum_used. induction a; cbn [app fold_right]; [reflexivity|]. rewrite IHa. lia. Qed.

  Theorem block_gas_lemma (OK : oracle_ok) e txs :
    2 * e_gas_limit e < two64 ->
    Forall (fun p => 0 <= t_gas (fst p) < two64 /\
                     Forall (fun c => 0 <= c_zeros c /\ 0 <= c_nonzeros c) (t_clauses (fst p))) txs ->
    forall used st rcs used' st' rcs',
    0 <= used <= e_gas_limit e -> used = sum_used rcs ->
    adopt_all W O clause_result write_credit e used txs st rcs = (used', st', rcs') ->
    used' = sum_used rcs' /\ 0 <= used' <= e_gas_limit e.
  Proof.
    intros HL HF. induction HF as [|[t ci] rest [Hg Hc] _ IH]; intros used st rcs used' st' rcs' Hu Hs H; cbn in H.
    - inversion H; subst. split; [reflexivity|lia].
    - cbn [fst] in *. destruct (adopt _ _ _ _ _ _ _ _ _) as [s1|s1 rc] eqn:EA.
      + apply IH in H; auto.
      + apply IH in H; auto.
        * unfold adopt in EA. destruct (e_gas_limit e <? (used + t_gas t) mod two64) eqn:EM; [discriminate|].
          apply Z.ltb_ge in EM.
          destruct (exec_tx _ _ _ _ _ _ _ _) as [|s2 rc2] eqn:EX; [discriminate|]. inversion EA; subst.
          apply (gas_bounds_lemma OK) in EX. destruct EX as [ig [EI [[G1 G2] [G3 _]]]].
          pose proof (intrinsic_pos _ _ Hc EI). unfold tx_gas in *.
          rewrite Z.mod_small in EM by (unfold two64 in *; lia). lia.
        * rewrite sum_used_app. cbn. lia.
  Qed.

  (* ---------------------------------------------------------------- C08: price floor and the VTHO delta of one tx *)
  Theorem price_ge_basefee_lemma e t ci st0 st rc bf :
    exec_tx W O clause_result write_credit e t ci st0 = Done W O st rc -> e_base_fee e = Some bf ->
    bf <= r_price O rc.
  Proof.
    unfold exec_tx. destruct (resolve t); [discriminate|]. destruct (_ <? t_gas t); [discriminate|].
    destruct (buy_gas e t ci (fst st0)) as [|b] eqn:EB; [discriminate|]. apply buy_gas_spec in EB.
    destruct (t_ctx_err t); [discriminate|].
    destruct (run_clauses _ _ _ _ _ _ _ _ _ _ _ _) as [[[[? ?] ?] ?] ?].
    intros H Hbf; inversion H; subst; cbn. destruct EB as [_ [_ [_ HP]]]. auto.
  Qed.

End ExecProofs.
