(* TxExec/Model.v — the transaction wrapper of runtime/runtime.go (PrepareTransaction / ExecuteTransaction / Finalize),
   runtime/resolved_tx.go (ResolveTransaction, CommonTo, BuyGas), tx/transaction.go (IntrinsicGas, EffectiveGasPrice,
   OverallGasPrice, EffectivePriorityFeePerGas, workToGas) and the gas part of packer/flow.go Adopt.  Definitions only.
   What a clause does (the EVM, property C10) is an ORACLE: clause_result index gas_in state.
   Signature recovery, proved-work hashing, prototype credit computation are inputs.  big.Int = Z; the uint64 sums that the
   code guards with SafeAdd/SafeMul and the packer's unguarded gasUsed+gas are written with their 2^64 bound. *)
From Coq Require Import ZArith List Bool.
From Verif Require Import Ledger.Model.
Import ListNotations.
Open Scope Z_scope.

Definition two64 : Z := 18446744073709551616.
Definition two256 : Z := 2 ^ 256.

Record clause := mkClause { c_to : option Z; c_zeros : Z; c_nonzeros : Z; c_value : Z }.

Record txn := mkTx {
  t_dynamic : bool;            (* tx.TypeDynamicFee *)
  t_gas : Z;
  t_clauses : list clause;
  t_coef : Z;                  (* legacy gasPriceCoef *)
  t_max_fee : Z; t_max_prio : Z;
  t_origin : Z; t_sig_ok : bool;                 (* Origin() succeeded *)
  t_delegator : option Z; t_delegator_ok : bool; (* Delegator() succeeded *)
  t_ref_num : Z;               (* BlockRef().Number() *)
  t_pw_ctx : Z;                (* ProvedWork(ctx.Number, ..)   — hash, computed by the real code *)
  t_pw_fin : Z;                (* ProvedWork(ctx.Number-1, ..) *)
  t_ctx_err : bool             (* ToContext fails (block id lookup error) *)
}.

Record env := mkEnv {
  e_time : Z; e_stop : Z;      (* block time, energy growth stop time *)
  e_number : Z; e_galactica : Z;
  e_gas_limit : Z;
  e_base_fee : option Z;
  e_bgp : Z;                   (* params: legacy tx base gas price *)
  e_reward_ratio : Z;          (* params: reward ratio *)
  e_benef : Z;
  e_interval : Z               (* thor.BlockInterval() *)
}.

(* prototype binding of the common To: UserCredit(origin, time), CurrentSponsor, IsSponsor(sponsor), IsUser(origin) *)
Record credit_info := mkCI { k_credit : Z; k_sponsor : Z; k_is_sponsor : bool; k_is_user : bool }.

Inductive start_err :=
| ErrOrigin | ErrIntrinsicOverflow | ErrGasBelowIntrinsic | ErrDelegator | ErrNegativeValue | ErrValueTooLarge
| ErrFeeField | ErrBlockGasLimit | ErrPanicNilBaseFee | ErrPriceBelowBaseFee | ErrInsufficientEnergy | ErrContext.

(* ---------------------------------------------------------------- tx/transaction.go *)
Definition safe_add (a b : Z) : option Z := if a + b <? two64 then Some (a + b) else None.
Definition safe_mul (a b : Z) : option Z := if a * b <? two64 then Some (a * b) else None.

Definition tx_gas : Z := 5000.
Definition clause_gas : Z := 16000.
Definition clause_gas_creation : Z := 48000.

Definition data_gas (z nz : Z) : option Z :=
  if z + nz =? 0 then Some 0
  else match safe_mul 4 z with None => None | Some zg =>
       match safe_mul 68 nz with None => None | Some nzg => safe_add zg nzg end end.

Fixpoint intrinsic_loop (cs : list clause) (total : Z) : option Z :=
  match cs with
  | [] => Some total
  | c :: t =>
    match data_gas (c_zeros c) (c_nonzeros c) with None => None | Some g =>
    match safe_add total g with None => None | Some t1 =>
    match safe_add t1 (match c_to c with None => clause_gas_creation | Some _ => clause_gas end) with
    | None => None | Some t2 => intrinsic_loop t t2 end end end
  end.
Definition intrinsic_gas (cs : list clause) : option Z :=
  match cs with [] => Some (tx_gas + clause_gas) | _ => intrinsic_loop cs tx_gas end.

Definition legacy_price (bgp coef : Z) : Z := coef * bgp / 255 + bgp.

Definition work_to_gas (work ref_num interval : Z) : Z :=
  let gas := work / 1000 in
  if gas =? 0 then 0
  else let months := ref_num * interval / 3600 / 24 / 30 in
       let gas := if months =? 0 then gas else gas * 100 ^ months / 104 ^ months in
       if gas <? two64 then gas else two64 - 1.

Definition overall_price (e : env) (t : txn) (pw : Z) : Z :=
  if t_dynamic t then t_max_fee t
  else let gp := legacy_price (e_bgp e) (t_coef t) in
       if pw =? 0 then gp
       else let wgas := work_to_gas pw (t_ref_num t) (e_interval e) in
            if wgas =? 0 then gp
            else let wgas := if t_gas t <? wgas then t_gas t else wgas in
                 wgas * e_bgp e / t_gas t + gp.

Definition effective_price (e : env) (t : txn) (bf : Z) : Z :=
  if t_dynamic t then Z.min (t_max_fee t) (t_max_prio t + bf) else legacy_price (e_bgp e) (t_coef t).

Definition priority_fee (e : env) (t : txn) (bf : Z) : Z :=
  let (mp, mf) := if t_dynamic t then (t_max_prio t, t_max_fee t)
                  else let o := overall_price e t (t_pw_ctx t) in (o, o) in
  Z.min (mf - bf) mp.

(* ---------------------------------------------------------------- resolved_tx.go *)
Definition sum_values (cs : list clause) : Z := fold_right (fun c a => c_value c + a) 0 cs.

Definition resolve (t : txn) : start_err + Z :=
  if negb (t_sig_ok t) then inl ErrOrigin
  else match intrinsic_gas (t_clauses t) with
  | None => inl ErrIntrinsicOverflow
  | Some ig =>
    if t_gas t <? ig then inl ErrGasBelowIntrinsic
    else if negb (t_delegator_ok t) then inl ErrDelegator
    else if existsb (fun c => c_value c <? 0) (t_clauses t) then inl ErrNegativeValue
    else if two256 <=? sum_values (t_clauses t) then inl ErrValueTooLarge
    else if t_dynamic t &&
            ((t_max_fee t <? 0) || (t_max_prio t <? 0) || (two256 <=? t_max_fee t) || (two256 <=? t_max_prio t)
             || (t_max_fee t <? t_max_prio t)) then inl ErrFeeField
    else inr ig
  end.

Definition common_to (cs : list clause) : option Z :=
  match cs with
  | [] => None
  | c :: rest =>
    match c_to c with
    | None => None
    | Some a => if forallb (fun c' => match c_to c' with Some b => b =? a | None => false end) rest then Some a else None
    end
  end.

Record bought := mkBought { b_price : Z; b_payer : Z; b_credit_tracked : bool; b_prepaid : Z; b_led : ledger }.

Definition pay (T S : Z) (l : ledger) (who prepaid price : Z) (tracked : bool) (otherwise : start_err + bought)
  : start_err + bought :=
  let '(l1, ok) := energy_sub T S l who prepaid in
  if ok then inr (mkBought price who tracked prepaid l1) else otherwise.

Definition buy_gas (e : env) (t : txn) (ci : credit_info) (l : ledger) : start_err + bought :=
  let T := e_time e in let S := e_stop e in
  match (if t_dynamic t then e_base_fee e else Some 0) with
  | None => inl ErrPanicNilBaseFee
  | Some bf0 =>
    let price := effective_price e t bf0 in
    if match e_base_fee e with Some bf => price <? bf | None => false end then inl ErrPriceBelowBaseFee
    else
      let prepaid := t_gas t * price in
      match t_delegator t with
      | Some d => pay T S l d prepaid price false (inl ErrInsufficientEnergy)
      | None =>
        let by_origin := pay T S l (t_origin t) prepaid price false (inl ErrInsufficientEnergy) in
        match common_to (t_clauses t) with
        | Some to =>
          if prepaid <=? k_credit ci then
            let by_to := pay T S l to prepaid price true by_origin in
            if k_is_sponsor ci then pay T S l (k_sponsor ci) prepaid price true by_to else by_to
          else by_origin
        | None => by_origin
        end
      end
  end.

(* ---------------------------------------------------------------- runtime.go *)
Section Exec.
  Variables W O : Type.                         (* the rest of the world state; a clause output *)
  Definition state : Type := ledger * W.
  (* what one clause did: gas handed back, refund counter, VM error, the ledger primitives it performed in order (transfers,
     energy moves through the builtin, self-destructs), the rest of the world after it, its output *)
  Record cres := mkCres { cr_left : Z; cr_refund : Z; cr_err : bool; cr_ops : list op; cr_world : W; cr_out : O }.
  Definition cres_state (T S : Z) (st : state) (r : cres) : state := (apply_ops T S (fst st) (cr_ops r), cr_world r).
  (* the ORACLE for the EVM: block context, transaction, clause index, gas handed in, state before the clause *)
  Variable clause_result : env -> txn -> nat -> Z -> state -> cres.
  Variable write_credit : Z -> Z -> Z -> W -> W.   (* prototype binding SetUserCredit(commonTo)(origin, value) *)

  Record receipt := mkReceipt {
    r_gas_used : Z; r_paid : Z; r_reward : Z; r_reverted : bool; r_outputs : list O; r_payer : Z;
    r_price : Z;
    r_credit : option Z;                (* new user credit written, if any *)
    r_clause_log : list (Z * Z * Z)     (* per executed clause: gas in, gas consumed, refund applied *)
  }.

  Inductive outcome :=
  | Failed (err : start_err) (st : state)   (* st = the state the runtime leaves behind *)
  | Done (st : state) (rc : receipt).

  (* the exec closure of PrepareTransaction, iterated as ExecuteTransaction does *)
  Fixpoint run_clauses (cr : nat -> Z -> state -> cres) (T S : Z) (checkpoint : state) (i : nat) (cs : list clause) (lft : Z)
           (st : state) (outs : list O) (log : list (Z * Z * Z)) : Z * state * list O * bool * list (Z * Z * Z) :=
    match cs with
    | [] => (lft, st, outs, false, log)
    | _ :: rest =>
      let r := cr i lft st in
      let used := lft - cr_left r in
      let refund := Z.min (used / 2) (cr_refund r) in
      let lft' := cr_left r + refund in
      let log' := log ++ [(lft, used, refund)] in
      if cr_err r then (lft', checkpoint, [], true, log')
      else run_clauses cr T S checkpoint (Datatypes.S i) rest lft' (cres_state T S st r) (outs ++ [cr_out r]) log'
    end.

  (* specification companions of the loop: the results of executing EVERY clause in order, each on the state left by the
     previous one with the gas left by the previous one (errors ignored) *)
  Fixpoint effects_of (cr : nat -> Z -> state -> cres) (T S : Z) (i : nat) (cs : list clause) (lft : Z) (st : state)
    : list (state * cres) :=
    match cs with
    | [] => []
    | _ :: rest =>
      let r := cr i lft st in
      let used := lft - cr_left r in
      let lft' := cr_left r + Z.min (used / 2) (cr_refund r) in
      (st, r) :: effects_of cr T S (Datatypes.S i) rest lft' (cres_state T S st r)
    end.
  Definition state_after (T S : Z) (effs : list (state * cres)) (st : state) : state :=
    fold_left (fun _ p => cres_state T S (fst p) (snd p)) effs st.
  Definition any_error (effs : list (state * cres)) : bool := existsb (fun p => cr_err (snd p)) effs.
  Definition burned_by (T S : Z) (effs : list (state * cres)) : Z * Z :=
    fold_right (fun p acc => let '(b, e) := burned T S (fst (fst p)) (cr_ops (snd p)) in (b + fst acc, e + snd acc)) (0, 0) effs.

  Definition reward_of (e : env) (t : txn) (gas_used : Z) : Z :=
    if e_number e <? e_galactica e
    then gas_used * overall_price e t (t_pw_fin t) * e_reward_ratio e / e18
    else priority_fee e t (match e_base_fee e with Some bf => bf | None => 0 end) * gas_used.

  Definition exec_tx (e : env) (t : txn) (ci : credit_info) (st0 : state) : outcome :=
    let T := e_time e in let S := e_stop e in
    match resolve t with
    | inl err => Failed err st0
    | inr ig =>
      if e_gas_limit e <? t_gas t then Failed ErrBlockGasLimit st0
      else match buy_gas e t ci (fst st0) with
      | inl err => Failed err st0
      | inr b =>
        let st1 : state := (b_led b, snd st0) in
        if t_ctx_err t then Failed ErrContext st1
        else
          let '(lft, st2, outs, reverted, log) := run_clauses (clause_result e t) T S st1 0%nat (t_clauses t) (t_gas t - ig) st1 [] [] in
          let gas_used := t_gas t - lft in
          let paid := gas_used * b_price b in
          let returned := lft * b_price b in
          let l3 := energy_add T S (fst st2) (b_payer b) returned in
          let track := b_credit_tracked b && k_is_user ci in
          let credit' := k_credit ci - (b_prepaid b - returned) in
          let w3 := if track
                    then match common_to (t_clauses t) with Some to => write_credit to (t_origin t) credit' (snd st2)
                                                          | None => snd st2 end
                    else snd st2 in
          let reward := reward_of e t gas_used in
          let l4 := energy_add T S l3 (e_benef e) reward in
          Done (l4, w3)
               (mkReceipt gas_used paid reward reverted outs (b_payer b) (b_price b)
                          (if track then Some credit' else None) log)
      end
    end.

  (* the clause results of a started transaction (specification view) and what its self-destructs-to-self destroyed: nothing
     when the transaction reverts (the state is restored), else the sum over its clauses *)
  Definition tx_effects (e : env) (t : txn) (ci : credit_info) (st0 : state) : list (state * cres) :=
    match resolve t, buy_gas e t ci (fst st0) with
    | inr ig, inr b => effects_of (clause_result e t) (e_time e) (e_stop e) 0%nat (t_clauses t) (t_gas t - ig) (b_led b, snd st0)
    | _, _ => []
    end.
  Definition tx_burned (e : env) (t : txn) (ci : credit_info) (st0 : state) : Z * Z :=
    let effs := tx_effects e t ci st0 in
    if any_error effs then (0, 0) else burned_by (e_time e) (e_stop e) effs.

  (* packer/flow.go Adopt: gas room check (uint64 sum, unguarded), checkpoint, execute, revert on error *)
  Inductive adopt_result := Rejected (st : state) | Adopted (st : state) (rc : receipt).
  Definition adopt (e : env) (used : Z) (t : txn) (ci : credit_info) (st0 : state) : adopt_result :=
    if e_gas_limit e <? (used + t_gas t) mod two64 then Rejected st0
    else match exec_tx e t ci st0 with
         | Failed _ _ => Rejected st0            (* RevertTo(checkpoint) *)
         | Done st rc => Adopted st rc
         end.

  (* a block's flow: credit infos are read from the state before each tx (input list) *)
  Fixpoint adopt_all (e : env) (used : Z) (txs : list (txn * credit_info)) (st : state) (rcs : list receipt)
    : Z * state * list receipt :=
    match txs with
    | [] => (used, st, rcs)
    | (t, ci) :: rest =>
      match adopt e used t ci st with
      | Rejected st' => adopt_all e used rest st' rcs
      | Adopted st' rc => adopt_all e (used + r_gas_used rc) rest st' (rcs ++ [rc])
      end
    end.
  (* ---------------------------------------------------------------- packer/flow.go Adopt in full: the pre-checks in the
     order of the code, then checkpoint / ExecuteTransaction / RevertTo, then the flow's bookkeeping.  Blocklist membership,
     feature bits, chain tag, tx id, chain lookups (HasTransaction, GetTransactionMeta) are inputs. *)
  Record adopt_in := mkAI {
    ai_origin_blocked : bool; ai_delegator_blocked : bool;     (* thor.IsOriginBlocked *)
    ai_features_ok : bool;                                      (* TestFeatures(flow features) = nil *)
    ai_chain_tag_ok : bool;
    ai_expiration : Z;
    ai_id : Z;
    ai_depends_on : option Z;
    ai_chain_has_tx : bool;                                     (* Chain().HasTransaction(id, ref) *)
    ai_chain_dep : option bool                                  (* Chain().GetTransactionMeta(dep): Some reverted | not found *)
  }.
  Record flow_env := mkFE { fe_blocklist : Z; fe_min_prio : Z }.   (* forkConfig.BLOCKLIST, packer.minTxPriorityFee *)
  Record flow_state := mkFS { fs_used : Z; fs_processed : list (Z * bool) }.

  Inductive adopt_class := AcBadTx | AcNotAdoptableNow | AcGasLimitReached | AcKnownTx | AcNotAdoptableForever | AcOtherError.
  Inductive adopt_full_result := FRejected (c : adopt_class) (st : state) | FAdopted (st : state) (rc : receipt) (fs : flow_state).

  Fixpoint lookup_processed (id : Z) (l : list (Z * bool)) : option bool :=
    match l with [] => None | (k, v) :: t => if k =? id then Some v else lookup_processed id t end.

  Definition fee_check (e : env) (fe : flow_env) (t : txn) : option adopt_class :=
    if e_number e <? e_galactica e then (if t_dynamic t then Some AcBadTx else None)
    else if t_ctx_err t then Some AcOtherError            (* validateTxFee: ProvedWork lookup error, returned as is *)
    else match e_base_fee e with
         | None => Some AcOtherError                      (* nil base fee after the fork: not reachable from Schedule *)
         | Some bf =>
           if effective_price e t bf <? bf then Some AcNotAdoptableNow
           else if fe_min_prio fe <=? 0 then None
           else if priority_fee e t bf <? fe_min_prio fe then Some AcBadTx else None
         end.

  Definition adopt_pre (e : env) (fe : flow_env) (fs : flow_state) (t : txn) (ai : adopt_in) : option adopt_class :=
    let listed := fe_blocklist fe <=? e_number e in
    if listed && ai_origin_blocked ai then Some AcBadTx
    else if negb (t_delegator_ok t) then Some AcBadTx
    else if listed && (match t_delegator t with Some _ => ai_delegator_blocked ai | None => false end) then Some AcBadTx
    else if negb (ai_features_ok ai) then Some AcBadTx
    else if negb (ai_chain_tag_ok ai) then Some AcBadTx
    else if e_number e <? t_ref_num t then Some AcNotAdoptableNow
    else if t_ref_num t + ai_expiration ai <? e_number e then Some AcBadTx
    else if e_gas_limit e <? (fs_used fs + t_gas t) mod two64 then
      (if (fs_used fs + tx_gas + clause_gas) mod two64 <=? e_gas_limit e then Some AcNotAdoptableNow else Some AcGasLimitReached)
    else match fee_check e fe t with
    | Some c => Some c
    | None =>
      if (match lookup_processed (ai_id ai) (fs_processed fs) with Some _ => true | None => ai_chain_has_tx ai end) then Some AcKnownTx
      else match ai_depends_on ai with
      | None => None
      | Some dep =>
        match (match lookup_processed dep (fs_processed fs) with Some r => Some r | None => ai_chain_dep ai end) with
        | None => Some AcNotAdoptableNow
        | Some true => Some AcNotAdoptableForever
        | Some false => None
        end
      end
    end.

  Definition adopt_full (e : env) (fe : flow_env) (fs : flow_state) (t : txn) (ai : adopt_in) (ci : credit_info) (st0 : state)
    : adopt_full_result :=
    match adopt_pre e fe fs t ai with
    | Some c => FRejected c st0
    | None =>
      match exec_tx e t ci st0 with
      | Failed _ _ => FRejected AcBadTx st0          (* RevertTo(checkpoint) *)
      | Done st rc => FAdopted st rc (mkFS (fs_used fs + r_gas_used rc) ((ai_id ai, r_reverted rc) :: fs_processed fs))
      end
    end.

  Fixpoint adopt_all_full (e : env) (fe : flow_env) (fs : flow_state) (txs : list (txn * adopt_in * credit_info)) (st : state)
           (rcs : list receipt) : flow_state * state * list receipt :=
    match txs with
    | [] => (fs, st, rcs)
    | (t, ai, ci) :: rest =>
      match adopt_full e fe fs t ai ci st with
      | FRejected _ st' => adopt_all_full e fe fs rest st' rcs
      | FAdopted st' rc fs' => adopt_all_full e fe fs' rest st' (rcs ++ [rc])
      end
    end.
End Exec.
