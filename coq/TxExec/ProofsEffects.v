(* TxExec/ProofsEffects.v — the clause loop against its specification view (effects_of): success applies every clause in order,
   the reverted flag is exactly "some executed clause failed"; exact VET / VTHO totals of a transaction from the ledger
   primitives its clauses perform, self-destructs to self included (no assumption that "the VM conserves"). *)
From Coq Require Import ZArith List Bool Lia.
From Verif Require Import Ledger.Model Ledger.Proofs TxExec.Model TxExec.Proofs.
Import ListNotations.
Open Scope Z_scope.

Section Effects.
  Variables W O : Type.
  Variable clause_result : env -> txn -> nat -> Z -> state W -> cres W O.
  Variable write_credit : Z -> Z -> Z -> W -> W.

  Definition outs_of (effs : list (state W * cres W O)) : list O := map (fun p => cr_out _ _ (snd p)) effs.

  Lemma effects_length cr T S cs : forall i lft st, length (effects_of W O cr T S i cs lft st) = length cs.
  Proof. induction cs as [|c rest IH]; intros; cbn; [reflexivity|]. rewrite IH. reflexivity. Qed.

  Lemma state_after_cons T S p effs st : state_after W O T S (p :: effs) st = state_after W O T S effs (cres_state W O T S (fst p) (snd p)).
  Proof. reflexivity. Qed.

  Lemma run_clauses_effects cr T S cp cs : forall i lft st outs log lft' st' outs' rev log',
    run_clauses W O cr T S cp i cs lft st outs log = (lft', st', outs', rev, log') ->
    let effs := effects_of W O cr T S i cs lft st in
    rev = any_error W O effs /\
    (rev = false -> st' = state_after W O T S effs st /\ outs' = outs ++ outs_of effs) /\
    (rev = true -> st' = cp /\ outs' = []).
  Proof.
    induction cs as [|c rest IH]; intros i lft st outs log lft' st' outs' rev log' H; cbn in H.
    - inversion H; subst. cbn. rewrite app_nil_r. repeat split; try discriminate; reflexivity.
    - cbn [effects_of]. cbv zeta. unfold any_error. cbn [existsb snd].
      destruct (cr_err W O (cr i lft st)) eqn:E.
      + inversion H; subst. cbn [orb]. repeat split; try discriminate; reflexivity.
      + apply IH in H. cbv zeta in H. destruct H as [A [B C]]. cbn [orb]. split; [exact A|]. split; [|exact C].
        intros R. destruct (B R) as [B1 B2]. split.
        * rewrite state_after_cons. exact B1.
        * rewrite B2. unfold outs_of. cbn [map snd]. rewrite <- app_assoc. reflexivity.
  Qed.

  (* ---------------------------------------------------------------- C07: the success half of atomicity, and the flag *)
  Theorem tx_outcome_lemma e t ci st0 st rc :
    exec_tx W O clause_result write_credit e t ci st0 = Done W O st rc ->
    let T := e_time e in let S := e_stop e in
    let effs := tx_effects W O clause_result e t ci st0 in
    let prepaid := t_gas t * r_price O rc in
    let returned := (t_gas t - r_gas_used O rc) * r_price O rc in
    let st1 : state W := (fst (energy_sub T S (fst st0) (r_payer O rc) prepaid), snd st0) in
    length effs = length (t_clauses t) /\
    r_reverted O rc = any_error W O effs /\
    (r_reverted O rc = false ->
       r_outputs O rc = outs_of effs /\ length (r_outputs O rc) = length (t_clauses t) /\
       fst st = energy_add T S (energy_add T S (fst (state_after W O T S effs st1)) (r_payer O rc) returned) (e_benef e) (r_reward O rc) /\
       (snd st = snd (state_after W O T S effs st1) \/
        exists to credit', r_credit O rc = Some credit' /\ common_to (t_clauses t) = Some to /\
                           snd st = write_credit to (t_origin t) credit' (snd (state_after W O T S effs st1)))).
  Proof.
    unfold exec_tx, tx_effects. destruct (resolve t) as [err|ig] eqn:ER; [discriminate|].
    destruct (e_gas_limit e <? t_gas t); [discriminate|].
    destruct (buy_gas e t ci (fst st0)) as [err|b] eqn:EB; [discriminate|].
    apply buy_gas_spec in EB. destruct EB as [Hpre [Hled [Hok _]]].
    destruct (t_ctx_err t); [discriminate|].
    destruct (run_clauses _ _ _ _ _ _ _ _ _ _ _ _) as [[[[lft st2] outs] rev] log] eqn:ERC.
    intros H; inversion H; subst; clear H. cbn [r_reverted r_outputs r_payer r_price r_gas_used r_reward r_credit].
    apply run_clauses_effects in ERC. cbv zeta in ERC. destruct ERC as [A [B C]].
    rewrite <- Hpre, <- Hled.
    replace (t_gas t - (t_gas t - lft)) with lft by lia.
    split; [apply effects_length|]. split; [exact A|].
    intros R. destruct (B R) as [-> ->]. cbn [app].
    split; [reflexivity|]. split; [unfold outs_of; rewrite map_length; apply effects_length|].
    cbn [fst snd]. split; [reflexivity|].
    destruct (b_credit_tracked b && k_is_user ci); [|left; reflexivity].
    destruct (common_to (t_clauses t)) as [to|]; [|left; reflexivity].
    right. eexists _, _. repeat split; reflexivity.
  Qed.

  (* ---------------------------------------------------------------- C08: totals of the clause loop from its ledger primitives *)
  (* every primitive a non-failing clause performs is a transfer / energy move / self-destruct and touches only addresses of dom *)
  Definition clause_ops_ok (dom : list Z) : Prop :=
    forall e t i g st, cr_err _ _ (clause_result e t i g st) = false ->
      forall o, In o (cr_ops _ _ (clause_result e t i g st)) -> clause_kind o = true /\ covers dom o.
  Definition cr_ops_ok (dom : list Z) (cr : nat -> Z -> state W -> cres W O) : Prop :=
    forall i g st, cr_err _ _ (cr i g st) = false -> forall o, In o (cr_ops _ _ (cr i g st)) -> clause_kind o = true /\ covers dom o.
  (* no clause touches an address of dom at all *)
  Definition cr_ops_avoid (dom : list Z) (cr : nat -> Z -> state W -> cres W O) : Prop :=
    forall i g st o a, In o (cr_ops _ _ (cr i g st)) -> In a (touches o) -> ~ In a dom.
  Definition clause_ops_avoid (dom : list Z) : Prop := forall e t, cr_ops_avoid dom (clause_result e t).

  (* PER EXECUTION (the premises of the theorems): the same, about the clauses THIS transaction actually executes on THIS state —
     dom may depend on the transaction, the block context and the state (the global forms above quantify one dom over every
     transaction and are only sufficient conditions, satisfiable by oracles whose address set does not depend on the transaction) *)
  Definition effs_ok (dom : list Z) (effs : list (state W * cres W O)) : Prop :=
    forall p, In p effs -> cr_err _ _ (snd p) = false -> forall o, In o (cr_ops _ _ (snd p)) -> clause_kind o = true /\ covers dom o.
  Definition effs_quiet (dom : list Z) (effs : list (state W * cres W O)) : Prop :=
    forall p o, In p effs -> In o (cr_ops _ _ (snd p)) -> energy_quiet dom o.
  Definition effs_avoid (dom : list Z) (effs : list (state W * cres W O)) : Prop :=
    forall p o a, In p effs -> In o (cr_ops _ _ (snd p)) -> In a (touches o) -> ~ In a dom.
  Definition effs_no_self (effs : list (state W * cres W O)) : Prop :=
    forall p o, In p effs -> In o (cr_ops _ _ (snd p)) -> self_destruct_to_self o = false.
  Definition tx_ops_ok (dom : list Z) e t ci st0 : Prop := effs_ok dom (tx_effects W O clause_result e t ci st0).
  Definition tx_ops_quiet (dom : list Z) e t ci st0 : Prop := effs_quiet dom (tx_effects W O clause_result e t ci st0).
  Definition tx_ops_avoid (dom : list Z) e t ci st0 : Prop := effs_avoid dom (tx_effects W O clause_result e t ci st0).
  Definition tx_no_self e t ci st0 : Prop := effs_no_self (tx_effects W O clause_result e t ci st0).

  Lemma effs_ok_mono dom dom' effs : incl dom dom' -> effs_ok dom effs -> effs_ok dom' effs.
  Proof.
    intros I H p Hp E o Ho. destruct (H p Hp E o Ho) as [K C]. split; [exact K|]. intros a Ha. apply I. exact (C a Ha).
  Qed.

  Lemma effects_in cr T S cs : forall i lft st p, In p (effects_of W O cr T S i cs lft st) -> exists j g s, snd p = cr j g s.
  Proof.
    induction cs as [|c rest IH]; intros i lft st p H; [contradiction|]. cbn [effects_of] in H. cbv zeta in H.
    destruct H as [<-|H]; [eexists _, _, _; reflexivity|]. eapply IH; exact H.
  Qed.

  Lemma tx_effects_in e t ci st0 p : In p (tx_effects W O clause_result e t ci st0) -> exists j g s, snd p = clause_result e t j g s.
  Proof.
    unfold tx_effects. destruct (resolve t); [contradiction|]. destruct (buy_gas _ _ _ _); [contradiction|]. apply effects_in.
  Qed.

  (* the global forms imply the per-execution ones *)
  Lemma clause_ops_ok_tx dom : clause_ops_ok dom -> forall e t ci st0, tx_ops_ok dom e t ci st0.
  Proof.
    intros G e t ci st0 p Hp E o Ho. destruct (tx_effects_in _ _ _ _ _ Hp) as [j [g [s Eq]]]. rewrite Eq in E, Ho. exact (G e t j g s E o Ho).
  Qed.
  Lemma clause_ops_avoid_tx dom : clause_ops_avoid dom -> forall e t ci st0, tx_ops_avoid dom e t ci st0.
  Proof.
    intros G e t ci st0 p o a Hp Ho Ha. destruct (tx_effects_in _ _ _ _ _ Hp) as [j [g [s Eq]]]. rewrite Eq in Ho. exact (G e t j g s o a Ho Ha).
  Qed.
  Lemma effs_avoid_quiet dom effs : effs_avoid dom effs -> effs_quiet dom effs.
  Proof. intros H p o Hp Ho. right. intros a Ha. exact (H p o a Hp Ho Ha). Qed.

  Lemma burned_by_cons T S p effs :
    burned_by W O T S (p :: effs) =
    (fst (burned T S (fst (fst p)) (cr_ops _ _ (snd p))) + fst (burned_by W O T S effs),
     snd (burned T S (fst (fst p)) (cr_ops _ _ (snd p))) + snd (burned_by W O T S effs)).
  Proof. unfold burned_by. cbn [fold_right]. destruct (burned T S _ _). reflexivity. Qed.

  Lemma effects_totals cr T S dom (ND : NoDup dom) cs : forall i lft st,
    let effs := effects_of W O cr T S i cs lft st in
    effs_ok dom effs -> any_error W O effs = false ->
    sum_bal dom (l_acc (fst (state_after W O T S effs st))) = sum_bal dom (l_acc (fst st)) - fst (burned_by W O T S effs) /\
    sum_eng T S dom (l_acc (fst (state_after W O T S effs st))) = sum_eng T S dom (l_acc (fst st)) - snd (burned_by W O T S effs).
  Proof.
    induction cs as [|c rest IH]; intros i lft st effs OK HE; subst effs; [cbn; split; lia|].
    cbn [effects_of] in *. cbv zeta in *. unfold any_error in HE. cbn [existsb snd] in HE. apply orb_false_iff in HE. destruct HE as [E1 E2].
    rewrite state_after_cons, burned_by_cons. cbn [fst snd].
    destruct (IH _ _ _ (fun p Hp => OK p (or_intror Hp)) E2) as [A B]. rewrite A, B. clear A B IH.
    unfold cres_state. cbn [fst].
    pose proof (OK _ (or_introl eq_refl) E1) as K. cbn [snd] in K.
    destruct (ops_totals_exact T S (cr_ops _ _ (cr i lft st)) (fst st) dom ND (fun o Ho => proj2 (K o Ho))) as [C D].
    rewrite C, D. rewrite (clause_ops_no_delta T S _ (fst st) (fun o Ho => proj1 (K o Ho))). split; lia.
  Qed.

  Lemma effects_avoid cr T S dom cs : forall i lft st,
    let effs := effects_of W O cr T S i cs lft st in
    effs_avoid dom effs ->
    sum_bal dom (l_acc (fst (state_after W O T S effs st))) = sum_bal dom (l_acc (fst st)).
  Proof.
    induction cs as [|c rest IH]; intros i lft st effs AV; subst effs; [reflexivity|].
    cbn [effects_of] in *. cbv zeta in *. rewrite state_after_cons. cbn [fst snd].
    rewrite IH by (intros p o a Hp; apply AV; right; exact Hp).
    unfold cres_state, sum_bal. cbn [fst].
    apply sumf_ext; intros a Ha; apply untouched_ops; intros o Ho C; exact (AV _ o a (or_introl eq_refl) Ho C Ha).
  Qed.

  Lemma effects_quiet cr T S dom cs : forall i lft st,
    let effs := effects_of W O cr T S i cs lft st in
    effs_quiet dom effs ->
    sum_eng T S dom (l_acc (fst (state_after W O T S effs st))) = sum_eng T S dom (l_acc (fst st)).
  Proof.
    induction cs as [|c rest IH]; intros i lft st effs Q; subst effs; [reflexivity|].
    cbn [effects_of] in *. cbv zeta in *. rewrite state_after_cons. cbn [fst snd].
    rewrite IH by (intros p o Hp; apply Q; right; exact Hp).
    unfold cres_state. cbn [fst]. apply energy_quiet_ops. intros o Ho. exact (Q _ o (or_introl eq_refl) Ho).
  Qed.

  Lemma tx_burned_unfold e t ci st0 ig b :
    resolve t = inr ig -> buy_gas e t ci (fst st0) = inr b ->
    tx_burned W O clause_result e t ci st0 =
    (let effs := effects_of W O (clause_result e t) (e_time e) (e_stop e) 0%nat (t_clauses t) (t_gas t - ig) (b_led b, snd st0) in
     if any_error W O effs then (0, 0) else burned_by W O (e_time e) (e_stop e) effs).
  Proof. intros R B. unfold tx_burned, tx_effects. rewrite R, B. reflexivity. Qed.

  (* EXACT totals of one transaction: no assumption on what the clauses conserve — they perform ledger primitives *)
  Theorem tx_totals_exact_lemma e t ci st0 st rc dom :
    let T := e_time e in let S := e_stop e in
    tx_ops_ok dom e t ci st0 -> NoDup dom -> In (r_payer O rc) dom -> In (e_benef e) dom ->
    exec_tx W O clause_result write_credit e t ci st0 = Done W O st rc ->
    sum_eng T S dom (l_acc (fst st)) =
      sum_eng T S dom (l_acc (fst st0)) + r_reward O rc - r_paid O rc - snd (tx_burned W O clause_result e t ci st0) /\
    sum_bal dom (l_acc (fst st)) = sum_bal dom (l_acc (fst st0)) - fst (tx_burned W O clause_result e t ci st0).
  Proof.
    intros T S OKc ND. subst T S. unfold tx_ops_ok, tx_effects in OKc.
    unfold exec_tx. destruct (resolve t) as [|ig] eqn:ER; [discriminate|]. destruct (_ <? t_gas t); [discriminate|].
    destruct (buy_gas e t ci (fst st0)) as [|b] eqn:EB; [discriminate|].
    rewrite (tx_burned_unfold e t ci st0 ig b ER EB). cbv zeta.
    apply buy_gas_spec in EB. destruct EB as [Hpre [Hled [Hok _]]].
    destruct (t_ctx_err t); [discriminate|].
    destruct (run_clauses _ _ _ _ _ _ _ _ _ _ _ _) as [[[[lft st2] outs] rev] log] eqn:ERC.
    intros Hp Hb H; inversion H; subst; clear H. cbn in Hp |- *.
    rewrite energy_add_eng, energy_add_bal by assumption.
    rewrite energy_add_eng, energy_add_bal by assumption.
    apply run_clauses_effects in ERC. cbv zeta in ERC. destruct ERC as [A [B C]].
    assert (E2 : sum_bal dom (l_acc (fst st2)) = sum_bal dom (l_acc (b_led b)) -
                   fst (if any_error W O (effects_of W O (clause_result e t) (e_time e) (e_stop e) 0%nat (t_clauses t) (t_gas t - ig) (b_led b, snd st0))
                        then (0, 0) else burned_by W O (e_time e) (e_stop e) (effects_of W O (clause_result e t) (e_time e) (e_stop e) 0%nat (t_clauses t) (t_gas t - ig) (b_led b, snd st0))) /\
                 sum_eng (e_time e) (e_stop e) dom (l_acc (fst st2)) = sum_eng (e_time e) (e_stop e) dom (l_acc (b_led b)) -
                   snd (if any_error W O (effects_of W O (clause_result e t) (e_time e) (e_stop e) 0%nat (t_clauses t) (t_gas t - ig) (b_led b, snd st0))
                        then (0, 0) else burned_by W O (e_time e) (e_stop e) (effects_of W O (clause_result e t) (e_time e) (e_stop e) 0%nat (t_clauses t) (t_gas t - ig) (b_led b, snd st0)))).
    { rewrite <- A. destruct rev.
      - destruct (C eq_refl) as [-> _]. cbn [fst snd]. split; lia.
      - destruct (B eq_refl) as [-> _].
        pose proof (effects_totals (clause_result e t) (e_time e) (e_stop e) dom ND (t_clauses t) 0%nat (t_gas t - ig) (b_led b, snd st0)) as K.
        cbv zeta in K. rewrite <- A in K. exact (K OKc eq_refl). }
    destruct E2 as [E2 E3]. rewrite E2, E3, Hled.
    rewrite energy_sub_eng, energy_sub_bal by assumption. rewrite Hok. rewrite Hpre. split; lia.
  Qed.

  (* over ANY address set for which the executed clauses are "energy quiet" (each primitive either is a VET transfer or touches no
     address of the set): with dom = [a] the per-account statement — also when the payer sends or receives VET in the clauses *)
  Theorem energy_delta_any_set_lemma e t ci st0 st rc dom :
    let T := e_time e in let S := e_stop e in
    tx_ops_quiet dom e t ci st0 -> NoDup dom ->
    exec_tx W O clause_result write_credit e t ci st0 = Done W O st rc ->
    sum_eng T S dom (l_acc (fst st)) = sum_eng T S dom (l_acc (fst st0))
        + (if member (e_benef e) dom then r_reward O rc else 0) - (if member (r_payer O rc) dom then r_paid O rc else 0) /\
    (tx_ops_avoid dom e t ci st0 -> sum_bal dom (l_acc (fst st)) = sum_bal dom (l_acc (fst st0))).
  Proof.
    intros T S Q ND. subst T S. unfold tx_ops_quiet, tx_ops_avoid, tx_effects in *.
    unfold exec_tx. destruct (resolve t) as [|ig]; [discriminate|]. destruct (_ <? t_gas t); [discriminate|].
    destruct (buy_gas e t ci (fst st0)) as [|b] eqn:EB; [discriminate|]. apply buy_gas_spec in EB.
    destruct EB as [Hpre [Hled [Hok _]]].
    destruct (t_ctx_err t); [discriminate|].
    destruct (run_clauses _ _ _ _ _ _ _ _ _ _ _ _) as [[[[lft st2] outs] rev] log] eqn:ERC.
    intros H; inversion H; subst; clear H. cbn in *.
    rewrite energy_add_eng_any, energy_add_bal_any by assumption.
    rewrite energy_add_eng_any, energy_add_bal_any by assumption.
    apply run_clauses_effects in ERC. cbv zeta in ERC. destruct ERC as [A [B C]].
    assert (E3 : sum_eng (e_time e) (e_stop e) dom (l_acc (fst st2)) = sum_eng (e_time e) (e_stop e) dom (l_acc (b_led b))).
    { destruct rev.
      - destruct (C eq_refl) as [-> _]. reflexivity.
      - destruct (B eq_refl) as [-> _]. apply (effects_quiet (clause_result e t) (e_time e) (e_stop e) dom). exact Q. }
    split.
    - rewrite E3, Hled. rewrite energy_sub_eng_any by assumption. rewrite Hok. cbn [andb].
      rewrite Hpre. destruct (member (b_payer b) dom), (member (e_benef e) dom); lia.
    - intros AV.
      assert (E2 : sum_bal dom (l_acc (fst st2)) = sum_bal dom (l_acc (b_led b))).
      { destruct rev.
        - destruct (C eq_refl) as [-> _]. reflexivity.
        - destruct (B eq_refl) as [-> _]. apply (effects_avoid (clause_result e t) (e_time e) (e_stop e) dom). exact AV. }
      rewrite E2, Hled. apply energy_sub_bal_any. assumption.
  Qed.

  (* who pays and at what price *)
  Theorem payer_and_price_lemma e t ci st0 st rc :
    exec_tx W O clause_result write_credit e t ci st0 = Done W O st rc ->
    r_price O rc = effective_price e t (match e_base_fee e with Some bf => bf | None => 0 end) /\
    (match t_delegator t with
     | Some d => r_payer O rc = d
     | None => r_payer O rc = t_origin t \/
               (exists to, common_to (t_clauses t) = Some to /\ t_gas t * r_price O rc <= k_credit ci /\
                           (r_payer O rc = to \/ (k_is_sponsor ci = true /\ r_payer O rc = k_sponsor ci)))
     end).
  Proof.
    unfold exec_tx. destruct (resolve t); [discriminate|]. destruct (_ <? t_gas t); [discriminate|].
    destruct (buy_gas e t ci (fst st0)) as [|b] eqn:EB; [discriminate|].
    destruct (t_ctx_err t); [discriminate|].
    destruct (run_clauses _ _ _ _ _ _ _ _ _ _ _ _) as [[[[lft st2] outs] rev] log].
    intros H; inversion H; subst; clear H. cbn [r_price r_payer].
    revert EB. unfold buy_gas.
    destruct (t_dynamic t) eqn:DY.
    - destruct (e_base_fee e) as [bf|]; [|discriminate].
      set (price := effective_price e t bf).
      destruct (price <? bf); [discriminate|].
      assert (P : forall who tr other b', pay (e_time e) (e_stop e) (fst st0) who (t_gas t * price) price tr other = inr b' ->
                    (b_price b' = price /\ b_payer b' = who) \/ other = inr b').
      { intros who tr other b' Hp. apply pay_spec in Hp. destruct Hp as [[-> _]|Hp]; [left; split; reflexivity|right; exact Hp]. }
      destruct (t_delegator t) as [d|].
      + intros Hp. destruct (P _ _ _ _ Hp) as [[-> ->]|X]; [split; reflexivity|discriminate].
      + destruct (common_to (t_clauses t)) as [to|].
        * destruct (t_gas t * price <=? k_credit ci) eqn:CR.
          -- apply Z.leb_le in CR. destruct (k_is_sponsor ci) eqn:SP; intros Hp.
             ++ destruct (P _ _ _ _ Hp) as [[E1 E2]|X].
                { rewrite E1, E2. split; [reflexivity|]. right. exists to. repeat split; auto. }
                destruct (P _ _ _ _ X) as [[E1 E2]|Y].
                { rewrite E1, E2. split; [reflexivity|]. right. exists to. repeat split; auto. }
                destruct (P _ _ _ _ Y) as [[E1 E2]|Z0]; [|discriminate]. rewrite E1, E2. split; [reflexivity|left; reflexivity].
             ++ destruct (P _ _ _ _ Hp) as [[E1 E2]|X].
                { rewrite E1, E2. split; [reflexivity|]. right. exists to. repeat split; auto. }
                destruct (P _ _ _ _ X) as [[E1 E2]|Z0]; [|discriminate]. rewrite E1, E2. split; [reflexivity|left; reflexivity].
          -- intros Hp. destruct (P _ _ _ _ Hp) as [[E1 E2]|Z0]; [|discriminate]. rewrite E1, E2. split; [reflexivity|left; reflexivity].
        * intros Hp. destruct (P _ _ _ _ Hp) as [[E1 E2]|Z0]; [|discriminate]. rewrite E1, E2. split; [reflexivity|left; reflexivity].
    - assert (EP : forall x, effective_price e t x = effective_price e t 0) by (intros; unfold effective_price; rewrite DY; reflexivity).
      rewrite (EP (match e_base_fee e with Some bf => bf | None => 0 end)).
      set (price := effective_price e t 0).
      destruct (match e_base_fee e with Some bf => price <? bf | None => false end); [discriminate|].
      assert (P : forall who tr other b', pay (e_time e) (e_stop e) (fst st0) who (t_gas t * price) price tr other = inr b' ->
                    (b_price b' = price /\ b_payer b' = who) \/ other = inr b').
      { intros who tr other b' Hp. apply pay_spec in Hp. destruct Hp as [[-> _]|Hp]; [left; split; reflexivity|right; exact Hp]. }
      destruct (t_delegator t) as [d|].
      + intros Hp. destruct (P _ _ _ _ Hp) as [[-> ->]|X]; [split; reflexivity|discriminate].
      + destruct (common_to (t_clauses t)) as [to|].
        * destruct (t_gas t * price <=? k_credit ci) eqn:CR.
          -- apply Z.leb_le in CR. destruct (k_is_sponsor ci) eqn:SP; intros Hp.
             ++ destruct (P _ _ _ _ Hp) as [[E1 E2]|X].
                { rewrite E1, E2. split; [reflexivity|]. right. exists to. repeat split; auto. }
                destruct (P _ _ _ _ X) as [[E1 E2]|Y].
                { rewrite E1, E2. split; [reflexivity|]. right. exists to. repeat split; auto. }
                destruct (P _ _ _ _ Y) as [[E1 E2]|Z0]; [|discriminate]. rewrite E1, E2. split; [reflexivity|left; reflexivity].
             ++ destruct (P _ _ _ _ Hp) as [[E1 E2]|X].
                { rewrite E1, E2. split; [reflexivity|]. right. exists to. repeat split; auto. }
                destruct (P _ _ _ _ X) as [[E1 E2]|Z0]; [|discriminate]. rewrite E1, E2. split; [reflexivity|left; reflexivity].
          -- intros Hp. destruct (P _ _ _ _ Hp) as [[E1 E2]|Z0]; [|discriminate]. rewrite E1, E2. split; [reflexivity|left; reflexivity].
        * intros Hp. destruct (P _ _ _ _ Hp) as [[E1 E2]|Z0]; [|discriminate]. rewrite E1, E2. split; [reflexivity|left; reflexivity].
  Qed.
End Effects.
