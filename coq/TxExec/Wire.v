(* TxExec/Wire.v — conversions used only by the oracle drivers (the line protocol carries N literals). *)
From Coq Require Import ZArith NArith List.
From Verif Require Import Ledger.Model TxExec.Model.
Import ListNotations.
Open Scope Z_scope.

Definition z_of_n (n : N) : Z := Z.of_N n.
Definition n_of_z (z : Z) : N := Z.abs_N z.
Definition z_is_neg (z : Z) : bool := z <? 0.

(* the instantiation the drivers use: W = log of credit writes, O = clause index *)
Definition credit_log : Type := list (Z * Z * Z).
Definition log_credit (to origin c : Z) (w : credit_log) : credit_log := (to, origin, c) :: w.
Definition ledger_of (accs : list (Z * account)) (tadd tsub issued : Z) : ledger :=
  mkL (fold_right (fun p s => upd s (fst p) (snd p)) (fun _ => empty_acc) accs) tadd tsub issued.
