(* Compose/EvmOracle.v — C07 <-> C10: C07's only premise about the EVM, `oracle_ok`, discharged by C10's interpreter model.

     C07  TxExec/Model.v     the transaction wrapper (ResolveTransaction / PrepareTransaction / ExecuteTransaction) over an
                             ABSTRACT clause oracle  clause_result : env -> txn -> nat -> Z -> state W -> cres W O ;
          TxExec/Proofs.v    oracle_ok: for gas >= 0 a clause hands back 0 <= left <= gas and a refund counter >= 0 — the premise
                             of gas_bounds_lemma, tx_atomic_lemma, block_gas_lemma, block_gas_full_lemma (and, through
                             Compose/ExecSane.v, of C01's exec_sane)
     C10  EVM/Model.v        the executable interpreter: call_top (evm.Call at depth 0), do_create (evm.create), run
          EVM/ProofsRun.v    call_top_terminates / do_create_gas / run_gas: fuel gas+1 suffices, 0 <= gas left <= gas
          EVM/ProofsRefund.v (new, for this composition) the refund counter never decreases along a run

   Here the clause oracle INDUCED by the interpreter is defined the way runtime.PrepareClause drives the EVM:
     - a fresh statedb per clause: the accounts / storage view of the state with EMPTY logs, transfer records, self-destruct set
       and refund counter 0 (`fresh`);
     - clause.To() = some address -> evm.Call(origin, to, data, gas, value)  = call_top, not static, depth 0, creation counter 0;
       clause.To() = nil          -> evm.Create(origin, data, gas, value)    = do_create at depth 0 with creation counter 0, the
       new address being thor.CreateContractAddress(txID, clauseIndex, 0) = the first element of e_newaddrs (data of the EVM
       environment, as for the CREATE instruction in exec_create); if the environment supplies no address the result is the
       out-of-model outcome O_unsupported with no gas handed back and the world untouched — what do_call / do_create return for
       a callee that ends outside the model (exec_create: `None => halt O_unsupported`);
     - fuel := gas + 1 (call_top_terminates: then the run never ends for lack of fuel);
     - Output.LeftOverGas = r_gas, Output.RefundGas = stateDB.GetRefund() = w_refund of the final world,
       Output.VMErr != nil  <->  the outcome is not O_ok: REVERT (evm.Call returns errExecutionReverted), every O_err, and
       O_unsupported (outside C10's model nothing is claimed about the clause; it is counted as failed, so the wrapper reverts the
       transaction; O_fuel cannot occur, evm_frame_facts);
     - what is NOT fixed here stays DATA (Section variables, no assumptions): how the EVM environment and the accounts / storage
       view are read off C07's env / txn / clause index / state (evm_env, world_of), the clause's input bytes (C07's clause
       record only has the zero / non-zero byte counts: input_of), how the final world is written back into the rest of the
       state (world_back), the ledger primitives the run amounts to (ops_of) and the clause output (out_of).
     A clause index outside t_clauses (never asked for by run_clauses) gives the idle result: all gas back, nothing done.

   Results, for EVERY choice of these data:   evm_oracle_ok : oracle_ok W O evm_clause_result   with NO hypothesis, hence
   gas_bounds_evm / tx_atomic_evm / block_gas_evm / block_gas_full_evm = C07's theorems with the premise oracle_ok REMOVED, and
   exec_sane_evm = C01's premise exec_sane (Compose/ExecSane.v) for the wrapper over the interpreter, outright.
   Also: a clause that fails leaves the EVM world exactly the fresh view it was entered with (C10 failed_frame_no_effect /
   failed_creation_no_effect), evm_clause_failed_world. *)
From Coq Require Import ZArith List Bool Lia.
From Verif Require Ledger.Model TxExec.Model TxExec.Proofs TxExec.ProofsAdopt EVM.Model EVM.ProofsRun EVM.ProofsRefund.
From Verif Require Header.Rules Validation.Body Validation.ProofsPacker Compose.ExecSane.
Import ListNotations.
Open Scope Z_scope.

Module LM := Verif.Ledger.Model.
Module TM := Verif.TxExec.Model.
Module TP := Verif.TxExec.Proofs.
Module TA := Verif.TxExec.ProofsAdopt.
Module EM := Verif.EVM.Model.
Module ER := Verif.EVM.ProofsRun.
Module EF := Verif.EVM.ProofsRefund.

(* ---------------------------------------------------------------- one clause on the interpreter *)
(* statedb.New(rt.state): accounts and storage as they are, nothing journalled yet *)
Definition fresh (w : EM.world) : EM.world := EM.mkWorld (EM.w_accts w) (EM.w_store w) [] 0 [] [].

Definition is_ok (o : EM.outcome) : bool := match o with EM.O_ok => true | _ => false end.

Definition clause_fuel (g : Z) : nat := S (Z.to_nat g).

(* the body of PrepareClause's exec closure *)
Definition run_clause (E : EM.env) (c : TM.clause) (input : list Z) (g : Z) (w : EM.world) : EM.fres :=
  match TM.c_to c with
  | Some to => EM.call_top (clause_fuel g) E false to (TM.c_value c) input g w
  | None =>
    match EM.nth_opt (EM.e_newaddrs E) 0 with
    | Some addr => EM.do_create (EM.run (clause_fuel g) E) E (EM.e_origin E) false 0 addr input (TM.c_value c) g w 0
    | None => EM.mkRes EM.O_unsupported [] 0 w 0
    end
  end.

Lemma clause_fuel_enough g : 0 <= g -> 0 <= g < Z.of_nat (clause_fuel g).
Proof. intros Hg. unfold clause_fuel. rewrite Nat2Z.inj_succ, Z2Nat.id by exact Hg. lia. Qed.

(* fuel never runs out, gas left within [0, gas], the refund counter does not go below its entry value *)
Lemma run_clause_facts E c input g w : 0 <= g ->
  let r := run_clause E c input g w in
  EM.r_out r <> EM.O_fuel /\ 0 <= EM.r_gas r <= g /\ EM.w_refund w <= EM.w_refund (EM.r_world r).
Proof.
  intros Hg. pose proof (clause_fuel_enough g Hg) as Hf. unfold run_clause.
  destruct (TM.c_to c) as [to|].
  - destruct (ER.call_top_terminates (clause_fuel g) E false to (TM.c_value c) input g w Hf) as (Ho & Hgas).
    split; [exact Ho|]. split; [exact Hgas|]. apply EF.call_top_refund.
  - destruct (EM.nth_opt (EM.e_newaddrs E) 0) as [addr|].
    + destruct (ER.do_create_gas (EM.run (clause_fuel g) E) E (EM.e_origin E) false 0 addr input (TM.c_value c) g w 0
                  (Z.of_nat (clause_fuel g))) as (Ho & Hgas).
      { intros cx' s' Hi Hl. apply ER.run_gas; assumption. }
      { exact Hf. }
      split; [exact Ho|]. split; [exact Hgas|]. apply EF.create_refund.
    + cbn [EM.r_out EM.r_gas EM.r_world]. split; [discriminate|]. split; lia.
Qed.

(* a clause that does not end with O_ok returns the world it was entered with *)
Lemma run_clause_failed E c input g w :
  let r := run_clause E c input g w in
  EM.r_out r <> EM.O_ok -> EM.r_world r = w.
Proof.
  unfold run_clause. destruct (TM.c_to c) as [to|].
  - apply ER.call_top_failed.
  - destruct (EM.nth_opt (EM.e_newaddrs E) 0) as [addr|]; [apply ER.create_failed|reflexivity].
Qed.

(* one candidate rendering of a run as ledger primitives: its VET transfer records, oldest first (runtime.newEVM's Transfer
   hook; self-destructs and the energy builtin are not rendered by it) *)
Definition transfer_ops (r : EM.fres) : list LM.op :=
  map (fun x => let '(s, d, amt) := x in LM.OTransfer s d amt) (rev (EM.w_transfers (EM.r_world r))).

Lemma transfer_ops_kind r o : In o (transfer_ops r) -> LM.clause_kind o = true.
Proof.
  unfold transfer_ops. intros H. apply in_map_iff in H. destruct H as ([[s d] amt] & <- & _). reflexivity.
Qed.

(* ---------------------------------------------------------------- the induced oracle *)
Section Oracle.
  Variables W O : Type.
  Variable evm_env : TM.env -> TM.txn -> nat -> TM.state W -> EM.env.   (* block / tx context, new addresses, hashes, fork *)
  Variable world_of : TM.state W -> EM.world.                            (* the accounts / storage view of the state *)
  Variable input_of : TM.txn -> nat -> list Z.                           (* clause.Data() *)
  Variable world_back : TM.state W -> EM.world -> W.                     (* the final world written back *)
  Variable ops_of : EM.fres -> list LM.op.                               (* the ledger primitives of the run *)
  Variable out_of : EM.fres -> O.                                        (* tx.Output *)

  Definition evm_frame (e : TM.env) (t : TM.txn) (i : nat) (g : Z) (st : TM.state W) : option EM.fres :=
    match nth_error (TM.t_clauses t) i with
    | None => None
    | Some c => Some (run_clause (evm_env e t i st) c (input_of t i) g (fresh (world_of st)))
    end.

  (* runtime.Output from the interpreter's result *)
  Definition cres_of (st : TM.state W) (r : EM.fres) : TM.cres W O :=
    TM.mkCres W O (EM.r_gas r) (EM.w_refund (EM.r_world r)) (negb (is_ok (EM.r_out r)))
              (ops_of r) (world_back st (EM.r_world r)) (out_of r).

  (* no such clause: nothing runs *)
  Definition idle (st : TM.state W) (g : Z) : TM.cres W O :=
    TM.mkCres W O g 0 false [] (snd st) (out_of (EM.mkRes EM.O_ok [] g (fresh (world_of st)) 0)).

  Definition evm_clause_result (e : TM.env) (t : TM.txn) (i : nat) (g : Z) (st : TM.state W) : TM.cres W O :=
    match evm_frame e t i g st with
    | Some r => cres_of st r
    | None => idle st g
    end.

  Lemma evm_frame_facts e t i g st r : 0 <= g -> evm_frame e t i g st = Some r ->
    EM.r_out r <> EM.O_fuel /\ 0 <= EM.r_gas r <= g /\ 0 <= EM.w_refund (EM.r_world r).
  Proof.
    intros Hg. unfold evm_frame. destruct (nth_error (TM.t_clauses t) i) as [c|]; [|discriminate].
    intros H. injection H as <-.
    destruct (run_clause_facts (evm_env e t i st) c (input_of t i) g (fresh (world_of st)) Hg) as (Ho & Hgas & Hr).
    cbn [fresh EM.w_refund] in Hr. split; [exact Ho|]. split; [exact Hgas|exact Hr].
  Qed.

  (* ---------------------------------------------------------------- C07's premise, for the interpreter *)
  Theorem evm_oracle_ok : TP.oracle_ok W O evm_clause_result.
  Proof.
    intros e t i g st Hg. unfold evm_clause_result.
    destruct (evm_frame e t i g st) as [r|] eqn:Ef.
    - destruct (evm_frame_facts e t i g st r Hg Ef) as (_ & Hgas & Hr).
      cbn [cres_of TM.cr_left TM.cr_refund]. split; [exact Hgas|exact Hr].
    - cbn [idle TM.cr_left TM.cr_refund]. lia.
  Qed.

  (* a clause the wrapper counts as failed hands back the fresh view untouched: no account, storage, log, transfer record,
     refund or self-destruct of it (or of its nested frames) survives *)
  Theorem evm_clause_failed_world e t i g st :
    TM.cr_err W O (evm_clause_result e t i g st) = true ->
    exists r, evm_frame e t i g st = Some r /\ EM.r_out r <> EM.O_ok /\ EM.r_world r = fresh (world_of st) /\
              TM.cr_refund W O (evm_clause_result e t i g st) = 0 /\
              TM.cr_world W O (evm_clause_result e t i g st) = world_back st (fresh (world_of st)).
  Proof.
    unfold evm_clause_result. destruct (evm_frame e t i g st) as [r|] eqn:Ef; [|cbn [idle TM.cr_err]; discriminate].
    cbn [cres_of TM.cr_err TM.cr_refund TM.cr_world]. intros He. exists r.
    assert (Hno : EM.r_out r <> EM.O_ok). { intros Hq. rewrite Hq in He. discriminate He. }
    assert (Hw : EM.r_world r = fresh (world_of st)).
    { unfold evm_frame in Ef. destruct (nth_error (TM.t_clauses t) i) as [c|]; [|discriminate].
      injection Ef as <-. apply run_clause_failed. exact Hno. }
    split; [reflexivity|]. split; [exact Hno|]. split; [exact Hw|]. rewrite Hw. split; reflexivity.
  Qed.

  (* ---------------------------------------------------------------- C07's theorems without the premise *)
  Variable write_credit : Z -> Z -> Z -> W -> W.
  Let exec := TM.exec_tx W O evm_clause_result write_credit.

  Theorem gas_bounds_evm e t ci st0 st rc :
    exec e t ci st0 = TM.Done W O st rc ->
    exists ig, TM.intrinsic_gas (TM.t_clauses t) = Some ig /\
      ig <= TM.r_gas_used O rc <= TM.t_gas t /\ TM.t_gas t <= TM.e_gas_limit e /\
      TM.r_paid O rc = TM.r_gas_used O rc * TM.r_price O rc /\
      TP.log_ok (TM.r_clause_log O rc) /\
      TM.r_gas_used O rc = ig + TP.log_used (TM.r_clause_log O rc) - TP.log_refund (TM.r_clause_log O rc) /\
      2 * TP.log_refund (TM.r_clause_log O rc) <= TP.log_used (TM.r_clause_log O rc).
  Proof. exact (TP.gas_bounds_lemma W O evm_clause_result write_credit evm_oracle_ok e t ci st0 st rc). Qed.

  Theorem tx_atomic_evm e t ci st0 st rc :
    exec e t ci st0 = TM.Done W O st rc -> TM.r_reverted O rc = true ->
    let T := TM.e_time e in let S := TM.e_stop e in
    let prepaid := TM.t_gas t * TM.r_price O rc in
    let returned := (TM.t_gas t - TM.r_gas_used O rc) * TM.r_price O rc in
    TM.r_outputs O rc = [] /\
    snd (LM.energy_sub T S (fst st0) (TM.r_payer O rc) prepaid) = true /\
    fst st = LM.energy_add T S (LM.energy_add T S (fst (LM.energy_sub T S (fst st0) (TM.r_payer O rc) prepaid))
                                              (TM.r_payer O rc) returned) (TM.e_benef e) (TM.r_reward O rc) /\
    (snd st = snd st0 \/
     exists to credit', TM.r_credit O rc = Some credit' /\ TM.common_to (TM.t_clauses t) = Some to /\
                        snd st = write_credit to (TM.t_origin t) credit' (snd st0)).
  Proof. exact (TP.tx_atomic_lemma W O evm_clause_result write_credit evm_oracle_ok e t ci st0 st rc). Qed.

  Theorem block_gas_evm e txs st used st' rcs :
    0 <= TM.e_gas_limit e -> 2 * TM.e_gas_limit e < TM.two64 ->
    Forall (fun p => 0 <= TM.t_gas (fst p) < TM.two64 /\
                     Forall (fun c => 0 <= TM.c_zeros c /\ 0 <= TM.c_nonzeros c) (TM.t_clauses (fst p))) txs ->
    TM.adopt_all W O evm_clause_result write_credit e 0 txs st [] = (used, st', rcs) ->
    used = TP.sum_used O rcs /\ 0 <= used <= TM.e_gas_limit e.
  Proof.
    intros H0 HL HF H.
    exact (TP.block_gas_lemma W O evm_clause_result write_credit evm_oracle_ok e txs HL HF 0 st [] used st' rcs
             (conj (Z.le_refl 0) H0) eq_refl H).
  Qed.

  Theorem block_gas_full_evm e fe txs st fs' st' rcs :
    0 <= TM.e_gas_limit e -> 2 * TM.e_gas_limit e < TM.two64 ->
    Forall (fun p => 0 <= TM.t_gas (fst (fst p)) < TM.two64 /\
                     Forall (fun c => 0 <= TM.c_zeros c /\ 0 <= TM.c_nonzeros c) (TM.t_clauses (fst (fst p)))) txs ->
    TM.adopt_all_full W O evm_clause_result write_credit e fe (TM.mkFS 0 []) txs st [] = (fs', st', rcs) ->
    TM.fs_used fs' = TP.sum_used O rcs /\ 0 <= TM.fs_used fs' <= TM.e_gas_limit e.
  Proof.
    intros H0 HL HF H.
    exact (TA.block_gas_full_lemma W O evm_clause_result write_credit evm_oracle_ok e fe txs HL HF (TM.mkFS 0 []) st [] fs' st' rcs
             (conj (Z.le_refl 0) H0) eq_refl H).
  Qed.

  (* C01's premise about execution (Compose/ExecSane.v), outright: C01 <- C07 <- C10 *)
  Theorem exec_sane_evm (tx_rest : Validation.Body.txn -> TM.txn) (env_rest : Header.Rules.bctx -> TM.state W -> TM.env)
          (credit_of : Header.Rules.bctx -> TM.state W -> Validation.Body.txn -> TM.credit_info) (digest : TM.receipt O -> N) :
    Validation.ProofsPacker.exec_sane (TM.state W)
      (ExecSane.exec_of_c07 W O evm_clause_result write_credit tx_rest env_rest credit_of digest).
  Proof. exact (ExecSane.exec_of_c07_sane W O evm_clause_result write_credit tx_rest env_rest credit_of digest evm_oracle_ok). Qed.
End Oracle.

(* ---------------------------------------------------------------- non-vacuity *)
(* An instance in which the EVM's balances are READ from C07's ledger and its transfers go back as ledger primitives:
   the rest of the world is (known addresses with code and master flag, storage); the view gives every known address the VET
   balance the ledger holds; the written-back world is the newest binding per account / slot; ops = the transfer records;
   output = (return data, number of events).
   Contract 10:  PUSH0; PUSH1 5; SSTORE; STOP  — clears slot 5 (which holds 3): 5005 gas, refund counter 15000.
   Contract 11:  INVALID.
   Creation data: PUSH0; PUSH0; MSTORE8; PUSH1 1; PUSH0; RETURN — deploys the one-byte code [STOP] (200 gas deposit). *)
Definition XW : Type := (list (Z * (list Z * bool)) * list (Z * Z * Z))%type.
Definition XO : Type := (list Z * nat)%type.

Definition x_world_of (st : TM.state XW) : EM.world :=
  EM.mkWorld (map (fun p => (fst p, EM.mkAcc (LM.a_bal (LM.l_acc (fst st) (fst p))) (fst (snd p)) (snd (snd p)))) (fst (snd st)))
             (snd (snd st)) [] 0 [] [].
Definition x_world_back (_ : TM.state XW) (w : EM.world) : XW :=
  (map (fun p => (fst p, (EM.a_code (snd p), EM.a_master (snd p)))) (EM.acct_view w), EM.store_view w).
Definition x_out_of (r : EM.fres) : XO := (EM.r_data r, length (EM.w_logs (EM.r_world r))).
Definition x_evm_env (e : TM.env) (t : TM.txn) (i : nat) (_ : TM.state XW) : EM.env :=
  EM.mkEnv (TM.t_origin t) 1 (TM.e_benef e) (TM.e_time e) (TM.e_number e) 0 (TM.e_gas_limit e) 39
           (match TM.e_base_fee e with Some bf => bf | None => 0 end)
           [500 + 10 * Z.of_nat i; 501 + 10 * Z.of_nat i] [([], 77)] 42 3.
Definition x_init : list Z := [95; 95; 83; 96; 1; 95; 243].
Definition x_input_of (t : TM.txn) (i : nat) : list Z :=
  match nth_error (TM.t_clauses t) i with
  | Some c => match TM.c_to c with None => x_init | Some _ => [] end
  | None => []
  end.
Definition x_oracle := evm_clause_result XW XO x_evm_env x_world_of x_input_of x_world_back transfer_ops x_out_of.
Definition x_wc (_ _ _ : Z) (w : XW) : XW := w.

Definition x_env := TM.mkEnv 100 1000 5 3 10000000 (Some 10000000000000) 1000000000000000 300000000000000000 77 10.
Definition x_led : LM.ledger :=
  LM.mkL (fun a => if a =? 1 then LM.mkAcc 1000 90000000000000000000 50 else LM.empty_acc) 0 0 0.
Definition x_w0 : XW := ([(1, ([], false)); (10, ([95; 96; 5; 85; 0], false)); (11, ([254], false))], [(10, 5, 3)]).
Definition x_ci := TM.mkCI 0 0 false false.
(* clause 0: call contract 10 with 3 wei; clause 1: a creation (data: 7 non-zero bytes) *)
Definition x_tx := TM.mkTx true 200000 [TM.mkClause (Some 10) 0 0 3; TM.mkClause None 0 7 0]
                           0 20000000000000 500 1 true None true 0 0 0 false.
(* the same with a third clause calling contract 11, which fails *)
Definition x_tx_bad := TM.mkTx true 200000 [TM.mkClause (Some 10) 0 0 3; TM.mkClause None 0 7 0; TM.mkClause (Some 11) 0 0 0]
                               0 20000000000000 500 1 true None true 0 0 0 false.

(* the interpreter really runs inside the wrapper: clause 0 consumes 5005 gas and, its refund counter being 15000, gets the
   cap 5005/2 = 2502 back; clause 1 consumes 15 + 200 (code deposit); gas used = intrinsic 69476 + 5220 consumed - 2502 refunded = 72194.  Slot 5
   is cleared, the new contract 510 has the code [STOP] and a master, the 3 wei moved on the LEDGER from the origin to 10. *)
Example x_runs : exists st rc,
  TM.exec_tx XW XO x_oracle x_wc x_env x_tx x_ci (x_led, x_w0) = TM.Done XW XO st rc /\
  TM.r_reverted XO rc = false /\ TM.r_gas_used XO rc = 72194 /\ TM.intrinsic_gas (TM.t_clauses x_tx) = Some 69476 /\
  TM.r_clause_log XO rc = [(130524, 5005, 2502); (128021, 215, 0)] /\
  TM.r_outputs XO rc = [([], 0%nat); ([], 1%nat)] /\
  snd (snd st) = [(10, 5, 0)] /\
  map fst (fst (snd st)) = [510; 10; 1; 11] /\
  EM.code_of (x_world_of st) 510 = [0] /\
  LM.a_bal (LM.l_acc (fst st) 10) = 3 /\ LM.a_bal (LM.l_acc (fst st) 1) = 997.
Proof. eexists _, _. split; [vm_compute; reflexivity|]. vm_compute. repeat split; reflexivity. Qed.

(* ... and the theorem applies to that run *)
Example x_gas_bounds : exists st rc ig,
  TM.exec_tx XW XO x_oracle x_wc x_env x_tx x_ci (x_led, x_w0) = TM.Done XW XO st rc /\
  TM.intrinsic_gas (TM.t_clauses x_tx) = Some ig /\ ig <= TM.r_gas_used XO rc <= TM.t_gas x_tx.
Proof.
  destruct x_runs as (st & rc & E & _). exists st, rc.
  destruct (gas_bounds_evm XW XO x_evm_env x_world_of x_input_of x_world_back transfer_ops x_out_of x_wc _ _ _ _ _ _ E)
    as (ig & Hi & Hb & _).
  exists ig. split; [exact E|]. split; [exact Hi|exact Hb].
Qed.

(* the refund counter of the first clause as the interpreter reports it; the frame of the failing clause *)
Example x_clause_results :
  let st1 : TM.state XW := (x_led, x_w0) in
  TM.cr_refund XW XO (x_oracle x_env x_tx 0%nat 130524 st1) = 15000 /\
  TM.cr_left XW XO (x_oracle x_env x_tx 0%nat 130524 st1) = 125519 /\
  TM.cr_ops XW XO (x_oracle x_env x_tx 0%nat 130524 st1) = [LM.OTransfer 1 10 3] /\
  TM.cr_err XW XO (x_oracle x_env x_tx_bad 2%nat 1000 st1) = true /\
  TM.cr_left XW XO (x_oracle x_env x_tx_bad 2%nat 1000 st1) = 0 /\
  TM.cr_left XW XO (x_oracle x_env x_tx 7%nat 1000 st1) = 1000.
Proof. vm_compute. repeat split; reflexivity. Qed.

(* tx_atomic_evm / evm_clause_failed_world: the third clause fails after the first two wrote; the transaction is reverted, the
   rest of the world is the initial one, all gas of the failing clause is consumed (gas used = the whole 200000) *)
Example x_reverts : exists st rc,
  TM.exec_tx XW XO x_oracle x_wc x_env x_tx_bad x_ci (x_led, x_w0) = TM.Done XW XO st rc /\
  TM.r_reverted XO rc = true /\ TM.r_outputs XO rc = [] /\ snd st = x_w0 /\
  TM.r_clause_log XO rc = [(114524, 5005, 2502); (112021, 215, 0); (111806, 111806, 0)] /\
  TM.r_gas_used XO rc = 200000 /\
  LM.a_bal (LM.l_acc (fst st) 10) = 0 /\ LM.a_bal (LM.l_acc (fst st) 1) = 1000.
Proof. eexists _, _. split; [vm_compute; reflexivity|]. vm_compute. repeat split; reflexivity. Qed.

Example x_atomic : exists st rc,
  TM.exec_tx XW XO x_oracle x_wc x_env x_tx_bad x_ci (x_led, x_w0) = TM.Done XW XO st rc /\
  TM.r_reverted XO rc = true /\ TM.r_outputs XO rc = [] /\ snd st = snd (x_led, x_w0).
Proof.
  destruct x_reverts as (st & rc & E & R & _). exists st, rc.
  destruct (tx_atomic_evm XW XO x_evm_env x_world_of x_input_of x_world_back transfer_ops x_out_of x_wc _ _ _ _ _ _ E R)
    as (Ho & _ & _ & [Hs|(to & cr & Hc & _)]).
  - split; [exact E|]. split; [exact R|]. split; [exact Ho|exact Hs].
  - exfalso. revert Hc. generalize E. vm_compute. intros E'. injection E' as _ <-. discriminate.
Qed.

Example x_failed_world :
  let st1 : TM.state XW := (x_led, x_w0) in
  TM.cr_err XW XO (x_oracle x_env x_tx_bad 2%nat 1000 st1) = true /\
  exists r, evm_frame XW x_evm_env x_world_of x_input_of x_env x_tx_bad 2%nat 1000 st1 = Some r /\
            EM.r_out r = EM.O_err EM.E_invalid /\ EM.r_world r = fresh (x_world_of st1).
Proof.
  cbv zeta. split; [vm_compute; reflexivity|].
  destruct (evm_clause_failed_world XW XO x_evm_env x_world_of x_input_of x_world_back transfer_ops x_out_of
              x_env x_tx_bad 2%nat 1000 (x_led, x_w0)) as (r & Ef & _ & Hw & _); [vm_compute; reflexivity|].
  exists r. split; [exact Ef|]. split; [|exact Hw].
  revert Ef. vm_compute. intros Ef. injection Ef as <-. reflexivity.
Qed.

(* a block of the two transactions (block_gas_evm); in the second one slot 5 is already clear (no refund) and the creation
   collides with contract 510 deployed by the first, so it is reverted at its second clause with all gas consumed *)
Example x_block : exists st rcs,
  TM.adopt_all XW XO x_oracle x_wc x_env 0 [(x_tx, x_ci); (x_tx_bad, x_ci)] (x_led, x_w0) [] = (272194, st, rcs) /\
  map (TM.r_gas_used XO) rcs = [72194; 200000] /\ 272194 = TP.sum_used XO rcs /\ 0 <= 272194 <= TM.e_gas_limit x_env.
Proof.
  assert (E : exists st rcs, TM.adopt_all XW XO x_oracle x_wc x_env 0 [(x_tx, x_ci); (x_tx_bad, x_ci)] (x_led, x_w0) [] = (272194, st, rcs) /\
                             map (TM.r_gas_used XO) rcs = [72194; 200000]).
  { eexists _, _. split; [vm_compute; reflexivity|]. vm_compute. reflexivity. }
  destruct E as (st & rcs & E & M). exists st, rcs. split; [exact E|]. split; [exact M|].
  apply (block_gas_evm XW XO x_evm_env x_world_of x_input_of x_world_back transfer_ops x_out_of x_wc x_env
           [(x_tx, x_ci); (x_tx_bad, x_ci)] (x_led, x_w0) 272194 st rcs); [vm_compute; discriminate|reflexivity| |exact E].
  repeat constructor; cbn; lia.
Qed.
