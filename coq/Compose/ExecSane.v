(* Compose/ExecSane.v — C01 <-> C07: the premise `exec_sane` of C01's packed_block_accepted discharged by C07's model of
   the transaction wrapper.

     C01  Validation/ProofsPacker.v  exec_sane: for the ABSTRACT  exec : bctx -> State -> txn -> option (State * receipt)
                                     "a receipt uses at most the tx gas, execution needs a recoverable origin, a tx whose gas
                                     exceeds the block gas limit does not execute"
     C07  TxExec/Model.v exec_tx     runtime.ResolveTransaction / PrepareTransaction / ExecuteTransaction over a clause ORACLE;
          TxExec/Proofs.v            gas_bounds_lemma: intrinsic <= gasUsed <= gas <= block gas limit, for every oracle that hands
                                     back at most the gas it was given (oracle_ok)

   C01's transaction is a VIEW (what validation reads: id, origin recovered?, gas, ref, ...), C07's a record with the
   clauses and fee fields.  `full rest v` rebuilds C07's record from the view v and `rest v`, the fields the view does not
   carry; the fields both have (gas, origin recovered, delegator recovered, block ref, legacy / typed) are TAKEN FROM THE
   VIEW, so the two are coherent by construction and no coherence premise is needed.  Likewise the execution environment:
   block time, number, gas limit, base fee, beneficiary come from C01's block context, the rest (fork number, params read
   from the state) from an arbitrary function.  C01's State is C07's state (ledger x rest of the world); C01's receipt is
   the projection (gas used, reverted, a digest of the rest).

   Result: exec_of_c07 satisfies exec_sane whenever the clause oracle satisfies oracle_ok (exec_of_c07_sane), and
   packed_block_accepted holds for it with the premise exec_sane REMOVED (packed_block_accepted_c07); what is left
   assumed about execution is C07's only assumption about the EVM. *)
From Coq Require Import List NArith ZArith Bool Lia.
From Coq Require Import ZifyN ZifyNat ZifyBool.
From Verif Require Import Common.Util Sched.Model Header.Rules Validation.Body Validation.ProofsPacker.
From Verif Require Ledger.Model TxExec.Model TxExec.Proofs.
Import ListNotations.
Open Scope N_scope.

Module TM := Verif.TxExec.Model.
Module TP := Verif.TxExec.Proofs.

(* C07's transaction record from C01's view + the fields the view does not carry *)
Definition full (rest : txn -> TM.txn) (v : txn) : TM.txn :=
  let f := rest v in
  TM.mkTx (negb (t_type v =? 0))                 (* typed (dynamic fee) unless legacy *)
          (Z.of_N (t_gas v))
          (TM.t_clauses f) (TM.t_coef f) (TM.t_max_fee f) (TM.t_max_prio f)
          (TM.t_origin f) (t_origin_ok v)
          (TM.t_delegator f) (t_delegator_ok v)
          (Z.of_N (t_ref v))
          (TM.t_pw_ctx f) (TM.t_pw_fin f) (TM.t_ctx_err f).

(* C07's environment from C01's block context + the rest (GALACTICA number, energy stop time, params, interval) *)
Definition env_of (rest : TM.env) (ctx : bctx) : TM.env :=
  TM.mkEnv (Z.of_N (x_time ctx)) (TM.e_stop rest) (Z.of_N (x_number ctx)) (TM.e_galactica rest)
           (Z.of_N (x_gas_limit ctx))
           (match x_base_fee ctx with Some bf => Some (Z.of_N bf) | None => None end)
           (TM.e_bgp rest) (TM.e_reward_ratio rest) (Z.of_N (x_beneficiary ctx)) (TM.e_interval rest).

Section Compose.
  Variables W O : Type.
  Variable clause_result : TM.env -> TM.txn -> nat -> Z -> TM.state W -> TM.cres W O.
  Variable write_credit : Z -> Z -> Z -> W -> W.
  Variable tx_rest : txn -> TM.txn.                                   (* clauses, fee fields, origin address, proved work *)
  Variable env_rest : bctx -> TM.state W -> TM.env.                   (* fork number, params read from the state *)
  Variable credit_of : bctx -> TM.state W -> txn -> TM.credit_info.   (* prototype binding, read from the state *)
  Variable digest : TM.receipt O -> N.                                (* what else the receipt says (outputs, paid, reward) *)

  Definition receipt_of (rc : TM.receipt O) : receipt :=
    mkRc (Z.to_N (TM.r_gas_used O rc)) (TM.r_reverted O rc) (digest rc).

  (* C01's abstract exec, instantiated: None = ExecuteTransaction returns an error (the packer reverts to its checkpoint) *)
  Definition exec_of_c07 (ctx : bctx) (st : TM.state W) (v : txn) : option (TM.state W * receipt) :=
    match TM.exec_tx W O clause_result write_credit (env_of (env_rest ctx st) ctx) (full tx_rest v) (credit_of ctx st v) st with
    | TM.Failed _ _ _ _ => None
    | TM.Done _ _ st' rc => Some (st', receipt_of rc)
    end.

  (* ResolveTransaction needs the origin *)
  Lemma done_needs_origin e t ci st0 st rc :
    TM.exec_tx W O clause_result write_credit e t ci st0 = TM.Done W O st rc -> TM.t_sig_ok t = true.
  Proof.
    unfold TM.exec_tx, TM.resolve. destruct (TM.t_sig_ok t); [reflexivity|]. cbn [negb]. discriminate.
  Qed.

  (* exec_sane, from C07's gas_bounds and the PrepareTransaction guard *)
  Theorem exec_of_c07_sane : TP.oracle_ok W O clause_result -> exec_sane (TM.state W) exec_of_c07.
  Proof.
    intros OK ctx st v st' r. unfold exec_of_c07.
    destruct (TM.exec_tx W O clause_result write_credit (env_of (env_rest ctx st) ctx) (full tx_rest v) (credit_of ctx st v) st)
      as [err s|s rc] eqn:E; [discriminate|].
    intros H. injection H as <- <-.
    pose proof (done_needs_origin _ _ _ _ _ _ E) as Ho.
    destruct (TP.gas_bounds_lemma W O clause_result write_credit OK _ _ _ _ _ _ E) as (ig & _ & (_ & Hu) & Hl & _).
    cbn [full TM.t_sig_ok TM.t_gas env_of TM.e_gas_limit receipt_of r_gas] in *.
    repeat split; [lia | exact Ho | lia].
  Qed.

  (* C01's premises without exec_sane *)
  Record premises_rest (cfg : config) (pv : pview) (parent : header) (po : packer_opts) : Prop := {
    pq_interval : 0 < c_interval cfg;
    pq_number : h_number parent + 1 < 4294967296;
    pq_parent_gl : 1000000 <= h_gas_limit parent /\ h_gas_limit parent < two62;
    pq_target : po_target_gl po < two63;
    pq_unique : NoDup (map cand_addr (pv_cands pv)) }.

  Lemma premises_of_rest cfg pv parent po : TP.oracle_ok W O clause_result ->
    premises_rest cfg pv parent po -> premises (TM.state W) exec_of_c07 cfg pv parent po.
  Proof. intros OK [P1 P2 P3 P4 P5]. constructor; auto. exact (exec_of_c07_sane OK). Qed.

  Variable apply_updates : bool -> N -> TM.state W -> list (N * bool) -> TM.state W.
  Variable rewards : bctx -> TM.state W -> option (TM.state W).
  Variable sanity : TM.state W -> bool.
  Variable root_of_state : TM.state W -> N.
  Variable root_of_receipts : list receipt -> N.
  Variable root_of_txs : list txn -> N.
  Variable has_tx : N -> N -> bool.
  Variable find_meta : N -> option bool.

  (* C01's main theorem for the wrapper of C07 in the place of the abstract exec: the block Schedule + Adopt* + Pack produces
     passes Process, with exactly the packer's state and receipts — for every clause oracle that hands back at most the gas
     it was given *)
  Theorem packed_block_accepted_c07 cfg pv parent po now st0 txs vote sr b stp rcs vnow :
    TP.oracle_ok W O clause_result ->
    premises_rest cfg pv parent po -> crypto_roundtrip cfg parent po sr ->
    pack_block (TM.state W) exec_of_c07 apply_updates rewards root_of_state root_of_receipts root_of_txs has_tx find_meta
               cfg pv parent po now st0 txs vote sr = Some (b, stp, rcs) ->
    h_total_score parent < h_total_score (b_header b) ->
    (pv_pos pv = true -> forall ctx stf, rewards ctx stf = Some stp -> sanity stf = true) ->
    h_time (b_header b) <= vnow + c_interval cfg ->
    process (TM.state W) exec_of_c07 apply_updates rewards sanity root_of_state root_of_receipts root_of_txs has_tx find_meta
            cfg pv parent st0 b vnow = Accepted (TM.state W) stp rcs.
  Proof.
    intros OK P. exact (packed_block_accepted_lemma (TM.state W) exec_of_c07 apply_updates rewards sanity root_of_state
                          root_of_receipts root_of_txs has_tx find_meta cfg pv parent po now st0 txs vote sr b stp rcs vnow
                          (premises_of_rest cfg pv parent po OK P)).
  Qed.
End Compose.

(* ---------------------------------------------------------------- non-vacuity *)
(* C07's example oracle (every clause hands back a third of its gas, refund counter 9000, one transfer), C01's example
   parent / proposers; three candidate transactions of two clauses each: the first is adopted, the second (wrong chain tag)
   refused by the packer's pre-checks, the third (gas below intrinsic gas) refused by ResolveTransaction inside C07's wrapper *)
Definition x_oracle (_ : TM.env) (_ : TM.txn) (i : nat) (g : Z) (st : TM.state Z) : TM.cres Z Z :=
  TM.mkCres Z Z (g / 3)%Z 9000%Z false [Ledger.Model.OTransfer 1 2 5] (snd st + 1)%Z (Z.of_nat i).
Definition x_wc (_ _ c w : Z) : Z := (w + 1000 * c)%Z.
Definition x_led : Ledger.Model.ledger :=
  Ledger.Model.mkL (fun a => if (a =? 1)%Z then Ledger.Model.mkAcc 1000 90000000000000000000 50 else Ledger.Model.empty_acc) 0 0 0.
Definition x_rest (_ : txn) : TM.txn :=
  TM.mkTx false 0 [TM.mkClause (Some 2%Z) 3 4 5; TM.mkClause (Some 2%Z) 0 0 0] 0 0 0 1 true None true 0 0 0 false.
Definition x_env (_ : bctx) (_ : TM.state Z) : TM.env := TM.mkEnv 0 1000 0 1000 0 None 10000000000000 300000000000000000 0 10.
Definition x_ci (_ : bctx) (_ : TM.state Z) (_ : txn) : TM.credit_info := TM.mkCI 0 0 false false.
Definition x_exec := exec_of_c07 Z Z x_oracle x_wc x_rest x_env x_ci (fun rc => Z.to_N (TM.r_paid Z rc)).

Definition x_cfg := mkCfg 0 0 0 0 1000 10 39.
Definition x_parent := mkH 5 1000 10000000 0 0 50 0 1 777 0 (0, 0) false None 146 (Some 11) (Some (0, 0)).
Definition x_cands := [ mkC (mkP 11 true 0) 2 111 None; mkC (mkP 22 true 0) 1 222 None ].
Definition x_pv := mkPV false x_cands 0 (fun _ => 0).
Definition x_po := mkPO 11 None 20000000 0.
Definition x_sr := mkSR 146 (Some 11) (Some (32, 4242)) None.
Definition x_txs := [ mkTx 9001 true false true false 39 4 32 0 0 false 200000 true None;
                      mkTx 9002 true false true false 38 4 32 0 0 false 200000 true None;
                      mkTx 9003 true false true false 39 4 32 0 0 false 30000 true (Some 9001) ].
Definition x_root (st : TM.state Z) : N := Z.to_N (snd st).
Definition x_pack := pack_block (TM.state Z) x_exec (fun _ _ st _ => st) (fun _ st => Some st) x_root
          (fun rs => N.of_nat (length rs)) (fun ts => N.of_nat (length ts)) (fun _ _ => false) (fun _ => None)
          x_cfg x_pv x_parent x_po 1003 (x_led, 0%Z) x_txs true x_sr.
Definition x_process b now := process (TM.state Z) x_exec (fun _ _ st _ => st) (fun _ st => Some st) (fun _ => true) x_root
          (fun rs => N.of_nat (length rs)) (fun ts => N.of_nat (length ts)) (fun _ _ => false) (fun _ => None)
          x_cfg x_pv x_parent (x_led, 0%Z) b now.

Example x_oracle_ok : TP.oracle_ok Z Z x_oracle.
Proof.
  intros e t i g st Hg. cbn. pose proof (Z.div_mod g 3 ltac:(lia)). pose proof (Z.mod_pos_bound g 3 ltac:(lia)). lia.
Qed.

Example x_premises : premises_rest x_cfg x_pv x_parent x_po /\ crypto_roundtrip x_cfg x_parent x_po x_sr.
Proof.
  split.
  - constructor; [reflexivity | reflexivity | split; [discriminate | reflexivity] | reflexivity |].
    constructor; [cbn; intuition discriminate|]. constructor; [cbn; intuition | constructor].
  - split; [reflexivity|]. split; [reflexivity|]. intros _. discriminate.
Qed.

(* the wrapper really runs inside the packer: one transaction adopted (gas used 169921 of 200000, two
   clauses executed: the world counter is 2), and the composed theorem gives acceptance by the validator *)
Example x_packed_and_accepted :
  exists b stp rcs,
    x_pack = Some (b, stp, rcs) /\ map t_id (b_txs b) = [9001] /\ map r_gas rcs = [169921] /\ snd stp = 2%Z /\
    h_gas_used (b_header b) = 169921 /\
    x_process b 1020 = Accepted (TM.state Z) stp rcs.
Proof.
  destruct x_pack as [[[b stp] rcs]|] eqn:E; [|vm_compute in E; discriminate].
  exists b, stp, rcs. split; [reflexivity|].
  assert (F : map t_id (b_txs b) = [9001] /\ map r_gas rcs = [169921] /\ snd stp = 2%Z /\ h_gas_used (b_header b) = 169921 /\
              h_total_score x_parent < h_total_score (b_header b) /\ h_time (b_header b) <= 1020 + c_interval x_cfg).
  { vm_compute in E. injection E as <- <- <-. vm_compute. repeat split; reflexivity || discriminate. }
  destruct F as (F1 & F2 & F3 & F4 & F5 & F6). repeat split; auto.
  destruct x_premises as [P C].
  apply (packed_block_accepted_c07 Z Z x_oracle x_wc x_rest x_env x_ci (fun rc => Z.to_N (TM.r_paid Z rc))
           (fun _ _ st _ => st) (fun _ st => Some st) (fun _ => true) x_root (fun rs => N.of_nat (length rs))
           (fun ts => N.of_nat (length ts)) (fun _ _ => false) (fun _ => None) x_cfg x_pv x_parent x_po 1003
           (x_led, 0%Z) x_txs true x_sr b stp rcs 1020 x_oracle_ok P C E F5); [|exact F6].
  intros Hpos. discriminate Hpos.
Qed.
