(* Compose/ReplayExamples.v — non-vacuity of Compose/Replay.v: the fork history of Chain/Examples.v (tx 1001 on both
   siblings at height 2, tx 1002 depending on it and reverting, a reorganisation) is a history of blocks accepted by C02's
   Process run with C09's repository lookups; concrete blocks on which both models reject with the same verdict. *)
From Coq Require Import List NArith Bool Lia.
From Verif Require Import Common.Util Sched.Model Header.Rules Validation.Body Validation.ProofsRules Compose.Replay.
From Verif Require Chain.Model Chain.Proofs Chain.Examples Chain.ProofsChainInv.
Import ListNotations.
Open Scope N_scope.

Module CE := Verif.Chain.Examples.

(* execution: state = a number, a tx adds its id, uses 21000 gas, tx 1002 reverts; a tx with less than 21000 gas does not execute *)
Definition x_exec (c : bctx) (st : N) (t : txn) : option (N * receipt) :=
  if t_gas t <? 21000 then None else Some (st + t_id t, mkRc 21000 (t_id t =? 1002) 5).
Definition x_process (r : CM.repo) (p : N) cfg pv parent b now :=
  process_on N x_exec (fun _ _ st _ => st) (fun _ st => Some (st + 1)) (fun _ => true) (fun st => st)
             (fun rs => N.of_nat (length rs)) (fun ts => N.of_nat (length ts)) r p cfg pv parent 7 b now.

(* PoA v2 as in Properties/C02.v, chain tag 7 (the tag of the example repository) *)
Definition x_cfg := mkCfg 0 0 0 0 1000 10 7.
Definition x_cands := [ mkC (mkP 11 true 0) 2 111 None; mkC (mkP 22 true 0) 1 222 None ].
Definition x_pv := mkPV false x_cands 0 (fun _ => 0).
Definition x_parent (n : N) := mkH n 1000 10000000 0 0 50 0 1 777 0 (0, 0) false None 146 (Some 11) (Some (0, 0)).
Definition x_block (n : N) (txs : list txn) :=
  mkB (mkH (n + 1) 1010 10000000 222 (21000 * N.of_nat (length txs)) 52 (N.of_nat (length txs)) 1
           (7 + sumN (map t_id txs)) (N.of_nat (length txs)) (32, 777) true None 146 (Some 22) (Some (32, 4242))) txs None.
Definition v1 := mkTx 1001 true false true false 7 1 10 0 0 false 21000 true None.          (* the view of CE.ex_t1 *)
Definition v2 := mkTx 1002 true false true false 7 0 5 0 0 false 21000 true (Some 1001).   (* the view of CE.ex_t2 *)

Example views : same_tx v1 CE.ex_t1 /\ same_tx v2 CE.ex_t2.
Proof. split; unfold same_tx; cbn; auto. Qed.

Definition x_U (t : CM.txrec) : Prop := t = CE.ex_t1 \/ t = CE.ex_t2.

Lemma x_adm r cb best n txs st rcs :
  Forall2 same_tx txs (CM.b_txs cb) -> CM.num_of (CM.b_id cb) = n + 1 -> CM.r_tag r = 7 ->
  map CM.rc_rev (CM.b_rcs cb) = map r_reverted rcs ->
  x_process r (CM.b_parent cb) x_cfg x_pv (x_parent n) (x_block n txs) 1005 = Accepted N st rcs ->
  (forall t, In t (CM.b_txs cb) -> x_U t) ->
  c02_accepted N x_exec (fun _ _ st _ => st) (fun _ st => Some (st + 1)) (fun _ => true) (fun st => st)
               (fun rs => N.of_nat (length rs)) (fun ts => N.of_nat (length ts)) x_U r cb best.
Proof.
  intros H1 H2 H3 H4 H5 H6. split; [|exact H6].
  exists x_cfg, x_pv, (x_parent n), 7, (x_block n txs), 1005, st, rcs. split; [|split; [exact H4 | exact H5]].
  split; [exact H1|]. split; [exact H2 | symmetry; exact H3].
Qed.

(* 1. all premises of c02_history_is_c09_history / c02_chain_at_most_once_in_window / c02_chain_dependency hold on the
      example history: each of its four blocks (two empty ones, [1001], [1001; 1002 reverting]) was accepted by Process *)
Example fork_history_accepted_by_c02 :
  (forall t1 t2, x_U t1 -> x_U t2 -> CM.tx_id t1 = CM.tx_id t2 -> t1 = t2) /\
  CM.num_of CE.ex_g = 0 /\ CM.num_of CE.ex_gp = CM.max_u32 /\
  CP.reachable CE.ex_g CE.ex_gp CE.ex_tag
    (c02_accepted N x_exec (fun _ _ st _ => st) (fun _ st => Some (st + 1)) (fun _ => true) (fun st => st)
                  (fun rs => N.of_nat (length rs)) (fun ts => N.of_nat (length ts)) x_U) CE.ex_r4.
Proof.
  split.
  { intros t1 t2 [->| ->] [->| ->]; cbn; intros E; try reflexivity; discriminate. }
  split; [vm_compute; reflexivity|]. split; [vm_compute; reflexivity|].
  apply CE.ex_reachable.
  - apply (x_adm _ _ _ 0 [] 7 []); [apply Forall2_nil | vm_compute; reflexivity | reflexivity | reflexivity | vm_compute; reflexivity | intros t []].
  - apply (x_adm _ _ _ 1 [v1] 1008 [mkRc 21000 false 5]);
      [repeat (apply Forall2_cons || apply Forall2_nil); apply views | vm_compute; reflexivity | reflexivity | reflexivity | vm_compute; reflexivity |].
    intros t [<-|[]]. left. reflexivity.
  - apply (x_adm _ _ _ 1 [v1; v2] 2010 [mkRc 21000 false 5; mkRc 21000 true 5]);
      [repeat (apply Forall2_cons || apply Forall2_nil); apply views | vm_compute; reflexivity | reflexivity | reflexivity | vm_compute; reflexivity |].
    intros t [<-|[<-|[]]]; [left | right]; reflexivity.
  - apply (x_adm _ _ _ 2 [] 7 []); [apply Forall2_nil | vm_compute; reflexivity | reflexivity | reflexivity | vm_compute; reflexivity | intros t []].
Qed.

(* ... so the composed theorem applies to it *)
Example fork_history_is_c09_history :
  CP.reachable CE.ex_g CE.ex_gp CE.ex_tag (Chain.ProofsChainInv.accepted x_U) CE.ex_r4.
Proof.
  destruct fork_history_accepted_by_c02 as (_ & Hg & Hgp & R).
  exact (c02_history_is_c09_history N x_exec _ _ _ _ _ _ _ _ _ x_U CE.ex_r4 Hg Hgp R).
Qed.

(* 2. same verdict, concretely: on top of the reorganised chain (head (3,1) over (2,2)) both models reject
      - tx 1001 again                          : C02 code 50, C09 V_exists
      - a tx depending on the reverted 1002    : C02 code 52, C09 V_deprev
      - a tx depending on an unknown id        : C02 code 51, C09 V_depbroken
      - an expired tx (ref 0, expiration 3)    : C02 code 37, C09 V_expired
      - a tx of another chain                  : C02 code 35, C09 V_tag
      - a tx referring to a future block       : C02 code 36, C09 V_future
      and on the OTHER branch (head (2,1), where 1002 was never included) the tx depending on 1002 is rejected as
      dependency-not-found by both, tx 1001 as a duplicate by both *)
Definition top (txs : list txn) := x_process CE.ex_r4 (CE.bid 3 1) x_cfg x_pv (x_parent 3) (x_block 3 txs) 1005.
Definition ctop (txs : list txn) := CM.validate CE.ex_r4 (CM.mkB (CE.bid 4 1) (CE.bid 3 1) 40 (map (tx_of 50) txs) [CE.ex_rc false]).
Definition side (txs : list txn) := x_process CE.ex_r4 (CE.bid 2 1) x_cfg x_pv (x_parent 2) (x_block 2 txs) 1005.
Definition cside (txs : list txn) := CM.validate CE.ex_r4 (CM.mkB (CE.bid 3 2) (CE.bid 2 1) 40 (map (tx_of 50) txs) [CE.ex_rc false]).
Definition w (id tag ref exp : N) (dep : option N) := mkTx id true false true false tag ref exp 0 0 false 21000 true dep.

Example same_verdicts :
  top [v1] = Rejected N (Critical 50) /\ ctop [v1] = CM.V_exists /\
  top [w 1003 7 0 9 (Some 1002)] = Rejected N (Critical 52) /\ ctop [w 1003 7 0 9 (Some 1002)] = CM.V_deprev /\
  top [w 1003 7 0 9 (Some 4444)] = Rejected N (Critical 51) /\ ctop [w 1003 7 0 9 (Some 4444)] = CM.V_depbroken /\
  top [w 1003 7 0 3 None] = Rejected N (Critical 37) /\ ctop [w 1003 7 0 3 None] = CM.V_expired /\
  top [w 1003 8 0 9 None] = Rejected N (Critical 35) /\ ctop [w 1003 8 0 9 None] = CM.V_tag /\
  top [w 1003 7 5 9 None] = Rejected N (Critical 36) /\ ctop [w 1003 7 5 9 None] = CM.V_future /\
  side [w 1003 7 0 9 (Some 1002)] = Rejected N (Critical 51) /\ cside [w 1003 7 0 9 (Some 1002)] = CM.V_depbroken /\
  side [v1] = Rejected N (Critical 50) /\ cside [v1] = CM.V_exists /\
  top [w 1003 7 0 9 (Some 1001)] = Accepted N 1010 [mkRc 21000 false 5] /\ ctop [w 1003 7 0 9 (Some 1001)] = CM.V_ok.
Proof. vm_compute. repeat split. Qed.

(* the premise lookups_total of the loop / block theorems holds there (through C09's theorems 2 and 4) *)
Example lookups_total_example : lookups_total CE.ex_r4 (CE.bid 3 1) /\ lookups_total CE.ex_r4 (CE.bid 2 1).
Proof.
  destruct fork_history_accepted_by_c02 as (_ & Hg & Hgp & R).
  split; apply (lookups_total_reachable _ _ _ _ _ _ Hg Hgp R); eexists; vm_compute; reflexivity.
Qed.

(* ... and process_replay_reject_same_verdict instantiated on the duplicate *)
Example reject_theorem_applies : ctop [v1] = CM.V_exists.
Proof.
  apply (process_replay_reject_same_verdict N x_exec (fun _ _ st _ => st) (fun _ st => Some (st + 1)) (fun _ => true) (fun st => st)
           (fun rs => N.of_nat (length rs)) (fun ts => N.of_nat (length ts)) x_cfg x_pv (x_parent 3) 7 (x_block 3 [v1]) 1005
           CE.ex_r4 _ 50 CM.V_exists).
  - split; [apply same_txs_of|]. split; [vm_compute; reflexivity | reflexivity].
  - apply lookups_total_example.
  - intros ctx st1 E. vm_compute in E. injection E as <- <-. vm_compute. reflexivity.
  - vm_compute. reflexivity.
  - reflexivity.
Qed.
