(* Compose/CrashBft.v — C13/C20 <-> C03/C04: the key-value store of the crash model (Crash/Model.v) seen as a node of the
   BFT model (Bft/Model.v).  Part 1: the abstraction and the agreement of the two models' decision functions.

   The two models describe the same code from two sides.  Crash: the store is a write log, a block carries the OUTCOME of
   the vote tally of its round as data (b_just / b_comm, stored in the summary), chains are walked through parent links
   with fuel, ids are the 32-byte ids (number = id / 2^224).  Bft: a node is the list of stored blocks (newest first), a
   block carries its signer and COM bit and the tally is computed (compute_state), chains are computed by one structural
   pass over the list, ids are compressed to number * 2^32 + rank.

   * the id bridge: a translation [tr] of the ids that occur (domain [D]) that keeps the block number
     (idnum (tr a) = num_of a) and the order (hence is injective) — what the C04 harness does when it hands compressed ids to
     the oracle.  No total function N -> N has these properties (2^224 ids per number against 2^32), hence the domain;
     [tr_small] below is the instance for ids whose low 224 bits are below 2^32 (all ids of Crash/Examples.v).
   * signer and COM bit of a block are not part of the crash model: they are two more data functions [sg], [cm] of the id.
   * [abs c bc ... s] is the Bft node read off a store: the stored summaries in the order of their first insertion, the
     best pointer, the finalized record (genesis when absent), the quality records of the stored blocks; casts and the
     Justified() cache empty (what NewEngine leaves).
   * [view] / [refines] is the abstraction as a relation that only reads the store through [get] (so it is invariant under
     Crash's store equivalence [eqv], unlike the function, which reads the log order): the repository holds exactly the
     stored summaries and is well formed, same best, same finalized, same quality records.
   * [flags_ok] / [flags_are_tallies]: the coupling hypothesis — the justified / committed flags the crash side carries as
     data ARE the Bft tally (compute_state) of the block over the stored blocks.
   * agreement lemmas (under [view], Crash's [Inv], [wf_cfg]): [anc_block_at] (fuelled parent walk = block_at on the
     structural chain), [quality_agree] (quality_of = s_q (compute_state)), [bsearch_agree] (the two sort.Search definitions
     differ only when the fuel runs out, and with the fuel both callers pass it never does: pure arithmetic, no invariant
     needed), [find_agree] (find_checkpoint = find_cp, error codes forgotten), [accepts_agree], [select_agree].
   Part 2 (below, same section): [commit_sim] (CommitBlock), [import_sim] (one import: same outcome class, the new store refines
   the new node), [restart_sim] / [crash_image_restart_sim] (restart of an uncut store is Bft's restart; restart of ANY crash
   image, F6 repair included, is the Bft node before or after the interrupted import), [run_sim], [genesis_sim], [resume_sim]
   (through Crash's resume_converges), the abstraction function ([abs_refines], [abs_import_step]: it commutes with import),
   the transfers of C04 / C03 theorems ([sim_quality_from_scratch], [run_node_ok], [sim_function_of_set], [run_fin_trace])
   and, in section FromGenesis, the statements Properties/C13.v restates.  [tr_small]: an instance of the id bridge. *)
From Coq Require Import List NArith ZArith Bool Lia.
From Coq Require Import ZifyN ZifyNat ZifyBool.
From Verif Require Import Crash.Model Crash.ProofsStore Crash.ProofsInv Crash.ProofsImport Crash.ProofsCrash
  Crash.ProofsEqv Crash.ProofsShape Crash.ProofsResumeAll Crash.ProofsFinalized Crash.ProofsQuality.
From Verif Require Bft.Tree Bft.Model Bft.ProofsTally Bft.ProofsChain Bft.ProofsNode Bft.ProofsOrder Bft.ProofsMonotone
  Bft.ProofsSafety Bft.ProofsOrder2 Bft.ProofsOrder3.
Import ListNotations.
Open Scope N_scope.

Module BT := Verif.Bft.Tree.
Module BM := Verif.Bft.Model.
Module BY := Verif.Bft.ProofsTally.
Module BC := Verif.Bft.ProofsChain.
Module BN := Verif.Bft.ProofsNode.
Module BO := Verif.Bft.ProofsOrder.
Module BMo := Verif.Bft.ProofsMonotone.
Module BS := Verif.Bft.ProofsSafety.
Module BO3 := Verif.Bft.ProofsOrder3.

(* ---------------------------------------------------------------- results of the two models side by side *)
Inductive rel_res {A B} (R : A -> B -> Prop) : option A -> BM.res B -> Prop :=
| rr_ok a b : R a b -> rel_res R (Some a) (BM.Ok b)
| rr_err e : rel_res R None (BM.Err e).

Lemma rel_res_some {A B} (R : A -> B -> Prop) a r : rel_res R (Some a) r -> exists b, r = BM.Ok b /\ R a b.
Proof. intros H. inversion H; subst. eauto. Qed.
Lemma rel_res_none {A B} (R : A -> B -> Prop) r : rel_res R None r -> exists e, r = @BM.Err B e.
Proof. intros H. inversion H; subst. eauto. Qed.

(* sort.Search: Crash's definition answers None, Bft's answers the lower bound, when the fuel runs out inside the loop.
   With more fuel than the width of the interval neither happens (each round removes at least one index). *)
Lemma bsearch_agree (f : N -> option bool) (g : N -> BM.res bool) :
  (forall h, rel_res eq (f h) (g h)) ->
  forall fuel i j, (N.to_nat (j - i) < fuel)%nat -> rel_res eq (bsearch fuel f i j) (BM.bsearch fuel g i j).
Proof.
  intros H. induction fuel as [|k IH]; intros i j Hf; [lia|].
  cbn [bsearch BM.bsearch]. destruct (i <? j) eqn:E; [|constructor; reflexivity].
  apply N.ltb_lt in E.
  assert (Hh : i <= (i + j) / 2 /\ (i + j) / 2 < j).
  { split; [apply N.div_le_lower_bound; lia | apply N.div_lt_upper_bound; lia]. }
  destruct (H ((i + j) / 2)) as [a b <- | e]; [|constructor].
  destruct a; apply IH; lia.
Qed.

(* ---------------------------------------------------------------- Bft side: block_at by one step *)
Lemma block_at_unknown R id n : BT.known R id = false -> BT.block_at R id n = None.
Proof. intros H. unfold BT.block_at. rewrite (BC.chain_of_unknown R id H). reflexivity. Qed.

Lemma block_at_unfold R id x n : BT.wf_repo R -> BT.find_blk R id = Some x ->
  BT.block_at R id n = if BT.b_num x =? n then Some x else if BT.b_num x <? n then None
                       else BT.block_at R (BT.b_parent x) n.
Proof.
  intros Hwf Hf. destruct (BC.chain_of_known R Hwf id x Hf) as [t [Ht Hg]].
  unfold BT.block_at at 1. rewrite Ht. unfold BT.at_num. cbn [find].
  destruct (BT.b_num x =? n) eqn:E1; [reflexivity|]. apply N.eqb_neq in E1.
  destruct (BT.b_num x <? n) eqn:E2.
  - apply N.ltb_lt in E2. destruct (find (fun b => BT.b_num b =? n) t) as [y|] eqn:Ey; [|reflexivity].
    destruct (find_some _ _ Ey) as [Hin Hn]. apply N.eqb_eq in Hn.
    pose proof (BC.grounded_nums x t Hg y Hin). lia.
  - apply N.ltb_ge in E2. destruct t as [|p t'].
    + cbn in Hg. lia.
    + pose proof Hg as Hg0. cbn in Hg. destruct Hg as [Hpar _].
      assert (Hs : BT.chain_of R (BT.b_id p) = p :: t') by (apply (BC.chain_suffix R Hwf id [x] p t'); exact Ht).
      unfold BT.block_at, BT.at_num. rewrite Hpar, Hs. reflexivity.
Qed.

(* the flags of summarize do not read the parent quality *)
Lemma add_block_pq js js' s com w :
  BM.j_tv js = BM.j_tv js' -> BM.j_tw js = BM.j_tw js' -> BM.j_votes js = BM.j_votes js' -> BM.j_com js = BM.j_com js' ->
  BM.j_comw js = BM.j_comw js' -> BM.j_jw js = BM.j_jw js' ->
  let a := BM.add_block js s com w in let a' := BM.add_block js' s com w in
  BM.j_tv a = BM.j_tv a' /\ BM.j_tw a = BM.j_tw a' /\ BM.j_votes a = BM.j_votes a' /\ BM.j_com a = BM.j_com a' /\
  BM.j_comw a = BM.j_comw a' /\ BM.j_jw a = BM.j_jw a'.
Proof.
  intros H1 H2 H3 H4 H5 H6. unfold BM.add_block. rewrite <- H3.
  destruct (BM.lookup_vote (BM.j_votes js) s) as [prev|]; cbn.
  - destruct (eqb (BM.v_com prev) com); cbn; rewrite <- ?H1, <- ?H2, <- ?H3, <- ?H4, <- ?H5, <- ?H6; repeat split; reflexivity.
  - rewrite <- ?H1, <- ?H2, <- ?H4, <- ?H5, <- ?H6. repeat split; reflexivity.
Qed.

Lemma tally_flags_pq bc pq pq' seg :
  BM.s_just (BM.summarize (BM.tally bc pq seg)) = BM.s_just (BM.summarize (BM.tally bc pq' seg)) /\
  BM.s_comm (BM.summarize (BM.tally bc pq seg)) = BM.s_comm (BM.summarize (BM.tally bc pq' seg)).
Proof.
  unfold BM.tally.
  assert (G : forall l js js',
    BM.j_tv js = BM.j_tv js' -> BM.j_tw js = BM.j_tw js' -> BM.j_votes js = BM.j_votes js' -> BM.j_com js = BM.j_com js' ->
    BM.j_comw js = BM.j_comw js' -> BM.j_jw js = BM.j_jw js' ->
    BM.s_just (BM.summarize (fold_left (BM.add_blk bc) l js)) = BM.s_just (BM.summarize (fold_left (BM.add_blk bc) l js')) /\
    BM.s_comm (BM.summarize (fold_left (BM.add_blk bc) l js)) = BM.s_comm (BM.summarize (fold_left (BM.add_blk bc) l js'))).
  { induction l as [|x l IH]; intros js js' H1 H2 H3 H4 H5 H6.
    - cbn [fold_left]. unfold BM.summarize. cbn [BM.s_just BM.s_comm]. rewrite H1, H2, H3, H4, H5, H6. split; reflexivity.
    - cbn [fold_left]. unfold BM.add_blk at 2 4.
      destruct (add_block_pq js js' (BT.b_signer x) (BT.b_com x) (BM.weight_of bc (BT.b_signer x)) H1 H2 H3 H4 H5 H6)
        as (A1 & A2 & A3 & A4 & A5 & A6).
      apply IH; assumption. }
  apply G; reflexivity.
Qed.

Lemma state_flags_qs bc qs qs' ch :
  BM.s_just (BM.state_of_chain bc qs ch) = BM.s_just (BM.state_of_chain bc qs' ch) /\
  BM.s_comm (BM.state_of_chain bc qs ch) = BM.s_comm (BM.state_of_chain bc qs' ch).
Proof.
  unfold BM.state_of_chain. destruct ch as [|b t]; [split; reflexivity|].
  destruct (BT.b_num b =? 0); [split; reflexivity|]. apply tally_flags_pq.
Qed.

(* the common shape of findCheckpointByQuality in the two models *)
Lemma find_shape (q : N -> option N) (get : N -> BM.res N) (a1 : N -> option N) (a2 : N -> option BT.blk) (f : N -> N) t n :
  (forall i, rel_res eq (q i) (get i)) ->
  (forall i, match a1 i, a2 i with Some a, Some y => BT.b_id y = f a | None, None => True | _, _ => False end) ->
  rel_res (fun a b => b = f a)
    (match bsearch (S (N.to_nat n)) (fun i => match q i with Some x => Some (t <=? x) | None => None end) 0 n with
     | None => None
     | Some idx => if idx =? n then None else match q idx with Some x => if x =? t then a1 idx else None | None => None end
     end)
    (match BM.bsearch (S (N.to_nat n)) (fun i => match get i with BM.Ok q => BM.Ok (t <=? q) | BM.Err e => BM.Err e end) 0 n with
     | BM.Err e => BM.Err e
     | BM.Ok num => if num =? n then BM.Err 2 else
        match get num with
        | BM.Err e => BM.Err e
        | BM.Ok q => if negb (q =? t) then BM.Err 3 else match a2 num with Some x => BM.Ok (BT.b_id x) | None => BM.Err 4 end
        end
     end).
Proof.
  intros G A.
  assert (B : rel_res eq
     (bsearch (S (N.to_nat n)) (fun i => match q i with Some x => Some (t <=? x) | None => None end) 0 n)
     (BM.bsearch (S (N.to_nat n)) (fun i => match get i with BM.Ok x => BM.Ok (t <=? x) | BM.Err e => BM.Err e end) 0 n)).
  { apply bsearch_agree; [|lia]. intro h. destruct (G h) as [a b <-|e]; constructor. reflexivity. }
  destruct B as [idx idx' <- | e]; [|constructor].
  destruct (idx =? n); [constructor|].
  destruct (G idx) as [x x' <- | e]; [|constructor].
  destruct (x =? t); cbn [negb]; [|constructor].
  specialize (A idx). destruct (a1 idx) as [a|], (a2 idx) as [y|]; try contradiction; constructor. exact A.
Qed.

(* the engine CommitBlock leaves (import path: isPacking = false, F1 guard) *)
Lemma commit_block_fst bc r e b :
  fst (BM.commit_block true bc r e b false) =
  let st := BM.compute_state bc r (BM.e_qs e) b in
  if BM.storepoint (BM.c_L bc) (BT.b_num b) =? BT.b_num b then
    let qs' := (BT.b_id b, BM.s_q st) :: BM.e_qs e in
    let e1 := BM.mkE (BM.e_master e) (BM.e_fin e) qs' (BM.e_casts e) (BM.e_jc e) in
    if BM.s_comm st && (1 <? BM.s_q st) && (BT.idnum (BM.e_fin e) <? BM.checkpoint (BM.c_L bc) (BT.b_num b)) then
      match BM.find_cp bc r qs' (BM.s_q st - 1) (BM.e_fin e) (BT.b_id b) with
      | BM.Ok id => BM.mkE (BM.e_master e) id qs' (BM.e_casts e) (BM.e_jc e)
      | BM.Err _ => e1
      end
    else e1
  else e.
Proof.
  unfold BM.commit_block. cbv zeta. destruct (BM.storepoint (BM.c_L bc) (BT.b_num b) =? BT.b_num b).
  - cbn [negb orb]. destruct (BM.s_comm _ && (1 <? BM.s_q _) && _).
    + destruct (BM.find_cp _ _ _ _ _ _) as [id|code]; [reflexivity|]. destruct (code =? 0); reflexivity.
    + reflexivity.
  - destruct e; reflexivity.
Qed.

(* ---------------------------------------------------------------- Crash side: the order of first insertion of the summaries *)
Definition no_summary_put (o : op) : Prop := forall i v, o <> Put (KSummary i) v.

Lemma summary_ids_cons_other o s : no_summary_put o -> summary_ids (o :: s) = summary_ids s.
Proof. intros H. destruct o as [k v|k]; [|reflexivity]. destruct k; try reflexivity. exfalso. eapply H. reflexivity. Qed.

Lemma summary_ids_frame w : forall s, (forall o, In o w -> no_summary_put o) -> summary_ids (apply_batch s w) = summary_ids s.
Proof.
  induction w as [|o w IH]; intros s H; [reflexivity|].
  rewrite apply_batch_cons, IH by (intros o' Ho'; apply H; right; exact Ho').
  apply summary_ids_cons_other. apply H. left. reflexivity.
Qed.

Lemma summary_ids_frame_writes ws : forall s, (forall w o, In w ws -> In o w -> no_summary_put o) ->
  summary_ids (apply_writes s ws) = summary_ids s.
Proof.
  induction ws as [|w ws IH]; intros s H; [reflexivity|].
  rewrite apply_writes_cons, IH by (intros w' o Hw' Ho; apply (H w' o); [right; exact Hw' | exact Ho]).
  apply summary_ids_frame. intros o Ho. apply (H w o); [left; reflexivity | exact Ho].
Qed.

Lemma aux_no_summary w o : aux_batch w -> In o w -> no_summary_put o.
Proof. intros H Ho i v E. specialize (H o Ho). subst o. discriminate H. Qed.

Lemma bulk_summary_ids s b conf ab : ~ In (b_id b) (summary_ids s) ->
  summary_ids (apply_batch s (block_bulk b conf ab)) = b_id b :: summary_ids s.
Proof.
  intros Hn. unfold block_bulk. rewrite !apply_batch_app.
  rewrite summary_ids_frame by (intros o Ho; destruct ab; [destruct Ho as [<-|[]]; intros i v E; discriminate E | destruct Ho]).
  cbn [apply_batch fold_left summary_ids].
  rewrite summary_ids_frame.
  2:{ intros o Ho. apply in_map_iff in Ho. destruct Ho as (it & <- & _). intros i v E. discriminate E. }
  rewrite summary_ids_frame.
  2:{ intros o Ho. apply in_flat_map in Ho. destruct Ho as (it & _ & Ho). cbn in Ho.
      destruct Ho as [<-|[<-|[<-|[]]]]; intros i v E; discriminate E. }
  destruct (existsb (N.eqb (b_id b)) (summary_ids s)) eqn:Ex; [|reflexivity].
  apply existsb_exists in Ex. destruct Ex as (x & Hx & E). apply N.eqb_eq in E. subst x. contradiction.
Qed.

Lemma summary_ids_pre s b ab : ~ In (b_id b) (summary_ids s) ->
  summary_ids (apply_writes s (pre_writes s b ab)) = b_id b :: summary_ids s.
Proof.
  intros Hn. rewrite s3_eq. rewrite bulk_summary_ids.
  - f_equal. apply summary_ids_frame_writes. intros w o Hw Ho. eapply aux_no_summary; [|exact Ho]. apply (s2_aux s b). exact Hw.
  - rewrite summary_ids_frame_writes; [exact Hn|]. intros w o Hw Ho. eapply aux_no_summary; [|exact Ho]. apply (s2_aux s b). exact Hw.
Qed.

Lemma summary_ids_commit c s0 s id parent just comm :
  summary_ids (apply_writes s (writes_of_steps (commit_steps c s0 id parent just comm))) = summary_ids s.
Proof.
  apply summary_ids_frame_writes. intros w o Hw Ho.
  destruct (commit_writes_keys _ _ _ _ _ _ _ _ Hw Ho) as [X|X]; intros i v E; subst o; discriminate X.
Qed.

Lemma summary_ids_main c s b ab : main_case c s b ab -> ~ In (b_id b) (summary_ids s) ->
  summary_ids (run1 c s b) = b_id b :: summary_ids s.
Proof.
  intros M Hn. unfold run1. rewrite (main_case_batches c s b ab M), apply_writes_app. unfold commit_writes.
  rewrite summary_ids_commit. apply summary_ids_pre. exact Hn.
Qed.

(* every id the enumeration lists is (still) stored: no summary is ever deleted or overwritten by another kind of value *)
Definition ids_stored (s : store) : Prop := forall i, In i (summary_ids s) -> stored s i = true.

(* ================================================================ the bridge *)
Section Bridge.
Variable c : cfg.                      (* Crash: epoch length, genesis id *)
Variable bc : BM.cfg.                  (* Bft: epoch length, thresholds, weights *)
Hypothesis HcL : BM.c_L bc = c_L c.
Variable tr : N -> N.                  (* id translation *)
Variable D : N -> Prop.                (* the ids it is used on *)
Hypothesis tr_num : forall a, D a -> BT.idnum (tr a) = num_of a.
Hypothesis tr_lt : forall a b, D a -> D b -> (tr a <? tr b) = (a <? b).
Variables (sg : N -> N) (cm : N -> bool).   (* signer and COM bit of the block with a given id: data the crash model does not carry *)
Variable master : N.

Lemma tr_inj a b : D a -> D b -> tr a = tr b -> a = b.
Proof.
  intros Ha Hb E. pose proof (tr_lt a b Ha Hb) as H1. pose proof (tr_lt b a Hb Ha) as H2.
  rewrite E in H1. rewrite E in H2. rewrite N.ltb_irrefl in H1, H2.
  symmetry in H1, H2. apply N.ltb_ge in H1, H2. lia.
Qed.

Lemma tr_eqb a b : D a -> D b -> (tr a =? tr b) = (a =? b).
Proof.
  intros Ha Hb. destruct (N.eqb_spec a b) as [->|Hne]; [apply N.eqb_refl|].
  apply N.eqb_neq. intros E. apply Hne. apply tr_inj; assumption.
Qed.

Definition ablk_of (id parent score : N) : BT.blk := BT.mkB (tr id) (tr parent) (sg id) (cm id) score.
Definition ablk (b : blk) : BT.blk := ablk_of (b_id b) (b_parent b) (b_score b).
Definition asum (id : N) (sm : summary) : BT.blk := ablk_of id (s_parent sm) (s_score sm).

Lemma asum_summary_of b conf : asum (b_id b) (summary_of b conf) = ablk b.
Proof. reflexivity. Qed.

(* ---------------------------------------------------------------- the abstraction function *)
Definition abs_repo (s : store) : BT.repo :=
  flat_map (fun id => match get_summary s id with Some sm => [asum id sm] | None => [] end) (summary_ids s).
Definition abs_qs (s : store) : list (N * N) :=
  map (fun id => (tr id, get_quality s id)) (filter (stored s) (summary_ids s)).
Definition best_of (s : store) : N := match get_id s KBest with Some b => b | None => c_g c end.
Definition abs (s : store) : BM.node :=
  BM.mkN (abs_repo s) (tr (best_of s)) (BM.mkE master (tr (finalized c s)) (abs_qs s) None None).

(* ---------------------------------------------------------------- the abstraction relation (reads the store through get only) *)
Definition dom (s : store) : Prop := forall id, stored s id = true -> D id.

Record view (s : store) (R : BT.repo) (qs : list (N * N)) : Prop := mkView {
  v_find : forall id, D id -> BT.find_blk R (tr id) = option_map (asum id) (get_summary s id);
  v_in : forall x, In x R -> exists id sm, get_summary s id = Some sm /\ x = asum id sm;
  v_qs : forall id, D id -> BM.get_q qs (tr id) = get_quality s id;
  v_wf : BT.wf_repo R;
  v_inv : Inv c s;
  v_dom : dom s }.

Record refines (s : store) (nd : BM.node) : Prop := mkRef {
  rf_view : view s (BM.n_repo nd) (BM.e_qs (BM.n_eng nd));
  rf_best : exists best, get_id s KBest = Some best /\ BM.n_best nd = tr best;
  rf_fin : BM.e_fin (BM.n_eng nd) = tr (finalized c s) }.

(* the coupling: the flags stored with every block are the Bft tally of that block over the stored blocks *)
Definition flags_ok (s : store) (nd : BM.node) : Prop :=
  forall id sm, get_summary s id = Some sm ->
    let st := BM.compute_state bc (BM.n_repo nd) (BM.e_qs (BM.n_eng nd)) (asum id sm) in
    s_just sm = BM.s_just st /\ s_comm sm = BM.s_comm st.
Definition flags_are_tallies (s : store) : Prop := flags_ok s (abs s).

(* ... and of a block about to be imported *)
Definition blk_flags_ok (nd : BM.node) (b : blk) : Prop :=
  let st := BM.compute_state bc (BM.n_repo nd) (BM.e_qs (BM.n_eng nd)) (ablk b) in
  b_just b = BM.s_just st /\ b_comm b = BM.s_comm st.

Lemma eqv_view s s' R qs : eqv s s' -> view s R qs -> view s' R qs.
Proof.
  intros E [Hf Hi Hq Hw HI Hd]. pose proof (eqv_eqv_na _ _ E) as En.
  assert (S : forall i, get_summary s' i = get_summary s i) by (intro i; symmetry; apply na_get_summary; auto).
  constructor.
  - intros id Hid. rewrite S. auto.
  - intros x Hx. destruct (Hi x Hx) as (id & sm & H1 & H2). exists id, sm. rewrite S. auto.
  - intros id Hid. rewrite <- (na_get_quality s s' En). auto.
  - exact Hw.
  - eapply Inv_ext; [| | | | |exact HI].
    + intros k _ H. unfold has in *. rewrite <- (E k). exact H.
    + exact S.
    + unfold get_id. rewrite (E KBest). reflexivity.
    + unfold get_id. rewrite (E KFinalized). reflexivity.
    + intro id. unfold has. rewrite (E (KQuality id)). reflexivity.
  - intros id H. apply Hd. rewrite (na_stored s s' En). exact H.
Qed.

Lemma eqv_refines s s' nd : eqv s s' -> refines s nd -> refines s' nd.
Proof.
  intros E [V (best & Hb & Eb) F]. pose proof (eqv_eqv_na _ _ E) as En. constructor.
  - eapply eqv_view; eauto.
  - exists best. rewrite <- (na_get_id s s' En) by reflexivity. auto.
  - rewrite <- (na_finalized s s' En). exact F.
Qed.

Lemma eqv_flags_ok s s' nd : eqv s s' -> flags_ok s nd -> flags_ok s' nd.
Proof.
  intros E H id sm Hs. apply H. rewrite (na_get_summary s s' (eqv_eqv_na _ _ E)). exact Hs.
Qed.

(* ---------------------------------------------------------------- lookups *)
Section View.
Variables (s : store) (R : BT.repo) (qs : list (N * N)).
Hypothesis V : view s R qs.
Hypothesis Hc : wf_cfg c.

Lemma view_known id : D id -> BT.known R (tr id) = stored s id.
Proof. intros Hd. unfold BT.known, stored. rewrite (v_find _ _ _ V id Hd). destruct (get_summary s id); reflexivity. Qed.

Lemma asum_num id sm : D id -> BT.b_num (asum id sm) = num_of id.
Proof. intros Hd. unfold BT.b_num. cbn. apply tr_num. exact Hd. Qed.

Lemma parent_dom id sm : get_summary s id = Some sm -> 0 < num_of id ->
  stored s (s_parent sm) = true /\ num_of (s_parent sm) + 1 = num_of id /\ D (s_parent sm).
Proof.
  intros E Hn. destruct (inv_blocks c s (v_inv _ _ _ V) id sm E) as (_ & _ & _ & [[_ H0]|[Hp Hnum]]); [lia|].
  repeat split; auto. apply (v_dom _ _ _ V). exact Hp.
Qed.

(* the fuelled walk over parent links and the lookup on the structural chain find the same block *)
Lemma ancestor_block_at : forall fuel id n, D id -> (N.to_nat (num_of id - n) <= fuel)%nat ->
  option_map tr (ancestor fuel s id n) = option_map BT.b_id (BT.block_at R (tr id) n).
Proof.
  induction fuel as [|f IH]; intros id n Hd Hf; cbn [ancestor];
    pose proof (v_find _ _ _ V id Hd) as F; destruct (get_summary s id) as [sm|] eqn:E; cbn [option_map] in F.
  - rewrite (block_at_unfold R (tr id) _ n (v_wf _ _ _ V) F), (asum_num id sm Hd).
    destruct (num_of id =? n) eqn:E1; [reflexivity|]. destruct (num_of id <? n) eqn:E2; [reflexivity|].
    apply N.eqb_neq in E1. apply N.ltb_ge in E2. lia.
  - rewrite block_at_unknown; [reflexivity|]. unfold BT.known. rewrite F. reflexivity.
  - rewrite (block_at_unfold R (tr id) _ n (v_wf _ _ _ V) F), (asum_num id sm Hd).
    destruct (num_of id =? n) eqn:E1; [reflexivity|]. destruct (num_of id <? n) eqn:E2; [reflexivity|].
    apply N.eqb_neq in E1. apply N.ltb_ge in E2.
    destruct (parent_dom id sm E ltac:(lia)) as (Hp & Hnum & Hdp).
    change (BT.b_parent (asum id sm)) with (tr (s_parent sm)). apply IH; [exact Hdp | lia].
  - rewrite block_at_unknown; [reflexivity|]. unfold BT.known. rewrite F. reflexivity.
Qed.

Lemma anc_block_at id n : D id -> option_map tr (anc s id n) = option_map BT.b_id (BT.block_at R (tr id) n).
Proof. intros Hd. unfold anc. apply ancestor_block_at; [exact Hd | lia]. Qed.

Lemma anc_some id n a : D id -> anc s id n = Some a ->
  exists x, BT.block_at R (tr id) n = Some x /\ BT.b_id x = tr a /\ stored s a = true /\ D a /\ num_of a = n.
Proof.
  intros Hd Ha. pose proof (anc_block_at id n Hd) as H. rewrite Ha in H. cbn in H.
  destruct (BT.block_at R (tr id) n) as [x|]; [|discriminate]. cbn in H. inversion H as [Hx].
  destruct (anc_stored _ _ _ _ Ha) as [Hs Hn]. exists x. repeat split; auto. apply (v_dom _ _ _ V). exact Hs.
Qed.

Lemma anc_none id n : D id -> anc s id n = None -> BT.block_at R (tr id) n = None.
Proof.
  intros Hd Ha. pose proof (anc_block_at id n Hd) as H. rewrite Ha in H. cbn in H.
  destruct (BT.block_at R (tr id) n); [discriminate | reflexivity].
Qed.

(* ---------------------------------------------------------------- quality *)
Lemma checkpoint_eq L n : BM.checkpoint L n = checkpoint L n.
Proof. reflexivity. Qed.
Lemma storepoint_eq L n : BM.storepoint L n = storepoint L n.
Proof. reflexivity. Qed.

(* computeState(...).Quality: the crash side adds the flag it carries to the record of the previous round's store point, the
   Bft side computes the tally; they agree as soon as the flag is the tally's *)
Lemma quality_agree id parent score just : D id -> D parent ->
  (num_of id = 0 \/ (stored s parent = true /\ num_of parent + 1 = num_of id)) ->
  just = BM.s_just (BM.compute_state bc R qs (ablk_of id parent score)) ->
  quality_of c s parent (num_of id) just = Some (BM.s_q (BM.compute_state bc R qs (ablk_of id parent score))).
Proof.
  intros Hd Hdp Hcase Hj. pose proof Hc as [_ HL].
  set (B := ablk_of id parent score) in *.
  assert (HnB : BT.b_num B = num_of id) by (unfold BT.b_num; cbn; apply tr_num; exact Hd).
  unfold BM.compute_state, BM.state_of_chain in *. rewrite HnB in *.
  destruct (num_of id =? 0) eqn:E0.
  - apply N.eqb_eq in E0. cbn in Hj. subst just. unfold quality_of. rewrite E0. rewrite N.div_0_l by lia. reflexivity.
  - apply N.eqb_neq in E0. destruct Hcase as [H0|[Hp Hnum]]; [lia|].
    rewrite BY.summarize_quality, BY.tally_pq. rewrite <- Hj.
    unfold quality_of, BM.parent_quality. rewrite HnB, HcL.
    destruct (num_of id / c_L c =? 0) eqn:Ed; [destruct just; reflexivity|].
    apply N.eqb_neq in Ed.
    pose proof (checkpoint_le (c_L c) (num_of id) HL) as Hle. pose proof (checkpoint_pos (c_L c) (num_of id) HL Ed) as Hpos.
    change (BM.checkpoint (c_L c) (num_of id)) with (checkpoint (c_L c) (num_of id)).
    destruct (anc_total c s parent (checkpoint (c_L c) (num_of id) - 1) Hc (v_inv _ _ _ V) Hp ltac:(lia)) as (qid & Hq).
    rewrite Hq. destruct (anc_some parent _ qid Hdp Hq) as (x & Hx & Hxid & Hsq & Hdq & _).
    unfold BT.at_num. cbn [find]. rewrite HnB.
    assert (E1 : (num_of id =? checkpoint (c_L c) (num_of id) - 1) = false) by (apply N.eqb_neq; lia). rewrite E1.
    change (BT.b_parent B) with (tr parent).
    change (find (fun b => BT.b_num b =? checkpoint (c_L c) (num_of id) - 1) (BT.chain_of R (tr parent)))
      with (BT.block_at R (tr parent) (checkpoint (c_L c) (num_of id) - 1)).
    rewrite Hx, Hxid, (v_qs _ _ _ V qid Hdq). destruct just; cbn [b2n]; f_equal; lia.
Qed.

(* ---------------------------------------------------------------- findCheckpointByQuality *)
Lemma quality_at_agree head m : D head ->
  rel_res eq (match anc s head m with Some id => Some (get_quality s id) | None => None end) (BM.quality_at R qs (tr head) m).
Proof.
  intros Hd. unfold BM.quality_at. destruct (anc s head m) as [a|] eqn:Ea.
  - destruct (anc_some head m a Hd Ea) as (x & Hx & Hxid & _ & Hda & _). rewrite Hx, Hxid. constructor.
    symmetry. apply (v_qs _ _ _ V). exact Hda.
  - rewrite (anc_none head m Hd Ea). constructor.
Qed.

Lemma find_agree t fin head : D fin -> D head ->
  rel_res (fun a b => b = tr a) (find_checkpoint c s t fin head) (BM.find_cp bc R qs t (tr fin) (tr head)).
Proof.
  intros Hdf Hdh. unfold find_checkpoint, BM.find_cp. cbv zeta. rewrite (tr_num fin Hdf), (tr_num head Hdh), HcL.
  destruct (num_of head <? num_of fin); [constructor|].
  apply (find_shape
    (fun i => match anc s head (storepoint (c_L c) (num_of fin + i * c_L c)) with
              | Some id => Some (get_quality s id) | None => None end)
    (fun i => BM.quality_at R qs (tr head) (BM.storepoint (c_L c) (num_of fin + i * c_L c)))
    (fun i => anc s head (num_of fin + i * c_L c))
    (fun i => BT.block_at R (tr head) (num_of fin + i * c_L c)) tr).
  - intro i. apply quality_at_agree. exact Hdh.
  - intro i. cbv beta. destruct (anc s head (num_of fin + i * c_L c)) as [a|] eqn:Ea.
    + destruct (anc_some head _ a Hdh Ea) as (y & Hy & Hyid & _). rewrite Hy. exact Hyid.
    + rewrite (anc_none head _ Hdh Ea). exact I.
Qed.

(* ---------------------------------------------------------------- Accepts *)
Lemma accepts_agree e parent : D parent -> BM.e_fin e = tr (finalized c s) ->
  accepts c s parent = BM.accepts R e (tr parent).
Proof.
  intros Hdp Hfin. pose proof (finalized_stored c s Hc (v_inv _ _ _ V)) as Hfs.
  pose proof (v_dom _ _ _ V _ Hfs) as Hdf.
  unfold accepts, BM.accepts. rewrite Hfin, (tr_num _ Hdf).
  destruct (num_of (finalized c s) =? 0); [reflexivity|]. cbn [negb].
  unfold BT.has_block, BT.chain_has. rewrite (tr_num _ Hdf).
  change (BT.at_num (BT.chain_of R (tr parent)) (num_of (finalized c s))) with (BT.block_at R (tr parent) (num_of (finalized c s))).
  destruct (anc s parent (num_of (finalized c s))) as [a|] eqn:Ea.
  - destruct (anc_some parent _ a Hdp Ea) as (x & Hx & Hxid & _ & Hda & _). rewrite Hx, Hxid.
    symmetry. apply tr_eqb; assumption.
  - rewrite (anc_none parent _ Hdp Ea). reflexivity.
Qed.

(* the quality of a stored block *)
Lemma stored_quality_agree id sm : get_summary s id = Some sm ->
  s_just sm = BM.s_just (BM.compute_state bc R qs (asum id sm)) ->
  quality_of c s (s_parent sm) (num_of id) (s_just sm) = Some (BM.s_q (BM.compute_state bc R qs (asum id sm))).
Proof.
  intros E Hj.
  assert (Hs : stored s id = true) by (unfold stored; rewrite E; reflexivity).
  pose proof (v_dom _ _ _ V _ Hs) as Hd.
  destruct (N.eq_dec (num_of id) 0) as [H0|H0].
  - (* genesis: its parent id need not be in the domain *)
    unfold asum in *. set (B := ablk_of id (s_parent sm) (s_score sm)) in *.
    assert (HnB : BT.b_num B = 0) by (unfold BT.b_num; cbn; rewrite (tr_num id Hd); exact H0).
    unfold BM.compute_state, BM.state_of_chain in *. rewrite HnB in *. cbn in Hj. cbn [N.eqb BM.s_q].
    unfold quality_of. rewrite H0, N.div_0_l by (destruct Hc; lia). cbn [N.eqb]. rewrite Hj. reflexivity.
  - destruct (parent_dom id sm E ltac:(lia)) as (Hp & Hnum & Hdp).
    apply quality_agree; auto.
Qed.

End View.

(* ---------------------------------------------------------------- Select *)
Lemma select_agree s nd b : refines s nd -> wf_cfg c -> flags_ok s nd -> D (b_id b) -> D (b_parent b) ->
  stored s (b_parent b) = true -> num_of (b_parent b) + 1 = num_of (b_id b) ->
  b_just b = BM.s_just (BM.compute_state bc (BM.n_repo nd) (BM.e_qs (BM.n_eng nd)) (ablk b)) ->
  select c s b = Some (BM.select bc (BM.n_repo nd) (BM.n_eng nd) (BM.best_blk nd) (ablk b)).
Proof.
  intros [V (best & Hb & Eb) F] Hc Hfl Hdi Hdp Hp Hnum Hj.
  destruct (inv_best c s (v_inv _ _ _ V)) as (best' & Hb' & Hbs). rewrite Hb in Hb'. inversion Hb'; subst best'. clear Hb'.
  pose proof (v_dom _ _ _ V _ Hbs) as Hdb.
  unfold select. rewrite Hb. unfold stored in Hbs. destruct (get_summary s best) as [bs|] eqn:Ebs; [|discriminate].
  assert (Hbb : BM.best_blk nd = asum best bs).
  { unfold BM.best_blk. rewrite Eb, (v_find _ _ _ V best Hdb), Ebs. reflexivity. }
  rewrite Hbb.
  rewrite (quality_agree s _ _ V Hc (b_id b) (b_parent b) (b_score b) (b_just b) Hdi Hdp (or_intror (conj Hp Hnum)) Hj).
  rewrite (stored_quality_agree s _ _ V Hc best bs Ebs (proj1 (Hfl best bs Ebs))).
  f_equal. unfold BM.select. fold (ablk b). fold (asum best bs).
  set (qn := BM.s_q (BM.compute_state bc (BM.n_repo nd) (BM.e_qs (BM.n_eng nd)) (ablk b))).
  set (qb := BM.s_q (BM.compute_state bc (BM.n_repo nd) (BM.e_qs (BM.n_eng nd)) (asum best bs))).
  destruct (qn =? qb); cbn [negb]; [|reflexivity].
  unfold BM.better_than. cbn [ablk ablk_of asum BT.b_score BT.b_id].
  rewrite (tr_lt _ _ Hdi Hdb), (N.eqb_sym (b_score b) (s_score bs)). reflexivity.
Qed.

(* ---------------------------------------------------------------- nodes that refine the same store *)
Lemma view_same_set s R1 q1 R2 q2 : view s R1 q1 -> view s R2 q2 -> forall x, In x R1 <-> In x R2.
Proof.
  assert (G : forall Ra qa Rb qb, view s Ra qa -> view s Rb qb -> forall x, In x Ra -> In x Rb).
  { intros Ra qa Rb qb V1 V2 x Hx. destruct (v_in _ _ _ V1 x Hx) as (id & sm & E & ->).
    assert (Hs : stored s id = true) by (unfold stored; rewrite E; reflexivity).
    pose proof (v_find _ _ _ V2 id (v_dom _ _ _ V2 _ Hs)) as F. rewrite E in F. cbn in F.
    exact (proj2 (BC.find_blk_id _ _ _ F)). }
  intros V1 V2 x. split; eapply G; eauto.
Qed.

Lemma flags_ok_any s n1 n2 : refines s n1 -> refines s n2 -> flags_ok s n1 -> flags_ok s n2.
Proof.
  intros [V1 _ _] [V2 _ _] H id sm E. specialize (H id sm E). cbv zeta in *.
  unfold BM.compute_state in *.
  rewrite <- (BO.chain_of_set_eq _ _ (BT.b_parent (asum id sm)) (v_wf _ _ _ V1) (v_wf _ _ _ V2) (view_same_set s _ _ _ _ V1 V2)).
  destruct (state_flags_qs bc (BM.e_qs (BM.n_eng n1)) (BM.e_qs (BM.n_eng n2))
              (asum id sm :: BT.chain_of (BM.n_repo n1) (BT.b_parent (asum id sm)))) as [A B].
  rewrite <- A, <- B. exact H.
Qed.


(* ================================================================ Part 2: the simulation *)

(* ---------------------------------------------------------------- the engine's writes: CommitBlock *)
Lemma view_put_quality s R qs id q : view s R qs -> stored s id = true -> D id ->
  view (apply_batch s [Put (KQuality id) (VNum q)]) R ((tr id, q) :: qs).
Proof.
  intros [Hf Hi Hq Hw HI Hd] Hs Hdi.
  assert (S : forall i, get_summary (apply_batch s [Put (KQuality id) (VNum q)]) i = get_summary s i)
    by (intro i; apply get_summary_put_other; discriminate).
  constructor.
  - intros i Hdi'. rewrite S. auto.
  - intros x Hx. destruct (Hi x Hx) as (i & sm & H1 & H2). exists i, sm. rewrite S. auto.
  - intros i Hdi'. rewrite get_quality_put. unfold BM.get_q. cbn [find fst snd]. rewrite (tr_eqb id i Hdi Hdi').
    destruct (N.eq_dec i id) as [->|Hne]; [rewrite N.eqb_refl; reflexivity|].
    assert (E : (id =? i) = false) by (apply N.eqb_neq; congruence). rewrite E. apply Hq. exact Hdi'.
  - exact Hw.
  - apply quality_put_inv; assumption.
  - intros i H. apply Hd. unfold stored in *. rewrite S in H. exact H.
Qed.

Lemma view_put_fin s R qs f : view s R qs -> stored s f = true ->
  view (apply_batch s [Put KFinalized (VId f)]) R qs.
Proof.
  intros [Hf Hi Hq Hw HI Hd] Hs.
  assert (S : forall i, get_summary (apply_batch s [Put KFinalized (VId f)]) i = get_summary s i)
    by (intro i; apply get_summary_put_other; discriminate).
  constructor.
  - intros i Hdi'. rewrite S. auto.
  - intros x Hx. destruct (Hi x Hx) as (i & sm & H1 & H2). exists i, sm. rewrite S. auto.
  - intros i Hdi'. rewrite get_quality_put_fin. auto.
  - exact Hw.
  - apply finalized_put_inv; assumption.
  - intros i H. apply Hd. unfold stored in *. rewrite S in H. exact H.
Qed.

(* bft.Engine.CommitBlock of a stored block: the batch the crash model issues against what Bft.Model.commit_block does to
   the engine.  The two agree on the quality record, on whether a finalization is attempted, on the outcome of the search,
   and on the new finalized block; a failing search leaves the record and the old finalized on both sides. *)
Lemma commit_sim s3 R3 e id parent score just comm :
  view s3 R3 (BM.e_qs e) -> wf_cfg c -> BM.e_fin e = tr (finalized c s3) ->
  D id -> D parent -> stored s3 id = true -> stored s3 parent = true -> num_of parent + 1 = num_of id ->
  just = BM.s_just (BM.compute_state bc R3 (BM.e_qs e) (ablk_of id parent score)) ->
  comm = BM.s_comm (BM.compute_state bc R3 (BM.e_qs e) (ablk_of id parent score)) ->
  let s' := apply_writes s3 (writes_of_steps (commit_steps c s3 id parent just comm)) in
  let e' := fst (BM.commit_block true bc R3 e (ablk_of id parent score) false) in
  view s' R3 (BM.e_qs e') /\ BM.e_fin e' = tr (finalized c s') /\
  BM.e_master e' = BM.e_master e /\ BM.e_casts e' = BM.e_casts e /\ BM.e_jc e' = BM.e_jc e.
Proof.
  intros V Hc Hfin Hdi Hdp Hsi Hsp Hnum Hj Hcm s' e'.
  pose proof (finalized_stored c s3 Hc (v_inv _ _ _ V)) as Hfs. pose proof (v_dom _ _ _ V _ Hfs) as Hdf.
  set (B := ablk_of id parent score) in *.
  assert (HnB : BT.b_num B = num_of id) by (unfold BT.b_num; cbn; apply tr_num; exact Hdi).
  set (st := BM.compute_state bc R3 (BM.e_qs e) B) in *.
  pose proof (quality_agree s3 R3 (BM.e_qs e) V Hc id parent score just Hdi Hdp (or_intror (conj Hsp Hnum)) Hj) as Hq.
  fold B in Hq. fold st in Hq.
  unfold s', e'. rewrite commit_unfold, commit_block_fst. cbv zeta. fold st. rewrite HnB, HcL.
  change (BM.storepoint (c_L c) (num_of id) =? num_of id) with (is_storepoint (c_L c) (num_of id)).
  destruct (is_storepoint (c_L c) (num_of id)).
  2:{ cbn [apply_writes fold_left]. split; [exact V | split; [exact Hfin | repeat split; reflexivity]]. }
  rewrite Hq. rewrite Hfin, (tr_num _ Hdf), <- Hcm.
  change (BM.checkpoint (c_L c) (num_of id)) with (checkpoint (c_L c) (num_of id)).
  set (q := BM.s_q st) in *. set (wq := [Put (KQuality id) (VNum q)]).
  assert (V4 : view (apply_batch s3 wq) R3 ((tr id, q) :: BM.e_qs e)) by (apply view_put_quality; assumption).
  assert (F4 : finalized c (apply_batch s3 wq) = finalized c s3) by (apply finalized_put_quality).
  change (BT.b_id B) with (tr id).
  destruct (comm && (1 <? q) && (num_of (finalized c s3) <? checkpoint (c_L c) (num_of id))).
  2:{ cbn [apply_writes fold_left BM.e_qs BM.e_fin BM.e_master BM.e_casts BM.e_jc]. fold wq. rewrite F4.
      split; [exact V4 | split; [reflexivity | repeat split; reflexivity]]. }
  pose proof (find_agree (apply_batch s3 wq) R3 _ V4 (q - 1) (finalized c s3) id Hdf Hdi) as FA.
  fold wq. fold wq in FA. destruct (find_checkpoint c (apply_batch s3 wq) (q - 1) (finalized c s3) id) as [f|] eqn:Ef.
  - destruct (rel_res_some _ _ _ FA) as (f' & Ef' & ->). rewrite Ef'.
    cbn [apply_writes fold_left BM.e_qs BM.e_fin BM.e_master BM.e_casts BM.e_jc].
    change (apply_batch s3 [Put (KQuality id) (VNum q); Put KFinalized (VId f)]) with (apply_batch (apply_batch s3 wq) [Put KFinalized (VId f)]).
    rewrite finalized_put. split; [|split; [reflexivity | repeat split; reflexivity]]. apply view_put_fin; [exact V4|].
    exact (find_checkpoint_stored _ _ _ _ _ _ Ef).
  - destruct (rel_res_none _ _ FA) as (err & Ee). rewrite Ee.
    cbn [apply_writes fold_left BM.e_qs BM.e_fin BM.e_master BM.e_casts BM.e_jc]. fold wq. rewrite F4.
    split; [exact V4 | split; [reflexivity | repeat split; reflexivity]].
Qed.

(* ---------------------------------------------------------------- outcome classes *)
(* Node.processBlock's outcome, in the order of the guards of import_steps *)
Definition crash_code (s : store) (b : blk) : N :=
  if max_num s + 1 <? num_of (b_id b) then 4                                         (* errBlockTemporaryUnprocessable *)
  else if (0 <? scan_conflicts s (num_of (b_id b))) && stored s (b_id b) then 1      (* errKnownBlock *)
  else if negb (stored s (b_parent b)) then 2                                        (* errParentMissing *)
  else if negb (num_of (b_parent b) + 1 =? num_of (b_id b)) then 5                   (* consensus: block number *)
  else if negb (accepts c s (b_parent b)) then 3                                     (* errBFTRejected *)
  else match select c s b with None => 6 | Some _ => 0 end.                          (* 6: bft select error; 0: stored *)

(* Bft.Model.import: 0 stored, 1 known, 2 parent missing, 3 refused by Accepts, 100+e stored and CommitBlock answered error e.
   Crash: a block too far ahead (4) is a block whose parent is missing as soon as its number is its parent's + 1. *)
Definition bft_class (code : N) : N := if 100 <=? code then 0 else code.
Definition crash_class (code : N) : N := if code =? 4 then 2 else code.

Lemma crash_refused s b : crash_code s b <> 0 -> crash_code s b <> 6 -> run1 c s b = s.
Proof.
  unfold crash_code, run1, import_batches, import_steps.
  destruct (max_num s + 1 <? num_of (b_id b)); [reflexivity|].
  destruct ((0 <? scan_conflicts s (num_of (b_id b))) && stored s (b_id b)); [reflexivity|].
  destruct (negb (stored s (b_parent b))); [reflexivity|].
  destruct (negb (num_of (b_parent b) + 1 =? num_of (b_id b))); [reflexivity|].
  destruct (negb (accepts c s (b_parent b))); [reflexivity|].
  destruct (select c s b); intros H1 H2; [contradiction H1 | contradiction H2]; reflexivity.
Qed.

Lemma crash_stored s b : crash_code s b = 0 -> exists ab, main_case c s b ab.
Proof.
  unfold crash_code, main_case.
  destruct (max_num s + 1 <? num_of (b_id b)); [discriminate|].
  destruct ((0 <? scan_conflicts s (num_of (b_id b))) && stored s (b_id b)); [discriminate|].
  destruct (stored s (b_parent b)); cbn [negb]; [|discriminate].
  destruct (num_of (b_parent b) + 1 =? num_of (b_id b)) eqn:En; cbn [negb]; [|discriminate].
  destruct (accepts c s (b_parent b)); cbn [negb]; [|discriminate].
  destruct (select c s b) as [ab|]; [|discriminate]. intros _. exists ab. apply N.eqb_eq in En. repeat split; auto.
Qed.

(* ---------------------------------------------------------------- one import *)
Definition stores (nd : BM.node) (B : BT.blk) : bool :=
  negb (BT.known (BM.n_repo nd) (BT.b_id B)) && BT.known (BM.n_repo nd) (BT.b_parent B) &&
  BM.accepts (BM.n_repo nd) (BM.n_eng nd) (BT.b_parent B).

Lemma import_refused_eq nd B : stores nd B = false -> fst (BM.import true bc nd B) = nd.
Proof.
  unfold stores, BM.import. intros H.
  destruct (BT.known (BM.n_repo nd) (BT.b_id B)); [reflexivity|].
  destruct (BT.known (BM.n_repo nd) (BT.b_parent B)); cbn [negb]; [|reflexivity].
  destruct (BM.accepts _ _ _); cbn [negb]; [|reflexivity]. discriminate H.
Qed.

(* what a node guarantees about a block it hands to the import path: the ids are in the domain of the translation, the
   number is the parent's + 1 (consensus validates it before the BFT engine is asked; Bft.Model carries it as the premise
   valid_child of every theorem), the trie-layer premise of the crash model, and — the coupling — the flags the real engine
   computed for the block are the Bft tally of the block over the stored blocks *)
Definition blk_ok (s : store) (nd : BM.node) (b : blk) : Prop :=
  D (b_id b) /\ D (b_parent b) /\
  (stored s (b_parent b) = true -> num_of (b_parent b) + 1 = num_of (b_id b)) /\
  wf_blk s b /\
  (stores nd (ablk b) = true -> blk_flags_ok nd b).

Lemma fresh_chain B R x : BT.b_id B <> x -> BT.chain_of (B :: R) x = BT.chain_of R x.
Proof. apply BC.chain_of_fresh. Qed.

Lemma state_num0 qs x t : BT.b_num x = 0 -> BM.state_of_chain bc qs (x :: t) = BM.mkS 0 false false.
Proof. intros H. unfold BM.state_of_chain. rewrite H. reflexivity. Qed.

Lemma add_and_commit_fst nd B :
  fst (BM.add_and_commit true bc nd B false) =
  BM.mkN (B :: BM.n_repo nd)
         (if BM.select bc (BM.n_repo nd) (BM.n_eng nd) (BM.best_blk nd) B then BT.b_id B else BM.n_best nd)
         (fst (BM.commit_block true bc (B :: BM.n_repo nd) (BM.n_eng nd) B false)).
Proof. unfold BM.add_and_commit. destruct (BM.commit_block _ _ _ _ _ _). reflexivity. Qed.

Lemma add_and_commit_class nd B : bft_class (snd (BM.add_and_commit true bc nd B false)) = 0.
Proof.
  unfold BM.add_and_commit. destruct (BM.commit_block _ _ _ _ _ _) as [e' err]. cbn [snd]. unfold bft_class.
  destruct (err =? 0); [reflexivity|]. destruct (100 <=? 100 + err) eqn:E; [reflexivity|]. apply N.leb_gt in E. lia.
Qed.

(* the store after the state commit, the index commit and the block bulk = the repository with the block added *)
Lemma view_after_bulk s R qs b ab : view s R qs -> wf_cfg c -> main_case c s b ab -> wf_blk s b ->
  D (b_id b) -> D (b_parent b) ->
  view (apply_writes s (pre_writes s b ab)) (ablk b :: R) qs.
Proof.
  intros V Hc M Hwf Hdi Hdp. pose proof (main_not_stored c s b ab M) as Hns.
  pose proof M as (_ & _ & Mp & Mn & _).
  constructor.
  - intros i Hd. unfold BT.find_blk. cbn [find]. change (BT.b_id (ablk b)) with (tr (b_id b)).
    rewrite (tr_eqb _ _ Hdi Hd), s3_summary. destruct (N.eq_dec i (b_id b)) as [->|Hne].
    + rewrite N.eqb_refl. reflexivity.
    + assert (E : (b_id b =? i) = false) by (apply N.eqb_neq; congruence). rewrite E. apply (v_find _ _ _ V). exact Hd.
  - intros x [<-|Hx].
    + exists (b_id b), (summary_of b (conf_of s b)). rewrite s3_summary. destruct (N.eq_dec (b_id b) (b_id b)); [|congruence].
      split; reflexivity.
    + destruct (v_in _ _ _ V x Hx) as (i & sm & E & ->). exists i, sm. split; [|reflexivity].
      rewrite s3_summary. destruct (N.eq_dec i (b_id b)) as [->|Hne]; [|exact E].
      unfold stored in Hns. rewrite E in Hns. discriminate.
  - intros i Hd. unfold get_quality. rewrite s3_quality by eauto. apply (v_qs _ _ _ V). exact Hd.
  - cbn [BT.wf_repo]. split; [exact (v_wf _ _ _ V)|]. split.
    + change (BT.b_id (ablk b)) with (tr (b_id b)). rewrite (view_known s R qs V _ Hdi). exact Hns.
    + pose proof (v_find _ _ _ V _ Hdp) as Fp. unfold stored in Mp.
      destruct (get_summary s (b_parent b)) as [psm|] eqn:Ep; [|discriminate]. cbn in Fp.
      destruct R as [|r0 rr]; [discriminate|]. exists (asum (b_parent b) psm). split; [exact Fp|].
      unfold BT.b_num. cbn. rewrite (tr_num _ Hdi), (tr_num _ Hdp). lia.
  - apply main_case_inv3; auto. exact (v_inv _ _ _ V).
  - intros i H. destruct (s3_stored s b ab i H) as [->|H']; [exact Hdi | exact (v_dom _ _ _ V _ H')].
Qed.

Lemma run1_summary s b ab : main_case c s b ab -> forall i,
  get_summary (run1 c s b) i = if N.eq_dec i (b_id b) then Some (summary_of b (conf_of s b)) else get_summary s i.
Proof.
  intros M i. unfold run1. rewrite (main_case_batches c s b ab M), apply_writes_app.
  unfold get_summary at 1. unfold commit_writes. rewrite commit_frame by discriminate. apply s3_summary.
Qed.

(* one import: Node.processBlock on the store against Bft.Model.import on a node that refines it *)
Theorem import_sim s nd b : wf_cfg c -> refines s nd -> flags_ok s nd -> blk_ok s nd b ->
  let s' := run1 c s b in
  let r := BM.import true bc nd (ablk b) in
  refines s' (fst r) /\ flags_ok s' (fst r) /\
  bft_class (snd r) = crash_class (crash_code s b) /\
  BN.valid_child (BM.n_repo nd) (ablk b) /\
  crash_code s b <> 6 /\
  BM.n_repo (fst r) = if crash_code s b =? 0 then ablk b :: BM.n_repo nd else BM.n_repo nd.
Proof.
  intros Hc Rf Hfl (Hdi & Hdp & Hwn & Hwf & Hbf) s' r.
  pose proof Rf as [V (best & Hb & Eb) F].
  pose proof (view_known s _ _ V (b_id b) Hdi) as K1. pose proof (view_known s _ _ V (b_parent b) Hdp) as K2.
  pose proof (accepts_agree s _ _ V Hc (BM.n_eng nd) (b_parent b) Hdp F) as K3.
  assert (Hvc : BN.valid_child (BM.n_repo nd) (ablk b)).
  { intros p Hp. change (BT.b_parent (ablk b)) with (tr (b_parent b)) in Hp.
    rewrite (v_find _ _ _ V _ Hdp) in Hp. destruct (get_summary s (b_parent b)) as [psm|] eqn:Ep; [|discriminate].
    cbn in Hp. inversion Hp; subst p.
    assert (Hsp : stored s (b_parent b) = true) by (unfold stored; rewrite Ep; reflexivity).
    unfold BT.b_num. cbn. rewrite (tr_num _ Hdi), (tr_num _ Hdp). symmetry. apply Hwn. exact Hsp. }
  assert (Refuse : forall code, crash_code s b <> 0 -> crash_code s b <> 6 -> r = (nd, code) ->
            code = crash_class (crash_code s b) -> code < 100 ->
            refines s' (fst r) /\ flags_ok s' (fst r) /\ bft_class (snd r) = crash_class (crash_code s b) /\
            BN.valid_child (BM.n_repo nd) (ablk b) /\ crash_code s b <> 6 /\
            BM.n_repo (fst r) = if crash_code s b =? 0 then ablk b :: BM.n_repo nd else BM.n_repo nd).
  { intros code H0 H6 Er Ec Hlt. unfold s'. rewrite (crash_refused s b H0 H6), Er. cbn [fst snd].
    split; [exact Rf|]. split; [exact Hfl|]. split; [|split; [exact Hvc | split; [exact H6|]]].
    - unfold bft_class. destruct (100 <=? code) eqn:E; [apply N.leb_le in E; lia | exact Ec].
    - apply N.eqb_neq in H0. rewrite H0. reflexivity. }
  assert (Er : r = if stored s (b_id b) then (nd, 1) else if negb (stored s (b_parent b)) then (nd, 2)
                   else if negb (accepts c s (b_parent b)) then (nd, 3) else BM.add_and_commit true bc nd (ablk b) false).
  { unfold r, BM.import. change (BT.b_id (ablk b)) with (tr (b_id b)). change (BT.b_parent (ablk b)) with (tr (b_parent b)).
    rewrite K1, K2, <- K3. reflexivity. }
  destruct (stored s (b_id b)) eqn:Es.
  { (* known *)
    assert (Ecode : crash_code s b = 1).
    { unfold crash_code. pose proof (max_num_ge s _ Es). pose proof (scan_conflicts_pos s _ Es).
      assert (E1 : (max_num s + 1 <? num_of (b_id b)) = false) by (apply N.ltb_ge; lia). rewrite E1, Es.
      assert (E2 : (0 <? scan_conflicts s (num_of (b_id b))) = true) by (apply N.ltb_lt; lia). rewrite E2. reflexivity. }
    apply (Refuse 1); rewrite ?Ecode; [discriminate | discriminate | exact Er | reflexivity | reflexivity]. }
  destruct (stored s (b_parent b)) eqn:Ep; cbn [negb] in Er.
  2:{ (* parent missing; too far ahead is a special case of it *)
    assert (Ecode : crash_code s b = 4 \/ crash_code s b = 2).
    { unfold crash_code. rewrite Es, Ep, andb_false_r. cbn [negb]. destruct (max_num s + 1 <? num_of (b_id b)); auto. }
    apply (Refuse 2); [| | exact Er | | reflexivity]; destruct Ecode as [E|E]; rewrite E; try discriminate; reflexivity. }
  pose proof (Hwn eq_refl) as Hnum.
  assert (Emax : (max_num s + 1 <? num_of (b_id b)) = false).
  { apply N.ltb_ge. pose proof (max_num_ge s _ Ep). lia. }
  assert (Enum : (num_of (b_parent b) + 1 =? num_of (b_id b)) = true) by (apply N.eqb_eq; exact Hnum).
  destruct (accepts c s (b_parent b)) eqn:Ea; cbn [negb] in Er.
  2:{ assert (Ecode : crash_code s b = 3).
      { unfold crash_code. rewrite Emax, Es, Ep, andb_false_r, Enum, Ea. reflexivity. }
      apply (Refuse 3); rewrite ?Ecode; [discriminate | discriminate | exact Er | reflexivity | reflexivity]. }
  (* the block is stored *)
  assert (Hst : stores nd (ablk b) = true).
  { unfold stores. change (BT.b_id (ablk b)) with (tr (b_id b)). change (BT.b_parent (ablk b)) with (tr (b_parent b)).
    rewrite K1, K2, <- K3. reflexivity. }
  destruct (Hbf Hst) as [Hj Hcm].
  set (sel := BM.select bc (BM.n_repo nd) (BM.n_eng nd) (BM.best_blk nd) (ablk b)).
  pose proof (select_agree s nd b Rf Hc Hfl Hdi Hdp Ep Hnum Hj) as Hsel. fold sel in Hsel.
  assert (M : main_case c s b sel).
  { unfold main_case. rewrite Emax, Es, Ep, andb_false_r, Ea, Hsel. repeat split; auto. }
  assert (Ecode : crash_code s b = 0).
  { unfold crash_code. rewrite Emax, Es, Ep, andb_false_r, Enum, Ea, Hsel. reflexivity. }
  set (R := BM.n_repo nd) in *. set (e := BM.n_eng nd) in *. set (B := ablk b) in *.
  set (s3 := apply_writes s (pre_writes s b sel)).
  assert (Es' : s' = apply_writes s3 (writes_of_steps (commit_steps c s3 (b_id b) (b_parent b) (b_just b) (b_comm b)))).
  { unfold s', run1. rewrite (main_case_batches c s b sel M), apply_writes_app. reflexivity. }
  pose proof (view_after_bulk s R _ b sel V Hc M Hwf Hdi Hdp) as V3. fold s3 in V3. fold B in V3.
  assert (F3 : finalized c s3 = finalized c s) by (unfold finalized, get_id, s3; rewrite s3_quality; auto).
  assert (Hne : BT.b_id B <> BT.b_parent B).
  { change (tr (b_id b) <> tr (b_parent b)). intros E. apply (tr_inj _ _ Hdi Hdp) in E. rewrite E in Hnum. lia. }
  assert (Ecs : forall qs, BM.compute_state bc (B :: R) qs B = BM.compute_state bc R qs B).
  { intros qs. unfold BM.compute_state. rewrite fresh_chain by exact Hne. reflexivity. }
  destruct (commit_sim s3 (B :: R) e (b_id b) (b_parent b) (b_score b) (b_just b) (b_comm b) V3 Hc)
    as (V' & F' & Em & Eca & Ejc).
  { rewrite F3. exact F. }
  { exact Hdi. } { exact Hdp. } { apply s3_stored_b. } { apply s3_stored_mono. exact Ep. } { exact Hnum. }
  { fold (ablk b). fold B. rewrite Ecs. exact Hj. }
  { fold (ablk b). fold B. rewrite Ecs. exact Hcm. }
  fold (ablk b) in V', F', Em, Eca, Ejc. fold B in V', F', Em, Eca, Ejc. rewrite <- Es' in V', F'.
  rewrite Er, Ecode, add_and_commit_fst, add_and_commit_class. fold R e B sel.
  set (e' := fst (BM.commit_block true bc (B :: R) e B false)) in *.
  assert (S' : forall i, get_summary s' i = if N.eq_dec i (b_id b) then Some (summary_of b (conf_of s b)) else get_summary s i).
  { intro i. rewrite Es'. unfold get_summary at 1. rewrite commit_frame by discriminate. apply s3_summary. }
  split; [|split; [|split; [reflexivity | split; [exact Hvc | split; [discriminate | reflexivity]]]]].
  - constructor; cbn [BM.n_repo BM.n_eng BM.n_best].
    + exact V'.
    + assert (B3 : get_id s' KBest = if sel then Some (b_id b) else get_id s KBest).
      { rewrite Es'. unfold get_id at 1. rewrite commit_frame by discriminate. unfold s3. rewrite s3_eq.
        fold (get_id (apply_batch (apply_writes s (state_batches b (conf_of s b) ++ [index_batch b (conf_of s b)]))
                        (block_bulk b (conf_of s b) sel)) KBest).
        rewrite bulk_best. unfold get_id. rewrite s2_na by reflexivity. reflexivity. }
      rewrite B3. destruct sel; [exists (b_id b); split; reflexivity | exists best; split; assumption].
    + exact F'.
  - intros i sm Ei. cbn [BM.n_repo BM.n_eng]. cbv zeta. rewrite S' in Ei.
    destruct (N.eq_dec i (b_id b)) as [->|Hni].
    + inversion Ei; subst sm. rewrite asum_summary_of. fold B. cbn [summary_of s_just s_comm].
      unfold BM.compute_state. rewrite fresh_chain by exact Hne.
      destruct (state_flags_qs bc (BM.e_qs e') (BM.e_qs e) (B :: BT.chain_of R (BT.b_parent B))) as [A1 A2].
      rewrite A1, A2. split; [exact Hj | exact Hcm].
    + specialize (Hfl i sm Ei). cbv zeta in Hfl. fold R e in Hfl.
      assert (Hsi : stored s i = true) by (unfold stored; rewrite Ei; reflexivity).
      pose proof (v_dom _ _ _ V _ Hsi) as Hd.
      unfold BM.compute_state in *.
      destruct (N.eq_dec (num_of i) 0) as [H0|H0].
      * rewrite state_num0 by (rewrite (asum_num i sm Hd); exact H0).
        rewrite state_num0 in Hfl by (rewrite (asum_num i sm Hd); exact H0). exact Hfl.
      * destruct (parent_dom s R _ V i sm Ei ltac:(lia)) as (Hps & _ & Hdps).
        rewrite fresh_chain.
        -- destruct (state_flags_qs bc (BM.e_qs e') (BM.e_qs e) (asum i sm :: BT.chain_of R (BT.b_parent (asum i sm)))) as [A1 A2].
           rewrite A1, A2. exact Hfl.
        -- change (tr (b_id b) <> tr (s_parent sm)). intros E. apply (tr_inj _ _ Hdi Hdps) in E.
           rewrite <- E in Hps. rewrite Hps in Es. discriminate.
Qed.

(* ---------------------------------------------------------------- restart *)
(* NewRepository + NewEngine on a store no import of which was cut (Inv2: every stored store point has its quality record,
   every head entry names a stored block): the F6 repair finds nothing to do, the store is unchanged, and what the node
   holds in memory afterwards (best, finalized, empty casts / Justified() cache) is Bft.Model.restart of the abstract node.
   For a crash image the repair writes; that case is covered through resume_converges (resume_refines below). *)
Lemma restart_refines s nd : refines s nd -> refines s (BM.restart nd).
Proof. intros [V Hb F]. constructor; assumption. Qed.

Theorem restart_sim s nd : wf_cfg c -> refines s nd -> Qinv c s -> Hinv s ->
  exists best, restart c true s = Some (s, best, finalized c s) /\
    refines s (BM.restart nd) /\ BM.n_best (BM.restart nd) = tr best /\
    BM.e_fin (BM.n_eng (BM.restart nd)) = tr (finalized c s).
Proof.
  intros Hc Rf Q H. pose proof Rf as [V (best & Hb & Eb) F].
  destruct (restart_shape c s Hc (v_inv _ _ _ V)) as (best' & Hb' & Er).
  rewrite Hb in Hb'. inversion Hb'; subst best'. rewrite (restart_store_noop c s Q H) in Er.
  exists best. split; [exact Er|]. split; [apply restart_refines; exact Rf|]. split; [exact Eb | exact F].
Qed.

(* ---------------------------------------------------------------- whole histories *)
Fixpoint hist_ok (s : store) (nd : BM.node) (l : list blk) : Prop :=
  match l with
  | [] => True
  | b :: t => blk_ok s nd b /\ hist_ok (run1 c s b) (fst (BM.import true bc nd (ablk b))) t
  end.

(* the finalized block after each import of a history, on the crash side *)
Fixpoint cfin_trace (s : store) (l : list blk) : list N :=
  match l with [] => [] | b :: t => finalized c (run1 c s b) :: cfin_trace (run1 c s b) t end.

Lemma HLb : wf_cfg c -> 0 < BM.c_L bc.
Proof. intros [_ H]. rewrite HcL. exact H. Qed.

(* what is carried along a history: the simulation relation, the coupling, and Bft's own invariants of the abstract node *)
Record sim (s : store) (nd : BM.node) : Prop := mkSim {
  sim_ref : refines s nd;
  sim_flags : flags_ok s nd;
  sim_inv : BN.inv bc nd;
  sim_fin : BMo.fin_ok nd }.

Theorem import_sim_step s nd b : wf_cfg c -> sim s nd -> blk_ok s nd b ->
  sim (run1 c s b) (fst (BM.import true bc nd (ablk b))).
Proof.
  intros Hc [Rf Hfl Hi Hfo] Hb. destruct (import_sim s nd b Hc Rf Hfl Hb) as (Rf' & Hfl' & _ & Hvc & _).
  constructor; [exact Rf' | exact Hfl' | apply (BN.import_inv bc (HLb Hc)); assumption |].
  exact (proj1 (proj2 (BMo.import_monotone bc (HLb Hc) true nd (ablk b) Hi Hfo Hvc))).
Qed.

Theorem run_sim l : forall s nd, wf_cfg c -> sim s nd -> hist_ok s nd l ->
  sim (run c s l) (BN.import_all bc true nd (map ablk l)).
Proof.
  induction l as [|b t IH]; intros s nd Hc S H; [exact S|].
  cbn [run fold_left map BN.import_all]. destruct H as [Hb Ht].
  apply IH; [exact Hc | apply import_sim_step; assumption | exact Ht].
Qed.

(* C03's single-node clause along the history: every finalized value of the abstract node has its predecessor on its chain,
   and these values are the translated finalized blocks of the crash model's stores *)
Theorem run_fin_trace l : forall s nd, wf_cfg c -> sim s nd -> hist_ok s nd l ->
  BMo.monotone_from (tr (finalized c s)) (BMo.fin_trace bc true nd (map ablk l)) /\
  map snd (BMo.fin_trace bc true nd (map ablk l)) = map tr (cfin_trace s l).
Proof.
  induction l as [|b t IH]; intros s nd Hc S H; [split; [exact I | reflexivity]|].
  destruct H as [Hb Ht]. pose proof (import_sim_step s nd b Hc S Hb) as S'.
  destruct S as [Rf Hfl Hi Hfo]. destruct (import_sim s nd b Hc Rf Hfl Hb) as (Rf' & _ & _ & Hvc & _).
  destruct (BMo.import_monotone bc (HLb Hc) true nd (ablk b) Hi Hfo Hvc) as [H1 _].
  destruct (IH _ _ Hc S' Ht) as [M E].
  cbn [map BMo.fin_trace BMo.monotone_from cfin_trace snd]. cbv zeta in H1.
  rewrite (rf_fin _ _ Rf') in *. rewrite (rf_fin _ _ Rf) in H1. split; [split; assumption|]. f_equal. exact E.
Qed.

(* ---------------------------------------------------------------- genesis *)
Lemma genesis_sim g : wf_cfg c -> c_g c = b_id g -> b_skeep g = [] -> b_ikeep g = [] ->
  b_just g = false -> b_comm g = false -> D (b_id g) ->
  sim (genesis_store g) (BM.init_node (ablk g) master).
Proof.
  intros Hc Hg Hk Hi Hj Hcm Hd. pose proof Hc as [Hn0 HL]. rewrite Hg in Hn0.
  assert (I : Inv c (genesis_store g)).
  { destruct c as [L gid]. cbn in Hg. subst gid. apply genesis_inv; assumption. }
  assert (E : genesis_store g = apply_writes [] (pre_writes [] g true)) by reflexivity.
  assert (S : forall i, get_summary (genesis_store g) i = if N.eq_dec i (b_id g) then Some (summary_of g (conf_of [] g)) else None).
  { intro i. rewrite E, s3_summary. reflexivity. }
  assert (Q : forall k, (exists i, k = KQuality i) \/ k = KFinalized -> get (genesis_store g) k = None).
  { intros k Hk'. rewrite E, s3_quality by exact Hk'. reflexivity. }
  assert (HnB : BT.b_num (ablk g) = 0) by (unfold BT.b_num; cbn; rewrite (tr_num _ Hd); exact Hn0).
  assert (F : finalized c (genesis_store g) = b_id g).
  { unfold finalized, get_id. rewrite Q by auto. exact Hg. }
  constructor.
  - constructor; cbn [BM.init_node BM.n_repo BM.n_eng BM.n_best BM.e_qs BM.e_fin].
    + constructor.
      * intros i Hdi. unfold BT.find_blk. cbn [find]. change (BT.b_id (ablk g)) with (tr (b_id g)).
        rewrite (tr_eqb _ _ Hd Hdi), S. destruct (N.eq_dec i (b_id g)) as [->|Hne].
        -- rewrite N.eqb_refl. reflexivity.
        -- assert (E1 : (b_id g =? i) = false) by (apply N.eqb_neq; congruence). rewrite E1. reflexivity.
      * intros x [<-|[]]. exists (b_id g), (summary_of g (conf_of [] g)). rewrite S.
        destruct (N.eq_dec (b_id g) (b_id g)); [|congruence]. split; reflexivity.
      * intros i _. unfold get_quality. rewrite Q by eauto. reflexivity.
      * cbn. repeat split; try reflexivity. exact HnB.
      * exact I.
      * intros i H. unfold stored in H. rewrite S in H. destruct (N.eq_dec i (b_id g)) as [->|]; [exact Hd | discriminate].
    + exists (b_id g). split; [|reflexivity]. rewrite E, s3_eq.
      fold (get_id (apply_batch (apply_writes [] (state_batches g (conf_of [] g) ++ [index_batch g (conf_of [] g)]))
                      (block_bulk g (conf_of [] g) true)) KBest).
      rewrite bulk_best. reflexivity.
    + rewrite F. reflexivity.
  - intros i sm Ei. rewrite S in Ei. destruct (N.eq_dec i (b_id g)) as [->|]; [|discriminate]. inversion Ei; subst sm.
    cbv zeta. rewrite asum_summary_of. cbn [summary_of s_just s_comm]. unfold BM.compute_state.
    rewrite state_num0 by exact HnB. cbn. split; assumption.
  - apply BN.init_inv. exact HnB.
  - apply BMo.init_fin_ok.
Qed.

(* ---------------------------------------------------------------- crash, restart, resume *)
(* the node resumed after a crash at ANY cut of ANY import of the history refines the abstract node that imported the same
   blocks without interruption (Crash's resume_converges gives a store equivalent to the uninterrupted one; the relation only
   reads the store through get) *)
Theorem resume_sim s0 nd0 hist k i :
  wf_cfg2 c -> Inv2 c s0 -> wf_hist c s0 hist -> cut_in_import c s0 hist k i ->
  sim s0 nd0 -> hist_ok s0 nd0 hist ->
  exists r, resume c true (crash c s0 hist k) (skipn i hist) = Some r /\
            sim r (BN.import_all bc true nd0 (map ablk hist)).
Proof.
  intros Hc2 I2 Hw Hcut S0 Hh. pose proof Hc2 as [Hc _].
  destruct (resume_converges c s0 hist k i Hc2 I2 Hw Hcut) as (r & Hr & He).
  exists r. split; [exact Hr|]. apply eqv_sym in He.
  destruct (run_sim hist s0 nd0 Hc S0 Hh) as [Rf Hfl Hi Hfo].
  constructor; [eapply eqv_refines; eauto | eapply eqv_flags_ok; eauto | exact Hi | exact Hfo].
Qed.

(* ---------------------------------------------------------------- restart on a crash image *)
Lemma na_refines s s' nd : eqv_na s s' -> Inv c s' -> refines s nd -> refines s' nd.
Proof.
  intros En I' [[Hf Hi Hq Hw HI Hd] (best & Hb & Eb) F].
  assert (S : forall i, get_summary s' i = get_summary s i) by (intro i; symmetry; apply na_get_summary; auto).
  constructor.
  - constructor.
    + intros id Hid. rewrite S. auto.
    + intros x Hx. destruct (Hi x Hx) as (id & sm & H1 & H2). exists id, sm. rewrite S. auto.
    + intros id Hid. rewrite <- (na_get_quality s s' En). auto.
    + exact Hw.
    + exact I'.
    + intros id H. apply Hd. rewrite (na_stored s s' En). exact H.
  - exists best. rewrite <- (na_get_id s s' En) by reflexivity. auto.
  - rewrite <- (na_finalized s s' En). exact F.
Qed.

(* NewRepository + NewEngine (with the F6 repair) on the image a crash after ANY number of batches of one import leaves: the
   node that comes up refines Bft.Model.restart of the abstract node BEFORE the interrupted import (the cut precedes the block
   bulk: only trie nodes / code were written, nothing is visible) or AFTER it (the cut follows the block bulk: the repair
   re-runs the pending CommitBlock).  No third state exists. *)
Theorem crash_image_restart_sim s nd b j : wf_cfg2 c -> Inv2 c s -> sim s nd -> blk_ok s nd b ->
  (j < length (import_batches c s b))%nat ->
  let s' := apply_writes s (firstn j (import_batches c s b)) in
  exists best, restart c true s' = Some (restart_store c true s', best, finalized c (restart_store c true s')) /\
    (refines (restart_store c true s') (BM.restart nd) \/
     refines (restart_store c true s') (BM.restart (fst (BM.import true bc nd (ablk b))))).
Proof.
  intros Hc2 I2 Sm Hb Hj s'. pose proof Hc2 as [Hc HL]. pose proof (i2_inv c s I2) as I. destruct I2 as [_ Q H].
  pose proof Hb as (_ & _ & _ & Hwf & _).
  pose proof (import_all_prefixes c s b Hc I Hwf) as AP.
  assert (I' : Inv c s') by (apply all_prefixes_firstn; auto).
  destruct (restart_shape c s' Hc I') as (best & _ & Er). exists best. split; [exact Er|].
  assert (Before : forall ws tl, (forall w, In w ws -> aux_batch w) -> import_batches c s b = ws ++ tl -> (j <= length ws)%nat ->
            refines (restart_store c true s') (BM.restart nd)).
  { intros ws tl Haux EW Hle.
    assert (Es' : s' = apply_writes s (firstn j ws)).
    { unfold s'. rewrite EW, firstn_app. replace (j - length ws)%nat with 0%nat by lia. cbn [firstn]. rewrite app_nil_r. reflexivity. }
    assert (Ena : eqv_na s s').
    { rewrite Es'. apply aux_writes_eqv_na. intros w Hw. apply Haux. eapply in_firstn; eauto. }
    rewrite restart_store_noop; [|eapply Qinv_na; eauto | eapply Hinv_na; eauto].
    apply restart_refines. apply (na_refines s s' nd Ena I'). exact (sim_ref _ _ Sm). }
  destruct (import_cases c s b) as [E|[[_ E]|(ab & M & E)]].
  - rewrite E in Hj. cbn in Hj. lia.
  - left. apply (Before (state_batches b (conf_of s b)) []); [intros; eapply state_batches_aux; eauto | rewrite app_nil_r; exact E | rewrite E in Hj; lia].
  - set (ws := state_batches b (conf_of s b) ++ [index_batch b (conf_of s b)]).
    set (bulk := block_bulk b (conf_of s b) ab). set (cw := commit_writes c s b ab) in *.
    assert (Epre : pre_writes s b ab = ws ++ [bulk]) by (unfold pre_writes, ws; rewrite <- app_assoc; reflexivity).
    assert (EW : import_batches c s b = ws ++ bulk :: cw) by (rewrite E, Epre, <- app_assoc; reflexivity).
    destruct (PeanoNat.Nat.le_gt_cases j (length ws)) as [Hle|Hgt].
    + left. apply (Before ws (bulk :: cw)); [apply s2_aux | exact EW | exact Hle].
    + right. set (s3 := apply_writes s (pre_writes s b ab)).
      assert (Lpre : length (pre_writes s b ab) = S (length ws)) by (rewrite Epre, app_length; cbn; lia).
      assert (I3 : Inv c s3).
      { pose proof (all_prefixes_firstn _ _ _ AP (length (pre_writes s b ab))) as X.
        rewrite E, firstn_app, firstn_all, PeanoNat.Nat.sub_diag in X. cbn [firstn] in X. rewrite app_nil_r in X. exact X. }
      assert (Lw : length (import_batches c s b) = (S (length ws) + length cw)%nat) by (rewrite E, app_length, Lpre; reflexivity).
      assert (Lcw : (length cw <= 1)%nat).
      { destruct (commit_shape c s3 (b_id b) (b_parent b) (b_just b) (b_comm b)) as [Ec|[(q & Ec & _)|(q & f & Ec & _)]];
          fold s3 in Ec; change (writes_of_steps (commit_steps c s3 (b_id b) (b_parent b) (b_just b) (b_comm b))) with cw in Ec;
          rewrite Ec; cbn; lia. }
      assert (Es' : s' = s3).
      { assert (Ejp : j = length (pre_writes s b ab)) by lia.
        unfold s', s3. rewrite E, Ejp, firstn_app, firstn_all, PeanoNat.Nat.sub_diag. cbn [firstn]. rewrite app_nil_r. reflexivity. }
      assert (Hcw : cw <> []) by (intro X; rewrite X in Lw; cbn in Lw; lia).
      rewrite Es'. unfold s3. rewrite (pc_restart c s b ab Hc2 (mkInv2 c s I Q H) M I3 Hcw).
      assert (Er1 : run1 c s b = apply_writes (apply_writes s (pre_writes s b ab)) (commit_writes c s b ab))
        by (unfold run1; rewrite E; apply apply_writes_app).
      rewrite <- Er1. apply restart_refines.
      destruct Sm as [Rf Hfl _ _]. exact (proj1 (import_sim s nd b Hc Rf Hfl Hb)).
Qed.

Lemma import_all_app l1 : forall nd l2,
  BN.import_all bc true nd (l1 ++ l2) = BN.import_all bc true (BN.import_all bc true nd l1) l2.
Proof. induction l1 as [|x t IH]; intros nd l2; [reflexivity|]. cbn [app BN.import_all]. apply IH. Qed.

Lemma hist_ok_app l1 : forall s nd l2, hist_ok s nd (l1 ++ l2) ->
  hist_ok s nd l1 /\ hist_ok (run c s l1) (BN.import_all bc true nd (map ablk l1)) l2.
Proof.
  induction l1 as [|x t IH]; intros s nd l2 H; [split; [exact I | exact H]|].
  cbn [app hist_ok] in H. destruct H as [Hx Ht]. destruct (IH _ _ _ Ht) as [H1 H2]. split; [split; assumption | exact H2].
Qed.

(* the same for a crash at any cut k of a whole history (i = the index of the interrupted import): the restarted node refines
   the restarted Bft node that imported the first i blocks, or the first i + 1 *)
Theorem crash_restart_sim s0 nd0 hist k i :
  wf_cfg2 c -> Inv2 c s0 -> wf_hist c s0 hist -> cut_in_import c s0 hist k i ->
  sim s0 nd0 -> hist_ok s0 nd0 hist ->
  let img := crash c s0 hist k in
  exists best, restart c true img = Some (restart_store c true img, best, finalized c (restart_store c true img)) /\
    (refines (restart_store c true img) (BM.restart (BN.import_all bc true nd0 (map ablk (firstn i hist)))) \/
     refines (restart_store c true img) (BM.restart (BN.import_all bc true nd0 (map ablk (firstn (S i) hist))))).
Proof.
  intros Hc2 I0 Hw [Hlo Hhi] S0 Hh img. pose proof Hc2 as [Hc _].
  set (si := run c s0 (firstn i hist)).
  assert (Ehist : hist = firstn i hist ++ skipn i hist) by (symmetry; apply firstn_skipn).
  assert (Hwi : wf_hist c s0 (firstn i hist) /\ wf_hist c si (skipn i hist)) by (apply wf_hist_app; rewrite <- Ehist; auto).
  destruct Hwi as [Hw1 Hw2].
  assert (Hhi' : hist_ok s0 nd0 (firstn i hist) /\ hist_ok si (BN.import_all bc true nd0 (map ablk (firstn i hist))) (skipn i hist))
    by (apply hist_ok_app; rewrite <- Ehist; exact Hh).
  destruct Hhi' as [Hh1 Hh2].
  assert (Ii : Inv2 c si) by (apply run_inv2; auto).
  pose proof (run_sim (firstn i hist) s0 nd0 Hc S0 Hh1) as Si. fold si in Si.
  assert (Ecrash : img = apply_writes si (firstn (k - offset c s0 hist i) (writes_of c si (skipn i hist)))).
  { unfold img, crash. rewrite Ehist at 1. rewrite writes_of_app, firstn_app. fold si.
    rewrite firstn_all2 by (unfold offset in Hlo; lia). rewrite apply_writes_app, run_writes. reflexivity. }
  destruct (skipn i hist) as [|b rest] eqn:Esk.
  - assert (Eimg : img = si) by (rewrite Ecrash; cbn [writes_of]; rewrite firstn_nil; reflexivity).
    rewrite Eimg. destruct (restart_sim si _ Hc (sim_ref _ _ Si) (i2_q c si Ii) (i2_h c si Ii)) as (best & Er & Rf & _).
    exists best. rewrite (restart_store_noop c si (i2_q c si Ii) (i2_h c si Ii)). split; [exact Er | left; exact Rf].
  - destruct Hhi as [Hhi|Hlen].
    2:{ exfalso. assert (length (skipn i hist) = 0%nat) by (rewrite skipn_length; lia). rewrite Esk in H. discriminate. }
    assert (ES : firstn (S i) hist = firstn i hist ++ [b]) by (eapply firstn_S_skipn; eauto).
    assert (Eoff : offset c s0 hist (S i) = (offset c s0 hist i + length (import_batches c si b))%nat).
    { unfold offset. rewrite ES, writes_of_app, app_length. fold si. cbn. rewrite app_nil_r. reflexivity. }
    set (j := (k - offset c s0 hist i)%nat) in *.
    assert (Hj : (j < length (import_batches c si b))%nat) by lia.
    assert (Ecr : img = apply_writes si (firstn j (import_batches c si b))).
    { rewrite Ecrash. cbn [writes_of]. rewrite firstn_app. replace (j - length (import_batches c si b))%nat with 0%nat by lia.
      cbn [firstn]. rewrite app_nil_r. reflexivity. }
    destruct Hh2 as [Hb _].
    destruct (crash_image_restart_sim si _ b j Hc2 Ii Si Hb Hj) as (best & Er & Hcase).
    rewrite <- Ecr in Er, Hcase. exists best. split; [exact Er|].
    rewrite ES, map_app, import_all_app. exact Hcase.
Qed.

(* ---------------------------------------------------------------- premises stated once for a history *)
Definition ids_ok (l : list blk) : Prop :=
  forall b, In b l -> D (b_id b) /\ D (b_parent b) /\ num_of (b_parent b) + 1 = num_of (b_id b).

(* the coupling along a history, stated on the Bft side alone: whenever the abstract node stores a block, the flags the
   crash-side block carries are the tally compute_state gives for it there *)
Fixpoint flags_hist (nd : BM.node) (l : list blk) : Prop :=
  match l with
  | [] => True
  | b :: t => (stores nd (ablk b) = true -> blk_flags_ok nd b) /\ flags_hist (fst (BM.import true bc nd (ablk b))) t
  end.

Lemma hist_ok_intro l : forall s nd, ids_ok l -> wf_hist c s l -> flags_hist nd l -> hist_ok s nd l.
Proof.
  induction l as [|b t IH]; intros s nd Hi Hw Hf; [exact I|].
  cbn [hist_ok]. destruct Hw as [Hwb Hwt]. destruct Hf as [Hfb Hft].
  destruct (Hi b (or_introl eq_refl)) as (H1 & H2 & H3). split.
  - unfold blk_ok. split; [exact H1|]. split; [exact H2|]. split; [intros _; exact H3|]. split; [exact Hwb | exact Hfb].
  - apply IH; auto. intros b' Hb'. apply Hi. right. exact Hb'.
Qed.

(* ---------------------------------------------------------------- transfer: C04 stored_quality_is_from_scratch *)
(* in every store related to a Bft node (in particular every resumed node): the quality the crash model computes for a
   stored block from the records it finds — and the record itself at a store point — is the quality of the block's chain
   recomputed from the definitions over the stored set (state_pure: no records, no caches) *)
Theorem sim_quality_from_scratch s nd id sm : wf_cfg c -> sim s nd -> get_summary s id = Some sm ->
  quality_of c s (s_parent sm) (num_of id) (s_just sm) = Some (BC.quality_pure bc (BT.chain_of (BM.n_repo nd) (tr id))) /\
  (is_storepoint (c_L c) (num_of id) = true ->
   get_quality s id = BC.quality_pure bc (BT.chain_of (BM.n_repo nd) (tr id))).
Proof.
  intros Hc [Rf Hfl Hi Hfo] E. pose proof Rf as [V _ _].
  assert (Hs : stored s id = true) by (unfold stored; rewrite E; reflexivity).
  pose proof (v_dom _ _ _ V _ Hs) as Hd.
  pose proof (v_find _ _ _ V id Hd) as Ff. rewrite E in Ff. cbn in Ff.
  destruct (BC.find_blk_id _ _ _ Ff) as [Hid Hin].
  pose proof (BN.compute_state_stored bc (HLb Hc) _ _ (asum id sm) (BN.inv_wf bc nd Hi) (BN.inv_qs bc nd Hi) Hin) as Q.
  unfold BN.qual in Q. change (BT.b_id (asum id sm)) with (tr id) in Q. split.
  - rewrite (stored_quality_agree s _ _ V Hc id sm E (proj1 (Hfl id sm E))). f_equal. exact Q.
  - intros Hsp. rewrite <- (v_qs _ _ _ V id Hd).
    pose proof (BN.inv_qs bc nd Hi (asum id sm) Hin) as Q2. unfold BN.qual in Q2.
    change (BT.b_id (asum id sm)) with (tr id) in Q2. apply Q2.
    rewrite (asum_num id sm Hd), HcL. unfold is_storepoint in Hsp. apply N.eqb_eq in Hsp. exact Hsp.
Qed.

(* ---------------------------------------------------------------- transfer: C04 finalized_is_function_of_set / import_set_order_independent *)
(* over a consistent block tree U (Bft.ProofsOrder3.tree_consistent: in every well-formed repository drawn from it all
   finalizing blocks lie on one chain) the abstract node stays node_ok: finalized = fin_char of the stored set *)
Theorem run_node_ok U l : forall s nd, wf_cfg c -> BO3.tree_consistent bc U ->
  sim s nd -> hist_ok s nd l -> BO3.node_ok bc U nd -> (forall b, In b l -> In (ablk b) U) ->
  BO3.node_ok bc U (BN.import_all bc true nd (map ablk l)).
Proof.
  induction l as [|b t IH]; intros s nd Hc HU S H Hok HinU; [exact Hok|].
  cbn [map BN.import_all]. destruct H as [Hb Ht]. pose proof (import_sim_step s nd b Hc S Hb) as S'.
  destruct S as [Rf Hfl Hi Hfo]. destruct (import_sim s nd b Hc Rf Hfl Hb) as (_ & _ & _ & Hvc & _).
  apply (IH _ _ Hc HU S' Ht).
  - apply (BO3.import_ok_step bc (HLb Hc) U nd (ablk b) HU); [apply HinU; left; reflexivity | exact Hok | exact Hvc].
  - intros b' Hb'. apply HinU. right. exact Hb'.
Qed.

(* two stores related to node_ok nodes that hold the same blocks (same ids with the same parent and total score; conflict
   numbers, trie nodes, arrival order, crashes and restarts may differ) hold the same best block, the same finalized block
   and the same quality records *)
Theorem sim_function_of_set U s1 n1 s2 n2 : wf_cfg c -> BO3.tree_consistent bc U ->
  sim s1 n1 -> sim s2 n2 -> BO3.node_ok bc U n1 -> BO3.node_ok bc U n2 ->
  (forall id, option_map (asum id) (get_summary s1 id) = option_map (asum id) (get_summary s2 id)) ->
  get_id s1 KBest = get_id s2 KBest /\ finalized c s1 = finalized c s2 /\
  (forall id, stored s1 id = true -> is_storepoint (c_L c) (num_of id) = true -> get_quality s1 id = get_quality s2 id).
Proof.
  intros Hc HU S1 S2 (I1 & F1 & U1) (I2 & F2 & U2) Hsame.
  pose proof S1 as [Rf1 _ _ _]. pose proof S2 as [Rf2 _ _ _].
  pose proof Rf1 as [V1 (b1 & Hb1 & Eb1) Ef1]. pose proof Rf2 as [V2 (b2 & Hb2 & Eb2) Ef2].
  pose proof (BN.inv_wf bc _ I1) as W1. pose proof (BN.inv_wf bc _ I2) as W2.
  assert (G : forall sa na sb nb, view sa (BM.n_repo na) (BM.e_qs (BM.n_eng na)) -> view sb (BM.n_repo nb) (BM.e_qs (BM.n_eng nb)) ->
     (forall id, option_map (asum id) (get_summary sa id) = option_map (asum id) (get_summary sb id)) ->
     forall x, In x (BM.n_repo na) -> In x (BM.n_repo nb)).
  { intros sa na sb nb Va Vb Hs x Hx. destruct (v_in _ _ _ Va x Hx) as (id & sm & E & ->).
    assert (Hsa : stored sa id = true) by (unfold stored; rewrite E; reflexivity).
    pose proof (v_dom _ _ _ Va _ Hsa) as Hd. pose proof (v_find _ _ _ Vb id Hd) as Ff.
    rewrite <- Hs, E in Ff. cbn in Ff. exact (proj2 (BC.find_blk_id _ _ _ Ff)). }
  assert (Hset : forall x, In x (BM.n_repo n1) <-> In x (BM.n_repo n2)).
  { intro x. split; [apply (G s1 n1 s2 n2 V1 V2 Hsame) | apply (G s2 n2 s1 n1 V2 V1)]. intro id. symmetry. apply Hsame. }
  assert (Hch : forall id, BT.chain_of (BM.n_repo n1) id = BT.chain_of (BM.n_repo n2) id)
    by (intro id; apply BO.chain_of_set_eq; assumption).
  assert (Ebest : BM.n_best n1 = BM.n_best n2).
  { apply (BN.same_repo_same_best bc (HLb Hc) n1 n2 I1 I2 Hset). intros x _. unfold BN.qual. rewrite Hch. reflexivity. }
  assert (Efin : BM.e_fin (BM.n_eng n1) = BM.e_fin (BM.n_eng n2)).
  { apply (BO.fin_char_unique bc (HLb Hc) (BM.n_repo n1) (BM.n_repo n2) _ _ W1 W2 Hset); [|exact F1 | exact F2].
    apply HU; assumption. }
  split; [|split].
  - rewrite Hb1, Hb2. f_equal. rewrite Eb1, Eb2 in Ebest.
    destruct (inv_best c s1 (v_inv _ _ _ V1)) as (x1 & Hx1 & Hs1). rewrite Hb1 in Hx1. inversion Hx1; subst x1.
    destruct (inv_best c s2 (v_inv _ _ _ V2)) as (x2 & Hx2 & Hs2). rewrite Hb2 in Hx2. inversion Hx2; subst x2.
    apply (tr_inj _ _ (v_dom _ _ _ V1 _ Hs1) (v_dom _ _ _ V2 _ Hs2) Ebest).
  - rewrite Ef1, Ef2 in Efin.
    apply (tr_inj _ _ (v_dom _ _ _ V1 _ (finalized_stored c s1 Hc (v_inv _ _ _ V1)))
                      (v_dom _ _ _ V2 _ (finalized_stored c s2 Hc (v_inv _ _ _ V2))) Efin).
  - intros id Hs1 Hsp. unfold stored in Hs1. destruct (get_summary s1 id) as [sm1|] eqn:E1; [|discriminate].
    pose proof (Hsame id) as Hs. rewrite E1 in Hs. destruct (get_summary s2 id) as [sm2|] eqn:E2; [|discriminate].
    rewrite (proj2 (sim_quality_from_scratch s1 n1 id sm1 Hc S1 E1) Hsp).
    rewrite (proj2 (sim_quality_from_scratch s2 n2 id sm2 Hc S2 E2) Hsp). rewrite Hch. reflexivity.
Qed.

(* ---------------------------------------------------------------- the abstraction function refines the store *)
Lemma abs_find s l i : (forall j, In j l -> D j) -> NoDup l -> D i ->
  BT.find_blk (flat_map (fun id => match get_summary s id with Some sm => [asum id sm] | None => [] end) l) (tr i) =
  if in_dec N.eq_dec i l then option_map (asum i) (get_summary s i) else None.
Proof.
  intros Hd Hnd Hdi. induction l as [|j t IH]; [reflexivity|].
  inversion Hnd as [|? ? Hnj Hnt]; subst.
  assert (IH' := IH (fun x Hx => Hd x (or_intror Hx)) Hnt). clear IH.
  cbn [flat_map]. unfold BT.find_blk in *.
  destruct (in_dec N.eq_dec i (j :: t)) as [Hin|Hnin].
  - destruct Hin as [->|Hin].
    + destruct (get_summary s i) as [sm|] eqn:E; cbn [app find option_map].
      * change (BT.b_id (asum i sm)) with (tr i). rewrite N.eqb_refl. reflexivity.
      * rewrite IH'. destruct (in_dec N.eq_dec i t); [contradiction | reflexivity].
    + assert (Hne : j <> i) by (intros ->; contradiction).
      destruct (get_summary s j) as [sm|] eqn:E; cbn [app find].
      * change (BT.b_id (asum j sm)) with (tr j). rewrite (tr_eqb j i (Hd j (or_introl eq_refl)) Hdi).
        assert (E1 : (j =? i) = false) by (apply N.eqb_neq; exact Hne). rewrite E1, IH'.
        destruct (in_dec N.eq_dec i t); [reflexivity | contradiction].
      * rewrite IH'. destruct (in_dec N.eq_dec i t); [reflexivity | contradiction].
  - assert (Hne : j <> i) by (intros ->; apply Hnin; left; reflexivity).
    assert (Hnt' : ~ In i t) by (intros H; apply Hnin; right; exact H).
    destruct (get_summary s j) as [sm|] eqn:E; cbn [app find].
    + change (BT.b_id (asum j sm)) with (tr j). rewrite (tr_eqb j i (Hd j (or_introl eq_refl)) Hdi).
      assert (E1 : (j =? i) = false) by (apply N.eqb_neq; exact Hne). rewrite E1, IH'.
      destruct (in_dec N.eq_dec i t); [contradiction | reflexivity].
    + rewrite IH'. destruct (in_dec N.eq_dec i t); [contradiction | reflexivity].
Qed.

Lemma abs_getq s l i : (forall j, In j l -> D j) -> D i ->
  BM.get_q (map (fun id => (tr id, get_quality s id)) l) (tr i) = if in_dec N.eq_dec i l then get_quality s i else 0.
Proof.
  intros Hd Hdi. unfold BM.get_q. induction l as [|j t IH]; [reflexivity|].
  assert (IH' := IH (fun x Hx => Hd x (or_intror Hx))). clear IH.
  cbn [map find fst snd]. rewrite (tr_eqb j i (Hd j (or_introl eq_refl)) Hdi).
  destruct (N.eqb_spec j i) as [->|Hne].
  - destruct (in_dec N.eq_dec i (i :: t)) as [_|H]; [reflexivity | contradiction H; left; reflexivity].
  - rewrite IH'. destruct (in_dec N.eq_dec i t) as [Hin|Hnin], (in_dec N.eq_dec i (j :: t)) as [Hin'|Hnin']; try reflexivity.
    + contradiction Hnin'. right. exact Hin.
    + destruct Hin' as [E|Hin']; [contradiction Hne | contradiction].
Qed.

Theorem abs_refines s : Inv c s -> dom s -> BT.wf_repo (abs_repo s) -> refines s (abs s).
Proof.
  intros I Hdom Hwf.
  assert (Er : abs_repo s = flat_map (fun id => match get_summary s id with Some sm => [asum id sm] | None => [] end)
                                     (filter (stored s) (summary_ids s))).
  { unfold abs_repo. induction (summary_ids s) as [|j t IH]; [reflexivity|]. cbn [flat_map filter]. unfold stored at 1.
    destruct (get_summary s j) as [sm|] eqn:E; cbn [app].
    - cbn [flat_map]. rewrite E. cbn [app]. f_equal. exact IH.
    - exact IH. }
  assert (Hd : forall j, In j (filter (stored s) (summary_ids s)) -> D j).
  { intros j Hj. apply filter_In in Hj. apply Hdom. exact (proj2 Hj). }
  constructor; cbn [abs BM.n_repo BM.n_eng BM.n_best BM.e_qs BM.e_fin].
  - constructor.
    + intros i Hdi. rewrite Er, (abs_find s _ i Hd (NoDup_filter _ (summary_ids_nodup s)) Hdi).
      destruct (in_dec N.eq_dec i (filter (stored s) (summary_ids s))) as [_|Hnin]; [reflexivity|].
      destruct (get_summary s i) as [sm|] eqn:E; [|reflexivity]. exfalso. apply Hnin. apply filter_In.
      assert (Hs : stored s i = true) by (unfold stored; rewrite E; reflexivity).
      split; [apply stored_in_ids; exact Hs | exact Hs].
    + intros x Hx. unfold abs_repo in Hx. apply in_flat_map in Hx. destruct Hx as (j & _ & Hx).
      destruct (get_summary s j) as [sm|] eqn:E; [|destruct Hx]. destruct Hx as [<-|[]]. exists j, sm. split; [exact E | reflexivity].
    + intros i Hdi. unfold abs_qs. rewrite (abs_getq s _ i Hd Hdi).
      destruct (in_dec N.eq_dec i (filter (stored s) (summary_ids s))) as [_|Hnin]; [reflexivity|].
      unfold get_quality. destruct (get s (KQuality i)) as [v|] eqn:E; [|reflexivity]. exfalso. apply Hnin. apply filter_In.
      assert (Hs : stored s i = true) by (apply (inv_quality c s I); unfold has; rewrite E; reflexivity).
      split; [apply stored_in_ids; exact Hs | exact Hs].
    + exact Hwf.
    + exact I.
    + exact Hdom.
  - destruct (inv_best c s I) as (best & Hb & _). exists best. split; [exact Hb|]. unfold best_of. rewrite Hb. reflexivity.
  - reflexivity.
Qed.

(* ... and commutes with import: the repository of the abstraction of the new store IS the repository of the Bft import *)
Lemma abs_repo_main s b ab : main_case c s b ab -> ids_stored s -> abs_repo (run1 c s b) = ablk b :: abs_repo s.
Proof.
  intros M Hids. pose proof (main_not_stored c s b ab M) as Hns.
  assert (Hn : ~ In (b_id b) (summary_ids s)) by (intros H; rewrite (Hids _ H) in Hns; discriminate).
  unfold abs_repo. rewrite (summary_ids_main c s b ab M Hn). cbn [flat_map].
  rewrite (run1_summary s b ab M). destruct (N.eq_dec (b_id b) (b_id b)); [|congruence]. cbn [app]. f_equal.
  rewrite !flat_map_concat_map. f_equal. apply map_ext_in. intros i Hi. rewrite (run1_summary s b ab M).
  destruct (N.eq_dec i (b_id b)) as [->|]; [contradiction | reflexivity].
Qed.

Lemma ids_stored_main s b ab : main_case c s b ab -> ids_stored s -> ids_stored (run1 c s b).
Proof.
  intros M Hids. pose proof (main_not_stored c s b ab M) as Hns.
  assert (Hn : ~ In (b_id b) (summary_ids s)) by (intros H; rewrite (Hids _ H) in Hns; discriminate).
  intros i Hi. rewrite (summary_ids_main c s b ab M Hn) in Hi. unfold stored. rewrite (run1_summary s b ab M).
  destruct (N.eq_dec i (b_id b)); [reflexivity|]. destruct Hi as [E|Hi]; [congruence|]. exact (Hids i Hi).
Qed.

(* the invariant that ties the function to a node along a history *)
Record absim (s : store) (nd : BM.node) : Prop := mkAbsim {
  ab_sim : sim s nd;
  ab_ids : ids_stored s;
  ab_repo : abs_repo s = BM.n_repo nd }.

Theorem abs_import_step s nd b : wf_cfg c -> absim s nd -> blk_ok s nd b ->
  absim (run1 c s b) (fst (BM.import true bc nd (ablk b))).
Proof.
  intros Hc [S Hids Er] Hb. pose proof (import_sim_step s nd b Hc S Hb) as S'.
  destruct S as [Rf Hfl Hi Hfo]. destruct (import_sim s nd b Hc Rf Hfl Hb) as (_ & _ & _ & _ & H6 & Hrepo).
  destruct (crash_code s b =? 0) eqn:E0.
  - apply N.eqb_eq in E0. destruct (crash_stored s b E0) as (ab & M).
    constructor; [exact S' | apply (ids_stored_main s b ab M Hids) | rewrite Hrepo, (abs_repo_main s b ab M Hids), Er; reflexivity].
  - apply N.eqb_neq in E0. pose proof (crash_refused s b E0 H6) as Es. constructor; [exact S' | | ].
    + rewrite Es. exact Hids.
    + rewrite Hrepo, Es. exact Er.
Qed.

Theorem abs_run l : forall s nd, wf_cfg c -> absim s nd -> hist_ok s nd l ->
  absim (run c s l) (BN.import_all bc true nd (map ablk l)).
Proof.
  induction l as [|b t IH]; intros s nd Hc A H; [exact A|].
  cbn [run fold_left map BN.import_all]. destruct H as [Hb Ht].
  apply IH; [exact Hc | apply abs_import_step; assumption | exact Ht].
Qed.

(* what absim says about the function: it refines the store, the coupling holds for it, and it is the Bft node up to the
   representation of the quality records (same repository list, best, finalized; the same record under every id) *)
Theorem absim_abs s nd : absim s nd ->
  refines s (abs s) /\ flags_are_tallies s /\
  BM.n_repo (abs s) = BM.n_repo nd /\ BM.n_best (abs s) = BM.n_best nd /\
  BM.e_fin (BM.n_eng (abs s)) = BM.e_fin (BM.n_eng nd) /\
  (forall i, D i -> BM.get_q (BM.e_qs (BM.n_eng (abs s))) (tr i) = BM.get_q (BM.e_qs (BM.n_eng nd)) (tr i)).
Proof.
  intros [[Rf Hfl Hi Hfo] Hids Er]. pose proof Rf as [V (best & Hb & Eb) F].
  assert (Ra : refines s (abs s)).
  { apply abs_refines; [exact (v_inv _ _ _ V) | exact (v_dom _ _ _ V) | rewrite Er; exact (v_wf _ _ _ V)]. }
  split; [exact Ra|]. split; [exact (flags_ok_any s nd (abs s) Rf Ra Hfl)|]. split; [exact Er|]. split; [|split].
  - cbn [abs BM.n_best]. unfold best_of. rewrite Hb. symmetry. exact Eb.
  - cbn [abs BM.n_eng BM.e_fin]. symmetry. exact F.
  - intros i Hdi. pose proof Ra as [Va _ _]. rewrite (v_qs _ _ _ Va i Hdi), (v_qs _ _ _ V i Hdi). reflexivity.
Qed.

Lemma genesis_absim g : wf_cfg c -> c_g c = b_id g -> b_skeep g = [] -> b_ikeep g = [] ->
  b_just g = false -> b_comm g = false -> D (b_id g) ->
  absim (genesis_store g) (BM.init_node (ablk g) master).
Proof.
  intros Hc Hg Hk Hi Hj Hcm Hd. pose proof (genesis_sim g Hc Hg Hk Hi Hj Hcm Hd) as S.
  assert (E : genesis_store g = apply_writes [] (pre_writes [] g true)) by reflexivity.
  assert (Eids : summary_ids (genesis_store g) = [b_id g]) by (rewrite E, summary_ids_pre; [reflexivity | intros []]).
  assert (Es : get_summary (genesis_store g) (b_id g) = Some (summary_of g (conf_of [] g))).
  { rewrite E, s3_summary. destruct (N.eq_dec (b_id g) (b_id g)); [reflexivity | congruence]. }
  constructor; [exact S | |].
  - intros i Hi'. rewrite Eids in Hi'. destruct Hi' as [<-|[]]. unfold stored. rewrite Es. reflexivity.
  - unfold abs_repo. rewrite Eids. cbn [flat_map]. rewrite Es. reflexivity.
Qed.

(* a decidable form of the coupling, for checked instances *)
Definition flags_are_tallies_b (s : store) : bool :=
  forallb (fun id => match get_summary s id with
                     | Some sm => let st := BM.compute_state bc (abs_repo s) (abs_qs s) (asum id sm) in
                                  eqb (s_just sm) (BM.s_just st) && eqb (s_comm sm) (BM.s_comm st)
                     | None => true
                     end) (summary_ids s).

Lemma flags_are_tallies_b_ok s : flags_are_tallies_b s = true -> flags_are_tallies s.
Proof.
  intros H id sm E. cbv zeta. cbn [abs BM.n_repo BM.n_eng BM.e_qs].
  assert (Hs : stored s id = true) by (unfold stored; rewrite E; reflexivity).
  unfold flags_are_tallies_b in H. rewrite forallb_forall in H. specialize (H id (stored_in_ids s id Hs)).
  rewrite E in H. cbv zeta in H. apply andb_true_iff in H. destruct H as [H1 H2].
  apply eqb_prop in H1. apply eqb_prop in H2. split; assumption.
Qed.

(* ================================================================ from a genesis store: the statements for Properties/C13.v *)
Section FromGenesis.
Variable g : blk.
Hypothesis Hc2 : wf_cfg2 c.
Hypothesis Hg : c_g c = b_id g.
Hypothesis Hk : b_skeep g = [].
Hypothesis Hi : b_ikeep g = [].
Hypothesis Hj : b_just g = false.
Hypothesis Hcm : b_comm g = false.
Hypothesis Hd : D (b_id g).

Definition gnode : BM.node := BM.init_node (ablk g) master.

Lemma genesis_inv2' : Inv2 c (genesis_store g).
Proof.
  destruct Hc2 as [[Hn HL0] HL]. destruct c as [L gid]. cbn in Hg. subst gid. apply genesis_inv2; assumption.
Qed.

(* the node resumed after a crash at any cut of any import: an abstraction-invariant pair with the Bft node that imported
   the same blocks without interruption; in particular the same best block, finalized block, stored set and quality records *)
Theorem resumed_is_bft_run hist k i :
  wf_hist c (genesis_store g) hist -> cut_in_import c (genesis_store g) hist k i -> hist_ok (genesis_store g) gnode hist ->
  let nd := BN.import_all bc true gnode (map ablk hist) in
  exists r, resume c true (crash c (genesis_store g) hist k) (skipn i hist) = Some r /\
    sim r nd /\
    (exists best, get_id r KBest = Some best /\ BM.n_best nd = tr best) /\
    BM.e_fin (BM.n_eng nd) = tr (finalized c r) /\
    (forall id, D id -> BT.known (BM.n_repo nd) (tr id) = stored r id) /\
    (forall id, D id -> BM.get_q (BM.e_qs (BM.n_eng nd)) (tr id) = get_quality r id).
Proof.
  intros Hw Hcut Hh nd. pose proof Hc2 as [Hc _].
  destruct (resume_sim (genesis_store g) gnode hist k i Hc2 genesis_inv2' Hw Hcut
              (genesis_sim g Hc Hg Hk Hi Hj Hcm Hd) Hh) as (r & Hr & S).
  exists r. split; [exact Hr|]. split; [exact S|]. destruct S as [[V Hb F] _ _ _].
  split; [exact Hb|]. split; [exact F|]. split.
  - intros id Hdi. apply (view_known r _ _ V id Hdi).
  - intros id Hdi. apply (v_qs _ _ _ V id Hdi).
Qed.

(* the uninterrupted run and the abstraction function: abs of the store after the history is the Bft node after the history *)
Theorem abs_of_run_is_bft_run hist : hist_ok (genesis_store g) gnode hist ->
  let s := run c (genesis_store g) hist in
  let nd := BN.import_all bc true gnode (map ablk hist) in
  refines s (abs s) /\ flags_are_tallies s /\
  BM.n_repo (abs s) = BM.n_repo nd /\ BM.n_best (abs s) = BM.n_best nd /\
  BM.e_fin (BM.n_eng (abs s)) = BM.e_fin (BM.n_eng nd) /\
  (forall i, D i -> BM.get_q (BM.e_qs (BM.n_eng (abs s))) (tr i) = BM.get_q (BM.e_qs (BM.n_eng nd)) (tr i)).
Proof.
  intros Hh s nd. pose proof Hc2 as [Hc _]. apply absim_abs.
  apply (abs_run hist _ _ Hc (genesis_absim g Hc Hg Hk Hi Hj Hcm Hd) Hh).
Qed.

(* C04 stored_quality_is_from_scratch on every resumed node *)
Theorem resumed_quality_from_scratch hist k i :
  wf_hist c (genesis_store g) hist -> cut_in_import c (genesis_store g) hist k i -> hist_ok (genesis_store g) gnode hist ->
  let nd := BN.import_all bc true gnode (map ablk hist) in
  exists r, resume c true (crash c (genesis_store g) hist k) (skipn i hist) = Some r /\
    forall id sm, get_summary r id = Some sm ->
      quality_of c r (s_parent sm) (num_of id) (s_just sm) = Some (BC.quality_pure bc (BT.chain_of (BM.n_repo nd) (tr id))) /\
      (is_storepoint (c_L c) (num_of id) = true ->
       get_quality r id = BC.quality_pure bc (BT.chain_of (BM.n_repo nd) (tr id))).
Proof.
  intros Hw Hcut Hh nd. pose proof Hc2 as [Hc _].
  destruct (resumed_is_bft_run hist k i Hw Hcut Hh) as (r & Hr & S & _). exists r. split; [exact Hr|].
  intros id sm E. exact (sim_quality_from_scratch r _ id sm Hc S E).
Qed.

(* C03 finalized_monotone on every resumed node: along the history every finalized value of the Bft node has its predecessor
   on its chain, these values are the crash model's finalized blocks, and the resumed node holds the last of them *)
Lemma last_cons_default {A} (l : list A) : forall x d, last (x :: l) d = last l x.
Proof.
  induction l as [|y l IH]; intros x d; [reflexivity|].
  change (last (x :: y :: l) d) with (last (y :: l) d). rewrite !IH. reflexivity.
Qed.

Lemma run_finalized_last l : forall s, finalized c (run c s l) = last (cfin_trace s l) (finalized c s).
Proof.
  induction l as [|b t IH]; intros s; [reflexivity|].
  change (run c s (b :: t)) with (run c (run1 c s b) t). cbn [cfin_trace]. rewrite IH, last_cons_default. reflexivity.
Qed.

Theorem resumed_finalized_monotone hist k i :
  wf_hist c (genesis_store g) hist -> cut_in_import c (genesis_store g) hist k i -> hist_ok (genesis_store g) gnode hist ->
  exists r, resume c true (crash c (genesis_store g) hist k) (skipn i hist) = Some r /\
    BMo.monotone_from (tr (b_id g)) (BMo.fin_trace bc true gnode (map ablk hist)) /\
    map snd (BMo.fin_trace bc true gnode (map ablk hist)) = map tr (cfin_trace (genesis_store g) hist) /\
    finalized c r = last (cfin_trace (genesis_store g) hist) (b_id g).
Proof.
  intros Hw Hcut Hh. pose proof Hc2 as [Hc _].
  pose proof (genesis_sim g Hc Hg Hk Hi Hj Hcm Hd) as S0.
  destruct (resume_converges c _ hist k i Hc2 genesis_inv2' Hw Hcut) as (r & Hr & He).
  destruct (run_fin_trace hist _ _ Hc S0 Hh) as [M E].
  assert (F0 : finalized c (genesis_store g) = b_id g).
  { pose proof (rf_fin _ _ (sim_ref _ _ S0)) as F. cbn in F.
    apply (tr_inj _ _ Hd (v_dom _ _ _ (rf_view _ _ (sim_ref _ _ S0)) _
             (finalized_stored c _ Hc (v_inv _ _ _ (rf_view _ _ (sim_ref _ _ S0)))))) in F. symmetry. exact F. }
  rewrite F0 in M. exists r. split; [exact Hr|]. split; [exact M|]. split; [exact E|].
  rewrite (na_finalized _ _ (eqv_eqv_na _ _ He)), run_finalized_last, F0. reflexivity.
Qed.

(* C04 finalized_is_function_of_set / import_set_order_independent on resumed nodes: two nodes run two histories (any
   orders, duplicates, refused blocks), each crashes at any cut, restarts and resumes; over a consistent block tree, if
   they end up holding the same blocks they hold the same best block, the same finalized block, the same quality records;
   and each one's finalized block is fin_char of its stored set *)
Theorem resumed_function_of_set U h1 k1 i1 h2 k2 i2 :
  BO3.tree_consistent bc U -> In (ablk g) U ->
  (forall b, In b h1 \/ In b h2 -> In (ablk b) U) ->
  wf_hist c (genesis_store g) h1 -> cut_in_import c (genesis_store g) h1 k1 i1 -> hist_ok (genesis_store g) gnode h1 ->
  wf_hist c (genesis_store g) h2 -> cut_in_import c (genesis_store g) h2 k2 i2 -> hist_ok (genesis_store g) gnode h2 ->
  exists r1 r2,
    resume c true (crash c (genesis_store g) h1 k1) (skipn i1 h1) = Some r1 /\
    resume c true (crash c (genesis_store g) h2 k2) (skipn i2 h2) = Some r2 /\
    BO.fin_char bc (BM.n_repo (BN.import_all bc true gnode (map ablk h1))) (tr (finalized c r1)) /\
    BO.fin_char bc (BM.n_repo (BN.import_all bc true gnode (map ablk h2))) (tr (finalized c r2)) /\
    ((forall id, option_map (asum id) (get_summary r1 id) = option_map (asum id) (get_summary r2 id)) ->
     get_id r1 KBest = get_id r2 KBest /\ finalized c r1 = finalized c r2 /\
     (forall id, stored r1 id = true -> is_storepoint (c_L c) (num_of id) = true -> get_quality r1 id = get_quality r2 id)).
Proof.
  intros HU HgU HinU Hw1 Hcut1 Hh1 Hw2 Hcut2 Hh2. pose proof Hc2 as [Hc _].
  pose proof (genesis_sim g Hc Hg Hk Hi Hj Hcm Hd) as S0.
  assert (HnB : BT.b_num (ablk g) = 0).
  { unfold BT.b_num. cbn. rewrite (tr_num _ Hd). destruct Hc as [Hn _]. rewrite Hg in Hn. exact Hn. }
  pose proof (BO3.init_ok bc (HLb Hc) U (ablk g) master HnB HgU) as Ok0.
  destruct (resumed_is_bft_run h1 k1 i1 Hw1 Hcut1 Hh1) as (r1 & Hr1 & S1 & _).
  destruct (resumed_is_bft_run h2 k2 i2 Hw2 Hcut2 Hh2) as (r2 & Hr2 & S2 & _).
  pose proof (run_node_ok U h1 _ _ Hc HU S0 Hh1 Ok0 (fun b Hb => HinU b (or_introl Hb))) as Ok1.
  pose proof (run_node_ok U h2 _ _ Hc HU S0 Hh2 Ok0 (fun b Hb => HinU b (or_intror Hb))) as Ok2.
  exists r1, r2. split; [exact Hr1|]. split; [exact Hr2|]. split; [|split].
  - rewrite <- (rf_fin _ _ (sim_ref _ _ S1)). exact (proj1 (proj2 Ok1)).
  - rewrite <- (rf_fin _ _ (sim_ref _ _ S2)). exact (proj1 (proj2 Ok2)).
  - intros Hsame. exact (sim_function_of_set U r1 _ r2 _ Hc HU S1 S2 Ok1 Ok2 Hsame).
Qed.
End FromGenesis.

End Bridge.

(* ================================================================ an instance of the id bridge *)
(* ids whose low 224 bits are below 2^32 (the ids of Crash/Examples.v): number * 2^32 + the low bits.  For an arbitrary finite
   set of 32-byte ids the C04 harness computes the rank of each id among the ids of the same number instead; any such ranking
   satisfies the two hypotheses on the set. *)
Definition P224 : N := 26959946667150639794667015087019630673637144422540572481103610249216.
Definition small (id : N) : Prop := id mod P224 < BT.id_shift.
Definition tr_small (id : N) : N := num_of id * BT.id_shift + id mod P224.

Lemma lex_lt (B n1 r1 n2 r2 : N) : r1 < B -> r2 < B -> (n1 * B + r1 <? n2 * B + r2) = ((n1 <? n2) || ((n1 =? n2) && (r1 <? r2))).
Proof. intros H1 H2. destruct (N.ltb_spec n1 n2), (N.eqb_spec n1 n2), (N.ltb_spec r1 r2), (N.ltb_spec (n1 * B + r1) (n2 * B + r2)); cbn; try reflexivity; nia. Qed.

Lemma tr_small_num a : small a -> BT.idnum (tr_small a) = num_of a.
Proof.
  intros H. unfold BT.idnum, tr_small. rewrite N.div_add_l by discriminate. rewrite (N.div_small _ _ H). apply N.add_0_r.
Qed.

Lemma tr_small_lt a b : small a -> small b -> (tr_small a <? tr_small b) = (a <? b).
Proof.
  intros Ha Hb. unfold tr_small, small in *.
  assert (HS : BT.id_shift < P224) by reflexivity.
  assert (HP : P224 <> 0) by discriminate.
  pose proof (N.div_mod a P224 HP) as Ea. pose proof (N.div_mod b P224 HP) as Eb.
  change (num_of a) with (a / P224). change (num_of b) with (b / P224).
  set (na := a / P224) in *. set (ra := a mod P224) in *. set (nb := b / P224) in *. set (rb := b mod P224) in *.
  assert (E : (a <? b) = (na * P224 + ra <? nb * P224 + rb)).
  { f_equal; [rewrite (N.mul_comm na); exact Ea | rewrite (N.mul_comm nb); exact Eb]. }
  rewrite E, (lex_lt BT.id_shift _ _ _ _ Ha Hb), (lex_lt P224) by lia. reflexivity.
Qed.
