(* Compose/CrashBftFork.v — a second, non-degenerate instance of the Crash <-> Bft bridge (Compose/CrashBft.v):
   epoch length 4, THREE proposer slots (count mode: a round is justified by more than 3*2/3 = 2 distinct signers, committed
   by more than 2 COM votes), a non-COM vote, and a FORK: main chain 1..11, side branch 6', 7' off block 5 whose round has
   only two distinct signers (not justified: quality 1 at 7' against 2 at 7).  The crash-side flags of every block are
   computed by the Bft tally at import time ([mk_hist]: exactly the coupling premise blk_flags_ok); everything else is
   checked: the premises of hist_ok, the derived coupling flags_are_tallies on the final and on a resumed store
   (vm_compute of the tally over the abstracted store), and that the abstraction of the crash store is the Bft node that
   imported the same blocks (13 blocks, best = block 11, finalized = block 4, quality records 1 2 1 3). *)
From Coq Require Import List NArith Bool Lia.
From Verif Require Import Crash.Model Crash.ProofsStore Crash.ProofsInv Crash.ProofsImport Crash.ProofsCrash Crash.Examples
  Crash.ProofsEqv Crash.ProofsShape Crash.ProofsResumeAll Crash.ProofsResume Crash.ProofsQuality.
From Verif Require Import Compose.CrashBft.
Import ListNotations.
Open Scope N_scope.

Definition fcfg : cfg := mkCfg 4 (bid 0 7).
Definition fbc : BM.cfg := BM.mkCfg 4 3 false 0 [].
(* the low bits of an id encode the signer (mod 3) and the COM bit (100..199: non-COM) *)
Definition fsg (id : N) : N := (id mod P224) mod 3.
Definition fcm (id : N) : bool := negb ((id mod P224) / 100 =? 1).
Definition fmaster : N := 9.
Definition fs0 : store := genesis_store ex_gen.
Definition fnode : BM.node := gnode tr_small fsg fcm fmaster ex_gen.

(* (number, tail, parent number, parent tail, score) *)
Definition fspecs : list (N * N * N * N * N) :=
  [ (1, 0, 0, 7, 1); (2, 101, 1, 0, 2); (3, 1, 2, 101, 3);                      (* round 0: signers 0, 2 (non-COM), 1 *)
    (4, 0, 3, 1, 4); (5, 1, 4, 0, 5); (6, 2, 5, 1, 6); (7, 3, 6, 2, 7);           (* round 1: signers 0 1 2 0, all COM *)
    (6, 4, 5, 1, 6); (7, 7, 6, 4, 7);                                              (* side branch off block 5: signers 1 1 *)
    (8, 0, 7, 3, 8); (9, 1, 8, 0, 9); (10, 2, 9, 1, 10); (11, 3, 10, 2, 11) ].    (* round 2 on the main chain *)

(* the crash-side block of a spec, its flags taken from the Bft tally over the node that imported the blocks before it *)
Fixpoint mk_hist (nd : BM.node) (l : list (N * N * N * N * N)) : list blk :=
  match l with
  | [] => []
  | (n, k, pn, pk, sc) :: t =>
    let B := ablk_of tr_small fsg fcm (bid n k) (bid pn pk) sc in
    let st := BM.compute_state fbc (BM.n_repo nd) (BM.e_qs (BM.n_eng nd)) B in
    mkBlk (bid n k) (bid pn pk) [] [] [] [(31, 100 + 10 * n + k)] [(41, 200 + 10 * n + k)] [KNode 0 33 0 0] []
          sc (BM.s_just st) (BM.s_comm st)
    :: mk_hist (fst (BM.import true fbc nd B)) t
  end.

Definition fhist : list blk := Eval vm_compute in mk_hist fnode fspecs.
Definition fabs : store -> BM.node := abs fcfg tr_small fsg fcm fmaster.
Definition frun : BM.node := BN.import_all fbc true fnode (map (ablk tr_small fsg fcm) fhist).

(* the flags are not all alike: justified from the third distinct signer of a round on, committed with the third COM vote *)
Lemma fhist_flags :
  map (fun b => (num_of (b_id b), b_just b, b_comm b)) fhist =
  [ (1, false, false); (2, false, false); (3, true, false);
    (4, false, false); (5, false, false); (6, true, true); (7, true, true);
    (6, false, false); (7, false, false);
    (8, false, false); (9, false, false); (10, true, true); (11, true, true) ].
Proof. vm_compute. reflexivity. Qed.

Lemma f_wf_cfg2 : wf_cfg2 fcfg.
Proof. split; [split; reflexivity | reflexivity]. Qed.

Lemma f_ids_ok : ids_ok small fhist.
Proof.
  intros b Hb. unfold fhist in Hb. cbn [In] in Hb.
  repeat (destruct Hb as [<-|Hb]; [split; [vm_compute; reflexivity | split; vm_compute; reflexivity]|]). destruct Hb.
Qed.

Lemma f_wf_hist : wf_hist fcfg fs0 fhist.
Proof.
  unfold fhist. cbn [wf_hist]. repeat (split; [wf_blk_compute|]). exact I.
Qed.

Lemma f_flags_hist : flags_hist fbc tr_small fsg fcm fnode fhist.
Proof.
  unfold fhist. cbn [flags_hist]. repeat (split; [intros _; vm_compute; split; reflexivity|]). exact I.
Qed.

Lemma f_hist_ok : hist_ok fcfg fbc tr_small small fsg fcm fs0 fnode fhist.
Proof. apply hist_ok_intro; [exact f_ids_ok | exact f_wf_hist | exact f_flags_hist]. Qed.

Lemma f_bridge_hypotheses :
  BM.c_L fbc = c_L fcfg /\ wf_cfg2 fcfg /\ c_g fcfg = b_id ex_gen /\ small (b_id ex_gen) /\
  wf_hist fcfg fs0 fhist /\ hist_ok fcfg fbc tr_small small fsg fcm fs0 fnode fhist.
Proof.
  split; [reflexivity|]. split; [exact f_wf_cfg2|]. split; [reflexivity|]. split; [vm_compute; reflexivity|].
  split; [exact f_wf_hist | exact f_hist_ok].
Qed.

(* the cut between the block bulk and the quality record of the SIDE store point 7' (the F6 window on a side chain) *)
Definition f_cut : nat := 29.

(* the derived coupling, checked on the final store and on the store resumed after that cut *)
Lemma f_flags_are_tallies :
  flags_are_tallies fcfg fbc tr_small fsg fcm fmaster (run fcfg fs0 fhist) /\
  cut_in_import fcfg fs0 fhist f_cut 8 /\
  stored (crash fcfg fs0 fhist f_cut) (bid 7 7) = true /\ has (crash fcfg fs0 fhist f_cut) (KQuality (bid 7 7)) = false /\
  match resume fcfg true (crash fcfg fs0 fhist f_cut) (skipn 8 fhist) with
  | Some r => flags_are_tallies fcfg fbc tr_small fsg fcm fmaster r
  | None => False
  end.
Proof.
  split; [apply flags_are_tallies_b_ok; vm_compute; reflexivity|].
  split; [vm_compute; repeat split; auto; lia|]. split; [vm_compute; reflexivity|]. split; [vm_compute; reflexivity|].
  destruct (resume fcfg true (crash fcfg fs0 fhist f_cut) (skipn 8 fhist)) as [r|] eqn:E.
  - apply flags_are_tallies_b_ok.
    assert (H : option_map (flags_are_tallies_b fbc tr_small fsg fcm)
                  (resume fcfg true (crash fcfg fs0 fhist f_cut) (skipn 8 fhist)) = Some true) by (vm_compute; reflexivity).
    rewrite E in H. cbn in H. inversion H. reflexivity.
  - assert (H : option_map (fun _ => true) (resume fcfg true (crash fcfg fs0 fhist f_cut) (skipn 8 fhist)) = Some true)
      by (vm_compute; reflexivity).
    rewrite E in H. discriminate H.
Qed.

(* the abstraction of the crash store after the history, and of the store resumed after the cut, is the Bft node that
   imported the thirteen blocks: 14 stored blocks, best = block 11, finalized = block 4; quality records of the store
   points 3, 7, 7' and 11 *)
Lemma f_abs_is_bft_run :
  BM.n_repo (fabs (run fcfg fs0 fhist)) = BM.n_repo frun /\
  BM.n_best (fabs (run fcfg fs0 fhist)) = BM.n_best frun /\
  BM.e_fin (BM.n_eng (fabs (run fcfg fs0 fhist))) = BM.e_fin (BM.n_eng frun) /\
  length (BM.n_repo frun) = 14%nat /\
  BM.n_best frun = tr_small (bid 11 3) /\ BM.e_fin (BM.n_eng frun) = tr_small (bid 4 0) /\
  map (fun id => BM.get_q (BM.e_qs (BM.n_eng frun)) (tr_small id)) [bid 3 1; bid 7 3; bid 7 7; bid 11 3] = [1; 2; 1; 3] /\
  map (fun id => get_quality (run fcfg fs0 fhist) id) [bid 3 1; bid 7 3; bid 7 7; bid 11 3] = [1; 2; 1; 3] /\
  option_map (fun r => (BM.n_repo (fabs r), BM.n_best (fabs r), BM.e_fin (BM.n_eng (fabs r))))
    (resume fcfg true (crash fcfg fs0 fhist f_cut) (skipn 8 fhist)) =
  Some (BM.n_repo frun, BM.n_best frun, BM.e_fin (BM.n_eng frun)).
Proof. vm_compute. repeat split. Qed.

(* a theorem of CrashBft.v's FromGenesis section APPLIED to this instance: the store resumed after the cut on the side
   chain is simulated by the Bft node that imported the thirteen blocks (same best, finalized, stored set, quality records) *)
Lemma f_resumed_is_bft_run :
  exists r, resume fcfg true (crash fcfg fs0 fhist f_cut) (skipn 8 fhist) = Some r /\
    (exists best, get_id r KBest = Some best /\ BM.n_best frun = tr_small best) /\
    BM.e_fin (BM.n_eng frun) = tr_small (finalized fcfg r) /\
    (forall id, small id -> BT.known (BM.n_repo frun) (tr_small id) = stored r id) /\
    (forall id, small id -> BM.get_q (BM.e_qs (BM.n_eng frun)) (tr_small id) = get_quality r id).
Proof.
  assert (Hg : small (b_id ex_gen)) by (vm_compute; reflexivity).
  destruct (resumed_is_bft_run fcfg fbc eq_refl tr_small small tr_small_num tr_small_lt fsg fcm fmaster ex_gen
              f_wf_cfg2 eq_refl eq_refl eq_refl eq_refl eq_refl Hg fhist f_cut 8%nat f_wf_hist
              (proj1 (proj2 f_flags_are_tallies)) f_hist_ok) as (r & Hr & _ & Hb & Hf & Hk & Hq).
  exists r. repeat split; auto.
Qed.
