(* Compose/TxIdBind.v — C09 <-> C11: the premise "a tx id determines the tx" (U_inj) of C09's chain-level theorems
   discharged by C11's id binding.

     C09  Chain/ProofsChainInv.v   accepted_chain_ok / accepted_paths_agree (Properties/C09.v accepted_chain_inv,
                                   has_tx_paths_agree_on_accepted) are stated for an ABSTRACT universe U of transaction records
                                   (id, chain tag, block-ref number, expiration, depends-on, origin) with the premise
                                   U_inj : forall t1 t2, U t1 -> U t2 -> tx_id t1 = tx_id t2 -> t1 = t2.
     C11  Codec/ProofsBind.v       for the transactions the real decoders return (wfp c_tx t), with Blake2b an opaque function H
                                   and its collision-freeness the NAMED hypothesis H_inj: equal SigningHash() preimages =>
                                   equal signed parts (go_signing_injective_l); Transaction.ID() = H(H(signing bytes) ++ origin).

   Here C09's universe is INSTANTIATED: U H := the records `view H t o` of the decodable transactions t with a 20-byte origin o,
     tx_id     := code (go_tx_id H t (Some o))        (the id bytes as a number, `code` an injection bytes -> N, proved injective)
     tx_tag    := t_chain_tag t                       tx_ref := t_block_ref t / 2^32   (BlockRef.Number(): the first four of its 8 bytes)
     tx_exp    := t_expiration t                      tx_dep := the DependsOn pointer (nil in either wire form -> None)
     tx_origin := code o
   every field but the id being a projection of C11's signed part and the origin.  U_inj for it follows from H_inj
   (view_id_binds, c11_universe_inj), and C09's theorems are restated with U_inj REPLACED by H_inj
   (accepted_chain_inv_c11, has_tx_paths_agree_on_accepted_c11).  What is left assumed is C11's one hypothesis about the hash.

   Why `code` and not the big-endian value of the 32 id bytes: H is an opaque function bytes -> bytes whose outputs are not
   constrained to 32 bytes (C11 states H_inj for all byte strings; adding "H returns 32 bytes" would make H_inj
   unsatisfiable by counting), so the number standing for an id must be injective on ALL byte strings.  C09's model
   compares ids only for equality / order of index keys, so any injection serves. *)
From Coq Require Import List NArith Bool Lia.
From Coq Require Import ZifyN ZifyNat ZifyBool.
From Verif Require Import Codec.Model Codec.ProofsRLP Codec.ProofsComb Codec.ProofsObjects Codec.ProofsTop
  Codec.ProofsSign Codec.ProofsNorm Codec.ProofsAcc Codec.ProofsBind.
From Verif Require Chain.Model Chain.Proofs Chain.ProofsWalk Chain.ProofsSys Chain.ProofsTx Chain.ProofsAccept
  Chain.ProofsChainInv Chain.ProofsChainDep.
Import ListNotations.
Open Scope N_scope.

Module CM := Verif.Chain.Model.
Module CP := Verif.Chain.Proofs.
Module CI := Verif.Chain.ProofsChainInv.

(* ---------------------------------------------------------------- an injection bytes -> N (no range premise) *)
(* [] -> 0,  x :: r -> 2^x * (2 * code r + 1): a positive number is a power of two times an odd number in one way *)
Fixpoint code (l : list N) : N :=
  match l with [] => 0 | x :: r => 2 ^ x * (2 * code r + 1) end.

Lemma pow2_odd_lt x y a b : x < y -> 2 ^ x * (2 * a + 1) = 2 ^ y * (2 * b + 1) -> False.
Proof.
  intros Hlt E. replace y with (x + N.succ (y - x - 1)) in E by lia.
  rewrite N.pow_add_r, N.pow_succ_r', <- N.mul_assoc in E.
  apply N.mul_cancel_l in E; [|apply N.pow_nonzero; discriminate].
  set (k := 2 ^ (y - x - 1)) in *. nia.
Qed.

Lemma pow2_odd_inj x y a b : 2 ^ x * (2 * a + 1) = 2 ^ y * (2 * b + 1) -> x = y /\ a = b.
Proof.
  intros E. destruct (N.lt_trichotomy x y) as [L|[->|L]].
  - exfalso. exact (pow2_odd_lt x y a b L E).
  - split; [reflexivity|]. apply N.mul_cancel_l in E; [lia | apply N.pow_nonzero; discriminate].
  - exfalso. exact (pow2_odd_lt y x b a L (eq_sym E)).
Qed.

Lemma code_cons_pos x r : code (x :: r) <> 0.
Proof. cbn [code]. pose proof (N.pow_nonzero 2 x ltac:(discriminate)). nia. Qed.

Theorem code_inj : forall l1 l2, code l1 = code l2 -> l1 = l2.
Proof.
  induction l1 as [|x r IH]; intros [|y s] E.
  - reflexivity.
  - exfalso. exact (code_cons_pos y s (eq_sym E)).
  - exfalso. exact (code_cons_pos x r E).
  - cbn [code] in E. apply pow2_odd_inj in E. destruct E as [-> E]. f_equal. apply IH. exact E.
Qed.

(* ---------------------------------------------------------------- C09's record of a C11 transaction *)
Definition dep_of (v : nilable) : option N := match v with Ptr a => Some (code a) | _ => None end.

Lemma dep_of_norm v : dep_of (norm_nil v) = dep_of v.
Proof. destruct v; reflexivity. Qed.

Definition ref_number (block_ref : N) : N := block_ref / 2 ^ 32.

Section View.
  Variable H : bytes -> bytes.                                   (* Blake2b-256, opaque *)

  Definition view (t : tx) (o : bytes) : CM.txrec :=
    CM.mkTx (code (go_tx_id H t (Some o))) (t_chain_tag t) (ref_number (t_block_ref t)) (t_expiration t)
            (dep_of (t_depends t)) (code o).

  (* C09's universe: the records of the decodable transactions whose signature recovers to a 20-byte address *)
  Definition c11_universe (tr : CM.txrec) : Prop :=
    exists t o, wfp c_tx t /\ length o = 20%nat /\ tr = view t o.

  (* everything the real decoder returns is in it *)
  Lemma decoded_in_universe b t o : go_decode_tx b = Some t -> length o = 20%nat -> c11_universe (view t o).
  Proof. intros D Ho. exists t, o. split; [exact (proj2 (tx_decode_sound_l b t D)) | auto]. Qed.

  (* the fields C09 reads are projections of C11's signed part *)
  Lemma view_of_signed_part t1 t2 o : signed_part t1 = signed_part t2 ->
    CM.tx_tag (view t1 o) = CM.tx_tag (view t2 o) /\ CM.tx_ref (view t1 o) = CM.tx_ref (view t2 o) /\
    CM.tx_exp (view t1 o) = CM.tx_exp (view t2 o) /\ CM.tx_dep (view t1 o) = CM.tx_dep (view t2 o).
  Proof.
    intros E. unfold signed_part, strip_sig, norm_tx in E. injection E as _ E1 E2 E3 _ _ _ _ _ E4 _ _.
    cbn [view CM.tx_tag CM.tx_ref CM.tx_exp CM.tx_dep]. rewrite E1, E2, E3.
    rewrite <- (dep_of_norm (t_depends t1)), <- (dep_of_norm (t_depends t2)), E4. auto.
  Qed.

  Hypothesis H_inj : forall a b, H a = H b -> a = b.             (* C11's named hypothesis *)

  (* equal ids => equal signed parts and equal origins (C11: tx_id_binds_l, contrapositive, plus the origin) *)
  Theorem view_id_binds t1 t2 o1 o2 : wfp c_tx t1 -> wfp c_tx t2 -> length o1 = length o2 ->
    CM.tx_id (view t1 o1) = CM.tx_id (view t2 o2) -> signed_part t1 = signed_part t2 /\ o1 = o2.
  Proof.
    intros W1 W2 Hl E. cbn [view CM.tx_id] in E. apply code_inj in E. cbn [go_tx_id] in E. apply H_inj in E.
    apply app_inj_len in E; [|exact Hl]. destruct E as [E ->]. split; [|reflexivity].
    apply go_signing_injective_l; [exact W1 | exact W2 | apply H_inj; exact E].
  Qed.

  Theorem view_inj t1 t2 o1 o2 : wfp c_tx t1 -> wfp c_tx t2 -> length o1 = length o2 ->
    CM.tx_id (view t1 o1) = CM.tx_id (view t2 o2) -> view t1 o1 = view t2 o2.
  Proof.
    intros W1 W2 Hl E. destruct (view_id_binds t1 t2 o1 o2 W1 W2 Hl E) as [S ->].
    destruct (view_of_signed_part t1 t2 o2 S) as (A & B & C & D).
    cbn [view CM.tx_tag CM.tx_ref CM.tx_exp CM.tx_dep CM.tx_id] in *. unfold view. rewrite E, A, B, C, D. reflexivity.
  Qed.

  (* stated on C11's id bytes: equal Transaction.ID()s => same signed part, same origin, same C09 record *)
  Theorem id_binds_record t1 t2 o1 o2 : wfp c_tx t1 -> wfp c_tx t2 -> length o1 = length o2 ->
    go_tx_id H t1 (Some o1) = go_tx_id H t2 (Some o2) ->
    signed_part t1 = signed_part t2 /\ o1 = o2 /\ view t1 o1 = view t2 o2.
  Proof.
    intros W1 W2 Hl E.
    assert (E' : CM.tx_id (view t1 o1) = CM.tx_id (view t2 o2)) by (unfold view; cbn [CM.tx_id]; f_equal; exact E).
    destruct (view_id_binds t1 t2 o1 o2 W1 W2 Hl E') as [S O]. split; [exact S|]. split; [exact O|].
    exact (view_inj t1 t2 o1 o2 W1 W2 Hl E').
  Qed.

  (* U_inj, for C09's universe instantiated with C11's transactions *)
  Theorem c11_universe_inj : forall t1 t2, c11_universe t1 -> c11_universe t2 -> CM.tx_id t1 = CM.tx_id t2 -> t1 = t2.
  Proof.
    intros r1 r2 (t1 & o1 & W1 & L1 & ->) (t2 & o2 & W2 & L2 & ->) E.
    apply view_inj; [exact W1 | exact W2 | congruence | exact E].
  Qed.

  (* ---------------------------------------------------------------- C09's theorems with U_inj replaced by H_inj *)
  Section Chain.
    Variables g gp tag : N.
    Hypothesis Hg : CM.num_of g = 0.
    Hypothesis Hgp : CM.num_of gp = CM.max_u32.

    (* accepted_chain_inv: on every history all of whose blocks passed `validate` and consist of (records of) decodable
       transactions, every stored chain, from any head, carries only such transactions, each with the chain tag and at a height
       inside [ref, ref + expiration]; no id twice on a chain, in two blocks or in one *)
    Theorem accepted_chain_inv_c11 r : CP.reachable g gp tag (CI.accepted c11_universe) r -> forall h, CP.stored r h ->
      (forall a t, CP.anc r h a -> CI.tx_in r a t ->
         c11_universe t /\ CM.tx_tag t = tag /\ CM.tx_ref t <= CM.num_of a /\ CM.num_of a <= CM.tx_ref t + CM.tx_exp t) /\
      (forall a1 t1 a2 t2, CP.anc r h a1 -> CP.anc r h a2 -> CI.tx_in r a1 t1 -> CI.tx_in r a2 t2 ->
         CM.tx_id t1 = CM.tx_id t2 -> a1 = a2) /\
      (forall a s b, CP.anc r h a -> CM.get_block r a = Some (s, b) -> NoDup (map CM.tx_id (CM.b_txs b))).
    Proof. intros R h Sh. exact (CI.accepted_chain_ok g gp tag c11_universe c11_universe_inj Hg Hgp r R h Sh). Qed.

    (* ... in C11's terms: two inclusions, on one chain, of transactions with the same id sit in the same block, and they are
       the same transaction up to the signature: same signed fields, same origin *)
    Theorem included_once_c11 r : CP.reachable g gp tag (CI.accepted c11_universe) r -> forall h, CP.stored r h ->
      forall a1 a2 t1 o1 t2 o2, CP.anc r h a1 -> CP.anc r h a2 -> wfp c_tx t1 -> wfp c_tx t2 -> length o1 = length o2 ->
        CI.tx_in r a1 (view t1 o1) -> CI.tx_in r a2 (view t2 o2) ->
        go_tx_id H t1 (Some o1) = go_tx_id H t2 (Some o2) -> a1 = a2 /\ signed_part t1 = signed_part t2 /\ o1 = o2.
    Proof.
      intros R h Sh a1 a2 t1 o1 t2 o2 A1 A2 W1 W2 Hl I1 I2 E.
      assert (E' : CM.tx_id (view t1 o1) = CM.tx_id (view t2 o2)) by (unfold view; cbn [CM.tx_id]; f_equal; exact E).
      split; [|exact (view_id_binds t1 t2 o1 o2 W1 W2 Hl E')].
      destruct (accepted_chain_inv_c11 r R h Sh) as [_ [P2 _]]. exact (P2 a1 _ a2 _ A1 A2 I1 I2 E').
    Qed.

    (* has_tx_paths_agree_on_accepted: for every head and every decodable transaction, HasTransaction with the tx's own block
       ref, the indexed lookup and the recent-window walk all answer "the tx is on this head's chain" *)
    Theorem has_tx_paths_agree_on_accepted_c11 r : CP.reachable g gp tag (CI.accepted c11_universe) r ->
      forall h t o, CP.stored r h -> wfp c_tx t -> length o = 20%nat ->
        let x := view t o in
        exists v, CM.has_transaction r h (CM.tx_id x) (CM.tx_ref x) = CM.Ok v /\ CM.has_tx_indexed r h (CM.tx_id x) = CM.Ok v /\
                  (CM.tx_ref x <= CM.num_of h -> CM.num_of h - CM.tx_ref x < 100 ->
                   CM.recent_walk r (CM.tx_id x) (CM.tx_ref x) 102 h = CM.Ok v) /\
                  (v = true <-> exists a, Chain.ProofsTx.incl_on r h (CM.tx_id x) a).
    Proof.
      intros R h t o Sh W Ho x.
      apply (CI.accepted_paths_agree g gp tag c11_universe c11_universe_inj Hg Hgp r R h x Sh).
      exists t, o. auto.
    Qed.
  End Chain.
End View.

(* ---------------------------------------------------------------- collision extraction (no hypothesis on H) *)
(* two records of decodable transactions with one id: either they agree in every signed field and the origin, or an explicit
   collision of H among the strings hashed for them is exhibited *)
Definition collision_in (H : bytes -> bytes) (P : bytes -> Prop) : Prop := exists a b, P a /\ P b /\ a <> b /\ H a = H b.

Theorem view_id_extract H t1 t2 o1 o2 : wfp c_tx t1 -> wfp c_tx t2 -> length o1 = length o2 ->
  CM.tx_id (view H t1 o1) = CM.tx_id (view H t2 o2) ->
  (signed_part t1 = signed_part t2 /\ o1 = o2 /\ view H t1 o1 = view H t2 o2) \/
  collision_in H (fun a => a = go_signing_tx t1 \/ a = go_signing_tx t2 \/
                           a = go_tx_signing_hash H t1 ++ o1 \/ a = go_tx_signing_hash H t2 ++ o2).
Proof.
  intros W1 W2 Hl E. pose proof E as E0. cbn [view CM.tx_id] in E. apply code_inj in E. cbn [go_tx_id] in E.
  destruct (list_eq_dec N.eq_dec (go_tx_signing_hash H t1 ++ o1) (go_tx_signing_hash H t2 ++ o2)) as [e|n].
  2:{ right. exists (go_tx_signing_hash H t1 ++ o1), (go_tx_signing_hash H t2 ++ o2). auto 10. }
  apply app_inj_len in e; [|exact Hl]. destruct e as [e ->]. unfold go_tx_signing_hash in e.
  destruct (list_eq_dec N.eq_dec (go_signing_tx t1) (go_signing_tx t2)) as [e'|n].
  2:{ right. exists (go_signing_tx t1), (go_signing_tx t2). auto 10. }
  left. pose proof (go_signing_injective_l t1 t2 W1 W2 e') as Sp. split; [exact Sp|]. split; [reflexivity|].
  destruct (view_of_signed_part H t1 t2 o2 Sp) as (A & B & C & D).
  cbn [view CM.tx_tag CM.tx_ref CM.tx_exp CM.tx_dep CM.tx_id] in *. unfold view. rewrite E0, A, B, C, D. reflexivity.
Qed.

(* ---------------------------------------------------------------- the same with collision-freeness only ON THE PREIMAGES *)
(* H_inj above quantifies over all byte strings (C11's form), which no function with 32-byte outputs satisfies.  Nothing in the
   argument needs that much: for ANY set S of (transaction, origin) pairs — say, those a node ever decodes — it is enough that H
   is collision-free on the strings actually hashed for S: the SigningHash() preimages and the ID() preimages
   signing hash ++ origin.  C09's universe is then the records of S; a finite S makes the hypothesis satisfiable by a function
   that is not injective (TxIdBindExamples: a truncating H). *)
Section OnPreimages.
  Variable H : bytes -> bytes.
  Variable S : tx -> bytes -> Prop.

  Definition hashed (a : bytes) : Prop :=
    exists t o, S t o /\ (a = go_signing_tx t \/ a = go_tx_signing_hash H t ++ o).
  Definition c11_universe_on (tr : CM.txrec) : Prop :=
    exists t o, S t o /\ wfp c_tx t /\ length o = 20%nat /\ tr = view H t o.

  Lemma universe_on_sub tr : c11_universe_on tr -> c11_universe H tr.
  Proof. intros (t & o & _ & W & L & E). exists t, o. auto. Qed.

  Hypothesis H_inj_on : forall a b, hashed a -> hashed b -> H a = H b -> a = b.

  Theorem view_id_binds_on t1 t2 o1 o2 : S t1 o1 -> S t2 o2 -> wfp c_tx t1 -> wfp c_tx t2 -> length o1 = length o2 ->
    CM.tx_id (view H t1 o1) = CM.tx_id (view H t2 o2) -> signed_part t1 = signed_part t2 /\ o1 = o2.
  Proof.
    intros S1 S2 W1 W2 Hl E. cbn [view CM.tx_id] in E. apply code_inj in E. cbn [go_tx_id] in E.
    apply H_inj_on in E; [|exists t1, o1; auto|exists t2, o2; auto].
    apply app_inj_len in E; [|exact Hl]. destruct E as [E ->]. split; [|reflexivity].
    apply go_signing_injective_l; [exact W1 | exact W2 |].
    apply H_inj_on; [exists t1, o2; auto|exists t2, o2; auto|exact E].
  Qed.

  Theorem c11_universe_on_inj : forall t1 t2, c11_universe_on t1 -> c11_universe_on t2 -> CM.tx_id t1 = CM.tx_id t2 -> t1 = t2.
  Proof.
    intros r1 r2 (t1 & o1 & S1 & W1 & L1 & ->) (t2 & o2 & S2 & W2 & L2 & ->) E.
    assert (Hl : length o1 = length o2) by congruence.
    destruct (view_id_binds_on t1 t2 o1 o2 S1 S2 W1 W2 Hl E) as [Sp ->].
    destruct (view_of_signed_part H t1 t2 o2 Sp) as (A & B & C & D).
    cbn [view CM.tx_tag CM.tx_ref CM.tx_exp CM.tx_dep CM.tx_id] in *. unfold view. rewrite E, A, B, C, D. reflexivity.
  Qed.

  Section ChainOn.
    Variables g gp tag : N.
    Hypothesis Hg : CM.num_of g = 0.
    Hypothesis Hgp : CM.num_of gp = CM.max_u32.

    Theorem accepted_chain_inv_c11_on r : CP.reachable g gp tag (CI.accepted c11_universe_on) r -> forall h, CP.stored r h ->
      (forall a t, CP.anc r h a -> CI.tx_in r a t ->
         c11_universe_on t /\ CM.tx_tag t = tag /\ CM.tx_ref t <= CM.num_of a /\ CM.num_of a <= CM.tx_ref t + CM.tx_exp t) /\
      (forall a1 t1 a2 t2, CP.anc r h a1 -> CP.anc r h a2 -> CI.tx_in r a1 t1 -> CI.tx_in r a2 t2 ->
         CM.tx_id t1 = CM.tx_id t2 -> a1 = a2) /\
      (forall a s b, CP.anc r h a -> CM.get_block r a = Some (s, b) -> NoDup (map CM.tx_id (CM.b_txs b))).
    Proof. intros R h Sh. exact (CI.accepted_chain_ok g gp tag c11_universe_on c11_universe_on_inj Hg Hgp r R h Sh). Qed.

    Theorem has_tx_paths_agree_on_accepted_c11_on r : CP.reachable g gp tag (CI.accepted c11_universe_on) r ->
      forall h t o, CP.stored r h -> S t o -> wfp c_tx t -> length o = 20%nat ->
        let x := view H t o in
        exists v, CM.has_transaction r h (CM.tx_id x) (CM.tx_ref x) = CM.Ok v /\ CM.has_tx_indexed r h (CM.tx_id x) = CM.Ok v /\
                  (CM.tx_ref x <= CM.num_of h -> CM.num_of h - CM.tx_ref x < 100 ->
                   CM.recent_walk r (CM.tx_id x) (CM.tx_ref x) 102 h = CM.Ok v) /\
                  (v = true <-> exists a, Chain.ProofsTx.incl_on r h (CM.tx_id x) a).
    Proof.
      intros R h t o Sh St W Ho x.
      apply (CI.accepted_paths_agree g gp tag c11_universe_on c11_universe_on_inj Hg Hgp r R h x Sh).
      exists t, o. auto.
    Qed.
  End ChainOn.
End OnPreimages.

