(* Compose/TxIdBindExamples.v — non-vacuity of Compose/TxIdBind.v: an injective toy hash (the identity, as in C11's
   ex_id_binding), two decodable transactions (one legacy, one dynamic-fee) with 20-byte origins, and a fork history
       g - b1[xa] - b2[xb]
                 \ b2'[xb]          (the same transaction re-included on the sibling)
   every block of which passes C09's `validate` and consists of records of decodable transactions: all premises of
   accepted_chain_inv_c11 / has_tx_paths_agree_on_accepted_c11 hold, with H_inj PROVED for the instance. *)
From Coq Require Import List NArith Bool Lia.
From Verif Require Import Codec.Model Codec.ProofsRLP Codec.ProofsComb Codec.ProofsObjects Codec.ProofsTop Codec.ProofsBind.
From Verif Require Chain.Model Chain.Proofs Chain.ProofsTx Chain.ProofsChainInv Chain.Examples.
From Verif Require Import Compose.TxIdBind.
Import ListNotations.
Open Scope N_scope.

Module CE := Verif.Chain.Examples.

Definition x_H (b : bytes) : bytes := b.
Lemma x_H_inj : forall a b, x_H a = x_H b -> a = b.
Proof. intros a b E. exact E. Qed.

(* chain tag 7; block ref 0x00000001_00000000 (number 1); expiration 10 resp. 32 *)
Definition x_clause := mkClause (Ptr (repeat 7 20)) 1000 [1; 2; 3].
Definition x_ta := mkTx false 7 4294967296 10 [x_clause] 128 0 0 21000 NilStr 12345678 (mkRes 1 []) (repeat 9 65).
Definition x_tb := mkTx true 7 4294967296 32 [x_clause; mkClause NilStr 0 [96]] 0 7 1000000 50000 NilList 255 (mkRes 0 []) (repeat 8 65).
(* a third decodable transaction, with a DependsOn pointer, not on the chain *)
Definition x_tc := mkTx true 7 8589934592 32 [x_clause] 0 7 1000000 50000 (Ptr (repeat 3 32)) 256 (mkRes 0 []) (repeat 8 65).
Definition x_oa : bytes := repeat 17 20.
Definition x_ob : bytes := repeat 18 20.

Example x_wf : wfp c_tx x_ta /\ wfp c_tx x_tb /\ wfp c_tx x_tc.
Proof.
  split; [|split].
  - apply (tx_decode_sound_l (enc c_tx x_ta)). vm_compute. reflexivity.
  - apply (tx_decode_sound_l (enc c_tx x_tb)). vm_compute. reflexivity.
  - apply (tx_decode_sound_l (enc c_tx x_tc)). vm_compute. reflexivity.
Qed.

Definition x_va := view x_H x_ta x_oa.
Definition x_vb := view x_H x_tb x_ob.
Definition x_vc := view x_H x_tc x_oa.

(* what C09 reads off them *)
Example x_fields :
  (CM.tx_tag x_va, CM.tx_ref x_va, CM.tx_exp x_va, CM.tx_dep x_va) = (7, 1, 10, None) /\
  (CM.tx_tag x_vb, CM.tx_ref x_vb, CM.tx_exp x_vb, CM.tx_dep x_vb) = (7, 1, 32, None) /\
  (CM.tx_tag x_vc, CM.tx_ref x_vc, CM.tx_exp x_vc) = (7, 2, 32) /\ CM.tx_dep x_vc = Some (code (repeat 3 32)) /\
  CM.tx_id x_va <> CM.tx_id x_vb.
Proof. vm_compute. repeat split; discriminate. Qed.

Example x_in_universe : c11_universe x_H x_va /\ c11_universe x_H x_vb /\ c11_universe x_H x_vc.
Proof.
  destruct x_wf as (Wa & Wb & Wc).
  split; [|split]; [exists x_ta, x_oa | exists x_tb, x_ob | exists x_tc, x_oa]; auto.
Qed.

(* the history *)
Definition x_rc := CM.mkRc false [].
Definition x_b1 := CM.mkB (CE.bid 1 1) CE.ex_g 10 [x_va] [x_rc].
Definition x_b2 := CM.mkB (CE.bid 2 1) (CE.bid 1 1) 20 [x_vb] [x_rc].
Definition x_b2' := CM.mkB (CE.bid 2 2) (CE.bid 1 1) 20 [x_vb] [x_rc].
Definition x_r0 := CM.init_repo CE.ex_g CE.ex_gp 7.
Definition x_r1 := CE.step_or x_r0 x_b1 0 true.
Definition x_r2 := CE.step_or x_r1 x_b2 0 true.
Definition x_r3 := CE.step_or x_r2 x_b2' 1 false.

Example x_history : CP.reachable CE.ex_g CE.ex_gp 7 (CI.accepted (c11_universe x_H)) x_r3.
Proof.
  destruct x_in_universe as (Ua & Ub & _).
  apply (CP.reach_add _ _ _ _ x_r2 x_b2' 1 false); [| vm_compute; repeat split | | vm_compute; reflexivity].
  apply (CP.reach_add _ _ _ _ x_r1 x_b2 0 true); [| vm_compute; repeat split | | vm_compute; reflexivity].
  apply (CP.reach_add _ _ _ _ x_r0 x_b1 0 true); [| vm_compute; repeat split | | vm_compute; reflexivity].
  - apply CP.reach_init.
  - split; [vm_compute; reflexivity|]. intros t [<-|[]]. exact Ua.
  - split; [vm_compute; reflexivity|]. intros t [<-|[]]. exact Ub.
  - split; [vm_compute; reflexivity|]. intros t [<-|[]]. exact Ub.
Qed.

(* the rules bite on this history: re-including xa, or xb on its own branch, is refused; xc (dependency unknown) is refused *)
Example x_rejects :
  CM.validate x_r3 (CM.mkB (CE.bid 3 1) (CE.bid 2 1) 30 [x_va] [x_rc]) = CM.V_exists /\
  CM.validate x_r3 (CM.mkB (CE.bid 3 1) (CE.bid 2 2) 30 [x_vb] [x_rc]) = CM.V_exists /\
  CM.validate x_r3 (CM.mkB (CE.bid 3 1) (CE.bid 2 1) 30 [x_vc] [x_rc]) = CM.V_depbroken.
Proof. vm_compute. repeat split. Qed.

(* the composed theorems on the instance: every premise discharged *)
Example x_chain_inv : forall h, CP.stored x_r3 h ->
  (forall a t, CP.anc x_r3 h a -> CI.tx_in x_r3 a t ->
     c11_universe x_H t /\ CM.tx_tag t = 7 /\ CM.tx_ref t <= CM.num_of a /\ CM.num_of a <= CM.tx_ref t + CM.tx_exp t) /\
  (forall a1 t1 a2 t2, CP.anc x_r3 h a1 -> CP.anc x_r3 h a2 -> CI.tx_in x_r3 a1 t1 -> CI.tx_in x_r3 a2 t2 ->
     CM.tx_id t1 = CM.tx_id t2 -> a1 = a2) /\
  (forall a s b, CP.anc x_r3 h a -> CM.get_block x_r3 a = Some (s, b) -> NoDup (map CM.tx_id (CM.b_txs b))).
Proof.
  exact (accepted_chain_inv_c11 x_H x_H_inj CE.ex_g CE.ex_gp 7 CE.ex_g_num CE.ex_gp_num x_r3 x_history).
Qed.

(* xb is found from both sibling heads, xa from both too (it sits below the fork), xc from none — by every path *)
Example x_paths :
  CM.has_transaction x_r3 (CE.bid 2 1) (CM.tx_id x_vb) (CM.tx_ref x_vb) = CM.Ok true /\
  CM.has_transaction x_r3 (CE.bid 2 2) (CM.tx_id x_vb) (CM.tx_ref x_vb) = CM.Ok true /\
  CM.has_transaction x_r3 (CE.bid 1 1) (CM.tx_id x_vb) (CM.tx_ref x_vb) = CM.Ok false /\
  CM.has_tx_indexed x_r3 (CE.bid 2 2) (CM.tx_id x_va) = CM.Ok true /\
  CM.has_tx_indexed x_r3 (CE.bid 2 2) (CM.tx_id x_vc) = CM.Ok false.
Proof. vm_compute. repeat split. Qed.

Example x_paths_agree : forall h, CP.stored x_r3 h ->
  exists v, CM.has_transaction x_r3 h (CM.tx_id x_vc) (CM.tx_ref x_vc) = CM.Ok v /\ CM.has_tx_indexed x_r3 h (CM.tx_id x_vc) = CM.Ok v /\
            (CM.tx_ref x_vc <= CM.num_of h -> CM.num_of h - CM.tx_ref x_vc < 100 ->
             CM.recent_walk x_r3 (CM.tx_id x_vc) (CM.tx_ref x_vc) 102 h = CM.Ok v) /\
            (v = true <-> exists a, Chain.ProofsTx.incl_on x_r3 h (CM.tx_id x_vc) a).
Proof.
  intros h Sh.
  exact (has_tx_paths_agree_on_accepted_c11 x_H x_H_inj CE.ex_g CE.ex_gp 7 CE.ex_g_num CE.ex_gp_num x_r3 x_history
           h x_tc x_oa Sh (proj2 (proj2 x_wf)) eq_refl).
Qed.

(* view_id_binds is not vacuous either way: different signed parts, different ids *)
Example x_binding : signed_part x_ta <> signed_part x_tb /\ CM.tx_id x_va <> CM.tx_id x_vb.
Proof.
  assert (D : signed_part x_ta <> signed_part x_tb) by (vm_compute; discriminate).
  split; [exact D|]. intros E. apply D.
  destruct x_wf as (Wa & Wb & _). exact (proj1 (view_id_binds x_H x_H_inj x_ta x_tb x_oa x_ob Wa Wb eq_refl E)).
Qed.

(* ---------------------------------------------------------------- collision-freeness only on the preimages *)
(* a hash that is NOT injective (it keeps the first 200 bytes) but is collision-free on the six strings hashed for the three
   transactions above: the premises of the `_on` theorems are met by a function no global H_inj holds for *)
Definition x_Ht (b : bytes) : bytes := firstn 200 b.
Example x_Ht_collides : exists a b, a <> b /\ x_Ht a = x_Ht b.
Proof. exists (repeat 0 200 ++ [1]), (repeat 0 200 ++ [2]). split; [vm_compute; discriminate | vm_compute; reflexivity]. Qed.

Definition x_S (t : tx) (o : bytes) : Prop := (t = x_ta /\ o = x_oa) \/ (t = x_tb /\ o = x_ob) \/ (t = x_tc /\ o = x_oa).

Lemma x_Ht_fix a : hashed x_Ht x_S a -> x_Ht a = a.
Proof.
  intros (t & o & [[-> ->]|[[-> ->]|[-> ->]]] & [->| ->]); vm_compute; reflexivity.
Qed.
Example x_Ht_inj_on : forall a b, hashed x_Ht x_S a -> hashed x_Ht x_S b -> x_Ht a = x_Ht b -> a = b.
Proof. intros a b Ha Hb E. rewrite (x_Ht_fix a Ha), (x_Ht_fix b Hb) in E. exact E. Qed.

Definition x_wa := view x_Ht x_ta x_oa.
Definition x_wb := view x_Ht x_tb x_ob.
Definition x_c1 := CM.mkB (CE.bid 1 1) CE.ex_g 10 [x_wa] [x_rc].
Definition x_c2 := CM.mkB (CE.bid 2 1) (CE.bid 1 1) 20 [x_wb] [x_rc].
Definition x_c2' := CM.mkB (CE.bid 2 2) (CE.bid 1 1) 20 [x_wb] [x_rc].
Definition x_q1 := CE.step_or x_r0 x_c1 0 true.
Definition x_q2 := CE.step_or x_q1 x_c2 0 true.
Definition x_q3 := CE.step_or x_q2 x_c2' 1 false.

Example x_history_on : CP.reachable CE.ex_g CE.ex_gp 7 (CI.accepted (c11_universe_on x_Ht x_S)) x_q3.
Proof.
  destruct x_wf as (Wa & Wb & _).
  assert (Ua : c11_universe_on x_Ht x_S x_wa) by (exists x_ta, x_oa; unfold x_S; auto 10).
  assert (Ub : c11_universe_on x_Ht x_S x_wb) by (exists x_tb, x_ob; unfold x_S; auto 10).
  apply (CP.reach_add _ _ _ _ x_q2 x_c2' 1 false); [| vm_compute; repeat split | | vm_compute; reflexivity].
  apply (CP.reach_add _ _ _ _ x_q1 x_c2 0 true); [| vm_compute; repeat split | | vm_compute; reflexivity].
  apply (CP.reach_add _ _ _ _ x_r0 x_c1 0 true); [| vm_compute; repeat split | | vm_compute; reflexivity].
  - apply CP.reach_init.
  - split; [vm_compute; reflexivity|]. intros t [<-|[]]. exact Ua.
  - split; [vm_compute; reflexivity|]. intros t [<-|[]]. exact Ub.
  - split; [vm_compute; reflexivity|]. intros t [<-|[]]. exact Ub.
Qed.

Example x_chain_inv_on : forall h, CP.stored x_q3 h ->
  (forall a1 t1 a2 t2, CP.anc x_q3 h a1 -> CP.anc x_q3 h a2 -> CI.tx_in x_q3 a1 t1 -> CI.tx_in x_q3 a2 t2 ->
     CM.tx_id t1 = CM.tx_id t2 -> a1 = a2).
Proof.
  intros h Sh.
  exact (proj1 (proj2 (accepted_chain_inv_c11_on x_Ht x_S x_Ht_inj_on CE.ex_g CE.ex_gp 7 CE.ex_g_num CE.ex_gp_num x_q3 x_history_on h Sh))).
Qed.

(* included_once_c11 on the instance: xb is included in both sibling blocks; seen from one head, two inclusions with xb's id
   are in one block *)
Example x_included_once : forall h a1 a2, CP.stored x_r3 h -> CP.anc x_r3 h a1 -> CP.anc x_r3 h a2 ->
  CI.tx_in x_r3 a1 x_vb -> CI.tx_in x_r3 a2 x_vb -> a1 = a2.
Proof.
  intros h a1 a2 Sh A1 A2 I1 I2. destruct x_wf as (_ & Wb & _).
  exact (proj1 (included_once_c11 x_H x_H_inj CE.ex_g CE.ex_gp 7 CE.ex_g_num CE.ex_gp_num x_r3 x_history h Sh
                  a1 a2 x_tb x_ob x_tb x_ob A1 A2 Wb Wb eq_refl I1 I2 eq_refl)).
Qed.
Example x_included_twice_on_siblings : CI.tx_in x_r3 (CE.bid 2 1) x_vb /\ CI.tx_in x_r3 (CE.bid 2 2) x_vb.
Proof. split; eexists; eexists; (split; [vm_compute; reflexivity | left; reflexivity]). Qed.

(* view_id_extract with a hash that collides on everything: xa and xb get one id, their signed parts differ, and the theorem
   exhibits the collision *)
Definition x_H0 (_ : bytes) : bytes := [].
Example x_extract_collision :
  CM.tx_id (view x_H0 x_ta x_oa) = CM.tx_id (view x_H0 x_tb x_ob) /\
  collision_in x_H0 (fun a => a = go_signing_tx x_ta \/ a = go_signing_tx x_tb \/
                              a = go_tx_signing_hash x_H0 x_ta ++ x_oa \/ a = go_tx_signing_hash x_H0 x_tb ++ x_ob).
Proof.
  assert (E : CM.tx_id (view x_H0 x_ta x_oa) = CM.tx_id (view x_H0 x_tb x_ob)) by reflexivity.
  split; [exact E|]. destruct x_wf as (Wa & Wb & _).
  destruct (view_id_extract x_H0 x_ta x_tb x_oa x_ob Wa Wb eq_refl E) as [(Sp & _)|C]; [|exact C].
  exfalso. exact (proj1 x_binding Sp).
Qed.
