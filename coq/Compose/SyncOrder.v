(* Compose/SyncOrder.v — composition C19 <-> C04: the order hypotheses of `sync_converges` are discharged by the
   real fork choice of Bft/Model.v.

   C19's sync_converges (Sync/ProofsConverge.v: sync_converges_thm) assumes of the node's abstract `better`:
     (a) asymmetric, (b) negatively transitive, (c) `best` is maximal in the store (best_max), and that block ids
     identify blocks over the whole block type.
   Here:
     1. for ANY quality function q the relation  ord q x y := q y < q x \/ (q x = q y /\ better_than x y)  (the key
        (quality, total score, reversed id) compared lexicographically) is a strict weak order, with no distinct-id
        hypothesis; `beats c r` of Bft/ProofsNode.v IS `ord (qual c r)`, and bft.Select (`select`) IS `ord q` whenever q
        agrees with computeState's quality on the two blocks;
     2. Sync's node is instantiated with Blk := N (block ids, read in a universe tree U that holds every block either
        side knows): bid = identity (so injectivity is trivial), parent/better are read through U;
     3. C04's invariant `inv c nd` (best_is_max) gives (c) for the Sync view of a Bft node whose repository is a
        sub-repository of U — chains, hence qualities, of stored blocks are the same in the sub-repository and in U;
     4. sync_converges_bft_order: sync_converges with (a), (b), (c) and id-injectivity REMOVED, replaced by
        `inv c nd`, `wf_repo U`, inclusion;
     5. a concrete instance (a fork where the local branch has the higher total score and the peer's branch the higher
        QUALITY: the peer's head wins by quality) satisfying every hypothesis. *)
From Coq Require Import List NArith ZArith Bool Lia.
From Coq Require Import ZifyN ZifyNat ZifyBool.
From Verif Require Import Common.Util Bft.Tree Bft.Model Bft.Quorum Bft.ProofsTally Bft.ProofsChain Bft.ProofsNode.
From Verif Require Sync.Model Sync.Proofs Sync.ProofsDownload Sync.ProofsConverge.
Import ListNotations.
Open Scope N_scope.

(* ---------------------------------------------------------------- 1. the order, for any quality function *)

Definition ord (q : blk -> N) (x y : blk) : bool :=
  (q y <? q x) || ((q x =? q y) && better_than x y).

Lemma ord_asym q x y : ord q x y = true -> ord q y x = false.
Proof. unfold ord, better_than. lia. Qed.

Lemma ord_irrefl q x : ord q x x = false.
Proof. unfold ord, better_than. lia. Qed.

Lemma ord_cotrans q x y z : ord q x z = true -> ord q x y = true \/ ord q y z = true.
Proof. unfold ord, better_than. lia. Qed.

Lemma ord_trans q x y z : ord q x y = true -> ord q y z = true -> ord q x z = true.
Proof. unfold ord, better_than. lia. Qed.

(* the indifference classes of the strict weak order: same quality, same total score, same id *)
Lemma ord_incomparable q x y : ord q x y = false -> ord q y x = false ->
  q x = q y /\ b_score x = b_score y /\ b_id x = b_id y.
Proof. unfold ord, better_than. lia. Qed.

Lemma ord_total q x y : b_id x <> b_id y -> ord q x y = true \/ ord q y x = true.
Proof. unfold ord, better_than. lia. Qed.

(* ProofsNode's total order on stored blocks is this order at the quality from the definitions *)
Lemma beats_is_ord c r x y : beats c r x y = ord (qual c r) x y.
Proof. reflexivity. Qed.

(* bft.Select: `if negb (qn =? qb) then qb <? qn else better_than b best` is `ord q b best` *)
Lemma select_is_ord c r e best b q :
  q b = s_q (compute_state c r (e_qs e) b) -> q best = s_q (compute_state c r (e_qs e) best) ->
  select c r e best b = ord q b best.
Proof.
  intros Hb Hbest. unfold select, ord. rewrite Hb, Hbest.
  generalize (s_q (compute_state c r (e_qs e) b)) as qn. generalize (s_q (compute_state c r (e_qs e) best)) as qb.
  intros qb qn. destruct (qn =? qb) eqn:E; cbn [negb].
  - apply N.eqb_eq in E. subst qn. rewrite N.ltb_irrefl. reflexivity.
  - destruct (qb <? qn); reflexivity.
Qed.

Theorem beats_strict_weak_order c r :
  (forall x y, beats c r x y = true -> beats c r y x = false) /\
  (forall x y z, beats c r x z = true -> beats c r x y = true \/ beats c r y z = true) /\
  (forall x y, beats c r x y = false -> beats c r y x = false -> b_id x = b_id y).
Proof.
  split; [|split].
  - intros x y. apply ord_asym.
  - intros x y z. apply ord_cotrans.
  - intros x y H1 H2. exact (proj2 (proj2 (ord_incomparable _ x y H1 H2))).
Qed.

(* ---------------------------------------------------------------- 3a. chains in a sub-repository *)

Lemma chain_head_id r : forall id x t, chain_of r id = x :: t -> b_id x = id /\ In x r.
Proof.
  induction r as [|b r IH]; intros id x t H; [discriminate|]. cbn [chain_of] in H.
  destruct (b_id b =? id) eqn:E.
  - inversion H; subst. apply N.eqb_eq in E. split; [exact E | left; reflexivity].
  - destruct (IH _ _ _ H) as [A B]. split; [exact A | right; exact B].
Qed.

(* r1 is a well-formed sub-repository of the well-formed r2 (no order relation between the two lists is assumed):
   the chain of a block known to r1 is the same list in r2 *)
Lemma chain_of_sub r1 r2 : wf_repo r1 -> wf_repo r2 -> (forall x, In x r1 -> In x r2) ->
  forall ch id, ch <> [] -> chain_of r1 id = ch -> chain_of r2 id = ch.
Proof.
  intros W1 W2 Hsub. induction ch as [|x t IH]; intros id Hne H; [contradiction Hne; reflexivity|].
  destruct (chain_head_id r1 _ _ _ H) as [Hid Hin1]. pose proof (Hsub x Hin1) as Hin2.
  pose proof (chain_of_stored r1 x W1 Hin1) as F1. pose proof (chain_of_stored r2 x W2 Hin2) as F2. rewrite Hid in F1, F2.
  destruct (chain_of_known r1 W1 _ _ F1) as [t1 [Ht1 Hg1]]. destruct (chain_of_known r2 W2 _ _ F2) as [t2 [Ht2 Hg2]].
  rewrite H in Ht1. inversion Ht1; subst t1. rewrite Ht2. f_equal.
  destruct t as [|p t'].
  - cbn in Hg1. destruct t2 as [|p2 t2']; [reflexivity|]. cbn in Hg2. lia.
  - pose proof Hg1 as Hg1'. cbn in Hg1'. destruct Hg1' as [Hpar [Hn _]].
    assert (Hs1 : chain_of r1 (b_id p) = p :: t') by (apply (chain_suffix r1 W1 id [x] p t'); exact H).
    assert (Hs2 : chain_of r2 (b_id p) = p :: t') by (apply IH; [discriminate | exact Hs1]).
    destruct t2 as [|p2 t2']; [cbn in Hg2; lia|].
    pose proof Hg2 as Hg2'. cbn in Hg2'. destruct Hg2' as [Hpar2 _].
    assert (Hs2' : chain_of r2 (b_id p2) = p2 :: t2') by (apply (chain_suffix r2 W2 id [x] p2 t2'); exact Ht2).
    rewrite <- Hpar2, Hpar, Hs2 in Hs2'. symmetry. exact Hs2'.
Qed.

Lemma chain_of_sub_stored r1 r2 x : wf_repo r1 -> wf_repo r2 -> (forall y, In y r1 -> In y r2) -> In x r1 ->
  chain_of r2 (b_id x) = chain_of r1 (b_id x).
Proof.
  intros W1 W2 Hsub Hin. apply (chain_of_sub r1 r2 W1 W2 Hsub); [|reflexivity].
  destruct (chain_of_known r1 W1 _ _ (chain_of_stored r1 x W1 Hin)) as [t [Ht _]]. rewrite Ht. discriminate.
Qed.

(* qualities (from the definitions) of stored blocks do not change when the repository grows *)
Lemma qual_sub c r1 r2 x : wf_repo r1 -> wf_repo r2 -> (forall y, In y r1 -> In y r2) -> In x r1 ->
  qual c r2 x = qual c r1 x.
Proof. intros W1 W2 Hsub Hin. unfold qual. rewrite (chain_of_sub_stored r1 r2 x W1 W2 Hsub Hin). reflexivity. Qed.

Lemma beats_sub c r1 r2 x y : wf_repo r1 -> wf_repo r2 -> (forall z, In z r1 -> In z r2) -> In x r1 -> In y r1 ->
  beats c r2 x y = beats c r1 x y.
Proof.
  intros W1 W2 Hsub Hx Hy. unfold beats. rewrite (qual_sub c r1 r2 x W1 W2 Hsub Hx), (qual_sub c r1 r2 y W1 W2 Hsub Hy). reflexivity.
Qed.

(* ---------------------------------------------------------------- 2. Sync's node over block ids, read in a universe tree *)

Definition blk_of (U : repo) (i : N) : blk := match find_blk U i with Some b => b | None => dummy_blk end.
Definition sbid (i : N) : N := i.
Definition sparent (U : repo) (i : N) : N := b_parent (blk_of U i).
Definition sbetter (c : cfg) (U : repo) (i j : N) : bool := beats c U (blk_of U i) (blk_of U j).
(* the Sync view of a Bft node: the ids of its repository, its best id *)
Definition sync_node (nd : Bft.Model.node) : Sync.Model.node N := Sync.Model.mkNode N (map b_id (n_repo nd)) (n_best nd).

Lemma blk_of_stored U x : wf_repo U -> In x U -> blk_of U (b_id x) = x.
Proof. intros W Hin. unfold blk_of. rewrite (chain_of_stored U x W Hin). reflexivity. Qed.

Lemma sbid_inj : forall x y : N, sbid x = sbid y -> x = y.
Proof. intros x y H. exact H. Qed.

Lemma sbetter_asym c U : forall x y, sbetter c U x y = true -> sbetter c U y x = false.
Proof. intros x y. unfold sbetter. rewrite !beats_is_ord. apply ord_asym. Qed.

Lemma sbetter_cotrans c U : forall x y z, sbetter c U x z = true -> sbetter c U x y = true \/ sbetter c U y z = true.
Proof. intros x y z. unfold sbetter. rewrite !beats_is_ord. apply ord_cotrans. Qed.

(* the order Sync's import runs IS bft.Select of the node, on a block about to be imported: Select is evaluated on the
   repository BEFORE AddBlock with the engine's persisted quality records; under the node invariant it is the universe
   order on ids *)
Theorem select_is_sbetter c U nd b p : 0 < c_L c -> inv c nd -> wf_repo U ->
  (forall x, In x (b :: n_repo nd) -> In x U) ->
  known (n_repo nd) (b_id b) = false -> find_blk (n_repo nd) (b_parent b) = Some p -> b_num b = b_num p + 1 ->
  select c (n_repo nd) (n_eng nd) (best_blk nd) b = sbetter c U (b_id b) (n_best nd).
Proof.
  intros HL I WU Hsub Hfresh Hp Hn.
  pose proof (inv_wf c nd I) as Hwf. pose proof (inv_qs c nd I) as Hqs. destruct (inv_best c nd I) as [bb Hbest].
  set (r := n_repo nd) in *.
  assert (Hwf' : wf_repo (b :: r)).
  { cbn. split; [exact Hwf|]. split; [exact Hfresh|]. destruct r as [|r0 rr]; [discriminate|]. exists p. split; assumption. }
  destruct (find_blk_id _ _ _ Hbest) as [Hbid Hbin].
  assert (Hbb : best_blk nd = bb) by (unfold best_blk; fold r; rewrite Hbest; reflexivity).
  assert (Q1 : s_q (compute_state c r (e_qs (n_eng nd)) b) = qual c (b :: r) b).
  { rewrite (compute_state_pure_lemma c HL r _ b p Hwf Hqs Hp Hn). unfold qual. rewrite chain_of_head. reflexivity. }
  assert (Q2 : s_q (compute_state c r (e_qs (n_eng nd)) bb) = qual c (b :: r) bb).
  { rewrite (compute_state_stored c HL r _ bb Hwf Hqs Hbin). symmetry.
    apply (qual_sub c r (b :: r) bb Hwf Hwf'); [intros y Hy; right; exact Hy | exact Hbin]. }
  rewrite Hbb. rewrite (select_is_ord c r (n_eng nd) bb b (qual c (b :: r)) (eq_sym Q1) (eq_sym Q2)).
  rewrite <- beats_is_ord. unfold sbetter.
  rewrite (blk_of_stored U b WU (Hsub b (or_introl eq_refl))).
  rewrite <- Hbid, (blk_of_stored U bb WU (Hsub bb (or_intror Hbin))).
  symmetry. apply (beats_sub c (b :: r) U b bb Hwf' WU Hsub); [left; reflexivity | right; exact Hbin].
Qed.

(* ---------------------------------------------------------------- 3. inv (C04: best_is_max) gives best_max (C19) *)

Theorem inv_gives_best_max c U nd : inv c nd -> wf_repo U -> (forall x, In x (n_repo nd) -> In x U) ->
  Sync.ProofsDownload.best_max N (sbetter c U) (sync_node nd).
Proof.
  intros I WU Hsub i Hi. cbn [sync_node Sync.Model.store Sync.Model.best] in *.
  apply in_map_iff in Hi. destruct Hi as [x [<- Hx]].
  pose proof (inv_wf c nd I) as Hwf. destruct (inv_best c nd I) as [bb Hbest].
  destruct (find_blk_id _ _ _ Hbest) as [Hbid Hbin].
  assert (Hbb : best_blk nd = bb) by (unfold best_blk; rewrite Hbest; reflexivity).
  unfold sbetter. rewrite (blk_of_stored U x WU (Hsub x Hx)).
  rewrite <- Hbid, (blk_of_stored U bb WU (Hsub bb Hbin)).
  destruct (N.eq_dec (b_id x) (n_best nd)) as [E|E].
  - assert (x = bb).
    { pose proof (chain_of_stored _ x Hwf Hx) as F. rewrite E, Hbest in F. inversion F. reflexivity. }
    subst x. rewrite beats_is_ord. apply ord_irrefl.
  - pose proof (inv_max c nd I x Hx E) as Hm. rewrite Hbb in Hm.
    rewrite <- (beats_sub c (n_repo nd) U bb x Hwf WU Hsub Hbin Hx) in Hm.
    rewrite beats_is_ord in *. apply ord_asym. exact Hm.
Qed.

(* ---------------------------------------------------------------- 4. sync_converges on the real order *)

(* sync_converges_thm at Blk := N (ids in the universe tree U), better := Bft's fork choice, node := the Sync view of a
   Bft node: the three order hypotheses and id-injectivity are gone; the other premises are those of sync_converges *)
Theorem sync_converges_bft_order (c : cfg) (U : repo) (nd : Bft.Model.node) (num : N -> N) (valid : N -> bool)
        (lc rc : list N) (cut : N -> nat) (h : N) (fuel fuel2 : nat) :
  inv c nd -> wf_repo U -> (forall x, In x (n_repo nd) -> In x U) ->
  Sync.ProofsConverge.chain_linked N sbid (sparent U) lc -> Sync.ProofsConverge.chain_linked N sbid (sparent U) rc ->
  (forall b, In b lc -> In b (Sync.Model.store N (sync_node nd))) ->
  Sync.ProofsConverge.same_at N sbid lc rc 0 = true ->
  N.of_nat (length lc - 1) < 2147483648 ->
  (forall n b, nth_error rc n = Some b -> num b = N.of_nat n) ->
  N.of_nat (length rc) < 4294967296 ->
  (forall b, In b rc -> valid b = true) ->
  (forall n, (1 <= cut n <= Sync.Model.max_batch)%nat) ->
  nth_error rc (length rc - 1) = Some h ->
  sbetter c U h (Sync.Model.best N (sync_node nd)) = true ->
  (forall b, In b rc -> b <> h -> sbetter c U h b = true) ->
  (Sync.Model.ancestor_fuel (N.of_nat (length lc - 1)) <= fuel)%nat -> (length rc < fuel2)%nat ->
  exists a l st',
    Sync.Model.find_common_ancestor (fun n => Some (Sync.ProofsConverge.same_at N sbid lc rc n))
      (N.of_nat (length lc - 1)) fuel = Sync.Model.Anc a /\
    Sync.Proofs.is_last (Sync.ProofsConverge.same_at N sbid lc rc) (N.of_nat (length lc - 1)) a /\
    Sync.Model.download_stream N N (fun b => Some (num b)) (fun b => Some b)
      (Sync.ProofsDownload.honest_peer N rc cut) (a + 1) fuel2 = (l, Sync.Model.DlDone) /\
    Sync.Model.import_all N sbid (sparent U) valid (sbetter c U) (sync_node nd) l = (st', true) /\
    Sync.Model.best N st' = h.
Proof.
  intros I WU Hsub Hlc Hrc Hknown Hgen Hhead Hnum Hshort Hvalid Hcut Hlast Hpref Htop Hf Hf2.
  exact (Sync.ProofsConverge.sync_converges_thm N sbid (sparent U) num valid (sbetter c U)
           (sbetter_asym c U) (sbetter_cotrans c U) sbid_inj lc rc Hlc Hrc (sync_node nd)
           (inv_gives_best_max c U nd I WU Hsub) Hknown Hgen Hhead Hnum Hshort Hvalid cut Hcut h Hlast Hpref Htop
           fuel fuel2 Hf Hf2).
Qed.

(* ---------------------------------------------------------------- 5. non-vacuity *)

(* PoA, epoch length 4, 4 proposers: an epoch is justified by more than 4*2/3 = 2 distinct signers.
   common prefix  g - m1 - m2 - m3            (signers 2,3,4: epoch 0 justified, quality 1)
   local branch   m3 - l4 - l5                (one signer, not COM: quality stays 1; total scores 100, 200)
   peer's branch  m3 - m4 - m5 - m6 - m7      (signers 1,2,3,4: justified at m6, quality 2; total scores 4..7) *)
Definition ex_cfg : cfg := mkCfg 4 4 false 0 [].
Definition ex_g : blk := mkB (mkid 0 1) 0 0 false 0.
Definition ex_m (k : N) : blk := mkB (mkid k 1) (mkid (k - 1) 1) (k mod 4 + 1) true k.
Definition ex_l4 : blk := mkB (mkid 4 2) (mkid 3 1) 1 false 100.
Definition ex_l5 : blk := mkB (mkid 5 2) (mkid 4 2) 1 false 200.
Definition ex_U : repo := [ex_m 7; ex_m 6; ex_m 5; ex_m 4; ex_l5; ex_l4; ex_m 3; ex_m 2; ex_m 1; ex_g].
Definition ex_nd : Bft.Model.node :=
  ProofsNode.import_all ex_cfg true (init_node ex_g 1) [ex_m 1; ex_m 2; ex_m 3; ex_l4; ex_l5].
Definition ex_lc : list N := map b_id [ex_g; ex_m 1; ex_m 2; ex_m 3; ex_l4; ex_l5].
Definition ex_rc : list N := map b_id [ex_g; ex_m 1; ex_m 2; ex_m 3; ex_m 4; ex_m 5; ex_m 6; ex_m 7].

Lemma valid_child_by_id r b : idnum (b_id b) = idnum (b_parent b) + 1 -> valid_child r b.
Proof. intros H p Hp. destruct (find_blk_id _ _ _ Hp) as [Hid _]. unfold b_num. rewrite Hid. exact H. Qed.

Example ex_inv : inv ex_cfg ex_nd.
Proof.
  unfold ex_nd. apply import_all_inv; [reflexivity | apply init_inv; reflexivity |].
  intros nd' b _ Hin. apply valid_child_by_id.
  cbn [In] in Hin. destruct Hin as [<-|[<-|[<-|[<-|[<-|[]]]]]]; vm_compute; reflexivity.
Qed.

Example ex_wf : wf_repo ex_U.
Proof.
  unfold ex_U. cbn [wf_repo].
  repeat (split; [|split; [vm_compute; reflexivity | eexists; split; vm_compute; reflexivity]]).
  exact Logic.I.
Qed.

Example ex_incl : forall x, In x (n_repo ex_nd) -> In x ex_U.
Proof.
  assert (E : n_repo ex_nd = [ex_l5; ex_l4; ex_m 3; ex_m 2; ex_m 1; ex_g]) by (vm_compute; reflexivity).
  rewrite E. unfold ex_U. intros x Hx. cbn [In] in *. tauto.
Qed.

(* the node's best is the local head l5 (quality 1, total score 200); the peer's head m7 has quality 2, total score 7:
   it is preferred by QUALITY, against the total score *)
Example ex_wins_by_quality :
  n_best ex_nd = b_id ex_l5 /\
  qual ex_cfg ex_U ex_l5 = 1 /\ qual ex_cfg ex_U (ex_m 7) = 2 /\ b_score (ex_m 7) < b_score ex_l5 /\
  sbetter ex_cfg ex_U (b_id (ex_m 7)) (n_best ex_nd) = true.
Proof. vm_compute. repeat split; reflexivity. Qed.

(* inv_gives_best_max: its hypotheses hold on the instance *)
Example inv_gives_best_max_example :
  Sync.ProofsDownload.best_max N (sbetter ex_cfg ex_U) (sync_node ex_nd).
Proof. exact (inv_gives_best_max ex_cfg ex_U ex_nd ex_inv ex_wf ex_incl). Qed.

(* select_is_sbetter: the node of the example is about to import m4 (parent m3) *)
Example select_is_sbetter_example :
  select ex_cfg (n_repo ex_nd) (n_eng ex_nd) (best_blk ex_nd) (ex_m 4) = sbetter ex_cfg ex_U (b_id (ex_m 4)) (n_best ex_nd).
Proof.
  apply (select_is_sbetter ex_cfg ex_U ex_nd (ex_m 4) (ex_m 3)); try (vm_compute; reflexivity).
  - exact ex_inv.
  - exact ex_wf.
  - intros x [<-|Hx]; [unfold ex_U; cbn [In]; tauto | exact (ex_incl x Hx)].
Qed.

(* sync_converges_bft_order on the instance: every hypothesis is discharged; the search finds height 3, the download
   delivers m4..m7, the import (Bft's order) ends with the peer's head m7 as best *)
Example sync_converges_bft_order_example :
  exists a l st',
    Sync.Model.find_common_ancestor (fun n => Some (Sync.ProofsConverge.same_at N sbid ex_lc ex_rc n)) 5 20 = Sync.Model.Anc a /\
    a = 3 /\ l = map b_id [ex_m 4; ex_m 5; ex_m 6; ex_m 7] /\
    Sync.Model.import_all N sbid (sparent ex_U) (fun _ => true) (sbetter ex_cfg ex_U) (sync_node ex_nd) l = (st', true) /\
    Sync.Model.best N st' = b_id (ex_m 7).
Proof.
  destruct (sync_converges_bft_order ex_cfg ex_U ex_nd idnum (fun _ => true) ex_lc ex_rc (fun _ => 1%nat)
              (b_id (ex_m 7)) 20 20) as [a [l [st' [H1 [H2 [H3 [H4 H5]]]]]]].
  - exact ex_inv.
  - exact ex_wf.
  - exact ex_incl.
  - intros n x y Hy Hx.
    repeat (destruct n as [|n]; cbn in Hy, Hx; try discriminate;
            try (inversion Hy; inversion Hx; subst; vm_compute; reflexivity)).
  - intros n x y Hy Hx.
    repeat (destruct n as [|n]; cbn in Hy, Hx; try discriminate;
            try (inversion Hy; inversion Hx; subst; vm_compute; reflexivity)).
  - assert (E : Sync.Model.store N (sync_node ex_nd) = map b_id [ex_l5; ex_l4; ex_m 3; ex_m 2; ex_m 1; ex_g])
      by (vm_compute; reflexivity).
    rewrite E. intros b Hb. unfold ex_lc in Hb. cbn [map In] in *. tauto.
  - vm_compute. reflexivity.
  - vm_compute. reflexivity.
  - intros n b Hb.
    repeat (destruct n as [|n]; cbn in Hb; try discriminate; try (inversion Hb; subst; vm_compute; reflexivity)).
  - vm_compute. reflexivity.
  - reflexivity.
  - intros n. unfold Sync.Model.max_batch. lia.
  - reflexivity.
  - vm_compute. reflexivity.
  - intros b Hb Hne. unfold ex_rc in Hb. cbn [map In] in Hb.
    destruct Hb as [<-|[<-|[<-|[<-|[<-|[<-|[<-|[<-|[]]]]]]]]]; try (vm_compute; reflexivity).
    contradiction Hne. reflexivity.
  - vm_compute. lia.
  - vm_compute. lia.
  - exists a, l, st'.
    assert (Ea : a = 3).
    { vm_compute in H1. inversion H1. reflexivity. }
    subst a. vm_compute in H3. inversion H3. subst l. repeat split; assumption.
Qed.
