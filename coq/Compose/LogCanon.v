(* Compose/LogCanon.v — C15 <-> C14: the log tables stated over ancestry, with no reference to Exclude or to paths.

   C15 (LogDB/ProofsCanon.v, ProofsRows.v; Properties/C15.v logdb_tracks_canonical / logdb_is_canonical_logs) is stated
   over histories whose best-changing step is `write_logs`, which is DEFINED through Chain.Model.exclude (both ways), and
   its conclusion speaks of `is_path` lists.  C14 (Chain/ProofsWalk.v exclude_spec; Properties/C14.v
   exclude_is_difference) characterises Exclude(c, o) = Ok l by: l has exactly the members anc r c a /\ ~ anc r o a, and is
   ascending in height.  LogDB/ProofsCanon.v uses that fact inside a proof (through Chain/ProofsPath.v
   exclude_is_prefix); this file composes the two at the level of STATEMENTS:

   * `ascending_enum P l` (exactly the members P, strictly ascending heights) determines l (`ascending_enum_unique`, from
     Chain/ProofsPath.v asc_unique), so C14's characterisation is an equation: `exclude_is_enum`
     (exclude r c o = Ok l <-> l is THE ascending enumeration of the difference), `exclude_gen_enum` (o := genesis: the
     ancestors other than genesis).
   * `write_logs_spec r db nb old_best db'`: the step phrased with anc / num_of / block_events only — the surviving rows
     (`kept`: all rows if no block of old_best's chain is missing from the new block's chain, else the rows whose key
     lies below the LOWEST such block = what Truncate leaves), followed by the rows of the blocks of the parent's chain
     that are not on old_best's chain, in ascending height order, followed by the new block's rows.
     `write_logs_meets_spec` (write_logs = Some db' -> spec; for ANY tables whose keys lie at or below old_best's height),
     `write_logs_spec_functional` (the spec determines db'), `write_logs_iff_spec` (where write_logs is defined it is
     exactly the spec), `write_logs_fails_iff` (it is undefined exactly where a sequence range check fails: Truncate
     height above 2^28-1, or a block of the new branch / the new block itself is not `writable`; `fits_writable`: number,
     receipt count and per-block log counts within 28 / 15 / 20 bits suffice).  Exclude is replaced through
     exclude_spec; nothing else about it is used.
   * C15 over ancestry (section CanonAnc): after every import history the tables are the rows of best's ancestors in
     ascending height order (`logdb_is_ancestor_logs`, `logdb_is_ancestor_logs_all`, existence of the enumeration
     `ancestor_enum_exists`), the membership form `logdb_rows_membership`, the order facts `logdb_rows_ordered`, the
     genesis-rows variant `logdb_after_genesis_rows_is_ancestor_logs`; the best-changing step of a history meets the
     spec (`imported_step_meets_spec`) and on such tables the kept rows are exactly the rows whose block is not on the
     old branch (`kept_on_canonical`). *)
From Coq Require Import List NArith ZArith Bool Lia ZifyN ZifyNat ZifyBool Sorted.
From Verif Require Import Chain.Model Chain.Proofs Chain.ProofsWalk Chain.ProofsSys Chain.ProofsPath Chain.Examples
  LogDB.Model LogDB.Proofs LogDB.ProofsCanon LogDB.ProofsRows LogDB.ProofsGenesis LogDB.ProofsSync LogDB.ProofsVerify.
Import ListNotations.
Open Scope N_scope.
Ltac Zify.zify_post_hook ::= Z.div_mod_to_equations.

(* ---------------------------------------------------------------- ascending enumerations *)
(* l is THE list of the blocks satisfying P, in strictly ascending height order *)
Definition ascending_enum (P : N -> Prop) (l : list N) : Prop := (forall a, In a l <-> P a) /\ asc l.

Lemma ascending_enum_unique P l1 l2 : ascending_enum P l1 -> ascending_enum P l2 -> l1 = l2.
Proof.
  intros [M1 A1] [M2 A2]. apply asc_unique; [exact A1 | exact A2|].
  intros a. rewrite M1, M2. tauto.
Qed.

(* the blocks on the chain of c that are not on the chain of o (C14's reading of Chain.Exclude) *)
Definition chain_diff (r : repo) (c o a : N) : Prop := anc r c a /\ ~ anc r o a.

(* C14 exclude_is_difference, turned into an equation: Exclude(c, o) IS the ascending enumeration of the difference *)
Lemma exclude_is_enum g gp r c o l : wf g gp r -> stored r c -> stored r o ->
  (exclude r c o = Ok l <-> ascending_enum (chain_diff r c o) l).
Proof.
  intros W Sc So. destruct (exclude_spec g gp r W c o Sc So) as [l0 [E0 [M0 A0]]]. split.
  - intros E. rewrite E in E0. injection E0 as <-. split; [exact M0 | exact A0].
  - intros H. rewrite E0. f_equal. apply (ascending_enum_unique (chain_diff r c o)); [split; assumption | exact H].
Qed.

Lemma asc_cons_inv x l : asc (x :: l) -> asc l /\ forall a, In a l -> num_of x < num_of a.
Proof. unfold asc. intros A. inversion A as [|x' l' Al Fl]; subst x' l'. rewrite Forall_forall in Fl. split; assumption. Qed.

Lemma ascending_enum_ext (P Q : N -> Prop) l : (forall a, P a <-> Q a) -> ascending_enum P l -> ascending_enum Q l.
Proof. intros H [M A]. split; [|exact A]. intros a. rewrite M. apply H. Qed.

(* against genesis: the ancestors of h other than genesis *)
Lemma exclude_gen_enum g gp r h l : wf g gp r -> stored r h ->
  (exclude r h g = Ok l <-> ascending_enum (fun a => anc r h a /\ a <> g) l).
Proof.
  intros W Sh. rewrite (exclude_is_enum g gp r h g l W Sh (ex_intro _ _ (w_gsum _ _ _ W))).
  assert (E : forall a, chain_diff r h g a <-> anc r h a /\ a <> g).
  { intros a. unfold chain_diff. split; intros [Ha Hn]; (split; [exact Ha|]).
    - intros ->. apply Hn. eapply anc_refl. apply (w_gsum _ _ _ W).
    - intros Hg. apply Hn. apply (anc_gen_inv g gp r W a Hg). }
  split; apply ascending_enum_ext; [exact E | intros a; symmetry; apply E].
Qed.

Lemma anc_dec g gp r h a : wf g gp r -> stored r h -> anc r h a \/ ~ anc r h a.
Proof.
  intros W Sh. destruct (has_block_spec g gp r W h a Sh) as [v [_ Hv]]. destruct v.
  - left. apply Hv. reflexivity.
  - right. intros H. apply Hv in H. discriminate.
Qed.

(* ---------------------------------------------------------------- rows of a list of blocks *)
(* the rows the receipts of the blocks stored under the ids of l prescribe, concatenated in the order of l *)
Definition rows_ev (r : repo) (l : list N) : list evrow := concat (map (blk_events r) l).
Definition rows_tr (r : repo) (l : list N) : list trrow := concat (map (blk_transfers r) l).

Lemma rows_ev_cons r a l : rows_ev r (a :: l) = blk_events r a ++ rows_ev r l.
Proof. reflexivity. Qed.
Lemma rows_tr_cons r a l : rows_tr r (a :: l) = blk_transfers r a ++ rows_tr r l.
Proof. reflexivity. Qed.
Lemma rows_ev_app r l1 l2 : rows_ev r (l1 ++ l2) = rows_ev r l1 ++ rows_ev r l2.
Proof. unfold rows_ev. rewrite map_app, concat_app. reflexivity. Qed.
Lemma rows_tr_app r l1 l2 : rows_tr r (l1 ++ l2) = rows_tr r l1 ++ rows_tr r l2.
Proof. unfold rows_tr. rewrite map_app, concat_app. reflexivity. Qed.

Lemma rows_ev_single r a : rows_ev r [a] = blk_events r a.
Proof. unfold rows_ev. cbn [map concat]. apply app_nil_r. Qed.
Lemma rows_tr_single r a : rows_tr r [a] = blk_transfers r a.
Proof. unfold rows_tr. cbn [map concat]. apply app_nil_r. Qed.

Lemma chain_events_rows r st : chain_events r st = rows_ev r (rev st).
Proof.
  induction st as [|a st IH]; [reflexivity|]. cbn [chain_events rev]. rewrite rows_ev_app, rows_ev_single, IH. reflexivity.
Qed.
Lemma chain_transfers_rows r st : chain_transfers r st = rows_tr r (rev st).
Proof.
  induction st as [|a st IH]; [reflexivity|]. cbn [chain_transfers rev]. rewrite rows_tr_app, rows_tr_single, IH. reflexivity.
Qed.

Lemma below_mono hi hi' d : hi <= hi' -> below hi d -> below hi' d.
Proof. intros H [B1 B2]. split; intros x Hx; [specialize (B1 x Hx) | specialize (B2 x Hx)]; lia. Qed.

Section WriteIds.
  Variable r : repo.
  Hypothesis WB : wf_body r.

  (* Write of blocks of ascending heights above every stored key appends their rows *)
  Lemma write_ids_appends l : forall n d d', asc l -> (forall a, In a l -> n <= num_of a) -> below (n * two35) d ->
    write_ids r l d = Some d' ->
    db_events d' = db_events d ++ rows_ev r l /\ db_transfers d' = db_transfers d ++ rows_tr r l /\
    (forall m, n <= m -> (forall a, In a l -> num_of a < m) -> below (m * two35) d').
  Proof.
    induction l as [|x l IH]; intros n d d' A Hn B Hw; cbn [write_ids] in Hw.
    - injection Hw as <-. unfold rows_ev, rows_tr. cbn [map concat]. rewrite !app_nil_r. split; [reflexivity|]. split; [reflexivity|].
      intros m Hm _. eapply below_mono; [|exact B]. unfold two35. lia.
    - destruct (get_block r x) as [[s bx]|] eqn:Eb; [|discriminate].
      destruct (write_block bx d) as [d1|] eqn:Ew; [|discriminate].
      pose proof (get_block_id_eq r WB _ _ _ Eb) as Eid.
      pose proof (Hn x (or_introl eq_refl)) as Hx.
      assert (Bx : below (num_of x * two35) d) by (eapply below_mono; [|exact B]; unfold two35; lia).
      destruct (write_block_appends bx d d1 Ew) as [A1 A2]; [rewrite Eid; exact Bx|].
      pose proof (write_block_ext _ _ _ Ew) as X. rewrite Eid in X.
      assert (B1 : below ((num_of x + 1) * two35) d1) by (eapply ext_below; [exact X | lia |]; eapply below_mono; [|exact Bx]; unfold two35; lia).
      destruct (asc_cons_inv _ _ A) as [Al Fl].
      destruct (IH (num_of x + 1) d1 d' Al) as [I1 [I2 I3]]; [intros a Ha; specialize (Fl a Ha); lia | exact B1 | exact Hw |].
      rewrite rows_ev_cons, rows_tr_cons. unfold blk_events, blk_transfers. rewrite Eb, I1, I2, A1, A2, <- !app_assoc.
      split; [reflexivity|]. split; [reflexivity|]. intros m Hm Hlt. apply I3; [|intros a Ha; apply Hlt; right; exact Ha].
      pose proof (Hlt x (or_introl eq_refl)). lia.
  Qed.
End WriteIds.

(* ---------------------------------------------------------------- the log-writing step, over ancestry *)
(* old_best's blocks that the new block's chain does not have, and the parent's blocks that old_best's chain does not have *)
Definition old_branch (r : repo) (ob : N) (nb : blk) (a : N) : Prop := anc r ob a /\ ~ anc r (b_parent nb) a.
Definition new_branch (r : repo) (ob : N) (nb : blk) (a : N) : Prop := anc r (b_parent nb) a /\ ~ anc r ob a.
Definition lowest (P : N -> Prop) (f : N) : Prop := P f /\ forall a, P a -> num_of f <= num_of a.

(* the rows whose key lies below block n: what Truncate(n) leaves *)
Definition rows_below_block (n : N) (db : logdb) : logdb :=
  mkDB (filter (fun x => er_seq x <? n * two35) (db_events db)) (filter (fun x => tr_seq x <? n * two35) (db_transfers db)).

(* what survives of the tables: everything if old_best is on the new block's chain, else the rows below the lowest
   block of the old branch *)
Definition kept (r : repo) (ob : N) (nb : blk) (db dk : logdb) : Prop :=
  ((forall a, ~ old_branch r ob nb a) /\ dk = db) \/
  (exists f, lowest (old_branch r ob nb) f /\ dk = rows_below_block (num_of f) db).

Definition write_logs_spec (r : repo) (db : logdb) (nb : blk) (ob : N) (db' : logdb) : Prop :=
  exists dk ln,
    kept r ob nb db dk /\ ascending_enum (new_branch r ob nb) ln /\
    db_events db' = db_events dk ++ rows_ev r ln ++ block_events nb /\
    db_transfers db' = db_transfers dk ++ rows_tr r ln ++ block_transfers nb.

Lemma truncate_rows_below n db d1 : truncate n db = Some d1 -> d1 = rows_below_block n db.
Proof.
  unfold truncate. destruct (seq_of n 0 0) as [s|] eqn:E; [|discriminate]. intros H. injection H as <-.
  apply seq_of_inv in E. destruct E as [_ ->]. unfold rows_below_block, two35.
  replace (n * 34359738368 + 0 * 1048576 + 0) with (n * 34359738368) by lia. reflexivity.
Qed.

Lemma rows_below_block_below n db : below (n * two35) (rows_below_block n db).
Proof.
  split; intros x Hx; cbn [rows_below_block db_events db_transfers] in Hx; apply filter_In in Hx; destruct Hx as [_ Hx];
    apply N.ltb_lt in Hx; exact Hx.
Qed.

Section Step.
  Variables (g gp : N) (r : repo).
  Hypothesis W : wf g gp r.
  Hypothesis WB : wf_body r.
  Variables (ob : N) (nb : blk).
  Hypothesis So : stored r ob.
  Hypothesis Sp : stored r (b_parent nb).
  Let p := b_parent nb.

  (* every block of the new branch lies at or above the lowest block of the old branch *)
  Lemma new_above_lowest_old f a : lowest (old_branch r ob nb) f -> new_branch r ob nb a -> num_of f <= num_of a.
  Proof.
    intros [[Of Nf] Lf] [Pa Na]. destruct (N.le_gt_cases (num_of f) (num_of a)) as [|Hlt]; [assumption|]. exfalso.
    pose proof (anc_height g gp r W _ _ Of) as Hf.
    destruct (anc_total g gp r W ob So (num_of a) ltac:(lia)) as [a' [Oa' Ea']].
    destruct (anc_dec g gp r p a' W Sp) as [Pa'|Na'].
    - apply Na. rewrite (anc_unique_at g gp r W p a a' Pa Pa' (eq_sym Ea')). exact Oa'.
    - pose proof (Lf a' (conj Oa' Na')). lia.
  Qed.

  (* ... and that block is at most one above the parent of the new block *)
  Lemma lowest_old_le f : lowest (old_branch r ob nb) f -> num_of f <= num_of p + 1.
  Proof.
    intros [[Of Nf] Lf]. destruct (N.le_gt_cases (num_of f) (num_of p + 1)) as [|Hlt]; [assumption|]. exfalso.
    pose proof (anc_height g gp r W _ _ Of) as Hf.
    destruct (anc_total g gp r W ob So (num_of p + 1) ltac:(lia)) as [a' [Oa' Ea']].
    destruct (anc_dec g gp r p a' W Sp) as [Pa'|Na'].
    - pose proof (anc_height g gp r W _ _ Pa'). lia.
    - pose proof (Lf a' (conj Oa' Na')). lia.
  Qed.

  (* with no old branch, old_best is on the parent's chain and the new branch lies above it *)
  Lemma no_old_branch a : (forall x, ~ old_branch r ob nb x) -> new_branch r ob nb a -> num_of ob + 1 <= num_of a.
  Proof.
    intros Hno [Pa Na]. destruct So as [so Hso].
    assert (Po : anc r p ob).
    { destruct (anc_dec g gp r p ob W Sp) as [H|H]; [exact H|]. exfalso. apply (Hno ob). split; [eapply anc_refl; eauto | exact H]. }
    destruct (N.le_gt_cases (num_of ob + 1) (num_of a)) as [|Hlt]; [assumption|]. exfalso.
    apply Na. apply (anc_linear g gp r W p ob a Po Pa). lia.
  Qed.

  Theorem write_logs_meets_spec db db' :
    num_of (b_id nb) = num_of (b_parent nb) + 1 -> below ((num_of ob + 1) * two35) db ->
    write_logs r db nb ob = Some db' -> write_logs_spec r db nb ob db'.
  Proof.
    intros Hnum B Hw. unfold write_logs in Hw.
    destruct (exclude_spec g gp r W ob (b_parent nb) So Sp) as [lo [Elo Hlo]].
    destruct (exclude_spec g gp r W (b_parent nb) ob Sp So) as [ln [Eln Hln]].
    rewrite Elo, Eln in Hw.
    change (ascending_enum (old_branch r ob nb) lo) in Hlo. change (ascending_enum (new_branch r ob nb) ln) in Hln.
    destruct Hlo as [Mlo Alo]. pose proof Hln as [Mln Aln].
    (* the surviving rows and the height they lie below *)
    assert (K : forall d1, match lo with [] => Some db | f :: _ => truncate (num_of f) db end = Some d1 ->
                exists n, kept r ob nb db d1 /\ below (n * two35) d1 /\ (forall a, In a ln -> n <= num_of a) /\ n <= num_of p + 1).
    { intros d1 H1. destruct lo as [|f rest].
      - injection H1 as <-. assert (Hno : forall x, ~ old_branch r ob nb x) by (intros x Hx; apply Mlo in Hx; destruct Hx).
        exists (num_of ob + 1). split; [left; split; [exact Hno | reflexivity]|]. split; [exact B|]. split.
        + intros a Ha. apply Mln in Ha. apply no_old_branch; assumption.
        + destruct So as [so Hso]. destruct (anc_dec g gp r p ob W Sp) as [H|H].
          * pose proof (anc_height g gp r W _ _ H). lia.
          * exfalso. apply (Hno ob). split; [eapply anc_refl; eauto | exact H].
      - assert (Lf : lowest (old_branch r ob nb) f).
        { split; [apply Mlo; left; reflexivity|]. intros a Ha. apply Mlo in Ha. destruct Ha as [<-|Ha]; [lia|].
          destruct (asc_cons_inv _ _ Alo) as [_ Ff]. specialize (Ff a Ha). lia. }
        apply truncate_rows_below in H1. subst d1. exists (num_of f).
        split; [right; exists f; split; [exact Lf | reflexivity]|]. split; [apply rows_below_block_below|]. split.
        + intros a Ha. apply Mln in Ha. apply (new_above_lowest_old f a Lf Ha).
        + apply lowest_old_le. exact Lf. }
    destruct (match lo with [] => Some db | f :: _ => truncate (num_of f) db end) as [d1|] eqn:E1; [|discriminate].
    destruct (K d1 eq_refl) as [n [Kd [Bd [Hge Hle]]]].
    destruct (write_ids r ln d1) as [d2|] eqn:E2; [|discriminate].
    destruct (write_ids_appends r WB ln n d1 d2 Aln Hge Bd E2) as [A1 [A2 A3]].
    assert (B2 : below (num_of (b_id nb) * two35) d2).
    { rewrite Hnum. apply A3; [exact Hle|]. intros a Ha. apply Mln in Ha. destruct Ha as [Pa _].
      pose proof (anc_height g gp r W _ _ Pa). unfold p in *. lia. }
    destruct (write_block_appends nb d2 db' Hw B2) as [F1 F2].
    exists d1, ln. split; [exact Kd|]. split; [exact Hln|]. rewrite F1, F2, A1, A2, <- !app_assoc. auto.
  Qed.
End Step.

(* the specification determines the tables *)
Lemma kept_functional r ob nb db d1 d2 : kept r ob nb db d1 -> kept r ob nb db d2 -> d1 = d2.
Proof.
  intros [[N1 ->]|[f1 [[P1 L1] ->]]] [[N2 ->]|[f2 [[P2 L2] ->]]]; [reflexivity | exfalso; apply (N1 _ P2) | exfalso; apply (N2 _ P1) |].
  pose proof (L1 _ P2). pose proof (L2 _ P1). replace (num_of f2) with (num_of f1) by lia. reflexivity.
Qed.

Theorem write_logs_spec_functional r db nb ob d1 d2 :
  write_logs_spec r db nb ob d1 -> write_logs_spec r db nb ob d2 -> d1 = d2.
Proof.
  intros [k1 [l1 [K1 [E1 [A1 B1]]]]] [k2 [l2 [K2 [E2 [A2 B2]]]]].
  pose proof (kept_functional _ _ _ _ _ _ K1 K2). pose proof (ascending_enum_unique _ _ _ E1 E2). subst k2 l2.
  destruct d1 as [e1 t1], d2 as [e2 t2]. cbn [db_events db_transfers] in *. congruence.
Qed.

(* ---------------------------------------------------------------- when the step fails *)
(* whether a Write succeeds does not depend on the tables it writes into: only the sequence range checks can fail *)
Definition same_shape (o1 o2 : option wstate) : Prop :=
  match o1, o2 with
  | Some (_, e1, t1), Some (_, e2, t2) => e1 = e2 /\ t1 = t2
  | None, None => True
  | _, _ => False
  end.

Section Shape.
  Variables bid bnum btime : N.

  Lemma write_events_shape txid origin txi clause evs : forall d1 d2 ec tc,
    same_shape (write_events bid bnum btime txid origin txi clause evs (d1, ec, tc))
               (write_events bid bnum btime txid origin txi clause evs (d2, ec, tc)).
  Proof.
    induction evs as [|e evs IH]; intros d1 d2 ec tc; cbn [write_events]; [cbn; auto|].
    destruct (seq_of bnum txi ec) as [s|]; [apply IH | exact I].
  Qed.
  Lemma write_transfers_shape txid origin txi clause trs : forall d1 d2 ec tc,
    same_shape (write_transfers bid bnum btime txid origin txi clause trs (d1, ec, tc))
               (write_transfers bid bnum btime txid origin txi clause trs (d2, ec, tc)).
  Proof.
    induction trs as [|e trs IH]; intros d1 d2 ec tc; cbn [write_transfers]; [cbn; auto|].
    destruct (seq_of bnum txi tc) as [s|]; [apply IH | exact I].
  Qed.
  Lemma write_outputs_shape txid origin txi outs : forall clause d1 d2 ec tc,
    same_shape (write_outputs bid bnum btime txid origin txi clause outs (d1, ec, tc))
               (write_outputs bid bnum btime txid origin txi clause outs (d2, ec, tc)).
  Proof.
    induction outs as [|[evs trs] outs IH]; intros clause d1 d2 ec tc; cbn [write_outputs]; [cbn; auto|].
    pose proof (write_events_shape txid origin txi clause evs d1 d2 ec tc) as S1.
    destruct (write_events bid bnum btime txid origin txi clause evs (d1, ec, tc)) as [[[a1 e1] t1]|];
      destruct (write_events bid bnum btime txid origin txi clause evs (d2, ec, tc)) as [[[a2 e2] t2]|];
      cbn [same_shape] in S1; try contradiction; [|exact I].
    destruct S1 as [<- <-].
    pose proof (write_transfers_shape txid origin txi clause trs a1 a2 e1 t1) as S2.
    destruct (write_transfers bid bnum btime txid origin txi clause trs (a1, e1, t1)) as [[[c1 f1] u1]|];
      destruct (write_transfers bid bnum btime txid origin txi clause trs (a2, e1, t1)) as [[[c2 f2] u2]|];
      cbn [same_shape] in S2; try contradiction; [|exact I].
    destruct S2 as [<- <-]. apply IH.
  Qed.
  Lemma write_receipts_shape rcs : forall txs txi d1 d2 ec tc,
    same_shape (write_receipts bid bnum btime txs rcs txi (d1, ec, tc)) (write_receipts bid bnum btime txs rcs txi (d2, ec, tc)).
  Proof.
    induction rcs as [|rc rcs IH]; intros txs txi d1 d2 ec tc; cbn [write_receipts]; [cbn; auto|].
    destruct (match txs with t :: _ => (tx_id t, tx_origin t) | [] => (0, 0) end) as [txid origin].
    pose proof (write_outputs_shape txid origin txi (rc_outs rc) 0 d1 d2 ec tc) as S1.
    destruct (write_outputs bid bnum btime txid origin txi 0 (rc_outs rc) (d1, ec, tc)) as [[[a1 e1] t1]|];
      destruct (write_outputs bid bnum btime txid origin txi 0 (rc_outs rc) (d2, ec, tc)) as [[[a2 e2] t2]|];
      cbn [same_shape] in S1; try contradiction; [|exact I].
    destruct S1 as [<- <-]. apply IH.
  Qed.
End Shape.

(* Write of the block alone succeeds: every sequence number it needs passes the 28 / 15 / 20-bit range checks *)
Definition writable (b : blk) : Prop := exists d', write_block b empty_db = Some d'.

Lemma write_block_writable b d : (exists d', write_block b d = Some d') <-> writable b.
Proof.
  unfold writable, write_block.
  pose proof (write_receipts_shape (b_id b) (num_of (b_id b)) (b_time b) (b_rcs b) (b_txs b) 0 d empty_db 0 0) as S.
  destruct (write_receipts (b_id b) (num_of (b_id b)) (b_time b) (b_txs b) (b_rcs b) 0 (d, 0, 0)) as [[[a1 e1] t1]|];
    destruct (write_receipts (b_id b) (num_of (b_id b)) (b_time b) (b_txs b) (b_rcs b) 0 (empty_db, 0, 0)) as [[[a2 e2] t2]|];
    cbn [same_shape] in S; try contradiction.
  - split; intros _; eexists; reflexivity.
  - split; intros [d' H]; discriminate.
Qed.

Lemma write_block_none b d : write_block b d = None <-> ~ writable b.
Proof.
  rewrite <- (write_block_writable b d). destruct (write_block b d) as [d'|].
  - split; [discriminate|]. intros H. exfalso. apply H. eexists. reflexivity.
  - split; [|reflexivity]. intros _ [d' H]. discriminate.
Qed.

Lemma truncate_none n db : truncate n db = None <-> max_block < n.
Proof.
  unfold truncate, seq_of. destruct (N.ltb_spec max_block n) as [H|H].
  - split; [intros _; exact H | reflexivity].
  - cbn. split; [discriminate | lia].
Qed.

Lemma write_ids_some r l : forall d d', write_ids r l d = Some d' ->
  forall a, In a l -> exists s b, get_block r a = Some (s, b) /\ writable b.
Proof.
  induction l as [|x l IH]; intros d d' H a Ha; [destruct Ha|]. cbn [write_ids] in H.
  destruct (get_block r x) as [[s bx]|] eqn:Eb; [|discriminate].
  destruct (write_block bx d) as [d1|] eqn:Ew; [|discriminate].
  destruct Ha as [<-|Ha]; [|exact (IH d1 d' H a Ha)].
  exists s, bx. split; [exact Eb|]. apply (write_block_writable bx d). exists d1. exact Ew.
Qed.

Lemma write_ids_none r l : forall d, write_ids r l d = None ->
  exists a, In a l /\ (get_block r a = None \/ exists s b, get_block r a = Some (s, b) /\ ~ writable b).
Proof.
  induction l as [|x l IH]; intros d H; cbn [write_ids] in H; [discriminate|].
  destruct (get_block r x) as [[s bx]|] eqn:Eb; [|exists x; split; [left; reflexivity | left; exact Eb]].
  destruct (write_block bx d) as [d1|] eqn:Ew.
  - destruct (IH d1 H) as [a [Ha Hf]]. exists a. split; [right; exact Ha | exact Hf].
  - exists x. split; [left; reflexivity|]. right. exists s, bx. split; [exact Eb|]. apply (write_block_none bx d). exact Ew.
Qed.

Section StepFails.
  Variables (g gp : N) (r : repo).
  Hypothesis W : wf g gp r.
  Hypothesis WB : wf_body r.
  Variables (ob : N) (nb : blk).
  Hypothesis So : stored r ob.
  Hypothesis Sp : stored r (b_parent nb).

  (* on a well-formed repository with both blocks stored, writeLogs fails exactly where a sequence range check fails:
     the Truncate height, a block of the new branch, or the new block itself *)
  Theorem write_logs_fails_iff db :
    write_logs r db nb ob = None <->
    (exists f, lowest (old_branch r ob nb) f /\ max_block < num_of f) \/
    (exists a s b, new_branch r ob nb a /\ get_block r a = Some (s, b) /\ ~ writable b) \/
    ~ writable nb.
  Proof.
    unfold write_logs.
    destruct (exclude_spec g gp r W ob (b_parent nb) So Sp) as [lo [Elo Hlo]].
    destruct (exclude_spec g gp r W (b_parent nb) ob Sp So) as [ln [Eln Hln]].
    rewrite Elo, Eln.
    change (ascending_enum (old_branch r ob nb) lo) in Hlo. change (ascending_enum (new_branch r ob nb) ln) in Hln.
    destruct Hlo as [Mlo Alo]. destruct Hln as [Mln Aln].
    assert (Hlow : forall f, lowest (old_branch r ob nb) f -> exists f' rest, lo = f' :: rest /\ num_of f' = num_of f).
    { intros f [Pf Lf]. destruct lo as [|f' rest]; [apply Mlo in Pf; destruct Pf|]. exists f', rest. split; [reflexivity|].
      assert (Pf' : old_branch r ob nb f') by (apply Mlo; left; reflexivity). pose proof (Lf f' Pf').
      apply Mlo in Pf. destruct Pf as [->|Pf]; [reflexivity|]. destruct (asc_cons_inv _ _ Alo) as [_ Ff]. specialize (Ff f Pf). lia. }
    split.
    - intros H.
      destruct (match lo with [] => Some db | f :: _ => truncate (num_of f) db end) as [d1|] eqn:E1.
      + destruct (write_ids r ln d1) as [d2|] eqn:E2.
        * right. right. apply (write_block_none nb d2). exact H.
        * right. left. destruct (write_ids_none r ln d1 E2) as [a [Ha Hf]]. apply Mln in Ha.
          destruct Hf as [Hf|[s [b [Hb Hw]]]]; [|exists a, s, b; auto]. exfalso.
          destruct Ha as [Pa _]. destruct (proj2 (anc_stored r _ _ Pa)) as [s Hs].
          destruct (get_block_stored r WB a s Hs) as [b Hb]. congruence.
      + left. destruct lo as [|f rest]; [discriminate|]. exists f. split; [|apply (truncate_none (num_of f) db); exact E1].
        split; [apply Mlo; left; reflexivity|]. intros a Ha. apply Mlo in Ha. destruct Ha as [<-|Ha]; [lia|].
        destruct (asc_cons_inv _ _ Alo) as [_ Ff]. specialize (Ff a Ha). lia.
    - intros [[f [Lf Hmax]]|[[a [s [b [Pa [Hb Hw]]]]]|Hw]].
      + destruct (Hlow f Lf) as [f' [rest [-> En]]].
        assert (T : truncate (num_of f') db = None) by (apply truncate_none; lia). rewrite T. reflexivity.
      + destruct (match lo with [] => Some db | f :: _ => truncate (num_of f) db end) as [d1|]; [|reflexivity].
        destruct (write_ids r ln d1) as [d2|] eqn:E2; [|reflexivity]. exfalso.
        destruct (write_ids_some r ln d1 d2 E2 a (proj2 (Mln a) Pa)) as [s' [b' [Hb' Hw']]]. rewrite Hb in Hb'. injection Hb' as _ <-. tauto.
      + destruct (match lo with [] => Some db | f :: _ => truncate (num_of f) db end) as [d1|]; [|reflexivity].
        destruct (write_ids r ln d1) as [d2|]; [|reflexivity]. apply (write_block_none nb d2). exact Hw.
  Qed.

  (* hence: where it does not fail, the step is exactly the specification *)
  Theorem write_logs_iff_spec db db' :
    num_of (b_id nb) = num_of (b_parent nb) + 1 -> below ((num_of ob + 1) * two35) db ->
    write_logs r db nb ob <> None ->
    (write_logs r db nb ob = Some db' <-> write_logs_spec r db nb ob db').
  Proof.
    intros Hnum B Hok. split; [apply (write_logs_meets_spec g gp r W WB ob nb So Sp db db' Hnum B)|].
    intros Hs. destruct (write_logs r db nb ob) as [d|] eqn:E; [|contradiction]. f_equal.
    apply (write_logs_spec_functional r db nb ob d db'); [|exact Hs].
    apply (write_logs_meets_spec g gp r W WB ob nb So Sp db d Hnum B E).
  Qed.
End StepFails.

(* a sufficient range condition: block number, number of receipts and the two per-block log counts within 28 / 15 / 20 bits *)
Fixpoint rcs_count_ev (rcs : list receipt) : N := match rcs with [] => 0 | rc :: t => count_ev (rc_outs rc) + rcs_count_ev t end.
Fixpoint rcs_count_tr (rcs : list receipt) : N := match rcs with [] => 0 | rc :: t => count_tr (rc_outs rc) + rcs_count_tr t end.
Definition fits (b : blk) : Prop :=
  num_of (b_id b) <= max_block /\ lenN (b_rcs b) <= max_txi + 1 /\
  rcs_count_ev (b_rcs b) <= max_logi + 1 /\ rcs_count_tr (b_rcs b) <= max_logi + 1.

Section Fits.
  Variables bid bnum btime : N.
  Hypothesis Hb : bnum <= max_block.

  Lemma write_events_fits txid origin txi clause evs : forall d ec tc, txi <= max_txi -> ec + lenN evs <= max_logi + 1 ->
    exists d', write_events bid bnum btime txid origin txi clause evs (d, ec, tc) = Some (d', ec + lenN evs, tc).
  Proof.
    unfold lenN. induction evs as [|e evs IH]; intros d ec tc Ht Hc; cbn [write_events length] in *.
    - exists d. f_equal. f_equal. f_equal. lia.
    - rewrite seq_of_some by (unfold seq_ok, max_block, max_txi, max_logi in *; lia).
      destruct (IH (mkDB (ins_ev (mkER (bnum * 34359738368 + txi * 1048576 + ec) bid btime txid origin clause (ev_addr e)
                                     (firstn 5 (ev_topics e)) (ev_dlen e) (ev_data e)) (db_events d)) (db_transfers d)) (ec + 1) tc Ht ltac:(lia))
        as [d' Hd']. exists d'. rewrite Hd'. f_equal. f_equal. f_equal. lia.
  Qed.
  Lemma write_transfers_fits txid origin txi clause trs : forall d ec tc, txi <= max_txi -> tc + lenN trs <= max_logi + 1 ->
    exists d', write_transfers bid bnum btime txid origin txi clause trs (d, ec, tc) = Some (d', ec, tc + lenN trs).
  Proof.
    unfold lenN. induction trs as [|e trs IH]; intros d ec tc Ht Hc; cbn [write_transfers length] in *.
    - exists d. f_equal. f_equal. lia.
    - rewrite seq_of_some by (unfold seq_ok, max_block, max_txi, max_logi in *; lia).
      destruct (IH (mkDB (db_events d) (ins_tr (mkTR (bnum * 34359738368 + txi * 1048576 + tc) bid btime txid origin clause (tr_from e)
                                     (tr_to e) (tr_amount e)) (db_transfers d))) ec (tc + 1) Ht ltac:(lia))
        as [d' Hd']. exists d'. rewrite Hd'. f_equal. f_equal. lia.
  Qed.
  Lemma write_outputs_fits txid origin txi outs : forall clause d ec tc, txi <= max_txi ->
    ec + count_ev outs <= max_logi + 1 -> tc + count_tr outs <= max_logi + 1 ->
    exists d', write_outputs bid bnum btime txid origin txi clause outs (d, ec, tc) = Some (d', ec + count_ev outs, tc + count_tr outs).
  Proof.
    induction outs as [|[evs trs] outs IH]; intros clause d ec tc Ht He Hc; cbn [write_outputs count_ev count_tr] in *.
    - exists d. f_equal. f_equal; [f_equal|]; lia.
    - destruct (write_events_fits txid origin txi clause evs d ec tc Ht ltac:(lia)) as [d1 ->].
      destruct (write_transfers_fits txid origin txi clause trs d1 (ec + lenN evs) tc Ht ltac:(lia)) as [d2 ->].
      destruct (IH (clause + 1) d2 (ec + lenN evs) (tc + lenN trs) Ht ltac:(lia) ltac:(lia)) as [d3 ->].
      exists d3. f_equal. f_equal; [f_equal|]; lia.
  Qed.
  Lemma write_receipts_fits rcs : forall txs txi d ec tc, txi + lenN rcs <= max_txi + 1 ->
    ec + rcs_count_ev rcs <= max_logi + 1 -> tc + rcs_count_tr rcs <= max_logi + 1 ->
    exists st', write_receipts bid bnum btime txs rcs txi (d, ec, tc) = Some st'.
  Proof.
    unfold lenN. induction rcs as [|rc rcs IH]; intros txs txi d ec tc Ht He Hc; cbn [write_receipts rcs_count_ev rcs_count_tr length] in *.
    - eexists. reflexivity.
    - destruct (match txs with t :: _ => (tx_id t, tx_origin t) | [] => (0, 0) end) as [txid origin].
      destruct (write_outputs_fits txid origin txi (rc_outs rc) 0 d ec tc ltac:(lia) ltac:(lia) ltac:(lia)) as [d1 ->].
      apply IH; lia.
  Qed.
End Fits.

Lemma fits_writable b : fits b -> writable b.
Proof.
  intros [H1 [H2 [H3 H4]]]. unfold writable, write_block.
  destruct (write_receipts_fits (b_id b) (num_of (b_id b)) (b_time b) H1 (b_rcs b) (b_txs b) 0 empty_db 0 0) as [[[d' e'] t'] ->]; [lia | lia | lia|].
  eexists. reflexivity.
Qed.

(* ---------------------------------------------------------------- paths are enumerations of ancestry *)
Section PathEnum.
  Variables (g gp : N) (r : repo).
  Hypothesis W : wf g gp r.

  (* the path of h, read oldest first, is the ascending enumeration of h's ancestors *)
  Lemma path_enum h st : is_path r h st -> ascending_enum (anc r h) (rev st).
  Proof.
    intros P. split.
    - intros a. rewrite <- in_rev. apply (path_members g gp r W h st P).
    - apply desc_rev_asc. apply (path_desc g gp r W h st P).
  Qed.

  Lemma path_ends_gen h st : is_path r h st -> exists pre, st = pre ++ [g].
  Proof.
    induction 1 as [|h s l Hs Hg Hp [pre ->]].
    - exists []. rewrite (w_gen _ _ _ W). reflexivity.
    - exists (h :: pre). reflexivity.
  Qed.

  Lemma path_enum_nogen h pre : is_path r h (pre ++ [g]) -> ascending_enum (fun a => anc r h a /\ a <> g) (rev pre).
  Proof.
    intros P. pose proof (path_desc g gp r W h _ P) as D. split.
    - intros a. rewrite <- in_rev. split.
      + intros Ha. split; [apply (path_members g gp r W h _ P); apply in_or_app; left; exact Ha|].
        intros ->. pose proof (desc_app_lt pre [g] D g g Ha (or_introl eq_refl)). lia.
      + intros [Ha Hne]. apply (path_members g gp r W h _ P) in Ha. apply in_app_or in Ha. destruct Ha as [Ha|[Ha|[]]]; [exact Ha | congruence].
    - apply desc_rev_asc. apply (desc_app_l pre [g] D).
  Qed.

  (* prepending genesis to the enumeration of the other ancestors gives the enumeration of all ancestors *)
  Lemma enum_add_gen h l : stored r h -> ascending_enum (fun a => anc r h a /\ a <> g) l -> ascending_enum (anc r h) (g :: l).
  Proof.
    intros Sh HE. destruct (path_exists g gp r W h Sh) as [st P]. destruct (path_ends_gen h st P) as [pre ->].
    rewrite (ascending_enum_unique _ _ _ HE (path_enum_nogen h pre P)).
    pose proof (path_enum h _ P) as H. rewrite rev_app_distr in H. exact H.
  Qed.

  Hypothesis WB : wf_body r.

  (* the repository stores genesis without receipts: no rows *)
  Lemma genesis_no_rows : blk_events r g = [] /\ blk_transfers r g = [].
  Proof.
    pose proof (w_gsum _ _ _ W) as Hs. destruct (WB g _ Hs) as [b [B1 [B2 [B3 [B4 B5]]]]].
    cbn [s_txids s_conf] in *. symmetry in B3. apply map_eq_nil in B3. rewrite B3 in B5. cbn [length] in B5.
    destruct (b_rcs b) as [|rc rcs] eqn:Er; [|discriminate].
    unfold blk_events, blk_transfers, get_block. rewrite Hs. cbn [s_conf]. rewrite B1.
    unfold block_events, block_transfers. rewrite Er. split; reflexivity.
  Qed.
End PathEnum.

(* ---------------------------------------------------------------- sortedness of the tables *)
Definition tr_sorted (l : list trrow) : Prop := StronglySorted (fun a b => tr_seq a < tr_seq b) l.

Lemma ins_tr_sorted x l : tr_sorted l -> tr_sorted (ins_tr x l).
Proof.
  unfold tr_sorted. induction l as [|h t IH]; intros S; cbn [ins_tr]; [repeat constructor|].
  inversion S as [|h' t' St Ft]; subst.
  destruct (N.eqb_spec (tr_seq x) (tr_seq h)) as [E|NE]; [exact S|].
  destruct (N.ltb_spec (tr_seq x) (tr_seq h)) as [Hlt|Hge].
  - constructor; [exact S|]. constructor; [exact Hlt|]. rewrite Forall_forall in *. intros z Hz. specialize (Ft z Hz). lia.
  - constructor; [apply IH; exact St|]. rewrite Forall_forall in *. intros z Hz.
    apply ins_tr_in_weak in Hz. destruct Hz as [->|Hz]; [lia | apply Ft; exact Hz].
Qed.

Lemma ext_sorted lo hi d d' : ext lo hi d d' -> ev_sorted (db_events d) /\ tr_sorted (db_transfers d) ->
  ev_sorted (db_events d') /\ tr_sorted (db_transfers d').
Proof.
  induction 1 as [d|d d' x H IH Hx|d d' x H IH Hx]; intros S; [exact S| |]; destruct (IH S) as [S1 S2]; cbn [db_events db_transfers]; split; auto.
  - apply ins_ev_sorted. exact S1.
  - apply ins_tr_sorted. exact S2.
Qed.

Lemma rows_of_path_sorted r st : forall d, rows_of_path r st = Some d -> ev_sorted (db_events d) /\ tr_sorted (db_transfers d).
Proof.
  induction st as [|x st IH]; intros d H; cbn [rows_of_path] in H.
  - injection H as <-. split; constructor.
  - destruct (rows_of_path r st) as [d0|] eqn:E0; [|discriminate].
    destruct (get_block r x) as [[s bx]|] eqn:Eb; [|discriminate].
    eapply ext_sorted; [apply write_block_ext; exact H | apply IH; reflexivity].
Qed.

(* ---------------------------------------------------------------- C15 over ancestry *)
Section CanonAnc.
  Variables g gp tag : N.
  Hypothesis Hg : num_of g = 0.

  (* after every import history the tables are the rows of best's ancestors in ascending height order *)
  Theorem logdb_is_ancestor_logs_all r db : imported g gp tag r db ->
    forall l, ascending_enum (anc r (r_best r)) l -> db_events db = rows_ev r l /\ db_transfers db = rows_tr r l.
  Proof.
    intros I l HE. pose proof (imported_reachable _ _ _ _ _ I) as R.
    pose proof (reachable_wf _ _ _ _ _ Hg R) as W. pose proof (reachable_wf_body _ _ _ _ _ Hg R) as WB.
    destruct (path_exists g gp r W (r_best r) (w_best _ _ _ W)) as [st P].
    rewrite (ascending_enum_unique _ _ _ HE (path_enum g gp r W _ _ P)).
    rewrite <- chain_events_rows, <- chain_transfers_rows.
    apply (rows_of_path_flat r st WB (path_desc g gp r W _ _ P)).
    exact (logdb_tracks_canonical_lemma g gp tag Hg r db I st P).
  Qed.

  (* ... genesis (stored without receipts) left out of the enumeration *)
  Theorem logdb_is_ancestor_logs r db : imported g gp tag r db ->
    forall l, ascending_enum (fun a => anc r (r_best r) a /\ a <> g) l ->
      db_events db = rows_ev r l /\ db_transfers db = rows_tr r l.
  Proof.
    intros I l HE. pose proof (imported_reachable _ _ _ _ _ I) as R.
    pose proof (reachable_wf _ _ _ _ _ Hg R) as W. pose proof (reachable_wf_body _ _ _ _ _ Hg R) as WB.
    destruct (logdb_is_ancestor_logs_all r db I (g :: l) (enum_add_gen g gp r W _ l (w_best _ _ _ W) HE)) as [E1 E2].
    destruct (genesis_no_rows g gp r W WB) as [G1 G2].
    rewrite rows_ev_cons, G1 in E1. rewrite rows_tr_cons, G2 in E2. auto.
  Qed.

  (* the enumeration exists (and is unique): the statements are not vacuous in l *)
  Theorem ancestor_enum_exists r db : imported g gp tag r db ->
    exists l, ascending_enum (fun a => anc r (r_best r) a /\ a <> g) l.
  Proof.
    intros I. pose proof (reachable_wf _ _ _ _ _ Hg (imported_reachable _ _ _ _ _ I)) as W.
    destruct (path_exists g gp r W (r_best r) (w_best _ _ _ W)) as [st P]. destruct (path_ends_gen g gp r W _ st P) as [pre ->].
    exists (rev pre). apply (path_enum_nogen g gp r W _ pre P).
  Qed.

  (* membership form: a row is in the table iff the receipts of a block on best's chain prescribe it *)
  Theorem logdb_rows_membership r db : imported g gp tag r db ->
    (forall x, In x (db_events db) <-> exists a s b, anc r (r_best r) a /\ get_block r a = Some (s, b) /\ In x (block_events b)) /\
    (forall x, In x (db_transfers db) <-> exists a s b, anc r (r_best r) a /\ get_block r a = Some (s, b) /\ In x (block_transfers b)).
  Proof.
    intros I. pose proof (reachable_wf _ _ _ _ _ Hg (imported_reachable _ _ _ _ _ I)) as W.
    destruct (path_exists g gp r W (r_best r) (w_best _ _ _ W)) as [st P].
    pose proof (path_enum g gp r W _ _ P) as HE. destruct (logdb_is_ancestor_logs_all r db I _ HE) as [E1 E2].
    destruct HE as [M _]. rewrite E1, E2. unfold rows_ev, rows_tr. split; intros x; rewrite in_concat; split.
    - intros [rows [Hr Hx]]. apply in_map_iff in Hr. destruct Hr as [a [<- Ha]]. apply M in Ha.
      unfold blk_events in Hx. destruct (get_block r a) as [[s b]|] eqn:Eb; [|destruct Hx]. exists a, s, b. auto.
    - intros [a [s [b [Ha [Eb Hx]]]]]. exists (blk_events r a). split; [apply in_map; apply M; exact Ha|].
      unfold blk_events. rewrite Eb. exact Hx.
    - intros [rows [Hr Hx]]. apply in_map_iff in Hr. destruct Hr as [a [<- Ha]]. apply M in Ha.
      unfold blk_transfers in Hx. destruct (get_block r a) as [[s b]|] eqn:Eb; [|destruct Hx]. exists a, s, b. auto.
    - intros [a [s [b [Ha [Eb Hx]]]]]. exists (blk_transfers r a). split; [apply in_map; apply M; exact Ha|].
      unfold blk_transfers. rewrite Eb. exact Hx.
  Qed.

  (* order: both tables are strictly ascending in the sequence key — by seq_pack_inj_mono the lexicographic order of
     (block number, tx index, log index) — and the rows of an ancestor carry its id and lie in its key range *)
  Theorem logdb_rows_ordered r db : imported g gp tag r db ->
    ev_sorted (db_events db) /\ tr_sorted (db_transfers db) /\
    (forall a, anc r (r_best r) a ->
       (forall x, In x (blk_events r a) -> er_block x = a /\ num_of a * two35 <= er_seq x < (num_of a + 1) * two35) /\
       (forall x, In x (blk_transfers r a) -> tr_block x = a /\ num_of a * two35 <= tr_seq x < (num_of a + 1) * two35)).
  Proof.
    intros I. pose proof (imported_reachable _ _ _ _ _ I) as R.
    pose proof (reachable_wf _ _ _ _ _ Hg R) as W. pose proof (reachable_wf_body _ _ _ _ _ Hg R) as WB.
    destruct (path_exists g gp r W (r_best r) (w_best _ _ _ W)) as [st P].
    pose proof (logdb_tracks_canonical_lemma g gp tag Hg r db I st P) as Hrows.
    destruct (rows_of_path_sorted r st db Hrows) as [S1 S2]. split; [exact S1|]. split; [exact S2|].
    intros a Ha. apply (path_members g gp r W _ _ P) in Ha.
    destruct (rows_bounds r WB st (path_desc g gp r W _ _ P) db Hrows a Ha) as [B1 B2].
    split; intros x Hx; (split; [|auto]); [apply (blk_events_block r WB a x Hx) | apply (blk_transfers_block r WB a x Hx)].
  Qed.

  (* the tables of a running node, which start with the genesis builder's rows of block 0 *)
  Theorem logdb_after_genesis_rows_is_ancestor_logs d0 r db : below two35 d0 -> imported_from g gp tag d0 r db ->
    forall l, ascending_enum (fun a => anc r (r_best r) a /\ a <> g) l ->
      db_events db = db_events d0 ++ rows_ev r l /\ db_transfers db = db_transfers d0 ++ rows_tr r l.
  Proof.
    intros B0 I l HE. destruct (imported_from_frame g gp tag d0 r db Hg B0 I) as [db1 [I1 ->]].
    destruct (logdb_is_ancestor_logs r db1 I1 l HE) as [E1 E2]. unfold frame. cbn [db_events db_transfers]. rewrite E1, E2. auto.
  Qed.

  (* ---- the best-changing step of an import history, over ancestry ---- *)
  Lemma imported_below r db : imported g gp tag r db -> below ((num_of (r_best r) + 1) * two35) db.
  Proof.
    intros I. pose proof (imported_reachable _ _ _ _ _ I) as R.
    pose proof (reachable_wf _ _ _ _ _ Hg R) as W. pose proof (reachable_wf_body _ _ _ _ _ Hg R) as WB.
    destruct (path_exists g gp r W (r_best r) (w_best _ _ _ W)) as [st P].
    apply (rows_below r WB st db _ (logdb_tracks_canonical_lemma g gp tag Hg r db I st P)).
    intros a Ha. apply (path_members g gp r W _ _ P) in Ha. pose proof (anc_height g gp r W _ _ Ha). lia.
  Qed.

  Theorem imported_step_meets_spec r db b conf r' db' : imported g gp tag r db -> valid_add r b conf ->
    write_logs r db b (r_best r) = Some db' -> add_block r b conf true = Some r' ->
    write_logs_spec r db b (r_best r) db'.
  Proof.
    intros I V Hw A. pose proof (imported_reachable _ _ _ _ _ I) as R.
    pose proof (reachable_wf _ _ _ _ _ Hg R) as W. pose proof (reachable_wf_body _ _ _ _ _ Hg R) as WB.
    destruct (add_parent _ _ _ _ _ A) as [ps [Hps _]].
    apply (write_logs_meets_spec g gp r W WB (r_best r) b (w_best _ _ _ W) (ex_intro _ ps Hps) db db'); [apply V | apply imported_below; exact I | exact Hw].
  Qed.

  (* on the tables of an import history, what the step keeps is exactly the rows whose block is not on the old branch *)
  Theorem kept_on_canonical r db nb dk : imported g gp tag r db -> stored r (b_parent nb) -> kept r (r_best r) nb db dk ->
    (forall x, In x (db_events dk) <-> In x (db_events db) /\ ~ old_branch r (r_best r) nb (er_block x)) /\
    (forall x, In x (db_transfers dk) <-> In x (db_transfers db) /\ ~ old_branch r (r_best r) nb (tr_block x)).
  Proof.
    intros I Sp K. pose proof (imported_reachable _ _ _ _ _ I) as R.
    pose proof (reachable_wf _ _ _ _ _ Hg R) as W. pose proof (reachable_wf_body _ _ _ _ _ Hg R) as WB.
    destruct K as [[Hno ->]|[f [[[Of Nf] Lf] ->]]].
    { split; intros x; (split; [intros H; split; [exact H | apply Hno] | tauto]). }
    destruct (logdb_rows_ordered r db I) as [_ [_ Hrange]].
    destruct (logdb_rows_membership r db I) as [M1 M2].
    (* a block of best's chain is on the old branch iff it is at or above f *)
    assert (Hold : forall a, anc r (r_best r) a -> (old_branch r (r_best r) nb a <-> num_of f <= num_of a)).
    { intros a Ha. split; [intros Pa; apply Lf; exact Pa|]. intros Hle. split; [exact Ha|]. intros Pa. apply Nf.
      apply (anc_trans r _ a f Pa). apply (anc_linear g gp r W (r_best r) a f Ha Of Hle). }
    cbn [rows_below_block db_events db_transfers]. split; intros x; rewrite filter_In, N.ltb_lt.
    - split; intros [Hx Hc]; (split; [exact Hx|]); apply M1 in Hx; destruct Hx as [a [s [b [Ha [Eb Hx]]]]];
        assert (Hb : In x (blk_events r a)) by (unfold blk_events; rewrite Eb; exact Hx);
        destruct (proj1 (Hrange a Ha) x Hb) as [Ea Hr]; rewrite Ea in *.
      + intros Pa. apply (Hold a Ha) in Pa. unfold two35 in *. nia.
      + destruct (N.le_gt_cases (num_of f) (num_of a)) as [Hle|Hlt]; [exfalso; apply Hc; apply (Hold a Ha); exact Hle|]. unfold two35 in *. nia.
    - split; intros [Hx Hc]; (split; [exact Hx|]); apply M2 in Hx; destruct Hx as [a [s [b [Ha [Eb Hx]]]]];
        assert (Hb : In x (blk_transfers r a)) by (unfold blk_transfers; rewrite Eb; exact Hx);
        destruct (proj2 (Hrange a Ha) x Hb) as [Ea Hr]; rewrite Ea in *.
      + intros Pa. apply (Hold a Ha) in Pa. unfold two35 in *. nia.
      + destruct (N.le_gt_cases (num_of f) (num_of a)) as [Hle|Hlt]; [exfalso; apply Hc; apply (Hold a Ha); exact Hle|]. unfold two35 in *. nia.
  Qed.
End CanonAnc.
