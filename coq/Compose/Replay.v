(* Compose/Replay.v — C02 <-> C09: the two independently written models of the replay / window / dependency rules of
   consensus/validator.go agree.

     C02  Validation/Body.v   tx_body_check / body_txs_check (validateBlockBody), verify_txs (verifyBlock's loop), process;
                              chain lookups are ABSTRACT total functions  has_tx : id -> ref -> bool,  find_meta : id -> option reverted
     C09  Chain/Model.v       body_rule / body_rules, verify_loop, validate;  the lookups are the repository's own
                              has_transaction / get_tx_meta on the parent's chain (three-valued: Ok / NotFound / Fail);
                              the reverted flag of each executed transaction is an INPUT list (execution is not modelled)

   Here C02's abstract lookups are instantiated with C09's repository lookups on the parent's chain (has_tx_of / find_meta_of),
   C09's input flags with the flags C02's execution produces, and it is proved that
     - per transaction, C02's body check is C09's body rule sandwiched between the checks C09 does not model
       (31-34 origin / delegator / block list before it, 38-40 tx type / features / reserved after it): tx_check_sandwich;
     - per list, same verdict: body_same_verdict, body_accept_iff, body_reject_conv;
     - the loop of verifyBlock: same verdict (verify_same_verdict), acceptance iff (verify_accept_iff: C02 accepts exactly
       when the plain sequential execution succeeds within the gas limit and C09's loop accepts the flags it produced),
       and C09's loop = C02's catalogue rules 40 + 42 (loop_ok_iff_catalogue);
     - per block: process_accepted_validates, process_accept_iff_validate, process_replay_reject_same_verdict;
     - per chain: every history of blocks accepted by C02's `process` is a history accepted by C09's `validate`
       (c02_history_is_c09_history), hence satisfies C09's first sentence (c02_chain_at_most_once_in_window,
       c02_chain_dependency).

   The ONLY difference between the two transcriptions: C09 models the failure of a chain lookup (database error: V_fail),
   C02's lookups are total.  On every repository reached by AddBlock calls the lookups on a stored parent never fail
   (C09 theorems 2 and 4: lookups_total_reachable), so the difference is not observable there; consensus/validator.go
   returns such an error as it is (not a consensusError), which is C09's reading.
   No other input distinguishes the two models (that is what the theorems say). *)
From Coq Require Import List NArith Bool Lia.
From Coq Require Import ZifyN ZifyNat ZifyBool.
From Verif Require Import Common.Util Sched.Model Header.Rules Header.Proofs Validation.Body Validation.Catalogue Validation.ProofsRules.
From Verif Require Chain.Model Chain.Proofs Chain.ProofsWalk Chain.ProofsSys Chain.ProofsTx Chain.ProofsAccept
  Chain.ProofsChainInv Chain.ProofsChainDep.
Import ListNotations.
Open Scope N_scope.

Module CM := Verif.Chain.Model.
Module CP := Verif.Chain.Proofs.

(* ---------------------------------------------------------------- the two views of one transaction *)
(* C09's record carries the origin, which `validate` does not read: it is left free *)
Definition same_tx (t : txn) (ct : CM.txrec) : Prop :=
  CM.tx_id ct = t_id t /\ CM.tx_tag ct = t_chain_tag t /\ CM.tx_ref ct = t_ref t /\ CM.tx_exp ct = t_exp t /\
  CM.tx_dep ct = t_dep t.

Definition tx_of (origin : N) (t : txn) : CM.txrec :=
  CM.mkTx (t_id t) (t_chain_tag t) (t_ref t) (t_exp t) (t_dep t) origin.

Lemma same_tx_of origin t : same_tx t (tx_of origin t).
Proof. unfold same_tx, tx_of. cbn. auto. Qed.

Lemma same_txs_of origin txs : Forall2 same_tx txs (map (tx_of origin) txs).
Proof. induction txs; cbn [map]; constructor; auto using same_tx_of. Qed.

(* ---------------------------------------------------------------- validateBlockBody *)
(* the checks of C02's tx_body_check that C09 does not model, split where C09's three rules sit *)
Definition pre_check (cfg : config) (num : N) (t : txn) : option N :=
  if negb (t_origin_ok t) then Some 31
  else if (c_blocklist cfg <=? num) && t_origin_blocked t then Some 32
  else if negb (t_delegator_ok t) then Some 33
  else if (c_blocklist cfg <=? num) && t_delegator_blocked t then Some 34
  else None.
Definition post_check (cfg : config) (num feats : N) (t : txn) : option N :=
  if (num <? c_galactica cfg) && negb (t_type t =? 0) then Some 38
  else if negb (N.land (t_features t) feats =? t_features t) then Some 39
  else if t_unused t then Some 40
  else None.

(* C02's code of a C09 body verdict / C09's verdict of a C02 code *)
Definition body_code (v : CM.verdict) : option N :=
  match v with CM.V_tag => Some 35 | CM.V_future => Some 36 | CM.V_expired => Some 37 | _ => None end.
Definition replay_class (c : N) : option CM.verdict :=
  if c =? 35 then Some CM.V_tag else if c =? 36 then Some CM.V_future else if c =? 37 then Some CM.V_expired
  else if c =? 50 then Some CM.V_exists else if c =? 51 then Some CM.V_depbroken else if c =? 52 then Some CM.V_deprev
  else None.

Lemma body_rule_range tag num ct :
  CM.body_rule tag num ct = CM.V_ok \/ CM.body_rule tag num ct = CM.V_tag \/
  CM.body_rule tag num ct = CM.V_future \/ CM.body_rule tag num ct = CM.V_expired.
Proof.
  unfold CM.body_rule. destruct (negb _); auto. destruct (_ <? _); auto. destruct (_ <? _); auto.
Qed.

(* one transaction: C02's check = [31-34] ; C09's body_rule ; [38-40] *)
Theorem tx_check_sandwich cfg num feats t ct : same_tx t ct ->
  tx_body_check cfg num feats t =
    match pre_check cfg num t with
    | Some c => Some c
    | None => match body_code (CM.body_rule (c_chain_tag cfg) num ct) with
              | Some c => Some c
              | None => post_check cfg num feats t
              end
    end.
Proof.
  intros (_ & E2 & E3 & E4 & _). unfold tx_body_check, pre_check, post_check, CM.body_rule. rewrite E2, E3, E4.
  destruct (negb (t_origin_ok t)); [reflexivity|].
  destruct ((c_blocklist cfg <=? num) && t_origin_blocked t); [reflexivity|].
  destruct (negb (t_delegator_ok t)); [reflexivity|].
  destruct ((c_blocklist cfg <=? num) && t_delegator_blocked t); [reflexivity|].
  destruct (negb (t_chain_tag t =? c_chain_tag cfg)); [reflexivity|].
  destruct (num <? t_ref t); [reflexivity|].
  destruct (t_ref t + t_exp t <? num); reflexivity.
Qed.

Definition other_checks_pass (cfg : config) (num feats : N) (t : txn) : Prop :=
  pre_check cfg num t = None /\ post_check cfg num feats t = None.

Lemma tx_check_none_iff cfg num feats t ct : same_tx t ct ->
  tx_body_check cfg num feats t = None <->
  CM.body_rule (c_chain_tag cfg) num ct = CM.V_ok /\ other_checks_pass cfg num feats t.
Proof.
  intros S. rewrite (tx_check_sandwich cfg num feats t ct S). unfold other_checks_pass.
  destruct (pre_check cfg num t); [split; [discriminate | intros (_ & C & _); discriminate]|].
  destruct (body_rule_range (c_chain_tag cfg) num ct) as [E|[E|[E|E]]]; rewrite E; cbn [body_code];
    try (split; [discriminate | intros (C & _); discriminate]).
  split; [intros H; auto | intros (_ & _ & H); exact H].
Qed.

(* the list: SAME VERDICT.  Accepted by C02 => accepted by C09; rejected by C02 with one of the three codes C09 models =>
   rejected by C09 with that verdict (codes 31-34 / 38-40 have no counterpart in C09) *)
Theorem body_same_verdict cfg num feats txs ctxs : Forall2 same_tx txs ctxs ->
  match body_txs_check cfg num feats txs with
  | None => CM.body_rules (c_chain_tag cfg) num ctxs = CM.V_ok
  | Some c => match replay_class c with
              | Some v => CM.body_rules (c_chain_tag cfg) num ctxs = v
              | None => True
              end
  end.
Proof.
  induction 1 as [|t ct txs ctxs S _ IH]; [reflexivity|].
  cbn [body_txs_check CM.body_rules].
  destruct (tx_body_check cfg num feats t) as [c|] eqn:E.
  - rewrite (tx_check_sandwich cfg num feats t ct S) in E.
    destruct (pre_check cfg num t) as [c'|] eqn:Ep.
    + injection E as <-. unfold pre_check in Ep.
      repeat match type of Ep with (if ?x then _ else _) = _ => destruct x end; try discriminate; injection Ep as <-; exact I.
    + destruct (body_rule_range (c_chain_tag cfg) num ct) as [Eb|[Eb|[Eb|Eb]]]; rewrite Eb in *; cbn [body_code] in E.
      * unfold post_check in E.
        repeat match type of E with (if ?x then _ else _) = _ => destruct x end; try discriminate; injection E as <-; exact I.
      * injection E as <-. reflexivity.
      * injection E as <-. reflexivity.
      * injection E as <-. reflexivity.
  - apply (tx_check_none_iff cfg num feats t ct S) in E. destruct E as [-> _]. exact IH.
Qed.

(* ACCEPTS EXACTLY: C02's body check passes iff C09's does and the checks C09 does not model pass *)
Theorem body_accept_iff cfg num feats txs ctxs : Forall2 same_tx txs ctxs ->
  body_txs_check cfg num feats txs = None <->
  CM.body_rules (c_chain_tag cfg) num ctxs = CM.V_ok /\ Forall (other_checks_pass cfg num feats) txs.
Proof.
  induction 1 as [|t ct txs ctxs S _ IH]; [split; [intros _; split; [reflexivity | constructor] | reflexivity]|].
  cbn [body_txs_check CM.body_rules].
  destruct (tx_body_check cfg num feats t) as [c|] eqn:E.
  - split; [discriminate|]. intros (Hb & Hf). inversion Hf as [|? ? Ho _]; subst.
    destruct (CM.body_rule (c_chain_tag cfg) num ct) eqn:Eb; try discriminate.
    assert (X : tx_body_check cfg num feats t = None) by (apply (tx_check_none_iff _ _ _ _ _ S); auto). congruence.
  - apply (tx_check_none_iff cfg num feats t ct S) in E. destruct E as [Eb Ho]. rewrite Eb, IH.
    split; [intros (A & B); split; [exact A | constructor; auto] | intros (A & B); inversion B; auto].
Qed.

(* rejected by C09 => rejected by C02, with the corresponding code or with the code of a check C09 does not model *)
Theorem body_reject_conv cfg num feats txs ctxs v : Forall2 same_tx txs ctxs ->
  CM.body_rules (c_chain_tag cfg) num ctxs = v -> v <> CM.V_ok ->
  exists c, body_txs_check cfg num feats txs = Some c /\ (replay_class c = Some v \/ replay_class c = None).
Proof.
  intros S Hv Hne. pose proof (body_same_verdict cfg num feats txs ctxs S) as H.
  destruct (body_txs_check cfg num feats txs) as [c|]; [|congruence].
  exists c. split; [reflexivity|]. destruct (replay_class c) as [v'|]; [left; congruence | right; reflexivity].
Qed.

(* ---------------------------------------------------------------- verifyBlock's loop *)
Lemma lookup_afind (k : N) (m : list (N * bool)) : lookup k m = CM.afind k m.
Proof.
  unfold lookup. induction m as [|[a b] m IH]; cbn [find CM.afind fst snd]; [reflexivity|].
  destruct (a =? k); [reflexivity | exact IH].
Qed.

Definition loop_class (v : verdict) : option CM.verdict :=
  match v with Critical c => replay_class c | _ => None end.

Section Loop.
  Variable State : Type.
  Variable exec : bctx -> State -> txn -> option (State * receipt).
  Variable r : CM.repo.          (* C09's repository *)
  Variable p : N.                (* the parent's id: lookups run on its chain *)

  (* C02's abstract lookups, instantiated *)
  Definition has_tx_of (id ref : N) : bool :=
    match CM.has_transaction r p id ref with CM.Ok v => v | _ => false end.
  Definition find_meta_of (id : N) : option bool :=
    match CM.get_tx_meta r p id with CM.Ok e => Some (CM.e_rev e) | _ => None end.

  (* what C02's total lookups cannot express *)
  Definition lookups_total : Prop :=
    (forall x ref, exists v, CM.has_transaction r p x ref = CM.Ok v) /\ (forall x, CM.get_tx_meta r p x <> CM.Fail).

  Notation verify_txs := (verify_txs State exec has_tx_of find_meta_of).
  Notation run := (run State exec).

  (* the flags C09 takes as input, as C02's execution produces them: plain sequential execution, up to the first
     transaction that does not execute *)
  Fixpoint exec_flags (ctx : bctx) (st : State) (txs : list txn) : list bool :=
    match txs with
    | [] => []
    | t :: rest => match exec ctx st t with
                   | None => []
                   | Some (st', rc) => r_reverted rc :: exec_flags ctx st' rest
                   end
    end.

  Lemma exec_flags_run ctx : forall txs st stf rcs, run ctx st txs = Some (stf, rcs) -> exec_flags ctx st txs = map r_reverted rcs.
  Proof.
    induction txs as [|t l IH]; intros st stf rcs; cbn [Catalogue.run exec_flags].
    - intros E. injection E as _ <-. reflexivity.
    - destruct (exec ctx st t) as [[st' rc]|]; [|discriminate].
      destruct (run ctx st' l) as [[stf' rs']|] eqn:Er; [|discriminate]. intros E. injection E as _ <-.
      cbn [map]. f_equal. exact (IH _ _ _ Er).
  Qed.

  Hypothesis LT : lookups_total.

  (* SAME VERDICT on every transaction list, from every loop state: accepted by C02 => C09's loop accepts the flags of the
     receipts; rejected by C02 with a replay / dependency code (50, 51, 52) => C09's loop rejects with that verdict; the
     only other rejections are the two C09 has no counterpart for (53: a transaction does not execute; 54: block gas limit) *)
  Theorem verify_same_verdict ctx : forall txs ctxs, Forall2 same_tx txs ctxs -> forall st proc used,
    match verify_txs ctx txs st proc used with
    | VOk _ _ rcs _ => exec_flags ctx st txs = map r_reverted rcs /\
                     CM.verify_loop r p proc ctxs (map r_reverted rcs) = CM.V_ok
    | VBad _ v => match loop_class v with
                | Some cv => CM.verify_loop r p proc ctxs (exec_flags ctx st txs) = cv
                | None => v = Other 53 \/ v = Critical 54
                end
    end.
  Proof.
    destruct LT as [LT1 LT2].
    induction 1 as [|t ct txs ctxs S _ IH]; intros st proc used; [cbn; auto|].
    destruct S as (E1 & E2 & E3 & E4 & E5).
    cbn [Body.verify_txs CM.verify_loop exec_flags]. unfold known, dep_check. rewrite E1, E3, E5, !lookup_afind.
    destruct (CM.afind (t_id t) proc) as [x|] eqn:Ea.
    { cbn. reflexivity. }
    unfold has_tx_of at 1. destruct (LT1 (t_id t) (t_ref t)) as [hv ->].
    destruct hv; [cbn; reflexivity|].
    assert (Hdep :
      match (match t_dep t with
             | None => DepOk
             | Some d => match lookup d proc with
                         | Some rv => if rv then DepReverted else DepOk
                         | None => match find_meta_of d with
                                   | None => DepBroken
                                   | Some rv => if rv then DepReverted else DepOk
                                   end
                         end
             end) with
      | DepOk => CM.V_ok | DepBroken => CM.V_depbroken | DepReverted => CM.V_deprev end =
      match t_dep t with
      | None => CM.V_ok
      | Some d => match CM.afind d proc with
                  | Some rv => if rv then CM.V_deprev else CM.V_ok
                  | None => match CM.get_tx_meta r p d with
                            | CM.Ok e => if CM.e_rev e then CM.V_deprev else CM.V_ok
                            | CM.NotFound => CM.V_depbroken
                            | CM.Fail => CM.V_fail
                            end
                  end
      end).
    { destruct (t_dep t) as [d|]; [|reflexivity]. rewrite lookup_afind.
      destruct (CM.afind d proc) as [[|]|]; try reflexivity.
      unfold find_meta_of. pose proof (LT2 d) as Hnf.
      destruct (CM.get_tx_meta r p d) as [e| |]; [destruct (CM.e_rev e); reflexivity | reflexivity | contradiction]. }
    rewrite <- Hdep. clear Hdep.
    match goal with |- context [match ?d with DepOk => _ | DepBroken => _ | DepReverted => _ end] => destruct d end;
      try (cbn; reflexivity).
    destruct (exec ctx st t) as [[st' rc]|] eqn:Ee; [|cbn; auto].
    destruct (x_gas_limit ctx <? used + r_gas rc); [cbn; auto|].
    specialize (IH st' ((t_id t, r_reverted rc) :: proc) (used + r_gas rc)).
    destruct (Body.verify_txs State exec has_tx_of find_meta_of ctx txs st' ((t_id t, r_reverted rc) :: proc) (used + r_gas rc))
      as [stf rcs u|v].
    - destruct IH as [IH1 IH2]. cbn [map tl]. split; [f_equal; exact IH1 | exact IH2].
    - destruct (loop_class v); cbn [tl]; exact IH.
  Qed.

  Lemma dep_class_eq proc t :
    match dep_check find_meta_of proc t with
    | DepOk => CM.V_ok | DepBroken => CM.V_depbroken | DepReverted => CM.V_deprev end =
    match t_dep t with
    | None => CM.V_ok
    | Some d => match CM.afind d proc with
                | Some rv => if rv then CM.V_deprev else CM.V_ok
                | None => match CM.get_tx_meta r p d with
                          | CM.Ok e => if CM.e_rev e then CM.V_deprev else CM.V_ok
                          | CM.NotFound => CM.V_depbroken
                          | CM.Fail => CM.V_fail
                          end
                end
    end.
  Proof.
    destruct LT as [_ LT2]. unfold dep_check.
    destruct (t_dep t) as [d|]; [|reflexivity]. rewrite lookup_afind.
    destruct (CM.afind d proc) as [[|]|]; try reflexivity.
    unfold find_meta_of. pose proof (LT2 d) as Hnf.
    destruct (CM.get_tx_meta r p d) as [e| |]; [destruct (CM.e_rev e); reflexivity | reflexivity | contradiction].
  Qed.

  (* C09's loop = C02's catalogue rules 40 (no id twice, none already on the parent's chain) + 42 (dependencies) *)
  Theorem loop_ok_iff_catalogue : forall txs ctxs, Forall2 same_tx txs ctxs -> forall proc rcs, length rcs = length txs ->
    CM.verify_loop r p proc ctxs (map r_reverted rcs) = CM.V_ok <->
    fresh has_tx_of (map fst proc) txs /\ deps_ok find_meta_of proc txs rcs.
  Proof.
    destruct LT as [LT1 _].
    induction 1 as [|t ct txs ctxs S _ IH]; intros proc rcs Hlen.
    - cbn. destruct rcs; cbn; tauto.
    - destruct rcs as [|rc rcs]; [discriminate|]. cbn [length] in Hlen. injection Hlen as Hlen.
      destruct S as (E1 & E2 & E3 & E4 & E5).
      cbn [CM.verify_loop fresh Catalogue.deps_ok map tl]. rewrite E1, E3, E5, <- (dep_class_eq proc t).
      pose proof (lookup_none_iff (t_id t) proc) as Hln. rewrite lookup_afind in Hln.
      destruct (CM.afind (t_id t) proc) as [x|] eqn:Ea.
      { split; [discriminate|]. intros ((C & _) & _). apply Hln in C. discriminate. }
      assert (Hni : ~ In (t_id t) (map fst proc)) by (apply Hln; reflexivity).
      destruct (LT1 (t_id t) (t_ref t)) as [hv Ehv].
      assert (Hh : has_tx_of (t_id t) (t_ref t) = hv) by (unfold has_tx_of; rewrite Ehv; reflexivity).
      rewrite Ehv, Hh.
      destruct hv; [split; [discriminate | intros ((_ & C & _) & _); discriminate]|].
      pose proof (dep_check_ok_iff find_meta_of proc t) as Hd.
      destruct (dep_check find_meta_of proc t).
      + rewrite (IH _ _ Hlen). cbn [map fst]. tauto.
      + split; [discriminate|]. intros (_ & C & _). apply Hd in C. discriminate.
      + split; [discriminate|]. intros (_ & C & _). apply Hd in C. discriminate.
  Qed.

  Lemma run_length ctx : forall txs st stf rcs, run ctx st txs = Some (stf, rcs) -> length rcs = length txs.
  Proof.
    induction txs as [|t l IH]; intros st stf rcs; cbn [Catalogue.run].
    - intros E. injection E as _ <-. reflexivity.
    - destruct (exec ctx st t) as [[st' rc]|]; [|discriminate].
      destruct (run ctx st' l) as [[stf' rs']|] eqn:Er; [|discriminate]. intros E. injection E as _ <-.
      cbn [length]. f_equal. exact (IH _ _ _ Er).
  Qed.

  (* ACCEPTS EXACTLY: C02's loop accepts iff the plain sequential execution succeeds, stays within the block gas limit, and
     C09's loop accepts the reverted flags that execution produced *)
  Theorem verify_accept_iff ctx txs ctxs st proc used stf rcs u : Forall2 same_tx txs ctxs ->
    verify_txs ctx txs st proc used = VOk State stf rcs u <->
    run ctx st txs = Some (stf, rcs) /\ u = used + total_gas rcs /\ (txs <> [] -> u <= x_gas_limit ctx) /\
    CM.verify_loop r p proc ctxs (map r_reverted rcs) = CM.V_ok.
  Proof.
    intros S. rewrite (verify_txs_iff State exec (fun _ _ s _ => s) (fun _ s => Some s) (fun _ => true) (fun _ => 0) (fun _ => 0) (fun _ => 0)
               has_tx_of find_meta_of ctx txs st proc used stf rcs u). split.
    - intros (Hr & Hu & Hf & Hd & Hg). repeat split; auto.
      apply (loop_ok_iff_catalogue txs ctxs S proc rcs (run_length _ _ _ _ _ Hr)). auto.
    - intros (Hr & Hu & Hg & Hl).
      apply (loop_ok_iff_catalogue txs ctxs S proc rcs (run_length _ _ _ _ _ Hr)) in Hl. destruct Hl. repeat split; auto.
  Qed.

  (* rejected by C09's loop on the flags of C02's execution => rejected by C02: with that verdict's code, or because a
     transaction does not execute / the block gas limit is exceeded before the loop reaches the offending transaction *)
  Theorem verify_reject_conv ctx txs ctxs st proc used cv : Forall2 same_tx txs ctxs ->
    CM.verify_loop r p proc ctxs (exec_flags ctx st txs) = cv -> cv <> CM.V_ok ->
    exists v, verify_txs ctx txs st proc used = VBad State v /\ (loop_class v = Some cv \/ v = Other 53 \/ v = Critical 54).
  Proof.
    intros S Hl Hne. pose proof (verify_same_verdict ctx txs ctxs S st proc used) as H.
    destruct (verify_txs ctx txs st proc used) as [stf rcs u|v].
    - destruct H as [H1 H2]. rewrite H1 in Hl. congruence.
    - exists v. split; [reflexivity|]. destruct (loop_class v) as [cv'|]; [left; congruence | right; exact H].
  Qed.
End Loop.

(* the lookups never fail on a repository reached by AddBlock calls, for a stored parent (C09 theorems 2 and 4) *)
Lemma lookups_total_reachable g gp tag adm r p :
  CM.num_of g = 0 -> CM.num_of gp = CM.max_u32 -> CP.reachable g gp tag adm r -> CP.stored r p -> lookups_total r p.
Proof.
  intros Hg Hgp R Sp.
  pose proof (CP.reachable_wf _ _ _ _ _ Hg R) as W. pose proof (Chain.ProofsWalk.reachable_wf_body _ _ _ _ _ Hg R) as WB.
  pose proof (Chain.ProofsTx.reachable_wf_txi _ _ _ _ _ Hg R) as WT. pose proof (Chain.ProofsTx.reachable_conf_inj _ _ _ _ _ Hg R) as CI.
  split.
  - intros x ref. destruct (Chain.ProofsTx.has_transaction_spec g gp r W WB WT CI Hgp p x ref Sp) as [v [Ev _]]. exists v. exact Ev.
  - intros x C. pose proof (Chain.ProofsTx.get_tx_meta_spec g gp r W WT CI Hgp p x Sp) as H. rewrite C in H. exact H.
Qed.

(* the codes of the other stages of Process do not collide with the six replay codes *)
Ltac leaf x := lazymatch x with
  | context [if _ then _ else _] => fail
  | context [match _ with _ => _ end] => fail
  | _ => idtac end.
Ltac crunch := repeat match goal with
  | |- context [if ?x then _ else _] => leaf x; destruct x
  | |- context [match ?x with _ => _ end] => leaf x; destruct x
  end.
Lemma validate_header_code cfg parent h now c : validate_header cfg parent h now = Critical c -> c <= 15.
Proof.
  unfold validate_header, sig_alpha_check, base_fee_check. crunch; intros E; try discriminate; injection E as <-; lia.
Qed.
Lemma validate_proposer_code cfg pv parent h c : validate_proposer cfg pv parent h = PBad (Critical c) -> c <= 24.
Proof.
  unfold validate_proposer. crunch; intros E; try discriminate; injection E as <-; lia.
Qed.
Lemma replay_class_codes c v : replay_class c = Some v -> c = 35 \/ c = 36 \/ c = 37 \/ c = 50 \/ c = 51 \/ c = 52.
Proof.
  unfold replay_class.
  repeat match goal with |- context [if ?x =? ?y then _ else _] => destruct (N.eqb_spec x y) end; try discriminate; auto 10.
Qed.
Lemma replay_class_not_ok c : replay_class c <> Some CM.V_ok.
Proof.
  unfold replay_class.
  repeat match goal with |- context [if ?x =? ?y then _ else _] => destruct (N.eqb_spec x y) end; discriminate.
Qed.

(* ---------------------------------------------------------------- the block *)
Section Block.
  Variable State : Type.
  Variable exec : bctx -> State -> txn -> option (State * receipt).
  Variable apply_updates : bool -> N -> State -> list (N * bool) -> State.
  Variable rewards : bctx -> State -> option State.
  Variable sanity : State -> bool.
  Variable root_of_state : State -> N.
  Variable root_of_receipts : list receipt -> N.
  Variable root_of_txs : list txn -> N.

  (* C02's Process with C09's lookups on the chain of cb's parent *)
  Definition process_on (r : CM.repo) (p : N) :=
    process State exec apply_updates rewards sanity root_of_state root_of_receipts root_of_txs (has_tx_of r p) (find_meta_of r p).

  (* the C02 block `b` judged as a child of header `parent` under `cfg` and the C09 block `cb` to be added to `r` are two
     views of one block: same transactions, the height read off the id is the header's number, the validator's chain tag is
     the repository's *)
  Definition linked (cfg : config) (parent : header) (r : CM.repo) (b : block) (cb : CM.blk) : Prop :=
    Forall2 same_tx (b_txs b) (CM.b_txs cb) /\
    CM.num_of (CM.b_id cb) = h_number parent + 1 /\
    c_chain_tag cfg = CM.r_tag r.

  (* where Process starts executing: the context and the state after the scheduler's activity updates *)
  Definition start_of (cfg : config) (pv : pview) (parent : header) (st0 : State) (b : block) : option (bctx * State) :=
    match validate_proposer cfg pv parent (b_header b) with
    | POk ups => Some (ctx_of_header parent (b_header b), apply_updates (pv_pos pv) (h_number parent + 1) st0 ups)
    | PBad _ => None
    end.

  (* 1. a block C02 accepts passes C09's validate, the receipts' reverted flags being those Process returned *)
  Theorem process_accepted_validates cfg pv parent st0 b now r cb st rcs :
    linked cfg parent r b cb -> lookups_total r (CM.b_parent cb) ->
    map CM.rc_rev (CM.b_rcs cb) = map r_reverted rcs ->
    process_on r (CM.b_parent cb) cfg pv parent st0 b now = Accepted State st rcs ->
    CM.validate r cb = CM.V_ok.
  Proof.
    intros (L1 & L2 & L3) LT Hrev. unfold process_on, Body.process.
    destruct (negb _); [discriminate|]. destruct (validate_header cfg parent (b_header b) now); try discriminate.
    destruct (validate_proposer cfg pv parent (b_header b)) as [ups|]; [|discriminate].
    destruct (negb _); [discriminate|].
    pose proof (body_same_verdict cfg (h_number parent + 1) (h_features (b_header b)) _ _ L1) as Hb.
    destruct (body_txs_check cfg (h_number parent + 1) (h_features (b_header b)) (b_txs b)); [discriminate|].
    unfold Body.verify_block.
    match goal with |- context [Body.verify_txs ?S ?e ?h ?f ?c ?t ?s ?pr ?u] =>
      pose proof (verify_same_verdict State exec r (CM.b_parent cb) LT c _ _ L1 s pr u) as Hv;
      destruct (Body.verify_txs S e h f c t s pr u) as [stf rs u'|v] end; [|discriminate].
    destruct Hv as [_ Hv].
    intros Hacc. assert (rs = rcs).
    { revert Hacc. destruct (negb _); [discriminate|]. destruct (negb _); [discriminate|].
      destruct (pv_pos pv).
      - destruct (negb _); [discriminate|]. destruct (rewards _ _); [|discriminate].
        destruct (negb _); [discriminate|]. intros E. injection E as _ E. exact E.
      - destruct (negb _); [discriminate|]. intros E. injection E as _ E. exact E. }
    subst rs. unfold CM.validate. rewrite L2, <- L3, Hb, Hrev. exact Hv.
  Qed.

  (* 2. ACCEPTS EXACTLY.  C02's acceptance condition (ProofsRules.accept_cond: header, proposer, roots, execution ...) with the
        replay / window / dependency rules taken out: what remains once C09's validate has accepted *)
  Definition accept_rest (cfg : config) (pv : pview) (parent : header) (st0 : State) (b : block) (now : N)
             (st2 : State) (rcs : list receipt) : Prop :=
    let h := b_header b in let num := h_number parent + 1 in
    h_features h = features_at cfg num /\
    header_rules cfg parent h now /\
    exists s mep, proposer_rules cfg pv parent h s mep /\
      h_txs_root h = root_of_txs (b_txs b) /\
      Forall (other_checks_pass cfg num (h_features h)) (b_txs b) /\
      exists stf,
        let st1 := apply_updates (pv_pos pv) num st0
                     (fst (sched_updates (kind_of cfg pv num) (pv_hash pv) (h_time parent) (c_interval cfg) (pv_cands pv) mep
                                         (pv_total pv) (h_time h))) in
        let ctx := ctx_of_header parent h in
        run State exec ctx st1 (b_txs b) = Some (stf, rcs) /\
        h_gas_used h = total_gas rcs /\
        (h_receipts_root h = root_of_receipts rcs \/ b_rr_fix b = Some (root_of_receipts rcs)) /\
        (pv_pos pv = true -> sanity stf = true /\ rewards ctx stf <> None) /\
        h_state_root h = root_of_state (final_state State rewards (pv_pos pv) ctx stf) /\
        st2 = final_state State rewards (pv_pos pv) ctx stf.

  Theorem process_accept_iff_validate cfg pv parent st0 b now r cb st2 rcs :
    wf_gas parent b -> linked cfg parent r b cb -> lookups_total r (CM.b_parent cb) ->
    map CM.rc_rev (CM.b_rcs cb) = map r_reverted rcs ->
    process_on r (CM.b_parent cb) cfg pv parent st0 b now = Accepted State st2 rcs <->
    CM.validate r cb = CM.V_ok /\ accept_rest cfg pv parent st0 b now st2 rcs.
  Proof.
    intros WG (L1 & L2 & L3) LT Hrev. unfold process_on.
    rewrite (process_accept_iff State exec apply_updates rewards sanity root_of_state root_of_receipts root_of_txs
               (has_tx_of r (CM.b_parent cb)) (find_meta_of r (CM.b_parent cb)) cfg pv parent st0 b now st2 rcs WG).
    unfold accept_cond, accept_rest, verify_rules, CM.validate. cbv zeta. rewrite L2, <- L3, Hrev.
    set (num := h_number parent + 1). set (h := b_header b).
    split.
    - intros (A1 & A2 & s & mep & A3 & A4 & A5 & stf & (B1 & B2 & B3 & B4 & B5 & B6 & B7) & A6).
      apply body_rules_iff, body_txs_check_iff in A5. apply (body_accept_iff cfg num (h_features h) _ _ L1) in A5.
      destruct A5 as [C1 C2]. rewrite C1. split.
      + apply (loop_ok_iff_catalogue r (CM.b_parent cb) LT _ _ L1 [] rcs (run_length State exec _ _ _ _ _ B1)). auto.
      + split; [exact A1|]. split; [exact A2|]. exists s, mep. split; [exact A3|]. split; [exact A4|]. split; [exact C2|].
        exists stf. repeat split; auto; apply B6; auto.
    - intros (V & A1 & A2 & s & mep & A3 & A4 & A5 & stf & B1 & B4 & B5 & B6 & B7 & A6).
      destruct (CM.body_rules (c_chain_tag cfg) num (CM.b_txs cb)) eqn:C1; try discriminate.
      apply (loop_ok_iff_catalogue r (CM.b_parent cb) LT _ _ L1 [] rcs (run_length State exec _ _ _ _ _ B1)) in V.
      destruct V as [V1 V2].
      split; [exact A1|]. split; [exact A2|]. exists s, mep. split; [exact A3|]. split; [exact A4|].
      split. { apply body_rules_iff, body_txs_check_iff. apply (body_accept_iff cfg num (h_features h) _ _ L1). auto. }
      exists stf. split; [|exact A6]. repeat split; auto; apply B6; auto.
  Qed.

  (* 3. SAME VERDICT on rejection: a block C02 rejects with one of the six codes of the rules C09 models is rejected by C09's
        validate with the corresponding verdict, the input flags being those of C02's execution from where Process starts
        executing (for the three body codes no transaction was executed and the flags are irrelevant) *)
  Theorem process_replay_reject_same_verdict cfg pv parent st0 b now r cb c v :
    linked cfg parent r b cb -> lookups_total r (CM.b_parent cb) ->
    (forall ctx st1, start_of cfg pv parent st0 b = Some (ctx, st1) ->
                     map CM.rc_rev (CM.b_rcs cb) = exec_flags State exec ctx st1 (b_txs b)) ->
    process_on r (CM.b_parent cb) cfg pv parent st0 b now = Rejected State (Critical c) ->
    replay_class c = Some v ->
    CM.validate r cb = v.
  Proof.
    intros (L1 & L2 & L3) LT Hrev Hp C. pose proof (replay_class_codes c v C) as Hc.
    revert Hp. unfold process_on, Body.process, start_of in *.
    destruct (negb _); [intros E; injection E as <-; lia|].
    destruct (validate_header cfg parent (b_header b) now) eqn:Eh; try (intros E; discriminate E).
    2:{ intros E. injection E as ->. apply validate_header_code in Eh. lia. }
    destruct (validate_proposer cfg pv parent (b_header b)) as [ups|w] eqn:Ep.
    2:{ intros E. injection E as ->. apply validate_proposer_code in Ep. lia. }
    destruct (negb _); [intros E; injection E as <-; lia|].
    pose proof (body_same_verdict cfg (h_number parent + 1) (h_features (b_header b)) _ _ L1) as Hb.
    destruct (body_txs_check cfg (h_number parent + 1) (h_features (b_header b)) (b_txs b)) as [c'|].
    { intros E. injection E as ->. rewrite C in Hb. unfold CM.validate. rewrite L2, <- L3, Hb.
      destruct v; try reflexivity. exfalso. exact (replay_class_not_ok c C). }
    specialize (Hrev _ _ eq_refl).
    unfold Body.verify_block.
    match goal with |- context [Body.verify_txs ?S ?e ?h ?f ?cx ?t ?s ?pr ?u] =>
      pose proof (verify_same_verdict State exec r (CM.b_parent cb) LT cx _ _ L1 s pr u) as Hv;
      destruct (Body.verify_txs S e h f cx t s pr u) as [stf rs u'|w] end.
    - destruct (negb _); [intros E; injection E as <-; lia|]. destruct (negb _); [intros E; injection E as <-; lia|].
      destruct (pv_pos pv).
      + destruct (negb _); [intros E; injection E as <-; lia|]. destruct (rewards _ _); [|discriminate].
        destruct (negb _); [intros E; injection E as <-; lia | discriminate].
      + destruct (negb _); [intros E; injection E as <-; lia | discriminate].
    - intros E. injection E as ->. cbn [loop_class] in Hv. rewrite C in Hv.
      unfold CM.validate. rewrite L2, <- L3, Hb, Hrev. exact Hv.
  Qed.
End Block.

(* ---------------------------------------------------------------- the chain *)
Section ChainLevel.
  Variable State : Type.
  Variable exec : bctx -> State -> txn -> option (State * receipt).
  Variable apply_updates : bool -> N -> State -> list (N * bool) -> State.
  Variable rewards : bctx -> State -> option State.
  Variable sanity : State -> bool.
  Variable root_of_state : State -> N.
  Variable root_of_receipts : list receipt -> N.
  Variable root_of_txs : list txn -> N.
  Variables g gp tag : N.
  Variable U : CM.txrec -> Prop.          (* the transactions that exist (C09: an id determines the body) *)

  Notation process_on := (process_on State exec apply_updates rewards sanity root_of_state root_of_receipts root_of_txs).

  (* admission of a block to a C09 history: C02's Process — whatever the fork configuration, proposer view, parent header,
     parent state and clock it was run with — accepted a view of this block, looking transactions up on the chain of the
     block's parent in THIS repository, and the stored receipts carry the reverted flags Process returned *)
  Definition c02_accepted (r : CM.repo) (cb : CM.blk) (_ : bool) : Prop :=
    (exists cfg pv parent st0 b now st rcs,
        linked cfg parent r b cb /\ map CM.rc_rev (CM.b_rcs cb) = map r_reverted rcs /\
        process_on r (CM.b_parent cb) cfg pv parent st0 b now = Accepted State st rcs) /\
    (forall t, In t (CM.b_txs cb) -> U t).

  (* every history of blocks accepted by C02's Process is a history of blocks accepted by C09's validate *)
  Theorem c02_history_is_c09_history r : CM.num_of g = 0 -> CM.num_of gp = CM.max_u32 ->
    CP.reachable g gp tag c02_accepted r -> CP.reachable g gp tag (Chain.ProofsChainInv.accepted U) r.
  Proof.
    intros Hg Hgp. induction 1 as [|r cb conf best r' R IH V [(cfg & pv & parent & st0 & b & now & st & rcs & L & Hrev & Hp) HU] A].
    - apply CP.reach_init.
    - apply (CP.reach_add _ _ _ _ r cb conf best r' IH V); [|exact A]. split; [|exact HU].
      destruct (CP.add_parent _ _ _ _ _ A) as [ps [Hps _]].
      assert (LT : lookups_total r (CM.b_parent cb)).
      { apply (lookups_total_reachable g gp tag _ r _ Hg Hgp IH). exists ps. exact Hps. }
      exact (process_accepted_validates State exec apply_updates rewards sanity root_of_state root_of_receipts root_of_txs
               cfg pv parent st0 b now r cb st rcs L LT Hrev Hp).
  Qed.

  (* hence C09's first sentence holds on every chain built from blocks C02's Process accepted: seen from any stored head,
     every included transaction exists, has the chain tag and sits inside [ref, ref + expiration]; no id is on the chain
     twice (neither in two blocks nor twice in one) *)
  Theorem c02_chain_at_most_once_in_window :
    (forall t1 t2, U t1 -> U t2 -> CM.tx_id t1 = CM.tx_id t2 -> t1 = t2) -> CM.num_of g = 0 -> CM.num_of gp = CM.max_u32 ->
    forall r, CP.reachable g gp tag c02_accepted r -> forall h, CP.stored r h ->
      (forall a t, CP.anc r h a -> Chain.ProofsChainInv.tx_in r a t ->
                   U t /\ CM.tx_tag t = tag /\ CM.tx_ref t <= CM.num_of a /\ CM.num_of a <= CM.tx_ref t + CM.tx_exp t) /\
      (forall a1 t1 a2 t2, CP.anc r h a1 -> CP.anc r h a2 -> Chain.ProofsChainInv.tx_in r a1 t1 ->
                           Chain.ProofsChainInv.tx_in r a2 t2 -> CM.tx_id t1 = CM.tx_id t2 -> a1 = a2) /\
      (forall a s b, CP.anc r h a -> CM.get_block r a = Some (s, b) -> NoDup (map CM.tx_id (CM.b_txs b))).
  Proof.
    intros Uinj Hg Hgp r R h Sh.
    exact (Chain.ProofsChainInv.accepted_chain_ok g gp tag U Uinj Hg Hgp r (c02_history_is_c09_history r Hg Hgp R) h Sh).
  Qed.

  (* ... and the dependency of every included transaction occurs earlier on the same chain, not reverted *)
  Theorem c02_chain_dependency : CM.num_of g = 0 -> CM.num_of gp = CM.max_u32 ->
    forall r, CP.reachable g gp tag c02_accepted r -> forall h, CP.stored r h ->
      forall a i t rc d, CP.anc r h a -> Chain.ProofsChainDep.tx_at r a i t rc -> CM.tx_dep t = Some d ->
        exists a' i' t' rc', CP.anc r h a' /\ Chain.ProofsChainDep.tx_at r a' i' t' rc' /\ CM.tx_id t' = d /\
                             CM.rc_rev rc' = false /\ (CM.num_of a' < CM.num_of a \/ (a' = a /\ (i' < i)%nat)).
  Proof.
    intros Hg Hgp r R h Sh.
    exact (Chain.ProofsChainDep.accepted_chain_dep_ok g gp tag U Hg Hgp r (c02_history_is_c09_history r Hg Hgp R) h Sh).
  Qed.
End ChainLevel.
