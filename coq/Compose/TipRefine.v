(* Compose/TipRefine.v — C14 <-> C04: the fork-choice premise `tip_rule` of the C14 reader theorems, discharged for the
   histories produced by the node model of coq/Bft.

   The C14 subscriber theorems (Chain/ProofsSys.v: reader_total, reader_quiescent_canonical, reads_converge; restated
   in Properties/C14.v as reader_converges / reader_reaches_best) are proved over Chain.Model histories
   `reachable g gp tag tip_rule r`, in which the `best` flag of every AddBlock is a free input constrained only by
   `tip_rule` (a block whose parent is the current best block becomes best).  Chain/TipRule.v proved that the fork choice
   of the Bft node model (Bft.Model.select) answers true for such a block, but left informal that the `best` flag of a
   Chain history IS that answer.  This file closes that link:

   * the two models encode ids differently.  Bft: id = number * 2^32 + rank, number = id / 2^32 (Bft.Tree.idnum);
     Chain: 32-byte ids, number = the first four bytes = shiftr id 224 (Chain.Model.num_of).  `cid` is the bridge:
     cid id = (idnum id) * 2^224 + id mod 2^32; it is injective and num_of (cid id) = idnum id.
   * a Bft block is abstracted to the Chain block with the mapped id / parent id and an empty body (`cblk`; the reader
     theorems do not look at bodies; timestamps, txs and receipts are not part of the Bft model).
   * `cimport` is the Chain-side step that mirrors Bft.Model.import: nothing when the import is refused (known block, parent
     missing, refused by Accepts), otherwise Chain.Model.add_block with conflicts = scan_conflicts (what
     guardBlockProcessing passes) and best := Bft.Model.select … — EXACTLY the flag Bft.Model.add_and_commit uses to
     move n_best (Node.commitBlock: becomeBest := bft.Select(...); repo.AddBlock(..., becomeBest)).
   * `sim` is the simulation relation (stored ids = image of the Bft repository under cid, same best block, Bft
     invariant, Chain history reachable under tip_rule); `init_sim`, `import_sim` prove it initially and across every
     import step; `bft_history_refines_chain` is the statement over whole import histories.
   * `reader_converges_on_bft_history`: hence the C14 reader conclusions hold on the Chain repository of every Bft
     import history; `bft_sys_refines` covers arbitrary interleavings of imports, own proposals (Bft.Model.propose,
     `propose_sim`) and restarts with reads.

   Premises that remain, per imported block (only for blocks that are actually stored, `storesb`): the height is the
   parent's + 1 (Bft.ProofsNode.valid_child), the total score is strictly above the parent's
   (consensus.validateBlockHeader: "block total score invalid" otherwise; the Bft model carries the score as data and
   does not check it), and the number is below 2^32-1 (Chain's valid_add).  The theorems hold for both values of the F1
   `guard` flag of Bft.Model.commit_block: add_and_commit stores the block and moves best whatever CommitBlock
   answers. *)
From Coq Require Import List NArith ZArith Bool Lia.
From Coq Require Import ZifyN ZifyNat ZifyBool.
From Verif Require Import Chain.Model Chain.Proofs Chain.ProofsWalk Chain.ProofsSys.
From Verif Require Bft.Tree Bft.Model Bft.ProofsChain Bft.ProofsNode Chain.TipRule.
Import ListNotations.
Open Scope N_scope.

Module BT := Verif.Bft.Tree.
Module BM := Verif.Bft.Model.
Module BC := Verif.Bft.ProofsChain.
Module BN := Verif.Bft.ProofsNode.

(* ---------------------------------------------------------------- the id bridge *)
Definition cid (id : N) : N := N.shiftl (BT.idnum id) 224 + id mod BT.id_shift.

Local Transparent num_of.
Lemma cid_num id : num_of (cid id) = BT.idnum id.
Proof.
  unfold cid, num_of. rewrite N.shiftr_div_pow2, N.shiftl_mul_pow2.
  assert (Hp : 2 ^ 224 <> 0) by (apply N.pow_nonzero; discriminate).
  rewrite N.div_add_l by exact Hp. rewrite N.div_small; [apply N.add_0_r|].
  assert (H1 : id mod BT.id_shift < BT.id_shift) by (apply N.mod_lt; discriminate).
  assert (H2 : BT.id_shift < 2 ^ 224) by (vm_compute; reflexivity).
  eapply N.lt_trans; eassumption.
Qed.
Local Opaque num_of.

Lemma cid_inj a b : cid a = cid b -> a = b.
Proof.
  intros E. pose proof (f_equal num_of E) as En. rewrite !cid_num in En.
  unfold cid in E. rewrite En in E. apply N.add_cancel_l in E.
  assert (Hs : BT.id_shift <> 0) by discriminate.
  rewrite (N.div_mod a BT.id_shift Hs), (N.div_mod b BT.id_shift Hs).
  unfold BT.idnum in En. rewrite En, E. reflexivity.
Qed.

(* a Bft block seen as a Chain block: mapped id and parent id, empty body *)
Definition cblk (b : BT.blk) : blk := mkB (cid (BT.b_id b)) (cid (BT.b_parent b)) 0 [] [].

(* ---------------------------------------------------------------- the shape of Bft.Model.import *)
(* the block passes the three guards of import and is handed to add_and_commit *)
Definition storesb (nd : BM.node) (b : BT.blk) : bool :=
  negb (BT.known (BM.n_repo nd) (BT.b_id b)) && BT.known (BM.n_repo nd) (BT.b_parent b) &&
  BM.accepts (BM.n_repo nd) (BM.n_eng nd) (BT.b_parent b).

Lemma storesb_true nd b : storesb nd b = true ->
  BT.known (BM.n_repo nd) (BT.b_id b) = false /\ BT.known (BM.n_repo nd) (BT.b_parent b) = true /\
  BM.accepts (BM.n_repo nd) (BM.n_eng nd) (BT.b_parent b) = true.
Proof.
  unfold storesb. intros H. apply andb_true_iff in H. destruct H as [H H3]. apply andb_true_iff in H. destruct H as [H1 H2].
  apply negb_true_iff in H1. auto.
Qed.

Lemma import_refused guard c nd b : storesb nd b = false -> fst (BM.import guard c nd b) = nd.
Proof.
  unfold storesb, BM.import. intros H.
  destruct (BT.known (BM.n_repo nd) (BT.b_id b)); [reflexivity|].
  destruct (BT.known (BM.n_repo nd) (BT.b_parent b)); cbn [negb]; [|reflexivity].
  destruct (BM.accepts _ _ _); cbn [negb]; [|reflexivity]. discriminate H.
Qed.

Lemma import_stores guard c nd b : storesb nd b = true ->
  BM.import guard c nd b = BM.add_and_commit guard c nd b false.
Proof.
  intros H. destruct (storesb_true nd b H) as [H1 [H2 H3]]. unfold BM.import. rewrite H1, H2, H3. reflexivity.
Qed.

Definition selected (c : BM.cfg) (nd : BM.node) (b : BT.blk) : bool :=
  BM.select c (BM.n_repo nd) (BM.n_eng nd) (BM.best_blk nd) b.

Lemma add_and_commit_shape guard c nd b pk :
  BM.n_repo (fst (BM.add_and_commit guard c nd b pk)) = b :: BM.n_repo nd /\
  BM.n_best (fst (BM.add_and_commit guard c nd b pk)) = if selected c nd b then BT.b_id b else BM.n_best nd.
Proof. unfold BM.add_and_commit, selected. destruct (BM.commit_block _ _ _ _ _ _). split; reflexivity. Qed.

Lemma known_cons b r id : BT.known (b :: r) id = (BT.b_id b =? id) || BT.known r id.
Proof. unfold BT.known, BT.find_blk. cbn [find]. destruct (BT.b_id b =? id); reflexivity. Qed.

Lemma import_repo_incl guard c nd b x :
  In x (BM.n_repo (fst (BM.import guard c nd b))) -> x = b \/ In x (BM.n_repo nd).
Proof.
  destruct (storesb nd b) eqn:Ea.
  - rewrite (import_stores guard c nd b Ea). rewrite (proj1 (add_and_commit_shape guard c nd b false)).
    intros [H|H]; [left; symmetry; exact H | right; exact H].
  - rewrite (import_refused guard c nd b Ea). tauto.
Qed.

(* ---------------------------------------------------------------- the Chain-side step and the simulation relation *)
(* the AddBlock call that mirrors Bft.Model.add_and_commit: conflicts as guardBlockProcessing assigns them, best := Select *)
Definition cadd (c : BM.cfg) (nd : BM.node) (r : repo) (b : BT.blk) : repo :=
  match add_block r (cblk b) (scan_conflicts r (num_of (cid (BT.b_id b)))) (selected c nd b) with
  | Some r' => r'
  | None => r
  end.

Definition cimport (c : BM.cfg) (nd : BM.node) (r : repo) (b : BT.blk) : repo :=
  if storesb nd b then cadd c nd r b else r.

(* what the rest of the node guarantees about a block it stores (header validation).
   SIDE CONDITION: the score clause is enforced by consensus.validateBlockHeader on imported blocks only; own proposals are not
   validated, and under known finding F14 (PoS score rounds to 0) a packed block has its parent's total score, so the clause
   - and with it tip_rule for that history - fails there.  It holds for every PoA proposal and every PoS proposal outside F14. *)
Definition header_ok (nd : BM.node) (b : BT.blk) : Prop :=
  BN.valid_child (BM.n_repo nd) b /\
  (forall p, BT.find_blk (BM.n_repo nd) (BT.b_parent b) = Some p -> BT.b_score p < BT.b_score b) /\
  BT.b_num b < max_u32.

Record sim (c : BM.cfg) (gid gp tag : N) (nd : BM.node) (r : repo) : Prop := mkSim {
  sim_stored : forall x, stored r x <-> exists id, BT.known (BM.n_repo nd) id = true /\ x = cid id;
  sim_best   : r_best r = cid (BM.n_best nd);
  sim_inv    : BN.inv c nd;
  sim_reach  : reachable (cid gid) gp tag tip_rule r }.

Lemma init_sim c g master gp tag : BT.b_num g = 0 ->
  sim c (BT.b_id g) gp tag (BM.init_node g master) (init_repo (cid (BT.b_id g)) gp tag).
Proof.
  intros Hg. constructor.
  - intros x. unfold stored, get_summary, init_repo, BM.init_node. cbn [r_sums afind BM.n_repo]. split.
    + intros [s Hs]. destruct (N.eqb_spec (cid (BT.b_id g)) x) as [E|NE]; [|discriminate].
      exists (BT.b_id g). split; [|symmetry; exact E]. rewrite known_cons, N.eqb_refl. reflexivity.
    + intros [id [Hk ->]]. rewrite known_cons in Hk. cbn in Hk. rewrite orb_false_r in Hk. apply N.eqb_eq in Hk.
      rewrite Hk, N.eqb_refl. eexists. reflexivity.
  - reflexivity.
  - apply BN.init_inv. exact Hg.
  - apply reach_init.
Qed.

(* the engine's caches (casts, Justified()'s entry) play no part in the relation *)
Lemma sim_eng c gid gp tag nd r e' : sim c gid gp tag nd r -> BM.e_qs e' = BM.e_qs (BM.n_eng nd) ->
  sim c gid gp tag (BM.mkN (BM.n_repo nd) (BM.n_best nd) e') r.
Proof.
  intros [Sst Sbest [Hwf Hqs Hb Hm] Sreach] Eq. constructor; cbn [BM.n_repo BM.n_best]; try assumption.
  constructor; cbn [BM.n_repo BM.n_best BM.n_eng]; try assumption. rewrite Eq. exact Hqs.
Qed.

(* AddBlock + CommitBlock on the Bft side = one AddBlock on the Chain side that is valid (valid_add) and obeys tip_rule *)
Theorem add_and_commit_sim guard c gid gp tag nd r b pk : 0 < BM.c_L c ->
  sim c gid gp tag nd r ->
  BT.known (BM.n_repo nd) (BT.b_id b) = false -> BT.known (BM.n_repo nd) (BT.b_parent b) = true -> header_ok nd b ->
  sim c gid gp tag (fst (BM.add_and_commit guard c nd b pk)) (cadd c nd r b) /\
  exists conf best, valid_add r (cblk b) conf /\ tip_rule r (cblk b) best /\
                    add_block r (cblk b) conf best = Some (cadd c nd r b).
Proof.
  intros HL S Ek Ep [Hvc [Hsc Hnum]].
  destruct S as [Sst Sbest Sinv Sreach].
  destruct (proj1 (BC.known_find _ _) Ep) as [p Hp].
  destruct (BC.find_blk_id _ _ _ Hp) as [Hpid _].
  pose proof (Hvc p Hp) as Hn. pose proof (Hsc p Hp) as Hs.
  assert (Spar : stored r (cid (BT.b_parent b))) by (apply Sst; exists (BT.b_parent b); auto).
  destruct Spar as [ps Hps].
  set (conf := scan_conflicts r (num_of (cid (BT.b_id b)))).
  set (best := selected c nd b).
  assert (Ec : cadd c nd r b = match add_block r (cblk b) conf best with Some r' => r' | None => r end) by reflexivity.
  destruct (add_block r (cblk b) conf best) as [r'|] eqn:A.
  2:{ unfold add_block in A. change (b_parent (cblk b)) with (cid (BT.b_parent b)) in A. rewrite Hps in A. discriminate A. }
  rewrite Ec. clear Ec.
  assert (V : valid_add r (cblk b) conf).
  { unfold valid_add. change (b_id (cblk b)) with (cid (BT.b_id b)). change (b_parent (cblk b)) with (cid (BT.b_parent b)).
    rewrite !cid_num. repeat split.
    - destruct (get_summary r (cid (BT.b_id b))) as [s|] eqn:Hs'; [|reflexivity]. exfalso.
      assert (St : stored r (cid (BT.b_id b))) by (exists s; exact Hs').
      apply Sst in St. destruct St as [id [Hk E]]. apply cid_inj in E. subst id. rewrite Hk in Ek. discriminate Ek.
    - unfold BT.b_num in Hn. rewrite Hn, Hpid. reflexivity.
    - exact Hnum.
    - unfold conf. rewrite cid_num. reflexivity. }
  assert (T : tip_rule r (cblk b) best).
  { unfold tip_rule. change (b_parent (cblk b)) with (cid (BT.b_parent b)). rewrite Sbest. intros E.
    apply cid_inj in E. rewrite E in Hp.
    exact (proj1 (Chain.TipRule.child_of_best_is_selected c nd b p HL Sinv Hp E Hn Hs)). }
  split; [|exists conf, best; auto].
  destruct (add_and_commit_shape guard c nd b pk) as [Er Eb].
  constructor.
  - intros x. rewrite Er. unfold stored. rewrite (add_summary r r' (cblk b) conf best A).
    change (b_id (cblk b)) with (cid (BT.b_id b)). destruct (N.eqb_spec (cid (BT.b_id b)) x) as [E|NE].
    + split; [|intros _; eexists; reflexivity]. intros _. exists (BT.b_id b). split; [|symmetry; exact E].
      rewrite known_cons, N.eqb_refl. reflexivity.
    + fold (stored r x). rewrite Sst. split; intros [id [Hk Ex]]; exists id; (split; [|exact Ex]).
      * rewrite known_cons, Hk. apply orb_true_r.
      * rewrite known_cons in Hk. apply orb_true_iff in Hk. destruct Hk as [Hk|Hk]; [|exact Hk].
        apply N.eqb_eq in Hk. subst x id. contradiction NE. reflexivity.
  - rewrite Eb, (add_best r r' (cblk b) conf best A), Sbest. fold best. destruct best; reflexivity.
  - apply BN.add_and_commit_inv; assumption.
  - eapply reach_add; eauto.
Qed.


(* one import step.  The second conjunct says what happened on the Chain side: nothing, or one valid AddBlock call that
   obeys tip_rule *)
Theorem import_sim guard c gid gp tag nd r b : 0 < BM.c_L c ->
  sim c gid gp tag nd r -> (storesb nd b = true -> header_ok nd b) ->
  sim c gid gp tag (fst (BM.import guard c nd b)) (cimport c nd r b) /\
  (cimport c nd r b = r \/
   exists conf best, valid_add r (cblk b) conf /\ tip_rule r (cblk b) best /\
                     add_block r (cblk b) conf best = Some (cimport c nd r b)).
Proof.
  intros HL S Hh. unfold cimport. destruct (storesb nd b) eqn:Ea.
  2:{ rewrite (import_refused guard c nd b Ea). split; [exact S | left; reflexivity]. }
  destruct (storesb_true nd b Ea) as [Ek [Ep _]]. rewrite (import_stores guard c nd b Ea).
  destruct (add_and_commit_sim guard c gid gp tag nd r b false HL S Ek Ep (Hh eq_refl)) as [S' X]. auto.
Qed.

(* proposeAndCommit (the node's own blocks): ShouldVote only fills the casts; then the same AddBlock.  The packer builds
   a fresh block on a stored parent (no guards in Bft.Model.propose), so these two facts are premises here. *)
Lemma should_vote_keeps_qs c r e parent : BM.e_qs (fst (BM.should_vote c r e parent)) = BM.e_qs e.
Proof.
  unfold BM.should_vote. destruct ((BT.idnum parent + 1) / BM.c_L c =? 0); [reflexivity|].
  destruct (BT.find_blk r parent) as [p|]; [|reflexivity].
  destruct (BM.s_q _ =? 0); [reflexivity|].
  destruct (if BM.s_just _ then _ else _) as [recent|code]; reflexivity.
Qed.

Definition voted_node (c : BM.cfg) (nd : BM.node) (b : BT.blk) : BM.node :=
  BM.mkN (BM.n_repo nd) (BM.n_best nd) (fst (BM.should_vote c (BM.n_repo nd) (BM.n_eng nd) (BT.b_parent b))).

Definition cpropose (c : BM.cfg) (nd : BM.node) (r : repo) (b : BT.blk) : repo :=
  match snd (BM.should_vote c (BM.n_repo nd) (BM.n_eng nd) (BT.b_parent b)) with
  | BM.Ok _ => cadd c (voted_node c nd b) r b
  | BM.Err _ => r
  end.

Theorem propose_sim guard c gid gp tag nd r b : 0 < BM.c_L c ->
  sim c gid gp tag nd r ->
  BT.known (BM.n_repo nd) (BT.b_id b) = false -> BT.known (BM.n_repo nd) (BT.b_parent b) = true -> header_ok nd b ->
  sim c gid gp tag (fst (fst (BM.propose guard c nd b))) (cpropose c nd r b) /\
  (cpropose c nd r b = r \/
   exists conf best, valid_add r (cblk b) conf /\ tip_rule r (cblk b) best /\
                     add_block r (cblk b) conf best = Some (cpropose c nd r b)).
Proof.
  intros HL S Ek Ep Hh.
  pose proof (sim_eng c gid gp tag nd r _ S (should_vote_keeps_qs c (BM.n_repo nd) (BM.n_eng nd) (BT.b_parent b))) as S1.
  fold (voted_node c nd b) in S1.
  unfold BM.propose, cpropose. unfold voted_node in *.
  destruct (BM.should_vote c (BM.n_repo nd) (BM.n_eng nd) (BT.b_parent b)) as [e1 v]. cbn [fst snd] in *.
  destruct v as [vb|code]; cbn [fst].
  - destruct (add_and_commit_sim guard c gid gp tag _ r b true HL S1 Ek Ep Hh) as [S' X].
    destruct (BM.add_and_commit guard c _ b true) as [nd' code]. cbn [fst] in *. auto.
  - split; [exact S1 | left; reflexivity].
Qed.

Lemma restart_sim c gid gp tag nd r : sim c gid gp tag nd r -> sim c gid gp tag (BM.restart nd) r.
Proof. intros S. unfold BM.restart. apply sim_eng; [exact S | reflexivity]. Qed.

(* ---------------------------------------------------------------- whole import histories *)
(* the two sides run in lock step *)
Fixpoint crun (guard : bool) (c : BM.cfg) (nd : BM.node) (r : repo) (bs : list BT.blk) : BM.node * repo :=
  match bs with
  | [] => (nd, r)
  | b :: t => crun guard c (fst (BM.import guard c nd b)) (cimport c nd r b) t
  end.

Lemma crun_node guard c bs : forall nd r, fst (crun guard c nd r bs) = BN.import_all c guard nd bs.
Proof. induction bs as [|b t IH]; intros nd r; [reflexivity|]. cbn [crun BN.import_all]. apply IH. Qed.

(* the Chain repository of a Bft import history: NewRepository, then one AddBlock per stored block *)
Definition chain_of_history (guard : bool) (c : BM.cfg) (g : BT.blk) (master gp tag : N) (bs : list BT.blk) : repo :=
  snd (crun guard c (BM.init_node g master) (init_repo (cid (BT.b_id g)) gp tag) bs).

(* the per-block premises, required in the states the history actually goes through and only for blocks that get stored *)
Fixpoint history_ok (guard : bool) (c : BM.cfg) (nd : BM.node) (bs : list BT.blk) : Prop :=
  match bs with
  | [] => True
  | b :: t => (storesb nd b = true -> header_ok nd b) /\ history_ok guard c (fst (BM.import guard c nd b)) t
  end.

Lemma crun_sim guard c gid gp tag : 0 < BM.c_L c -> forall bs nd r,
  sim c gid gp tag nd r -> history_ok guard c nd bs ->
  sim c gid gp tag (fst (crun guard c nd r bs)) (snd (crun guard c nd r bs)).
Proof.
  intros HL. induction bs as [|b t IH]; intros nd r S H; [exact S|].
  cbn [crun]. destruct H as [Hb Ht]. apply IH; [|exact Ht].
  exact (proj1 (import_sim guard c gid gp tag nd r b HL S Hb)).
Qed.

Theorem bft_history_refines_chain c guard g master gp tag bs :
  0 < BM.c_L c -> BT.b_num g = 0 -> history_ok guard c (BM.init_node g master) bs ->
  let nd := BN.import_all c guard (BM.init_node g master) bs in
  let r := chain_of_history guard c g master gp tag bs in
  num_of (cid (BT.b_id g)) = 0 /\
  reachable (cid (BT.b_id g)) gp tag tip_rule r /\
  (forall x, stored r x <-> exists id, BT.known (BM.n_repo nd) id = true /\ x = cid id) /\
  r_best r = cid (BM.n_best nd) /\
  BN.inv c nd.
Proof.
  intros HL Hg H nd r.
  pose proof (crun_sim guard c (BT.b_id g) gp tag HL bs _ _ (init_sim c g master gp tag Hg) H) as S.
  rewrite crun_node in S. fold nd in S. fold (chain_of_history guard c g master gp tag bs) in S. fold r in S.
  destruct S as [S1 S2 S3 S4]. split; [rewrite cid_num; exact Hg|]. auto.
Qed.

(* the same with the premises stated once and for all on the block tree the history is drawn from (the style of
   Bft.Safety.commit_block_total_statement): every block of the list whose parent is in the tree has the parent's
   number + 1 and a larger total score.  Orders, duplicates, orphans and blocks refused by Accepts are unrestricted. *)
Definition tree_ok (g : BT.blk) (bs : list BT.blk) : Prop :=
  (forall b p, In b bs -> In p (g :: bs) -> BT.b_id p = BT.b_parent b ->
               BT.b_num b = BT.b_num p + 1 /\ BT.b_score p < BT.b_score b) /\
  (forall b, In b bs -> BT.b_num b < max_u32).

Lemma tree_history_ok guard c g bs : tree_ok g bs -> forall rest nd,
  (forall x, In x (BM.n_repo nd) -> In x (g :: bs)) -> (forall b, In b rest -> In b bs) ->
  history_ok guard c nd rest.
Proof.
  intros [HT HN]. induction rest as [|b rest IH]; intros nd Hsub Hrest; [exact I|].
  cbn [history_ok]. assert (Hb : In b bs) by (apply Hrest; left; reflexivity). split.
  - intros _. repeat split.
    + intros p Hp. destruct (BC.find_blk_id _ _ _ Hp) as [Hid Hin]. exact (proj1 (HT b p Hb (Hsub p Hin) Hid)).
    + intros p Hp. destruct (BC.find_blk_id _ _ _ Hp) as [Hid Hin]. exact (proj2 (HT b p Hb (Hsub p Hin) Hid)).
    + exact (HN b Hb).
  - apply IH.
    + intros x Hx. destruct (import_repo_incl guard c nd b x Hx) as [->|Hx']; [right; exact Hb | exact (Hsub x Hx')].
    + intros b' Hb'. apply Hrest. right. exact Hb'.
Qed.

Theorem bft_tree_history_refines_chain c guard g master gp tag bs :
  0 < BM.c_L c -> BT.b_num g = 0 -> tree_ok g bs ->
  let nd := BN.import_all c guard (BM.init_node g master) bs in
  let r := chain_of_history guard c g master gp tag bs in
  num_of (cid (BT.b_id g)) = 0 /\
  reachable (cid (BT.b_id g)) gp tag tip_rule r /\
  (forall x, stored r x <-> exists id, BT.known (BM.n_repo nd) id = true /\ x = cid id) /\
  r_best r = cid (BM.n_best nd) /\
  BN.inv c nd.
Proof.
  intros HL Hg HT. apply bft_history_refines_chain; [exact HL | exact Hg |].
  apply (tree_history_ok guard c g bs HT bs).
  - cbn [BM.init_node BM.n_repo]. intros x [<-|[]]. left. reflexivity.
  - auto.
Qed.

(* ---------------------------------------------------------------- the C14 reader conclusions on Bft histories *)
(* a subscriber that starts, after any Bft import history, at any stored block holding the path to it: it is a `sys`
   state with the fork-choice premise discharged, so reads never fail, the stream applies to its stack, a quiescent
   subscriber holds the canonical chain, and it becomes quiescent at the node's best block (Bft's n_best) within
   height(best)+1 reads *)
Theorem reader_converges_on_bft_history c guard g master gp tag bs pos st :
  0 < BM.c_L c -> BT.b_num g = 0 -> history_ok guard c (BM.init_node g master) bs ->
  let nd := BN.import_all c guard (BM.init_node g master) bs in
  let r := chain_of_history guard c g master gp tag bs in
  is_path r pos st ->
  sys (cid (BT.b_id g)) gp tag r pos st /\
  r_best r = cid (BM.n_best nd) /\
  (exists l np st', read r pos = Ok (l, np) /\ apply_stream r st l = Some st' /\
      (forall a, In (a, true) l -> anc r pos a /\ ~ anc r (r_best r) a) /\
      (pos <> r_best r -> anc r (r_best r) np)) /\
  (forall np, read r pos = Ok ([], np) -> pos = r_best r /\ is_path r (r_best r) st) /\
  (exists k stB, (k <= N.to_nat (num_of (r_best r)) + 1)%nat /\
                 run_reads r k pos st = Some (r_best r, stB) /\ is_path r (r_best r) stB).
Proof.
  intros HL Hg H nd r P.
  destruct (bft_history_refines_chain c guard g master gp tag bs HL Hg H) as [Hg0 [R [_ [Eb _]]]].
  fold r in R, Eb. fold nd in Eb.
  assert (S : sys (cid (BT.b_id g)) gp tag r pos st) by (apply sys_start; assumption).
  split; [exact S|]. split; [exact Eb|]. split; [|split].
  - exact (reader_total _ gp tag Hg0 r pos st S).
  - intros np. exact (reader_quiescent_canonical _ gp tag Hg0 r pos st np S).
  - exact (reads_converge _ gp r (reachable_wf _ _ _ _ _ Hg0 R) (reachable_wf_body _ _ _ _ _ Hg0 R)
             (reachable_best_tip _ _ _ _ Hg0 R) pos st P).
Qed.

(* interleavings: the three events of the Bft node model — imports, own proposals (proposeAndCommit), restarts — each
   stored block with its per-block premises, between the reads of a subscriber.  Every such run is a `sys` run of C14
   (imports / proposals are sys_add steps or no-ops, a restart changes neither repository), with the two sides still in
   simulation; hence reader_total / reader_quiescent_canonical apply in every state of the run. *)
Section BftSys.
  Variables (c : BM.cfg) (guard : bool) (g : BT.blk) (master gp tag : N).
  Hypothesis HL : 0 < BM.c_L c.
  Hypothesis Hg : BT.b_num g = 0.

  Inductive bft_sys : BM.node -> repo -> N -> list N -> Prop :=
  | bsys_start bs pos st :
      history_ok guard c (BM.init_node g master) bs ->
      is_path (chain_of_history guard c g master gp tag bs) pos st ->
      bft_sys (BN.import_all c guard (BM.init_node g master) bs) (chain_of_history guard c g master gp tag bs) pos st
  | bsys_import nd r pos st b :
      bft_sys nd r pos st -> (storesb nd b = true -> header_ok nd b) ->
      bft_sys (fst (BM.import guard c nd b)) (cimport c nd r b) pos st
  | bsys_propose nd r pos st b :
      bft_sys nd r pos st ->
      BT.known (BM.n_repo nd) (BT.b_id b) = false -> BT.known (BM.n_repo nd) (BT.b_parent b) = true -> header_ok nd b ->
      bft_sys (fst (fst (BM.propose guard c nd b))) (cpropose c nd r b) pos st
  | bsys_restart nd r pos st : bft_sys nd r pos st -> bft_sys (BM.restart nd) r pos st
  | bsys_read nd r pos st l np st' :
      bft_sys nd r pos st -> read r pos = Ok (l, np) -> apply_stream r st l = Some st' -> bft_sys nd r np st'.

  Theorem bft_sys_refines nd r pos st : bft_sys nd r pos st ->
    sim c (BT.b_id g) gp tag nd r /\ sys (cid (BT.b_id g)) gp tag r pos st.
  Proof.
    induction 1 as [bs pos st H P | nd r pos st b _ [S Y] Hb | nd r pos st b _ [S Y] Ek Ep Hb | nd r pos st _ [S Y]
                   | nd r pos st l np st' _ [S Y] E Ap].
    - pose proof (crun_sim guard c (BT.b_id g) gp tag HL bs _ _ (init_sim c g master gp tag Hg) H) as S.
      rewrite crun_node in S. fold (chain_of_history guard c g master gp tag bs) in S.
      split; [exact S|]. apply sys_start; [exact (sim_reach _ _ _ _ _ _ S) | exact P].
    - destruct (import_sim guard c (BT.b_id g) gp tag nd r b HL S Hb) as [S' [E|[conf [best [V [T A]]]]]].
      + split; [exact S'|]. rewrite E. exact Y.
      + split; [exact S'|]. exact (sys_add _ _ _ r pos st (cblk b) conf best _ Y V T A).
    - destruct (propose_sim guard c (BT.b_id g) gp tag nd r b HL S Ek Ep Hb) as [S' [E|[conf [best [V [T A]]]]]].
      + split; [exact S'|]. rewrite E. exact Y.
      + split; [exact S'|]. exact (sys_add _ _ _ r pos st (cblk b) conf best _ Y V T A).
    - split; [apply restart_sim; exact S | exact Y].
    - split; [exact S|]. exact (sys_read _ _ _ r pos st l np st' Y E Ap).
  Qed.

  Corollary bft_sys_reader nd r pos st : bft_sys nd r pos st ->
    r_best r = cid (BM.n_best nd) /\ is_path r pos st /\
    (exists l np st', read r pos = Ok (l, np) /\ apply_stream r st l = Some st' /\
        (forall a, In (a, true) l -> anc r pos a /\ ~ anc r (r_best r) a) /\
        (pos <> r_best r -> anc r (r_best r) np)) /\
    (forall np, read r pos = Ok ([], np) -> pos = r_best r /\ is_path r (r_best r) st).
  Proof.
    intros B. destruct (bft_sys_refines nd r pos st B) as [S Y].
    assert (Hg0 : num_of (cid (BT.b_id g)) = 0) by (rewrite cid_num; exact Hg).
    split; [exact (sim_best _ _ _ _ _ _ S)|]. split; [exact (proj2 (sys_inv _ gp tag Hg0 _ _ _ Y))|]. split.
    - exact (reader_total _ gp tag Hg0 r pos st Y).
    - intros np. exact (reader_quiescent_canonical _ gp tag Hg0 r pos st np Y).
  Qed.
End BftSys.

(* ---------------------------------------------------------------- non-vacuity *)
(* genesis, x1, then the fork x2 / y2 on x1 (equal score: the smaller id x2 stays best), a duplicate of x1, an orphan,
   and y3 on y2: the node reorganises onto the y branch.  Epoch length 180: no block is justified, Select decides by
   total score and id. *)
Definition ex_cfg : BM.cfg := BM.mkCfg 180 3 false 0 [].
Definition ex_gen : BT.blk := BT.mkB (BT.mkid 0 1) 0 0 false 0.
Definition ex_x1 : BT.blk := BT.mkB (BT.mkid 1 1) (BT.mkid 0 1) 1 false 1.
Definition ex_x2 : BT.blk := BT.mkB (BT.mkid 2 1) (BT.mkid 1 1) 2 false 2.
Definition ex_y2 : BT.blk := BT.mkB (BT.mkid 2 2) (BT.mkid 1 1) 3 false 2.
Definition ex_orphan : BT.blk := BT.mkB (BT.mkid 5 1) (BT.mkid 4 1) 1 false 5.
Definition ex_y3 : BT.blk := BT.mkB (BT.mkid 3 1) (BT.mkid 2 2) 1 false 3.
Definition ex_bs : list BT.blk := [ex_x1; ex_x2; ex_y2; ex_x1; ex_orphan; ex_y3].
Definition ex_gp : N := N.shiftl max_u32 224.
Definition ex_repo : repo := chain_of_history true ex_cfg ex_gen 7 ex_gp 39 ex_bs.

Example ex_tree_ok : 0 < BM.c_L ex_cfg /\ BT.b_num ex_gen = 0 /\ tree_ok ex_gen ex_bs.
Proof.
  split; [reflexivity|]. split; [reflexivity|]. split.
  - intros b p Hb Hp E. cbn [ex_bs In] in Hb, Hp.
    repeat (destruct Hb as [<-|Hb]; [repeat (destruct Hp as [<-|Hp]; [try (vm_compute in E; discriminate E); vm_compute; split; reflexivity|]); destruct Hp|]).
    destruct Hb.
  - intros b Hb. cbn [ex_bs In] in Hb. repeat (destruct Hb as [<-|Hb]; [vm_compute; reflexivity|]). destruct Hb.
Qed.

(* the fork and the reorganisation on the Bft side, and the Chain repository computed by the abstraction: same best block
   (through cid), the four stored non-genesis blocks, and a subscriber left on the abandoned branch is led to the new
   canonical chain *)
Example ex_history :
  BM.n_best (BN.import_all ex_cfg true (BM.init_node ex_gen 7) [ex_x1; ex_x2; ex_y2]) = BT.mkid 2 1 /\
  BM.n_best (BN.import_all ex_cfg true (BM.init_node ex_gen 7) ex_bs) = BT.mkid 3 1 /\
  r_best ex_repo = cid (BT.mkid 3 1) /\
  map fst (r_sums ex_repo) = map cid [BT.mkid 3 1; BT.mkid 2 2; BT.mkid 2 1; BT.mkid 1 1; BT.mkid 0 1] /\
  read ex_repo (cid (BT.mkid 2 1)) = Ok ([(cid (BT.mkid 2 1), true); (cid (BT.mkid 2 2), false)], cid (BT.mkid 2 2)) /\
  run_reads ex_repo 2 (cid (BT.mkid 2 1)) (map cid [BT.mkid 2 1; BT.mkid 1 1; BT.mkid 0 1]) =
    Some (cid (BT.mkid 3 1), map cid [BT.mkid 3 1; BT.mkid 2 2; BT.mkid 1 1; BT.mkid 0 1]).
Proof. vm_compute. repeat split. Qed.

Example ex_path : is_path ex_repo (cid (BT.mkid 2 1)) (map cid [BT.mkid 2 1; BT.mkid 1 1; BT.mkid 0 1]).
Proof.
  assert (G : r_gen ex_repo = cid (BT.mkid 0 1)) by (vm_compute; reflexivity).
  cbn [map].
  eapply path_step; [vm_compute; reflexivity | vm_compute; discriminate |]. cbn [s_parent].
  eapply path_step; [vm_compute; reflexivity | vm_compute; discriminate |]. cbn [s_parent].
  rewrite <- G. apply path_gen.
Qed.

(* all hypotheses of the main theorems hold of the example: the theorems apply to it *)
Example ex_refines :
  reachable (cid (BT.b_id ex_gen)) ex_gp 39 tip_rule ex_repo /\
  sys (cid (BT.b_id ex_gen)) ex_gp 39 ex_repo (cid (BT.mkid 2 1)) (map cid [BT.mkid 2 1; BT.mkid 1 1; BT.mkid 0 1]).
Proof.
  destruct ex_tree_ok as [HL [Hg HT]].
  assert (H : history_ok true ex_cfg (BM.init_node ex_gen 7) ex_bs).
  { apply (tree_history_ok true ex_cfg ex_gen ex_bs HT ex_bs); [|auto].
    cbn [BM.init_node BM.n_repo]. intros x [<-|[]]. left. reflexivity. }
  split.
  - exact (proj1 (proj2 (bft_history_refines_chain ex_cfg true ex_gen 7 ex_gp 39 ex_bs HL Hg H))).
  - exact (proj1 (reader_converges_on_bft_history ex_cfg true ex_gen 7 ex_gp 39 ex_bs _ _ HL Hg H ex_path)).
Qed.
