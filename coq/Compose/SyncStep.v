(* Compose/SyncStep.v — composition C19 <-> C04, second round: the STEP simulation between Sync/Model.v's abstract node
   (C19: `import`, `import_all`, the node of sync_converges) and Bft/Model.v's real node step (C04: `import guard c nd b`).

   First round (Compose/SyncOrder.v): Sync's `better` IS bft.Select and `best_max` follows from C04's invariant; Sync's
   `valid : Blk -> bool` stayed an arbitrary function.  Here `valid` becomes bft.Accepts and Sync's run becomes the run
   of the Bft node:

     1. valid_bft U fin i := Accepts evaluated in the universe tree U against the finalized id fin
        (idnum fin = 0, or fin is on the chain of i's parent).  valid_bft_is_accepts: for every node with `inv c nd`,
        repository inside the well-formed U, parent stored, e_fin = fin, it is `accepts (n_repo nd) (n_eng nd) (b_parent b)`.
     2. STEP (step_sim; step_accepted / step_rejected / step_commit_error): for nd with `inv c nd`, b in U,
        e_fin (n_eng nd) = fin:  Sync.import (valid_bft U fin) (sbetter c U) (sync_node nd) (b_id b) is
          Some (sync_node nd')  when Bft's import answers (nd', 0) or (nd', 1),
          None                  when it answers code 2 (parent missing) or 3 (refused by Accepts), and then nd' = nd.
        No numbering premise: `valid_child` is read off the well-formed universe (valid_child_U).
        Code 100+err (CommitBlock failed): Bft's model has stored the block and updated best, as the Go code has
        (cmd/thor/node/block_exec.go commitBlock: repo.AddBlock precedes bft.CommitBlock) — Sync's answer `Some
        (sync_node nd')` agrees with the STATE — but commitBlock returns the error, processBlock logs and returns it and
        handleBlockStream (node.go) ends the stream: for the STREAM the Go node behaves like Sync's `None`.  Sync/Model.v has
        no outcome "stored and aborted" (its `valid` abstracts consensus.Process + bft.Accepts, both of which run BEFORE
        anything is stored), so the stream theorems carry the side condition no_commit_error ("CommitBlock does not fail
        during the stream").  It is DISCHARGED for the repaired code: no_commit_error_guarded (guard = true, finalized at a
        checkpoint number — C04 commit_block_total).
     3. STREAM (stream_sim): Sync.import_all over the ids = (sync_node nd_stop, verdict) where (nd_stop, verdict) is Bft's
        handleBlockStream (import_stream: code 1 swallowed, any other non-zero code ends the stream), under
        fin_fixed ("finalized does not move during the stream": every block of the stream is presented to a node whose
        finalized id is fin; the node after the last import is free) and no_commit_error.  stream_sim_ok: all codes 0/1
        gives (sync_node (ProofsNode.import_all c guard nd l), true); stream_sim_codes: conversely a successful Sync
        run means Bft refused nothing.
     4. CONCLUSION (sync_converges_bft_node): SyncOrder.sync_converges_bft_order at valid := valid_bft U fin; the premise
        "every block of the peer's chain is valid" is replaced by its meaning, and only for blocks the node does not
        store: fin has number 0 or is on the U-chain of the block's parent.  The conclusion is about the REAL node: the
        final Sync state is sync_node nd' for nd' := the Bft node after importing the downloaded blocks, every result
        code is 0 or 1, inv c nd' holds and n_best nd' = the peer's head.
     5. What fin_fixed excludes, and why it cannot simply be dropped.  When CommitBlock finalizes a new checkpoint in the
        middle of a stream, Accepts becomes stricter for the blocks that follow: the verdict on a block is a function of
        the block AND the node's state at arrival, while Sync/Model.v's `valid : Blk -> bool` has no state argument.
        Concretely (Example fin_moves_valid_is_not_a_function): finalized = m2, the fork block f4 hangs off m3; the
        stream [f4; m6; m7] imports f4 with code 0, the stream [m6; m7; f4] refuses it with code 3 because m7 has moved
        finalized to m4 — no single function `valid` reproduces both runs (at fin = m2 Sync accepts f4 in both orders).
        What IS true without fin_fixed — the monotone variant, proved here: CommitBlock moves finalized only to a block
        of the imported block's own chain (ProofsFinal.commit_block_finalized, ProofsMonotone.add_and_commit_monotone), so
        for a stream that is ONE CHAIN hanging off a stored block (what an honest peer's download is) the stricter
        Accepts keeps answering true: stream_sim_chain, sync_converges_bft_node_chain (premise fin_ok nd instead of
        fin_fixed) and sync_converges_bft_node_guarded (guard = true: NO side condition about the run is left; the
        remaining premises are about the node before the download — inv, fin_ok, fin_cp, all three kept by every import
        history from genesis — the two chains and the universe).  Left open: streams that are not one chain AND move
        finalized (the Sync model would need a state-dependent `valid`).
     6. non-vacuity: SyncOrder's instance (finalized = genesis), a second instance whose finalized block is NOT genesis
        (m2, then m4, m6), the F1 tree of C04 for the CommitBlock-error step. *)
From Coq Require Import List NArith ZArith Bool Lia.
From Coq Require Import ZifyN ZifyNat ZifyBool.
From Verif Require Import Common.Util Bft.Tree Bft.Model Bft.Quorum Bft.ProofsTally Bft.ProofsChain Bft.ProofsNode
  Bft.ProofsFinal Bft.ProofsMonotone Bft.ProofsCommit Bft.Safety.
From Verif Require Sync.Model Sync.Proofs Sync.ProofsDownload Sync.ProofsConverge.
From Verif Require Import Compose.SyncOrder.
Import ListNotations.
Open Scope N_scope.

(* ---------------------------------------------------------------- 0. well-formed universe: ids, parents, the root *)

Lemma wf_id_inj U x y : wf_repo U -> In x U -> In y U -> b_id x = b_id y -> x = y.
Proof.
  intros W Hx Hy E. pose proof (chain_of_stored U x W Hx) as Fx. pose proof (chain_of_stored U y W Hy) as Fy.
  rewrite E, Fy in Fx. inversion Fx. reflexivity.
Qed.

(* every block of a well-formed repository is the root (number 0) or has its parent stored, one number below *)
Lemma wf_has_parent U : wf_repo U -> forall b, In b U ->
  b_num b = 0 \/ exists p, In p U /\ b_id p = b_parent b /\ b_num b = b_num p + 1.
Proof.
  induction U as [|x rest IH]; intros W b Hin; [destruct Hin|].
  cbn [wf_repo] in W. destruct W as [W [_ Hpar]]. destruct Hin as [<-|Hin].
  - destruct rest as [|y r']; [left; exact Hpar|].
    destruct Hpar as [p [Hp Hn]]. destruct (find_blk_id _ _ _ Hp) as [Hid Hpin].
    right. exists p. split; [right; exact Hpin | split; [exact Hid | exact Hn]].
  - destruct (IH W b Hin) as [H0 | [p [Hpin [Hid Hn]]]]; [left; exact H0|].
    right. exists p. split; [right; exact Hpin | split; [exact Hid | exact Hn]].
Qed.

Lemma wf_last_zero r : wf_repo r -> r <> [] -> forall d, b_num (last r d) = 0.
Proof.
  induction r as [|x rest IH]; intros W Hne d; [contradiction Hne; reflexivity|].
  cbn [wf_repo] in W. destruct W as [W [_ Hpar]]. destruct rest as [|y r']; [exact Hpar|].
  change (last (x :: y :: r') d) with (last (y :: r') d). apply IH; [exact W | discriminate].
Qed.

Lemma wf_zero_is_last U : wf_repo U -> forall b d, In b U -> b_num b = 0 -> b = last U d.
Proof.
  induction U as [|x rest IH]; intros W b d Hin H0; [destruct Hin|].
  cbn [wf_repo] in W. destruct W as [W [_ Hpar]]. destruct rest as [|y r'].
  - destruct Hin as [<-|[]]. reflexivity.
  - change (last (x :: y :: r') d) with (last (y :: r') d). destruct Hin as [<-|Hin].
    + destruct Hpar as [p [_ Hn]]. lia.
    + exact (IH W b d Hin H0).
Qed.

(* the root of the universe is stored by every non-empty well-formed sub-repository *)
Lemma root_known U r b : wf_repo U -> wf_repo r -> r <> [] -> (forall x, In x r -> In x U) ->
  In b U -> b_num b = 0 -> known r (b_id b) = true.
Proof.
  intros WU Wr Hne Hsub Hb H0.
  assert (Hl : In (last r b) r) by (apply last_in; exact Hne).
  pose proof (wf_zero_is_last U WU (last r b) b (Hsub _ Hl) (wf_last_zero r Wr Hne b)) as E1.
  pose proof (wf_zero_is_last U WU b b Hb H0) as E2.
  rewrite <- E2 in E1. rewrite E1 in Hl. apply known_in. exact Hl.
Qed.

(* a block of the universe that the sub-repository does not store carries its stored parent's number plus one *)
Lemma valid_child_U U r b : wf_repo U -> wf_repo r -> r <> [] -> (forall x, In x r -> In x U) ->
  In b U -> known r (b_id b) = false -> valid_child r b.
Proof.
  intros WU Wr Hne Hsub Hb Hfresh p Hp. destruct (find_blk_id _ _ _ Hp) as [Hid Hpin].
  destruct (wf_has_parent U WU b Hb) as [H0 | [p' [Hp'in [Hid' Hn]]]].
  - rewrite (root_known U r b WU Wr Hne Hsub Hb H0) in Hfresh. discriminate.
  - assert (p = p') by (apply (wf_id_inj U p p' WU (Hsub _ Hpin) Hp'in); rewrite Hid, Hid'; reflexivity).
    subst p'. exact Hn.
Qed.

Lemma inv_nonempty c nd : inv c nd -> n_repo nd <> [].
Proof. intros I E. destruct (inv_best c nd I) as [bb Hbb]. rewrite E in Hbb. discriminate. Qed.

(* ---------------------------------------------------------------- 1. the state-independent validity *)

Definition valid_bft (U : repo) (fin i : N) : bool :=
  if negb (idnum fin =? 0) then has_block U (sparent U i) fin else true.

Lemma valid_bft_is_accepts_U U fin i : valid_bft U fin i = accepts U (mkE 0 fin [] None None) (sparent U i).
Proof. reflexivity. Qed.

Lemma valid_bft_spec U fin i : valid_bft U fin i = true <-> (idnum fin = 0 \/ has_block U (sparent U i) fin = true).
Proof.
  unfold valid_bft. destruct (idnum fin =? 0) eqn:E; cbn [negb].
  - apply N.eqb_eq in E. split; [intros _; left; exact E | reflexivity].
  - apply N.eqb_neq in E. split; [intros H; right; exact H | intros [H|H]; [contradiction | exact H]].
Qed.

Lemma sparent_stored U b : wf_repo U -> In b U -> sparent U (b_id b) = b_parent b.
Proof. intros W Hin. unfold sparent. rewrite (blk_of_stored U b W Hin). reflexivity. Qed.

Lemma valid_bft_accepts_repo U r e b p : wf_repo r -> wf_repo U -> (forall x, In x r -> In x U) -> In b U ->
  find_blk r (b_parent b) = Some p -> valid_bft U (e_fin e) (b_id b) = accepts r e (b_parent b).
Proof.
  intros Wr WU Hsub Hb Hp. unfold valid_bft, accepts. rewrite (sparent_stored U b WU Hb).
  destruct (negb (idnum (e_fin e) =? 0)); [|reflexivity].
  destruct (find_blk_id _ _ _ Hp) as [Hid Hpin]. unfold has_block. rewrite <- Hid.
  rewrite (chain_of_sub_stored r U p Wr WU Hsub Hpin). reflexivity.
Qed.

Theorem valid_bft_is_accepts c U nd b fin : inv c nd -> wf_repo U -> (forall x, In x (n_repo nd) -> In x U) -> In b U ->
  known (n_repo nd) (b_parent b) = true -> e_fin (n_eng nd) = fin ->
  accepts (n_repo nd) (n_eng nd) (b_parent b) = valid_bft U fin (b_id b).
Proof.
  intros I WU Hsub Hb Hpk <-. apply known_find in Hpk. destruct Hpk as [p Hp]. symmetry.
  exact (valid_bft_accepts_repo U (n_repo nd) (n_eng nd) b p (inv_wf c nd I) WU Hsub Hb Hp).
Qed.

(* ---------------------------------------------------------------- 2. the step *)

Lemma sync_known_eq r best i : Sync.Model.known N sbid (Sync.Model.mkNode N (map b_id r) best) i = known r i.
Proof.
  unfold Sync.Model.known, known, find_blk, sbid. cbn [Sync.Model.store].
  induction r as [|x r IH]; [reflexivity|]. cbn [map existsb find].
  destruct (b_id x =? i); [reflexivity | exact IH].
Qed.

Lemma sync_known_node nd i : Sync.Model.known N sbid (sync_node nd) i = known (n_repo nd) i.
Proof. unfold sync_node. apply sync_known_eq. Qed.

Definition rejected (code : N) : bool := (code =? 2) || (code =? 3).

(* the step for ANY validity function that answers bft.Accepts on the block at hand *)
Lemma step_sim_gen c guard U nd b (v : N -> bool) : 0 < c_L c -> inv c nd -> wf_repo U ->
  (forall x, In x (n_repo nd) -> In x U) -> In b U ->
  (known (n_repo nd) (b_id b) = false -> known (n_repo nd) (b_parent b) = true ->
   v (b_id b) = accepts (n_repo nd) (n_eng nd) (b_parent b)) ->
  Sync.Model.import N sbid (sparent U) v (sbetter c U) (sync_node nd) (b_id b) =
  if rejected (snd (import guard c nd b)) then None else Some (sync_node (fst (import guard c nd b))).
Proof.
  intros HL I WU Hsub Hb Hv. pose proof (inv_wf c nd I) as Wr. pose proof (inv_nonempty c nd I) as Hne.
  unfold Sync.Model.import, import. rewrite !sync_known_node. unfold sbid at 1.
  destruct (known (n_repo nd) (b_id b)) eqn:Ek; [reflexivity|].
  rewrite (sparent_stored U b WU Hb).
  destruct (known (n_repo nd) (b_parent b)) eqn:Ep; cbn [negb andb]; [|reflexivity].
  rewrite (Hv eq_refl eq_refl).
  destruct (accepts (n_repo nd) (n_eng nd) (b_parent b)) eqn:Ea; cbn [negb]; [|reflexivity].
  pose proof Ep as Ep'. apply known_find in Ep'. destruct Ep' as [p Hp].
  pose proof (valid_child_U U (n_repo nd) b WU Wr Hne Hsub Hb Ek p Hp) as Hn.
  assert (Hsub' : forall x, In x (b :: n_repo nd) -> In x U) by (intros x [<-|Hx]; [exact Hb | exact (Hsub x Hx)]).
  pose proof (select_is_sbetter c U nd b p HL I WU Hsub' Ek Hp Hn) as Hsel.
  unfold add_and_commit. destruct (commit_block guard c (b :: n_repo nd) (n_eng nd) b false) as [e' err].
  cbn [fst snd]. rewrite Hsel. unfold sync_node. cbn [n_repo n_best map Sync.Model.store Sync.Model.best].
  assert (Hc : rejected (if err =? 0 then 0 else 100 + err) = false).
  { unfold rejected. destruct (err =? 0); [reflexivity|]. lia. }
  rewrite Hc. destruct (sbetter c U (b_id b) (n_best nd)); reflexivity.
Qed.

(* STEP: Sync's import at valid := bft.Accepts w.r.t. the node's finalized id, against Bft's import *)
Theorem step_sim c guard U nd b fin : 0 < c_L c -> inv c nd -> wf_repo U -> (forall x, In x (n_repo nd) -> In x U) ->
  In b U -> e_fin (n_eng nd) = fin ->
  Sync.Model.import N sbid (sparent U) (valid_bft U fin) (sbetter c U) (sync_node nd) (b_id b) =
  if rejected (snd (import guard c nd b)) then None else Some (sync_node (fst (import guard c nd b))).
Proof.
  intros HL I WU Hsub Hb Hfin. apply (step_sim_gen c guard U nd b (valid_bft U fin) HL I WU Hsub Hb).
  intros _ Ep. symmetry. exact (valid_bft_is_accepts c U nd b fin I WU Hsub Hb Ep Hfin).
Qed.

(* the result codes of Bft's import: 0, 1, 2, 3 or 100 + a non-zero CommitBlock error *)
Lemma import_code_cases guard c nd b :
  snd (import guard c nd b) = 0 \/ snd (import guard c nd b) = 1 \/ snd (import guard c nd b) = 2 \/
  snd (import guard c nd b) = 3 \/ 100 < snd (import guard c nd b).
Proof.
  unfold import. destruct (known (n_repo nd) (b_id b)); [right; left; reflexivity|].
  destruct (known (n_repo nd) (b_parent b)); cbn [negb]; [|right; right; left; reflexivity].
  destruct (accepts _ _ _); cbn [negb]; [|right; right; right; left; reflexivity].
  unfold add_and_commit. destruct (commit_block _ _ _ _ _ _) as [e' err]. cbn [snd].
  destruct (err =? 0) eqn:E; [left; reflexivity|]. right. right. right. right. lia.
Qed.

(* a refused block (parent missing / Accepts false) leaves the node as it was *)
Lemma import_rejected_same guard c nd b : rejected (snd (import guard c nd b)) = true -> fst (import guard c nd b) = nd.
Proof.
  unfold import. destruct (known (n_repo nd) (b_id b)); [reflexivity|].
  destruct (known (n_repo nd) (b_parent b)); cbn [negb]; [|reflexivity].
  destruct (accepts _ _ _); cbn [negb]; [|reflexivity].
  unfold add_and_commit. destruct (commit_block _ _ _ _ _ _) as [e' err]. cbn [fst snd]. unfold rejected.
  destruct (err =? 0) eqn:E; [discriminate|]. lia.
Qed.

Lemma import_stores guard c nd b : snd (import guard c nd b) = 0 \/ 100 <= snd (import guard c nd b) ->
  n_repo (fst (import guard c nd b)) = b :: n_repo nd.
Proof.
  unfold import. destruct (known (n_repo nd) (b_id b)); [cbn [snd]; lia|].
  destruct (known (n_repo nd) (b_parent b)); cbn [negb]; [|cbn [snd]; lia].
  destruct (accepts _ _ _); cbn [negb]; [|cbn [snd]; lia].
  unfold add_and_commit. destruct (commit_block _ _ _ _ _ _) as [e' err]. intros _. reflexivity.
Qed.

Section Step.
Variable c : cfg.
Hypothesis HL : 0 < c_L c.
Variable guard : bool.
Variable U : repo.
Hypothesis WU : wf_repo U.

(* code 0 (imported) or 1 (known, ignored): Sync's import answers the Sync view of Bft's next node *)
Theorem step_accepted nd b fin nd' code : inv c nd -> (forall x, In x (n_repo nd) -> In x U) -> In b U ->
  e_fin (n_eng nd) = fin -> import guard c nd b = (nd', code) -> code = 0 \/ code = 1 ->
  Sync.Model.import N sbid (sparent U) (valid_bft U fin) (sbetter c U) (sync_node nd) (b_id b) = Some (sync_node nd').
Proof.
  intros I Hsub Hb Hfin Ei Hc. rewrite (step_sim c guard U nd b fin HL I WU Hsub Hb Hfin), Ei. cbn [fst snd].
  destruct Hc as [-> | ->]; reflexivity.
Qed.

(* code 2 (parent missing) or 3 (rejected by bft.Accepts): Sync's import fails, Bft's node is unchanged *)
Theorem step_rejected nd b fin nd' code : inv c nd -> (forall x, In x (n_repo nd) -> In x U) -> In b U ->
  e_fin (n_eng nd) = fin -> import guard c nd b = (nd', code) -> code = 2 \/ code = 3 ->
  Sync.Model.import N sbid (sparent U) (valid_bft U fin) (sbetter c U) (sync_node nd) (b_id b) = None /\ nd' = nd.
Proof.
  intros I Hsub Hb Hfin Ei Hc. rewrite (step_sim c guard U nd b fin HL I WU Hsub Hb Hfin).
  pose proof (import_rejected_same guard c nd b) as Hs. rewrite Ei in *. cbn [fst snd] in *.
  destruct Hc as [-> | ->]; (split; [reflexivity | apply Hs; reflexivity]).
Qed.

(* code 100+err (CommitBlock failed after AddBlock): the block IS stored and best updated — Sync's `Some` as far as
   the state goes — but processBlock returns the error and handleBlockStream aborts — Sync's `None` as far as the
   stream goes.  Sync/Model.v has no outcome "stored and aborted": this case is excluded by no_commit_error below. *)
Theorem step_commit_error nd b fin nd' code : inv c nd -> (forall x, In x (n_repo nd) -> In x U) -> In b U ->
  e_fin (n_eng nd) = fin -> import guard c nd b = (nd', code) -> 100 <= code ->
  Sync.Model.import N sbid (sparent U) (valid_bft U fin) (sbetter c U) (sync_node nd) (b_id b) = Some (sync_node nd') /\
  n_repo nd' = b :: n_repo nd.
Proof.
  intros I Hsub Hb Hfin Ei Hc. rewrite (step_sim c guard U nd b fin HL I WU Hsub Hb Hfin).
  pose proof (import_stores guard c nd b) as Hs. rewrite Ei in *. cbn [fst snd] in *.
  split; [|apply Hs; right; exact Hc]. unfold rejected.
  destruct ((code =? 2) || (code =? 3)) eqn:E; [lia | reflexivity].
Qed.

(* ---------------------------------------------------------------- 3. streams *)

(* handleBlockStream over Bft's node: errKnownBlock is swallowed, any other error ends the stream *)
Definition accepted (code : N) : bool := (code =? 0) || (code =? 1).

Fixpoint import_stream (nd : node) (l : list blk) : node * bool :=
  match l with
  | [] => (nd, true)
  | b :: t => if accepted (snd (import guard c nd b)) then import_stream (fst (import guard c nd b)) t
              else (fst (import guard c nd b), false)
  end.

(* "finalized does not move during the stream": every block of the stream is presented to a node whose finalized id
   is fin (the node AFTER the last import is not constrained) *)
Fixpoint fin_fixed (nd : node) (l : list blk) (fin : N) : Prop :=
  match l with
  | [] => True
  | b :: t => e_fin (n_eng nd) = fin /\ fin_fixed (fst (import guard c nd b)) t fin
  end.

Definition codes_ok (nd : node) (l : list blk) : Prop :=
  forall code, In code (import_codes guard c nd l) -> code = 0 \/ code = 1.
(* "no CommitBlock error during the stream" *)
Definition no_commit_error (nd : node) (l : list blk) : Prop :=
  forall code, In code (import_codes guard c nd l) -> code < 100.

Lemma import_codes_cons nd b t :
  import_codes guard c nd (b :: t) = snd (import guard c nd b) :: import_codes guard c (fst (import guard c nd b)) t.
Proof. cbn [import_codes]. destruct (import guard c nd b) as [nd' code]. reflexivity. Qed.

Lemma codes_ok_cons nd b t : codes_ok nd (b :: t) <->
  (snd (import guard c nd b) = 0 \/ snd (import guard c nd b) = 1) /\ codes_ok (fst (import guard c nd b)) t.
Proof.
  unfold codes_ok. rewrite import_codes_cons. split.
  - intros H. split; [apply H; left; reflexivity | intros code Hc; apply H; right; exact Hc].
  - intros [H1 H2] code [<-|Hc]; [exact H1 | exact (H2 code Hc)].
Qed.

Lemma no_commit_error_cons nd b t : no_commit_error nd (b :: t) <->
  snd (import guard c nd b) < 100 /\ no_commit_error (fst (import guard c nd b)) t.
Proof.
  unfold no_commit_error. rewrite import_codes_cons. split.
  - intros H. split; [apply H; left; reflexivity | intros code Hc; apply H; right; exact Hc].
  - intros [H1 H2] code [<-|Hc]; [exact H1 | exact (H2 code Hc)].
Qed.

Lemma codes_ok_no_commit_error nd l : codes_ok nd l -> no_commit_error nd l.
Proof. intros H code Hc. destruct (H code Hc) as [-> | ->]; lia. Qed.

(* one import keeps the invariant and stays inside the universe (no numbering premise: it is read off U) *)
Lemma import_inv_U nd b : inv c nd -> (forall x, In x (n_repo nd) -> In x U) -> In b U ->
  inv c (fst (import guard c nd b)) /\ (forall x, In x (n_repo (fst (import guard c nd b))) -> In x U).
Proof.
  intros I Hsub Hb. split.
  - destruct (known (n_repo nd) (b_id b)) eqn:Ek.
    + unfold import. rewrite Ek. exact I.
    + apply (import_inv c HL guard nd b I).
      exact (valid_child_U U (n_repo nd) b WU (inv_wf c nd I) (inv_nonempty c nd I) Hsub Hb Ek).
  - intros x Hx. destruct (import_repo_incl guard c nd b x Hx) as [-> | Hx']; [exact Hb | exact (Hsub x Hx')].
Qed.

Lemma import_all_inv_U : forall l nd, inv c nd -> (forall x, In x (n_repo nd) -> In x U) -> (forall b, In b l -> In b U) ->
  inv c (ProofsNode.import_all c guard nd l) /\ (forall x, In x (n_repo (ProofsNode.import_all c guard nd l)) -> In x U).
Proof.
  induction l as [|b t IH]; intros nd I Hsub Hl; [split; assumption|]. cbn [ProofsNode.import_all].
  destruct (import_inv_U nd b I Hsub (Hl b (or_introl eq_refl))) as [I' Hsub'].
  apply IH; [exact I' | exact Hsub' | intros b' Hb'; apply Hl; right; exact Hb'].
Qed.

(* STREAM, both directions: Sync's import_all over the ids IS Bft's handleBlockStream seen through sync_node — same
   stopping point, same verdict — while finalized does not move and CommitBlock does not fail *)
Theorem stream_sim fin : forall l nd, inv c nd -> (forall x, In x (n_repo nd) -> In x U) -> (forall b, In b l -> In b U) ->
  fin_fixed nd l fin -> no_commit_error nd l ->
  Sync.Model.import_all N sbid (sparent U) (valid_bft U fin) (sbetter c U) (sync_node nd) (map b_id l) =
  (sync_node (fst (import_stream nd l)), snd (import_stream nd l)).
Proof.
  induction l as [|b t IH]; intros nd I Hsub Hl Hf Hn; [reflexivity|].
  cbn [map Sync.Model.import_all import_stream]. cbn [fin_fixed] in Hf. destruct Hf as [Hfin Hf].
  apply no_commit_error_cons in Hn. destruct Hn as [Hlt Hn].
  assert (Hb : In b U) by (apply Hl; left; reflexivity).
  rewrite (step_sim c guard U nd b fin HL I WU Hsub Hb Hfin).
  destruct (import_inv_U nd b I Hsub Hb) as [I' Hsub'].
  pose proof (import_rejected_same guard c nd b) as Hsame.
  destruct (import_code_cases guard c nd b) as [E|[E|[E|[E|E]]]]; try lia; rewrite E in *;
    cbn [rejected accepted N.eqb orb Pos.eqb fst snd].
  - apply IH; [exact I' | exact Hsub' | intros b' Hb'; apply Hl; right; exact Hb' | exact Hf | exact Hn].
  - apply IH; [exact I' | exact Hsub' | intros b' Hb'; apply Hl; right; exact Hb' | exact Hf | exact Hn].
  - rewrite (Hsame eq_refl). reflexivity.
  - rewrite (Hsame eq_refl). reflexivity.
Qed.

Lemma import_stream_ok : forall l nd, codes_ok nd l -> import_stream nd l = (ProofsNode.import_all c guard nd l, true).
Proof.
  induction l as [|b t IH]; intros nd H; [reflexivity|]. apply codes_ok_cons in H. destruct H as [H1 H2].
  cbn [import_stream ProofsNode.import_all]. unfold accepted.
  destruct H1 as [E|E]; rewrite E; cbn [N.eqb orb Pos.eqb]; exact (IH _ H2).
Qed.

Lemma import_stream_true : forall l nd, snd (import_stream nd l) = true -> codes_ok nd l.
Proof.
  induction l as [|b t IH]; intros nd H; [intros code []|]. apply codes_ok_cons. cbn [import_stream] in H.
  destruct (accepted (snd (import guard c nd b))) eqn:E; [|discriminate H].
  split; [unfold accepted in E; lia | exact (IH _ H)].
Qed.

(* STREAM as a run of the whole list: every code 0/1, finalized fixed *)
Theorem stream_sim_ok fin l nd : inv c nd -> (forall x, In x (n_repo nd) -> In x U) -> (forall b, In b l -> In b U) ->
  fin_fixed nd l fin -> codes_ok nd l ->
  Sync.Model.import_all N sbid (sparent U) (valid_bft U fin) (sbetter c U) (sync_node nd) (map b_id l) =
  (sync_node (ProofsNode.import_all c guard nd l), true).
Proof.
  intros I Hsub Hl Hf Hc.
  rewrite (stream_sim fin l nd I Hsub Hl Hf (codes_ok_no_commit_error nd l Hc)), (import_stream_ok l nd Hc). reflexivity.
Qed.

(* ... and conversely: when Sync's run succeeds, Bft refused nothing *)
Theorem stream_sim_codes fin l nd st' : inv c nd -> (forall x, In x (n_repo nd) -> In x U) -> (forall b, In b l -> In b U) ->
  fin_fixed nd l fin -> no_commit_error nd l ->
  Sync.Model.import_all N sbid (sparent U) (valid_bft U fin) (sbetter c U) (sync_node nd) (map b_id l) = (st', true) ->
  codes_ok nd l /\ st' = sync_node (ProofsNode.import_all c guard nd l).
Proof.
  intros I Hsub Hl Hf Hn H. rewrite (stream_sim fin l nd I Hsub Hl Hf Hn) in H. inversion H as [[H1 H2]].
  pose proof (import_stream_true l nd H2) as Hc. split; [exact Hc|].
  rewrite (import_stream_ok l nd Hc). reflexivity.
Qed.
End Step.

(* with the F1 repair (guard = true) and finalized at a checkpoint number — true of every node grown from genesis, C04
   commit_block_total — CommitBlock does not fail: the side condition no_commit_error is DISCHARGED *)
Theorem no_commit_error_guarded c U : 0 < c_L c -> wf_repo U -> forall l nd, inv c nd -> fin_cp c nd ->
  (forall x, In x (n_repo nd) -> In x U) -> (forall b, In b l -> In b U) -> no_commit_error c true nd l.
Proof.
  intros HL WU. induction l as [|b t IH]; intros nd I Hfc Hsub Hl; [intros code []|].
  apply no_commit_error_cons. assert (Hb : In b U) by (apply Hl; left; reflexivity).
  destruct (import_inv_U c HL true U WU nd b I Hsub Hb) as [I' Hsub'].
  assert (H : snd (import true c nd b) < 100 /\ fin_cp c (fst (import true c nd b))).
  { destruct (known (n_repo nd) (b_id b)) eqn:Ek.
    - unfold import. rewrite Ek. cbn [fst snd]. split; [lia | exact Hfc].
    - pose proof (valid_child_U U (n_repo nd) b WU (inv_wf c nd I) (inv_nonempty c nd I) Hsub Hb Ek) as Hvc.
      destruct (import_ok c HL nd b I Hfc Hvc) as [H1 [_ H3]]. split; assumption. }
  destruct H as [H1 H2]. split; [exact H1|].
  apply IH; [exact I' | exact H2 | exact Hsub' | intros b' Hb'; apply Hl; right; exact Hb'].
Qed.

(* ---------------------------------------------------------------- 4. sync_converges on the real node *)

(* Sync's import consults `valid` only for blocks that are not stored: two validity functions that agree off the store
   give the same run *)
Lemma sync_import_all_valid_ext (par : N -> N) (v1 v2 : N -> bool) (bet : N -> N -> bool) : forall l st,
  (forall i, Sync.Model.known N sbid st i = false -> v1 i = v2 i) ->
  Sync.Model.import_all N sbid par v1 bet st l = Sync.Model.import_all N sbid par v2 bet st l.
Proof.
  induction l as [|b t IH]; intros st H; [reflexivity|]. cbn [Sync.Model.import_all]. unfold Sync.Model.import.
  destruct (Sync.Model.known N sbid st (sbid b)) eqn:Ek; [exact (IH st H)|].
  unfold sbid in Ek at 2. rewrite (H b Ek).
  destruct (Sync.Model.known N sbid st (par b) && v2 b); [|reflexivity].
  apply IH. intros i Hi. apply H. unfold Sync.Model.known in *. cbn [Sync.Model.store existsb] in Hi.
  apply orb_false_elim in Hi. exact (proj2 Hi).
Qed.

Lemma blk_of_known U i : known U i = true -> In (blk_of U i) U /\ b_id (blk_of U i) = i.
Proof.
  intros H. apply known_find in H. destruct H as [x Hx]. unfold blk_of. rewrite Hx.
  destruct (find_blk_id _ _ _ Hx) as [Hid Hin]. split; assumption.
Qed.

Lemma map_blk_of_ids U : forall l, (forall i, In i l -> known U i = true) -> map b_id (map (blk_of U) l) = l.
Proof.
  induction l as [|i t IH]; intros H; [reflexivity|]. cbn [map].
  rewrite (proj2 (blk_of_known U i (H i (or_introl eq_refl)))). f_equal. apply IH. intros j Hj. apply H. right. exact Hj.
Qed.

Lemma in_skipn {A} (x : A) n : forall l, In x (skipn n l) -> In x l.
Proof. intros l H. rewrite <- (firstn_skipn n l). apply in_or_app. right. exact H. Qed.

(* the stream an honest peer delivers above height a: the peer's chain from height a + 1 on *)
Lemma honest_download (num : N -> N) (rc : list N) (cut : N -> nat) (a : N) (fuel2 : nat) (l : list N) :
  (forall n b, nth_error rc n = Some b -> num b = N.of_nat n) -> N.of_nat (length rc) < 4294967296 ->
  (forall n, (1 <= cut n <= Sync.Model.max_batch)%nat) -> a + 1 < 4294967296 -> (length rc < fuel2)%nat ->
  Sync.Model.download_stream N N (fun b => Some (num b)) (fun b => Some b)
    (Sync.ProofsDownload.honest_peer N rc cut) (a + 1) fuel2 = (l, Sync.Model.DlDone) ->
  l = skipn (N.to_nat (a + 1)) rc.
Proof.
  intros Hnum Hshort Hcut Ha Hf2 H.
  rewrite (Sync.ProofsDownload.download_honest N num rc Hnum Hshort cut Hcut fuel2 (a + 1)) in H; [|lia|exact Ha].
  inversion H. reflexivity.
Qed.

(* sync_converges_bft_order with `valid` := bft.Accepts at the fixed finalized id, and its conclusion on the REAL node:
   the Sync run over the downloaded ids IS (through sync_node) the Bft node's import of the downloaded blocks, every
   result code is 0 or 1, the invariant holds after, and the node's best block is the peer's head.
   New premises: 0 < epoch length; U holds the peer's chain; `valid` premise replaced by its meaning, asked only of
   blocks the node does not store.  Side conditions, on the downloaded stream: finalized does not move (fin_fixed),
   CommitBlock does not fail (no_commit_error; discharged for guard = true by no_commit_error_guarded). *)
Theorem sync_converges_bft_node (c : cfg) (guard : bool) (U : repo) (nd : Bft.Model.node) (fin : N) (num : N -> N)
        (lc rc : list N) (cut : N -> nat) (h : N) (fuel fuel2 : nat) :
  0 < c_L c ->
  inv c nd -> wf_repo U -> (forall x, In x (n_repo nd) -> In x U) ->
  (forall i, In i rc -> known U i = true) ->
  Sync.ProofsConverge.chain_linked N sbid (sparent U) lc -> Sync.ProofsConverge.chain_linked N sbid (sparent U) rc ->
  (forall b, In b lc -> In b (Sync.Model.store N (sync_node nd))) ->
  Sync.ProofsConverge.same_at N sbid lc rc 0 = true ->
  N.of_nat (length lc - 1) < 2147483648 ->
  (forall n b, nth_error rc n = Some b -> num b = N.of_nat n) ->
  N.of_nat (length rc) < 4294967296 ->
  (forall i, In i rc -> known (n_repo nd) i = false -> idnum fin = 0 \/ has_block U (sparent U i) fin = true) ->
  (forall n, (1 <= cut n <= Sync.Model.max_batch)%nat) ->
  nth_error rc (length rc - 1) = Some h ->
  sbetter c U h (Sync.Model.best N (sync_node nd)) = true ->
  (forall b, In b rc -> b <> h -> sbetter c U h b = true) ->
  (Sync.Model.ancestor_fuel (N.of_nat (length lc - 1)) <= fuel)%nat -> (length rc < fuel2)%nat ->
  exists a l,
    Sync.Model.find_common_ancestor (fun n => Some (Sync.ProofsConverge.same_at N sbid lc rc n))
      (N.of_nat (length lc - 1)) fuel = Sync.Model.Anc a /\
    Sync.Proofs.is_last (Sync.ProofsConverge.same_at N sbid lc rc) (N.of_nat (length lc - 1)) a /\
    Sync.Model.download_stream N N (fun b => Some (num b)) (fun b => Some b)
      (Sync.ProofsDownload.honest_peer N rc cut) (a + 1) fuel2 = (l, Sync.Model.DlDone) /\
    l = skipn (N.to_nat (a + 1)) rc /\
    (fin_fixed c guard nd (map (blk_of U) l) fin -> no_commit_error c guard nd (map (blk_of U) l) ->
     let nd' := ProofsNode.import_all c guard nd (map (blk_of U) l) in
     Sync.Model.import_all N sbid (sparent U) (valid_bft U fin) (sbetter c U) (sync_node nd) l = (sync_node nd', true) /\
     codes_ok c guard nd (map (blk_of U) l) /\ inv c nd' /\ n_best nd' = h).
Proof.
  intros HL I WU Hsub HrcU Hlc Hrc Hknown Hgen Hhead Hnum Hshort Hvalid Hcut Hlast Hpref Htop Hf Hf2.
  set (valid' := fun i => valid_bft U fin i || known (n_repo nd) i).
  assert (Hvalid' : forall b, In b rc -> valid' b = true).
  { intros i Hi. unfold valid'. destruct (known (n_repo nd) i) eqn:Ek; [apply orb_true_r|].
    rewrite orb_false_r. apply valid_bft_spec. exact (Hvalid i Hi Ek). }
  destruct (sync_converges_bft_order c U nd num valid' lc rc cut h fuel fuel2 I WU Hsub Hlc Hrc Hknown Hgen Hhead Hnum
              Hshort Hvalid' Hcut Hlast Hpref Htop Hf Hf2) as [a [l [st' [H1 [H2 [H3 [H4 H5]]]]]]].
  assert (Ha : a + 1 < 4294967296) by (destruct H2 as [Hle _]; lia).
  pose proof (honest_download num rc cut a fuel2 l Hnum Hshort Hcut Ha Hf2 H3) as Hl.
  exists a, l. split; [exact H1 | split; [exact H2 | split; [exact H3 | split; [exact Hl|]]]].
  intros Hfix Hnce nd'.
  assert (HlU : forall i, In i l -> known U i = true).
  { intros i Hi. apply HrcU. rewrite Hl in Hi. exact (in_skipn i _ rc Hi). }
  assert (HlU' : forall b, In b (map (blk_of U) l) -> In b U).
  { intros b Hb. apply in_map_iff in Hb. destruct Hb as [i [<- Hi]]. exact (proj1 (blk_of_known U i (HlU i Hi))). }
  rewrite (sync_import_all_valid_ext (sparent U) valid' (valid_bft U fin) (sbetter c U) l (sync_node nd)) in H4.
  2:{ intros i Hi. rewrite sync_known_node in Hi. unfold valid'. rewrite Hi. apply orb_false_r. }
  rewrite <- (map_blk_of_ids U l HlU) in H4 at 1.
  destruct (stream_sim_codes c HL guard U WU fin (map (blk_of U) l) nd st' I Hsub HlU' Hfix Hnce H4) as [Hc Hst].
  fold nd' in Hst. subst st'. rewrite (map_blk_of_ids U l HlU) in H4.
  split; [exact H4 | split; [exact Hc | split]].
  - exact (proj1 (import_all_inv_U c HL guard U WU (map (blk_of U) l) nd I Hsub HlU')).
  - exact H5.
Qed.

(* ---------------------------------------------------------------- 5. the monotone variant: one chain *)

Lemma chain_has_in ch x : grounded ch -> In x ch -> chain_has ch (b_id x) = true.
Proof.
  intros Hg Hin. destruct (in_split _ _ Hin) as [l1 [l2 E]]. subst ch. unfold chain_has.
  change (idnum (b_id x)) with (b_num x). rewrite (at_num_skip l1 x l2 (b_num x) Hg (N.le_refl _)).
  unfold at_num. cbn [find]. rewrite N.eqb_refl. apply N.eqb_refl.
Qed.

(* the chain of a stored non-root block: the block, then its parent's chain, all numbers below the block's *)
Lemma chain_of_child r b : wf_repo r -> In b r -> b_num b <> 0 ->
  chain_of r (b_id b) = b :: chain_of r (b_parent b) /\ (forall y, In y (chain_of r (b_parent b)) -> b_num y < b_num b).
Proof.
  intros W Hin Hn0. pose proof (chain_of_stored r b W Hin) as Hf.
  destruct (chain_of_known r W _ _ Hf) as [t [Ht Hg]]. destruct t as [|p t'].
  - cbn in Hg. contradiction.
  - pose proof Hg as Hg'. cbn in Hg'. destruct Hg' as [Hpar _].
    assert (Hs : chain_of r (b_id p) = p :: t') by (apply (chain_suffix r W (b_id b) [b] p t'); exact Ht).
    rewrite Hpar, Hs. split; [exact Ht|]. intros y Hy. exact (grounded_nums b (p :: t') Hg y Hy).
Qed.

Lemma has_block_child r b f : wf_repo r -> In b r -> b_num b <> 0 ->
  has_block r (b_parent b) f = true -> has_block r (b_id b) f = true.
Proof.
  intros W Hin Hn0 H. destruct (chain_of_child r b W Hin Hn0) as [Hc Hlt].
  unfold has_block, chain_has, at_num in *. rewrite Hc. cbn [find].
  destruct (find (fun x => b_num x =? idnum f) (chain_of r (b_parent b))) as [y|] eqn:Ey; [|discriminate].
  destruct (find_some _ _ Ey) as [Hyin Hynum]. apply N.eqb_eq in Hynum. specialize (Hlt y Hyin).
  assert (E : (b_num b =? idnum f) = false) by (apply N.eqb_neq; lia). rewrite E. exact H.
Qed.

Lemma accepts_child r e b : wf_repo r -> In b r -> b_num b <> 0 ->
  accepts r e (b_parent b) = true -> accepts r e (b_id b) = true.
Proof.
  unfold accepts. intros W Hin Hn0. destruct (negb (idnum (e_fin e) =? 0)); [|reflexivity].
  apply has_block_child; assumption.
Qed.

Lemma add_and_commit_parts guard c nd b pk :
  n_repo (fst (add_and_commit guard c nd b pk)) = b :: n_repo nd /\
  n_eng (fst (add_and_commit guard c nd b pk)) = fst (commit_block guard c (b :: n_repo nd) (n_eng nd) b pk).
Proof. unfold add_and_commit. destruct (commit_block _ _ _ _ _ _) as [e' err]. split; reflexivity. Qed.

Lemma import_is_add guard c nd b : known (n_repo nd) (b_id b) = false -> known (n_repo nd) (b_parent b) = true ->
  accepts (n_repo nd) (n_eng nd) (b_parent b) = true -> import guard c nd b = add_and_commit guard c nd b false.
Proof. intros Ek Ep Ea. unfold import. rewrite Ek, Ep, Ea. reflexivity. Qed.

Lemma add_and_commit_code guard c nd b pk :
  snd (add_and_commit guard c nd b pk) = 0 \/ 100 < snd (add_and_commit guard c nd b pk).
Proof.
  unfold add_and_commit. destruct (commit_block _ _ _ _ _ _) as [e' err]. cbn [snd].
  destruct (err =? 0) eqn:E; [left; reflexivity | right; lia].
Qed.

Section Chain.
Variable c : cfg.
Hypothesis HL : 0 < c_L c.
Variable guard : bool.
Variable U : repo.
Hypothesis WU : wf_repo U.

(* after an accepted import the new block itself descends from the (possibly moved) finalized checkpoint: CommitBlock
   moves finalized only to a block of the imported block's own chain (ProofsFinal.commit_block_finalized) *)
Lemma accepts_after_add nd b : inv c nd -> fin_ok nd -> known (n_repo nd) (b_id b) = false ->
  known (n_repo nd) (b_parent b) = true -> valid_child (n_repo nd) b -> accepts (n_repo nd) (n_eng nd) (b_parent b) = true ->
  accepts (n_repo (fst (add_and_commit guard c nd b false))) (n_eng (fst (add_and_commit guard c nd b false))) (b_id b) = true /\
  fin_ok (fst (add_and_commit guard c nd b false)).
Proof.
  intros I Hfo Ek Ep Hvc Ea.
  destruct (add_and_commit_monotone c HL guard nd b I Hfo Ek Ep Hvc Ea) as [M1 [_ M3]]. split; [|exact M3].
  pose proof (add_and_commit_inv c HL guard nd b false I Ek Ep Hvc) as I'. pose proof (inv_wf c _ I') as W'.
  destruct (add_and_commit_parts guard c nd b false) as [Hr He]. rewrite Hr in *. rewrite He.
  unfold accepts. destruct (negb (idnum (e_fin (fst (commit_block guard c (b :: n_repo nd) (n_eng nd) b false))) =? 0)); [|reflexivity].
  destruct (commit_block_finalized guard c (b :: n_repo nd) (n_eng nd) b false) as [Hsame | [x [Hx [Hid _]]]].
  - rewrite Hsame. exact M1.
  - rewrite Hid. unfold has_block.
    assert (Hfb : find_blk (b :: n_repo nd) (b_id b) = Some b) by (unfold find_blk; cbn [find]; rewrite N.eqb_refl; reflexivity).
    destruct (chain_of_known _ W' _ _ Hfb) as [t [Ht Hg]]. rewrite Ht in *. exact (chain_has_in (b :: t) x Hg Hx).
Qed.

(* the stream is one chain hanging off the block `prev`: each block names the previous one as its parent *)
Fixpoint linked_from (prev : N) (l : list blk) : Prop :=
  match l with [] => True | b :: t => b_parent b = prev /\ linked_from (b_id b) t end.

Lemma known_import_mono nd b i : known (n_repo nd) i = true -> known (n_repo (fst (import guard c nd b))) i = true.
Proof.
  unfold import. destruct (known (n_repo nd) (b_id b)); [tauto|]. destruct (known (n_repo nd) (b_parent b)); cbn [negb]; [|tauto].
  destruct (accepts _ _ _); cbn [negb]; [|tauto]. rewrite (proj1 (add_and_commit_parts guard c nd b false)).
  intros H. unfold known, find_blk in *. cbn [find]. destruct (b_id b =? i); [reflexivity | exact H].
Qed.

(* STREAM, one chain: finalized MAY move.  Sync's `valid` is bft.Accepts at the finalized id fin0 of the moment the
   first not-yet-stored block arrives; later checkpoints lie on the chain being imported, so the real (stricter)
   Accepts keeps answering true and the two runs agree. *)
Theorem stream_sim_chain fin0 : forall l nd prev, inv c nd -> fin_ok nd -> (forall x, In x (n_repo nd) -> In x U) ->
  (forall b, In b l -> In b U) -> (forall b, In b l -> b_num b <> 0) ->
  linked_from prev l -> known (n_repo nd) prev = true ->
  (e_fin (n_eng nd) = fin0 \/ accepts (n_repo nd) (n_eng nd) prev = true) ->
  (forall b, In b l -> known (n_repo nd) (b_id b) = false -> valid_bft U fin0 (b_id b) = true) ->
  no_commit_error c guard nd l ->
  Sync.Model.import_all N sbid (sparent U) (valid_bft U fin0) (sbetter c U) (sync_node nd) (map b_id l) =
  (sync_node (ProofsNode.import_all c guard nd l), true) /\ codes_ok c guard nd l.
Proof.
  induction l as [|b t IH]; intros nd prev I Hfo Hsub Hl Hnz Hlk Hpk HJ Hv Hn; [split; [reflexivity | intros code []]|].
  cbn [map Sync.Model.import_all ProofsNode.import_all]. cbn [linked_from] in Hlk. destruct Hlk as [Hpar Hlk].
  apply no_commit_error_cons in Hn. destruct Hn as [Hlt Hn].
  assert (Hb : In b U) by (apply Hl; left; reflexivity).
  pose proof (inv_wf c nd I) as Wr. pose proof (inv_nonempty c nd I) as Hne.
  destruct (import_inv_U c HL guard U WU nd b I Hsub Hb) as [I' Hsub'].
  assert (Hl' : forall b', In b' t -> In b' U) by (intros b' Hb'; apply Hl; right; exact Hb').
  assert (Hnz' : forall b', In b' t -> b_num b' <> 0) by (intros b' Hb'; apply Hnz; right; exact Hb').
  destruct (known (n_repo nd) (b_id b)) eqn:Ek.
  - (* already stored: ignored by both *)
    assert (Ei : import guard c nd b = (nd, 1)) by (unfold import; rewrite Ek; reflexivity).
    rewrite (step_sim_gen c guard U nd b (valid_bft U fin0) HL I WU Hsub Hb) by (intros E; rewrite Ek in E; discriminate).
    rewrite Ei in *. cbn [fst snd rejected N.eqb orb Pos.eqb].
    assert (Hbin : In b (n_repo nd)).
    { pose proof Ek as Ek'. apply known_find in Ek'. destruct Ek' as [b' Hb']. destruct (find_blk_id _ _ _ Hb') as [Hid Hin].
      rewrite (wf_id_inj U b b' WU Hb (Hsub _ Hin) (eq_sym Hid)). exact Hin. }
    destruct (IH nd (b_id b) I Hfo Hsub Hl' Hnz' Hlk Ek) as [S1 S2].
    + destruct HJ as [HJ|HJ]; [left; exact HJ | right].
      apply (accepts_child (n_repo nd) (n_eng nd) b Wr Hbin (Hnz b (or_introl eq_refl))). rewrite Hpar. exact HJ.
    + intros b' Hb'. apply Hv. right. exact Hb'.
    + exact Hn.
    + split; [exact S1|]. apply codes_ok_cons. rewrite Ei. cbn [fst snd]. split; [right; reflexivity | exact S2].
  - (* new block: its parent is stored, Accepts answers true *)
    assert (Ep : known (n_repo nd) (b_parent b) = true) by (rewrite Hpar; exact Hpk).
    pose proof (Hv b (or_introl eq_refl) Ek) as Hvb.
    assert (Ea : accepts (n_repo nd) (n_eng nd) (b_parent b) = true).
    { destruct HJ as [HJ|HJ]; [|rewrite Hpar; exact HJ].
      rewrite (valid_bft_is_accepts c U nd b fin0 I WU Hsub Hb Ep HJ). exact Hvb. }
    pose proof (valid_child_U U (n_repo nd) b WU Wr Hne Hsub Hb Ek) as Hvc.
    pose proof (import_is_add guard c nd b Ek Ep Ea) as Ei.
    rewrite (step_sim_gen c guard U nd b (valid_bft U fin0) HL I WU Hsub Hb) by (intros _ _; rewrite Ea; exact Hvb).
    assert (Hcode : snd (import guard c nd b) = 0).
    { rewrite Ei in *. destruct (add_and_commit_code guard c nd b false) as [E|E]; [exact E | lia]. }
    rewrite Hcode. cbn [rejected N.eqb orb].
    destruct (accepts_after_add nd b I Hfo Ek Ep Hvc Ea) as [Ea' Hfo']. rewrite <- Ei in Ea', Hfo'.
    destruct (IH (fst (import guard c nd b)) (b_id b) I' Hfo' Hsub' Hl' Hnz' Hlk) as [S1 S2].
    + rewrite Ei, (proj1 (add_and_commit_parts guard c nd b false)). unfold known, find_blk. cbn [find].
      rewrite N.eqb_refl. reflexivity.
    + right. exact Ea'.
    + intros b' Hb' Hk'. apply Hv; [right; exact Hb'|].
      destruct (known (n_repo nd) (b_id b')) eqn:E; [|reflexivity].
      rewrite (known_import_mono nd b (b_id b') E) in Hk'. discriminate.
    + exact Hn.
    + split; [exact S1|]. apply codes_ok_cons. split; [left; exact Hcode | exact S2].
Qed.
End Chain.

Lemma skipn_cons_nth {A} : forall n (l : list A) y, nth_error l n = Some y -> skipn n l = y :: skipn (S n) l.
Proof.
  induction n as [|n IH]; intros [|x t] y H; cbn in H; try discriminate.
  - inversion H. reflexivity.
  - exact (IH t y H).
Qed.

Lemma linked_from_chain U : forall l prev, (forall i, In i l -> known U i = true) ->
  (forall n x y, nth_error (prev :: l) n = Some y -> nth_error (prev :: l) (S n) = Some x -> sparent U x = y) ->
  linked_from prev (map (blk_of U) l).
Proof.
  induction l as [|i t IH]; intros prev HU H; [exact Logic.I|]. cbn [map linked_from]. split.
  - exact (H 0%nat i prev eq_refl eq_refl).
  - rewrite (proj2 (blk_of_known U i (HU i (or_introl eq_refl)))). apply IH.
    + intros j Hj. apply HU. right. exact Hj.
    + intros n x y H1 H2. exact (H (S n) x y H1 H2).
Qed.

(* the _chain variant of sync_converges_bft_node: fin is the node's own finalized id when the download starts, it MAY
   move while the stream is imported (the side condition fin_fixed is gone); new premises: fin_ok nd (finalized is
   stored, and is the root when its number is 0 — true along every import history, ProofsMonotone) and the header
   number the download checks is the number embedded in the id. *)
Theorem sync_converges_bft_node_chain (c : cfg) (guard : bool) (U : repo) (nd : Bft.Model.node) (num : N -> N)
        (lc rc : list N) (cut : N -> nat) (h : N) (fuel fuel2 : nat) :
  0 < c_L c ->
  inv c nd -> fin_ok nd -> wf_repo U -> (forall x, In x (n_repo nd) -> In x U) ->
  (forall i, In i rc -> known U i = true) ->
  Sync.ProofsConverge.chain_linked N sbid (sparent U) lc -> Sync.ProofsConverge.chain_linked N sbid (sparent U) rc ->
  (forall b, In b lc -> In b (Sync.Model.store N (sync_node nd))) ->
  Sync.ProofsConverge.same_at N sbid lc rc 0 = true ->
  N.of_nat (length lc - 1) < 2147483648 ->
  (forall n b, nth_error rc n = Some b -> num b = N.of_nat n) -> (forall i, In i rc -> num i = idnum i) ->
  N.of_nat (length rc) < 4294967296 ->
  (forall i, In i rc -> known (n_repo nd) i = false ->
     idnum (e_fin (n_eng nd)) = 0 \/ has_block U (sparent U i) (e_fin (n_eng nd)) = true) ->
  (forall n, (1 <= cut n <= Sync.Model.max_batch)%nat) ->
  nth_error rc (length rc - 1) = Some h ->
  sbetter c U h (Sync.Model.best N (sync_node nd)) = true ->
  (forall b, In b rc -> b <> h -> sbetter c U h b = true) ->
  (Sync.Model.ancestor_fuel (N.of_nat (length lc - 1)) <= fuel)%nat -> (length rc < fuel2)%nat ->
  exists a l,
    Sync.Model.find_common_ancestor (fun n => Some (Sync.ProofsConverge.same_at N sbid lc rc n))
      (N.of_nat (length lc - 1)) fuel = Sync.Model.Anc a /\
    Sync.Proofs.is_last (Sync.ProofsConverge.same_at N sbid lc rc) (N.of_nat (length lc - 1)) a /\
    Sync.Model.download_stream N N (fun b => Some (num b)) (fun b => Some b)
      (Sync.ProofsDownload.honest_peer N rc cut) (a + 1) fuel2 = (l, Sync.Model.DlDone) /\
    l = skipn (N.to_nat (a + 1)) rc /\
    (no_commit_error c guard nd (map (blk_of U) l) ->
     let nd' := ProofsNode.import_all c guard nd (map (blk_of U) l) in
     Sync.Model.import_all N sbid (sparent U) (valid_bft U (e_fin (n_eng nd))) (sbetter c U) (sync_node nd) l =
       (sync_node nd', true) /\
     codes_ok c guard nd (map (blk_of U) l) /\ inv c nd' /\ n_best nd' = h).
Proof.
  intros HL I Hfo WU Hsub HrcU Hlc Hrc Hknown Hgen Hhead Hnum Hidnum Hshort Hvalid Hcut Hlast Hpref Htop Hf Hf2.
  set (fin := e_fin (n_eng nd)) in *.
  set (valid' := fun i => valid_bft U fin i || known (n_repo nd) i).
  assert (Hvalid' : forall b, In b rc -> valid' b = true).
  { intros i Hi. unfold valid'. destruct (known (n_repo nd) i) eqn:Ek; [apply orb_true_r|].
    rewrite orb_false_r. apply valid_bft_spec. exact (Hvalid i Hi Ek). }
  destruct (sync_converges_bft_order c U nd num valid' lc rc cut h fuel fuel2 I WU Hsub Hlc Hrc Hknown Hgen Hhead Hnum
              Hshort Hvalid' Hcut Hlast Hpref Htop Hf Hf2) as [a [l [st' [H1 [H2 [H3 [H4 H5]]]]]]].
  assert (Ha : a + 1 < 4294967296) by (destruct H2 as [Hle _]; lia).
  pose proof (honest_download num rc cut a fuel2 l Hnum Hshort Hcut Ha Hf2 H3) as Hl.
  exists a, l. split; [exact H1 | split; [exact H2 | split; [exact H3 | split; [exact Hl|]]]].
  intros Hnce nd'.
  replace (N.to_nat (a + 1)) with (S (N.to_nat a)) in Hl by lia.
  (* the common ancestor block is stored *)
  destruct H2 as [_ [Hsame _]]. unfold Sync.ProofsConverge.same_at in Hsame.
  destruct (nth_error lc (N.to_nat a)) as [x|] eqn:Ex; [|discriminate].
  destruct (nth_error rc (N.to_nat a)) as [y|] eqn:Ey; [|discriminate].
  apply N.eqb_eq in Hsame. unfold sbid in Hsame. subst x.
  assert (Hyk : known (n_repo nd) y = true).
  { pose proof (Hknown y (nth_error_In _ _ Ex)) as Hy. cbn [sync_node Sync.Model.store] in Hy.
    apply in_map_iff in Hy. destruct Hy as [yb [<- Hyb]]. apply known_in. exact Hyb. }
  assert (Hlrc : forall i, In i l -> exists m, nth_error rc (S (N.to_nat a) + m) = Some i).
  { intros i Hi. rewrite Hl in Hi. apply In_nth_error in Hi. destruct Hi as [m Hm].
    rewrite Sync.ProofsDownload.nth_error_skipn' in Hm. exists m. exact Hm. }
  assert (HlU : forall i, In i l -> known U i = true).
  { intros i Hi. destruct (Hlrc i Hi) as [m Hm]. apply HrcU. exact (nth_error_In _ _ Hm). }
  assert (HlU' : forall b, In b (map (blk_of U) l) -> In b U).
  { intros b Hb. apply in_map_iff in Hb. destruct Hb as [i [<- Hi]]. exact (proj1 (blk_of_known U i (HlU i Hi))). }
  assert (Hnz : forall b, In b (map (blk_of U) l) -> b_num b <> 0).
  { intros b Hb. apply in_map_iff in Hb. destruct Hb as [i [<- Hi]]. unfold b_num.
    rewrite (proj2 (blk_of_known U i (HlU i Hi))). destruct (Hlrc i Hi) as [m Hm].
    rewrite <- (Hidnum i (nth_error_In _ _ Hm)), (Hnum _ _ Hm). lia. }
  assert (Hlk : linked_from y (map (blk_of U) l)).
  { apply linked_from_chain; [exact HlU|]. intros n x0 y0 E1 E2.
    rewrite Hl, <- (skipn_cons_nth (N.to_nat a) rc y Ey), Sync.ProofsDownload.nth_error_skipn' in E1, E2.
    replace (N.to_nat a + S n)%nat with (S (N.to_nat a + n)) in E2 by lia.
    exact (Hrc _ _ _ E1 E2). }
  assert (Hv : forall b, In b (map (blk_of U) l) -> known (n_repo nd) (b_id b) = false -> valid_bft U fin (b_id b) = true).
  { intros b Hb Hk. apply in_map_iff in Hb. destruct Hb as [i [<- Hi]].
    rewrite (proj2 (blk_of_known U i (HlU i Hi))) in *. destruct (Hlrc i Hi) as [m Hm].
    apply valid_bft_spec. exact (Hvalid i (nth_error_In _ _ Hm) Hk). }
  destruct (stream_sim_chain c HL guard U WU fin (map (blk_of U) l) nd y I Hfo Hsub HlU' Hnz Hlk Hyk
              (or_introl eq_refl) Hv Hnce) as [S1 S2].
  fold nd' in S1. rewrite (map_blk_of_ids U l HlU) in S1.
  rewrite (sync_import_all_valid_ext (sparent U) valid' (valid_bft U fin) (sbetter c U) l (sync_node nd)) in H4.
  2:{ intros i Hi. rewrite sync_known_node in Hi. unfold valid'. rewrite Hi. apply orb_false_r. }
  rewrite S1 in H4. inversion H4 as [Hst]. rewrite <- Hst in H5.
  split; [exact S1 | split; [exact S2 | split]].
  - exact (proj1 (import_all_inv_U c HL guard U WU (map (blk_of U) l) nd I Hsub HlU')).
  - exact H5.
Qed.

(* with the F1 repair and finalized at a checkpoint number NO side condition about the run is left *)
Theorem sync_converges_bft_node_guarded (c : cfg) (U : repo) (nd : Bft.Model.node) (num : N -> N)
        (lc rc : list N) (cut : N -> nat) (h : N) (fuel fuel2 : nat) :
  0 < c_L c ->
  inv c nd -> fin_ok nd -> fin_cp c nd -> wf_repo U -> (forall x, In x (n_repo nd) -> In x U) ->
  (forall i, In i rc -> known U i = true) ->
  Sync.ProofsConverge.chain_linked N sbid (sparent U) lc -> Sync.ProofsConverge.chain_linked N sbid (sparent U) rc ->
  (forall b, In b lc -> In b (Sync.Model.store N (sync_node nd))) ->
  Sync.ProofsConverge.same_at N sbid lc rc 0 = true ->
  N.of_nat (length lc - 1) < 2147483648 ->
  (forall n b, nth_error rc n = Some b -> num b = N.of_nat n) -> (forall i, In i rc -> num i = idnum i) ->
  N.of_nat (length rc) < 4294967296 ->
  (forall i, In i rc -> known (n_repo nd) i = false ->
     idnum (e_fin (n_eng nd)) = 0 \/ has_block U (sparent U i) (e_fin (n_eng nd)) = true) ->
  (forall n, (1 <= cut n <= Sync.Model.max_batch)%nat) ->
  nth_error rc (length rc - 1) = Some h ->
  sbetter c U h (Sync.Model.best N (sync_node nd)) = true ->
  (forall b, In b rc -> b <> h -> sbetter c U h b = true) ->
  (Sync.Model.ancestor_fuel (N.of_nat (length lc - 1)) <= fuel)%nat -> (length rc < fuel2)%nat ->
  exists a l,
    Sync.Model.find_common_ancestor (fun n => Some (Sync.ProofsConverge.same_at N sbid lc rc n))
      (N.of_nat (length lc - 1)) fuel = Sync.Model.Anc a /\
    Sync.Proofs.is_last (Sync.ProofsConverge.same_at N sbid lc rc) (N.of_nat (length lc - 1)) a /\
    Sync.Model.download_stream N N (fun b => Some (num b)) (fun b => Some b)
      (Sync.ProofsDownload.honest_peer N rc cut) (a + 1) fuel2 = (l, Sync.Model.DlDone) /\
    l = skipn (N.to_nat (a + 1)) rc /\
    let nd' := ProofsNode.import_all c true nd (map (blk_of U) l) in
    Sync.Model.import_all N sbid (sparent U) (valid_bft U (e_fin (n_eng nd))) (sbetter c U) (sync_node nd) l =
      (sync_node nd', true) /\
    codes_ok c true nd (map (blk_of U) l) /\ inv c nd' /\ n_best nd' = h.
Proof.
  intros HL I Hfo Hfc WU Hsub HrcU Hlc Hrc Hknown Hgen Hhead Hnum Hidnum Hshort Hvalid Hcut Hlast Hpref Htop Hf Hf2.
  destruct (sync_converges_bft_node_chain c true U nd num lc rc cut h fuel fuel2 HL I Hfo WU Hsub HrcU Hlc Hrc Hknown Hgen
              Hhead Hnum Hidnum Hshort Hvalid Hcut Hlast Hpref Htop Hf Hf2) as [a [l [H1 [H2 [H3 [Hl H]]]]]].
  exists a, l. split; [exact H1 | split; [exact H2 | split; [exact H3 | split; [exact Hl|]]]].
  apply H. apply (no_commit_error_guarded c U HL WU (map (blk_of U) l) nd I Hfc Hsub).
  intros b Hb. apply in_map_iff in Hb. destruct Hb as [i [<- Hi]]. apply blk_of_known. apply HrcU.
  rewrite Hl in Hi. exact (in_skipn i _ rc Hi).
Qed.

(* ---------------------------------------------------------------- 6. non-vacuity *)

(* checkers used to discharge the list-shaped premises on concrete instances *)
Fixpoint linkedb (U : repo) (l : list N) : bool :=
  match l with
  | [] => true
  | y :: t => match t with [] => true | x :: _ => (sparent U x =? y) && linkedb U t end
  end.

Lemma linkedb_sound U : forall l, linkedb U l = true -> Sync.ProofsConverge.chain_linked N sbid (sparent U) l.
Proof.
  induction l as [|y t IH]; intros H n x0 y0 Hy Hx; [destruct n; discriminate|].
  cbn [linkedb] in H. destruct t as [|x t']; [destruct n; cbn in Hx; [discriminate | destruct n; discriminate]|].
  apply andb_prop in H. destruct H as [H1 H2]. destruct n as [|n].
  - cbn in Hy, Hx. inversion Hy; inversion Hx; subst. apply N.eqb_eq in H1. exact H1.
  - exact (IH H2 n x0 y0 Hy Hx).
Qed.

Fixpoint numberedb (k : N) (l : list N) : bool :=
  match l with [] => true | x :: t => (idnum x =? k) && numberedb (k + 1) t end.

Lemma numberedb_sound : forall l k, numberedb k l = true -> forall n b, nth_error l n = Some b -> idnum b = k + N.of_nat n.
Proof.
  induction l as [|x t IH]; intros k H n b Hn; [destruct n; discriminate|].
  cbn [numberedb] in H. apply andb_prop in H. destruct H as [H1 H2]. destruct n as [|n].
  - cbn in Hn. inversion Hn; subst. apply N.eqb_eq in H1. lia.
  - cbn in Hn. rewrite (IH _ H2 n b Hn). lia.
Qed.

Lemma inclb_sound (l s : list N) : forallb (fun b => existsb (N.eqb b) s) l = true -> forall b, In b l -> In b s.
Proof.
  intros H b Hb. pose proof (proj1 (forallb_forall _ l) H b Hb) as E. cbn beta in E.
  apply existsb_exists in E. destruct E as [x [Hx E]]. apply N.eqb_eq in E. subst x. exact Hx.
Qed.

Lemma pair_eta_eq {A B} (x : A * B) (b : B) : snd x = b -> x = (fst x, b).
Proof. destruct x as [a0 b0]. cbn. intros ->. reflexivity. Qed.

Lemma HL4 : 0 < c_L ex_cfg.
Proof. reflexivity. Qed.

(* ---- instance A: SyncOrder's fork (finalized = genesis: Accepts is trivially true) *)

Example sync_converges_bft_node_example_genesis :
  exists a l,
    Sync.Model.find_common_ancestor (fun n => Some (Sync.ProofsConverge.same_at N sbid ex_lc ex_rc n)) 5 20 = Sync.Model.Anc a /\
    a = 3 /\ l = map b_id [ex_m 4; ex_m 5; ex_m 6; ex_m 7] /\
    let nd' := ProofsNode.import_all ex_cfg true ex_nd (map (blk_of ex_U) l) in
    Sync.Model.import_all N sbid (sparent ex_U) (valid_bft ex_U (b_id ex_g)) (sbetter ex_cfg ex_U) (sync_node ex_nd) l =
      (sync_node nd', true) /\
    codes_ok ex_cfg true ex_nd (map (blk_of ex_U) l) /\ inv ex_cfg nd' /\ n_best nd' = b_id (ex_m 7).
Proof.
  destruct (sync_converges_bft_node ex_cfg true ex_U ex_nd (b_id ex_g) idnum ex_lc ex_rc (fun _ => 1%nat)
              (b_id (ex_m 7)) 20 20) as [a [l [H1 [H2 [H3 [Hl H]]]]]].
  - exact HL4.
  - exact ex_inv.
  - exact ex_wf.
  - exact ex_incl.
  - apply forallb_forall. vm_compute. reflexivity.
  - apply linkedb_sound. vm_compute. reflexivity.
  - apply linkedb_sound. vm_compute. reflexivity.
  - apply inclb_sound. vm_compute. reflexivity.
  - vm_compute. reflexivity.
  - vm_compute. reflexivity.
  - intros n b Hb. rewrite (numberedb_sound ex_rc 0 ltac:(vm_compute; reflexivity) n b Hb). lia.
  - vm_compute. reflexivity.
  - intros i _ _. left. reflexivity.
  - intros n. unfold Sync.Model.max_batch. lia.
  - reflexivity.
  - vm_compute. reflexivity.
  - assert (E : forall b, In b ex_rc -> (b =? b_id (ex_m 7)) || sbetter ex_cfg ex_U (b_id (ex_m 7)) b = true)
      by (apply forallb_forall; vm_compute; reflexivity).
    intros b Hb Hne. specialize (E b Hb). apply orb_prop in E. destruct E as [E|E]; [apply N.eqb_eq in E; contradiction | exact E].
  - vm_compute. lia.
  - vm_compute. lia.
  - assert (Ea : a = 3) by (vm_compute in H1; inversion H1; reflexivity). subst a.
    assert (El : l = map b_id [ex_m 4; ex_m 5; ex_m 6; ex_m 7]) by (rewrite Hl; vm_compute; reflexivity).
    exists 3, l. split; [exact H1 | split; [reflexivity | split; [exact El|]]].
    apply H.
    + rewrite El. vm_compute. tauto.
    + intros code Hc. rewrite El in Hc. vm_compute in Hc. repeat (destruct Hc as [<-|Hc]; [lia|]). destruct Hc.
Qed.

(* ---- instance B: finalized is NOT genesis.  PoA, epoch length 2, 2 proposers: an epoch is justified by more than
   2*2/3 = 1 distinct signers, i.e. by both blocks of the epoch.
   common prefix  g - m1 - ... - m5      (all COM, signers alternating: q(m3)=1, q(m5)=2; m5 finalizes m2)
   local branch   m5 - l6 - l7           (one signer, not COM: quality 2, total scores 100, 200)
   peer's branch  m5 - m6 - ... - m9     (all COM: q(m7)=3, m7 finalizes m4; q(m9)=4, m9 finalizes m6)
   fork blocks    r2 (child of m1: below the finalized m2 — refused by Accepts),
                  f4 (child of m3: accepted while finalized = m2, refused once finalized = m4) *)
Definition ex2_cfg : cfg := mkCfg 2 2 false 0 [].
Definition ex2_m (k : N) : blk := mkB (mkid k 1) (mkid (k - 1) 1) (k mod 2 + 1) true k.
Definition ex2_l6 : blk := mkB (mkid 6 2) (mkid 5 1) 1 false 100.
Definition ex2_l7 : blk := mkB (mkid 7 2) (mkid 6 2) 1 false 200.
Definition ex2_r2 : blk := mkB (mkid 2 3) (mkid 1 1) 2 false 50.
Definition ex2_f4 : blk := mkB (mkid 4 2) (mkid 3 1) 1 false 300.
Definition ex2_U : repo :=
  [ex2_f4; ex2_r2] ++ map ex2_m [9; 8; 7; 6] ++ [ex2_l7; ex2_l6] ++ map ex2_m [5; 4; 3; 2; 1] ++ [ex_g].
Definition ex2_hist : list blk := map ex2_m [1; 2; 3; 4; 5] ++ [ex2_l6; ex2_l7].
Definition ex2_nd : Bft.Model.node := ProofsNode.import_all ex2_cfg true (init_node ex_g 1) ex2_hist.
Definition ex2_fin : N := b_id (ex2_m 2).
Definition ex2_lc : list N := map b_id ([ex_g] ++ map ex2_m [1; 2; 3; 4; 5] ++ [ex2_l6; ex2_l7]).
Definition ex2_rc7 : list N := map b_id (ex_g :: map ex2_m [1; 2; 3; 4; 5; 6; 7]).
Definition ex2_rc9 : list N := map b_id (ex_g :: map ex2_m [1; 2; 3; 4; 5; 6; 7; 8; 9]).

Lemma HL2 : 0 < c_L ex2_cfg.
Proof. reflexivity. Qed.

Example ex2_inv : inv ex2_cfg ex2_nd.
Proof.
  unfold ex2_nd. apply import_all_inv; [reflexivity | apply init_inv; reflexivity |].
  intros nd' b _ Hin. apply valid_child_by_id.
  assert (E : forall b, In b ex2_hist -> (idnum (b_id b) =? idnum (b_parent b) + 1) = true)
    by (apply forallb_forall; vm_compute; reflexivity).
  apply N.eqb_eq. exact (E b Hin).
Qed.

Example ex2_wf : wf_repo ex2_U.
Proof.
  unfold ex2_U. cbn [map app wf_repo].
  repeat (split; [|split; [vm_compute; reflexivity | eexists; split; vm_compute; reflexivity]]).
  exact Logic.I.
Qed.

Example ex2_incl : forall x, In x (n_repo ex2_nd) -> In x ex2_U.
Proof.
  assert (E : n_repo ex2_nd = [ex2_l7; ex2_l6] ++ map ex2_m [5; 4; 3; 2; 1] ++ [ex_g]) by (vm_compute; reflexivity).
  rewrite E. unfold ex2_U. intros x Hx. apply in_or_app. right. apply in_or_app. right. exact Hx.
Qed.

(* the node: finalized m2, best = the local head l7 (quality 2, total score 200); the peer's m7 has quality 3, total
   score 7: it is preferred by QUALITY *)
Example ex2_state :
  e_fin (n_eng ex2_nd) = ex2_fin /\ idnum ex2_fin = 2 /\ n_best ex2_nd = b_id ex2_l7 /\
  fin_cp ex2_cfg ex2_nd /\ fin_ok ex2_nd.
Proof.
  split; [vm_compute; reflexivity | split; [vm_compute; reflexivity | split; [vm_compute; reflexivity | split]]].
  - vm_compute. reflexivity.
  - split; [eexists; vm_compute; reflexivity | intros H; vm_compute in H; discriminate].
Qed.

Example ex2_wins_by_quality :
  qual ex2_cfg ex2_U ex2_l7 = 2 /\ qual ex2_cfg ex2_U (ex2_m 7) = 3 /\ b_score (ex2_m 7) < b_score ex2_l7 /\
  sbetter ex2_cfg ex2_U (b_id (ex2_m 7)) (n_best ex2_nd) = true.
Proof. vm_compute. repeat split; reflexivity. Qed.

Lemma ex2_in (b : blk) : existsb (blk_eqb b) ex2_U = true -> In b ex2_U.
Proof.
  intros H. apply existsb_exists in H. destruct H as [x [Hx E]]. unfold blk_eqb in E.
  destruct b as [i p s cm sc], x as [i' p' s' cm' sc']. cbn [b_id b_parent b_signer b_com b_score] in E.
  repeat (apply andb_prop in E; destruct E as [E ?]).
  apply N.eqb_eq in E. repeat match goal with H : (_ =? _) = true |- _ => apply N.eqb_eq in H end.
  match goal with H : eqb _ _ = true |- _ => apply eqb_prop in H end. subst. exact Hx.
Qed.

(* valid_bft is Accepts, and it discriminates: m6 (parent m5, above m2) is accepted, r2 (parent m1) is not *)
Example valid_bft_is_accepts_example :
  accepts (n_repo ex2_nd) (n_eng ex2_nd) (b_parent (ex2_m 6)) = valid_bft ex2_U ex2_fin (b_id (ex2_m 6)) /\
  valid_bft ex2_U ex2_fin (b_id (ex2_m 6)) = true /\
  accepts (n_repo ex2_nd) (n_eng ex2_nd) (b_parent ex2_r2) = valid_bft ex2_U ex2_fin (b_id ex2_r2) /\
  valid_bft ex2_U ex2_fin (b_id ex2_r2) = false.
Proof.
  split; [|split; [vm_compute; reflexivity | split; [|vm_compute; reflexivity]]].
  - apply (valid_bft_is_accepts ex2_cfg ex2_U ex2_nd (ex2_m 6) ex2_fin ex2_inv ex2_wf ex2_incl);
      [apply ex2_in | |]; vm_compute; reflexivity.
  - apply (valid_bft_is_accepts ex2_cfg ex2_U ex2_nd ex2_r2 ex2_fin ex2_inv ex2_wf ex2_incl);
      [apply ex2_in | |]; vm_compute; reflexivity.
Qed.

(* the step: m6 is imported (code 0), m5 is known (code 1) *)
Example step_accepted_example :
  snd (import true ex2_cfg ex2_nd (ex2_m 6)) = 0 /\
  Sync.Model.import N sbid (sparent ex2_U) (valid_bft ex2_U ex2_fin) (sbetter ex2_cfg ex2_U) (sync_node ex2_nd) (b_id (ex2_m 6)) =
    Some (sync_node (fst (import true ex2_cfg ex2_nd (ex2_m 6)))) /\
  snd (import true ex2_cfg ex2_nd (ex2_m 5)) = 1 /\
  Sync.Model.import N sbid (sparent ex2_U) (valid_bft ex2_U ex2_fin) (sbetter ex2_cfg ex2_U) (sync_node ex2_nd) (b_id (ex2_m 5)) =
    Some (sync_node (fst (import true ex2_cfg ex2_nd (ex2_m 5)))).
Proof.
  split; [vm_compute; reflexivity | split; [|split; [vm_compute; reflexivity|]]].
  - apply (step_accepted ex2_cfg HL2 true ex2_U ex2_wf ex2_nd (ex2_m 6) ex2_fin _ 0 ex2_inv ex2_incl);
      [apply ex2_in; vm_compute; reflexivity | vm_compute; reflexivity | | left; reflexivity].
    apply pair_eta_eq. vm_compute. reflexivity.
  - apply (step_accepted ex2_cfg HL2 true ex2_U ex2_wf ex2_nd (ex2_m 5) ex2_fin _ 1 ex2_inv ex2_incl);
      [apply ex2_in; vm_compute; reflexivity | vm_compute; reflexivity | | right; reflexivity].
    apply pair_eta_eq. vm_compute. reflexivity.
Qed.

(* m7 arrives before its parent m6 (code 2); r2 hangs below the finalized m2 (code 3): Sync's import fails *)
Example step_rejected_example :
  snd (import true ex2_cfg ex2_nd (ex2_m 7)) = 2 /\
  Sync.Model.import N sbid (sparent ex2_U) (valid_bft ex2_U ex2_fin) (sbetter ex2_cfg ex2_U) (sync_node ex2_nd) (b_id (ex2_m 7)) = None /\
  snd (import true ex2_cfg ex2_nd ex2_r2) = 3 /\
  Sync.Model.import N sbid (sparent ex2_U) (valid_bft ex2_U ex2_fin) (sbetter ex2_cfg ex2_U) (sync_node ex2_nd) (b_id ex2_r2) = None.
Proof.
  split; [vm_compute; reflexivity | split; [|split; [vm_compute; reflexivity|]]].
  - apply (step_rejected ex2_cfg HL2 true ex2_U ex2_wf ex2_nd (ex2_m 7) ex2_fin (fst (import true ex2_cfg ex2_nd (ex2_m 7))) 2 ex2_inv ex2_incl);
      [apply ex2_in; vm_compute; reflexivity | vm_compute; reflexivity | | left; reflexivity].
    apply pair_eta_eq. vm_compute. reflexivity.
  - apply (step_rejected ex2_cfg HL2 true ex2_U ex2_wf ex2_nd ex2_r2 ex2_fin (fst (import true ex2_cfg ex2_nd ex2_r2)) 3 ex2_inv ex2_incl);
      [apply ex2_in; vm_compute; reflexivity | vm_compute; reflexivity | | right; reflexivity].
    apply pair_eta_eq. vm_compute. reflexivity.
Qed.

(* ---- the F1 tree (C04: Bft/ProofsWitness.v), code before the repair (guard = false): f7 is accepted, stored, and
   CommitBlock fails on it (code 103).  Sync's import answers Some — the state agrees — but the Go node aborts the
   stream there: the case excluded by no_commit_error *)
Definition ex3_f (k : N) : blk := mkB (mkid k 2) (if k =? 5 then mkid 4 1 else mkid (k - 1) 2) (k mod 4 + 1) true k.
Definition ex3_hist : list blk := map ex_m [1; 2; 3; 4; 5; 6; 7; 8; 9; 10; 11] ++ map ex3_f [5; 6].
Definition ex3_nd : Bft.Model.node := ProofsNode.import_all ex_cfg false (init_node ex_g 1) ex3_hist.
Definition ex3_U : repo := map ex3_f [7; 6; 5] ++ map ex_m [11; 10; 9; 8; 7; 6; 5; 4; 3; 2; 1] ++ [ex_g].

Example ex3_inv : inv ex_cfg ex3_nd.
Proof.
  unfold ex3_nd. apply import_all_inv; [reflexivity | apply init_inv; reflexivity |].
  intros nd' b _ Hin. apply valid_child_by_id.
  assert (E : forall b, In b ex3_hist -> (idnum (b_id b) =? idnum (b_parent b) + 1) = true)
    by (apply forallb_forall; vm_compute; reflexivity).
  apply N.eqb_eq. exact (E b Hin).
Qed.

Example ex3_wf : wf_repo ex3_U.
Proof.
  unfold ex3_U. cbn [map app wf_repo].
  repeat (split; [|split; [vm_compute; reflexivity | eexists; split; vm_compute; reflexivity]]).
  exact Logic.I.
Qed.

Example ex3_incl : forall x, In x (n_repo ex3_nd) -> In x ex3_U.
Proof.
  assert (E : n_repo ex3_nd = map ex3_f [6; 5] ++ map ex_m [11; 10; 9; 8; 7; 6; 5; 4; 3; 2; 1] ++ [ex_g]) by (vm_compute; reflexivity).
  rewrite E. unfold ex3_U. intros x Hx. right. exact Hx.
Qed.

Example step_commit_error_example :
  snd (import false ex_cfg ex3_nd (ex3_f 7)) = 103 /\
  Sync.Model.import N sbid (sparent ex3_U) (valid_bft ex3_U (b_id (ex_m 4))) (sbetter ex_cfg ex3_U) (sync_node ex3_nd) (b_id (ex3_f 7)) =
    Some (sync_node (fst (import false ex_cfg ex3_nd (ex3_f 7)))) /\
  n_repo (fst (import false ex_cfg ex3_nd (ex3_f 7))) = ex3_f 7 :: n_repo ex3_nd.
Proof.
  split; [vm_compute; reflexivity|].
  apply (step_commit_error ex_cfg HL4 false ex3_U ex3_wf ex3_nd (ex3_f 7) (b_id (ex_m 4)) _ 103 ex3_inv ex3_incl).
  - left. reflexivity.
  - vm_compute. reflexivity.
  - apply pair_eta_eq. vm_compute. reflexivity.
  - lia.
Qed.

(* ---- streams on instance B *)

Lemma ex2_stream_in (l : list blk) : forallb (fun b => existsb (blk_eqb b) ex2_U) l = true -> forall b, In b l -> In b ex2_U.
Proof. intros H b Hb. apply ex2_in. exact (proj1 (forallb_forall _ l) H b Hb). Qed.

(* m6, m7: finalized is m2 whenever a block arrives (it moves to m4 only when m7, the last one, is committed) *)
Example stream_sim_ok_example :
  fin_fixed ex2_cfg true ex2_nd (map ex2_m [6; 7]) ex2_fin /\
  e_fin (n_eng (ProofsNode.import_all ex2_cfg true ex2_nd (map ex2_m [6; 7]))) = b_id (ex2_m 4) /\
  Sync.Model.import_all N sbid (sparent ex2_U) (valid_bft ex2_U ex2_fin) (sbetter ex2_cfg ex2_U) (sync_node ex2_nd)
    (map b_id (map ex2_m [6; 7])) =
  (sync_node (ProofsNode.import_all ex2_cfg true ex2_nd (map ex2_m [6; 7])), true).
Proof.
  assert (Hf : fin_fixed ex2_cfg true ex2_nd (map ex2_m [6; 7]) ex2_fin) by (vm_compute; tauto).
  split; [exact Hf | split; [vm_compute; reflexivity|]].
  apply (stream_sim_ok ex2_cfg HL2 true ex2_U ex2_wf ex2_fin _ ex2_nd ex2_inv ex2_incl).
  - apply ex2_stream_in. vm_compute. reflexivity.
  - exact Hf.
  - intros code Hc. vm_compute in Hc. repeat (destruct Hc as [<-|Hc]; [left; reflexivity|]). destruct Hc.
Qed.

(* m6, then r2 (refused by Accepts), then m7: both runs stop at r2, in the same state, with verdict false *)
Example stream_sim_example :
  import_stream ex2_cfg true ex2_nd [ex2_m 6; ex2_r2; ex2_m 7] = (fst (import true ex2_cfg ex2_nd (ex2_m 6)), false) /\
  Sync.Model.import_all N sbid (sparent ex2_U) (valid_bft ex2_U ex2_fin) (sbetter ex2_cfg ex2_U) (sync_node ex2_nd)
    (map b_id [ex2_m 6; ex2_r2; ex2_m 7]) = (sync_node (fst (import true ex2_cfg ex2_nd (ex2_m 6))), false).
Proof.
  assert (E : import_stream ex2_cfg true ex2_nd [ex2_m 6; ex2_r2; ex2_m 7] = (fst (import true ex2_cfg ex2_nd (ex2_m 6)), false))
    by (vm_compute; reflexivity).
  split; [exact E|].
  rewrite (stream_sim ex2_cfg HL2 true ex2_U ex2_wf ex2_fin [ex2_m 6; ex2_r2; ex2_m 7] ex2_nd ex2_inv ex2_incl).
  - rewrite E. reflexivity.
  - apply ex2_stream_in. vm_compute. reflexivity.
  - vm_compute. tauto.
  - intros code Hc. vm_compute in Hc. repeat (destruct Hc as [<-|Hc]; [lia|]). destruct Hc.
Qed.

Example stream_sim_codes_example :
  codes_ok ex2_cfg true ex2_nd (map ex2_m [6; 7]).
Proof.
  destruct stream_sim_ok_example as [Hf [_ Hs]].
  refine (proj1 (stream_sim_codes ex2_cfg HL2 true ex2_U ex2_wf ex2_fin _ ex2_nd _ ex2_inv ex2_incl _ Hf _ Hs)).
  - apply ex2_stream_in. vm_compute. reflexivity.
  - intros code Hc. vm_compute in Hc. repeat (destruct Hc as [<-|Hc]; [lia|]). destruct Hc.
Qed.

(* no_commit_error_guarded on a stream with a fork block: nothing to check about the run *)
Example no_commit_error_guarded_example :
  no_commit_error ex2_cfg true ex2_nd ([ex2_f4] ++ map ex2_m [6; 7; 8; 9]).
Proof.
  apply (no_commit_error_guarded ex2_cfg ex2_U HL2 ex2_wf _ ex2_nd ex2_inv (proj1 (proj2 (proj2 (proj2 ex2_state)))) ex2_incl).
  apply ex2_stream_in. vm_compute. reflexivity.
Qed.

(* WHY fin_fixed cannot simply be dropped: f4 (child of m3) is accepted when it arrives before m7 and refused (code 3)
   when it arrives after m7 has moved finalized from m2 to m4 — the verdict on f4 depends on the node's state, while
   Sync/Model.v's `valid : Blk -> bool` sees the block alone.  At fin = m2 Sync's run accepts f4 in both orders. *)
Example fin_moves_valid_is_not_a_function :
  import_codes true ex2_cfg ex2_nd ([ex2_f4] ++ map ex2_m [6; 7]) = [0; 0; 0] /\
  import_codes true ex2_cfg ex2_nd (map ex2_m [6; 7] ++ [ex2_f4]) = [0; 0; 3] /\
  valid_bft ex2_U ex2_fin (b_id ex2_f4) = true /\ valid_bft ex2_U (b_id (ex2_m 4)) (b_id ex2_f4) = false /\
  snd (Sync.Model.import_all N sbid (sparent ex2_U) (valid_bft ex2_U ex2_fin) (sbetter ex2_cfg ex2_U) (sync_node ex2_nd)
         (map b_id (map ex2_m [6; 7] ++ [ex2_f4]))) = true /\
  ~ fin_fixed ex2_cfg true ex2_nd (map ex2_m [6; 7] ++ [ex2_f4]) ex2_fin.
Proof.
  repeat (split; [vm_compute; reflexivity|]). intros H. vm_compute in H.
  destruct H as [_ [_ [H _]]]. discriminate H.
Qed.

(* the one-chain variant: m6..m9, finalized moves from m2 to m4 (at m7) and to m6 (at m9) — fin_fixed is false — and
   nothing is refused *)
Example stream_sim_chain_example :
  ~ fin_fixed ex2_cfg true ex2_nd (map ex2_m [6; 7; 8; 9]) ex2_fin /\
  Sync.Model.import_all N sbid (sparent ex2_U) (valid_bft ex2_U ex2_fin) (sbetter ex2_cfg ex2_U) (sync_node ex2_nd)
    (map b_id (map ex2_m [6; 7; 8; 9])) =
  (sync_node (ProofsNode.import_all ex2_cfg true ex2_nd (map ex2_m [6; 7; 8; 9])), true) /\
  codes_ok ex2_cfg true ex2_nd (map ex2_m [6; 7; 8; 9]).
Proof.
  split.
  - intros H. vm_compute in H. destruct H as [_ [_ [H _]]]. discriminate H.
  - destruct ex2_state as [Hfin [_ [_ [Hfc Hfo]]]].
    apply (stream_sim_chain ex2_cfg HL2 true ex2_U ex2_wf ex2_fin _ ex2_nd (b_id (ex2_m 5)) ex2_inv Hfo ex2_incl).
    + apply ex2_stream_in. vm_compute. reflexivity.
    + assert (E : forall b, In b (map ex2_m [6; 7; 8; 9]) -> negb (b_num b =? 0) = true)
        by (apply forallb_forall; vm_compute; reflexivity).
      intros b Hb. specialize (E b Hb). lia.
    + vm_compute. tauto.
    + vm_compute. reflexivity.
    + left. exact Hfin.
    + assert (E : forall b, In b (map ex2_m [6; 7; 8; 9]) -> valid_bft ex2_U ex2_fin (b_id b) = true)
        by (apply forallb_forall; vm_compute; reflexivity).
      intros b Hb _. exact (E b Hb).
    + apply (no_commit_error_guarded ex2_cfg ex2_U HL2 ex2_wf _ ex2_nd ex2_inv Hfc ex2_incl).
      apply ex2_stream_in. vm_compute. reflexivity.
Qed.

(* ---- the conclusion on instance B *)

(* sync_converges_bft_node with a NON-genesis finalized block (m2): local head l7 (quality 2, total score 200), peer's
   chain g..m7; the search finds height 5, the download delivers m6, m7, finalized is m2 at both arrivals, the Bft node
   imports both with code 0 and ends with the peer's head m7 as best *)
Example sync_converges_bft_node_example :
  idnum ex2_fin <> 0 /\
  exists a l,
    Sync.Model.find_common_ancestor (fun n => Some (Sync.ProofsConverge.same_at N sbid ex2_lc ex2_rc7 n)) 7 20 = Sync.Model.Anc a /\
    a = 5 /\ l = map b_id (map ex2_m [6; 7]) /\
    let nd' := ProofsNode.import_all ex2_cfg true ex2_nd (map (blk_of ex2_U) l) in
    Sync.Model.import_all N sbid (sparent ex2_U) (valid_bft ex2_U ex2_fin) (sbetter ex2_cfg ex2_U) (sync_node ex2_nd) l =
      (sync_node nd', true) /\
    codes_ok ex2_cfg true ex2_nd (map (blk_of ex2_U) l) /\ inv ex2_cfg nd' /\ n_best nd' = b_id (ex2_m 7).
Proof.
  split; [vm_compute; discriminate|].
  destruct (sync_converges_bft_node ex2_cfg true ex2_U ex2_nd ex2_fin idnum ex2_lc ex2_rc7 (fun _ => 2%nat)
              (b_id (ex2_m 7)) 20 20) as [a [l [H1 [H2 [H3 [Hl H]]]]]].
  - exact HL2.
  - exact ex2_inv.
  - exact ex2_wf.
  - exact ex2_incl.
  - apply forallb_forall. vm_compute. reflexivity.
  - apply linkedb_sound. vm_compute. reflexivity.
  - apply linkedb_sound. vm_compute. reflexivity.
  - apply inclb_sound. vm_compute. reflexivity.
  - vm_compute. reflexivity.
  - vm_compute. reflexivity.
  - intros n b Hb. rewrite (numberedb_sound ex2_rc7 0 ltac:(vm_compute; reflexivity) n b Hb). lia.
  - vm_compute. reflexivity.
  - assert (E : forall i, In i ex2_rc7 -> known (n_repo ex2_nd) i || has_block ex2_U (sparent ex2_U i) ex2_fin = true)
      by (apply forallb_forall; vm_compute; reflexivity).
    intros i Hi Hk. specialize (E i Hi). rewrite Hk in E. right. exact E.
  - intros n. unfold Sync.Model.max_batch. lia.
  - reflexivity.
  - vm_compute. reflexivity.
  - assert (E : forall b, In b ex2_rc7 -> (b =? b_id (ex2_m 7)) || sbetter ex2_cfg ex2_U (b_id (ex2_m 7)) b = true)
      by (apply forallb_forall; vm_compute; reflexivity).
    intros b Hb Hne. specialize (E b Hb). apply orb_prop in E. destruct E as [E|E]; [apply N.eqb_eq in E; contradiction | exact E].
  - vm_compute. lia.
  - vm_compute. lia.
  - assert (Ea : a = 5) by (vm_compute in H1; inversion H1; reflexivity). subst a.
    assert (El : l = map b_id (map ex2_m [6; 7])) by (rewrite Hl; vm_compute; reflexivity).
    exists 5, l. split; [exact H1 | split; [reflexivity | split; [exact El|]]].
    apply H.
    + rewrite El. vm_compute. tauto.
    + intros code Hc. rewrite El in Hc. vm_compute in Hc. repeat (destruct Hc as [<-|Hc]; [lia|]). destruct Hc.
Qed.

(* the _guarded variant: peer's chain g..m9, finalized moves from m2 to m4 to m6 while m6..m9 are imported; no premise
   about the run *)
Example sync_converges_bft_node_guarded_example :
  exists a l,
    Sync.Model.find_common_ancestor (fun n => Some (Sync.ProofsConverge.same_at N sbid ex2_lc ex2_rc9 n)) 7 20 = Sync.Model.Anc a /\
    a = 5 /\ l = map b_id (map ex2_m [6; 7; 8; 9]) /\
    let nd' := ProofsNode.import_all ex2_cfg true ex2_nd (map (blk_of ex2_U) l) in
    Sync.Model.import_all N sbid (sparent ex2_U) (valid_bft ex2_U ex2_fin) (sbetter ex2_cfg ex2_U) (sync_node ex2_nd) l =
      (sync_node nd', true) /\
    codes_ok ex2_cfg true ex2_nd (map (blk_of ex2_U) l) /\ inv ex2_cfg nd' /\ n_best nd' = b_id (ex2_m 9) /\
    e_fin (n_eng nd') = b_id (ex2_m 6).
Proof.
  destruct ex2_state as [Hfin [_ [_ [Hfc Hfo]]]].
  destruct (sync_converges_bft_node_guarded ex2_cfg ex2_U ex2_nd idnum ex2_lc ex2_rc9 (fun _ => 3%nat)
              (b_id (ex2_m 9)) 20 20) as [a [l [H1 [H2 [H3 [Hl H]]]]]].
  - exact HL2.
  - exact ex2_inv.
  - exact Hfo.
  - exact Hfc.
  - exact ex2_wf.
  - exact ex2_incl.
  - apply forallb_forall. vm_compute. reflexivity.
  - apply linkedb_sound. vm_compute. reflexivity.
  - apply linkedb_sound. vm_compute. reflexivity.
  - apply inclb_sound. vm_compute. reflexivity.
  - vm_compute. reflexivity.
  - vm_compute. reflexivity.
  - intros n b Hb. rewrite (numberedb_sound ex2_rc9 0 ltac:(vm_compute; reflexivity) n b Hb). lia.
  - intros i _. reflexivity.
  - vm_compute. reflexivity.
  - rewrite Hfin.
    assert (E : forall i, In i ex2_rc9 -> known (n_repo ex2_nd) i || has_block ex2_U (sparent ex2_U i) ex2_fin = true)
      by (apply forallb_forall; vm_compute; reflexivity).
    intros i Hi Hk. specialize (E i Hi). rewrite Hk in E. right. exact E.
  - intros n. unfold Sync.Model.max_batch. lia.
  - reflexivity.
  - vm_compute. reflexivity.
  - assert (E : forall b, In b ex2_rc9 -> (b =? b_id (ex2_m 9)) || sbetter ex2_cfg ex2_U (b_id (ex2_m 9)) b = true)
      by (apply forallb_forall; vm_compute; reflexivity).
    intros b Hb Hne. specialize (E b Hb). apply orb_prop in E. destruct E as [E|E]; [apply N.eqb_eq in E; contradiction | exact E].
  - vm_compute. lia.
  - vm_compute. lia.
  - assert (Ea : a = 5) by (vm_compute in H1; inversion H1; reflexivity). subst a.
    assert (El : l = map b_id (map ex2_m [6; 7; 8; 9])) by (rewrite Hl; vm_compute; reflexivity).
    exists 5, l. split; [exact H1 | split; [reflexivity | split; [exact El|]]].
    rewrite Hfin in H. cbv zeta in H |- *. destruct H as [S1 [S2 [S3 S4]]].
    split; [exact S1 | split; [exact S2 | split; [exact S3 | split; [exact S4|]]]].
    rewrite El. vm_compute. reflexivity.
Qed.

(* the same instance through the _chain statement, for the code before the F1 repair (guard = false): the side condition
   no_commit_error is checked on the run *)
Example sync_converges_bft_node_chain_example :
  exists a l,
    l = map b_id (map ex2_m [6; 7; 8; 9]) /\
    Sync.Model.find_common_ancestor (fun n => Some (Sync.ProofsConverge.same_at N sbid ex2_lc ex2_rc9 n)) 7 20 = Sync.Model.Anc a /\
    let nd' := ProofsNode.import_all ex2_cfg false ex2_nd (map (blk_of ex2_U) l) in
    Sync.Model.import_all N sbid (sparent ex2_U) (valid_bft ex2_U ex2_fin) (sbetter ex2_cfg ex2_U) (sync_node ex2_nd) l =
      (sync_node nd', true) /\ n_best nd' = b_id (ex2_m 9).
Proof.
  destruct ex2_state as [Hfin [_ [_ [Hfc Hfo]]]].
  destruct (sync_converges_bft_node_chain ex2_cfg false ex2_U ex2_nd idnum ex2_lc ex2_rc9 (fun _ => 1024%nat)
              (b_id (ex2_m 9)) 20 20) as [a [l [H1 [H2 [H3 [Hl H]]]]]].
  - exact HL2.
  - exact ex2_inv.
  - exact Hfo.
  - exact ex2_wf.
  - exact ex2_incl.
  - apply forallb_forall. vm_compute. reflexivity.
  - apply linkedb_sound. vm_compute. reflexivity.
  - apply linkedb_sound. vm_compute. reflexivity.
  - apply inclb_sound. vm_compute. reflexivity.
  - vm_compute. reflexivity.
  - vm_compute. reflexivity.
  - intros n b Hb. rewrite (numberedb_sound ex2_rc9 0 ltac:(vm_compute; reflexivity) n b Hb). lia.
  - intros i _. reflexivity.
  - vm_compute. reflexivity.
  - rewrite Hfin.
    assert (E : forall i, In i ex2_rc9 -> known (n_repo ex2_nd) i || has_block ex2_U (sparent ex2_U i) ex2_fin = true)
      by (apply forallb_forall; vm_compute; reflexivity).
    intros i Hi Hk. specialize (E i Hi). rewrite Hk in E. right. exact E.
  - intros n. unfold Sync.Model.max_batch. lia.
  - reflexivity.
  - vm_compute. reflexivity.
  - assert (E : forall b, In b ex2_rc9 -> (b =? b_id (ex2_m 9)) || sbetter ex2_cfg ex2_U (b_id (ex2_m 9)) b = true)
      by (apply forallb_forall; vm_compute; reflexivity).
    intros b Hb Hne. specialize (E b Hb). apply orb_prop in E. destruct E as [E|E]; [apply N.eqb_eq in E; contradiction | exact E].
  - vm_compute. lia.
  - vm_compute. lia.
  - assert (El : l = map b_id (map ex2_m [6; 7; 8; 9])).
    { assert (Ea : a = 5) by (vm_compute in H1; inversion H1; reflexivity). subst a. rewrite Hl. vm_compute. reflexivity. }
    exists a, l. split; [exact El | split; [exact H1|]].
    rewrite Hfin in H. cbv zeta in H |- *. destruct H as [S1 [_ [_ S4]]]; [|split; [exact S1 | exact S4]].
    intros code Hc. rewrite El in Hc. vm_compute in Hc. repeat (destruct Hc as [<-|Hc]; [lia|]). destruct Hc.
Qed.
