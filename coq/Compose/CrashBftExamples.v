(* Compose/CrashBftExamples.v — non-vacuity of the Crash <-> Bft bridge (Compose/CrashBft.v) on the example history of
   Crash/Examples.v: genesis + seven blocks on one chain, epoch length 2, every block justified and committed on the crash
   side.  On the Bft side: one proposer slot (threshold 1 * 2 / 3 = 0, so one COM vote justifies and commits a round), every
   block signed by signer 1 with the COM bit.  All hypotheses of the bridge theorems are met; the coupling
   [flags_are_tallies] is CHECKED (vm_compute of the Bft tally against the stored flags) for the genesis store, for the
   store after the history and for a store resumed after the F6 cut; the abstraction of the final store is the Bft node
   that imported the seven blocks. *)
From Coq Require Import List NArith Bool Lia.
From Verif Require Import Crash.Model Crash.ProofsStore Crash.ProofsInv Crash.ProofsImport Crash.ProofsCrash Crash.Examples
  Crash.ProofsEqv Crash.ProofsShape Crash.ProofsResumeAll Crash.ProofsResume Crash.ProofsQuality.
From Verif Require Import Compose.CrashBft.
Import ListNotations.
Open Scope N_scope.

Definition xbc : BM.cfg := BM.mkCfg 2 1 false 0 [].
Definition xsg (id : N) : N := 1.
Definition xcm (id : N) : bool := true.
Definition xmaster : N := 9.

Definition xnode : BM.node := gnode tr_small xsg xcm xmaster ex_gen.
Definition xabs : store -> BM.node := abs ex_cfg tr_small xsg xcm xmaster.
Definition xrun : BM.node := BN.import_all xbc true xnode (map (ablk tr_small xsg xcm) ex_hist).

Lemma ex_small_gen : small (b_id ex_gen).
Proof. vm_compute. reflexivity. Qed.

Lemma ex_ids_ok : ids_ok small ex_hist.
Proof.
  intros b Hb. unfold ex_hist in Hb. cbn [In] in Hb.
  repeat (destruct Hb as [<-|Hb]; [split; [vm_compute; reflexivity | split; vm_compute; reflexivity]|]). destruct Hb.
Qed.

Lemma ex_flags_hist : flags_hist xbc tr_small xsg xcm xnode ex_hist.
Proof.
  unfold ex_hist. cbn [flags_hist]. repeat (split; [intros _; vm_compute; split; reflexivity|]). exact I.
Qed.

Lemma ex_hist_ok : hist_ok ex_cfg xbc tr_small small xsg xcm ex_s0 xnode ex_hist.
Proof. apply hist_ok_intro; [exact ex_ids_ok | exact ex_wf_hist | exact ex_flags_hist]. Qed.

(* every hypothesis of the theorems of CrashBft.v's FromGenesis section holds of the example *)
Lemma ex_bridge_hypotheses :
  BM.c_L xbc = c_L ex_cfg /\
  (forall a, small a -> BT.idnum (tr_small a) = num_of a) /\
  (forall a b, small a -> small b -> (tr_small a <? tr_small b) = (a <? b)) /\
  wf_cfg2 ex_cfg /\ c_g ex_cfg = b_id ex_gen /\ b_skeep ex_gen = [] /\ b_ikeep ex_gen = [] /\
  b_just ex_gen = false /\ b_comm ex_gen = false /\ small (b_id ex_gen) /\
  wf_hist ex_cfg ex_s0 ex_hist /\ hist_ok ex_cfg xbc tr_small small xsg xcm ex_s0 xnode ex_hist.
Proof.
  split; [reflexivity|]. split; [exact tr_small_num|]. split; [exact tr_small_lt|]. split; [exact ex_wf_cfg2|].
  do 5 (split; [reflexivity|]). split; [exact ex_small_gen|]. split; [exact ex_wf_hist | exact ex_hist_ok].
Qed.

(* the coupling, checked: the flags stored with every block are the tally compute_state gives for it over the abstract node *)
Lemma ex_flags_are_tallies :
  flags_are_tallies ex_cfg xbc tr_small xsg xcm xmaster ex_s0 /\
  flags_are_tallies ex_cfg xbc tr_small xsg xcm xmaster (run ex_cfg ex_s0 ex_hist) /\
  match resume ex_cfg true (crash ex_cfg ex_s0 ex_hist f6_cut) (skipn 2 ex_hist) with
  | Some r => flags_are_tallies ex_cfg xbc tr_small xsg xcm xmaster r
  | None => False
  end.
Proof.
  split; [apply flags_are_tallies_b_ok; vm_compute; reflexivity|].
  split; [apply flags_are_tallies_b_ok; vm_compute; reflexivity|].
  destruct (resume ex_cfg true (crash ex_cfg ex_s0 ex_hist f6_cut) (skipn 2 ex_hist)) as [r|] eqn:E.
  - apply flags_are_tallies_b_ok.
    assert (H : option_map (flags_are_tallies_b xbc tr_small xsg xcm)
                  (resume ex_cfg true (crash ex_cfg ex_s0 ex_hist f6_cut) (skipn 2 ex_hist)) = Some true) by (vm_compute; reflexivity).
    rewrite E in H. cbn in H. inversion H. reflexivity.
  - assert (H : option_map (fun _ => true) (resume ex_cfg true (crash ex_cfg ex_s0 ex_hist f6_cut) (skipn 2 ex_hist)) = Some true)
      by (vm_compute; reflexivity).
    rewrite E in H. discriminate H.
Qed.

(* the history is not trivial on the Bft side either: seven blocks stored on top of genesis, best = block 7,
   finalized = block 4, quality records 1 2 3 4 at the store points 1 3 5 7; and the abstraction function applied to the
   store after the history gives exactly that node *)
Lemma ex_abs_is_bft_run :
  BM.n_repo (xabs (run ex_cfg ex_s0 ex_hist)) = BM.n_repo xrun /\
  BM.n_best (xabs (run ex_cfg ex_s0 ex_hist)) = BM.n_best xrun /\
  BM.e_fin (BM.n_eng (xabs (run ex_cfg ex_s0 ex_hist))) = BM.e_fin (BM.n_eng xrun) /\
  length (BM.n_repo xrun) = 8%nat /\
  BM.n_best xrun = tr_small (bid 7 7) /\ BM.e_fin (BM.n_eng xrun) = tr_small (bid 4 4) /\
  map (fun k => BM.get_q (BM.e_qs (BM.n_eng xrun)) (tr_small (bid k k))) [1; 3; 5; 7] = [1; 2; 3; 4] /\
  map (fun k => get_quality (run ex_cfg ex_s0 ex_hist) (bid k k)) [1; 3; 5; 7] = [1; 2; 3; 4].
Proof. vm_compute. repeat split. Qed.

(* the store resumed after the F6 cut (between the block bulk and the quality record of block 3), abstracted: the same node *)
Lemma ex_resumed_abs :
  cut_in_import ex_cfg ex_s0 ex_hist f6_cut 2 /\
  option_map (fun r => (BM.n_repo (xabs r), BM.n_best (xabs r), BM.e_fin (BM.n_eng (xabs r))))
    (resume ex_cfg true (crash ex_cfg ex_s0 ex_hist f6_cut) (skipn 2 ex_hist)) =
  Some (BM.n_repo xrun, BM.n_best xrun, BM.e_fin (BM.n_eng xrun)).
Proof. split; [exact (proj1 f6_cut_position) | vm_compute; reflexivity]. Qed.

(* the block tree of the example is a single chain, hence consistent (the premise of resumed_function_of_set) *)
Lemma ex_tree :
  BO3.tree_consistent xbc (BM.n_repo xrun) /\ In (ablk tr_small xsg xcm ex_gen) (BM.n_repo xrun) /\
  (forall b, In b ex_hist -> In (ablk tr_small xsg xcm b) (BM.n_repo xrun)).
Proof.
  split; [|split].
  - apply BO3.single_chain_consistent; vm_compute; repeat split.
  - vm_compute. tauto.
  - intros b Hb. unfold ex_hist in Hb. cbn [In] in Hb.
    repeat (destruct Hb as [<-|Hb]; [vm_compute; tauto|]). destruct Hb.
Qed.
