(* LogDB/ProofsSync.v — the startup re-sync (cmd/thor/sync_logdb.go; tied to the real functions by the C15 harness through the cmd/thor test-binary hook) re-establishes the C15 invariant:
   if the tables are the canonical tables of ANY stored block x (the best block at the time logs were last written:
   an ancestor of the current best, a descendant, or a block of an abandoned branch), then after sync_logdb they are
   the canonical tables of the current best block. *)
From Coq Require Import List NArith ZArith Bool Lia ZifyN ZifyNat ZifyBool Sorted Arith.
From Verif Require Import Chain.Model Chain.Proofs Chain.ProofsWalk Chain.ProofsSys Chain.ProofsPath
  LogDB.Model LogDB.Proofs LogDB.ProofsCanon LogDB.ProofsRows.
Import ListNotations.
Open Scope N_scope.
Ltac Zify.zify_post_hook ::= Z.div_mod_to_equations.

(* ---------------------------------------------------------------- ids and heights *)
Transparent num_of.
Lemma num_of_0 : num_of 0 = 0.
Proof. reflexivity. Qed.
Lemma id_lt_of_num_lt a b : num_of a < num_of b -> a < b.
Proof.
  unfold num_of. rewrite !N.shiftr_div_pow2. intros H.
  destruct (N.lt_ge_cases a b) as [|Hge]; [assumption|]. exfalso.
  assert (b / 2 ^ 224 <= a / 2 ^ 224) by (apply N.div_le_mono; [discriminate | exact Hge]). lia.
Qed.
Global Opaque num_of.

(* ---------------------------------------------------------------- lists *)
Lemma last_app_ne {A} (l1 l2 : list A) d : l2 <> [] -> last (l1 ++ l2) d = last l2 d.
Proof.
  intros Hne. induction l1 as [|a l1 IH]; [reflexivity|]. cbn [app].
  destruct (l1 ++ l2) as [|x t] eqn:E.
  - apply app_eq_nil in E. destruct E. contradiction.
  - change (last (a :: x :: t) d) with (last (x :: t) d). exact IH.
Qed.
Lemma last_In {A} (l : list A) d : l <> [] -> In (last l d) l.
Proof.
  induction l as [|a l IH]; [congruence|]. intros _. destruct l as [|x t]; [left; reflexivity|].
  change (last (a :: x :: t) d) with (last (x :: t) d). right. apply IH. discriminate.
Qed.

(* ---------------------------------------------------------------- more about paths *)
Section PathsMore.
  Variables (g gp : N) (r : repo).
  Hypothesis W : wf g gp r.

  Lemma path_suffix c pre : forall y suf, is_path r c (pre ++ y :: suf) -> is_path r y (y :: suf).
  Proof.
    revert c. induction pre as [|a pre IH]; intros c y suf P; cbn [app] in P.
    - destruct (path_head _ _ _ P) as [t Et]. injection Et as -> _. exact P.
    - inversion P as [E|h s l Hs Hg Hp]; subst.
      + destruct pre; discriminate.
      + eapply IH. exact Hp.
  Qed.

  Lemma path_length c pre : forall suf F, is_path r c (pre ++ suf) -> is_path r F suf ->
    num_of c = num_of F + N.of_nat (length pre).
  Proof.
    revert c. induction pre as [|a pre IH]; intros c suf F P PF; cbn [app length] in *.
    - destruct (path_head _ _ _ P) as [t Et]. destruct (path_head _ _ _ PF) as [t' Et'].
      rewrite Et in Et'. injection Et' as -> _. lia.
    - inversion P as [E|h s l Hs Hg Hp]; subst.
      + exfalso. destruct (path_head _ _ _ PF) as [t' ->]. destruct pre; discriminate.
      + rewrite (w_gen _ _ _ W) in Hg. destruct (w_par _ _ _ W _ _ Hs Hg) as [ps [_ [En _]]].
        rewrite (IH _ _ _ Hp PF) in En. lia.
  Qed.

  (* the blocks of c's chain above F, pumped by height, are the prefix of c's path, oldest first *)
  Lemma write_range_path c pre : forall suf F d, is_path r c (pre ++ suf) -> is_path r F suf ->
    write_range r c (length pre) (num_of F + 1) d = write_ids r (rev pre) d.
  Proof.
    induction pre as [|y pre IH] using rev_ind; intros suf F d P PF; [reflexivity|].
    rewrite rev_app_distr, app_length. cbn [rev app length]. rewrite Nat.add_1_r. cbn [write_range write_ids].
    rewrite <- app_assoc in P. cbn [app] in P.
    pose proof (path_suffix c pre y suf P) as Py.
    assert (Ey : num_of y = num_of F + 1 /\ anc r c y).
    { split.
      - inversion Py as [E|h s l Hs Hg Hp]; subst.
        + exfalso. destruct (path_head _ _ _ PF) as [t' E']. discriminate E'.
        + destruct (path_head _ _ _ Hp) as [t1 E1]. destruct (path_head _ _ _ PF) as [t2 E2].
          rewrite E1 in E2. injection E2 as E2 _. rewrite (w_gen _ _ _ W) in Hg.
          destruct (w_par _ _ _ W _ _ Hs Hg) as [ps [_ [En _]]]. rewrite E2 in En. exact En.
      - apply (path_members g gp r W _ _ P). apply in_or_app. right. left. reflexivity. }
    destruct Ey as [Ey Ay].
    replace (get_block_id r c (num_of F + 1)) with (Ok y)
      by (symmetry; apply (get_block_id_spec g gp r W); [apply (anc_stored _ _ _ Ay) | auto]).
    destruct (get_block r y) as [[s b]|]; [|reflexivity]. destruct (write_block b d) as [d'|]; [|reflexivity].
    rewrite <- Ey. apply (IH (y :: suf) y d' P Py).
  Qed.
End PathsMore.

(* ---------------------------------------------------------------- every row knows its block *)
Lemma spec_events_block bid bnum btime txid origin txi clause evs : forall ec x,
  In x (spec_events bid bnum btime txid origin txi clause ec evs) -> er_block x = bid.
Proof. induction evs as [|e evs IH]; intros ec x; cbn [spec_events In]; [tauto|]. intros [<-|H]; [reflexivity | eapply IH; eauto]. Qed.
Lemma spec_transfers_block bid bnum btime txid origin txi clause trs : forall tc x,
  In x (spec_transfers bid bnum btime txid origin txi clause tc trs) -> tr_block x = bid.
Proof. induction trs as [|e trs IH]; intros tc x; cbn [spec_transfers In]; [tauto|]. intros [<-|H]; [reflexivity | eapply IH; eauto]. Qed.
Lemma spec_outputs_ev_block bid bnum btime txid origin txi outs : forall clause ec x,
  In x (spec_outputs_ev bid bnum btime txid origin txi clause ec outs) -> er_block x = bid.
Proof.
  induction outs as [|[evs trs] outs IH]; intros clause ec x; cbn [spec_outputs_ev In]; [tauto|].
  intros H. apply in_app_or in H. destruct H as [H|H]; [eapply spec_events_block; eauto | eapply IH; eauto].
Qed.
Lemma spec_outputs_tr_block bid bnum btime txid origin txi outs : forall clause tc x,
  In x (spec_outputs_tr bid bnum btime txid origin txi clause tc outs) -> tr_block x = bid.
Proof.
  induction outs as [|[evs trs] outs IH]; intros clause tc x; cbn [spec_outputs_tr In]; [tauto|].
  intros H. apply in_app_or in H. destruct H as [H|H]; [eapply spec_transfers_block; eauto | eapply IH; eauto].
Qed.
Lemma spec_receipts_ev_block bid bnum btime rcs : forall txs txi ec x,
  In x (spec_receipts_ev bid bnum btime txs rcs txi ec) -> er_block x = bid.
Proof.
  induction rcs as [|rc rcs IH]; intros txs txi ec x; cbn [spec_receipts_ev In]; [tauto|].
  intros H. apply in_app_or in H. destruct H as [H|H]; [eapply spec_outputs_ev_block; eauto | eapply IH; eauto].
Qed.
Lemma spec_receipts_tr_block bid bnum btime rcs : forall txs txi tc x,
  In x (spec_receipts_tr bid bnum btime txs rcs txi tc) -> tr_block x = bid.
Proof.
  induction rcs as [|rc rcs IH]; intros txs txi tc x; cbn [spec_receipts_tr In]; [tauto|].
  intros H. apply in_app_or in H. destruct H as [H|H]; [eapply spec_outputs_tr_block; eauto | eapply IH; eauto].
Qed.

Section Origin.
  Variable r : repo.
  Hypothesis WB : wf_body r.

  Definition blk_events (id : N) : list evrow := match get_block r id with Some (_, b) => block_events b | None => [] end.
  Definition blk_transfers (id : N) : list trrow := match get_block r id with Some (_, b) => block_transfers b | None => [] end.

  Lemma blk_events_block id x : In x (blk_events id) -> er_block x = id.
  Proof.
    unfold blk_events. destruct (get_block r id) as [[s b]|] eqn:E; [|intros []]. intros H.
    rewrite <- (get_block_id_eq r WB _ _ _ E). eapply spec_receipts_ev_block; eauto.
  Qed.
  Lemma blk_transfers_block id x : In x (blk_transfers id) -> tr_block x = id.
  Proof.
    unfold blk_transfers. destruct (get_block r id) as [[s b]|] eqn:E; [|intros []]. intros H.
    rewrite <- (get_block_id_eq r WB _ _ _ E). eapply spec_receipts_tr_block; eauto.
  Qed.

  Lemma chain_events_origin st x : In x (chain_events r st) -> In (er_block x) st.
  Proof.
    induction st as [|id st IH]; cbn [chain_events In]; [tauto|]. intros H. apply in_app_or in H.
    destruct H as [H|H]; [right; apply IH; exact H | left; symmetry; apply blk_events_block; exact H].
  Qed.
  Lemma chain_transfers_origin st x : In x (chain_transfers r st) -> In (tr_block x) st.
  Proof.
    induction st as [|id st IH]; cbn [chain_transfers In]; [tauto|]. intros H. apply in_app_or in H.
    destruct H as [H|H]; [right; apply IH; exact H | left; symmetry; apply blk_transfers_block; exact H].
  Qed.

  Lemma rows_suffix_some pre : forall suf d, rows_of_path r (pre ++ suf) = Some d -> exists ds, rows_of_path r suf = Some ds.
  Proof.
    induction pre as [|y pre IH]; intros suf d H; [eauto|]. cbn [app rows_of_path] in H.
    destruct (rows_of_path r (pre ++ suf)) as [d0|] eqn:E; [|discriminate]. eapply IH; eauto.
  Qed.

  (* blocks above `best` that contribute the newest row would make NewestBlockID exceed best *)
  Lemma pre_no_events best suf pre : (forall y, In y pre -> best < y) ->
    last (map er_block (chain_events r (pre ++ suf))) 0 <= best -> chain_events r (pre ++ suf) = chain_events r suf.
  Proof.
    induction pre as [|y pre IH]; intros Hy Hl; [reflexivity|]. cbn [app chain_events] in *. fold (blk_events y) in *.
    destruct (blk_events y) as [|x t] eqn:E.
    - rewrite app_nil_r in *. apply IH; [intros z Hz; apply Hy; right; exact Hz | exact Hl].
    - exfalso. rewrite map_app, last_app_ne in Hl by discriminate.
      assert (I : In (last (map er_block (x :: t)) 0) (map er_block (x :: t))) by (apply last_In; discriminate).
      apply in_map_iff in I. destruct I as [z [Ez Hz]]. rewrite <- E in Hz. apply blk_events_block in Hz.
      pose proof (Hy y (or_introl eq_refl)). lia.
  Qed.
  Lemma pre_no_transfers best suf pre : (forall y, In y pre -> best < y) ->
    last (map tr_block (chain_transfers r (pre ++ suf))) 0 <= best -> chain_transfers r (pre ++ suf) = chain_transfers r suf.
  Proof.
    induction pre as [|y pre IH]; intros Hy Hl; [reflexivity|]. cbn [app chain_transfers] in *. fold (blk_transfers y) in *.
    destruct (blk_transfers y) as [|x t] eqn:E.
    - rewrite app_nil_r in *. apply IH; [intros z Hz; apply Hy; right; exact Hz | exact Hl].
    - exfalso. rewrite map_app, last_app_ne in Hl by discriminate.
      assert (I : In (last (map tr_block (x :: t)) 0) (map tr_block (x :: t))) by (apply last_In; discriminate).
      apply in_map_iff in I. destruct I as [z [Ez Hz]]. rewrite <- E in Hz. apply blk_transfers_block in Hz.
      pose proof (Hy y (or_introl eq_refl)). lia.
  Qed.
End Origin.

(* ---------------------------------------------------------------- the re-sync *)
Section Sync.
  Variables (g gp : N) (r : repo).
  Hypothesis W : wf g gp r.
  Hypothesis WB : wf_body r.
  Variables (x : N) (st_x st_b : list N) (db : logdb).
  Hypothesis Px : is_path r x st_x.
  Hypothesis Pb : is_path r (r_best r) st_b.
  Hypothesis Hdb : rows_of_path r st_x = Some db.       (* the tables were canonical for x *)
  Let best := r_best r.

  Lemma flat_x : db_events db = chain_events r st_x /\ db_transfers db = chain_transfers r st_x.
  Proof. apply (rows_of_path_flat r st_x WB (path_desc g gp r W _ _ Px) db Hdb). Qed.

  (* a block with a row in the tables is on x's chain *)
  Lemma row_block_on_x h :
    (exists e, In e (db_events db) /\ er_block e = h) \/ (exists t, In t (db_transfers db) /\ tr_block t = h) -> In h st_x.
  Proof.
    destruct flat_x as [E1 E2]. intros [[e [He <-]]|[t [Ht <-]]].
    - rewrite E1 in He. apply (chain_events_origin r WB). exact He.
    - rewrite E2 in Ht. apply (chain_transfers_origin r WB). exact Ht.
  Qed.

  (* truncating above a common block h and rewriting best's chain above h yields the canonical tables of best *)
  Lemma rebuild_from h d1 db' : In h st_x -> anc r best h ->
    truncate (num_of h + 1) db = Some d1 ->
    write_range r best (N.to_nat (num_of best - num_of h)) (num_of h + 1) d1 = Some db' ->
    rows_of_path r st_b = Some db'.
  Proof.
    intros Hx Hb T Hw.
    destruct (in_split _ _ Hx) as [pre_x [suf_x Ex]]. destruct (in_split _ _ (proj2 (path_members g gp r W _ _ Pb h) Hb)) as [pre_b [suf_b Eb]].
    pose proof Px as Px'. rewrite Ex in Px'. pose proof Pb as Pb'. rewrite Eb in Pb'.
    pose proof (path_suffix r _ _ _ _ Px') as Ph. pose proof (path_suffix r _ _ _ _ Pb') as Ph'.
    assert (Es : suf_b = suf_x) by (assert (X : h :: suf_b = h :: suf_x) by (eapply path_unique; eauto); injection X; auto).
    subst suf_b.
    (* the truncate leaves the rows of h's path *)
    assert (Hd1 : rows_of_path r (h :: suf_x) = Some d1).
    { rewrite Ex in Hdb. destruct (rows_truncate r WB pre_x (h :: suf_x) db (num_of h + 1) Hdb) as [ds [E1 E2]].
      - intros a Ha. pose proof (path_desc g gp r W _ _ Px') as D.
        pose proof (desc_app_lt pre_x (h :: suf_x) D a h Ha (or_introl eq_refl)). lia.
      - rewrite E2 in T. rewrite E1. f_equal. symmetry. apply (truncate_below _ _ _ T).
        apply (rows_below r WB _ _ _ E1). intros a Ha. apply (path_members g gp r W _ _ Ph) in Ha.
        pose proof (anc_height g gp r W _ _ Ha). lia. }
    pose proof (path_length g gp r W _ _ _ _ Pb' Ph) as Hlen. fold best in Hlen.
    replace (N.to_nat (num_of best - num_of h)) with (length pre_b) in Hw by lia.
    rewrite (write_range_path g gp r W best pre_b (h :: suf_x) h d1 Pb' Ph) in Hw.
    rewrite Eb, <- (rev_involutive pre_b). eapply rows_write_ids; eauto.
  Qed.

  (* the seek walk stops at a block of best's chain that is either genesis or has a row in the tables *)
  Lemma seek_walk_spec : forall fuel h p, anc r best h -> (N.to_nat (num_of h) < fuel)%nat ->
    seek_walk r db fuel h = Ok p ->
    exists h', anc r best h' /\ p = num_of h' + 1 /\ num_of h' <= num_of h /\ In h' st_x.
  Proof.
    induction fuel as [|f IH]; intros h p Ha Hf H; [lia|]. cbn [seek_walk] in H.
    destruct (N.eqb_spec (num_of h) 0) as [E0|N0].
    - injection H as <-. exists h. repeat split; auto; try lia.
      rewrite (stored_height0 g gp r W h (proj2 (anc_stored _ _ _ Ha)) E0).
      apply (path_members g gp r W _ _ Px). apply (anc_to_gen g gp r W). apply (path_stored g gp r W _ _ Px).
    - destruct (has_block_id db h) as [[|]|] eqn:Eh; try discriminate.
      + injection H as <-. exists h. repeat split; auto; try lia. apply row_block_on_x.
        unfold has_block_id in Eh. destruct (seq_of (num_of h) 0 0) as [s|]; [|discriminate]. injection Eh as Eh.
        apply orb_true_iff in Eh. destruct Eh as [Eh|Eh]; apply existsb_exists in Eh; destruct Eh as [y [Hy Ey]];
          apply andb_true_iff in Ey; destruct Ey as [_ Ey]; apply N.eqb_eq in Ey; [right | left]; eauto.
      + destruct (anc_stored _ _ _ Ha) as [_ [s Hs]]. rewrite Hs in H.
        assert (Hg : h <> g) by (intros ->; rewrite (w_gnum _ _ _ W) in N0; congruence).
        destruct (w_par _ _ _ W _ _ Hs Hg) as [ps [_ [En _]]].
        destruct (IH (s_parent s) p) as [h' [A1 [A2 [A3 A4]]]]; auto.
        * eapply anc_trans; [exact Ha | apply (anc_parent g gp r W); auto].
        * lia.
        * exists h'. repeat split; auto. lia.
  Qed.

  (* C15 for the startup re-sync *)
  Theorem sync_reestablishes_lemma db' : sync_logdb r db = Some db' -> rows_of_path r st_b = Some db'.
  Proof.
    unfold sync_logdb, seek_position. fold best.
    assert (Sb : stored r best) by apply (w_best _ _ _ W).
    assert (Gx : In g st_x) by (apply (path_members g gp r W _ _ Px); apply (anc_to_gen g gp r W); apply (path_stored g gp r W _ _ Px)).
    assert (Gb : anc r best g) by (apply (anc_to_gen g gp r W); exact Sb).
    (* rebuilding from block 1 *)
    assert (Rebuild : forall d1, truncate 1 db = Some d1 ->
              write_range r best (N.to_nat (num_of best + 1 - 1)) 1 d1 = Some db' -> rows_of_path r st_b = Some db').
    { intros d1 T Hw. apply (rebuild_from g d1 db' Gx Gb); rewrite (w_gnum _ _ _ W); [exact T|].
      replace (num_of best - 0) with (num_of best + 1 - 1) by lia. exact Hw. }
    destruct (N.eqb_spec (num_of best) 0) as [B0|B0].
    { cbn [N.ltb]. replace (num_of best <? 0) with false by (symmetry; apply N.ltb_ge; lia). cbn [N.eqb].
      destruct (truncate 1 db) as [d1|] eqn:T; [|discriminate]. intros H. eapply Rebuild; eauto. }
    destruct (N.eqb_spec (num_of (newest_block_id db)) 0) as [N0|N0].
    { replace (num_of best <? 0) with false by (symmetry; apply N.ltb_ge; lia). cbn [N.eqb].
      destruct (truncate 1 db) as [d1|] eqn:T; [|discriminate]. intros H. eapply Rebuild; eauto. }
    destruct (N.eqb_spec (newest_block_id db) best) as [Enew|Nnew].
    - (* the newest row belongs to best: nothing to do, and indeed the tables are best's *)
      replace (num_of best <? num_of best + 1) with true by (symmetry; apply N.ltb_lt; lia). intros H. injection H as <-.
      destruct flat_x as [F1 F2]. unfold newest_block_id in Enew.
      assert (Lt : last (map tr_block (db_transfers db)) 0 <= best) by (rewrite <- Enew; apply N.le_max_l).
      assert (Le : last (map er_block (db_events db)) 0 <= best) by (rewrite <- Enew; apply N.le_max_r).
      assert (Bnz : best <> 0) by (intros E; rewrite E, num_of_0 in B0; congruence).
      assert (Hin : In best st_x).
      { apply row_block_on_x. destruct (N.max_spec (last (map tr_block (db_transfers db)) 0) (last (map er_block (db_events db)) 0)) as [[_ M]|[_ M]];
          rewrite M in Enew.
        - left. assert (Ne : map er_block (db_events db) <> []) by (intros E; rewrite E in Enew; cbn in Enew; congruence).
          pose proof (last_In _ 0 Ne) as I. rewrite Enew in I. apply in_map_iff in I. destruct I as [e [E1 E2]]. eauto.
        - right. assert (Ne : map tr_block (db_transfers db) <> []) by (intros E; rewrite E in Enew; cbn in Enew; congruence).
          pose proof (last_In _ 0 Ne) as I. rewrite Enew in I. apply in_map_iff in I. destruct I as [e [E1 E2]]. eauto. }
      destruct (in_split _ _ Hin) as [pre [suf Ex]]. pose proof Px as Px'. rewrite Ex in Px'.
      pose proof (path_suffix r _ _ _ _ Px') as Ph.
      assert (Est : st_b = best :: suf) by (eapply path_unique; eauto).
      assert (Hpre : forall y, In y pre -> best < y).
      { intros y Hy. apply id_lt_of_num_lt. pose proof (path_desc g gp r W _ _ Px') as D.
        apply (desc_app_lt pre (best :: suf) D y best Hy (or_introl eq_refl)). }
      rewrite Ex in Hdb, F1, F2.
      destruct (rows_suffix_some r pre (best :: suf) db Hdb) as [ds Hds].
      destruct (rows_of_path_flat r (best :: suf) WB (path_desc g gp r W _ _ Ph) ds Hds) as [G1 G2].
      rewrite Est, Hds. f_equal. destruct ds as [e1 t1], db as [e2 t2]. cbn [db_events db_transfers] in *. f_equal.
      + rewrite G1, F1. symmetry. apply (pre_no_events r WB best); auto. rewrite <- F1. exact Le.
      + rewrite G2, F2. symmetry. apply (pre_no_transfers r WB best); auto. rewrite <- F2. exact Lt.
    - (* the seek walk *)
      set (start := if num_of best <=? num_of (newest_block_id db) then num_of best - 1 else num_of (newest_block_id db)).
      assert (Hstart : start <= num_of best - 1).
      { unfold start. destruct (N.leb_spec (num_of best) (num_of (newest_block_id db))); lia. }
      destruct (anc_total g gp r W best Sb start ltac:(lia)) as [h0 [A0 E0]].
      replace (get_block_id r best start) with (Ok h0) by (symmetry; apply (get_block_id_spec g gp r W); auto).
      destruct (seek_walk r db (S (N.to_nat (num_of h0))) h0) as [p| |] eqn:Ew; try discriminate.
      destruct (seek_walk_spec (S (N.to_nat (num_of h0))) h0 p A0 (Nat.lt_succ_diag_r _) Ew) as [h' [A1 [A2 [A3 A4]]]]. subst p.
      replace (num_of best <? num_of h' + 1) with false by (symmetry; apply N.ltb_ge; lia).
      replace (num_of h' + 1 =? 0) with false by (symmetry; apply N.eqb_neq; lia).
      destruct (truncate (num_of h' + 1) db) as [d1|] eqn:T; [|discriminate]. intros Hw.
      apply (rebuild_from h' d1 db' A4 A1 T). replace (num_of best - num_of h') with (num_of best + 1 - (num_of h' + 1)) by lia. exact Hw.
  Qed.
End Sync.
