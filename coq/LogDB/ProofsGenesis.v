(* LogDB/ProofsGenesis.v — genesis rows.  cmd/thor/utils.go:initChainRepository writes the events / transfers the genesis
   builder emitted into the log db at every start (Writer.Write(genesisBlock, one receipt), block number 0, INSERT OR
   IGNORE), while NewRepository stores the genesis block WITHOUT receipts.  So in a running node the tables are
   "genesis rows ++ what the import history wrote".  This file shows that such rows (any rows with keys below block 1)
   are a frame: Truncate at a height >= 1, Write of a block of height >= 1 and hence writeLogs commute with them, and
   the invariant of ProofsCanon lifts: after every import history starting from tables db0 below block 1, the tables
   are db0's rows followed by the logs of the canonical chain. *)
From Coq Require Import List NArith ZArith Bool Lia ZifyN ZifyNat ZifyBool Sorted.
From Verif Require Import Chain.Model Chain.Proofs Chain.ProofsWalk Chain.ProofsSys Chain.ProofsPath
  LogDB.Model LogDB.Proofs LogDB.ProofsCanon LogDB.ProofsRows.
Import ListNotations.
Open Scope N_scope.
Ltac Zify.zify_post_hook ::= Z.div_mod_to_equations.

Definition frame (d0 d : logdb) : logdb := mkDB (db_events d0 ++ db_events d) (db_transfers d0 ++ db_transfers d).

Lemma ins_ev_frame x l0 l : (forall y, In y l0 -> er_seq y < er_seq x) -> ins_ev x (l0 ++ l) = l0 ++ ins_ev x l.
Proof.
  induction l0 as [|h t IH]; intros H; [reflexivity|]. cbn [app ins_ev].
  pose proof (H h (or_introl eq_refl)). destruct (N.eqb_spec (er_seq x) (er_seq h)); [lia|].
  destruct (N.ltb_spec (er_seq x) (er_seq h)); [lia|]. f_equal. apply IH. intros y Hy. apply H. right. exact Hy.
Qed.
Lemma ins_tr_frame x l0 l : (forall y, In y l0 -> tr_seq y < tr_seq x) -> ins_tr x (l0 ++ l) = l0 ++ ins_tr x l.
Proof.
  induction l0 as [|h t IH]; intros H; [reflexivity|]. cbn [app ins_tr].
  pose proof (H h (or_introl eq_refl)). destruct (N.eqb_spec (tr_seq x) (tr_seq h)); [lia|].
  destruct (N.ltb_spec (tr_seq x) (tr_seq h)); [lia|]. f_equal. apply IH. intros y Hy. apply H. right. exact Hy.
Qed.

Definition lift (d0 : logdb) (o : option wstate) : option wstate :=
  match o with Some (d, e, t) => Some (frame d0 d, e, t) | None => None end.

Section Frame.
  Variable d0 : logdb.
  Hypothesis B0 : below two35 d0.       (* only rows of block 0 *)
  Variables bid bnum btime : N.
  Hypothesis Hb : 1 <= bnum.

  Lemma seq_ge s txi c : seq_of bnum txi c = Some s -> two35 <= s.
  Proof. intros E. pose proof (seq_in_block _ _ _ _ E). unfold two35 in *. lia. Qed.

  Lemma write_events_frame txid origin txi clause evs : forall d ec tc,
    write_events bid bnum btime txid origin txi clause evs (frame d0 d, ec, tc) =
    lift d0 (write_events bid bnum btime txid origin txi clause evs (d, ec, tc)).
  Proof.
    induction evs as [|e evs IH]; intros d ec tc; cbn [write_events]; [reflexivity|].
    destruct (seq_of bnum txi ec) as [s|] eqn:Es; [|reflexivity].
    pose proof (seq_ge _ _ _ Es) as Hs. cbn [frame db_events db_transfers].
    rewrite ins_ev_frame by (intros y Hy; cbn [er_seq]; pose proof (proj1 B0 y Hy); lia).
    apply (IH (mkDB (ins_ev _ (db_events d)) (db_transfers d))).
  Qed.
  Lemma write_transfers_frame txid origin txi clause trs : forall d ec tc,
    write_transfers bid bnum btime txid origin txi clause trs (frame d0 d, ec, tc) =
    lift d0 (write_transfers bid bnum btime txid origin txi clause trs (d, ec, tc)).
  Proof.
    induction trs as [|e trs IH]; intros d ec tc; cbn [write_transfers]; [reflexivity|].
    destruct (seq_of bnum txi tc) as [s|] eqn:Es; [|reflexivity].
    pose proof (seq_ge _ _ _ Es) as Hs. cbn [frame db_events db_transfers].
    rewrite ins_tr_frame by (intros y Hy; cbn [tr_seq]; pose proof (proj2 B0 y Hy); lia).
    apply (IH (mkDB (db_events d) (ins_tr _ (db_transfers d)))).
  Qed.
  Lemma write_outputs_frame txid origin txi outs : forall clause d ec tc,
    write_outputs bid bnum btime txid origin txi clause outs (frame d0 d, ec, tc) =
    lift d0 (write_outputs bid bnum btime txid origin txi clause outs (d, ec, tc)).
  Proof.
    induction outs as [|[evs trs] outs IH]; intros clause d ec tc; cbn [write_outputs]; [reflexivity|].
    rewrite write_events_frame. destruct (write_events bid bnum btime txid origin txi clause evs (d, ec, tc)) as [[[d1 e1] t1]|]; [|reflexivity].
    cbn [lift]. rewrite write_transfers_frame.
    destruct (write_transfers bid bnum btime txid origin txi clause trs (d1, e1, t1)) as [[[d2 e2] t2]|]; [|reflexivity].
    cbn [lift]. apply IH.
  Qed.
  Lemma write_receipts_frame rcs : forall txs txi d ec tc,
    write_receipts bid bnum btime txs rcs txi (frame d0 d, ec, tc) = lift d0 (write_receipts bid bnum btime txs rcs txi (d, ec, tc)).
  Proof.
    induction rcs as [|rc rcs IH]; intros txs txi d ec tc; cbn [write_receipts]; [reflexivity|].
    destruct (match txs with t :: _ => (tx_id t, tx_origin t) | [] => (0, 0) end) as [txid origin].
    rewrite write_outputs_frame. destruct (write_outputs bid bnum btime txid origin txi 0 (rc_outs rc) (d, ec, tc)) as [[[d1 e1] t1]|]; [|reflexivity].
    cbn [lift]. apply IH.
  Qed.
End Frame.

Lemma write_block_frame d0 b d : below two35 d0 -> 1 <= num_of (b_id b) ->
  write_block b (frame d0 d) = option_map (frame d0) (write_block b d).
Proof.
  intros B0 Hb. unfold write_block. rewrite (write_receipts_frame d0 B0 (b_id b) (num_of (b_id b)) (b_time b) Hb).
  destruct (write_receipts (b_id b) (num_of (b_id b)) (b_time b) (b_txs b) (b_rcs b) 0 (d, 0, 0)) as [[[d1 e1] t1]|]; reflexivity.
Qed.

Lemma truncate_frame d0 n d : below two35 d0 -> 1 <= n -> truncate n (frame d0 d) = option_map (frame d0) (truncate n d).
Proof.
  intros [B1 B2] Hn. unfold truncate. destruct (seq_of n 0 0) as [s|] eqn:E; [|reflexivity].
  apply seq_of_inv in E. destruct E as [_ Es]. cbn [option_map frame db_events db_transfers]. unfold frame. cbn [db_events db_transfers].
  rewrite !filter_app. f_equal. f_equal; f_equal.
  - clear B2. induction (db_events d0) as [|h t IH]; [reflexivity|]. cbn [filter].
    pose proof (B1 h (or_introl eq_refl)). unfold two35 in *. destruct (N.ltb_spec (er_seq h) s); [|lia].
    f_equal. apply IH. intros y Hy. apply B1. right. exact Hy.
  - clear B1. induction (db_transfers d0) as [|h t IH]; [reflexivity|]. cbn [filter].
    pose proof (B2 h (or_introl eq_refl)). unfold two35 in *. destruct (N.ltb_spec (tr_seq h) s); [|lia].
    f_equal. apply IH. intros y Hy. apply B2. right. exact Hy.
Qed.

Section FrameLogs.
  Variables (g gp : N) (r : repo) (d0 : logdb).
  Hypothesis W : wf g gp r.
  Hypothesis WB : wf_body r.
  Hypothesis B0 : below two35 d0.

  Lemma write_ids_frame ids : forall d, (forall a, In a ids -> 1 <= num_of a) ->
    write_ids r ids (frame d0 d) = option_map (frame d0) (write_ids r ids d).
  Proof.
    induction ids as [|x ids IH]; intros d Hn; cbn [write_ids]; [reflexivity|].
    destruct (get_block r x) as [[s b]|] eqn:Eb; [|reflexivity].
    rewrite (write_block_frame d0 b d B0) by (rewrite (get_block_id_eq r WB _ _ _ Eb); apply Hn; left; reflexivity).
    destruct (write_block b d) as [d'|]; [|reflexivity]. cbn [option_map]. apply IH. intros a Ha. apply Hn. right. exact Ha.
  Qed.

  (* the blocks Exclude returns are never genesis *)
  Lemma exclude_above_genesis c o l : stored r c -> stored r o -> exclude r c o = Ok l -> forall a, In a l -> 1 <= num_of a.
  Proof.
    intros Sc So E a Ha. destruct (exclude_spec g gp r W c o Sc So) as [l' [E' [M _]]]. rewrite E in E'. injection E' as <-.
    apply M in Ha. destruct Ha as [Ha Hn]. destruct (N.eq_dec (num_of a) 0) as [E0|]; [|lia]. exfalso. apply Hn.
    rewrite (stored_height0 g gp r W a (proj2 (anc_stored _ _ _ Ha)) E0). apply (anc_to_gen g gp r W). exact So.
  Qed.

  Lemma write_logs_frame d nb : stored r (b_parent nb) -> 1 <= num_of (b_id nb) ->
    write_logs r (frame d0 d) nb (r_best r) = option_map (frame d0) (write_logs r d nb (r_best r)).
  Proof.
    intros Sp Hnb. unfold write_logs. pose proof (w_best _ _ _ W) as Sb.
    destruct (exclude r (r_best r) (b_parent nb)) as [ob| |] eqn:E1; try reflexivity.
    destruct (exclude r (b_parent nb) (r_best r)) as [nbr| |] eqn:E2.
    - assert (T : match ob with [] => Some (frame d0 d) | f :: _ => truncate (num_of f) (frame d0 d) end =
                  option_map (frame d0) (match ob with [] => Some d | f :: _ => truncate (num_of f) d end)).
      { destruct ob as [|f rest]; [reflexivity|]. apply truncate_frame; [exact B0|].
        apply (exclude_above_genesis _ _ _ Sb Sp E1). left. reflexivity. }
      rewrite T. destruct (match ob with [] => Some d | f :: _ => truncate (num_of f) d end) as [d1|]; [|reflexivity]. cbn [option_map].
      rewrite write_ids_frame by (apply (exclude_above_genesis _ _ _ Sp Sb E2)).
      destruct (write_ids r nbr d1) as [d2|]; [|reflexivity]. cbn [option_map]. apply write_block_frame; auto.
    - destruct (match ob with [] => Some (frame d0 d) | f :: _ => truncate (num_of f) (frame d0 d) end);
        destruct (match ob with [] => Some d | f :: _ => truncate (num_of f) d end); reflexivity.
    - destruct (match ob with [] => Some (frame d0 d) | f :: _ => truncate (num_of f) (frame d0 d) end);
        destruct (match ob with [] => Some d | f :: _ => truncate (num_of f) d end); reflexivity.
  Qed.
End FrameLogs.

(* import histories of a node whose log db already holds rows of block 0 (the genesis logs) *)
Inductive imported_from (g gp tag : N) (d0 : logdb) : repo -> logdb -> Prop :=
| impf_init : imported_from g gp tag d0 (init_repo g gp tag) d0
| impf_side r db b conf r' : imported_from g gp tag d0 r db -> valid_add r b conf -> add_block r b conf false = Some r' ->
                             imported_from g gp tag d0 r' db
| impf_best r db b conf r' db' : imported_from g gp tag d0 r db -> valid_add r b conf ->
                                 write_logs r db b (r_best r) = Some db' -> add_block r b conf true = Some r' ->
                                 imported_from g gp tag d0 r' db'.

Lemma imported_from_frame g gp tag d0 r D : num_of g = 0 -> below two35 d0 -> imported_from g gp tag d0 r D ->
  exists db, imported g gp tag r db /\ D = frame d0 db.
Proof.
  intros Hg B0. induction 1 as [|r D b conf r' I [db [Idb ->]] V A|r D b conf r' D' I [db [Idb ->]] V Hw A].
  - exists empty_db. split; [constructor|]. unfold frame. cbn. rewrite !app_nil_r. destruct d0; reflexivity.
  - exists db. split; [eapply imp_side; eauto | reflexivity].
  - pose proof (imported_reachable _ _ _ _ _ Idb) as R. pose proof (reachable_wf _ _ _ _ _ Hg R) as W.
    pose proof (reachable_wf_body _ _ _ _ _ Hg R) as WB.
    destruct (add_parent _ _ _ _ _ A) as [ps [Hps _]].
    rewrite (write_logs_frame g gp r d0 W WB B0 db b (ex_intro _ ps Hps)) in Hw by (destruct V as [_ [E _]]; lia).
    destruct (write_logs r db b (r_best r)) as [db'|] eqn:E; [|discriminate]. injection Hw as <-.
    exists db'. split; [eapply imp_best; eauto | reflexivity].
Qed.
