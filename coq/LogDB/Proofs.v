(* LogDB/Proofs.v — sequence packing, filters as subsequences, and the table-level facts behind "no stale rows". *)
From Coq Require Import List NArith ZArith Bool Lia ZifyN ZifyNat ZifyBool Sorted.
From Verif Require Import Chain.Model LogDB.Model.
Import ListNotations.
Open Scope N_scope.
Ltac Zify.zify_post_hook ::= Z.div_mod_to_equations.

(* ---------------------------------------------------------------- sequence packing *)
Definition seq_ok (b t l : N) : Prop := b <= max_block /\ t <= max_txi /\ l <= max_logi.

Lemma seq_of_some b t l : seq_ok b t l -> seq_of b t l = Some (b * 34359738368 + t * 1048576 + l).
Proof.
  unfold seq_ok, seq_of, max_block, max_txi, max_logi. intros [Hb [Ht Hl]].
  destruct (N.ltb_spec 268435455 b); [lia|]. destruct (N.ltb_spec 32767 t); [lia|]. destruct (N.ltb_spec 1048575 l); [lia|]. reflexivity.
Qed.
Lemma seq_of_none b t l : ~ seq_ok b t l -> seq_of b t l = None.
Proof.
  unfold seq_ok, seq_of, max_block, max_txi, max_logi. intros H.
  destruct (N.ltb_spec 268435455 b); [reflexivity|]. destruct (N.ltb_spec 32767 t); [reflexivity|].
  destruct (N.ltb_spec 1048575 l); [reflexivity|]. lia.
Qed.
Lemma seq_of_inv b t l s : seq_of b t l = Some s -> seq_ok b t l /\ s = b * 34359738368 + t * 1048576 + l.
Proof.
  unfold seq_ok, seq_of, max_block, max_txi, max_logi.
  destruct (N.ltb_spec 268435455 b); [discriminate|]. destruct (N.ltb_spec 32767 t); [discriminate|].
  destruct (N.ltb_spec 1048575 l); [discriminate|]. intros E. injection E as <-. lia.
Qed.

Lemma seq_pack_inj_mono_lemma b1 t1 l1 s1 b2 t2 l2 s2 :
  seq_of b1 t1 l1 = Some s1 -> seq_of b2 t2 l2 = Some s2 ->
  (s1 < s2 <-> b1 < b2 \/ (b1 = b2 /\ (t1 < t2 \/ (t1 = t2 /\ l1 < l2)))) /\
  (s1 = s2 -> b1 = b2 /\ t1 = t2 /\ l1 = l2) /\
  seq_block s1 = b1 /\ seq_txi s1 = t1 /\ seq_logi s1 = l1 /\ s1 < 9223372036854775808.
Proof.
  intros H1 H2. apply seq_of_inv in H1. apply seq_of_inv in H2.
  destruct H1 as [[A1 [A2 A3]] ->]. destruct H2 as [[B1 [B2 B3]] ->].
  unfold seq_block, seq_txi, seq_logi, max_block, max_txi, max_logi in *. repeat split; try lia.
Qed.

(* ---------------------------------------------------------------- filters *)
Inductive sublist {A} : list A -> list A -> Prop :=
| sub_nil : sublist [] []
| sub_skip x l m : sublist l m -> sublist l (x :: m)
| sub_take x l m : sublist l m -> sublist (x :: l) (x :: m).

Lemma sublist_refl {A} (l : list A) : sublist l l.
Proof. induction l; [constructor | apply sub_take; assumption]. Qed.
Lemma sublist_nil {A} (l : list A) : sublist [] l.
Proof. induction l; [constructor | apply sub_skip; assumption]. Qed.
Lemma sublist_trans {A} (a b c : list A) : sublist a b -> sublist b c -> sublist a c.
Proof.
  intros H1 H2. revert a H1. induction H2; intros a H1.
  - exact H1.
  - apply sub_skip. apply IHsublist. exact H1.
  - inversion H1; subst; [apply sub_skip; apply IHsublist; assumption | apply sub_take; apply IHsublist; assumption].
Qed.
Lemma sublist_filter {A} (f : A -> bool) l : sublist (filter f l) l.
Proof. induction l as [|x l IH]; cbn; [constructor|]. destruct (f x); [apply sub_take | apply sub_skip]; exact IH. Qed.
Lemma sublist_dropN {A} (l : list A) : forall n, sublist (dropN n l) l.
Proof. induction l as [|x l IH]; intros n; cbn; [constructor|]. destruct (n =? 0); [apply sublist_refl | apply sub_skip; apply IH]. Qed.
Lemma sublist_takeN {A} (l : list A) : forall n, sublist (takeN n l) l.
Proof. induction l as [|x l IH]; intros n; cbn; [constructor|]. destruct (n =? 0); [apply sublist_nil | apply sub_take; apply IH]. Qed.
Lemma sublist_in {A} (a b : list A) x : sublist a b -> In x a -> In x b.
Proof. induction 1; cbn; intuition. Qed.
Lemma sublist_app {A} (a b c d : list A) : sublist a b -> sublist c d -> sublist (a ++ c) (b ++ d).
Proof. induction 1; cbn; intros; [assumption | apply sub_skip; auto | apply sub_take; auto]. Qed.
Lemma sublist_rev {A} (a b : list A) : sublist a b -> sublist (rev a) (rev b).
Proof.
  induction 1; cbn; [constructor| |].
  - rewrite <- (app_nil_r (rev l)). apply sublist_app; [assumption | apply sub_skip; constructor].
  - apply sublist_app; [assumption | apply sublist_refl].
Qed.

Definition in_range (o : fopts) (s : N) : Prop :=
  match fo_range o with
  | None => True
  | Some (from, to) => exists lo hi, seq_of from 0 0 = Some lo /\ seq_of to max_txi max_logi = Some hi /\ lo <= s <= hi
  end.

(* every filter result is an order-preserving subsequence of the table (of the reversed table for DESC) whose
   rows all satisfy range and criteria; without LIMIT it contains every such row; with LIMIT off,lim it is exactly
   the window [off, off+lim) of that list *)
Lemma run_filter_spec {A} (seq : A -> N) (crit : A -> bool) (o : fopts) (rows out : list A) :
  run_filter seq crit o rows = Some out ->
  exists full,
    sublist full (if fo_desc o then rev rows else rows) /\
    (forall x, In x full <-> In x rows /\ crit x = true /\ in_range o (seq x)) /\
    out = match fo_page o with None => full | Some (off, lim) => takeN lim (dropN off full) end /\
    sublist out full.
Proof.
  unfold run_filter. intros H.
  set (ranged := match fo_range o with
                 | None => Some rows
                 | Some (from, to) => match seq_of from 0 0, seq_of to max_txi max_logi with
                                      | Some lo, Some hi => Some (filter (fun x => (lo <=? seq x) && (seq x <=? hi)) rows)
                                      | _, _ => None end end) in *.
  destruct ranged as [rs|] eqn:Er; [|discriminate].
  assert (Hrs : sublist rs rows /\ forall x, In x rs <-> In x rows /\ in_range o (seq x)).
  { unfold ranged, in_range in *. destruct (fo_range o) as [[from to]|].
    - destruct (seq_of from 0 0) as [lo|]; [|discriminate]. destruct (seq_of to max_txi max_logi) as [hi|]; [|discriminate].
      injection Er as <-. split; [apply sublist_filter|]. intros x. rewrite filter_In, andb_true_iff, !N.leb_le. split.
      + intros [Hin [H1 H2]]. split; [exact Hin|]. exists lo, hi. auto.
      + intros [Hin [lo' [hi' [E1 [E2 Hr]]]]]. injection E1 as <-. injection E2 as <-. tauto.
    - injection Er as <-. split; [apply sublist_refl|]. tauto. }
  destruct Hrs as [S1 M1].
  exists (if fo_desc o then rev (filter crit rs) else filter crit rs). split; [|split; [|split]].
  - destruct (fo_desc o); [apply sublist_rev|]; (eapply sublist_trans; [apply sublist_filter | exact S1]).
  - intros x. assert (In x (filter crit rs) <-> In x rows /\ crit x = true /\ in_range o (seq x)) by (rewrite filter_In, M1; tauto).
    destruct (fo_desc o); [rewrite <- in_rev|]; exact H0.
  - destruct (fo_page o) as [[off lim]|]; [|congruence].
    destruct ((two63 <=? off) || (two63 <=? lim)); [discriminate | congruence].
  - destruct (fo_page o) as [[off lim]|]; [|injection H as <-; apply sublist_refl].
    destruct ((two63 <=? off) || (two63 <=? lim)); [discriminate|]. injection H as <-.
    eapply sublist_trans; [apply sublist_takeN | apply sublist_dropN].
Qed.

(* ---------------------------------------------------------------- tables: truncate and INSERT OR IGNORE *)
Definition ev_sorted (l : list evrow) : Prop := StronglySorted (fun a b => er_seq a < er_seq b) l.

Lemma ins_ev_in_weak x l y : In y (ins_ev x l) -> y = x \/ In y l.
Proof.
  induction l as [|h t IH]; cbn [ins_ev In]; [intuition congruence|].
  destruct (er_seq x =? er_seq h); [cbn [In]; tauto|]. destruct (er_seq x <? er_seq h); cbn [In]; [intuition congruence|].
  intros [<-|H]; [tauto|]. destruct (IH H); tauto.
Qed.

(* INSERT OR IGNORE never replaces or drops an existing row *)
Lemma ins_ev_keeps x l y : In y l -> In y (ins_ev x l).
Proof.
  induction l as [|h t IH]; cbn [ins_ev In]; [tauto|].
  destruct (er_seq x =? er_seq h); [cbn [In]; tauto|]. destruct (er_seq x <? er_seq h); cbn [In]; [tauto|].
  intros [<-|H]; [tauto | right; apply IH; exact H].
Qed.

Lemma ins_ev_sorted x l : ev_sorted l -> ev_sorted (ins_ev x l).
Proof.
  unfold ev_sorted. induction l as [|h t IH]; intros S; cbn [ins_ev]; [repeat constructor|].
  inversion S as [|h' t' St Ft]; subst.
  destruct (N.eqb_spec (er_seq x) (er_seq h)) as [E|NE]; [exact S|].
  destruct (N.ltb_spec (er_seq x) (er_seq h)) as [Hlt|Hge].
  - constructor; [exact S|]. constructor; [exact Hlt|]. rewrite Forall_forall in *. intros z Hz. specialize (Ft z Hz). lia.
  - constructor; [apply IH; exact St|]. rewrite Forall_forall in *. intros z Hz.
    apply ins_ev_in_weak in Hz. destruct Hz as [->|Hz]; [lia | apply Ft; exact Hz].
Qed.

(* where OR IGNORE bites: a row whose position key is already present is silently dropped, the stale row stays *)
Lemma ins_ev_stale x l z : ev_sorted l -> In z l -> er_seq z = er_seq x -> ins_ev x l = l.
Proof.
  unfold ev_sorted. induction l as [|h t IH]; intros S Hz E; [destruct Hz|]. cbn [ins_ev].
  inversion S as [|h' t' St Ft]; subst.
  destruct (N.eqb_spec (er_seq x) (er_seq h)) as [_|NE]; [reflexivity|].
  destruct Hz as [<-|Hz]; [congruence|].
  rewrite Forall_forall in Ft. specialize (Ft z Hz).
  destruct (N.ltb_spec (er_seq x) (er_seq h)); [lia|]. f_equal. eapply IH; eauto.
Qed.

(* a row whose position key is not present is really inserted *)
Lemma ins_ev_fresh x l : (forall z, In z l -> er_seq z <> er_seq x) -> In x (ins_ev x l).
Proof.
  induction l as [|h t IH]; intros H; cbn [ins_ev]; [left; reflexivity|].
  destruct (N.eqb_spec (er_seq x) (er_seq h)) as [E|NE]; [exfalso; apply (H h); [left; reflexivity | congruence]|].
  destruct (er_seq x <? er_seq h); [left; reflexivity|]. right. apply IH. intros z Hz. apply H. right. exact Hz.
Qed.

(* Truncate(n) keeps exactly the rows of blocks below n; so every later insert for a block >= n is fresh *)
Lemma truncate_spec n db db' : truncate n db = Some db' ->
  (n <= max_block) /\
  (forall x : evrow, In x (db_events db') <-> In x (db_events db) /\ er_seq x < n * 34359738368) /\
  (forall x : trrow, In x (db_transfers db') <-> In x (db_transfers db) /\ tr_seq x < n * 34359738368).
Proof.
  unfold truncate. destruct (seq_of n 0 0) as [s|] eqn:E; [|discriminate]. intros H. injection H as <-.
  apply seq_of_inv in E. destruct E as [[Hn _] ->]. split; [exact Hn|]. cbn [db_events db_transfers].
  split; intros x; rewrite filter_In, N.ltb_lt; split; intros [H1 H2]; split; auto; lia.
Qed.

Lemma truncate_sorted n db db' : truncate n db = Some db' -> ev_sorted (db_events db) -> ev_sorted (db_events db').
Proof.
  unfold truncate. destruct (seq_of n 0 0) as [s|]; [|discriminate]. intros H. injection H as <-. cbn [db_events].
  unfold ev_sorted. induction 1 as [|h t St IH Ft]; cbn [filter]; [constructor|].
  destruct (er_seq h <? s); [|exact IH]. constructor; [exact IH|].
  rewrite Forall_forall in *. intros z Hz. apply filter_In in Hz. apply Ft. apply Hz.
Qed.

Lemma no_stale_after_truncate n db db' b t l s x :
  truncate n db = Some db' -> n <= b -> seq_of b t l = Some s -> er_seq x = s ->
  In x (ins_ev x (db_events db')).
Proof.
  intros T Hb E Ex. apply ins_ev_fresh. intros z Hz. destruct (truncate_spec _ _ _ T) as [_ [He _]].
  apply He in Hz. destruct Hz as [_ Hlt]. apply seq_of_inv in E. destruct E as [_ ->]. lia.
Qed.
