(* LogDB/Model.v — executable model of logdb/logdb.go (Writer.Truncate / Write / Commit, FilterEvents /
   FilterTransfers), logdb/sequence.go and of writeLogs in cmd/thor/node/block_exec.go (definitions only).
   A table is the list of its rows in primary-key (seq) order.  SQLite executes the SQL in the real code; here
   the meaning of the statements is written as list functions (tied by the correspondence run).  The ref table
   (blob interning) is not modelled: rows carry the values.  A topic is stored with leading zeros stripped and
   re-padded on read, which is the identity on the 32-byte value; values are N. *)
From Coq Require Import List NArith Bool Lia.
From Verif Require Import Chain.Model.
Import ListNotations.
Open Scope N_scope.

(* sequence.go: 28 / 15 / 20 bits, range-checked *)
Definition max_block : N := 268435455.
Definition max_txi : N := 32767.
Definition max_logi : N := 1048575.
Definition seq_of (b t l : N) : option N :=
  if max_block <? b then None else if max_txi <? t then None else if max_logi <? l then None
  else Some (b * 34359738368 + t * 1048576 + l).
Definition seq_block (s : N) : N := (s / 34359738368) mod 268435456.
Definition seq_txi (s : N) : N := (s / 1048576) mod 32768.
Definition seq_logi (s : N) : N := s mod 1048576.

Record evrow := mkER { er_seq : N; er_block : N; er_time : N; er_tx : N; er_origin : N; er_clause : N;
                       er_addr : N; er_topics : list N; er_dlen : N; er_data : N }.
Record trrow := mkTR { tr_seq : N; tr_block : N; tr_time : N; tr_tx : N; tr_origin : N; tr_clause : N;
                       tr_sender : N; tr_recipient : N; tr_amt : N }.
Record logdb := mkDB { db_events : list evrow; db_transfers : list trrow }.
Definition empty_db := mkDB [] [].

(* INSERT OR IGNORE on the primary key: keep an existing row *)
Fixpoint ins_ev (x : evrow) (l : list evrow) : list evrow :=
  match l with
  | [] => [x]
  | y :: t => if er_seq x =? er_seq y then l else if er_seq x <? er_seq y then x :: l else y :: ins_ev x t
  end.
Fixpoint ins_tr (x : trrow) (l : list trrow) : list trrow :=
  match l with
  | [] => [x]
  | y :: t => if tr_seq x =? tr_seq y then l else if tr_seq x <? tr_seq y then x :: l else y :: ins_tr x t
  end.

(* Writer.Truncate: DELETE ... WHERE seq >= newSequence(blockNum,0,0) *)
Definition truncate (n : N) (db : logdb) : option logdb :=
  match seq_of n 0 0 with
  | None => None
  | Some s => Some (mkDB (filter (fun x => er_seq x <? s) (db_events db)) (filter (fun x => tr_seq x <? s) (db_transfers db)))
  end.

(* Writer.Write: per-block event / transfer counters, clause index, at most five topics, empty data = NULL *)
Definition wstate := (logdb * N * N)%type.   (* tables, eventCount, transferCount *)

Fixpoint write_events (bid bnum btime txid origin txi clause : N) (evs : list event) (st : wstate) : option wstate :=
  match evs with
  | [] => Some st
  | e :: evs' =>
    let '(db, ec, tc) := st in
    match seq_of bnum txi ec with
    | None => None
    | Some s =>
      let row := mkER s bid btime txid origin clause (ev_addr e) (firstn 5 (ev_topics e)) (ev_dlen e) (ev_data e) in
      write_events bid bnum btime txid origin txi clause evs' (mkDB (ins_ev row (db_events db)) (db_transfers db), ec + 1, tc)
    end
  end.
Fixpoint write_transfers (bid bnum btime txid origin txi clause : N) (trs : list transfer) (st : wstate) : option wstate :=
  match trs with
  | [] => Some st
  | t :: trs' =>
    let '(db, ec, tc) := st in
    match seq_of bnum txi tc with
    | None => None
    | Some s =>
      let row := mkTR s bid btime txid origin clause (tr_from t) (tr_to t) (tr_amount t) in
      write_transfers bid bnum btime txid origin txi clause trs' (mkDB (db_events db) (ins_tr row (db_transfers db)), ec, tc + 1)
    end
  end.
Fixpoint write_outputs (bid bnum btime txid origin txi clause : N) (outs : list (list event * list transfer)) (st : wstate) : option wstate :=
  match outs with
  | [] => Some st
  | (evs, trs) :: outs' =>
    match write_events bid bnum btime txid origin txi clause evs st with
    | None => None
    | Some st1 =>
      match write_transfers bid bnum btime txid origin txi clause trs st1 with
      | None => None
      | Some st2 => write_outputs bid bnum btime txid origin txi (clause + 1) outs' st2
      end
    end
  end.
Fixpoint write_receipts (bid bnum btime : N) (txs : list txrec) (rcs : list receipt) (txi : N) (st : wstate) : option wstate :=
  match rcs with
  | [] => Some st
  | rc :: rcs' =>
    (* block 0 has no txs but may have receipts: zero tx id and origin then *)
    let '(txid, origin) := match txs with t :: _ => (tx_id t, tx_origin t) | [] => (0, 0) end in
    match write_outputs bid bnum btime txid origin txi 0 (rc_outs rc) st with
    | None => None
    | Some st' => write_receipts bid bnum btime (tl txs) rcs' (txi + 1) st'
    end
  end.
Definition write_block (b : blk) (db : logdb) : option logdb :=
  match write_receipts (b_id b) (num_of (b_id b)) (b_time b) (b_txs b) (b_rcs b) 0 (db, 0, 0) with
  | Some (db', _, _) => Some db'
  | None => None
  end.

(* Node.writeLogs for a block that becomes best, called before Repository.AddBlock: clear the old branch from its
   first block on, rewrite the blocks between the fork point and the new block's parent, then the new block;
   one transaction (a failure leaves the committed tables unchanged) *)
Fixpoint write_ids (r : repo) (ids : list N) (db : logdb) : option logdb :=
  match ids with
  | [] => Some db
  | id :: ids' => match get_block r id with
                  | Some (_, b) => match write_block b db with Some db' => write_ids r ids' db' | None => None end
                  | None => None
                  end
  end.
Definition write_logs (r : repo) (db : logdb) (nb : blk) (old_best : N) : option logdb :=
  match exclude r old_best (b_parent nb) with
  | Ok old_branch =>
    let db1 := match old_branch with
               | [] => Some db
               | f :: _ => truncate (num_of f) db
               end in
    match db1, exclude r (b_parent nb) old_best with
    | Some db1, Ok new_branch =>
      match write_ids r new_branch db1 with
      | Some db2 => write_block nb db2
      | None => None
      end
    | _, _ => None
    end
  | _ => None
  end.

(* ---- filters ---- *)
Record ecrit := mkEC { ec_addr : option N; ec_topics : list (option N) }.
Record tcrit := mkTC { tc_origin : option N; tc_sender : option N; tc_recipient : option N }.
Record fopts := mkFO { fo_range : option (N * N); fo_page : option (N * N); fo_desc : bool }.

Definition opt_eq (c : option N) (v : N) : bool := match c with None => true | Some x => x =? v end.
Fixpoint topics_match (c : list (option N)) (ts : list N) : bool :=
  match c with
  | [] => true
  | None :: c' => topics_match c' (tl ts)
  | Some x :: c' => match ts with t :: ts' => (x =? t) && topics_match c' ts' | [] => false end
  end.
Definition ev_match (c : ecrit) (x : evrow) : bool := opt_eq (ec_addr c) (er_addr x) && topics_match (ec_topics c) (er_topics x).
Definition tr_match (c : tcrit) (x : trrow) : bool :=
  opt_eq (tc_origin c) (tr_origin x) && opt_eq (tc_sender c) (tr_sender x) && opt_eq (tc_recipient c) (tr_recipient x).

Fixpoint dropN {A} (n : N) (l : list A) : list A :=
  match l with [] => [] | x :: t => if n =? 0 then l else dropN (n - 1) t end.
Fixpoint takeN {A} (n : N) (l : list A) : list A :=
  match l with [] => [] | x :: t => if n =? 0 then [] else x :: takeN (n - 1) t end.

Definition two63 : N := 9223372036854775808.
(* the common part of FilterEvents / FilterTransfers on rows already projected to (seq, matches-criteria) *)
Definition run_filter {A} (seq : A -> N) (crit : A -> bool) (o : fopts) (rows : list A) : option (list A) :=
  let ranged := match fo_range o with
                | None => Some rows
                | Some (from, to) =>
                  match seq_of from 0 0, seq_of to max_txi max_logi with
                  | Some lo, Some hi => Some (filter (fun x => (lo <=? seq x) && (seq x <=? hi)) rows)
                  | _, _ => None
                  end
                end in
  match ranged with
  | None => None
  | Some rs =>
    let sel := filter crit rs in
    let ord := if fo_desc o then rev sel else sel in
    match fo_page o with
    | None => Some ord
    | Some (off, lim) => if (two63 <=? off) || (two63 <=? lim) then None   (* database/sql refuses uint64 with the high bit set *)
                         else Some (takeN lim (dropN off ord))
    end
  end.
Definition any_crit {C A} (m : C -> A -> bool) (cs : list C) (x : A) : bool :=
  match cs with [] => true | _ => existsb (fun c => m c x) cs end.
Definition filter_events (db : logdb) (cs : list ecrit) (o : fopts) : option (list evrow) :=
  run_filter er_seq (any_crit ev_match cs) o (db_events db).
Definition filter_transfers (db : logdb) (cs : list tcrit) (o : fopts) : option (list trrow) :=
  run_filter tr_seq (any_crit tr_match cs) o (db_transfers db).

(* ---- specification: the rows the receipts of a block prescribe, with their positions (not used by the oracle) ----
   position of a log = (block number, index of its tx in the block, running index of the log among the block's events
   resp. transfers); each row also carries the clause index, block id / time, tx id and origin *)
Definition pack (b t l : N) : N := b * 34359738368 + t * 1048576 + l.
Definition lenN {A} (l : list A) : N := N.of_nat (length l).

Fixpoint spec_events (bid bnum btime txid origin txi clause ec : N) (evs : list event) : list evrow :=
  match evs with
  | [] => []
  | e :: evs' => mkER (pack bnum txi ec) bid btime txid origin clause (ev_addr e) (firstn 5 (ev_topics e)) (ev_dlen e) (ev_data e)
                 :: spec_events bid bnum btime txid origin txi clause (ec + 1) evs'
  end.
Fixpoint spec_transfers (bid bnum btime txid origin txi clause tc : N) (trs : list transfer) : list trrow :=
  match trs with
  | [] => []
  | t :: trs' => mkTR (pack bnum txi tc) bid btime txid origin clause (tr_from t) (tr_to t) (tr_amount t)
                 :: spec_transfers bid bnum btime txid origin txi clause (tc + 1) trs'
  end.
Fixpoint spec_outputs_ev (bid bnum btime txid origin txi clause ec : N) (outs : list (list event * list transfer)) : list evrow :=
  match outs with
  | [] => []
  | (evs, _) :: outs' => spec_events bid bnum btime txid origin txi clause ec evs
                         ++ spec_outputs_ev bid bnum btime txid origin txi (clause + 1) (ec + lenN evs) outs'
  end.
Fixpoint spec_outputs_tr (bid bnum btime txid origin txi clause tc : N) (outs : list (list event * list transfer)) : list trrow :=
  match outs with
  | [] => []
  | (_, trs) :: outs' => spec_transfers bid bnum btime txid origin txi clause tc trs
                         ++ spec_outputs_tr bid bnum btime txid origin txi (clause + 1) (tc + lenN trs) outs'
  end.
Fixpoint count_ev (outs : list (list event * list transfer)) : N :=
  match outs with [] => 0 | (evs, _) :: o => lenN evs + count_ev o end.
Fixpoint count_tr (outs : list (list event * list transfer)) : N :=
  match outs with [] => 0 | (_, trs) :: o => lenN trs + count_tr o end.
Definition tx_ident (txs : list txrec) : N * N := match txs with t :: _ => (tx_id t, tx_origin t) | [] => (0, 0) end.
Fixpoint spec_receipts_ev (bid bnum btime : N) (txs : list txrec) (rcs : list receipt) (txi ec : N) : list evrow :=
  match rcs with
  | [] => []
  | rc :: rcs' => spec_outputs_ev bid bnum btime (fst (tx_ident txs)) (snd (tx_ident txs)) txi 0 ec (rc_outs rc)
                  ++ spec_receipts_ev bid bnum btime (tl txs) rcs' (txi + 1) (ec + count_ev (rc_outs rc))
  end.
Fixpoint spec_receipts_tr (bid bnum btime : N) (txs : list txrec) (rcs : list receipt) (txi tc : N) : list trrow :=
  match rcs with
  | [] => []
  | rc :: rcs' => spec_outputs_tr bid bnum btime (fst (tx_ident txs)) (snd (tx_ident txs)) txi 0 tc (rc_outs rc)
                  ++ spec_receipts_tr bid bnum btime (tl txs) rcs' (txi + 1) (tc + count_tr (rc_outs rc))
  end.
Definition block_events (b : blk) : list evrow := spec_receipts_ev (b_id b) (num_of (b_id b)) (b_time b) (b_txs b) (b_rcs b) 0 0.
Definition block_transfers (b : blk) : list trrow := spec_receipts_tr (b_id b) (num_of (b_id b)) (b_time b) (b_txs b) (b_rcs b) 0 0.

(* the logs of a chain, oldest block first; the argument is the path newest first *)
Fixpoint chain_events (r : repo) (path_desc : list N) : list evrow :=
  match path_desc with
  | [] => []
  | id :: older => chain_events r older ++ match get_block r id with Some (_, b) => block_events b | None => [] end
  end.
Fixpoint chain_transfers (r : repo) (path_desc : list N) : list trrow :=
  match path_desc with
  | [] => []
  | id :: older => chain_transfers r older ++ match get_block r id with Some (_, b) => block_transfers b | None => [] end
  end.

(* ---- cmd/thor/sync_logdb.go: the startup re-sync (package main: tied to the real functions through the test-binary
   hook cmd/thor/verif_hooks_synclog_test.go, run by the C15 harness) ----
   As of /repo 47028d8 (F11 fixed: the synced case returns best+1 and the sync stops only when the position is past best). *)

(* LogDB.NewestBlockID: MAX (as blobs) of the block ids of the last transfer row and of the last event row; zero if none *)
Definition newest_block_id (db : logdb) : N :=
  N.max (last (map tr_block (db_transfers db)) 0) (last (map er_block (db_events db)) 0).

(* LogDB.HasBlockID: a row whose key is exactly (number, tx 0, log 0) and whose block id is id, in either table *)
Definition has_block_id (db : logdb) (id : N) : option bool :=
  match seq_of (num_of id) 0 0 with
  | None => None
  | Some s => Some (existsb (fun x => (tr_seq x =? s) && (tr_block x =? id)) (db_transfers db)
                    || existsb (fun x => (er_seq x =? s) && (er_block x =? id)) (db_events db))
  end.

(* seekLogDBSyncPosition: walk down the best chain from min(newest, best-1) to the first block HasBlockID knows *)
Fixpoint seek_walk (r : repo) (db : logdb) (fuel : nat) (h : N) : res N :=
  match fuel with
  | O => Fail
  | S f =>
    if num_of h =? 0 then Ok 1
    else match has_block_id db h with
         | None => Fail
         | Some true => Ok (num_of h + 1)
         | Some false => match get_summary r h with
                         | Some s => seek_walk r db f (s_parent s)
                         | None => Fail
                         end
         end
  end.
Definition seek_position (r : repo) (db : logdb) : res N :=
  let best := r_best r in
  if num_of best =? 0 then Ok 0
  else
    let newest := newest_block_id db in
    if num_of newest =? 0 then Ok 0
    else if newest =? best then Ok (num_of best + 1)
    else
      let start := if num_of best <=? num_of newest then num_of best - 1 else num_of newest in
      match get_block_id r best start with
      | Ok h => seek_walk r db (S (N.to_nat (num_of h))) h
      | _ => Fail
      end.

(* pumpBlockAndReceipts + Write: the blocks of head's chain at heights i, i+1, ... (n of them) *)
Fixpoint write_range (r : repo) (head : N) (n : nat) (i : N) (db : logdb) : option logdb :=
  match n with
  | O => Some db
  | S n' =>
    match get_block_id r head i with
    | Ok id => match get_block r id with
               | Some (_, b) => match write_block b db with
                                | Some d => write_range r head n' (i + 1) d
                                | None => None
                                end
               | None => None
               end
    | _ => None
    end
  end.

(* syncLogDB (verify = false): position 0 means rebuild from block 1; truncate from the position, rewrite up to best *)
Definition sync_logdb (r : repo) (db : logdb) : option logdb :=
  match seek_position r db with
  | Ok p =>
    let bn := num_of (r_best r) in
    if bn <? p then Some db
    else
      let p' := if p =? 0 then 1 else p in
      match truncate p' db with
      | Some d1 => write_range r (r_best r) (N.to_nat (bn + 1 - p')) p' d1
      | None => None
      end
  | _ => None
  end.

(* ---- verifyLogDB (the optional --verify-logs pass of syncLogDB) ----
   Walks the best chain from block 1 to `end`; every 100 blocks it re-reads the rows of the window [num, limit] of both
   tables (nil criteria, ascending); for each block it splits off the leading rows whose block id is the block's id
   (nothing if the first row belongs to another block: those rows then stay at the head of the window) and compares them,
   field by field, with the rows the block's receipts prescribe.  Any mismatch, a missing block or a failing query is an
   error.  (Events with more than five topics are outside the model: the real convertTopics indexes a [5] array.) *)
Fixpoint list_eqb {A} (eqb : A -> A -> bool) (a b : list A) : bool :=
  match a, b with
  | [], [] => true
  | x :: a', y :: b' => eqb x y && list_eqb eqb a' b'
  | _, _ => false
  end.
Definition evrow_eqb (x y : evrow) : bool :=
  (er_seq x =? er_seq y) && (er_block x =? er_block y) && (er_time x =? er_time y) && (er_tx x =? er_tx y)
  && (er_origin x =? er_origin y) && (er_clause x =? er_clause y) && (er_addr x =? er_addr y)
  && list_eqb N.eqb (er_topics x) (er_topics y) && (er_dlen x =? er_dlen y) && (er_data x =? er_data y).
Definition trrow_eqb (x y : trrow) : bool :=
  (tr_seq x =? tr_seq y) && (tr_block x =? tr_block y) && (tr_time x =? tr_time y) && (tr_tx x =? tr_tx y)
  && (tr_origin x =? tr_origin y) && (tr_clause x =? tr_clause y) && (tr_sender x =? tr_sender y)
  && (tr_recipient x =? tr_recipient y) && (tr_amt x =? tr_amt y).

(* splitEvLogs / splitTrLogs: the longest prefix of rows carrying the block id *)
Fixpoint span_ev (id : N) (l : list evrow) : list evrow * list evrow :=
  match l with
  | [] => ([], [])
  | x :: t => if er_block x =? id then let '(a, b) := span_ev id t in (x :: a, b) else ([], l)
  end.
Fixpoint span_tr (id : N) (l : list trrow) : list trrow * list trrow :=
  match l with
  | [] => ([], [])
  | x :: t => if tr_block x =? id then let '(a, b) := span_tr id t in (x :: a, b) else ([], l)
  end.

Definition log_step : N := 100.
Definition window (from to : N) : fopts := mkFO (Some (from, to)) None false.

Fixpoint verify_walk (r : repo) (db : logdb) (head : N) (n : nat) (i lim : N) (evs : list evrow) (trs : list trrow) : bool :=
  match n with
  | O => true
  | S n' =>
    match get_block_id r head i with
    | Ok id =>
      match get_block r id with
      | Some (_, b) =>
        let refresh := lim <? i in
        let lim' := if refresh then lim + log_step else lim in
        match (if refresh then filter_events db [] (window i lim') else Some evs),
              (if refresh then filter_transfers db [] (window i lim') else Some trs) with
        | Some evs1, Some trs1 =>
          let '(e_here, e_rest) := span_ev id evs1 in
          let '(t_here, t_rest) := span_tr id trs1 in
          if list_eqb evrow_eqb e_here (block_events b) && list_eqb trrow_eqb t_here (block_transfers b)
          then verify_walk r db head n' (i + 1) lim' e_rest t_rest
          else false
        | _, _ => false
        end
      | None => false
      end
    | _ => false
    end
  end.
Definition verify_logdb (r : repo) (db : logdb) (end_num : N) : bool :=
  verify_walk r db (r_best r) (N.to_nat end_num) 1 0 [] [].

(* syncLogDB with its verify argument: the verification of blocks 1 .. position-1 runs first *)
Definition sync_logdb_v (verify : bool) (r : repo) (db : logdb) : option logdb :=
  match seek_position r db with
  | Ok p => if verify && (0 <? p) && negb (verify_logdb r db (p - 1)) then None else sync_logdb r db
  | _ => None
  end.
