(* LogDB/ProofsSyncFrame.v — the start-up re-sync on tables that also hold genesis rows (rows of block 0 whose block ids
   carry number 0, as cmd/thor/utils.go writes them): sync_logdb commutes with such a prefix, so the re-sync theorems
   of ProofsSync lift to the tables of a real node. *)
From Coq Require Import List NArith ZArith Bool Lia ZifyN ZifyNat ZifyBool Sorted Arith.
From Verif Require Import Chain.Model Chain.Proofs Chain.ProofsWalk Chain.ProofsSys Chain.ProofsPath
  LogDB.Model LogDB.Proofs LogDB.ProofsCanon LogDB.ProofsRows LogDB.ProofsGenesis LogDB.ProofsSync.
Import ListNotations.
Open Scope N_scope.
Ltac Zify.zify_post_hook ::= Z.div_mod_to_equations.

Definition genesis_ids (d0 : logdb) : Prop :=
  (forall x, In x (db_events d0) -> num_of (er_block x) = 0) /\ (forall x, In x (db_transfers d0) -> num_of (tr_block x) = 0).

Lemma num_of_mono a b : a <= b -> num_of a <= num_of b.
Proof. intros H. destruct (N.le_gt_cases (num_of a) (num_of b)) as [|G]; [assumption|]. apply id_lt_of_num_lt in G. lia. Qed.

Lemma last_frame_num {A} (f : A -> N) (l0 l : list A) : (forall x, In x l0 -> num_of (f x) = 0) ->
  (l <> [] /\ last (map f (l0 ++ l)) 0 = last (map f l) 0) \/
  (l = [] /\ num_of (last (map f (l0 ++ l)) 0) = 0).
Proof.
  intros H0. destruct l as [|y t].
  - right. split; [reflexivity|]. rewrite app_nil_r. destruct l0 as [|z l0']; [apply num_of_0|].
    assert (I : In (last (map f (z :: l0')) 0) (map f (z :: l0'))) by (apply last_In; discriminate).
    apply in_map_iff in I. destruct I as [w [<- Hw]]. apply H0. exact Hw.
  - left. split; [discriminate|]. rewrite map_app. apply last_app_ne. discriminate.
Qed.

Section SyncFrame.
  Variables (g gp : N) (r : repo) (d0 : logdb).
  Hypothesis W : wf g gp r.
  Hypothesis WB : wf_body r.
  Hypothesis B0 : below two35 d0.
  Hypothesis G0 : genesis_ids d0.

  (* NewestBlockID sees the same block unless both say "number 0" *)
  Lemma newest_frame db :
    num_of (newest_block_id (frame d0 db)) = num_of (newest_block_id db) /\
    (num_of (newest_block_id db) <> 0 -> newest_block_id (frame d0 db) = newest_block_id db).
  Proof.
    unfold newest_block_id, frame. cbn [db_events db_transfers].
    destruct (last_frame_num tr_block (db_transfers d0) (db_transfers db) (proj2 G0)) as [[Nt Et]|[Zt Et]];
      destruct (last_frame_num er_block (db_events d0) (db_events db) (proj1 G0)) as [[Ne Ee]|[Ze Ee]].
    - rewrite Et, Ee. auto.
    - rewrite Ze in *. rewrite Et. cbn [map last]. set (a := last (map tr_block (db_transfers db)) 0) in *.
      set (E0 := last (map er_block (db_events d0 ++ [])) 0) in *. rewrite N.max_0_r.
      destruct (N.eq_dec (num_of a) 0) as [Za|Na].
      + split; [|congruence]. destruct (N.max_spec a E0) as [[_ ->]|[_ ->]]; congruence.
      + assert (E0 < a) by (apply id_lt_of_num_lt; lia). rewrite N.max_l by lia. auto.
    - rewrite Zt in *. rewrite Ee. cbn [map last]. set (e := last (map er_block (db_events db)) 0) in *.
      set (A0 := last (map tr_block (db_transfers d0 ++ [])) 0) in *. rewrite N.max_0_l.
      destruct (N.eq_dec (num_of e) 0) as [Ze|Ne'].
      + split; [|congruence]. destruct (N.max_spec A0 e) as [[_ ->]|[_ ->]]; congruence.
      + assert (A0 < e) by (apply id_lt_of_num_lt; lia). rewrite N.max_r by lia. auto.
    - rewrite Zt, Ze in *. cbn [map last]. rewrite N.max_0_l, num_of_0. split; [|congruence].
      match goal with |- num_of (N.max ?x ?y) = 0 => destruct (N.max_spec x y) as [[_ ->]|[_ ->]]; assumption end.
  Qed.

  Lemma has_block_id_frame db h : num_of h <> 0 -> has_block_id (frame d0 db) h = has_block_id db h.
  Proof.
    intros Hh. unfold has_block_id, frame. cbn [db_events db_transfers]. destruct (seq_of (num_of h) 0 0) as [s|]; [|reflexivity].
    assert (Ht : existsb (fun x => (tr_seq x =? s) && (tr_block x =? h)) (db_transfers d0) = false).
    { destruct G0 as [_ G]. induction (db_transfers d0) as [|x l IH]; [reflexivity|]. cbn [existsb].
      rewrite IH by (intros y Hy; apply G; right; exact Hy).
      destruct (N.eqb_spec (tr_block x) h) as [E|]; [|rewrite andb_false_r; reflexivity].
      exfalso. apply Hh. rewrite <- E. apply G. left. reflexivity. }
    assert (He : existsb (fun x => (er_seq x =? s) && (er_block x =? h)) (db_events d0) = false).
    { destruct G0 as [G _]. induction (db_events d0) as [|x l IH]; [reflexivity|]. cbn [existsb].
      rewrite IH by (intros y Hy; apply G; right; exact Hy).
      destruct (N.eqb_spec (er_block x) h) as [E|]; [|rewrite andb_false_r; reflexivity].
      exfalso. apply Hh. rewrite <- E. apply G. left. reflexivity. }
    rewrite !existsb_app, Ht, He. reflexivity.
  Qed.

  Lemma seek_walk_frame db : forall fuel h, seek_walk r (frame d0 db) fuel h = seek_walk r db fuel h.
  Proof.
    induction fuel as [|f IH]; intros h; [reflexivity|]. cbn [seek_walk].
    destruct (N.eqb_spec (num_of h) 0) as [|Hh]; [reflexivity|]. rewrite (has_block_id_frame db h Hh).
    destruct (has_block_id db h) as [[|]|]; try reflexivity. destruct (get_summary r h); [apply IH | reflexivity].
  Qed.

  Lemma seek_position_frame db : seek_position r (frame d0 db) = seek_position r db.
  Proof.
    unfold seek_position. destruct (num_of (r_best r) =? 0); [reflexivity|].
    destruct (newest_frame db) as [En Eid]. rewrite En.
    destruct (N.eqb_spec (num_of (newest_block_id db)) 0) as [|Hn]; [reflexivity|]. rewrite (Eid Hn).
    destruct (newest_block_id db =? r_best r); [reflexivity|].
    destruct (get_block_id r (r_best r) _); try reflexivity. apply seek_walk_frame.
  Qed.

  Lemma write_range_frame head : stored r head -> forall n i d, 1 <= i ->
    write_range r head n i (frame d0 d) = option_map (frame d0) (write_range r head n i d).
  Proof.
    intros Sh. induction n as [|n IH]; intros i d Hi; [reflexivity|]. cbn [write_range].
    destruct (get_block_id r head i) as [id| |] eqn:E; try reflexivity.
    apply (get_block_id_spec g gp r W head i id Sh) in E. destruct E as [_ En].
    destruct (get_block r id) as [[s b]|] eqn:Eb; [|reflexivity].
    rewrite (write_block_frame d0 b d B0) by (rewrite (get_block_id_eq r WB _ _ _ Eb); lia).
    destruct (write_block b d) as [d'|]; [|reflexivity]. cbn [option_map]. apply IH. lia.
  Qed.

  (* the re-sync ignores and preserves genesis rows *)
  Theorem sync_logdb_frame db : sync_logdb r (frame d0 db) = option_map (frame d0) (sync_logdb r db).
  Proof.
    unfold sync_logdb. rewrite seek_position_frame. destruct (seek_position r db) as [p| |]; try reflexivity.
    destruct (num_of (r_best r) <? p); [reflexivity|].
    set (p' := if p =? 0 then 1 else p).
    assert (Hp : 1 <= p') by (unfold p'; destruct (N.eqb_spec p 0); lia).
    rewrite (truncate_frame d0 p' db B0 Hp). destruct (truncate p' db) as [d1|]; [|reflexivity]. cbn [option_map].
    apply write_range_frame; [apply (w_best _ _ _ W) | exact Hp].
  Qed.
End SyncFrame.
