(* LogDB/ProofsRows.v — "writing a block above every stored key appends its rows": Write into tables whose keys are
   all below the block's range appends exactly the rows the receipts prescribe (block_events / block_transfers);
   hence the rows of a path are the concatenation, in chain order, of the per-block rows. *)
From Coq Require Import List NArith ZArith Bool Lia ZifyN ZifyNat ZifyBool Sorted.
From Verif Require Import Chain.Model Chain.Proofs Chain.ProofsWalk Chain.ProofsSys Chain.ProofsPath
  LogDB.Model LogDB.Proofs LogDB.ProofsCanon.
Import ListNotations.
Open Scope N_scope.
Ltac Zify.zify_post_hook ::= Z.div_mod_to_equations.

Lemma ins_ev_append x l : (forall y, In y l -> er_seq y < er_seq x) -> ins_ev x l = l ++ [x].
Proof.
  induction l as [|h t IH]; intros H; cbn [ins_ev app]; [reflexivity|].
  pose proof (H h (or_introl eq_refl)) as Hh.
  destruct (N.eqb_spec (er_seq x) (er_seq h)); [lia|]. destruct (N.ltb_spec (er_seq x) (er_seq h)); [lia|].
  f_equal. apply IH. intros y Hy. apply H. right. exact Hy.
Qed.
Lemma ins_tr_append x l : (forall y, In y l -> tr_seq y < tr_seq x) -> ins_tr x l = l ++ [x].
Proof.
  induction l as [|h t IH]; intros H; cbn [ins_tr app]; [reflexivity|].
  pose proof (H h (or_introl eq_refl)) as Hh.
  destruct (N.eqb_spec (tr_seq x) (tr_seq h)); [lia|]. destruct (N.ltb_spec (tr_seq x) (tr_seq h)); [lia|].
  f_equal. apply IH. intros y Hy. apply H. right. exact Hy.
Qed.

Lemma seq_of_pack b t l s : seq_of b t l = Some s -> s = pack b t l.
Proof. intros E. apply seq_of_inv in E. destruct E as [_ ->]. reflexivity. Qed.

Section WriteAppend.
  Variables bid bnum btime : N.

  (* all stored event (transfer) keys are below the next key this Write will use *)
  Definition evs_lt (d : logdb) (txi c : N) : Prop := forall x, In x (db_events d) -> er_seq x < pack bnum txi c.
  Definition trs_lt (d : logdb) (txi c : N) : Prop := forall x, In x (db_transfers d) -> tr_seq x < pack bnum txi c.

  Lemma evs_lt_mono d t c t' c' : evs_lt d t c -> t <= t' -> c <= c' -> evs_lt d t' c'.
  Proof. unfold evs_lt, pack. intros H Ht Hc x Hx. specialize (H x Hx). lia. Qed.
  Lemma trs_lt_mono d t c t' c' : trs_lt d t c -> t <= t' -> c <= c' -> trs_lt d t' c'.
  Proof. unfold trs_lt, pack. intros H Ht Hc x Hx. specialize (H x Hx). lia. Qed.

  Lemma write_events_app txid origin txi clause evs : forall db ec tc db' ec' tc',
    write_events bid bnum btime txid origin txi clause evs (db, ec, tc) = Some (db', ec', tc') -> evs_lt db txi ec ->
    db_events db' = db_events db ++ spec_events bid bnum btime txid origin txi clause ec evs /\
    db_transfers db' = db_transfers db /\ ec' = ec + lenN evs /\ tc' = tc /\ evs_lt db' txi ec'.
  Proof.
    unfold lenN. induction evs as [|e evs IH]; intros db ec tc db' ec' tc' H L; cbn [write_events] in H.
    - injection H as <- <- <-. cbn [spec_events length]. rewrite app_nil_r. repeat split; auto. lia.
    - destruct (seq_of bnum txi ec) as [s|] eqn:Es; [|discriminate]. apply seq_of_pack in Es. subst s.
      rewrite ins_ev_append in H by (intros y Hy; cbn [er_seq]; apply L; exact Hy).
      apply IH in H.
      + cbn [db_events db_transfers] in H. destruct H as [H1 [H2 [H3 [H4 H5]]]].
        cbn [spec_events length]. rewrite H1, <- app_assoc. cbn [app]. repeat split; auto. lia.
      + intros x Hx. cbn [db_events] in Hx. apply in_app_or in Hx. destruct Hx as [Hx|[<-|[]]].
        * specialize (L x Hx). unfold pack in *. lia.
        * cbn [er_seq]. unfold pack. lia.
  Qed.

  Lemma write_transfers_app txid origin txi clause trs : forall db ec tc db' ec' tc',
    write_transfers bid bnum btime txid origin txi clause trs (db, ec, tc) = Some (db', ec', tc') -> trs_lt db txi tc ->
    db_transfers db' = db_transfers db ++ spec_transfers bid bnum btime txid origin txi clause tc trs /\
    db_events db' = db_events db /\ tc' = tc + lenN trs /\ ec' = ec /\ trs_lt db' txi tc'.
  Proof.
    unfold lenN. induction trs as [|e trs IH]; intros db ec tc db' ec' tc' H L; cbn [write_transfers] in H.
    - injection H as <- <- <-. cbn [spec_transfers length]. rewrite app_nil_r. repeat split; auto. lia.
    - destruct (seq_of bnum txi tc) as [s|] eqn:Es; [|discriminate]. apply seq_of_pack in Es. subst s.
      rewrite ins_tr_append in H by (intros y Hy; cbn [tr_seq]; apply L; exact Hy).
      apply IH in H.
      + cbn [db_events db_transfers] in H. destruct H as [H1 [H2 [H3 [H4 H5]]]].
        cbn [spec_transfers length]. rewrite H1, <- app_assoc. cbn [app]. repeat split; auto. lia.
      + intros x Hx. cbn [db_transfers] in Hx. apply in_app_or in Hx. destruct Hx as [Hx|[<-|[]]].
        * specialize (L x Hx). unfold pack in *. lia.
        * cbn [tr_seq]. unfold pack. lia.
  Qed.

  Lemma write_outputs_app txid origin txi outs : forall clause db ec tc db' ec' tc',
    write_outputs bid bnum btime txid origin txi clause outs (db, ec, tc) = Some (db', ec', tc') ->
    evs_lt db txi ec -> trs_lt db txi tc ->
    db_events db' = db_events db ++ spec_outputs_ev bid bnum btime txid origin txi clause ec outs /\
    db_transfers db' = db_transfers db ++ spec_outputs_tr bid bnum btime txid origin txi clause tc outs /\
    ec' = ec + count_ev outs /\ tc' = tc + count_tr outs /\ evs_lt db' txi ec' /\ trs_lt db' txi tc'.
  Proof.
    induction outs as [|[evs trs] outs IH]; intros clause db ec tc db' ec' tc' H Le Lt; cbn [write_outputs] in H.
    - injection H as <- <- <-. cbn [spec_outputs_ev spec_outputs_tr count_ev count_tr]. rewrite !app_nil_r. repeat split; auto; lia.
    - destruct (write_events bid bnum btime txid origin txi clause evs (db, ec, tc)) as [[[d1 e1] t1]|] eqn:E1; [|discriminate].
      destruct (write_transfers bid bnum btime txid origin txi clause trs (d1, e1, t1)) as [[[d2 e2] t2]|] eqn:E2; [|discriminate].
      destruct (write_events_app _ _ _ _ _ _ _ _ _ _ _ E1 Le) as [A1 [A2 [A3 [A4 A5]]]].
      assert (Lt1 : trs_lt d1 txi t1) by (subst t1; unfold trs_lt; rewrite A2; exact Lt).
      destruct (write_transfers_app _ _ _ _ _ _ _ _ _ _ _ E2 Lt1) as [B1 [B2 [B3 [B4 B5]]]].
      assert (Le2 : evs_lt d2 txi e2) by (subst e2; unfold evs_lt; rewrite B2; exact A5).
      destruct (IH _ _ _ _ _ _ _ H Le2 B5) as [C1 [C2 [C3 [C4 [C5 C6]]]]].
      cbn [spec_outputs_ev spec_outputs_tr count_ev count_tr]. subst.
      rewrite C1, C2, B1, B2, A1, A2, <- !app_assoc. repeat split; auto; lia.
  Qed.

  Lemma write_receipts_app rcs : forall txs txi db ec tc db' ec' tc',
    write_receipts bid bnum btime txs rcs txi (db, ec, tc) = Some (db', ec', tc') ->
    evs_lt db txi ec -> trs_lt db txi tc ->
    db_events db' = db_events db ++ spec_receipts_ev bid bnum btime txs rcs txi ec /\
    db_transfers db' = db_transfers db ++ spec_receipts_tr bid bnum btime txs rcs txi tc.
  Proof.
    induction rcs as [|rc rcs IH]; intros txs txi db ec tc db' ec' tc' H Le Lt; cbn [write_receipts] in H.
    - injection H as <- _ _. cbn [spec_receipts_ev spec_receipts_tr]. rewrite !app_nil_r. auto.
    - cbn [spec_receipts_ev spec_receipts_tr]. unfold tx_ident.
      destruct (match txs with t :: _ => (tx_id t, tx_origin t) | [] => (0, 0) end) as [txid origin]. cbn [fst snd].
      destruct (write_outputs bid bnum btime txid origin txi 0 (rc_outs rc) (db, ec, tc)) as [[[d1 e1] t1]|] eqn:E1; [|discriminate].
      destruct (write_outputs_app _ _ _ _ _ _ _ _ _ _ _ E1 Le Lt) as [A1 [A2 [A3 [A4 [A5 A6]]]]].
      destruct (IH _ _ _ _ _ _ _ _ H) as [B1 B2].
      + eapply evs_lt_mono; [exact A5 | lia | lia].
      + eapply trs_lt_mono; [exact A6 | lia | lia].
      + subst. rewrite B1, B2, A1, A2, <- !app_assoc. auto.
  Qed.
End WriteAppend.

(* Write of a block whose number is above every stored key appends exactly the rows its receipts prescribe *)
Theorem write_block_appends b d d' : write_block b d = Some d' -> below (num_of (b_id b) * two35) d ->
  db_events d' = db_events d ++ block_events b /\ db_transfers d' = db_transfers d ++ block_transfers b.
Proof.
  unfold write_block, block_events, block_transfers. intros H [B1 B2].
  destruct (write_receipts (b_id b) (num_of (b_id b)) (b_time b) (b_txs b) (b_rcs b) 0 (d, 0, 0)) as [[[d1 e1] t1]|] eqn:E; [|discriminate].
  injection H as <-. eapply write_receipts_app; [exact E | |].
  - intros x Hx. specialize (B1 x Hx). unfold pack, two35 in *. lia.
  - intros x Hx. specialize (B2 x Hx). unfold pack, two35 in *. lia.
Qed.

(* the rows of a path (heights descending) are the per-block rows concatenated in chain order *)
Lemma rows_of_path_flat r st : wf_body r -> desc st -> forall d, rows_of_path r st = Some d ->
  db_events d = chain_events r st /\ db_transfers d = chain_transfers r st.
Proof.
  intros WB. unfold desc. induction 1 as [|x st St IH Ft]; intros d H; cbn [rows_of_path] in H.
  - injection H as <-. auto.
  - destruct (rows_of_path r st) as [d0|] eqn:E0; [|discriminate].
    destruct (get_block r x) as [[s bx]|] eqn:Eb; [|discriminate].
    destruct (IH d0 eq_refl) as [I1 I2]. cbn [chain_events chain_transfers]. rewrite Eb, <- I1, <- I2.
    apply write_block_appends; [exact H|]. rewrite (get_block_id_eq r WB _ _ _ Eb).
    apply (rows_below r WB st d0 (num_of x) E0). rewrite Forall_forall in Ft. exact Ft.
Qed.
