(* LogDB/ProofsCanon.v — after every import history the tables are exactly what writing the blocks of the canonical
   chain, oldest first, into empty tables produces (C15, first sentence). *)
From Coq Require Import List NArith ZArith Bool Lia ZifyN ZifyNat ZifyBool Sorted.
From Verif Require Import Chain.Model Chain.Proofs Chain.ProofsWalk Chain.ProofsSys Chain.ProofsPath LogDB.Model LogDB.Proofs.
Import ListNotations.
Open Scope N_scope.
Ltac Zify.zify_post_hook ::= Z.div_mod_to_equations.

Definition two35 : N := 34359738368.

(* ---------------------------------------------------------------- specification *)
(* the tables the canonical chain prescribes: its blocks written oldest first into empty tables; the argument is
   the path newest first, as is_path gives it *)
Fixpoint rows_of_path (r : repo) (path_desc : list N) : option logdb :=
  match path_desc with
  | [] => Some empty_db
  | id :: older => match rows_of_path r older, get_block r id with
                   | Some db, Some (_, b) => write_block b db
                   | _, _ => None
                   end
  end.

(* import histories: any valid AddBlock calls; a block that becomes best first goes through writeLogs against the
   previous best, as Node.commitBlock does *)
Inductive imported (g gp tag : N) : repo -> logdb -> Prop :=
| imp_init : imported g gp tag (init_repo g gp tag) empty_db
| imp_side r db b conf r' : imported g gp tag r db -> valid_add r b conf -> add_block r b conf false = Some r' ->
                            imported g gp tag r' db
| imp_best r db b conf r' db' : imported g gp tag r db -> valid_add r b conf ->
                                write_logs r db b (r_best r) = Some db' -> add_block r b conf true = Some r' ->
                                imported g gp tag r' db'.

Lemma imported_reachable g gp tag r db : imported g gp tag r db -> reachable g gp tag (fun _ _ _ => True) r.
Proof. induction 1; [constructor | eapply reach_add; eauto | eapply reach_add; eauto]. Qed.

(* ---------------------------------------------------------------- what a write adds *)
Lemma ins_tr_in_weak x l y : In y (ins_tr x l) -> y = x \/ In y l.
Proof.
  induction l as [|h t IH]; cbn [ins_tr In]; [intuition congruence|].
  destruct (tr_seq x =? tr_seq h); [cbn [In]; tauto|]. destruct (tr_seq x <? tr_seq h); cbn [In]; [intuition congruence|].
  intros [<-|H]; [tauto|]. destruct (IH H); tauto.
Qed.

Lemma filter_ins_ev s x l : s <= er_seq x ->
  filter (fun y => er_seq y <? s) (ins_ev x l) = filter (fun y => er_seq y <? s) l.
Proof.
  intros Hx. induction l as [|h t IH]; cbn [ins_ev filter].
  - destruct (N.ltb_spec (er_seq x) s); [lia | reflexivity].
  - destruct (er_seq x =? er_seq h); [reflexivity|]. destruct (er_seq x <? er_seq h); cbn [filter].
    + destruct (N.ltb_spec (er_seq x) s); [lia | reflexivity].
    + rewrite IH. reflexivity.
Qed.
Lemma filter_ins_tr s x l : s <= tr_seq x ->
  filter (fun y => tr_seq y <? s) (ins_tr x l) = filter (fun y => tr_seq y <? s) l.
Proof.
  intros Hx. induction l as [|h t IH]; cbn [ins_tr filter].
  - destruct (N.ltb_spec (tr_seq x) s); [lia | reflexivity].
  - destruct (tr_seq x =? tr_seq h); [reflexivity|]. destruct (tr_seq x <? tr_seq h); cbn [filter].
    + destruct (N.ltb_spec (tr_seq x) s); [lia | reflexivity].
    + rewrite IH. reflexivity.
Qed.

(* d' is d plus INSERT OR IGNOREs of rows whose keys lie in [lo, hi) *)
Inductive ext (lo hi : N) : logdb -> logdb -> Prop :=
| ext_refl d : ext lo hi d d
| ext_ev d d' x : ext lo hi d d' -> lo <= er_seq x < hi ->
                  ext lo hi d (mkDB (ins_ev x (db_events d')) (db_transfers d'))
| ext_tr d d' x : ext lo hi d d' -> lo <= tr_seq x < hi ->
                  ext lo hi d (mkDB (db_events d') (ins_tr x (db_transfers d'))).

Lemma ext_trans lo hi a b c : ext lo hi a b -> ext lo hi b c -> ext lo hi a c.
Proof. intros H1 H2. induction H2; [exact H1 | apply ext_ev; auto | apply ext_tr; auto]. Qed.

Lemma ext_truncate lo hi d d' n : ext lo hi d d' -> n * two35 <= lo -> truncate n d' = truncate n d.
Proof.
  intros H Hn. unfold truncate. destruct (seq_of n 0 0) as [s|] eqn:E; [|reflexivity].
  apply seq_of_inv in E. destruct E as [_ Es]. unfold two35 in Hn. f_equal.
  induction H as [d|d d' x H IH Hx|d d' x H IH Hx]; [reflexivity| |]; cbn [db_events db_transfers].
  - rewrite filter_ins_ev by lia. exact IH.
  - rewrite filter_ins_tr by lia. exact IH.
Qed.

Definition below (hi : N) (d : logdb) : Prop :=
  (forall x, In x (db_events d) -> er_seq x < hi) /\ (forall x, In x (db_transfers d) -> tr_seq x < hi).

Lemma ext_below lo hi hi' d d' : ext lo hi d d' -> hi <= hi' -> below hi' d -> below hi' d'.
Proof.
  intros H Hh B. induction H as [d|d d' x H IH Hx|d d' x H IH Hx]; [exact B| |]; destruct (IH B) as [B1 B2]; split; cbn [db_events db_transfers]; auto.
  - intros y Hy. apply ins_ev_in_weak in Hy. destruct Hy as [->|Hy]; [lia | apply B1; exact Hy].
  - intros y Hy. apply ins_tr_in_weak in Hy. destruct Hy as [->|Hy]; [lia | apply B2; exact Hy].
Qed.

Lemma seq_in_block b t l s : seq_of b t l = Some s -> b * two35 <= s < (b + 1) * two35.
Proof.
  intros E. apply seq_of_inv in E. destruct E as [[_ [Ht Hl]] ->]. unfold max_txi, max_logi, two35 in *. lia.
Qed.

Section WriteExt.
  Variables bid bnum btime : N.
  Let lo := bnum * two35.
  Let hi := (bnum + 1) * two35.

  Lemma write_events_ext txid origin txi clause evs : forall st db' ec' tc',
    write_events bid bnum btime txid origin txi clause evs st = Some (db', ec', tc') -> ext lo hi (fst (fst st)) db'.
  Proof.
    induction evs as [|e evs IH]; intros [[db ec] tc] db' ec' tc' H; cbn [write_events] in H.
    - injection H as <- _ _. apply ext_refl.
    - destruct (seq_of bnum txi ec) as [s|] eqn:Es; [|discriminate]. apply IH in H. cbn [fst] in *.
      eapply ext_trans; [|exact H]. apply ext_ev; [apply ext_refl|]. cbn [er_seq]. apply (seq_in_block _ _ _ _ Es).
  Qed.

  Lemma write_transfers_ext txid origin txi clause trs : forall st db' ec' tc',
    write_transfers bid bnum btime txid origin txi clause trs st = Some (db', ec', tc') -> ext lo hi (fst (fst st)) db'.
  Proof.
    induction trs as [|e trs IH]; intros [[db ec] tc] db' ec' tc' H; cbn [write_transfers] in H.
    - injection H as <- _ _. apply ext_refl.
    - destruct (seq_of bnum txi tc) as [s|] eqn:Es; [|discriminate]. apply IH in H. cbn [fst] in *.
      eapply ext_trans; [|exact H]. apply ext_tr; [apply ext_refl|]. cbn [tr_seq]. apply (seq_in_block _ _ _ _ Es).
  Qed.

  Lemma write_outputs_ext txid origin txi outs : forall clause st db' ec' tc',
    write_outputs bid bnum btime txid origin txi clause outs st = Some (db', ec', tc') -> ext lo hi (fst (fst st)) db'.
  Proof.
    induction outs as [|[evs trs] outs IH]; intros clause st db' ec' tc' H; cbn [write_outputs] in H.
    - injection H as ->. cbn [fst]. apply ext_refl.
    - destruct (write_events bid bnum btime txid origin txi clause evs st) as [[[d1 e1] t1]|] eqn:E1; [|discriminate].
      destruct (write_transfers bid bnum btime txid origin txi clause trs (d1, e1, t1)) as [[[d2 e2] t2]|] eqn:E2; [|discriminate].
      apply IH in H. apply write_events_ext in E1. apply write_transfers_ext in E2. cbn [fst] in *.
      eapply ext_trans; [|exact H]. eapply ext_trans; eauto.
  Qed.

  Lemma write_receipts_ext rcs : forall txs txi st db' ec' tc',
    write_receipts bid bnum btime txs rcs txi st = Some (db', ec', tc') -> ext lo hi (fst (fst st)) db'.
  Proof.
    induction rcs as [|rc rcs IH]; intros txs txi st db' ec' tc' H; cbn [write_receipts] in H.
    - injection H as ->. cbn [fst]. apply ext_refl.
    - destruct (match txs with t :: _ => (tx_id t, tx_origin t) | [] => (0, 0) end) as [txid origin].
      destruct (write_outputs bid bnum btime txid origin txi 0 (rc_outs rc) st) as [[[d1 e1] t1]|] eqn:E1; [|discriminate].
      apply IH in H. apply write_outputs_ext in E1. cbn [fst] in *. eapply ext_trans; eauto.
  Qed.
End WriteExt.

Lemma write_block_ext b d d' : write_block b d = Some d' ->
  ext (num_of (b_id b) * two35) ((num_of (b_id b) + 1) * two35) d d'.
Proof.
  unfold write_block. intros H.
  destruct (write_receipts (b_id b) (num_of (b_id b)) (b_time b) (b_txs b) (b_rcs b) 0 (d, 0, 0)) as [[[d1 e1] t1]|] eqn:E; [|discriminate].
  injection H as <-. apply write_receipts_ext in E. exact E.
Qed.

(* ---------------------------------------------------------------- rows of a path *)
Section Rows.
  Variable r : repo.
  Hypothesis WB : wf_body r.

  Lemma get_block_id_eq id s b : get_block r id = Some (s, b) -> b_id b = id.
  Proof.
    unfold get_block. destruct (get_summary r id) as [s'|] eqn:Hs; [|discriminate].
    destruct (WB id s' Hs) as [b' [B1 [B2 _]]]. rewrite B1. intros E. injection E as _ <-. exact B2.
  Qed.

  (* rows of blocks below height n stay below n * 2^35 *)
  Lemma rows_below st : forall d n, rows_of_path r st = Some d -> (forall a, In a st -> num_of a < n) -> below (n * two35) d.
  Proof.
    induction st as [|x st IH]; intros d n H Hn; cbn [rows_of_path] in H.
    - injection H as <-. split; intros y [].
    - destruct (rows_of_path r st) as [d0|] eqn:E0; [|discriminate].
      destruct (get_block r x) as [[s bx]|] eqn:Eb; [|discriminate].
      pose proof (get_block_id_eq _ _ _ Eb) as Eid.
      apply write_block_ext in H. rewrite Eid in H.
      eapply ext_below; [exact H | | apply (IH d0 n eq_refl); intros a Ha; apply Hn; right; exact Ha].
      pose proof (Hn x (or_introl eq_refl)). unfold two35. lia.
  Qed.

  (* truncating at n forgets the blocks at heights >= n *)
  Lemma rows_truncate pre : forall suf d n, rows_of_path r (pre ++ suf) = Some d -> (forall a, In a pre -> n <= num_of a) ->
    exists ds, rows_of_path r suf = Some ds /\ truncate n d = truncate n ds.
  Proof.
    induction pre as [|x pre IH]; intros suf d n H Hn; cbn [app] in H.
    - exists d. auto.
    - cbn [rows_of_path] in H.
      destruct (rows_of_path r (pre ++ suf)) as [d0|] eqn:E0; [|discriminate].
      destruct (get_block r x) as [[s bx]|] eqn:Eb; [|discriminate].
      pose proof (get_block_id_eq _ _ _ Eb) as Eid. apply write_block_ext in H. rewrite Eid in H.
      destruct (IH suf d0 n E0) as [ds [E1 E2]]; [intros a Ha; apply Hn; right; exact Ha|].
      exists ds. split; [exact E1|]. rewrite <- E2. eapply ext_truncate; [exact H|].
      pose proof (Hn x (or_introl eq_refl)). unfold two35. lia.
  Qed.

  Lemma truncate_below n d d1 : truncate n d = Some d1 -> below (n * two35) d -> d1 = d.
  Proof.
    unfold truncate. destruct (seq_of n 0 0) as [s|] eqn:E; [|discriminate]. intros H [B1 B2]. injection H as <-.
    apply seq_of_inv in E. destruct E as [_ ->]. unfold two35 in *. destruct d as [es ts]. cbn [db_events db_transfers] in *. f_equal.
    - clear B2. induction es as [|h t IH]; cbn [filter]; [reflexivity|].
      destruct (N.ltb_spec (er_seq h) (n * 34359738368 + 0 * 1048576 + 0)) as [_|Hge].
      + f_equal. apply IH. intros x Hx. apply B1. right. exact Hx.
      + pose proof (B1 h (or_introl eq_refl)). lia.
    - clear B1. induction ts as [|h t IH]; cbn [filter]; [reflexivity|].
      destruct (N.ltb_spec (tr_seq h) (n * 34359738368 + 0 * 1048576 + 0)) as [_|Hge].
      + f_equal. apply IH. intros x Hx. apply B2. right. exact Hx.
      + pose proof (B2 h (or_introl eq_refl)). lia.
  Qed.

  (* writing a list of blocks, oldest first, on top of the rows of a path *)
  Lemma rows_write_ids l : forall suf d d2, rows_of_path r suf = Some d -> write_ids r l d = Some d2 ->
    rows_of_path r (rev l ++ suf) = Some d2.
  Proof.
    induction l as [|x l IH]; intros suf d d2 Hs Hw; cbn [write_ids] in Hw.
    - injection Hw as <-. exact Hs.
    - destruct (get_block r x) as [[s bx]|] eqn:Eb; [|discriminate].
      destruct (write_block bx d) as [d'|] eqn:Ew; [|discriminate].
      cbn [rev]. rewrite <- app_assoc. cbn [app]. apply (IH (x :: suf) d' d2); [|exact Hw].
      cbn [rows_of_path]. rewrite Hs, Eb. exact Ew.
  Qed.
End Rows.

Lemma rows_of_path_old g gp r r' b conf best st :
  wf g gp r -> valid_add r b conf -> add_block r b conf best = Some r' ->
  (forall a, In a st -> stored r a) -> rows_of_path r' st = rows_of_path r st.
Proof.
  intros W V A. induction st as [|x st IH]; intros Hs; [reflexivity|]. cbn [rows_of_path].
  rewrite IH by (intros a Ha; apply Hs; right; exact Ha).
  destruct (Hs x (or_introl eq_refl)) as [s Hx]. rewrite (get_block_old g gp r r' b conf best x s W V A Hx). reflexivity.
Qed.

(* ---------------------------------------------------------------- the invariant *)
Section Canon.
  Variables g gp tag : N.
  Hypothesis Hg : num_of g = 0.

  (* one writeLogs: from the rows of the old best path to the rows of the new block's path *)
  Lemma write_logs_canonical r db nb db' st_o st_p :
    wf g gp r -> wf_body r ->
    is_path r (r_best r) st_o -> is_path r (b_parent nb) st_p ->
    rows_of_path r st_o = Some db -> write_logs r db nb (r_best r) = Some db' ->
    exists dp, rows_of_path r st_p = Some dp /\ write_block nb dp = Some db'.
  Proof.
    intros W WB Po Pp Hrows Hw.
    destruct (exclude_is_prefix g gp r W (r_best r) (b_parent nb) st_o st_p Po Pp) as [pre_o [pre_p [suf [Eo [Ep [Xo Xp]]]]]].
    subst st_o st_p. unfold write_logs in Hw. rewrite Xo, Xp in Hw.
    (* after the optional truncate the table is the rows of the common path *)
    assert (Hcommon : forall db1, match rev pre_o with [] => Some db | f :: _ => truncate (num_of f) db end = Some db1 ->
                                  rows_of_path r suf = Some db1).
    { intros db1 H1. destruct (rev pre_o) as [|f rest] eqn:Er.
      - injection H1 as <-. assert (pre_o = []) by (destruct pre_o; [reflexivity | apply (f_equal (@length N)) in Er; rewrite rev_length in Er; discriminate]).
        subst pre_o. exact Hrows.
      - pose proof (path_desc g gp r W _ _ Po) as D.
        assert (A : asc (rev pre_o)) by (apply desc_rev_asc; eapply desc_app_l; eauto). rewrite Er in A.
        inversion A as [|? ? _ Ff]; subst. rewrite Forall_forall in Ff.
        assert (Hin : forall a, In a pre_o -> num_of f <= num_of a).
        { intros a Ha. apply in_rev in Ha. rewrite Er in Ha. destruct Ha as [<-|Ha]; [lia|]. pose proof (Ff a Ha). lia. }
        assert (Hf : In f pre_o) by (apply in_rev; rewrite Er; left; reflexivity).
        destruct (rows_truncate r WB pre_o suf db (num_of f) Hrows Hin) as [ds [E1 E2]].
        rewrite E2 in H1. rewrite E1. f_equal. symmetry. apply (truncate_below (num_of f) ds db1 H1).
        apply (rows_below r WB suf ds (num_of f) E1). intros a Ha. eapply desc_app_lt; eauto. }
    destruct (match rev pre_o with [] => Some db | f :: _ => truncate (num_of f) db end) as [db1|] eqn:E1; [|discriminate].
    destruct (write_ids r (rev pre_p) db1) as [db2|] eqn:E2; [|discriminate].
    exists db2. split; [|exact Hw]. rewrite <- (rev_involutive pre_p).
    eapply rows_write_ids; [apply Hcommon; reflexivity | exact E2].
  Qed.

  (* C15: after every import history the tables are the rows of the canonical chain *)
  Theorem logdb_tracks_canonical_lemma r db : imported g gp tag r db ->
    forall st, is_path r (r_best r) st -> rows_of_path r st = Some db.
  Proof.
    induction 1 as [|r db b conf r' I IH V A|r db b conf r' db' I IH V Hw A]; intros st Pst.
    - (* genesis *)
      assert (E : st = [g]).
      { eapply path_unique; [exact Pst|]. change (r_best (init_repo g gp tag)) with (r_gen (init_repo g gp tag)). constructor. }
      subst st. cbn [rows_of_path]. unfold get_block, get_summary, init_repo. cbn [r_sums afind r_body]. rewrite N.eqb_refl.
      cbn [s_conf afind2]. unfold eq2. cbn [fst snd]. rewrite Hg. cbn. reflexivity.
    - (* a block that does not become best: same best, same path, same rows *)
      pose proof (imported_reachable _ _ _ _ _ I) as R. pose proof (reachable_wf _ _ _ _ _ Hg R) as W.
      assert (Eb : r_best r' = r_best r) by (rewrite (add_best r r' b conf false A); reflexivity).
      rewrite Eb in Pst. destruct (path_exists g gp r W (r_best r) (w_best _ _ _ W)) as [st0 P0].
      assert (st = st0) by (eapply path_unique; [exact Pst | eapply path_mono; eauto]). subst st0.
      rewrite (rows_of_path_old g gp r r' b conf false st W V A); [apply IH; exact P0|].
      intros a Ha. apply (path_members g gp r W _ _ P0) in Ha. apply (anc_stored _ _ _ Ha).
    - (* a block that becomes best *)
      pose proof (imported_reachable _ _ _ _ _ I) as R. pose proof (reachable_wf _ _ _ _ _ Hg R) as W.
      pose proof (reachable_wf_body _ _ _ _ _ Hg R) as WB.
      assert (Eb : r_best r' = b_id b) by (rewrite (add_best r r' b conf true A); reflexivity).
      rewrite Eb in Pst.
      destruct (add_parent _ _ _ _ _ A) as [ps [Hps _]].
      destruct (path_exists g gp r W (r_best r) (w_best _ _ _ W)) as [st_o Po].
      destruct (path_exists g gp r W (b_parent b) (ex_intro _ ps Hps)) as [st_p Pp].
      destruct (write_logs_canonical r db b db' st_o st_p W WB Po Pp (IH _ Po) Hw) as [dp [Hdp Hfin]].
      assert (Est : st = b_id b :: st_p).
      { eapply path_unique; [exact Pst|]. eapply path_step.
        - rewrite (add_summary _ _ _ _ _ A), N.eqb_refl. reflexivity.
        - rewrite (add_gen r r' b conf true A), (w_gen _ _ _ W). apply (add_ne_g g gp r b conf W V).
        - cbn [s_parent]. eapply path_mono; eauto. }
      subst st. cbn [rows_of_path].
      rewrite (rows_of_path_old g gp r r' b conf true st_p W V A), Hdp, (get_block_new r r' b conf true A); [exact Hfin|].
      intros a Ha. apply (path_members g gp r W _ _ Pp) in Ha. apply (anc_stored _ _ _ Ha).
  Qed.
End Canon.
