(* LogDB/ProofsVerify.v — verifyLogDB (cmd/thor/sync_logdb.go) raises no false alarm: on tables that are the canonical
   tables of a stored block x, the verification of the blocks 1 .. e of best's chain succeeds whenever best's block at
   height e is on x's chain (a common block).  Consequence: syncLogDB with verify = true behaves like syncLogDB with
   verify = false on such tables, so sync_reestablishes_canonical also speaks about the verifying start-up. *)
From Coq Require Import List NArith ZArith Bool Lia ZifyN ZifyNat ZifyBool Sorted Arith.
From Verif Require Import Chain.Model Chain.Proofs Chain.ProofsWalk Chain.ProofsSys Chain.ProofsPath
  LogDB.Model LogDB.Proofs LogDB.ProofsCanon LogDB.ProofsRows LogDB.ProofsSync.
Import ListNotations.
Open Scope N_scope.
Ltac Zify.zify_post_hook ::= Z.div_mod_to_equations.

(* ---------------------------------------------------------------- the verify argument only adds a way to fail *)
Lemma sync_logdb_v_some v r db db' : sync_logdb_v v r db = Some db' -> sync_logdb r db = Some db'.
Proof.
  unfold sync_logdb_v. destruct (seek_position r db) as [p| |]; try discriminate.
  destruct (v && (0 <? p) && negb (verify_logdb r db (p - 1))); [discriminate|]. exact (fun H => H).
Qed.
Lemma sync_logdb_v_off r db : sync_logdb_v false r db = sync_logdb r db.
Proof.
  unfold sync_logdb_v. destruct (seek_position r db) as [p| |] eqn:E; cbn [andb]; try reflexivity;
  unfold sync_logdb; rewrite E; reflexivity.
Qed.

(* ---------------------------------------------------------------- row comparison and the leading-rows split *)
Lemma list_eqb_refl {A} (eqb : A -> A -> bool) (l : list A) : (forall x, eqb x x = true) -> list_eqb eqb l l = true.
Proof. intros R. induction l as [|a l IH]; cbn [list_eqb]; [reflexivity|]. rewrite R, IH. reflexivity. Qed.
Lemma evrow_eqb_refl x : evrow_eqb x x = true.
Proof. unfold evrow_eqb. rewrite !N.eqb_refl, (list_eqb_refl N.eqb _ N.eqb_refl). reflexivity. Qed.
Lemma trrow_eqb_refl x : trrow_eqb x x = true.
Proof. unfold trrow_eqb. rewrite !N.eqb_refl. reflexivity. Qed.

Lemma span_ev_app id a b : (forall x, In x a -> er_block x = id) -> (forall x, In x b -> er_block x <> id) ->
  span_ev id (a ++ b) = (a, b).
Proof.
  intros Ha Hb. induction a as [|x a IH]; cbn [app span_ev].
  - destruct b as [|y b]; [reflexivity|]. cbn [span_ev].
    destruct (N.eqb_spec (er_block y) id) as [E|_]; [exfalso; exact (Hb y (or_introl eq_refl) E) | reflexivity].
  - rewrite (Ha x (or_introl eq_refl)), N.eqb_refl, IH; [reflexivity|]. intros z Hz. apply Ha. right. exact Hz.
Qed.
Lemma span_tr_app id a b : (forall x, In x a -> tr_block x = id) -> (forall x, In x b -> tr_block x <> id) ->
  span_tr id (a ++ b) = (a, b).
Proof.
  intros Ha Hb. induction a as [|x a IH]; cbn [app span_tr].
  - destruct b as [|y b]; [reflexivity|]. cbn [span_tr].
    destruct (N.eqb_spec (tr_block y) id) as [E|_]; [exfalso; exact (Hb y (or_introl eq_refl) E) | reflexivity].
  - rewrite (Ha x (or_introl eq_refl)), N.eqb_refl, IH; [reflexivity|]. intros z Hz. apply Ha. right. exact Hz.
Qed.

(* ---------------------------------------------------------------- every prescribed row lies at or above its block's first key *)
Lemma spec_events_lo bid bnum btime txid origin txi clause evs : forall ec x,
  In x (spec_events bid bnum btime txid origin txi clause ec evs) -> bnum * two35 <= er_seq x.
Proof.
  induction evs as [|e evs IH]; intros ec x; cbn [spec_events In]; [tauto|].
  intros [<-|H]; [cbn [er_seq]; unfold pack, two35; lia | eapply IH; eauto].
Qed.
Lemma spec_transfers_lo bid bnum btime txid origin txi clause trs : forall tc x,
  In x (spec_transfers bid bnum btime txid origin txi clause tc trs) -> bnum * two35 <= tr_seq x.
Proof.
  induction trs as [|e trs IH]; intros tc x; cbn [spec_transfers In]; [tauto|].
  intros [<-|H]; [cbn [tr_seq]; unfold pack, two35; lia | eapply IH; eauto].
Qed.
Lemma spec_outputs_ev_lo bid bnum btime txid origin txi outs : forall clause ec x,
  In x (spec_outputs_ev bid bnum btime txid origin txi clause ec outs) -> bnum * two35 <= er_seq x.
Proof.
  induction outs as [|[evs trs] outs IH]; intros clause ec x; cbn [spec_outputs_ev In]; [tauto|].
  intros H. apply in_app_or in H. destruct H as [H|H]; [eapply spec_events_lo; eauto | eapply IH; eauto].
Qed.
Lemma spec_outputs_tr_lo bid bnum btime txid origin txi outs : forall clause tc x,
  In x (spec_outputs_tr bid bnum btime txid origin txi clause tc outs) -> bnum * two35 <= tr_seq x.
Proof.
  induction outs as [|[evs trs] outs IH]; intros clause tc x; cbn [spec_outputs_tr In]; [tauto|].
  intros H. apply in_app_or in H. destruct H as [H|H]; [eapply spec_transfers_lo; eauto | eapply IH; eauto].
Qed.
Lemma spec_receipts_ev_lo bid bnum btime rcs : forall txs txi ec x,
  In x (spec_receipts_ev bid bnum btime txs rcs txi ec) -> bnum * two35 <= er_seq x.
Proof.
  induction rcs as [|rc rcs IH]; intros txs txi ec x; cbn [spec_receipts_ev In]; [tauto|].
  intros H. apply in_app_or in H. destruct H as [H|H]; [eapply spec_outputs_ev_lo; eauto | eapply IH; eauto].
Qed.
Lemma spec_receipts_tr_lo bid bnum btime rcs : forall txs txi tc x,
  In x (spec_receipts_tr bid bnum btime txs rcs txi tc) -> bnum * two35 <= tr_seq x.
Proof.
  induction rcs as [|rc rcs IH]; intros txs txi tc x; cbn [spec_receipts_tr In]; [tauto|].
  intros H. apply in_app_or in H. destruct H as [H|H]; [eapply spec_outputs_tr_lo; eauto | eapply IH; eauto].
Qed.

Lemma ext_in_ev lo hi d d' : ext lo hi d d' -> forall y, In y (db_events d') -> In y (db_events d) \/ lo <= er_seq y < hi.
Proof.
  induction 1 as [d|d d' x H IH Hx|d d' x H IH Hx]; intros y Hy; cbn [db_events] in *; auto.
  apply ins_ev_in_weak in Hy. destruct Hy as [->|Hy]; auto.
Qed.
Lemma ext_in_tr lo hi d d' : ext lo hi d d' -> forall y, In y (db_transfers d') -> In y (db_transfers d) \/ lo <= tr_seq y < hi.
Proof.
  induction 1 as [d|d d' x H IH Hx|d d' x H IH Hx]; intros y Hy; cbn [db_transfers] in *; auto.
  apply ins_tr_in_weak in Hy. destruct Hy as [->|Hy]; auto.
Qed.

(* ---------------------------------------------------------------- filtering a path by height *)
Definition in_win (i lim id : N) : bool := (i <=? num_of id) && (num_of id <=? lim).

Lemma filter_win_none i lim st : (forall a, In a st -> num_of a < i) -> filter (in_win i lim) st = [].
Proof.
  induction st as [|a st IH]; intros H; cbn [filter]; [reflexivity|]. unfold in_win at 1.
  pose proof (H a (or_introl eq_refl)). replace (i <=? num_of a) with false by (symmetry; apply N.leb_gt; lia). cbn [andb].
  apply IH. intros b Hb. apply H. right. exact Hb.
Qed.

Lemma filter_win_split i lim st b : desc st -> In b st -> num_of b = i -> i <= lim ->
  filter (in_win i lim) st = filter (in_win (i + 1) lim) st ++ [b].
Proof.
  unfold desc. induction 1 as [|a st St IH Ft]; intros Hb Hn Hl; [destruct Hb|]. rewrite Forall_forall in Ft. cbn [filter].
  destruct Hb as [->|Hb].
  - assert (E1 : in_win i lim b = true).
    { unfold in_win. rewrite Hn. apply andb_true_iff. split; apply N.leb_le; lia. }
    assert (E2 : in_win (i + 1) lim b = false).
    { unfold in_win. rewrite Hn. apply andb_false_iff. left. apply N.leb_gt. lia. }
    rewrite E1, E2. rewrite !filter_win_none; [reflexivity | |]; intros c Hc; pose proof (Ft c Hc); lia.
  - pose proof (Ft b Hb) as Hlt.
    assert (E : in_win i lim a = in_win (i + 1) lim a).
    { unfold in_win. f_equal. replace (i <=? num_of a) with true by (symmetry; apply N.leb_le; lia).
      symmetry. apply N.leb_le. lia. }
    rewrite E. destruct (in_win (i + 1) lim a); [cbn [app]; f_equal|]; apply IH; auto.
Qed.

Lemma chain_events_app r pre suf : chain_events r (pre ++ suf) = chain_events r suf ++ chain_events r pre.
Proof.
  induction pre as [|a pre IH]; cbn [app chain_events]; [rewrite app_nil_r; reflexivity|]. rewrite IH, app_assoc. reflexivity.
Qed.
Lemma chain_transfers_app r pre suf : chain_transfers r (pre ++ suf) = chain_transfers r suf ++ chain_transfers r pre.
Proof.
  induction pre as [|a pre IH]; cbn [app chain_transfers]; [rewrite app_nil_r; reflexivity|]. rewrite IH, app_assoc. reflexivity.
Qed.

Section Bounds.
  Variable r : repo.
  Hypothesis WB : wf_body r.

  (* the rows of every block of a path whose tables exist lie inside the block's key range *)
  Lemma rows_bounds st : desc st -> forall d, rows_of_path r st = Some d ->
    forall id, In id st ->
      (forall x, In x (blk_events r id) -> num_of id * two35 <= er_seq x < (num_of id + 1) * two35) /\
      (forall x, In x (blk_transfers r id) -> num_of id * two35 <= tr_seq x < (num_of id + 1) * two35).
  Proof.
    unfold desc. induction 1 as [|a st St IH Ft]; intros d H id Hid; [destruct Hid|]. cbn [rows_of_path] in H.
    destruct (rows_of_path r st) as [d0|] eqn:E0; [|discriminate].
    destruct (get_block r a) as [[s ba]|] eqn:Eb; [|discriminate].
    destruct Hid as [<-|Hid]; [|exact (IH d0 eq_refl id Hid)].
    pose proof (get_block_id_eq r WB _ _ _ Eb) as Eid.
    assert (B0 : below (num_of a * two35) d0) by (apply (rows_below r WB st d0 (num_of a) E0); rewrite Forall_forall in Ft; exact Ft).
    pose proof (write_block_ext _ _ _ H) as X. rewrite Eid in X.
    destruct (write_block_appends ba d0 d H) as [A1 A2]; [rewrite Eid; exact B0|].
    unfold blk_events, blk_transfers. rewrite Eb. destruct B0 as [B1 B2]. split; intros x Hx.
    - assert (L : num_of a * two35 <= er_seq x) by (unfold block_events in Hx; rewrite Eid in Hx; eapply spec_receipts_ev_lo; eauto).
      destruct (ext_in_ev _ _ _ _ X x) as [I|I]; [rewrite A1; apply in_or_app; right; exact Hx | | exact I].
      pose proof (B1 x I). lia.
    - assert (L : num_of a * two35 <= tr_seq x) by (unfold block_transfers in Hx; rewrite Eid in Hx; eapply spec_receipts_tr_lo; eauto).
      destruct (ext_in_tr _ _ _ _ X x) as [I|I]; [rewrite A2; apply in_or_app; right; exact Hx | | exact I].
      pose proof (B2 x I). lia.
  Qed.

  (* filtering the rows of a path by a key window = the rows of the blocks whose height is in the window *)
  Lemma filter_chain_events i lim st :
    (forall id, In id st -> forall x, In x (blk_events r id) -> num_of id * two35 <= er_seq x < (num_of id + 1) * two35) ->
    filter (fun x => (i * two35 <=? er_seq x) && (er_seq x <=? lim * two35 + (two35 - 1))) (chain_events r st)
    = chain_events r (filter (in_win i lim) st).
  Proof.
    induction st as [|a st IH]; intros HB; cbn [chain_events filter]; [reflexivity|].
    rewrite filter_app, IH by (intros id Hid; apply HB; right; exact Hid). fold (blk_events r a).
    assert (Ha : forall x, In x (blk_events r a) -> num_of a * two35 <= er_seq x < (num_of a + 1) * two35) by (apply HB; left; reflexivity).
    destruct (in_win i lim a) eqn:Ew; cbn [chain_events]; fold (blk_events r a).
    - f_equal. apply andb_true_iff in Ew. destruct Ew as [E1 E2]. apply N.leb_le in E1, E2.
      induction (blk_events r a) as [|x l IHl]; cbn [filter]; [reflexivity|].
      pose proof (Ha x (or_introl eq_refl)) as Hx.
      replace (i * two35 <=? er_seq x) with true by (symmetry; apply N.leb_le; unfold two35 in *; nia).
      replace (er_seq x <=? lim * two35 + (two35 - 1)) with true by (symmetry; apply N.leb_le; unfold two35 in *; nia).
      cbn [andb]. f_equal. apply IHl. intros y Hy. apply Ha. right. exact Hy.
    - rewrite <- (app_nil_r (chain_events r (filter (in_win i lim) st))) at 2. f_equal.
      apply andb_false_iff in Ew.
      induction (blk_events r a) as [|x l IHl]; cbn [filter]; [reflexivity|].
      pose proof (Ha x (or_introl eq_refl)) as Hx.
      replace ((i * two35 <=? er_seq x) && (er_seq x <=? lim * two35 + (two35 - 1))) with false.
      + apply IHl. intros y Hy. apply Ha. right. exact Hy.
      + symmetry. apply andb_false_iff. destruct Ew as [E|E]; [left | right]; apply N.leb_gt in E; apply N.leb_gt; unfold two35 in *; nia.
  Qed.
  Lemma filter_chain_transfers i lim st :
    (forall id, In id st -> forall x, In x (blk_transfers r id) -> num_of id * two35 <= tr_seq x < (num_of id + 1) * two35) ->
    filter (fun x => (i * two35 <=? tr_seq x) && (tr_seq x <=? lim * two35 + (two35 - 1))) (chain_transfers r st)
    = chain_transfers r (filter (in_win i lim) st).
  Proof.
    induction st as [|a st IH]; intros HB; cbn [chain_transfers filter]; [reflexivity|].
    rewrite filter_app, IH by (intros id Hid; apply HB; right; exact Hid). fold (blk_transfers r a).
    assert (Ha : forall x, In x (blk_transfers r a) -> num_of a * two35 <= tr_seq x < (num_of a + 1) * two35) by (apply HB; left; reflexivity).
    destruct (in_win i lim a) eqn:Ew; cbn [chain_transfers]; fold (blk_transfers r a).
    - f_equal. apply andb_true_iff in Ew. destruct Ew as [E1 E2]. apply N.leb_le in E1, E2.
      induction (blk_transfers r a) as [|x l IHl]; cbn [filter]; [reflexivity|].
      pose proof (Ha x (or_introl eq_refl)) as Hx.
      replace (i * two35 <=? tr_seq x) with true by (symmetry; apply N.leb_le; unfold two35 in *; nia).
      replace (tr_seq x <=? lim * two35 + (two35 - 1)) with true by (symmetry; apply N.leb_le; unfold two35 in *; nia).
      cbn [andb]. f_equal. apply IHl. intros y Hy. apply Ha. right. exact Hy.
    - rewrite <- (app_nil_r (chain_transfers r (filter (in_win i lim) st))) at 2. f_equal.
      apply andb_false_iff in Ew.
      induction (blk_transfers r a) as [|x l IHl]; cbn [filter]; [reflexivity|].
      pose proof (Ha x (or_introl eq_refl)) as Hx.
      replace ((i * two35 <=? tr_seq x) && (tr_seq x <=? lim * two35 + (two35 - 1))) with false.
      + apply IHl. intros y Hy. apply Ha. right. exact Hy.
      + symmetry. apply andb_false_iff. destruct Ew as [E|E]; [left | right]; apply N.leb_gt in E; apply N.leb_gt; unfold two35 in *; nia.
  Qed.
End Bounds.

Lemma filter_all {A} (l : list A) : filter (fun _ => true) l = l.
Proof. induction l as [|a l IH]; cbn [filter]; [reflexivity | f_equal; exact IH]. Qed.

(* ---------------------------------------------------------------- the verification walk on canonical tables *)
Section Verify.
  Variables (g gp : N) (r : repo).
  Hypothesis W : wf g gp r.
  Hypothesis WB : wf_body r.
  Variables (x : N) (st_x : list N) (db : logdb).
  Hypothesis Px : is_path r x st_x.
  Hypothesis Hdb : rows_of_path r st_x = Some db.       (* the tables are canonical for x *)
  Variable h : N.                                        (* a block of x's chain that is also on best's chain *)
  Hypothesis Hin : In h st_x.
  Hypothesis Hanc : anc r (r_best r) h.
  Hypothesis Hmax : num_of h + log_step <= max_block.    (* the window's upper end must be a valid block number *)
  Let best := r_best r.

  Let WE (i lim : N) := chain_events r (filter (in_win i lim) st_x).
  Let WT (i lim : N) := chain_transfers r (filter (in_win i lim) st_x).

  Lemma Dx : desc st_x.
  Proof. exact (path_desc g gp r W _ _ Px). Qed.

  Lemma window_events i lim : i <= max_block -> lim <= max_block -> filter_events db [] (window i lim) = Some (WE i lim).
  Proof.
    intros Hi Hl. unfold filter_events, run_filter, window. cbn [fo_range fo_page fo_desc].
    unfold seq_of. replace (max_block <? i) with false by (symmetry; apply N.ltb_ge; exact Hi).
    replace (max_block <? lim) with false by (symmetry; apply N.ltb_ge; exact Hl).
    replace (max_txi <? 0) with false by reflexivity. replace (max_logi <? 0) with false by reflexivity.
    replace (max_txi <? max_txi) with false by reflexivity. replace (max_logi <? max_logi) with false by reflexivity.
    f_equal. unfold any_crit. rewrite filter_all.
    destruct (rows_of_path_flat r st_x WB Dx db Hdb) as [E _]. rewrite E. unfold WE.
    rewrite <- (filter_chain_events r i lim st_x).
    - apply filter_ext. intros a. unfold two35, max_txi, max_logi. f_equal; f_equal; lia.
    - intros id Hid. apply (rows_bounds r WB st_x Dx db Hdb id Hid).
  Qed.
  Lemma window_transfers i lim : i <= max_block -> lim <= max_block -> filter_transfers db [] (window i lim) = Some (WT i lim).
  Proof.
    intros Hi Hl. unfold filter_transfers, run_filter, window. cbn [fo_range fo_page fo_desc].
    unfold seq_of. replace (max_block <? i) with false by (symmetry; apply N.ltb_ge; exact Hi).
    replace (max_block <? lim) with false by (symmetry; apply N.ltb_ge; exact Hl).
    replace (max_txi <? 0) with false by reflexivity. replace (max_logi <? 0) with false by reflexivity.
    replace (max_txi <? max_txi) with false by reflexivity. replace (max_logi <? max_logi) with false by reflexivity.
    f_equal. unfold any_crit. rewrite filter_all.
    destruct (rows_of_path_flat r st_x WB Dx db Hdb) as [_ E]. rewrite E. unfold WT.
    rewrite <- (filter_chain_transfers r i lim st_x).
    - apply filter_ext. intros a. unfold two35, max_txi, max_logi. f_equal; f_equal; lia.
    - intros id Hid. apply (rows_bounds r WB st_x Dx db Hdb id Hid).
  Qed.

  (* best's block at a height up to h's is the block of x's chain at that height *)
  Lemma common_at i : i <= num_of h -> exists b s blk,
    get_block_id r best i = Ok b /\ get_block r b = Some (s, blk) /\ In b st_x /\ num_of b = i.
  Proof.
    intros Hi. destruct (anc_stored _ _ _ Hanc) as [Sb Sh].
    destruct (anc_total g gp r W h Sh i Hi) as [b [Ab Nb]].
    assert (Abb : anc r best b) by (eapply anc_trans; eauto).
    destruct (anc_stored _ _ _ Ab) as [_ [s Hs]].
    destruct (WB b s Hs) as [blk [Eb _]].
    exists b, s, blk. repeat split.
    - apply (get_block_id_spec g gp r W best i b Sb). auto.
    - unfold get_block. rewrite Hs, Eb. reflexivity.
    - apply (path_members g gp r W _ _ Px). eapply anc_trans; [|exact Ab]. apply (path_members g gp r W _ _ Px). exact Hin.
    - exact Nb.
  Qed.

  (* splitting a window at its lowest block *)
  Lemma window_split_ev i lim b : In b st_x -> num_of b = i -> i <= lim ->
    span_ev b (WE i lim) = (blk_events r b, WE (i + 1) lim).
  Proof.
    intros Hb Hn Hl. unfold WE. rewrite (filter_win_split i lim st_x b Dx Hb Hn Hl), chain_events_app.
    cbn [chain_events]. fold (blk_events r b). apply span_ev_app.
    - intros y Hy. apply (blk_events_block r WB). exact Hy.
    - intros y Hy E. apply (chain_events_origin r WB) in Hy. rewrite E in Hy. apply filter_In in Hy. destruct Hy as [_ Hy].
      unfold in_win in Hy. apply andb_true_iff in Hy. destruct Hy as [Hy _]. apply N.leb_le in Hy. lia.
  Qed.
  Lemma window_split_tr i lim b : In b st_x -> num_of b = i -> i <= lim ->
    span_tr b (WT i lim) = (blk_transfers r b, WT (i + 1) lim).
  Proof.
    intros Hb Hn Hl. unfold WT. rewrite (filter_win_split i lim st_x b Dx Hb Hn Hl), chain_transfers_app.
    cbn [chain_transfers]. fold (blk_transfers r b). apply span_tr_app.
    - intros y Hy. apply (blk_transfers_block r WB). exact Hy.
    - intros y Hy E. apply (chain_transfers_origin r WB) in Hy. rewrite E in Hy. apply filter_In in Hy. destruct Hy as [_ Hy].
      unfold in_win in Hy. apply andb_true_iff in Hy. destruct Hy as [Hy _]. apply N.leb_le in Hy. lia.
  Qed.

  Lemma verify_walk_ok : forall n i lim evs trs, 1 <= i -> N.of_nat n + i <= num_of h + 1 -> i <= lim + 1 ->
    (i <= lim -> lim <= max_block /\ evs = WE i lim /\ trs = WT i lim) ->
    verify_walk r db best n i lim evs trs = true.
  Proof.
    induction n as [|n IH]; intros i lim evs trs Hi Hn Hc Inv; [reflexivity|]. cbn [verify_walk].
    destruct (common_at i ltac:(lia)) as [b [s [blk [E1 [E2 [Hb Nb]]]]]]. rewrite E1, E2.
    set (lim' := if lim <? i then lim + log_step else lim).
    assert (Hl' : i <= lim' /\ lim' <= max_block).
    { unfold lim'. destruct (N.ltb_spec lim i) as [L|L]; [unfold log_step in *; lia|]. destruct (Inv L) as [? _]. lia. }
    assert (Eev : (if lim <? i then filter_events db [] (window i lim') else Some evs) = Some (WE i lim')).
    { unfold lim'. destruct (N.ltb_spec lim i) as [L|L].
      - apply window_events; unfold log_step in *; lia.
      - destruct (Inv L) as [_ [-> _]]. reflexivity. }
    assert (Etr : (if lim <? i then filter_transfers db [] (window i lim') else Some trs) = Some (WT i lim')).
    { unfold lim'. destruct (N.ltb_spec lim i) as [L|L].
      - apply window_transfers; unfold log_step in *; lia.
      - destruct (Inv L) as [_ [_ ->]]. reflexivity. }
    rewrite Eev, Etr. rewrite (window_split_ev i lim' b Hb Nb (proj1 Hl')), (window_split_tr i lim' b Hb Nb (proj1 Hl')).
    unfold blk_events, blk_transfers. rewrite E2.
    rewrite (list_eqb_refl evrow_eqb _ evrow_eqb_refl), (list_eqb_refl trrow_eqb _ trrow_eqb_refl). cbn [andb].
    apply IH; [lia | lia | lia |]. intros _. split; [exact (proj2 Hl') | split; reflexivity].
  Qed.

  (* verifyLogDB accepts the canonical tables of x up to any height at which best's chain still is x's chain *)
  Theorem verify_accepts_common_prefix e : e <= num_of h -> verify_logdb r db e = true.
  Proof.
    intros He. unfold verify_logdb. apply verify_walk_ok; [lia | lia | lia | lia].
  Qed.
End Verify.

(* ---------------------------------------------------------------- syncLogDB with verify = true *)
Section SyncVerify.
  Variables (g gp : N) (r : repo).
  Hypothesis W : wf g gp r.
  Hypothesis WB : wf_body r.
  Variables (x : N) (st_x : list N) (db : logdb).
  Hypothesis Px : is_path r x st_x.
  Hypothesis Hdb : rows_of_path r st_x = Some db.       (* the tables are canonical for x *)
  Let best := r_best r.

  (* a non-zero sync position is one above a block that best's chain and x's chain share *)
  Lemma seek_position_common p : seek_position r db = Ok p -> 0 < p ->
    exists h, In h st_x /\ anc r best h /\ p = num_of h + 1.
  Proof.
    unfold seek_position. fold best. intros H Hp.
    assert (Sb : stored r best) by apply (w_best _ _ _ W).
    destruct (N.eqb_spec (num_of best) 0) as [B0|B0]; [injection H as <-; lia|].
    destruct (N.eqb_spec (num_of (newest_block_id db)) 0) as [N0|N0]; [injection H as <-; lia|].
    destruct (N.eqb_spec (newest_block_id db) best) as [Enew|Nnew].
    - injection H as <-. exists best. split; [|split; [destruct Sb as [s Hs]; eapply anc_refl; exact Hs | reflexivity]].
      apply (row_block_on_x g gp r W WB x st_x db Px Hdb). unfold newest_block_id in Enew.
      assert (Bnz : best <> 0) by (intros E; rewrite E, num_of_0 in B0; congruence).
      destruct (N.max_spec (last (map tr_block (db_transfers db)) 0) (last (map er_block (db_events db)) 0)) as [[_ M]|[_ M]];
        rewrite M in Enew.
      + left. assert (Ne : map er_block (db_events db) <> []) by (intros E; rewrite E in Enew; cbn in Enew; congruence).
        pose proof (last_In _ 0 Ne) as I. rewrite Enew in I. apply in_map_iff in I. destruct I as [e [E1 E2]]. eauto.
      + right. assert (Ne : map tr_block (db_transfers db) <> []) by (intros E; rewrite E in Enew; cbn in Enew; congruence).
        pose proof (last_In _ 0 Ne) as I. rewrite Enew in I. apply in_map_iff in I. destruct I as [e [E1 E2]]. eauto.
    - set (start := if num_of best <=? num_of (newest_block_id db) then num_of best - 1 else num_of (newest_block_id db)) in *.
      assert (Hstart : start <= num_of best - 1).
      { unfold start. destruct (N.leb_spec (num_of best) (num_of (newest_block_id db))); lia. }
      destruct (anc_total g gp r W best Sb start ltac:(lia)) as [h0 [A0 E0]].
      replace (get_block_id r best start) with (Ok h0) in H by (symmetry; apply (get_block_id_spec g gp r W); auto).
      destruct (seek_walk_spec g gp r W WB x st_x db Px Hdb (S (N.to_nat (num_of h0))) h0 p A0 (Nat.lt_succ_diag_r _) H) as [h' [A1 [A2 [A3 A4]]]].
      exists h'. auto.
  Qed.

  (* on canonical tables the verification pass of syncLogDB never fails (chains shorter than 2^28 - 100 blocks) *)
  Theorem sync_verify_no_false_alarm v : num_of best + log_step <= max_block -> sync_logdb_v v r db = sync_logdb r db.
  Proof.
    intros Hmax. unfold sync_logdb_v. destruct (seek_position r db) as [p| |] eqn:E; try (unfold sync_logdb; rewrite E; reflexivity).
    destruct v; [|reflexivity]. cbn [andb]. destruct (N.ltb_spec 0 p) as [Hp|Hp]; [|reflexivity]. cbn [andb].
    destruct (seek_position_common p E Hp) as [h [Hin [Ha ->]]].
    pose proof (anc_height g gp r W _ _ Ha) as Hh. fold best in Hh.
    rewrite (verify_accepts_common_prefix g gp r W WB x st_x db Px Hdb h Hin Ha ltac:(lia) (num_of h + 1 - 1) ltac:(lia)). reflexivity.
  Qed.
End SyncVerify.
