(* Properties/C20.v — C20: concurrent readers see a complete best block; finalized never goes backwards;
   read-only operations never write. The importer is a list of steps (atomic store writes, publication of the in-memory
   best / finalized pointers).  Crash/ProofsInterleave.v gives the interleaving semantics: a trace of importer events and
   reader events (pointers loaded, operation, answer); "every interleaving is a prefix of the importer's steps" is the lemma
   interleaving_is_prefix, and the completeness clause is stated over every trace (every_trace_reader_sees_complete),
   including a reader that loads the pointer first and reads the data later.  [queries_are_pure] is DEFINITIONAL in this
   model (the model of a read-only operation has no write to issue); the byte-for-byte clause is carried by the harness. *)
From Coq Require Import List NArith Bool.
From Verif Require Import Crash.Model Crash.ProofsStore Crash.ProofsInv Crash.ProofsImport Crash.ProofsCrash
  Crash.ProofsReaders Crash.ProofsInterleave Crash.ExamplesInterleave Crash.ProofsEqv Crash.ProofsShape Crash.ProofsResumeAll Crash.ProofsFinalized Crash.Examples Crash.ProofsResume.
Import ListNotations.
Open Scope N_scope.

(* whatever block is published as best (and as finalized) after ANY number of importer steps of ANY history is complete in
   the store at that moment: summary, every transaction and receipt, every index node (GetBlockID of every number), every
   state node, every ancestor *)
Theorem visible_implies_complete c s0 hist k :
  wf_cfg c -> Inv c s0 -> wf_hist c s0 hist ->
  forall b0 f0, stored s0 b0 = true -> stored s0 f0 = true ->
  let y := do_steps (mkSys s0 b0 f0) (firstn k (steps_of c s0 hist)) in
  readable (y_store y) (y_best y) = true /\ readable (y_store y) (y_fin y) = true.
Proof. exact (ProofsReaders.visible_implies_complete c s0 hist k). Qed.

(* every step of every import keeps the invariant and every stored block, and publishes only stored blocks *)
Theorem import_steps_are_good c s b : wf_cfg c -> Inv c s -> wf_blk s b -> good_steps c s (import_steps c s b).
Proof. exact (import_good_steps c s b). Qed.

(* the model of every read-only operation issues no store write and leaves the system state unchanged — definitional
   (query_steps returns no step); used by interleaving_is_prefix; not a statement about the real handlers *)
Theorem queries_are_pure c y q :
  writes_of_steps (fst (query_steps c y q)) = [] /\ do_steps y (fst (query_steps c y q)) = y.
Proof. exact (ProofsReaders.queries_are_pure c y q). Qed.

(* ---- interleavings.  [exec c y todo tr y' todo']: from system state y with the importer's remaining steps todo, the trace
   tr (importer events in order, reader events anywhere) leads to y' with todo' remaining. *)
Theorem interleaving_is_prefix c y todo tr y' todo' : exec c y todo tr y' todo' ->
  exists k, y' = do_steps y (firstn k todo) /\ todo' = skipn k todo.
Proof. exact (ProofsInterleave.interleaving_is_prefix c y todo tr y' todo'). Qed.

Theorem prefix_is_interleaving c y todo k : exec c y todo (map EImp (firstn k todo)) (do_steps y (firstn k todo)) (skipn k todo).
Proof. exact (ProofsInterleave.prefix_is_interleaving c y todo k). Qed.

(* for every history and EVERY trace: the block any reader observed as best (resp. finalized) at any point of the trace is
   complete in the store at the END of the trace — whether the trace stops right at the observation (atomic observe + read)
   or goes on with further importer writes and reader events (the reader resolves the block's data later) *)
Theorem every_trace_reader_sees_complete c s0 hist b0 f0 tr1 q b f a tr2 y' todo' :
  wf_cfg c -> Inv c s0 -> wf_hist c s0 hist -> stored s0 b0 = true -> stored s0 f0 = true ->
  exec c (mkSys s0 b0 f0) (steps_of c s0 hist) (tr1 ++ ERead q b f a :: tr2) y' todo' ->
  readable (y_store y') b = true /\ readable (y_store y') f = true.
Proof. exact (ProofsInterleave.every_trace_reader_sees_complete c s0 hist b0 f0 tr1 q b f a tr2 y' todo'). Qed.

(* the same on prefixes: a pointer observed after k1 importer steps names a block complete after any k2 >= k1 steps *)
Theorem observed_block_stays_complete c s0 hist k1 k2 :
  wf_cfg c -> Inv c s0 -> wf_hist c s0 hist -> (k1 <= k2)%nat ->
  forall b0 f0, stored s0 b0 = true -> stored s0 f0 = true ->
  let y1 := do_steps (mkSys s0 b0 f0) (firstn k1 (steps_of c s0 hist)) in
  let y2 := do_steps (mkSys s0 b0 f0) (firstn k2 (steps_of c s0 hist)) in
  readable (y_store y2) (y_best y1) = true /\ readable (y_store y2) (y_fin y1) = true.
Proof. exact (ProofsInterleave.observed_block_stays_complete c s0 hist k1 k2). Qed.

(* the state a trace ends in is the state of the same trace without its reader events *)
Theorem readers_do_not_change_the_state c y todo tr y' todo' : exec c y todo tr y' todo' ->
  exec c y todo (filter (fun e => match e with EImp _ => true | ERead _ _ _ _ => false end) tr) y' todo'.
Proof. exact (ProofsInterleave.readers_do_not_change_the_state c y todo tr y' todo'). Qed.

(* non-vacuity: a trace of the example history with a reader between the block bulk of block 1 and its publication (it still
   observes genesis as best), one right after the publication (block 1) and ten more importer steps *)
Example a_trace_with_readers :
  let l := steps_of ex_cfg ex_s0 ex_hist in
  let y0 := mkSys ex_s0 (bid 0 7) (bid 0 7) in
  exists y' todo',
    exec ex_cfg y0 l (map EImp (firstn 3 l) ++ ERead QBest (bid 0 7) (bid 0 7) (ANum (bid 0 7)) ::
                      map EImp (firstn 1 (skipn 3 l)) ++ ERead (QBlock (bid 1 1)) (bid 1 1) (bid 0 7) (ABool true) ::
                      map EImp (firstn 10 (skipn 4 l))) y' todo' /\
    nth_error l 3 = Some (SPubBest (bid 1 1)) /\ y_best y' = bid 3 3.
Proof. exact ex_trace. Qed.

(* successive finalized observations are ancestor-ordered: for every history and any two points k1 <= k2 of any interleaving,
   the finalized block a reader observes at the later point is the earlier one or a descendant of it (resolved in the store
   of the later point) *)
Theorem finalized_observations_monotone c s0 hist b0 k1 k2 :
  wf_cfg c -> Inv c s0 -> wf_hist c s0 hist -> (k1 <= k2)%nat ->
  let y0 := mkSys s0 b0 (finalized c s0) in
  let y1 := do_steps y0 (firstn k1 (steps_of c s0 hist)) in
  let y2 := do_steps y0 (firstn k2 (steps_of c s0 hist)) in
  anc (y_store y2) (y_fin y2) (num_of (y_fin y1)) = Some (y_fin y1).
Proof. exact (ProofsFinalized.finalized_observations_monotone c s0 hist b0 k1 k2). Qed.

(* the stored finalized record after any number of further imports names the old finalized block or a descendant *)
Theorem finalized_monotone c s0 l1 l2 : wf_cfg c -> Inv c s0 -> wf_hist c s0 (l1 ++ l2) ->
  let s1 := run c s0 l1 in let s2 := run c s0 (l1 ++ l2) in
  anc s2 (finalized c s2) (num_of (finalized c s1)) = Some (finalized c s1).
Proof. exact (ProofsFinalized.finalized_monotone c s0 l1 l2). Qed.

(* non-vacuity of the monotonicity: in the example the finalized block does move (genesis -> block 2 -> block 4) *)
Example finalized_moves_in_example :
  finalized ex_cfg ex_s0 = bid 0 7 /\ finalized ex_cfg (run ex_cfg ex_s0 (firstn 5 ex_hist)) = bid 2 2 /\
  finalized ex_cfg (run ex_cfg ex_s0 ex_hist) = bid 4 4.
Proof. exact ex_finalized_moves. Qed.

Example hypotheses_met : wf_cfg ex_cfg /\ Inv ex_cfg ex_s0 /\ wf_hist ex_cfg ex_s0 ex_hist /\ stored ex_s0 (c_g ex_cfg) = true.
Proof. exact (conj ex_wf_cfg (conj ex_inv0 (conj ex_wf_hist eq_refl))). Qed.

Print Assumptions visible_implies_complete.
Print Assumptions import_steps_are_good.
Print Assumptions queries_are_pure.
Print Assumptions interleaving_is_prefix.
Print Assumptions prefix_is_interleaving.
Print Assumptions every_trace_reader_sees_complete.
Print Assumptions observed_block_stays_complete.
Print Assumptions readers_do_not_change_the_state.
Print Assumptions a_trace_with_readers.
Print Assumptions finalized_observations_monotone.
Print Assumptions finalized_monotone.
Print Assumptions finalized_moves_in_example.
Print Assumptions hypotheses_met.
