(* Properties/C20.v — C20: concurrent readers see a complete best block; finalized never goes backwards;
   read-only operations never write. The importer is a list of steps (atomic store writes, publication of the in-memory
   best / finalized pointers); reader steps leave the state unchanged (queries_are_pure), so every interleaving of readers
   with the importer is a prefix of the importer's steps followed by an observation. *)
From Coq Require Import List NArith Bool.
From Verif Require Import Crash.Model Crash.ProofsStore Crash.ProofsInv Crash.ProofsImport Crash.ProofsCrash
  Crash.ProofsReaders Crash.ProofsEqv Crash.ProofsShape Crash.ProofsResumeAll Crash.ProofsFinalized Crash.Examples Crash.ProofsResume.
Import ListNotations.
Open Scope N_scope.

(* whatever block is published as best (and as finalized) after ANY number of importer steps of ANY history is complete in
   the store at that moment: summary, every transaction and receipt, every index node (GetBlockID of every number), every
   state node, every ancestor *)
Theorem visible_implies_complete c s0 hist k :
  wf_cfg c -> Inv c s0 -> wf_hist c s0 hist ->
  forall b0 f0, stored s0 b0 = true -> stored s0 f0 = true ->
  let y := do_steps (mkSys s0 b0 f0) (firstn k (steps_of c s0 hist)) in
  readable (y_store y) (y_best y) = true /\ readable (y_store y) (y_fin y) = true.
Proof. exact (ProofsReaders.visible_implies_complete c s0 hist k). Qed.

(* every step of every import keeps the invariant and every stored block, and publishes only stored blocks *)
Theorem import_steps_are_good c s b : wf_cfg c -> Inv c s -> wf_blk s b -> good_steps c s (import_steps c s b).
Proof. exact (import_good_steps c s b). Qed.

(* the model of every read-only operation issues no store write and leaves the system state unchanged *)
Theorem queries_are_pure c y q :
  writes_of_steps (fst (query_steps c y q)) = [] /\ do_steps y (fst (query_steps c y q)) = y.
Proof. exact (ProofsReaders.queries_are_pure c y q). Qed.

(* successive finalized observations are ancestor-ordered: for every history and any two points k1 <= k2 of any interleaving,
   the finalized block a reader observes at the later point is the earlier one or a descendant of it (resolved in the store
   of the later point) *)
Theorem finalized_observations_monotone c s0 hist b0 k1 k2 :
  wf_cfg c -> Inv c s0 -> wf_hist c s0 hist -> (k1 <= k2)%nat ->
  let y0 := mkSys s0 b0 (finalized c s0) in
  let y1 := do_steps y0 (firstn k1 (steps_of c s0 hist)) in
  let y2 := do_steps y0 (firstn k2 (steps_of c s0 hist)) in
  anc (y_store y2) (y_fin y2) (num_of (y_fin y1)) = Some (y_fin y1).
Proof. exact (ProofsFinalized.finalized_observations_monotone c s0 hist b0 k1 k2). Qed.

(* the stored finalized record after any number of further imports names the old finalized block or a descendant *)
Theorem finalized_monotone c s0 l1 l2 : wf_cfg c -> Inv c s0 -> wf_hist c s0 (l1 ++ l2) ->
  let s1 := run c s0 l1 in let s2 := run c s0 (l1 ++ l2) in
  anc s2 (finalized c s2) (num_of (finalized c s1)) = Some (finalized c s1).
Proof. exact (ProofsFinalized.finalized_monotone c s0 l1 l2). Qed.

(* non-vacuity of the monotonicity: in the example the finalized block does move (genesis -> block 2 -> block 4) *)
Example finalized_moves_in_example :
  finalized ex_cfg ex_s0 = bid 0 7 /\ finalized ex_cfg (run ex_cfg ex_s0 (firstn 5 ex_hist)) = bid 2 2 /\
  finalized ex_cfg (run ex_cfg ex_s0 ex_hist) = bid 4 4.
Proof. exact ex_finalized_moves. Qed.

Example hypotheses_met : wf_cfg ex_cfg /\ Inv ex_cfg ex_s0 /\ wf_hist ex_cfg ex_s0 ex_hist /\ stored ex_s0 (c_g ex_cfg) = true.
Proof. exact (conj ex_wf_cfg (conj ex_inv0 (conj ex_wf_hist eq_refl))). Qed.

Print Assumptions visible_implies_complete.
Print Assumptions import_steps_are_good.
Print Assumptions queries_are_pure.
Print Assumptions finalized_observations_monotone.
Print Assumptions finalized_monotone.
Print Assumptions finalized_moves_in_example.
Print Assumptions hypotheses_met.
