(* Properties/C20.v — C20: concurrent readers see a complete best block; finalized never goes backwards (see the note);
   read-only operations never write. The importer is a list of steps (atomic store writes, publication of the in-memory
   best / finalized pointers); reader steps leave the state unchanged (queries_are_pure), so every interleaving of readers
   with the importer is a prefix of the importer's steps followed by an observation. *)
From Coq Require Import List NArith Bool.
From Verif Require Import Crash.Model Crash.ProofsStore Crash.ProofsInv Crash.ProofsImport Crash.ProofsCrash
  Crash.ProofsReaders Crash.Examples.
Import ListNotations.
Open Scope N_scope.

(* whatever block is published as best (and as finalized) after ANY number of importer steps of ANY history is complete in
   the store at that moment: summary, every transaction and receipt, every index node (GetBlockID of every number), every
   state node, every ancestor *)
Theorem visible_implies_complete c s0 hist k :
  wf_cfg c -> Inv c s0 -> wf_hist c s0 hist ->
  forall b0 f0, stored s0 b0 = true -> stored s0 f0 = true ->
  let y := do_steps (mkSys s0 b0 f0) (firstn k (steps_of c s0 hist)) in
  readable (y_store y) (y_best y) = true /\ readable (y_store y) (y_fin y) = true.
Proof. exact (ProofsReaders.visible_implies_complete c s0 hist k). Qed.

(* every step of every import keeps the invariant and every stored block, and publishes only stored blocks *)
Theorem import_steps_are_good c s b : wf_cfg c -> Inv c s -> wf_blk s b -> good_steps c s (import_steps c s b).
Proof. exact (import_good_steps c s b). Qed.

(* the model of every read-only operation issues no store write and leaves the system state unchanged *)
Theorem queries_are_pure c y q :
  writes_of_steps (fst (query_steps c y q)) = [] /\ do_steps y (fst (query_steps c y q)) = y.
Proof. exact (ProofsReaders.queries_are_pure c y q). Qed.

(* successive finalized observations are ancestor-ordered: stated, not yet proved in the model (checked on the real
   engine by every reader at every write boundary and by the free-running readers) *)
Definition finalized_observations_monotone_statement : Prop :=
  forall c s0 hist k f0, wf_cfg c -> Inv c s0 -> wf_hist c s0 hist -> finalized c s0 = f0 ->
  let y1 := do_steps (mkSys s0 f0 f0) (firstn k (steps_of c s0 hist)) in
  let y2 := do_steps (mkSys s0 f0 f0) (firstn (S k) (steps_of c s0 hist)) in
  anc (y_store y2) (y_fin y2) (num_of (y_fin y1)) = Some (y_fin y1).

Example hypotheses_met : wf_cfg ex_cfg /\ Inv ex_cfg ex_s0 /\ wf_hist ex_cfg ex_s0 ex_hist /\ stored ex_s0 (c_g ex_cfg) = true.
Proof. exact (conj ex_wf_cfg (conj ex_inv0 (conj ex_wf_hist eq_refl))). Qed.

Print Assumptions visible_implies_complete.
Print Assumptions import_steps_are_good.
Print Assumptions queries_are_pure.
Print Assumptions hypotheses_met.
