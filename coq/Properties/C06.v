(* Properties/C06.v — statements only.  "World state is exactly the Merkle commitment of its logical content."
   Part 1 (trie): the tree trie.go builds is a function of the key/value content alone.
   V is the leaf type ((value, metadata) pairs); veqb is insert's bytes.Equal test (any sound test).
   Keys are hex keys closed by the terminator (vkey) — what keybytesToHex produces for every byte key. *)
From Coq Require Import List Arith Bool Lia.
From Verif Require Import Trie.Model Trie.Keys Trie.ProofsWf Trie.ProofsMap Trie.ProofsCanon Trie.Theorems.
Import ListNotations.

Section C06_trie.
  Variable V : Type.
  Variable veqb : V -> V -> bool.
  Hypothesis veqb_sound : forall a b, veqb a b = true -> a = b.

  (* the shape invariant (no Short under Short, no empty Short key, >= 2 children in every Full node, values
     only under the terminator) holds for the empty trie and is preserved by Update with a value or with
     the empty value (delete) *)
  Theorem trie_wf_preserved t k ov :
    wfc V t -> vkey k -> wfc V (trie_update V veqb t k ov).
  Proof. exact (update_wf_root V veqb t k ov). Qed.

  (* Get after Update is finite-map semantics, for all terminated keys (fixed-length or not) *)
  Theorem trie_refines_map t k ov k' :
    wfc V t -> vkey k -> vkey k' ->
    trie_get V (trie_update V veqb t k ov) k' = if vkey_eq_dec k k' then ov else trie_get V t k'.
  Proof. exact (get_update V veqb veqb_sound t k ov k'). Qed.

  (* two well-formed tries with the same content are the same tree *)
  Theorem trie_canonical t1 t2 :
    wfc V t1 -> wfc V t2 -> (forall k, vkey k -> trie_get V t1 k = trie_get V t2 k) -> t1 = t2.
  Proof. exact (canonical_get V t1 t2). Qed.

  (* any two operation histories (any order, any repeated, overwritten or undone work) that denote the same
     plain map produce the same tree; hence every function of the tree — in particular the Merkle root
     H (encode t) for whatever hash H — agrees *)
  Theorem root_depends_only_on_content (R : Type) (root : node V -> R) ops1 ops2 :
    valid_ops V ops1 -> valid_ops V ops2 ->
    (forall k, vkey k -> denote V ops1 (fun _ => None) k = denote V ops2 (fun _ => None) k) ->
    root (run V veqb ops1 Nil) = root (run V veqb ops2 Nil).
  Proof.
    intros V1 V2 Heq. f_equal.
    apply (run_canonical V veqb veqb_sound ops1 ops2 Nil Nil); auto; try (left; reflexivity).
  Qed.

  (* reading a whole history back: last write wins *)
  Theorem trie_history_refines_map ops k' :
    valid_ops V ops -> vkey k' ->
    trie_get V (run V veqb ops Nil) k' = denote V ops (fun _ => None) k'.
  Proof.
    intros Hv Hk. rewrite (run_refines_map V veqb veqb_sound ops Nil k'); auto. left; reflexivity.
  Qed.

  (* metadata does not reach the tree shape: forgetting it commutes with reading (the consensus encoding of a
     value node is its value alone, node.go valueNode.encodeConsensus) *)
End C06_trie.

(* ---- non-vacuity: concrete keys / histories meeting the hypotheses ---- *)
Example vkey_example : vkey (terminate [1; 2; 10]) /\ vkey (terminate [1; 2]) /\ vkey (terminate []).
Proof. repeat split; apply vkey_terminate; repeat constructor. Qed.

Definition ex_ops1 : list (op nat) :=
  [(terminate [1; 2; 3], Some 7); (terminate [1; 2; 4], Some 8); (terminate [1; 2], Some 9); (terminate [1; 2; 3], None)].
Definition ex_ops2 : list (op nat) :=
  [(terminate [1; 2], Some 1); (terminate [1; 2; 4], Some 8); (terminate [1; 2], Some 9)].

Example ops_valid : valid_ops nat ex_ops1 /\ valid_ops nat ex_ops2.
Proof. split; repeat constructor. Qed.

(* the two histories differ as lists, denote the same map, and indeed build the same non-trivial tree *)
Example ops_same_tree :
  run nat Nat.eqb ex_ops1 Nil = run nat Nat.eqb ex_ops2 Nil /\
  run nat Nat.eqb ex_ops1 Nil =
    Short [1; 2] (Full [Nil; Nil; Nil; Nil; Short [16] (Value 8); Nil; Nil; Nil; Nil; Nil; Nil; Nil; Nil; Nil; Nil; Nil; Value 9]).
Proof. split; vm_compute; reflexivity. Qed.

Print Assumptions trie_wf_preserved.
Print Assumptions trie_refines_map.
Print Assumptions trie_canonical.
Print Assumptions root_depends_only_on_content.
Print Assumptions trie_history_refines_map.
