(* Properties/C06.v — statements only.  "World state is exactly the Merkle commitment of its logical content."
   Part 1 (trie): the tree trie.go builds is a function of the key/value content alone.
   V is the leaf type ((value, metadata) pairs); veqb is insert's bytes.Equal test (any sound test).
   Keys are hex keys closed by the terminator (vkey) — what keybytesToHex produces for every byte key. *)
From Coq Require Import List Arith Bool Lia.
From Coq Require Import NArith.
From Verif Require Import Trie.Model Trie.Keys Trie.ProofsWf Trie.ProofsMap Trie.ProofsCanon Trie.Theorems Trie.ProofsProj.
From Verif Require Import State.StackedMap State.ProofsSM State.Model State.ProofsStage State.ProofsState State.ProofsJournal State.ProofsReplay State.ProofsCommit State.ExamplesContent.
Import ListNotations.

Section C06_trie.
  Variable V : Type.
  Variable veqb : V -> V -> bool.
  Hypothesis veqb_sound : forall a b, veqb a b = true -> a = b.

  (* the shape invariant (no Short under Short, no empty Short key, >= 2 children in every Full node, values
     only under the terminator) holds for the empty trie and is preserved by Update with a value or with
     the empty value (delete) *)
  Theorem trie_wf_preserved t k ov :
    wfc V t -> vkey k -> wfc V (trie_update V veqb t k ov).
  Proof. exact (update_wf_root V veqb t k ov). Qed.

  (* Get after Update is finite-map semantics, for all terminated keys (fixed-length or not) *)
  Theorem trie_refines_map t k ov k' :
    wfc V t -> vkey k -> vkey k' ->
    trie_get V (trie_update V veqb t k ov) k' = if vkey_eq_dec k k' then ov else trie_get V t k'.
  Proof. exact (get_update V veqb veqb_sound t k ov k'). Qed.

  (* two well-formed tries with the same content are the same tree *)
  Theorem trie_canonical t1 t2 :
    wfc V t1 -> wfc V t2 -> (forall k, vkey k -> trie_get V t1 k = trie_get V t2 k) -> t1 = t2.
  Proof. exact (canonical_get V t1 t2). Qed.

  (* any two operation histories (any order, any repeated, overwritten or undone work) that denote the same
     plain map produce the same tree; hence every function of the tree — in particular the Merkle root
     H (encode t) for whatever hash H — agrees *)
  Theorem root_depends_only_on_content (R : Type) (root : node V -> R) ops1 ops2 :
    valid_ops V ops1 -> valid_ops V ops2 ->
    (forall k, vkey k -> denote V ops1 (fun _ => None) k = denote V ops2 (fun _ => None) k) ->
    root (run V veqb ops1 Nil) = root (run V veqb ops2 Nil).
  Proof.
    intros V1 V2 Heq. f_equal.
    apply (run_canonical V veqb veqb_sound ops1 ops2 Nil Nil); auto; try (left; reflexivity).
  Qed.

  (* reading a whole history back: last write wins *)
  Theorem trie_history_refines_map ops k' :
    valid_ops V ops -> vkey k' ->
    trie_get V (run V veqb ops Nil) k' = denote V ops (fun _ => None) k'.
  Proof.
    intros Hv Hk. rewrite (run_refines_map V veqb veqb_sound ops Nil k'); auto. left; reflexivity.
  Qed.

End C06_trie.

(* metadata does not reach the root: the consensus encoding of a value node is its value alone (node.go
   valueNode.encodeConsensus), so the root is a function of the tree with the leaves projected (map_node f; f = fst drops
   the metadata).  The projection keeps the shape invariant and commutes with Get; hence two well-formed tries whose
   contents agree after the projection have the same projected tree, whatever their metadata. *)
Section C06_projection.
  Variables A B : Type.
  Variable f : A -> B.

  Theorem projection_keeps_wf t : wfc A t -> wfc B (map_node f t).
  Proof. exact (map_node_wfc A B f t). Qed.

  Theorem projection_commutes_with_get t k : trie_get B (map_node f t) k = option_map f (trie_get A t k).
  Proof. exact (trie_get_map_node A B f t k). Qed.

  Theorem root_ignores_metadata (R : Type) (root : node B -> R) t1 t2 :
    wfc A t1 -> wfc A t2 ->
    (forall k, vkey k -> option_map f (trie_get A t1 k) = option_map f (trie_get A t2 k)) ->
    root (map_node f t1) = root (map_node f t2).
  Proof. intros H1 H2 H. f_equal. exact (canonical_projection A B f t1 t2 H1 H2 H). Qed.
End C06_projection.

(* Part 2 (journal / revisions): the stacked map with its per-key revision stacks (stackedmap.go) behaves as a
   plain stack of maps, and PopTo restores precisely the earlier contents.  K, Vv are the key/value types
   (state.go: addresses, code keys, storage keys with barrier, barrier keys); src is the getter of the base. *)
Section C06_stackedmap.
  Variables K Vv : Type.
  Variable keqb : K -> K -> bool.
  Hypothesis keqb_spec : forall a b, keqb a b = true <-> a = b.
  Variable src : K -> Vv.

  (* Get after any history of Push / Put / PopTo(d >= 1) from a fresh map equals lookup in the plain stack of
     maps the same history denotes: the topmost level holding the key, else the source *)
  Theorem stackedmap_refines_stack_of_maps (ops : list (smop K Vv)) k :
    pops_ok K Vv ops ->
    sm_get K Vv keqb src (sm_run K Vv keqb ops (sm_new K Vv)) k =
    aget K Vv keqb src (a_run K Vv keqb ops [new_level K Vv]) k.
  Proof. exact (stackedmap_refines_lemma K Vv keqb keqb_spec src ops k). Qed.

  (* RevertTo(NewCheckpoint()) after any operations — puts, nested checkpoints, reverts to revisions above the
     checkpoint — reads exactly as before the checkpoint, for every key *)
  Theorem revert_restores (sm : StackedMap.smap K Vv) (ops : list (smop K Vv)) k :
    inv K Vv keqb sm -> above K Vv (length (stack sm)) ops ->
    sm_get K Vv keqb src (sm_pop_to K Vv keqb (snd (sm_push K Vv sm)) (sm_run K Vv keqb ops (fst (sm_push K Vv sm)))) k =
    sm_get K Vv keqb src sm k.
  Proof. exact (revert_restores_lemma K Vv keqb keqb_spec src sm ops k). Qed.

  (* the invariant is established by New and kept by every operation, so it holds in every reachable map *)
  Theorem stackedmap_inv_reachable (ops : list (smop K Vv)) :
    pops_ok K Vv ops -> inv K Vv keqb (sm_run K Vv keqb ops (sm_new K Vv)).
  Proof. intros P. exact (proj1 (run_refines K Vv keqb keqb_spec ops (sm_new K Vv) (inv_new K Vv keqb) P)) || exact (proj1 (run_refines K Vv keqb keqb_spec src ops (sm_new K Vv) (inv_new K Vv keqb) P)). Qed.
End C06_stackedmap.

(* Part 3 (state layer, State/Model.v): state.State over the stacked map and the tries. *)
Section C06_state.
  Variable hk hs : N -> list nat.                      (* secure keys (Blake2b) of addresses / storage keys, as hex keys *)
  Variable trimkey : N -> bytes.
  Hypothesis hk_valid : forall a, vkey (hk a).
  Hypothesis hk_inj : forall a b, hk a = hk b -> a = b.
  Hypothesis hs_valid : forall k, vkey (hs k).
  Hypothesis hs_inj : forall a b, hs a = hs b -> a = b.

  (* state_refines_map: after ANY history of SetBalance / SetEnergy / SetMaster / SetCode / SetStorage / SetRawStorage /
     Delete (storage barrier) / NewCheckpoint / RevertTo(n >= 1) on a state opened on any base, the account record,
     the code and every raw storage slot read what the plain record map `a_step` computes for the same history
     (setters update the top snapshot, Delete empties account, code and storage, NewCheckpoint copies the top,
     RevertTo(n) keeps the first n snapshots).  Balance, energy, master, code hash, Exists are fields of the record. *)
  Theorem state_refines_map base codes ops :
    Forall state_op ops ->
    let s := run_state hk hs ops (open base codes) in
    let x := last (run_abs ops [abs0 hk hs base codes]) dflt in
    forall a,
      get_account hk hs s a = x_acc x a /\
      get_code hk hs s a = x_code x a /\
      forall k, get_raw_storage hk hs s a k = x_stor x a k.
  Proof. exact (state_refines_map_lemma hk hs base codes ops). Qed.

  (* the driver of the correspondence run executes exactly these steps on its current state *)
  Theorem world_runs_state_ops ops w :
    Forall state_op ops -> w_cur (fold_left (step hk hs trimkey) ops w) = run_state hk hs ops (w_cur w).
  Proof. intros H. exact (world_run_cur hk hs trimkey ops w H). Qed.

  Theorem stage_wf_preserved s major minor :
    wfc aleaf (st_base s) -> wfc aleaf (stage hk hs trimkey s major minor).
  Proof. exact (stage_wf hk hs trimkey hk_valid s major minor). Qed.

  (* stage_root_canonical: the staged accounts trie is THE canonical trie of its content: any well-formed trie
     with the same leaves is the same tree, so the root is a function of the staged content alone ... *)
  Theorem stage_root_canonical s major minor t :
    wfc aleaf (st_base s) -> wfc aleaf t ->
    (forall k, vkey k -> trie_get aleaf t k = trie_get aleaf (stage hk hs trimkey s major minor) k) ->
    t = stage hk hs trimkey s major minor.
  Proof. exact (stage_canonical hk hs trimkey hk_valid s major minor t). Qed.

  (* ... and that content is what reopen_reads_back states (there is no `normalise` function in Coq; the normal form is
     spelled out in the theorem) — reopen_reads_back: for every state reached by state operations from a
     legal base (well-formed tries, no empty account stored; Nil is one, and Stage re-establishes it), the state
     re-opened on the committed root reads, for every address: the empty account with empty storage if the account
     is empty at Stage (empty accounts are dropped with their storage: account.go IsEmpty/saveAccount), and otherwise
     the same balance, energy, block time, master and code hash and the same raw value in every storage slot
     (the storage root is the new storage trie; it is explicit whenever storage was written). *)
  Theorem reopen_reads_back base codes ops major minor a :
    base_ok hk base -> Forall state_op ops ->
    let s := run_state hk hs ops (open base codes) in
    let s' := commit_reopen hk hs trimkey s major minor in
    let x := get_account hk hs s a in
    let y := get_account hk hs s' a in
    (is_empty x = true -> y = empty_account /\ forall k, get_raw_storage hk hs s' a k = []) /\
    (is_empty x = false -> same_fields y x /\ forall k, get_raw_storage hk hs s' a k = get_raw_storage hk hs s a k).
  Proof.
    intros Hb Hops.
    destruct (reachable_invs hk hs base codes ops Hops) as [A [B [C D]]].
    apply (reopen_reads_back_lemma hk hs trimkey hk_valid hk_inj hs_valid hs_inj _ major minor A B C).
    rewrite D. exact Hb.
  Qed.

  (* the state root is computed from the consensus view (State/Model.v cview: account fields and the consensus view of
     the storage trie; StorageID / versions / key preimages are metadata): two well-formed accounts tries — e.g. two
     staged tries — whose leaves agree in the consensus view have the same consensus view, hence the same root for any
     root function, even when their metadata differ (Example stage_order_changes_metadata_only: the order of the first
     storage writes of two accounts changes the StorageIDs and leaves the consensus view alone) *)
  Theorem stage_root_ignores_metadata (R : Type) (root : node caccount -> R) (t1 t2 : atrie) :
    wfc aleaf t1 -> wfc aleaf t2 ->
    (forall k, vkey k -> option_map cview_leaf (trie_get aleaf t1 k) = option_map cview_leaf (trie_get aleaf t2 k)) ->
    root (cview t1) = root (cview t2).
  Proof. intros H1 H2 H. f_equal. exact (canonical_projection aleaf caccount cview_leaf t1 t2 H1 H2 H). Qed.

  (* the explicit storage root: for an account that is not empty at Stage, the committed leaf names a storage trie
     whenever a storage slot of the account was written in this block under its current barrier — even if every written
     value is empty, in which case the named trie may be the empty one (Example explicit_empty_storage_root) — and
     otherwise exactly when the account record named one already; a named storage trie is well formed and holds exactly
     the account's storage as the state reads it *)
  Theorem staged_storage_root base codes ops major minor a :
    base_ok hk base -> Forall state_op ops ->
    let s := run_state hk hs ops (open base codes) in
    let s' := commit_reopen hk hs trimkey s major minor in
    let x := get_account hk hs s a in
    let y := get_account hk hs s' a in
    is_empty x = false ->
    (stor_written s a -> exists st, a_sroot y = Some st) /\
    (~ stor_written s a -> a_sroot y = a_sroot x) /\
    (forall st, a_sroot y = Some st ->
       wfc sleaf st /\ forall k, raw_of (trie_get sleaf st (hs k)) = get_raw_storage hk hs s a k).
  Proof.
    intros Hb Hops.
    destruct (reachable_invs hk hs base codes ops Hops) as [A [B [C D]]].
    apply (staged_sroot_lemma hk hs trimkey hk_valid hk_inj hs_valid hs_inj _ major minor A B C).
    rewrite D. exact Hb.
  Qed.

  (* state_root_depends_only_on_content: two histories of state operations on the same legal base holding secure keys
     only (the parent block's state; Nil is one, and Stage re-establishes both premises: stage_reestablishes_base,
     stage_keeps_secure_base) that end with the same logical content — for every address the same balance, energy, block
     time, master and code hash and the same raw value in every storage slot — and whose committed leaves name a storage
     trie for the same addresses (by staged_storage_root that is: storage written in the block under the current barrier,
     or a root carried over; it is part of the content because the code makes the root explicit, possibly empty, on a
     write) commit to the same consensus view of the accounts trie, hence to the same state root for any root function:
     whatever the order of the operations, whatever was overwritten, reverted, or deleted and re-created on the way, and
     whatever the two versions.  StorageIDs and versions do depend on order and version: they are metadata. *)
  Theorem state_root_depends_only_on_content (R : Type) (root : node caccount -> R) base codes ops1 ops2 ma1 mi1 ma2 mi2 :
    base_ok hk base -> secure_base hk hs base -> Forall state_op ops1 -> Forall state_op ops2 ->
    let s1 := run_state hk hs ops1 (open base codes) in
    let s2 := run_state hk hs ops2 (open base codes) in
    (forall a, same_fields (get_account hk hs s1 a) (get_account hk hs s2 a) /\
               (forall k, get_raw_storage hk hs s1 a k = get_raw_storage hk hs s2 a k) /\
               (a_sroot (get_account hk hs (commit_reopen hk hs trimkey s1 ma1 mi1) a) = None <->
                a_sroot (get_account hk hs (commit_reopen hk hs trimkey s2 ma2 mi2) a) = None)) ->
    root (cview (stage hk hs trimkey s1 ma1 mi1)) = root (cview (stage hk hs trimkey s2 ma2 mi2)).
  Proof.
    intros Hb Hsec H1 H2 s1 s2 Hc. f_equal.
    exact (state_root_content_lemma hk hs trimkey hk_valid hk_inj hs_valid hs_inj base codes ops1 ops2 ma1 mi1 ma2 mi2 Hb Hsec H1 H2 Hc).
  Qed.

  (* the same with the flag stated on the states BEFORE Stage (named_storage: the account is not empty and a slot was
     written in the block under the current barrier, or the record names a storage trie already); named_storage_flag is
     the equivalence with the committed leaf.  Both histories start from the same base and code store by design: the
     statement is about one block built on one parent state. *)
  Theorem named_storage_flag base codes ops major minor a :
    base_ok hk base -> Forall state_op ops ->
    let s := run_state hk hs ops (open base codes) in
    a_sroot (get_account hk hs (commit_reopen hk hs trimkey s major minor) a) = None <-> ~ named_storage hk hs s a.
  Proof.
    intros Hb Hops.
    destruct (reachable_invs hk hs base codes ops Hops) as [A [B [C D]]].
    apply (named_storage_spec hk hs trimkey hk_valid hk_inj hs_valid hs_inj _ major minor A B C). rewrite D. exact Hb.
  Qed.

  Theorem state_root_depends_only_on_content_pre (R : Type) (root : node caccount -> R) base codes ops1 ops2 ma1 mi1 ma2 mi2 :
    base_ok hk base -> secure_base hk hs base -> Forall state_op ops1 -> Forall state_op ops2 ->
    let s1 := run_state hk hs ops1 (open base codes) in
    let s2 := run_state hk hs ops2 (open base codes) in
    (forall a, same_fields (get_account hk hs s1 a) (get_account hk hs s2 a) /\
               (forall k, get_raw_storage hk hs s1 a k = get_raw_storage hk hs s2 a k) /\
               (named_storage hk hs s1 a <-> named_storage hk hs s2 a)) ->
    root (cview (stage hk hs trimkey s1 ma1 mi1)) = root (cview (stage hk hs trimkey s2 ma2 mi2)).
  Proof.
    intros Hb Hsec H1 H2 s1 s2 Hc. f_equal.
    exact (state_root_content_pre_lemma hk hs trimkey hk_valid hk_inj hs_valid hs_inj base codes ops1 ops2 ma1 mi1 ma2 mi2 Hb Hsec H1 H2 Hc).
  Qed.

  (* stage_root_ignores_metadata at staged tries (any two states on well-formed bases, any versions) *)
  Theorem staged_roots_ignore_metadata (R : Type) (root : node caccount -> R) s1 s2 ma1 mi1 ma2 mi2 :
    wfc aleaf (st_base s1) -> wfc aleaf (st_base s2) ->
    (forall k, vkey k -> option_map cview_leaf (trie_get aleaf (stage hk hs trimkey s1 ma1 mi1) k) =
                         option_map cview_leaf (trie_get aleaf (stage hk hs trimkey s2 ma2 mi2) k)) ->
    root (cview (stage hk hs trimkey s1 ma1 mi1)) = root (cview (stage hk hs trimkey s2 ma2 mi2)).
  Proof.
    intros W1 W2 H. apply stage_root_ignores_metadata; auto; apply (stage_wf hk hs trimkey hk_valid); auto.
  Qed.

  (* the staged trie holds secure keys only and its storage tries no empty value: `secure_base` is inductive over chains *)
  Theorem stage_keeps_secure_base base codes ops major minor :
    base_ok hk base -> secure_base hk hs base -> Forall state_op ops ->
    secure_base hk hs (stage hk hs trimkey (run_state hk hs ops (open base codes)) major minor).
  Proof.
    intros Hb Hsec Hops.
    destruct (reachable_invs hk hs base codes ops Hops) as [A [B [C D]]].
    apply (stage_secure hk hs trimkey hk_valid hk_inj hs_valid _ major minor A B C); rewrite D; auto.
  Qed.

  (* the committed trie is a legal base again, so the two theorems above apply along whole chains of blocks *)
  Theorem stage_reestablishes_base base codes ops major minor :
    base_ok hk base -> Forall state_op ops ->
    base_ok hk (stage hk hs trimkey (run_state hk hs ops (open base codes)) major minor).
  Proof.
    intros Hb Hops.
    destruct (reachable_invs hk hs base codes ops Hops) as [A [B [C D]]].
    apply (stage_base_ok hk hs trimkey hk_valid hk_inj hs_valid _ major minor A B C).
    rewrite D. exact Hb.
  Qed.
End C06_state.

(* ---- non-vacuity: concrete keys / histories meeting the hypotheses ---- *)
Open Scope nat_scope.
Example vkey_example : vkey (terminate [1; 2; 10]) /\ vkey (terminate [1; 2]) /\ vkey (terminate []).
Proof. repeat split; apply vkey_terminate; repeat constructor. Qed.

Definition ex_ops1 : list (Theorems.op nat) :=
  [(terminate [1; 2; 3], Some 7); (terminate [1; 2; 4], Some 8); (terminate [1; 2], Some 9); (terminate [1; 2; 3], None)].
Definition ex_ops2 : list (Theorems.op nat) :=
  [(terminate [1; 2], Some 1); (terminate [1; 2; 4], Some 8); (terminate [1; 2], Some 9)].

Example sm_history_ok :
  pops_ok nat nat [SPut nat nat 1 10; SPush nat nat; SPut nat nat 1 11; SPush nat nat; SPut nat nat 2 5; SPopTo nat nat 2; SPopTo nat nat 1] /\
  above nat nat 1 [SPut nat nat 1 11; SPush nat nat; SPut nat nat 2 5; SPopTo nat nat 2] /\
  inv nat nat Nat.eqb (sm_new nat nat).
Proof. repeat split; repeat constructor; auto; try discriminate. Qed.

Example hk_example : vkey (terminate [3; 15; 0; 7]) /\ wfc aleaf Nil /\ (forall hk, base_ok hk Nil) /\
  Forall state_op [OBal 1%N 5%N; OCp; OSto 1%N 2%N [7%N]; ODel 1%N; ORev 1%nat; ORaw 1%N 2%N [1%N]].
Proof.
  split; [apply vkey_terminate; repeat constructor|]. split; [left; reflexivity|]. split; [intros; apply base_ok_nil|].
  repeat constructor.
Qed.

(* the key hypotheses are satisfiable (the real instance is keybytesToHex (Blake2b x): valid for every byte string,
   see Trie/DeriveRoot.v key_of_bytes_valid; injectivity is collision-freeness of Blake2b) *)
Example key_hyps_example :
  let hk := fun a : N => terminate (repeat 1 (N.to_nat a)) in
  (forall a, vkey (hk a)) /\ (forall a b, hk a = hk b -> a = b).
Proof.
  split.
  - intros a. apply vkey_terminate. unfold nibs. induction (N.to_nat a); cbn; constructor; auto; lia.
  - intros a b E. unfold terminate in E. apply app_inv_tail in E.
    apply (f_equal (@length nat)) in E. rewrite !repeat_length in E. apply N2Nat.inj; auto.
Qed.

Example ops_valid : valid_ops nat ex_ops1 /\ valid_ops nat ex_ops2.
Proof. split; repeat constructor. Qed.

(* the two histories differ as lists, denote the same map, and indeed build the same non-trivial tree *)
Example ops_same_tree :
  run nat Nat.eqb ex_ops1 Nil = run nat Nat.eqb ex_ops2 Nil /\
  run nat Nat.eqb ex_ops1 Nil =
    Short [1; 2] (Full [Nil; Nil; Nil; Nil; Short [16] (Value 8); Nil; Nil; Nil; Nil; Nil; Nil; Nil; Nil; Nil; Nil; Nil; Value 9]).
Proof. split; vm_compute; reflexivity. Qed.

(* concrete keys and histories for the state examples (State/ExamplesContent.v): unary secure keys, the same two accounts and
   storage slots written in two orders on the empty state; the premises of state_root_depends_only_on_content hold for them *)
Example state_content_premises :
  (forall a, vkey (xhk a)) /\ (forall a b, xhk a = xhk b -> a = b) /\ (forall k, vkey (xhs k)) /\ (forall a b, xhs a = xhs b -> a = b) /\
  base_ok xhk Nil /\ secure_base xhk xhs Nil /\ Forall state_op xops1 /\ Forall state_op xops2 /\
  forall a,
    same_fields (get_account xhk xhs xst1 a) (get_account xhk xhs xst2 a) /\
    (forall k, get_raw_storage xhk xhs xst1 a k = get_raw_storage xhk xhs xst2 a k) /\
    (a_sroot (get_account xhk xhs (commit_reopen xhk xhs xtrim xst1 1%N 0%N) a) = None <->
     a_sroot (get_account xhk xhs (commit_reopen xhk xhs xtrim xst2 1%N 0%N) a) = None).
Proof.
  split; [exact xhk_valid|]. split; [exact xhk_inj|]. split; [exact xhs_valid|]. split; [exact xhs_inj|].
  split; [apply base_ok_nil|]. split; [apply secure_base_nil|].
  split; [repeat constructor|]. split; [repeat constructor|].
  exact state_content_premise.
Qed.

(* the same accounts and storage written in two orders: the staged tries differ (StorageID carries the creation count)
   and their consensus views are equal *)
Example stage_order_changes_metadata_only :
  stage xhk xhs xtrim xst1 1%N 0%N <> stage xhk xhs xtrim xst2 1%N 0%N /\
  cview (stage xhk xhs xtrim xst1 1%N 0%N) = cview (stage xhk xhs xtrim xst2 1%N 0%N).
Proof. split; [vm_compute; discriminate|vm_compute; reflexivity]. Qed.

(* a storage write of the empty value to a fresh account: the committed leaf names the empty storage trie explicitly *)
Example explicit_empty_storage_root :
  let s := run_state xhk xhs [OBal 1%N 5%N; ORaw 1%N 2%N []] (open Nil []) in
  a_sroot (get_account xhk xhs (commit_reopen xhk xhs xtrim s 1%N 0%N) 1%N) = Some Nil /\
  a_sroot (get_account xhk xhs s 1%N) = None /\
  stor_written s 1%N.
Proof.
  split; [vm_compute; reflexivity|]. split; [vm_compute; reflexivity|].
  exists 2%N, []. vm_compute. reflexivity.
Qed.

Print Assumptions trie_wf_preserved.
Print Assumptions trie_refines_map.
Print Assumptions trie_canonical.
Print Assumptions root_depends_only_on_content.
Print Assumptions trie_history_refines_map.
Print Assumptions stackedmap_refines_stack_of_maps.
Print Assumptions revert_restores.
Print Assumptions stackedmap_inv_reachable.
Print Assumptions state_refines_map.
Print Assumptions world_runs_state_ops.
Print Assumptions stage_wf_preserved.
Print Assumptions stage_root_canonical.
Print Assumptions reopen_reads_back.
Print Assumptions stage_reestablishes_base.
Print Assumptions root_ignores_metadata.
Print Assumptions projection_keeps_wf.
Print Assumptions projection_commutes_with_get.
Print Assumptions stage_root_ignores_metadata.
Print Assumptions staged_storage_root.
Print Assumptions state_root_depends_only_on_content.
Print Assumptions stage_keeps_secure_base.
Print Assumptions named_storage_flag.
Print Assumptions state_root_depends_only_on_content_pre.
Print Assumptions staged_roots_ignore_metadata.
