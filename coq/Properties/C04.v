(* Properties/C04.v — statements only.  "Nodes that have seen the same blocks agree on best block and finality; a late
   valid block descending from finalized is imported without error; the incremental tally equals the tally rebuilt
   from the definitions."  The model is Bft/Model.v (tied to bft.Engine / bft.justifier by the correspondence run). *)
From Coq Require Import List NArith Bool Lia.
From Verif Require Import Common.Util Bft.Tree Bft.Model Bft.Quorum Bft.ProofsTally Bft.ProofsChain Bft.ProofsSearch
  Bft.ProofsNode Bft.Safety Bft.ProofsWitness Bft.ProofsCommit Bft.ProofsOrder Bft.ProofsOrder2 Bft.ProofsOrder3 Bft.ProofsOrder4
  Bft.ProofsLive Bft.ProofsVote Bft.ProofsJustified Bft.ProofsFork Bft.ProofsSafety Bft.ProofsRun Bft.ProofsGap Bft.ProofsWitness2.
From Verif Require Compose.SyncOrder.
Import ListNotations.
Open Scope N_scope.

(* 1. the tally (votes map, COM count, COM weight, justified weight, summary) is a function of the *set* of
      (signer, COM bit, weight) fed to AddBlock: permutations, duplicates, splits do not matter *)
Theorem tally_order_independent (w : N -> N) pq tv tw (l1 l2 : list (N * (bool * N))) :
  weighed w l1 -> weighed w l2 -> (forall x, In x l1 <-> In x l2) ->
  js_equiv (tally_votes pq tv tw l1) (tally_votes pq tv tw l2) /\
  summarize (tally_votes pq tv tw l1) = summarize (tally_votes pq tv tw l2).
Proof.
  intros W1 W2 Hs. pose proof (tally_order_independent_lemma w pq tv tw l1 l2 W1 W2 Hs) as H.
  split; [exact H | exact (js_equiv_summarize _ _ H)].
Qed.

(* 2. computeState's cache-hit path (the parent's justifier, however it was built, plus the new block) gives the same
      state as the rebuild from the checkpoint (the block first, then its ancestors) *)
Theorem incremental_eq_scratch c pq segp segp' b :
  (forall x, In x segp <-> In x segp') ->
  summarize (add_blk c (tally c pq segp') b) = summarize (tally c pq (b :: segp)).
Proof. intros Hs. apply js_equiv_summarize. exact (incremental_eq_scratch_lemma c pq segp segp' b Hs). Qed.

(* 2b. what the tally IS, declaratively (no reference to AddBlock): the votes map holds exactly the distinct signers of the
       segment, each with its weight; a signer's recorded vote is COM iff every block it signed in the segment is COM; the
       counters are the sums over that map; the thresholds are the configured ones.  Both the incremental and the rebuilt
       tally satisfy it (they are the same fold), so "equals the tally recomputed from the definitions" has a definition. *)
Theorem tally_is_declarative_spec c pq seg :
  let js := tally c pq seg in
  NoDup (keys (j_votes js)) /\ (forall s, In s (keys (j_votes js)) <-> In s (signers seg)) /\
  (forall s v, In (s, v) (j_votes js) -> v_w v = weight_of c s) /\
  j_jw js = sumf v_w (j_votes js) /\ j_com js = sumf f_one (j_votes js) /\ j_comw js = sumf f_comw (j_votes js) /\
  j_tv js = thr_votes c /\ j_tw js = thr_weight c /\
  (forall s v, In (s, v) (j_votes js) -> v_com v = allcom (map (vote_of c) seg) s).
Proof. exact (tally_keys c pq seg). Qed.

(* 3. along any import history (any tree, any parent-before-child order, duplicates, refused blocks) of a node: the
      repository stays well formed, every persisted quality record equals the quality computed from the definitions
      (no records, no caches: state_pure), and the best block beats every other stored block in the total order
      (quality from the definitions, then total score, then smaller id) *)
Theorem import_history_invariants c guard g master bs : 0 < c_L c -> b_num g = 0 ->
  (forall nd b, inv c nd -> In b bs -> valid_child (n_repo nd) b) ->
  inv c (import_all c guard (init_node g master) bs).
Proof. intros HL Hg Hv. apply import_all_inv; [exact HL | apply init_inv; exact Hg | exact Hv]. Qed.

Theorem stored_quality_is_from_scratch c nd x : 0 < c_L c -> inv c nd -> In x (n_repo nd) ->
  s_q (compute_state c (n_repo nd) (e_qs (n_eng nd)) x) = quality_pure c (chain_of (n_repo nd) (b_id x)).
Proof. intros HL Hi Hin. exact (compute_state_stored c HL _ _ x (inv_wf c nd Hi) (inv_qs c nd Hi) Hin). Qed.

Theorem stored_state_is_from_scratch c nd x : 0 < c_L c -> inv c nd -> In x (n_repo nd) ->
  compute_state c (n_repo nd) (e_qs (n_eng nd)) x = state_pure c (chain_of (n_repo nd) (b_id x)).
Proof. intros HL Hi Hin. exact (compute_state_stored_full c HL _ _ x (inv_wf c nd Hi) (inv_qs c nd Hi) Hin). Qed.

Theorem best_is_max c nd x : inv c nd -> In x (n_repo nd) -> b_id x <> n_best nd ->
  beats c (n_repo nd) (best_blk nd) x = true.
Proof. intros Hi. exact (inv_max c nd Hi x). Qed.

(* two nodes holding the same set of blocks (whatever the arrival orders, duplicates, restarts — restart keeps
   repository, records and best pointer) report the same best block *)
Theorem best_order_independent c n1 n2 : 0 < c_L c -> inv c n1 -> inv c n2 ->
  (forall x, In x (n_repo n1) <-> In x (n_repo n2)) ->
  (forall x, In x (n_repo n1) -> qual c (n_repo n1) x = qual c (n_repo n2) x) ->
  n_best n1 = n_best n2.
Proof. intros HL. exact (same_repo_same_best c HL n1 n2). Qed.

(* the premise on qualities is derivable (chains are a function of the set) *)
Theorem best_is_function_of_stored_set c n1 n2 : 0 < c_L c -> inv c n1 -> inv c n2 ->
  (forall x, In x (n_repo n1) <-> In x (n_repo n2)) -> n_best n1 = n_best n2.
Proof.
  intros HL I1 I2 Hset. apply (same_repo_same_best c HL n1 n2 I1 I2 Hset). intros x Hx. unfold qual.
  rewrite (chain_of_set_eq _ _ (b_id x) (inv_wf c _ I1) (inv_wf c _ I2) Hset). reflexivity.
Qed.

(* 3b. import_set_order_independent (first sentence, for consistent trees: in every well-formed repository drawn from the
       tree all finalizing blocks — committed store points of quality > 1 — lie on one chain).  Two nodes run arbitrary
       histories of deliveries (any order in which the model accepts them, duplicates, unknown parents, refused blocks)
       and restarts over the tree; if they end up storing the same set of blocks they hold the same best block and the
       same finalized checkpoint.  finalized is characterised as a function of the set (fin_char): the checkpoint of the
       first epoch, on the chain of the highest finalizing block B, whose store point carries quality Q_B - 1. *)
Theorem import_set_order_independent c U g m1 m2 h1 h2 : 0 < c_L c ->
  tree_consistent c U -> b_num g = 0 -> In g U ->
  (forall b, In (Some b) h1 \/ In (Some b) h2 -> In b U) ->
  (forall nd b, inv c nd -> In (Some b) h1 \/ In (Some b) h2 -> valid_child (n_repo nd) b) ->
  let n1 := run_node c (init_node g m1) h1 in
  let n2 := run_node c (init_node g m2) h2 in
  (forall x, In x (n_repo n1) <-> In x (n_repo n2)) ->
  n_best n1 = n_best n2 /\ e_fin (n_eng n1) = e_fin (n_eng n2).
Proof. intros HL. exact (import_set_order_independent_lemma c HL U g m1 m2 h1 h2). Qed.

Theorem finalized_is_function_of_set c r1 r2 f1 f2 : 0 < c_L c ->
  wf_repo r1 -> wf_repo r2 -> (forall x, In x r1 <-> In x r2) -> consistent c r1 ->
  fin_char c r1 f1 -> fin_char c r2 f2 -> f1 = f2.
Proof. intros HL. exact (fin_char_unique c HL r1 r2 f1 f2). Qed.

(* chains (hence qualities, per-block states) do not depend on the storage order *)
Theorem chain_is_function_of_set r1 r2 id : wf_repo r1 -> wf_repo r2 -> (forall x, In x r1 <-> In x r2) ->
  chain_of r1 id = chain_of r2 id.
Proof. exact (chain_of_set_eq r1 r2 id). Qed.

(* Justified().  The one-entry cache is keyed by (store point, finalized) since the repair in /repo (942a798); the model
   carries both variants (justified_gen keyed).
   (i)   after ANY history of imports, own proposals, restarts and Justified() queries a warm cache answers exactly what a
         cold cache answers (no hypothesis on the tree);
   (ii)  hence two nodes that store the same set and hold the same finalized checkpoint answer the same, whatever their
         histories of queries and restarts were;
   (iii) with the entry keyed by the store point only (the code before the repair) this is false: on a CONSISTENT tree two
         nodes with the same stored blocks, best block and finalized checkpoint answer 8W and 12W (F15, replayed on the real
         engine, fixed). *)
Theorem justified_independent_of_cache_history c g master h :
  let nd := run_nev c (init_node g master) h in
  snd (justified c (n_repo nd) (n_eng nd) (best_blk nd)) = snd (justified c (n_repo nd) (clear_jc (n_eng nd)) (best_blk nd)).
Proof. exact (justified_history_independent_of_cache c g master h). Qed.

Theorem justified_order_independent c n1 n2 : 0 < c_L c -> inv c n1 -> inv c n2 -> node_jc c n1 -> node_jc c n2 ->
  (forall x, In x (n_repo n1) <-> In x (n_repo n2)) -> e_fin (n_eng n1) = e_fin (n_eng n2) ->
  snd (justified c (n_repo n1) (n_eng n1) (best_blk n1)) = snd (justified c (n_repo n2) (n_eng n2) (best_blk n2)).
Proof.
  intros HL I1 I2 J1 J2 Hset Hfin.
  rewrite (justified_cache_transparent c _ _ _ J1), (justified_cache_transparent c _ _ _ J2).
  assert (Hb : best_blk n1 = best_blk n2).
  { pose proof (best_is_function_of_stored_set c n1 n2 HL I1 I2 Hset) as E. unfold best_blk. rewrite <- E.
    destruct (inv_best c _ I1) as [b1 H1]. rewrite H1. destruct (find_blk_id _ _ _ H1) as [Hid Hin].
    rewrite <- Hid. rewrite (chain_of_stored _ b1 (inv_wf c _ I2) (proj1 (Hset b1) Hin)). reflexivity. }
  rewrite Hb. apply (justified_set_eq c HL); try reflexivity; try assumption;
    [exact (inv_wf c _ I1) | exact (inv_wf c _ I2) | exact (inv_qs c _ I1) | exact (inv_qs c _ I2)].
Qed.

(* the node invariants and the cache invariant along every history of imports, own proposals (on a stored parent), restarts and
   queries whose blocks carry their parent's number plus one - so the premises `inv` / `node_jc` of justified_order_independent
   are established, not assumed, for nodes reached from genesis *)
Theorem inv_along_histories_with_queries c g master h : 0 < c_L c -> b_num g = 0 ->
  (forall nd b, inv c nd -> In b (nev_blocks h) -> valid_child (n_repo nd) b) ->
  inv c (run_nev c (init_node g master) h).
Proof. intros HL Hg Hv. apply (run_nev_inv c HL h); [apply init_inv; assumption | exact Hv]. Qed.

Theorem justified_order_independent_along_histories c g m1 m2 h1 h2 : 0 < c_L c -> b_num g = 0 ->
  (forall nd b, inv c nd -> In b (nev_blocks h1) \/ In b (nev_blocks h2) -> valid_child (n_repo nd) b) ->
  let n1 := run_nev c (init_node g m1) h1 in
  let n2 := run_nev c (init_node g m2) h2 in
  (forall x, In x (n_repo n1) <-> In x (n_repo n2)) -> e_fin (n_eng n1) = e_fin (n_eng n2) ->
  snd (justified c (n_repo n1) (n_eng n1) (best_blk n1)) = snd (justified c (n_repo n2) (n_eng n2) (best_blk n2)).
Proof.
  intros HL Hg Hv n1 n2 Hset Hfin. apply (justified_order_independent c n1 n2 HL); try assumption.
  - apply inv_along_histories_with_queries; try assumption. intros nd b Hi Hb. apply Hv; [exact Hi | left; exact Hb].
  - apply inv_along_histories_with_queries; try assumption. intros nd b Hi Hb. apply Hv; [exact Hi | right; exact Hb].
  - apply run_nev_jc. exact Logic.I.
  - apply run_nev_jc. exact Logic.I.
Qed.

Theorem node_jc_along_histories c g master h : node_jc c (run_nev c (init_node g master) h).
Proof. apply run_nev_jc. exact Logic.I. Qed.

Theorem justified_stale_cache_before_repair :
  n_repo (j_node_a false) = n_repo j_node_b /\ n_best (j_node_a false) = n_best j_node_b /\
  e_fin (n_eng (j_node_a false)) = e_fin (n_eng j_node_b) /\ e_fin (n_eng j_node_b) = b_id (js 12) /\
  snd (justified_gen false cfg4 (n_repo (j_node_a false)) (n_eng (j_node_a false)) (best_blk (j_node_a false))) = Ok (b_id (jw 8)) /\
  snd (justified_gen false cfg4 (n_repo j_node_b) (n_eng j_node_b) (best_blk j_node_b)) = Ok (b_id (jw 12)) /\
  snd (justified cfg4 (n_repo (j_node_a true)) (n_eng (j_node_a true)) (best_blk (j_node_a true))) = Ok (b_id (jw 12)).
Proof. exact stale_cache_witness. Qed.

(* the gap between "stored" and "received": the same blocks received in another parent-before-child order (branch S before
   branch W of the consistent tree j_tree) are not all stored - Accepts refuses W once 12S is finalized - and the node reports
   another best block.  So best/finalized/justified are functions of the set STORED (what the theorems above say), not of
   the set received; this is the behaviour C03 demands ("blocks that do not descend from it are refused"). *)
Theorem received_order_matters :
  (forall b, In (Some b) j_h1 <-> In (Some b) j_h3) /\
  n_best (run_node cfg4 (init_node gen 1) j_h1) = b_id (jw 20) /\ n_best (run_node cfg4 (init_node gen 1) j_h3) = b_id (js 19) /\
  length (n_repo (run_node cfg4 (init_node gen 1) j_h1)) = 37%nat /\ length (n_repo (run_node cfg4 (init_node gen 1) j_h3)) = 20%nat /\
  e_fin (n_eng (run_node cfg4 (init_node gen 1) j_h1)) = e_fin (n_eng (run_node cfg4 (init_node gen 1) j_h3)).
Proof. exact received_order_matters_witness. Qed.

(* 4. quality never decreases along a chain and grows by at most one per block *)
Theorem quality_monotone c b t : 0 < c_L c -> grounded (b :: t) ->
  quality_pure c t <= quality_pure c (b :: t) <= quality_pure c t + 1.
Proof. intros HL. exact (quality_step c HL b t). Qed.

(* 5. "a valid block that descends from the finalized checkpoint is imported without error however late it arrives".
      Statement (Bft/Safety.v): for every genesis, every list of numbered blocks delivered in any order (with duplicates,
      unknown parents, blocks off the finalized branch), no import ends in a CommitBlock error (codes >= 100); the only
      outcomes are imported / known / parent missing / refused by Accepts.  Proved for the code with the F1 guard;
      refuted for the code before the repair (witness: the late fork inside the finalized epoch). *)
Theorem commit_block_total : commit_block_total_statement true.
Proof. exact commit_block_total_lemma. Qed.

(* one step of it: on the accepted path the result code is 0 and the invariants are kept *)
Theorem accepted_block_imports_without_error c nd b : 0 < c_L c ->
  inv c nd -> fin_cp c nd -> valid_child (n_repo nd) b ->
  snd (import true c nd b) < 100 /\ inv c (fst (import true c nd b)) /\ fin_cp c (fst (import true c nd b)).
Proof. intros HL. exact (import_ok c HL nd b). Qed.

Theorem commit_block_error_refuted : ~ commit_block_total_statement false.
Proof. exact commit_block_error_refuted_lemma. Qed.

Theorem commit_block_total_partial (q : N -> N) (n Q : N) :
  2 <= n -> (forall i, i + 1 < n -> q i <= q (i + 1) <= q i + 1) ->
  q (n - 1) = Q -> q (n - 1) = q (n - 2) + 1 -> 1 < Q ->
  forall f, (forall i, i < n -> f i = Ok (Q - 1 <=? q i)) ->
  exists m, bsearch (S (N.to_nat n)) f 0 n = Ok m /\ m < n /\ q m = Q - 1.
Proof. exact (search_total_lemma q n Q). Qed.

Theorem committed_implies_justified c pq seg :
  s_comm (summarize (tally c pq seg)) = true -> s_just (summarize (tally c pq seg)) = true.
Proof. exact (committed_implies_justified_lemma c pq seg). Qed.

(* non-vacuity *)
Example tally_example :
  let l1 := [(1, (true, 5)); (2, (true, 7)); (1, (false, 5)); (3, (true, 1))] in
  let l2 := [(3, (true, 1)); (1, (false, 5)); (2, (true, 7)); (1, (true, 5)); (2, (true, 7))] in
  summarize (tally_votes 2 0 8 l1) = mkS 3 true false /\ summarize (tally_votes 2 0 8 l2) = mkS 3 true false.
Proof. vm_compute. split; reflexivity. Qed.

Example f1_tree_imports_with_guard :
  import_codes true cfg4 (init_node gen 1) f1_blocks = [0;0;0;0;0;0;0;0;0;0;0;0;0;0] /\
  import_codes false cfg4 (init_node gen 1) f1_blocks = [0;0;0;0;0;0;0;0;0;0;0;0;0;103].
Proof. split; [exact f1_guarded_ok | exact f1_unguarded_fails]. Qed.

(* non-vacuity of import_set_order_independent's hypotheses: the 12-block main chain of the F1 tree is a consistent tree
   holding two finalizing blocks (the ends of epochs 1 and 2) *)
Definition main_chain : list blk := rev (gen :: map a [1;2;3;4;5;6;7;8;9;10;11]).
Example consistent_tree_example :
  tree_consistent cfg4 main_chain /\
  finalizing cfg4 main_chain (a 7) /\ finalizing cfg4 main_chain (a 11).
Proof.
  split; [apply single_chain_consistent; vm_compute; intuition reflexivity|].
  split; (split; [vm_compute; tauto | split; [vm_compute; reflexivity | split; [vm_compute; reflexivity | vm_compute; reflexivity]]]).
Qed.

(* a FORKED consistent tree (two branches of 17 and 16 blocks after a common prefix, one finalizing block) and two different
   histories over it (different orders, a duplicate, restarts) that end up storing the same set: every hypothesis of
   import_set_order_independent is discharged, and finalized really moved (12S) while best is on the other branch (20W) *)
Example forked_consistent_tree_example :
  tree_consistent cfg4 j_tree /\ In gen j_tree /\
  (forall b, In (Some b) j_h1 \/ In (Some b) j_h2 -> In b j_tree) /\
  (forall nd b, inv cfg4 nd -> In (Some b) j_h1 \/ In (Some b) j_h2 -> valid_child (n_repo nd) b) /\
  (forall x, In x (n_repo (run_node cfg4 (init_node gen 1) j_h1)) <-> In x (n_repo (run_node cfg4 (init_node gen 2) j_h2))) /\
  j_h1 <> j_h2 /\
  n_best (run_node cfg4 (init_node gen 1) j_h1) = b_id (jw 20) /\ e_fin (n_eng (run_node cfg4 (init_node gen 1) j_h1)) = b_id (js 12).
Proof.
  split; [exact j_tree_consistent|]. split; [|exact j_histories_instance].
  assert (H : existsb (blk_eqb gen) j_tree = true) by (vm_compute; reflexivity).
  apply existsb_exists in H. destruct H as [y [Hy E]]. rewrite (Verif.Bft.ProofsTree2.blk_eqb_eq gen y E). exact Hy.
Qed.

(* tree_consistent is STRICTLY stronger than C03's safety conclusion: the tree of C03's valid one-Byzantine-of-four run sib_run,
   in which no two finalized checkpoints conflict (both committed epochs finalize genesis), is not consistent - its two
   finalizing blocks 7X and 7Y lie on different branches.  import_set_order_independent says nothing about such trees. *)
Theorem tree_consistent_stronger_than_safety : ~ tree_consistent cfg4 (seen_after [gen] sib_run).
Proof.
  intros H. destruct cfg4_side as [N1 [_ [D _]]].
  destruct (world_prefix cfg4 ltac:(reflexivity) gen eq_refl [4] [1;2;3] D N1 sib_run [] ltac:(rewrite app_nil_r; exact sib_valid)
              ltac:(rewrite app_nil_r; exact sib_root)) as [Hw _].
  pose proof (wg_wf cfg4 gen [4] [1;2;3] _ _ Hw) as Hwf.
  destruct sib_gap0_instance as [F1 [F2 _]].
  destruct (H _ Hwf ltac:(intros x Hx; exact Hx) sx7 sy7 F1 F2) as [E|E]; vm_compute in E; discriminate E.
Qed.

Example search_example : (* qualities 1,2,2,3 per epoch, committed epoch has quality 3: the search finds index 1 *)
  bsearch 5 (fun i => Ok (2 <=? nth (N.to_nat i) [1;2;2;3] 0)) 0 4 = Ok 1.
Proof. vm_compute. reflexivity. Qed.

(* ------------------------------------------------------------------ composition *)

(* C04 <-> C19 (Compose/SyncOrder.v).  The total order of best_is_max is a strict weak order on ALL blocks (no distinct-id
   hypothesis: two blocks are incomparable only if they carry the same id), it is bft.Select on the block about to be
   imported, and the node invariant gives the premise "best is maximal in the store" of C19's sync_converges for the Sync
   view of the node (ids of the repository, best id; order read in any well-formed tree U that contains the repository -
   chains and qualities of stored blocks are the same in the repository and in U).  Together these discharge the order
   hypotheses of sync_converges (Properties/C19.v sync_converges_bft_order). *)
Theorem beats_strict_weak_order c r :
  (forall x y, beats c r x y = true -> beats c r y x = false) /\
  (forall x y z, beats c r x z = true -> beats c r x y = true \/ beats c r y z = true) /\
  (forall x y, beats c r x y = false -> beats c r y x = false -> b_id x = b_id y).
Proof. exact (Compose.SyncOrder.beats_strict_weak_order c r). Qed.

Theorem select_is_the_order c U nd b p : 0 < c_L c -> inv c nd -> wf_repo U ->
  (forall x, In x (b :: n_repo nd) -> In x U) ->
  known (n_repo nd) (b_id b) = false -> find_blk (n_repo nd) (b_parent b) = Some p -> b_num b = b_num p + 1 ->
  select c (n_repo nd) (n_eng nd) (best_blk nd) b = Compose.SyncOrder.sbetter c U (b_id b) (n_best nd).
Proof. exact (Compose.SyncOrder.select_is_sbetter c U nd b p). Qed.

Theorem quality_stable_under_growth c r1 r2 x : wf_repo r1 -> wf_repo r2 -> (forall y, In y r1 -> In y r2) -> In x r1 ->
  chain_of r2 (b_id x) = chain_of r1 (b_id x) /\ qual c r2 x = qual c r1 x.
Proof.
  intros W1 W2 Hs Hx.
  exact (conj (Compose.SyncOrder.chain_of_sub_stored r1 r2 x W1 W2 Hs Hx) (Compose.SyncOrder.qual_sub c r1 r2 x W1 W2 Hs Hx)).
Qed.

Theorem best_is_max_gives_sync_best_max c U nd : inv c nd -> wf_repo U -> (forall x, In x (n_repo nd) -> In x U) ->
  Sync.ProofsDownload.best_max N (Compose.SyncOrder.sbetter c U) (Compose.SyncOrder.sync_node nd).
Proof. exact (Compose.SyncOrder.inv_gives_best_max c U nd). Qed.

(* non-vacuity: the node of Compose/SyncOrder.v's fork (local branch of higher total score, other branch of higher quality) *)
Example best_is_max_gives_sync_best_max_example :
  inv Compose.SyncOrder.ex_cfg Compose.SyncOrder.ex_nd /\ wf_repo Compose.SyncOrder.ex_U /\
  (forall x, In x (n_repo Compose.SyncOrder.ex_nd) -> In x Compose.SyncOrder.ex_U) /\
  n_best Compose.SyncOrder.ex_nd = b_id Compose.SyncOrder.ex_l5 /\
  Compose.SyncOrder.sbetter Compose.SyncOrder.ex_cfg Compose.SyncOrder.ex_U (b_id (Compose.SyncOrder.ex_m 7)) (n_best Compose.SyncOrder.ex_nd) = true /\
  select Compose.SyncOrder.ex_cfg (n_repo Compose.SyncOrder.ex_nd) (n_eng Compose.SyncOrder.ex_nd) (best_blk Compose.SyncOrder.ex_nd)
         (Compose.SyncOrder.ex_m 4)
    = Compose.SyncOrder.sbetter Compose.SyncOrder.ex_cfg Compose.SyncOrder.ex_U (b_id (Compose.SyncOrder.ex_m 4)) (n_best Compose.SyncOrder.ex_nd).
Proof.
  split; [exact Compose.SyncOrder.ex_inv|]. split; [exact Compose.SyncOrder.ex_wf|]. split; [exact Compose.SyncOrder.ex_incl|].
  split; [exact (proj1 Compose.SyncOrder.ex_wins_by_quality)|].
  split; [exact (proj2 (proj2 (proj2 (proj2 Compose.SyncOrder.ex_wins_by_quality)))) | exact Compose.SyncOrder.select_is_sbetter_example].
Qed.

(* how the oracle's observed runs relate to the plain transition system of the theorems: `step` (what `run` / `run_f 0` iterate) is
   the plain step followed by the two observation calls Justified() and ShouldVote(best) on the node that moved; these leave
   repository, best block, finalized, quality records and master untouched (they may fill the one-entry cache and create the
   votes record, which is why the observed and the plain run are not literally equal). *)
Theorem observed_step_is_plain_step_on_core_state guard c w ev :
  map core (fst (Verif.Bft.Model.step guard c w ev)) = map core (step_plain guard c w ev).
Proof. exact (step_is_plain_step_then_observation guard c w ev). Qed.

(* The FINALITY fork height.  The oracle runs `run_f F` (Bft/Model.v, second half): the engine and the node with
   forkConfig.FINALITY = F as the code uses it (zero state below F, no walk below F, first round counted from F / L, the
   checkpoint search starts at getCheckPoint(F), the node consults Select / CommitBlock / ShouldVote only at or after F);
   the correspondence run draws F = 0, aligned and unaligned values.  Every theorem of this file is about FINALITY = 0,
   which is exactly the F = 0 instance of what the oracle runs: *)
Theorem oracle_run_at_finality_0_is_the_verified_model guard c w evs : run_f 0 guard c w evs = run guard c w evs.
Proof. exact (run_f0 guard c evs w). Qed.

Print Assumptions tally_order_independent.
Print Assumptions incremental_eq_scratch.
Print Assumptions import_history_invariants.
Print Assumptions stored_quality_is_from_scratch.
Print Assumptions best_is_max.
Print Assumptions best_order_independent.
Print Assumptions import_set_order_independent.
Print Assumptions finalized_is_function_of_set.
Print Assumptions chain_is_function_of_set.
Print Assumptions justified_independent_of_cache_history.
Print Assumptions justified_order_independent.
Print Assumptions node_jc_along_histories.
Print Assumptions inv_along_histories_with_queries.
Print Assumptions justified_order_independent_along_histories.
Print Assumptions tree_consistent_stronger_than_safety.
Print Assumptions justified_stale_cache_before_repair.
Print Assumptions received_order_matters.
Print Assumptions tally_is_declarative_spec.
Print Assumptions stored_state_is_from_scratch.
Print Assumptions best_is_function_of_stored_set.
Print Assumptions quality_monotone.
Print Assumptions commit_block_total.
Print Assumptions accepted_block_imports_without_error.
Print Assumptions commit_block_error_refuted.
Print Assumptions commit_block_total_partial.
Print Assumptions committed_implies_justified.
Print Assumptions beats_strict_weak_order.
Print Assumptions select_is_the_order.
Print Assumptions quality_stable_under_growth.
Print Assumptions best_is_max_gives_sync_best_max.
Print Assumptions best_is_max_gives_sync_best_max_example.
Print Assumptions oracle_run_at_finality_0_is_the_verified_model.
Print Assumptions observed_step_is_plain_step_on_core_state.
