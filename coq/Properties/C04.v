(* Properties/C04.v — statements only.  "Nodes that have seen the same blocks agree on best block and finality; a late
   valid block descending from finalized is imported without error; the incremental tally equals the tally rebuilt
   from the definitions."  The model is Bft/Model.v (tied to bft.Engine / bft.justifier by the correspondence run). *)
From Coq Require Import List NArith Bool Lia.
From Verif Require Import Common.Util Bft.Tree Bft.Model Bft.Quorum Bft.ProofsTally.
Import ListNotations.
Open Scope N_scope.

(* 1. the tally (votes map, COM count, COM weight, justified weight, summary) is a function of the *set* of
      (signer, COM bit, weight) fed to AddBlock: permutations, duplicates, splits do not matter *)
Theorem tally_order_independent (w : N -> N) pq tv tw (l1 l2 : list (N * (bool * N))) :
  weighed w l1 -> weighed w l2 -> (forall x, In x l1 <-> In x l2) ->
  js_equiv (tally_votes pq tv tw l1) (tally_votes pq tv tw l2) /\
  summarize (tally_votes pq tv tw l1) = summarize (tally_votes pq tv tw l2).
Proof.
  intros W1 W2 Hs. pose proof (tally_order_independent_lemma w pq tv tw l1 l2 W1 W2 Hs) as H.
  split; [exact H | exact (js_equiv_summarize _ _ H)].
Qed.

(* 2. computeState's cache-hit path (the parent's justifier, however it was built, plus the new block) gives the same
      state as the rebuild from the checkpoint (the block first, then its ancestors) *)
Theorem incremental_eq_scratch c pq segp segp' b :
  (forall x, In x segp <-> In x segp') ->
  summarize (add_blk c (tally c pq segp') b) = summarize (tally c pq (b :: segp)).
Proof. intros Hs. apply js_equiv_summarize. exact (incremental_eq_scratch_lemma c pq segp segp' b Hs). Qed.

(* non-vacuity: a concrete vote list with a COM/non-COM flip, fed in two orders with a duplicate *)
Example tally_example :
  let l1 := [(1, (true, 5)); (2, (true, 7)); (1, (false, 5)); (3, (true, 1))] in
  let l2 := [(3, (true, 1)); (1, (false, 5)); (2, (true, 7)); (1, (true, 5)); (2, (true, 7))] in
  summarize (tally_votes 2 0 8 l1) = mkS 3 true false /\ summarize (tally_votes 2 0 8 l2) = mkS 3 true false.
Proof. vm_compute. split; reflexivity. Qed.

Print Assumptions tally_order_independent.
Print Assumptions incremental_eq_scratch.
