(* Properties/C04.v — statements only.  "Nodes that have seen the same blocks agree on best block and finality; a late
   valid block descending from finalized is imported without error; the incremental tally equals the tally rebuilt
   from the definitions."  The model is Bft/Model.v (tied to bft.Engine / bft.justifier by the correspondence run). *)
From Coq Require Import List NArith Bool Lia.
From Verif Require Import Common.Util Bft.Tree Bft.Model Bft.Quorum Bft.ProofsTally Bft.ProofsChain Bft.ProofsSearch
  Bft.ProofsNode Bft.Safety Bft.ProofsWitness Bft.ProofsCommit Bft.ProofsOrder Bft.ProofsOrder2 Bft.ProofsOrder3 Bft.ProofsOrder4.
Import ListNotations.
Open Scope N_scope.

(* 1. the tally (votes map, COM count, COM weight, justified weight, summary) is a function of the *set* of
      (signer, COM bit, weight) fed to AddBlock: permutations, duplicates, splits do not matter *)
Theorem tally_order_independent (w : N -> N) pq tv tw (l1 l2 : list (N * (bool * N))) :
  weighed w l1 -> weighed w l2 -> (forall x, In x l1 <-> In x l2) ->
  js_equiv (tally_votes pq tv tw l1) (tally_votes pq tv tw l2) /\
  summarize (tally_votes pq tv tw l1) = summarize (tally_votes pq tv tw l2).
Proof.
  intros W1 W2 Hs. pose proof (tally_order_independent_lemma w pq tv tw l1 l2 W1 W2 Hs) as H.
  split; [exact H | exact (js_equiv_summarize _ _ H)].
Qed.

(* 2. computeState's cache-hit path (the parent's justifier, however it was built, plus the new block) gives the same
      state as the rebuild from the checkpoint (the block first, then its ancestors) *)
Theorem incremental_eq_scratch c pq segp segp' b :
  (forall x, In x segp <-> In x segp') ->
  summarize (add_blk c (tally c pq segp') b) = summarize (tally c pq (b :: segp)).
Proof. intros Hs. apply js_equiv_summarize. exact (incremental_eq_scratch_lemma c pq segp segp' b Hs). Qed.

(* 3. along any import history (any tree, any parent-before-child order, duplicates, refused blocks) of a node: the
      repository stays well formed, every persisted quality record equals the quality computed from the definitions
      (no records, no caches: state_pure), and the best block beats every other stored block in the total order
      (quality from the definitions, then total score, then smaller id) *)
Theorem import_history_invariants c guard g master bs : 0 < c_L c -> b_num g = 0 ->
  (forall nd b, inv c nd -> In b bs -> valid_child (n_repo nd) b) ->
  inv c (import_all c guard (init_node g master) bs).
Proof. intros HL Hg Hv. apply import_all_inv; [exact HL | apply init_inv; exact Hg | exact Hv]. Qed.

Theorem stored_quality_is_from_scratch c nd x : 0 < c_L c -> inv c nd -> In x (n_repo nd) ->
  s_q (compute_state c (n_repo nd) (e_qs (n_eng nd)) x) = quality_pure c (chain_of (n_repo nd) (b_id x)).
Proof. intros HL Hi Hin. exact (compute_state_stored c HL _ _ x (inv_wf c nd Hi) (inv_qs c nd Hi) Hin). Qed.

Theorem best_is_max c nd x : inv c nd -> In x (n_repo nd) -> b_id x <> n_best nd ->
  beats c (n_repo nd) (best_blk nd) x = true.
Proof. intros Hi. exact (inv_max c nd Hi x). Qed.

(* two nodes holding the same set of blocks (whatever the arrival orders, duplicates, restarts — restart keeps
   repository, records and best pointer) report the same best block *)
Theorem best_order_independent c n1 n2 : 0 < c_L c -> inv c n1 -> inv c n2 ->
  (forall x, In x (n_repo n1) <-> In x (n_repo n2)) ->
  (forall x, In x (n_repo n1) -> qual c (n_repo n1) x = qual c (n_repo n2) x) ->
  n_best n1 = n_best n2.
Proof. intros HL. exact (same_repo_same_best c HL n1 n2). Qed.

(* 3b. import_set_order_independent (first sentence, for consistent trees: in every well-formed repository drawn from the
       tree all finalizing blocks — committed store points of quality > 1 — lie on one chain).  Two nodes run arbitrary
       histories of deliveries (any order in which the model accepts them, duplicates, unknown parents, refused blocks)
       and restarts over the tree; if they end up storing the same set of blocks they hold the same best block and the
       same finalized checkpoint.  finalized is characterised as a function of the set (fin_char): the checkpoint of the
       first epoch, on the chain of the highest finalizing block B, whose store point carries quality Q_B - 1. *)
Theorem import_set_order_independent c U g m1 m2 h1 h2 : 0 < c_L c ->
  tree_consistent c U -> b_num g = 0 -> In g U ->
  (forall b, In (Some b) h1 \/ In (Some b) h2 -> In b U) ->
  (forall nd b, inv c nd -> In (Some b) h1 \/ In (Some b) h2 -> valid_child (n_repo nd) b) ->
  let n1 := run_node c (init_node g m1) h1 in
  let n2 := run_node c (init_node g m2) h2 in
  (forall x, In x (n_repo n1) <-> In x (n_repo n2)) ->
  n_best n1 = n_best n2 /\ e_fin (n_eng n1) = e_fin (n_eng n2).
Proof. intros HL. exact (import_set_order_independent_lemma c HL U g m1 m2 h1 h2). Qed.

Theorem finalized_is_function_of_set c r1 r2 f1 f2 : 0 < c_L c ->
  wf_repo r1 -> wf_repo r2 -> (forall x, In x r1 <-> In x r2) -> consistent c r1 ->
  fin_char c r1 f1 -> fin_char c r2 f2 -> f1 = f2.
Proof. intros HL. exact (fin_char_unique c HL r1 r2 f1 f2). Qed.

(* chains (hence qualities, per-block states) do not depend on the storage order *)
Theorem chain_is_function_of_set r1 r2 id : wf_repo r1 -> wf_repo r2 -> (forall x, In x r1 <-> In x r2) ->
  chain_of r1 id = chain_of r2 id.
Proof. exact (chain_of_set_eq r1 r2 id). Qed.

(* Justified(): same stored set, same finalized, empty one-entry cache (e.g. after a restart) => same answer for the
   same best block.  _partial: coherence of the cache (keyed by the store-point id only) with a finalized that moved in
   between is not proved. *)
Theorem justified_order_independent_partial c r1 r2 e1 e2 best : 0 < c_L c ->
  wf_repo r1 -> wf_repo r2 -> (forall x, In x r1 <-> In x r2) -> qs_ok c r1 (e_qs e1) -> qs_ok c r2 (e_qs e2) ->
  e_fin e1 = e_fin e2 -> e_jc e1 = None -> e_jc e2 = None ->
  snd (justified c r1 e1 best) = snd (justified c r2 e2 best).
Proof. intros HL. exact (justified_set_eq c HL r1 r2 e1 e2 best). Qed.

(* 4. quality never decreases along a chain and grows by at most one per block *)
Theorem quality_monotone c b t : 0 < c_L c -> grounded (b :: t) ->
  quality_pure c t <= quality_pure c (b :: t) <= quality_pure c t + 1.
Proof. intros HL. exact (quality_step c HL b t). Qed.

(* 5. "a valid block that descends from the finalized checkpoint is imported without error however late it arrives".
      Statement (Bft/Safety.v): for every genesis, every list of numbered blocks delivered in any order (with duplicates,
      unknown parents, blocks off the finalized branch), no import ends in a CommitBlock error (codes >= 100); the only
      outcomes are imported / known / parent missing / refused by Accepts.  Proved for the code with the F1 guard;
      refuted for the code before the repair (witness: the late fork inside the finalized epoch). *)
Theorem commit_block_total : commit_block_total_statement true.
Proof. exact commit_block_total_lemma. Qed.

(* one step of it: on the accepted path the result code is 0 and the invariants are kept *)
Theorem accepted_block_imports_without_error c nd b : 0 < c_L c ->
  inv c nd -> fin_cp c nd -> valid_child (n_repo nd) b ->
  snd (import true c nd b) < 100 /\ inv c (fst (import true c nd b)) /\ fin_cp c (fst (import true c nd b)).
Proof. intros HL. exact (import_ok c HL nd b). Qed.

Theorem commit_block_error_refuted : ~ commit_block_total_statement false.
Proof. exact commit_block_error_refuted_lemma. Qed.

Theorem commit_block_total_partial (q : N -> N) (n Q : N) :
  2 <= n -> (forall i, i + 1 < n -> q i <= q (i + 1) <= q i + 1) ->
  q (n - 1) = Q -> q (n - 1) = q (n - 2) + 1 -> 1 < Q ->
  forall f, (forall i, i < n -> f i = Ok (Q - 1 <=? q i)) ->
  exists m, bsearch (S (N.to_nat n)) f 0 n = Ok m /\ m < n /\ q m = Q - 1.
Proof. exact (search_total_lemma q n Q). Qed.

Theorem committed_implies_justified c pq seg :
  s_comm (summarize (tally c pq seg)) = true -> s_just (summarize (tally c pq seg)) = true.
Proof. exact (committed_implies_justified_lemma c pq seg). Qed.

(* non-vacuity *)
Example tally_example :
  let l1 := [(1, (true, 5)); (2, (true, 7)); (1, (false, 5)); (3, (true, 1))] in
  let l2 := [(3, (true, 1)); (1, (false, 5)); (2, (true, 7)); (1, (true, 5)); (2, (true, 7))] in
  summarize (tally_votes 2 0 8 l1) = mkS 3 true false /\ summarize (tally_votes 2 0 8 l2) = mkS 3 true false.
Proof. vm_compute. split; reflexivity. Qed.

Example f1_tree_imports_with_guard :
  import_codes true cfg4 (init_node gen 1) f1_blocks = [0;0;0;0;0;0;0;0;0;0;0;0;0;0] /\
  import_codes false cfg4 (init_node gen 1) f1_blocks = [0;0;0;0;0;0;0;0;0;0;0;0;0;103].
Proof. split; [exact f1_guarded_ok | exact f1_unguarded_fails]. Qed.

(* non-vacuity of import_set_order_independent's hypotheses: the 12-block main chain of the F1 tree is a consistent tree
   holding two finalizing blocks (the ends of epochs 1 and 2) *)
Definition main_chain : list blk := rev (gen :: map a [1;2;3;4;5;6;7;8;9;10;11]).
Example consistent_tree_example :
  tree_consistent cfg4 main_chain /\
  finalizing cfg4 main_chain (a 7) /\ finalizing cfg4 main_chain (a 11).
Proof.
  split; [apply single_chain_consistent; vm_compute; intuition reflexivity|].
  split; (split; [vm_compute; tauto | split; [vm_compute; reflexivity | split; [vm_compute; reflexivity | vm_compute; reflexivity]]]).
Qed.

Example search_example : (* qualities 1,2,2,3 per epoch, committed epoch has quality 3: the search finds index 1 *)
  bsearch 5 (fun i => Ok (2 <=? nth (N.to_nat i) [1;2;2;3] 0)) 0 4 = Ok 1.
Proof. vm_compute. reflexivity. Qed.

Print Assumptions tally_order_independent.
Print Assumptions incremental_eq_scratch.
Print Assumptions import_history_invariants.
Print Assumptions stored_quality_is_from_scratch.
Print Assumptions best_is_max.
Print Assumptions best_order_independent.
Print Assumptions import_set_order_independent.
Print Assumptions finalized_is_function_of_set.
Print Assumptions chain_is_function_of_set.
Print Assumptions justified_order_independent_partial.
Print Assumptions quality_monotone.
Print Assumptions commit_block_total.
Print Assumptions accepted_block_imports_without_error.
Print Assumptions commit_block_error_refuted.
Print Assumptions commit_block_total_partial.
Print Assumptions committed_implies_justified.
