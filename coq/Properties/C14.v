(* Properties/C14.v — statements only.  "The block store answers by-number, by-id and stream queries per branch
   correctly."  Histories: every sequence of AddBlock calls the node can make (parent stored, id new, height =
   parent height + 1, conflicts = number of stored headers of that height as guardBlockProcessing assigns it),
   from NewRepository on an empty database, with an arbitrary choice of which added blocks become best. *)
From Coq Require Import List NArith Bool Lia.
From Verif Require Import Chain.Model Chain.Proofs Chain.ProofsWalk Chain.ProofsSys Chain.ProofsTx Chain.ProofsHeads Chain.Examples.
From Verif Require Bft.Model Bft.ProofsNode Chain.TipRule.
From Verif Require Compose.TipRefine.
Import ListNotations.
Open Scope N_scope.

Section C14.
  Variables g gp tag : N.
  Variable adm : repo -> blk -> bool -> Prop.
  Hypothesis Hg : num_of g = 0.                 (* NewRepository refuses any other genesis *)
  Hypothesis Hgp : num_of gp = max_u32.         (* hence the genesis parent id carries number 2^32-1 *)

  (* 1. asking head h for the block at height n returns h's own ancestor at that height, and nothing else *)
  Theorem index_is_ancestry r h n a : reachable g gp tag adm r -> stored r h ->
    (get_block_id r h n = Ok a <-> anc r h a /\ num_of a = n).
  Proof. intros R. exact (get_block_id_spec g gp r (reachable_wf _ _ _ _ _ Hg R) h n a). Qed.

  Theorem index_total r h n : reachable g gp tag adm r -> stored r h -> n <= num_of h ->
    exists a, get_block_id r h n = Ok a.
  Proof.
    intros R Sh Hn. pose proof (reachable_wf _ _ _ _ _ Hg R) as W.
    destruct (anc_total g gp r W h Sh n Hn) as [a Ha]. exists a. apply (get_block_id_spec g gp r W); auto.
  Qed.

  Theorem has_block_is_membership r h id : reachable g gp tag adm r -> stored r h ->
    exists v, has_block r h id = Ok v /\ (v = true <-> anc r h id).
  Proof. intros R. exact (has_block_spec g gp r (reachable_wf _ _ _ _ _ Hg R) h id). Qed.

  (* 2. the difference between two chains is exactly the blocks on one and not on the other, ascending *)
  Theorem exclude_is_difference r c o : reachable g gp tag adm r -> stored r c -> stored r o ->
    exists l, exclude r c o = Ok l /\ (forall a, In a l <-> anc r c a /\ ~ anc r o a) /\ asc l.
  Proof. intros R. exact (exclude_spec g gp r (reachable_wf _ _ _ _ _ Hg R) c o). Qed.

  (* 3. a transaction (and its receipt) found by id from head h sits in a block of h's own chain, at the reported
        index; it is reported missing only if no block of that chain holds it *)
  Theorem lookup_on_chain r h x : reachable g gp tag adm r -> stored r h ->
    match get_tx_meta r h x with
    | Ok e => e_tx e = x /\ exists a s b t rc, anc r h a /\ num_of a = e_num e /\ get_summary r a = Some s /\ s_conf s = e_conf e /\
                get_block r a = Some (s, b) /\ nth_error (b_txs b) (N.to_nat (e_idx e)) = Some t /\ tx_id t = x /\
                nth_error (b_rcs b) (N.to_nat (e_idx e)) = Some rc /\ rc_rev rc = e_rev e
    | NotFound => forall a, ~ incl_on r h x a
    | Fail => False
    end.
  Proof.
    intros R. exact (get_tx_meta_spec g gp r (reachable_wf _ _ _ _ _ Hg R)
                       (reachable_wf_txi _ _ _ _ _ Hg R) (reachable_conf_inj _ _ _ _ _ Hg R) Hgp h x).
  Qed.
  (* 3a. GetTransaction / GetTransactionReceipt (meta, then the blob under (number, conflicts, index)): the tx returned has
         the requested id and is the one at that index of a block of the head's own chain; the receipt is the one at
         the same index of the same block; never an error for a stored head *)
  Theorem get_transaction_on_chain r h x : reachable g gp tag adm r -> stored r h ->
    match get_transaction r h x with
    | Ok (e, t) => tx_id t = x /\ get_tx_meta r h x = Ok e /\
                   exists a s b, anc r h a /\ num_of a = e_num e /\ get_block r a = Some (s, b) /\
                                 nth_error (b_txs b) (N.to_nat (e_idx e)) = Some t
    | NotFound => forall a, ~ incl_on r h x a
    | Fail => False
    end.
  Proof.
    intros R. exact (get_transaction_spec g gp r (reachable_wf _ _ _ _ _ Hg R)
                       (reachable_wf_txi _ _ _ _ _ Hg R) (reachable_conf_inj _ _ _ _ _ Hg R) Hgp h x).
  Qed.

  Theorem get_receipt_on_chain r h x : reachable g gp tag adm r -> stored r h ->
    match get_receipt r h x with
    | Ok rc => exists e a s b t, get_tx_meta r h x = Ok e /\ anc r h a /\ num_of a = e_num e /\ get_block r a = Some (s, b) /\
                 nth_error (b_txs b) (N.to_nat (e_idx e)) = Some t /\ tx_id t = x /\
                 nth_error (b_rcs b) (N.to_nat (e_idx e)) = Some rc
    | NotFound => forall a, ~ incl_on r h x a
    | Fail => False
    end.
  Proof.
    intros R. exact (get_receipt_spec g gp r (reachable_wf _ _ _ _ _ Hg R)
                       (reachable_wf_txi _ _ _ _ _ Hg R) (reachable_conf_inj _ _ _ _ _ Hg R) Hgp h x).
  Qed.

  (* 3c. GetConflicts(n) lists exactly the stored blocks of height n *)
  Theorem conflicts_are_blocks_of_height r n id : In id (get_conflicts r n) <-> stored r id /\ num_of id = n.
  Proof. exact (get_conflicts_spec r n id). Qed.

  (* 3b. the heads store holds exactly the branch tips; ScanHeads(from) lists the tips at heights >= from *)
  Theorem heads_are_tips r from h : reachable g gp tag adm r ->
    (In h (scan_heads r from) <-> is_tip r h /\ from <= num_of h).
  Proof. intros R. exact (scan_heads_spec r from h (reachable_heads_ok _ _ _ _ _ Hg Hgp R)). Qed.
End C14.

(* 4. subscribers.  A subscriber starts at any known block holding the path to it; AddBlock calls (obeying the
      node's fork choice: a child of the current best block becomes best) interleave arbitrarily with its reads.
      Reads never fail, the stream always applies to what the subscriber holds (obsolete blocks are exactly the
      non-canonical top of its stack), and whenever a read returns nothing it holds the canonical chain. *)
Theorem reader_converges g gp tag r pos st : num_of g = 0 -> sys g gp tag r pos st ->
  is_path r pos st /\
  (exists l np st', read r pos = Ok (l, np) /\ apply_stream r st l = Some st' /\
      (forall a, In (a, true) l -> anc r pos a /\ ~ anc r (r_best r) a) /\
      (pos <> r_best r -> anc r (r_best r) np)) /\
  (forall np, read r pos = Ok ([], np) -> pos = r_best r /\ is_path r (r_best r) st).
Proof.
  intros Hg S. split; [apply (sys_inv g gp tag Hg _ _ _ S)|]. split.
  - exact (reader_total g gp tag Hg r pos st S).
  - intros np. exact (reader_quiescent_canonical g gp tag Hg r pos st np S).
Qed.

(* 5. and it gets there: with no further best change, at most (height of best + 1) reads *)
Theorem reader_reaches_best g gp tag r pos st : num_of g = 0 -> sys g gp tag r pos st ->
  exists k stB, (k <= N.to_nat (num_of (r_best r)) + 1)%nat /\
                run_reads r k pos st = Some (r_best r, stB) /\ is_path r (r_best r) stB.
Proof.
  intros Hg S. destruct (sys_inv g gp tag Hg _ _ _ S) as [R P].
  exact (reads_converge g gp r (reachable_wf _ _ _ _ _ Hg R) (reachable_wf_body _ _ _ _ _ Hg R)
           (reachable_best_tip _ _ _ _ Hg R) pos st P).
Qed.

(* 6. where the premise `tip_rule` of 4/5 comes from.  In the model of the node's fork choice (coq/Bft: bft.Engine.Select =
      quality, then total score, then the smaller id; Header.BetterThan before FINALITY), for every node state reached by
      any import history (Bft invariant `inv`) and every new block whose parent is the stored best block, with height
      parent+1 and a total score strictly above the parent's (consensus.validateBlockHeader: "block total score
      invalid" otherwise), Select answers true, and so does BetterThan: the block becomes best.  NOT formal: that the
      `best` flag of the histories of 4/5 is this answer (Node.commitBlock passes becomeBest to repo.AddBlock); the
      Bft model and the Chain model are two models of the same repository. *)
Theorem tip_rule_from_fork_choice c nd b p : 0 < Bft.Model.c_L c -> Bft.ProofsNode.inv c nd ->
  Bft.Tree.find_blk (Bft.Model.n_repo nd) (Bft.Model.n_best nd) = Some p -> Bft.Tree.b_parent b = Bft.Model.n_best nd ->
  Bft.Tree.b_num b = Bft.Tree.b_num p + 1 -> Bft.Tree.b_score p < Bft.Tree.b_score b ->
  Bft.Model.select c (Bft.Model.n_repo nd) (Bft.Model.n_eng nd) (Bft.Model.best_blk nd) b = true /\
  Bft.Model.better_than b (Bft.Model.best_blk nd) = true.
Proof. exact (Chain.TipRule.child_of_best_is_selected c nd b p). Qed.

(* the premise of 4/5 is needed: outside the node's fork-choice rule Read fails (a stored child of best that is not best) *)
Example read_below_best_fails :
  read (step_or (step_or ex_r0 ex_b1 0 true) ex_b2 0 false) (bid 2 1) = Fail.
Proof. vm_compute. reflexivity. Qed.

(* non-vacuity: a history with a fork and a reorganisation; a subscriber on the abandoned branch *)
Example ex_c14 :
  reachable ex_g ex_gp ex_tag tip_rule ex_r4 /\
  get_block_id ex_r4 (bid 3 1) 2 = Ok (bid 2 2) /\ get_block_id ex_r4 (bid 2 1) 2 = Ok (bid 2 1) /\
  exclude ex_r4 (bid 2 1) (bid 3 1) = Ok [bid 2 1] /\ exclude ex_r4 (bid 3 1) (bid 2 1) = Ok [bid 2 2; bid 3 1] /\
  read ex_r4 (bid 2 1) = Ok ([(bid 2 1, true); (bid 2 2, false)], bid 2 2) /\
  run_reads ex_r4 2 (bid 2 1) [bid 2 1; bid 1 1; ex_g] = Some (bid 3 1, [bid 3 1; bid 2 2; bid 1 1; ex_g]).
Proof. split; [exact ex_reachable_tip|]. vm_compute. repeat split. Qed.

Example ex_c14_sys : sys ex_g ex_gp ex_tag ex_r4 (bid 2 1) [bid 2 1; bid 1 1; ex_g].
Proof.
  apply sys_start; [exact ex_reachable_tip|].
  assert (G : r_gen ex_r4 = ex_g) by reflexivity.
  eapply path_step; [vm_compute; reflexivity | vm_compute; discriminate |]. cbn [s_parent].
  eapply path_step; [vm_compute; reflexivity | vm_compute; discriminate |]. cbn [s_parent].
  rewrite <- G. apply path_gen.
Qed.

(* a subscriber run with a read BEFORE a best change and reads after it: start on (2,2) while (2,1) is best, read
   (drops (2,2), receives (2,1)), then (3,1) on (2,2) becomes best (sys_add), then two more reads: it holds the new
   canonical chain *)
Example ex_c14_sys_interleaved :
  sys ex_g ex_gp ex_tag ex_r4 (bid 3 1) [bid 3 1; bid 2 2; bid 1 1; ex_g] /\ read ex_r4 (bid 3 1) = Ok ([], bid 3 1).
Proof.
  split; [|vm_compute; reflexivity].
  assert (S0 : sys ex_g ex_gp ex_tag ex_r3 (bid 2 2) [bid 2 2; bid 1 1; ex_g]).
  { apply sys_start; [exact ex_reachable3_tip|]. assert (G : r_gen ex_r3 = ex_g) by reflexivity.
    eapply path_step; [vm_compute; reflexivity | vm_compute; discriminate |]. cbn [s_parent].
    eapply path_step; [vm_compute; reflexivity | vm_compute; discriminate |]. cbn [s_parent]. rewrite <- G. apply path_gen. }
  assert (S1 : sys ex_g ex_gp ex_tag ex_r3 (bid 2 1) [bid 2 1; bid 1 1; ex_g]).
  { eapply (sys_read _ _ _ ex_r3 (bid 2 2) _ [(bid 2 2, true); (bid 2 1, false)]); [exact S0 | vm_compute; reflexivity | vm_compute; reflexivity]. }
  assert (S2 : sys ex_g ex_gp ex_tag ex_r4 (bid 2 1) [bid 2 1; bid 1 1; ex_g]).
  { eapply (sys_add _ _ _ ex_r3 _ _ ex_b3' 0 true); [exact S1 | vm_compute; repeat split | unfold tip_rule; reflexivity | vm_compute; reflexivity]. }
  assert (S3 : sys ex_g ex_gp ex_tag ex_r4 (bid 2 2) [bid 2 2; bid 1 1; ex_g]).
  { eapply (sys_read _ _ _ ex_r4 (bid 2 1) _ [(bid 2 1, true); (bid 2 2, false)]); [exact S2 | vm_compute; reflexivity | vm_compute; reflexivity]. }
  eapply (sys_read _ _ _ ex_r4 (bid 2 2) _ [(bid 3 1, false)]); [exact S3 | vm_compute; reflexivity | vm_compute; reflexivity].
Qed.

(* composition *)
(* 7. C14 <-> C04: the link left informal in 6, closed for import histories (coq/Compose/TipRefine.v).  The two models encode ids
      differently (Bft: number * 2^32 + rank; Chain: 32-byte ids, number = first four bytes); `cid` is the injective,
      number-preserving bridge.  `chain_of_history` is the Chain repository of a Bft import history: NewRepository, then
      for every block that Bft.Model.import stores one AddBlock(conflicts as the guard assigns them, best := the answer of
      Bft.Model.select — the very flag Bft's add_and_commit uses to move its best pointer); refused imports (known /
      parent missing / refused by Accepts) do nothing.  For every history whose stored blocks satisfy the header rules
      (`history_ok`: height = parent's + 1, total score strictly above the parent's, number < 2^32-1), that repository is
      `reachable … tip_rule` (the premise of 4/5 holds of every AddBlock, by 6), it stores exactly the image of the
      Bft repository, and its best block is the Bft node's best block. *)
Theorem bft_history_refines_chain c guard g master gp tag bs :
  0 < Bft.Model.c_L c -> Bft.Tree.b_num g = 0 ->
  Compose.TipRefine.history_ok guard c (Bft.Model.init_node g master) bs ->
  let nd := Bft.ProofsNode.import_all c guard (Bft.Model.init_node g master) bs in
  let r := Compose.TipRefine.chain_of_history guard c g master gp tag bs in
  num_of (Compose.TipRefine.cid (Bft.Tree.b_id g)) = 0 /\
  reachable (Compose.TipRefine.cid (Bft.Tree.b_id g)) gp tag tip_rule r /\
  (forall x, stored r x <->
             exists id, Bft.Tree.known (Bft.Model.n_repo nd) id = true /\ x = Compose.TipRefine.cid id) /\
  r_best r = Compose.TipRefine.cid (Bft.Model.n_best nd) /\
  Bft.ProofsNode.inv c nd.
Proof. exact (Compose.TipRefine.bft_history_refines_chain c guard g master gp tag bs). Qed.

(* 7a. the bridge and the per-block premises are what they are said to be *)
Theorem cid_is_number_preserving_injection :
  (forall id, num_of (Compose.TipRefine.cid id) = Bft.Tree.idnum id) /\
  (forall a b, Compose.TipRefine.cid a = Compose.TipRefine.cid b -> a = b).
Proof. exact (conj Compose.TipRefine.cid_num Compose.TipRefine.cid_inj). Qed.

(* 7b. the premises stated once on the block tree the history is drawn from (any order, duplicates, orphans) *)
Theorem bft_tree_history_refines_chain c guard g master gp tag bs :
  0 < Bft.Model.c_L c -> Bft.Tree.b_num g = 0 ->
  ((forall b p, In b bs -> In p (g :: bs) -> Bft.Tree.b_id p = Bft.Tree.b_parent b ->
                Bft.Tree.b_num b = Bft.Tree.b_num p + 1 /\ Bft.Tree.b_score p < Bft.Tree.b_score b) /\
   (forall b, In b bs -> Bft.Tree.b_num b < max_u32)) ->
  let nd := Bft.ProofsNode.import_all c guard (Bft.Model.init_node g master) bs in
  let r := Compose.TipRefine.chain_of_history guard c g master gp tag bs in
  num_of (Compose.TipRefine.cid (Bft.Tree.b_id g)) = 0 /\
  reachable (Compose.TipRefine.cid (Bft.Tree.b_id g)) gp tag tip_rule r /\
  (forall x, stored r x <->
             exists id, Bft.Tree.known (Bft.Model.n_repo nd) id = true /\ x = Compose.TipRefine.cid id) /\
  r_best r = Compose.TipRefine.cid (Bft.Model.n_best nd) /\
  Bft.ProofsNode.inv c nd.
Proof. exact (Compose.TipRefine.bft_tree_history_refines_chain c guard g master gp tag bs). Qed.

(* 8. hence 4/5 without the premise, on the repository of every Bft import history: a subscriber starting at any stored
      block with its path is a `sys` state; its reads never fail, the stream applies to its stack, a quiescent subscriber
      holds the canonical chain, and it reaches the node's best block (Bft's n_best) within height(best)+1 reads *)
Theorem reader_converges_on_bft_history c guard g master gp tag bs pos st :
  0 < Bft.Model.c_L c -> Bft.Tree.b_num g = 0 ->
  Compose.TipRefine.history_ok guard c (Bft.Model.init_node g master) bs ->
  let nd := Bft.ProofsNode.import_all c guard (Bft.Model.init_node g master) bs in
  let r := Compose.TipRefine.chain_of_history guard c g master gp tag bs in
  is_path r pos st ->
  sys (Compose.TipRefine.cid (Bft.Tree.b_id g)) gp tag r pos st /\
  r_best r = Compose.TipRefine.cid (Bft.Model.n_best nd) /\
  (exists l np st', read r pos = Ok (l, np) /\ apply_stream r st l = Some st' /\
      (forall a, In (a, true) l -> anc r pos a /\ ~ anc r (r_best r) a) /\
      (pos <> r_best r -> anc r (r_best r) np)) /\
  (forall np, read r pos = Ok ([], np) -> pos = r_best r /\ is_path r (r_best r) st) /\
  (exists k stB, (k <= N.to_nat (num_of (r_best r)) + 1)%nat /\
                 run_reads r k pos st = Some (r_best r, stB) /\ is_path r (r_best r) stB).
Proof. exact (Compose.TipRefine.reader_converges_on_bft_history c guard g master gp tag bs pos st). Qed.

(* 8a. interleavings: the events of the Bft node model — imports, own proposals (proposeAndCommit), restarts; each stored
       block satisfying the header rules — between the reads of a subscriber form a `sys` run of 4: every import /
       proposal is a sys_add step obeying tip_rule or a no-op, a restart changes neither repository; the two
       repositories stay in simulation; so 4's conclusions hold in every state of such a run *)
Theorem bft_sys_refines c guard g master gp tag nd r pos st :
  0 < Bft.Model.c_L c -> Bft.Tree.b_num g = 0 ->
  Compose.TipRefine.bft_sys c guard g master gp tag nd r pos st ->
  Compose.TipRefine.sim c (Bft.Tree.b_id g) gp tag nd r /\
  sys (Compose.TipRefine.cid (Bft.Tree.b_id g)) gp tag r pos st.
Proof. intros HL Hg. exact (Compose.TipRefine.bft_sys_refines c guard g master gp tag HL Hg nd r pos st). Qed.

(* non-vacuity of 7/8: a Bft history with a fork, a duplicate, an orphan and a reorganisation satisfies all hypotheses *)
Example ex_c14_bft_history :
  (0 < Bft.Model.c_L Compose.TipRefine.ex_cfg /\ Bft.Tree.b_num Compose.TipRefine.ex_gen = 0 /\
   Compose.TipRefine.tree_ok Compose.TipRefine.ex_gen Compose.TipRefine.ex_bs) /\
  Bft.Model.n_best (Bft.ProofsNode.import_all Compose.TipRefine.ex_cfg true
                      (Bft.Model.init_node Compose.TipRefine.ex_gen 7) Compose.TipRefine.ex_bs) = Bft.Tree.mkid 3 1 /\
  r_best Compose.TipRefine.ex_repo = Compose.TipRefine.cid (Bft.Tree.mkid 3 1) /\
  read Compose.TipRefine.ex_repo (Compose.TipRefine.cid (Bft.Tree.mkid 2 1)) =
    Ok ([(Compose.TipRefine.cid (Bft.Tree.mkid 2 1), true); (Compose.TipRefine.cid (Bft.Tree.mkid 2 2), false)],
        Compose.TipRefine.cid (Bft.Tree.mkid 2 2)).
Proof. split; [exact Compose.TipRefine.ex_tree_ok|]. vm_compute. repeat split. Qed.

Print Assumptions index_is_ancestry.
Print Assumptions index_total.
Print Assumptions has_block_is_membership.
Print Assumptions exclude_is_difference.
Print Assumptions lookup_on_chain.
Print Assumptions heads_are_tips.
Print Assumptions get_transaction_on_chain.
Print Assumptions get_receipt_on_chain.
Print Assumptions conflicts_are_blocks_of_height.
Print Assumptions tip_rule_from_fork_choice.
Print Assumptions reader_converges.
Print Assumptions reader_reaches_best.
Print Assumptions bft_history_refines_chain.
Print Assumptions cid_is_number_preserving_injection.
Print Assumptions bft_tree_history_refines_chain.
Print Assumptions reader_converges_on_bft_history.
Print Assumptions bft_sys_refines.
