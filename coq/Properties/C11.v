(* Properties/C11.v — statements only.  "Blocks, transactions and receipts have one canonical encoding bound to
   their id."  `go_decode_* b` is what the real decoders of /repo return on the byte string b (model: Codec/Model.v,
   tied to /repo by the correspondence run); its result is the *parse tree*: the Go object plus, at each rlp:"nil"
   pointer position, which of the two accepted empty forms was read.  `go_reencode_*` is Go's re-encoding.
   `wfp c x` is the well-formedness predicate of codec c.  For the primitive codecs it is a range predicate (c_uint_wf /
   c_uint_wf_inv: wfp (c_uint k) n <-> n < 256^k; arrays have their size; every length below 2^64); for a codec built with
   `cpmap f g` it is SEMANTIC: `wfp c (g y) /\ f (g y) = Some y` ("y is what the validating function f makes of its own
   wire form"), which for reserved / extension unfolds to "at most 2 unused values, tail-trimmed" and for the record
   codecs to "the fields unused by this tx type are 0".  Every object a decoder returns satisfies it (soundness). *)
From Coq Require Import List NArith Bool.
From Verif Require Import Codec.Model Codec.ProofsRLP Codec.ProofsComb Codec.ProofsObjects Codec.ProofsTop
  Codec.ProofsItem Codec.ProofsRaw Codec.ProofsSign Codec.ProofsNorm Codec.ProofsAcc Codec.ProofsBind Codec.ProofsRoot.
From Verif Require Chain.Model Compose.TxIdBind Compose.TxIdBindExamples.
Import ListNotations.
Open Scope N_scope.

(* 1. byte-level core: the stream header parser accepts exactly the canonical headers *)
Theorem rlp_head_canonical b k c r :
  shead b = Some (k, c, r) <-> b = enc_head k c ++ c ++ r /\ hok k c.
Proof. split; [apply shead_sound|]. intros [-> H]. apply shead_complete, H. Qed.

(* generic items (what decodeInterface / the encoder do with nested lists of strings), for all items and inputs *)
Theorem rlp_decode_encode i r : wf_item i -> decode (encode i ++ r) = Some (i, r).
Proof. exact (rlp_decode_encode_l i r). Qed.
Theorem rlp_canonical b i r : decode b = Some (i, r) -> b = encode i ++ r.
Proof. exact (rlp_canonical_l b i r). Qed.

(* 2. transactions (both types): round trip, and decode => re-encode identical, except exactly F2 *)
Theorem tx_roundtrip t : wfp c_tx t -> tx_has_nil_list t = false -> go_decode_tx (go_reencode_tx t) = Some t.
Proof. intros W E. unfold go_reencode_tx. rewrite (norm_tx_id t E). exact (tx_roundtrip_l t W). Qed.
Theorem tx_decode_encode t : wfp c_tx t -> go_decode_tx (enc c_tx t) = Some t.
Proof. exact (tx_roundtrip_l t). Qed.
Theorem tx_decode_is_encoding b t : go_decode_tx b = Some t -> b = enc c_tx t /\ wfp c_tx t.
Proof. exact (tx_decode_sound_l b t). Qed.
(* the full statement, refuted on the tree as it is (F2: empty list in an rlp:"nil" position); one witness per nil position *)
Definition tx_decode_canonical_statement : Prop :=
  forall b t, go_decode_tx b = Some t -> go_reencode_tx t = b.
Theorem tx_decode_canonical_statement_refuted : ~ tx_decode_canonical_statement.
Proof. exact tx_decode_canonical_statement_refuted_l. Qed.
Theorem tx_nil_ptr_refuted : exists t, go_decode_tx f2_depends_witness = Some t /\ is_nil_list (t_depends t) = true /\
  existsb (fun c => is_nil_list (c_to c)) (t_clauses t) = false /\ go_reencode_tx t <> f2_depends_witness.
Proof. exact tx_depends_nil_refuted_l. Qed.
Theorem tx_clause_nil_ptr_refuted : exists t, go_decode_tx f2_clause_witness = Some t /\ is_nil_list (t_depends t) = false /\
  existsb (fun c => is_nil_list (c_to c)) (t_clauses t) = true /\ go_reencode_tx t <> f2_clause_witness.
Proof. exact tx_clause_nil_refuted_l. Qed.
Theorem tx_decode_canonical_except b t :
  go_decode_tx b = Some t -> tx_has_nil_list t = false ->
  go_reencode_tx t = b /\ lenN (tx_marshal t) = lenN (go_marshal_tx t).
Proof. exact (tx_decode_canonical_except_l b t). Qed.
(* exact characterisation: for every accepted input, Go's re-encoding is the input IFF no rlp:"nil" position held 0xc0;
   the length (hence every Size()) is the canonical one in all cases *)
Theorem tx_decode_canonical_iff b t : go_decode_tx b = Some t -> (go_reencode_tx t = b <-> tx_has_nil_list t = false).
Proof. exact (tx_decode_canonical_iff_l b t). Qed.
Theorem tx_unmarshal_canonical_iff b t : tx_unmarshal b = Some t -> (go_marshal_tx t = b <-> tx_has_nil_list t = false).
Proof. exact (tx_unmarshal_canonical_iff_l b t). Qed.
Theorem tx_reencode_length b t : go_decode_tx b = Some t ->
  lenN (go_reencode_tx t) = lenN b /\ lenN (go_marshal_tx t) = lenN (tx_marshal t).
Proof. exact (tx_reencode_length_l b t). Qed.
(* Transaction.Size(): the value cached by DecodeRLP (ListSize(size) / len(payload)) equals what an empty cache computes *)
Theorem tx_size_cached_is_canonical b t : go_decode_tx b = Some t -> go_tx_size_cached b = go_tx_size_fresh t.
Proof. exact (tx_size_cached_l b t). Qed.
Theorem tx_unmarshal_canonical b t : tx_unmarshal b = Some t ->
  b = tx_marshal t /\ (if t_dyn t then wfp c_dyn t else wfp c_legacy t).
Proof. exact (tx_unmarshal_sound_l b t). Qed.
Theorem tx_unmarshal_roundtrip t : (if t_dyn t then wfp c_dyn t else wfp c_legacy t) -> tx_unmarshal (tx_marshal t) = Some t.
Proof. exact (tx_unmarshal_complete_l t). Qed.

(* 3. headers (after the F3 fix: no exception), receipts, blocks *)
Theorem header_roundtrip h : wfp c_header h -> go_decode_header (go_reencode_header h) = Some h.
Proof. exact (header_roundtrip_l h). Qed.
Theorem header_decode_canonical b h : go_decode_header b = Some h -> go_reencode_header h = b /\ wfp c_header h.
Proof. exact (header_decode_canonical_l b h). Qed.
Theorem header_features_refuted_before_fix :
  exists h, dec_exact (c_header_gen (c_trf_gen false)) f3_witness = Some h /\ enc (c_header_gen (c_trf_gen false)) h <> f3_witness.
Proof. exact header_features_refuted_before_fix_l. Qed.
Theorem header_features_fixed : go_decode_header f3_witness = None.
Proof. exact header_features_fixed_l. Qed.
Theorem receipt_roundtrip r : wfp c_receipt r -> go_decode_receipt (go_reencode_receipt r) = Some r.
Proof. exact (receipt_roundtrip_l r). Qed.
Theorem receipt_decode_canonical b r : go_decode_receipt b = Some r -> go_reencode_receipt r = b /\ wfp c_receipt r.
Proof. exact (receipt_decode_canonical_l b r). Qed.
Theorem receipt_unmarshal_canonical b r : receipt_unmarshal b = Some r -> b = receipt_marshal r /\ wfp (c_receipt_body (rc_dyn r)) r.
Proof. exact (receipt_unmarshal_sound_l b r). Qed.
Theorem receipt_unmarshal_roundtrip r : wfp (c_receipt_body (rc_dyn r)) r -> receipt_unmarshal (receipt_marshal r) = Some r.
Proof. exact (receipt_unmarshal_complete_l r). Qed.
Theorem block_roundtrip b : wfp c_block b -> go_decode_block (enc c_block b) = Some b.
Proof. exact (block_roundtrip_l b). Qed.
Theorem block_decode_canonical_except bs b :
  go_decode_block bs = Some b -> block_has_nil_list b = false -> go_reencode_block b = bs /\ wfp c_block b.
Proof. exact (block_decode_canonical_except_l bs b). Qed.

(* the exception set of blocks is exactly the transaction-level F2 class lifted (block_has_nil_list = existsb tx_has_nil_list) *)
Theorem block_decode_canonical_iff bs b : go_decode_block bs = Some b -> (go_reencode_block b = bs <-> block_has_nil_list b = false).
Proof. exact (block_decode_canonical_iff_l bs b). Qed.
(* remark (definitional, by reflexivity) *)
Theorem block_exception_is_lifted_tx_class b : block_has_nil_list b = existsb tx_has_nil_list (b_txs b).
Proof. reflexivity. Qed.
(* Block.Size(): the value cached by Block.DecodeRLP / RawBlock.DecodeRLP equals a fresh Size() and the input length, F2 or not *)
Theorem block_size_cached_is_canonical bs b : go_decode_block bs = Some b ->
  go_block_size_cached bs = go_block_size_fresh b /\ go_block_size_cached bs = lenN bs.
Proof. exact (block_size_cached_l bs b). Qed.

(* IntrinsicGas (uint64 arithmetic with SafeAdd/SafeMul): the exact unbounded sum or the overflow error, never a wrapped value;
   no error for any clause list within the 2500 bound whose data is below 2^56 bytes *)
Theorem intrinsic_gas_exact cl :
  intrinsic_gas cl = if intrinsic_gas_math cl <? u64max1 then Some (intrinsic_gas_math cl) else None.
Proof. exact (intrinsic_gas_exact_l cl). Qed.
Theorem intrinsic_gas_total cl : lenN cl <= max_clauses -> lenN (concat (map c_data cl)) < 2 ^ 56 ->
  exists g, intrinsic_gas cl = Some g /\ g = intrinsic_gas_math cl.
Proof. exact (intrinsic_gas_total_l cl). Qed.

(* trie.DeriveRoot hands the trie the pairs (rlp(i), MarshalBinary(item_i)): the keys are prefix-free, the SET of pairs
   determines the ordered list of values, and the values determine the transactions.  (The trie-side half — equal roots =>
   equal pair sets, C06 trie_canonical — is not part of this file.) *)
Theorem root_keys_prefix_free i j r : i < u64max1 -> j < u64max1 -> enc (c_uint 8) j = enc (c_uint 8) i ++ r -> i = j /\ r = [].
Proof. exact (root_key_prefix_free i j r). Qed.
Theorem root_pairs_determine_list l1 l2 : lenN l1 < u64max1 -> lenN l2 < u64max1 ->
  (forall k v, In (k, v) (root_pairs l1) <-> In (k, v) (root_pairs l2)) -> l1 = l2.
Proof. exact (root_pairs_determine_list_l l1 l2). Qed.
Theorem txs_values_determine l1 l2 : Forall wf_bin l1 -> Forall wf_bin l2 -> map tx_marshal l1 = map tx_marshal l2 -> l1 = l2.
Proof. exact (txs_values_determine_l l1 l2). Qed.

(* the two-phase decode used on the sync path returns exactly what the one-phase decode returns *)
Theorem rawblock_two_phase_agrees b : go_decode_block_raw b = go_decode_block b.
Proof. exact (two_phase_agrees_l b). Qed.
(* Clauses.DecodeRLP: the counting loop only enforces the bound; otherwise it is the plain list decoder *)
Theorem clauses_decoder_is_bounded_slice b l r :
  dec c_clauses b = Some (l, r) <-> dec (cslice c_clause) b = Some (l, r) /\ lenN l <= max_clauses.
Proof.
  split.
  - intros H. pose proof (proj1 c_clauses_ok b l r H) as [Hb [W Hl]]. split; [|exact Hl].
    subst b. exact (proj2 cslice_clause_ok l r W).
  - intros [H Hl]. pose proof (proj1 cslice_clause_ok b l r H) as [Hb W]. subst b.
    exact (proj2 c_clauses_ok l r (conj W Hl)).
Qed.

(* 4. id / hash / root binding, stated on the byte strings the Go code feeds to Blake2b:
        go_signing_tx t            = preimage of Transaction.SigningHash()      (type byte || rlp(signingFields()) of the Go object)
        go_marshal_tx t            = preimage of Transaction.Hash()             (MarshalBinary)
        header_signing_bytes_any h = preimage of Header.SigningHash()           (9 fields, 10 with a base fee)
      (the correspondence run hashes exactly these strings with the real Blake2b and compares with the real accessors).
      signed_part t = the Go object norm_tx t without its signature; header_signed_view h = all fields but the signature,
      the extension only when it carries a base fee. *)
Theorem go_signing_injective t1 t2 : wfp c_tx t1 -> wfp c_tx t2 -> go_signing_tx t1 = go_signing_tx t2 -> signed_part t1 = signed_part t2.
Proof. exact (go_signing_injective_l t1 t2). Qed.
Theorem go_marshal_injective t1 t2 : wfp c_tx t1 -> wfp c_tx t2 -> go_marshal_tx t1 = go_marshal_tx t2 -> norm_tx t1 = norm_tx t2.
Proof. exact (go_marshal_injective_l t1 t2). Qed.
(* both the 9-field and the 10-field form, and no 9-field preimage equals a 10-field one *)
Theorem header_signing_any_injective h1 h2 : wfp c_header h1 -> wfp c_header h2 ->
  header_signing_bytes_any h1 = header_signing_bytes_any h2 -> header_signed_view h1 = header_signed_view h2.
Proof. exact (header_signing_any_injective_l h1 h2). Qed.
(* remark (definitional): unfolds header_signed_view *)
Theorem header_view_with_base_fee h : wfp c_header h -> x_basefee (h_ext h) <> None -> header_signed_view h = header_sign_tuple h.
Proof. exact (view_basefee h). Qed.

(* same hash and id after re-encoding: decoding Go's re-encoding yields the same Go object (even inside the F2 class), and
   the hash / id preimages depend on the parse tree only through that object *)
Theorem tx_reencode_same_object b t : go_decode_tx b = Some t ->
  go_decode_tx (go_reencode_tx t) = Some (norm_tx t) /\
  go_signing_tx (norm_tx t) = go_signing_tx t /\ go_marshal_tx (norm_tx t) = go_marshal_tx t.
Proof. exact (tx_reencode_same_object_l b t). Qed.

(* id / hash corollaries, with Blake2b as an opaque function H.  Two forms:
   (a) Section IdExtract — UNCONDITIONAL: equal signing hash / id / hash => equal signed fields OR an explicit collision of H
       (two different byte strings with the same H value).  This is the form that is meaningful for a real hash.
   (b) Section IdBinding — under the named hypothesis H_inj (H injective on ALL byte strings).  No fixed-length hash satisfies
       H_inj (it is satisfiable only by identity-like functions, cf. ex_id_binding): these corollaries describe an IDEALISED
       collision-free H and are (a) with the collision disjunct assumed away.
   What is and is not bound.  Transaction.ID() = H(signingHash ++ origin) binds every signed field and the origin ADDRESS, not the
   signature bytes (two signatures recovering the same address give the same id; Hash() binds the signature bytes), and only when
   the signature recovers (origin = Some o; otherwise ID() is the zero id and nothing is claimed).  Header.ID() =
   number(4 bytes) ++ H(signingHash ++ signer)[4:] binds all fields but the signature, the extension only with a base fee, and the
   signer ADDRESS — not the signature bytes (an (r, n-s) twin recovering the same signer has the same id) — and the theorems are about
   the hash before the four-byte number overwrite (the real id needs collision-resistance of the remaining 28 bytes). *)
Section IdExtract.
  Variable H : bytes -> bytes.
  Theorem tx_equal_signing_hash_extracts t1 t2 : wfp c_tx t1 -> wfp c_tx t2 ->
    go_tx_signing_hash H t1 = go_tx_signing_hash H t2 -> signed_part t1 = signed_part t2 \/ collision H.
  Proof. exact (tx_signing_hash_extract_l H t1 t2). Qed.
  Theorem tx_equal_id_extracts t1 t2 o1 o2 : wfp c_tx t1 -> wfp c_tx t2 -> length o1 = length o2 ->
    go_tx_id H t1 (Some o1) = go_tx_id H t2 (Some o2) -> signed_part t1 = signed_part t2 \/ collision H.
  Proof. exact (tx_id_extract_l H t1 t2 o1 o2). Qed.
  Theorem tx_equal_hash_extracts t1 t2 : wfp c_tx t1 -> wfp c_tx t2 ->
    go_tx_hash H t1 = go_tx_hash H t2 -> norm_tx t1 = norm_tx t2 \/ collision H.
  Proof. exact (tx_hash_extract_l H t1 t2). Qed.
  Theorem header_equal_signing_hash_extracts h1 h2 : wfp c_header h1 -> wfp c_header h2 ->
    go_header_signing_hash H h1 = go_header_signing_hash H h2 -> header_signed_view h1 = header_signed_view h2 \/ collision H.
  Proof. exact (header_signing_hash_extract_l H h1 h2). Qed.
  Theorem header_equal_id_hash_extracts h1 h2 s1 s2 : wfp c_header h1 -> wfp c_header h2 -> length s1 = length s2 ->
    go_header_id_hash H h1 s1 = go_header_id_hash H h2 s2 -> header_signed_view h1 = header_signed_view h2 \/ collision H.
  Proof. exact (header_id_extract_l H h1 h2 s1 s2). Qed.
  (* the two F2 wire forms of one Go object share signing hash, id and hash for every H *)
  Theorem f2_pair_same_id b t o : go_decode_tx b = Some t ->
    exists t', go_decode_tx (go_reencode_tx t) = Some t' /\ go_tx_id H t' o = go_tx_id H t o /\ go_tx_hash H t' = go_tx_hash H t.
  Proof. exact (f2_pair_same_id_l H b t o). Qed.
End IdExtract.

Section IdBinding.
  Variable H : bytes -> bytes.
  Hypothesis H_inj : forall a b, H a = H b -> a = b.
  Theorem tx_signing_fields_bind_signing_hash t1 t2 : wfp c_tx t1 -> wfp c_tx t2 ->
    signed_part t1 <> signed_part t2 -> go_tx_signing_hash H t1 <> go_tx_signing_hash H t2.
  Proof. exact (tx_signing_hash_binds_l H H_inj t1 t2). Qed.
  Theorem tx_signed_field_change_changes_id t1 t2 o1 o2 : wfp c_tx t1 -> wfp c_tx t2 -> length o1 = length o2 ->
    signed_part t1 <> signed_part t2 -> go_tx_id H t1 (Some o1) <> go_tx_id H t2 (Some o2).
  Proof. exact (tx_id_binds_l H H_inj t1 t2 o1 o2). Qed.
  Theorem tx_hash_commits_to_signature_and_fields t1 t2 : wfp c_tx t1 -> wfp c_tx t2 ->
    norm_tx t1 <> norm_tx t2 -> go_tx_hash H t1 <> go_tx_hash H t2.
  Proof. exact (tx_hash_binds_l H H_inj t1 t2). Qed.
  Theorem header_field_change_changes_signing_hash h1 h2 : wfp c_header h1 -> wfp c_header h2 ->
    header_signed_view h1 <> header_signed_view h2 -> go_header_signing_hash H h1 <> go_header_signing_hash H h2.
  Proof. exact (header_signing_hash_binds_l H H_inj h1 h2). Qed.
  Theorem header_field_change_changes_id_hash h1 h2 s1 s2 : wfp c_header h1 -> wfp c_header h2 -> length s1 = length s2 ->
    header_signed_view h1 <> header_signed_view h2 -> go_header_id_hash H h1 s1 <> go_header_id_hash H h2 s2.
  Proof. exact (header_id_binds_l H H_inj h1 h2 s1 s2). Qed.
End IdBinding.

(* roots: the tree trie.DeriveRoot builds determines the ordered list (trie half: Trie/DeriveRoot.v derive_root_injective_bytes,
   i.e. C06's canonical-trie theorem; codec half: the keys rlp(i) are injective byte strings, the values determine the items).
   The root is the hash of that tree; "equal roots => equal trees" (collision-resistance of the node hash) is NOT part of these
   theorems: they are tree-level statements. *)
(* go_derive_tree inserts and never deletes, whereas Go's trie.Update(k, []) deletes: the model is DeriveRoot only for non-empty
   values, hence the premise (MarshalBinary forms are never empty, so the two corollaries below need no such premise) *)
Theorem derive_tree_injective vals1 vals2 : Forall (fun v => v <> []) vals1 -> Forall (fun v => v <> []) vals2 ->
  lenN vals1 < u64max1 -> lenN vals2 < u64max1 -> go_derive_tree vals1 = go_derive_tree vals2 -> vals1 = vals2.
Proof. intros _ _. exact (derive_tree_injective_l vals1 vals2). Qed.
Theorem txs_root_commits_to_ordered_txs l1 l2 : Forall (wfp c_tx) l1 -> Forall (wfp c_tx) l2 -> lenN l1 < u64max1 -> lenN l2 < u64max1 ->
  go_derive_tree (map go_marshal_tx l1) = go_derive_tree (map go_marshal_tx l2) -> map norm_tx l1 = map norm_tx l2.
Proof. exact (txs_root_tree_binds_l l1 l2). Qed.
Theorem receipts_root_commits_to_ordered_receipts l1 l2 : Forall wf_rbin l1 -> Forall wf_rbin l2 -> lenN l1 < u64max1 -> lenN l2 < u64max1 ->
  go_derive_tree (map go_marshal_receipt l1) = go_derive_tree (map go_marshal_receipt l2) -> l1 = l2.
Proof. exact (receipts_root_tree_binds_l l1 l2). Qed.

(* the same injectivity on the parse trees (wire forms), kept as the lemmas the above is built from *)
Theorem tx_signing_fields_injective t1 t2 :
  (if t_dyn t1 then wfp (cwrap dyn_sign_fields) (dyn_sign_tuple t1) else wfp (cwrap legacy_sign_fields) (legacy_sign_tuple t1)) ->
  (if t_dyn t2 then wfp (cwrap dyn_sign_fields) (dyn_sign_tuple t2) else wfp (cwrap legacy_sign_fields) (legacy_sign_tuple t2)) ->
  tx_signing_bytes t1 = tx_signing_bytes t2 ->
  t_dyn t1 = t_dyn t2 /\
  (if t_dyn t1 then dyn_sign_tuple t1 = dyn_sign_tuple t2 else legacy_sign_tuple t1 = legacy_sign_tuple t2).
Proof. exact (tx_signing_injective_l t1 t2). Qed.
Theorem tx_hash_preimage_injective t1 t2 : wfp c_tx t1 -> wfp c_tx t2 -> enc c_tx t1 = enc c_tx t2 -> t1 = t2.
Proof. exact (codec_inj c_tx t1 t2 c_tx_ok). Qed.
Theorem header_fields_injective h1 h2 :
  wfp (cwrap header_sign_fields) (header_sign_tuple h1) -> wfp (cwrap header_sign_fields) (header_sign_tuple h2) ->
  header_signing_bytes h1 = header_signing_bytes h2 -> header_sign_tuple h1 = header_sign_tuple h2.
Proof. exact (header_signing_injective_l h1 h2). Qed.

(* every object a decoder can return satisfies the premises of the injectivity theorems *)
Theorem decoded_tx_signing_wf b t : go_decode_tx b = Some t ->
  if t_dyn t then wfp (cwrap dyn_sign_fields) (dyn_sign_tuple t) else wfp (cwrap legacy_sign_fields) (legacy_sign_tuple t).
Proof. intros H. apply tx_sign_wf. exact (proj2 (tx_decode_sound_l b t H)). Qed.
Theorem decoded_header_signing_wf b h : go_decode_header b = Some h -> wfp (cwrap header_sign_fields) (header_sign_tuple h).
Proof. intros H. apply header_sign_wf. exact (proj2 (header_decode_canonical_l b h H)). Qed.

(* non-vacuity: concrete objects satisfying the hypotheses *)
Definition ex_clause := mkClause (Ptr (repeat 7 20)) 1000000000000000000 [1; 2; 3].
Definition ex_tx_legacy :=
  mkTx false 74 4294967296 720 [ex_clause; mkClause NilStr 0 [96; 128]] 128 0 0 21000 NilStr 12345678 (mkRes 1 []) (repeat 9 130).
Definition ex_tx_dyn :=
  mkTx true 39 4294967296 32 [ex_clause] 0 7 10000000000000 50000 (Ptr (repeat 3 32)) 255 (mkRes 0 [[129; 5]]) (repeat 9 65).
Definition ex_header :=
  mkHeader (repeat 1 32) 1700000000 40000000 (repeat 2 20) 21000 1000 (mkTrf (repeat 3 32) 1) (repeat 4 32) (repeat 5 32)
           (repeat 6 65) (mkExt [1; 2] true (Some 10000000000000)).
Example ex_tx_legacy_wf : wfp c_tx ex_tx_legacy /\ tx_has_nil_list ex_tx_legacy = false.
Proof.
  split; [|reflexivity]. apply (tx_decode_is_encoding (enc c_tx ex_tx_legacy)). vm_compute. reflexivity.
Qed.
Example ex_tx_dyn_wf : wfp c_tx ex_tx_dyn /\ tx_has_nil_list ex_tx_dyn = false.
Proof.
  split; [|reflexivity]. apply (tx_decode_is_encoding (enc c_tx ex_tx_dyn)). vm_compute. reflexivity.
Qed.
Example ex_header_wf : wfp c_header ex_header.
Proof. apply (header_decode_canonical (enc c_header ex_header)). vm_compute. reflexivity. Qed.
Example ex_block_wf : wfp c_block (mkBlock ex_header [ex_tx_legacy; ex_tx_dyn]).
Proof. apply (block_decode_canonical_except (enc c_block (mkBlock ex_header [ex_tx_legacy; ex_tx_dyn]))); vm_compute; reflexivity. Qed.
Example ex_sign_wf :
  wfp (cwrap dyn_sign_fields) (dyn_sign_tuple ex_tx_dyn) /\ wfp (cwrap legacy_sign_fields) (legacy_sign_tuple ex_tx_legacy) /\
  wfp (cwrap header_sign_fields) (header_sign_tuple ex_header).
Proof.
  split; [|split].
  - apply (dec_exact_sound _ (enc (cwrap dyn_sign_fields) (dyn_sign_tuple ex_tx_dyn)) _ (proj1 dyn_sign_ok)). vm_compute. reflexivity.
  - apply (dec_exact_sound _ (enc (cwrap legacy_sign_fields) (legacy_sign_tuple ex_tx_legacy)) _ (proj1 legacy_sign_ok)). vm_compute. reflexivity.
  - apply (dec_exact_sound _ (enc (cwrap header_sign_fields) (header_sign_tuple ex_header)) _ (proj1 header_sign_ok)). vm_compute. reflexivity.
Qed.

Example ex_item_wf : wf_item (Lst [Str [1]; Lst [Str (repeat 7 60); Lst []]; Str []]).
Proof. cbn. unfold two64. repeat split; exact eq_refl. Qed.

Example ex_intrinsic : intrinsic_gas (t_clauses ex_tx_legacy) = Some 69340 /\ lenN (t_clauses ex_tx_legacy) <= max_clauses /\
  lenN (concat (map c_data (t_clauses ex_tx_legacy))) < 2 ^ 56.
Proof. split; [|split]; vm_compute; [reflexivity|discriminate|reflexivity]. Qed.
Definition ex_receipt :=
  mkReceipt true 21000 (repeat 8 20) 210000000000000000 63000000000000000 false
            [mkOutput [mkEvent (repeat 1 20) [repeat 2 32; repeat 3 32] [9; 9]] [mkTransfer (repeat 4 20) (repeat 5 20) 1000]; mkOutput [] []].
Example ex_receipt_wf : wfp c_receipt ex_receipt /\ wf_rbin ex_receipt.
Proof.
  split.
  - apply (receipt_decode_canonical (enc c_receipt ex_receipt)). vm_compute. reflexivity.
  - exact (proj2 (receipt_unmarshal_canonical (receipt_marshal ex_receipt) ex_receipt ltac:(vm_compute; reflexivity))).
Qed.
(* a block-level F2 witness: [header, [tx with 0xc0 as DependsOn]] decodes and re-encodes differently *)
Example ex_block_f2 : exists bs b, go_decode_block bs = Some b /\ block_has_nil_list b = true /\ go_reencode_block b <> bs.
Proof.
  exists (enc c_block (mkBlock ex_header [mkTx false 0 0 0 [] 0 0 0 0 NilList 0 (mkRes 0 []) []])). eexists.
  split; [vm_compute; reflexivity|]. split; [reflexivity|]. vm_compute. discriminate.
Qed.
(* the concrete F2 pair (f2_depends_witness and its re-encoding) decodes to two trees with one id, for every H and origin *)
Example ex_f2_pair_same_id (H : bytes -> bytes) o : exists t t', go_decode_tx f2_depends_witness = Some t /\
  go_reencode_tx t <> f2_depends_witness /\ go_decode_tx (go_reencode_tx t) = Some t' /\ go_tx_id H t' o = go_tx_id H t o.
Proof.
  destruct tx_nil_ptr_refuted as [t [Hd [_ [_ Hn]]]]. destruct (f2_pair_same_id H _ t o Hd) as [t' [H1 [H2 _]]].
  exists t, t'. repeat split; assumption.
Qed.
(* the id-binding hypotheses are satisfiable: an injective toy hash and two transactions differing in one signed field *)
Example ex_id_binding :
  let H := fun b : bytes => b in
  (forall a b, H a = H b -> a = b) /\ wfp c_tx ex_tx_legacy /\ wfp c_tx ex_tx_dyn /\ signed_part ex_tx_legacy <> signed_part ex_tx_dyn /\
  go_tx_id H ex_tx_legacy (Some (repeat 1 20)) <> go_tx_id H ex_tx_dyn (Some (repeat 2 20)).
Proof.
  cbv zeta. assert (Hd : signed_part ex_tx_legacy <> signed_part ex_tx_dyn) by (vm_compute; discriminate).
  split; [auto|]. split; [exact (proj1 ex_tx_legacy_wf)|]. split; [exact (proj1 ex_tx_dyn_wf)|]. split; [exact Hd|].
  apply tx_signed_field_change_changes_id; [auto|exact (proj1 ex_tx_legacy_wf)|exact (proj1 ex_tx_dyn_wf)|reflexivity|exact Hd].
Qed.
Example ex_wf_bin : Forall wf_bin [ex_tx_legacy; ex_tx_dyn].
Proof.
  apply Forall_cons; [|apply Forall_cons; [|apply Forall_nil]].
  - exact (proj2 (tx_unmarshal_canonical (tx_marshal ex_tx_legacy) ex_tx_legacy ltac:(vm_compute; reflexivity))).
  - exact (proj2 (tx_unmarshal_canonical (tx_marshal ex_tx_dyn) ex_tx_dyn ltac:(vm_compute; reflexivity))).
Qed.

Print Assumptions rlp_head_canonical.
Print Assumptions block_exception_is_lifted_tx_class.
Print Assumptions tx_decode_canonical_statement_refuted.
Print Assumptions receipt_unmarshal_canonical.
Print Assumptions receipt_unmarshal_roundtrip.
Print Assumptions tx_reencode_same_object.
Print Assumptions tx_equal_signing_hash_extracts.
Print Assumptions tx_equal_id_extracts.
Print Assumptions tx_equal_hash_extracts.
Print Assumptions header_equal_signing_hash_extracts.
Print Assumptions header_equal_id_hash_extracts.
Print Assumptions f2_pair_same_id.
Print Assumptions go_signing_injective.
Print Assumptions go_marshal_injective.
Print Assumptions header_signing_any_injective.
Print Assumptions header_view_with_base_fee.
Print Assumptions tx_signing_fields_bind_signing_hash.
Print Assumptions tx_signed_field_change_changes_id.
Print Assumptions tx_hash_commits_to_signature_and_fields.
Print Assumptions header_field_change_changes_signing_hash.
Print Assumptions header_field_change_changes_id_hash.
Print Assumptions derive_tree_injective.
Print Assumptions txs_root_commits_to_ordered_txs.
Print Assumptions receipts_root_commits_to_ordered_receipts.
Print Assumptions tx_decode_canonical_iff.
Print Assumptions tx_unmarshal_canonical_iff.
Print Assumptions tx_reencode_length.
Print Assumptions tx_size_cached_is_canonical.
Print Assumptions block_decode_canonical_iff.
Print Assumptions block_size_cached_is_canonical.
Print Assumptions intrinsic_gas_exact.
Print Assumptions intrinsic_gas_total.
Print Assumptions root_keys_prefix_free.
Print Assumptions root_pairs_determine_list.
Print Assumptions txs_values_determine.
Print Assumptions rlp_decode_encode.
Print Assumptions rlp_canonical.
Print Assumptions rawblock_two_phase_agrees.
Print Assumptions clauses_decoder_is_bounded_slice.
Print Assumptions decoded_tx_signing_wf.
Print Assumptions decoded_header_signing_wf.
Print Assumptions tx_roundtrip.
Print Assumptions tx_decode_encode.
Print Assumptions tx_decode_is_encoding.
Print Assumptions tx_nil_ptr_refuted.
Print Assumptions tx_clause_nil_ptr_refuted.
Print Assumptions tx_decode_canonical_except.
Print Assumptions tx_unmarshal_canonical.
Print Assumptions tx_unmarshal_roundtrip.
Print Assumptions header_roundtrip.
Print Assumptions header_decode_canonical.
Print Assumptions header_features_refuted_before_fix.
Print Assumptions header_features_fixed.
Print Assumptions receipt_roundtrip.
Print Assumptions receipt_decode_canonical.
Print Assumptions block_roundtrip.
Print Assumptions block_decode_canonical_except.
Print Assumptions tx_signing_fields_injective.
Print Assumptions tx_hash_preimage_injective.
Print Assumptions header_fields_injective.

(* ================================================================ composition *)
(* C11 <-> C09 (Compose/TxIdBind.v).  C09's chain-level theorems (a transaction is on a chain at most once, inside its window;
   the lookup paths agree) are stated over an abstract universe of transaction records (id, chain tag, block-ref number,
   expiration, depends-on, origin) under the premise "an id determines the record".  For the records of the transactions the
   decoders above return (TxIdBind.view H t o, o the 20 recovered origin bytes) that premise is the id binding of section 4:
   under H_inj equal Transaction.ID()s give equal signed parts, equal origins, hence equal records — the positive form of
   tx_signed_field_change_changes_id, extended to the origin.  Properties/C09.v (13-17) restates C09's theorems with its
   premise replaced by H_inj. *)
Section CompositionC09.
  Variable H : bytes -> bytes.
  Hypothesis H_inj : forall a b, H a = H b -> a = b.
  Theorem tx_id_binds_chain_record t1 t2 o1 o2 : wfp c_tx t1 -> wfp c_tx t2 -> length o1 = length o2 ->
    go_tx_id H t1 (Some o1) = go_tx_id H t2 (Some o2) ->
    signed_part t1 = signed_part t2 /\ o1 = o2 /\ TxIdBind.view H t1 o1 = TxIdBind.view H t2 o2.
  Proof. exact (TxIdBind.id_binds_record H H_inj t1 t2 o1 o2). Qed.
  Theorem decoded_tx_records_determined_by_id : forall r1 r2, TxIdBind.c11_universe H r1 -> TxIdBind.c11_universe H r2 ->
    Chain.Model.tx_id r1 = Chain.Model.tx_id r2 -> r1 = r2.
  Proof. exact (TxIdBind.c11_universe_inj H H_inj). Qed.
End CompositionC09.
(* every decoded transaction has a record in that universe *)
Theorem decoded_tx_has_chain_record H b t o : go_decode_tx b = Some t -> length o = 20%nat ->
  TxIdBind.c11_universe H (TxIdBind.view H t o).
Proof. exact (TxIdBind.decoded_in_universe H b t o). Qed.
(* non-vacuity: the injective toy hash, two decodable transactions with different signed parts and hence different record ids *)
Example ex_chain_record :
  (forall a b, TxIdBindExamples.x_H a = TxIdBindExamples.x_H b -> a = b) /\
  wfp c_tx TxIdBindExamples.x_ta /\ wfp c_tx TxIdBindExamples.x_tb /\
  signed_part TxIdBindExamples.x_ta <> signed_part TxIdBindExamples.x_tb /\
  Chain.Model.tx_id TxIdBindExamples.x_va <> Chain.Model.tx_id TxIdBindExamples.x_vb.
Proof.
  split; [exact TxIdBindExamples.x_H_inj|]. split; [exact (proj1 TxIdBindExamples.x_wf)|].
  split; [exact (proj1 (proj2 TxIdBindExamples.x_wf))|]. exact TxIdBindExamples.x_binding.
Qed.

Print Assumptions tx_id_binds_chain_record.
Print Assumptions decoded_tx_records_determined_by_id.
Print Assumptions decoded_tx_has_chain_record.
Print Assumptions ex_chain_record.
